#!/usr/bin/env python3
"""Generator of the per-program-counter preservation lemmas of the QRwN invariant (Model/C08NInv.lean).

For every clause group G and every program counter X it writes a lemma  `G_X : Inv st → ops = op :: r → pc = X → ∀ i (j), clause (s_X st t).st i (j)`
into `G_<group>.lean`, with the default proof below or, where that does not close the goal, the hand-written proof found in
`manual/<group>.txt` (sections `-- @<pc>`), and the assembly theorem `pres_<group> : Inv st → ∀ i (j), clause (step st t) i (j)`.
Run `python3 gen.py [group ...]` in this directory after changing a manual file; the generated .lean files are committed."""
import re, sys, os
HERE = os.path.dirname(os.path.abspath(__file__))
MODEL = open(os.path.join(HERE, "..", "..", "Model", "C08N.lean")).read()
sys.path.insert(0, HERE)
import gencls
PCS = gencls.PCS
UPG = set(gencls.CLASSES["isUpgOnly"])

# group -> (clause, arity)
GROUPS = {
    "noUpg": ("c1NoUpg", 1), "phase": ("c1Phase", 1), "init": ("c1Init", 1), "mode": ("c1Mode", 1), "ar": ("c1Ar", 1),
    "state": ("c1State", 1), "ghost": ("c1Ghost", 1), "tail": ("c1Tail", 1), "pred": ("c1Pred", 1), "prev": ("c1Prev", 1), "own": ("c1Own", 1),
    "nxt": ("c1Nxt", 1), "a": ("c2A", 2), "g": ("c2G", 2), "next": ("c2Next", 2), "own2": ("c2Own", 2), "unb": ("c2Unb", 2), "go": ("c2Go", 2),
}
ONES = [g for g, (c, a) in GROUPS.items() if a == 1]
C1 = " ".join(GROUPS[g][0] for g in ONES)

TWOS = [g for g, (c, a) in GROUPS.items() if a == 2]
C2 = " ".join(GROUPS[g][0] for g in TWOS)

def facts1(v, lit):
    return ("qself %s" if lit else "qnode %s") % v

def facts2(a, b):
    return "qpair %s %s" % (a, b)

def tfacts():
    return "  qself t\n"

NODE_TERMS = {"np": "(nodeOf (st.loc t).pred)", "nx": "(nodeOf (st.loc t).nxt)", "ntl": "(nodeOf st.tail)"}

def fin(hyp, others, lemmas="", facts=None):
    """finisher of one branch.  Without `facts`: the clause instance alone, then + one-node facts of the stepping thread, then + all facts
    among the nodes at hand.  With `facts` (tactic text from the manual file): one-node facts of the stepping thread + those facts."""
    g = "grind" + (" [%s]" % lemmas if lemmas else "")
    if facts is not None:
        fl = [l.strip() for l in facts.split("\n") if l.strip()]
        if fl and fl[0].startswith("GRIND "):      # custom final tactic
            g = fl[0][len("GRIND "):]; fl = fl[1:]
        names = re.findall(r"have (\w+) :=", " ".join(fl))
        norm = ["(try simp (config := { decide := true }) only [hpc, isPtr] at " + " ".join(names) + ")"] if names else []
        return "(" + "; ".join(["qself t"] + fl + norm + [g]) + ")"
    nodes = ["t"] + others
    l2 = "; ".join(["qnode %s" % o for o in others] + ["qpair %s %s" % (x, y) for x in nodes for y in nodes if x != y])
    alts = "first | exact %s | %s | (qself t; %s)" % (hyp, g, g)
    if l2:
        alts += " | (qself t; %s; %s)" % (l2, g)
    return alts

def default1(c, g, sec=None):
    sec = sec or {}
    return ("  intro i\n  have hi := h.%s i\n" % g + sec.get("PRE", "") + "  simp only [qrw]\n  repeat' split\n  all_goals first\n" +
            ("  | (simp only [%s, qrw, qconst] at hi ⊢; exact hi)\n"
             "  | (by_cases e : i = t\n"
             "     · subst i; simp only [%s, isPtr, qrw, qconst, upd_same, hpc, qite] at hi ⊢; (try simp only [qite] at hi ⊢); (try simp only [qpc, ite_self] at hi ⊢); %s\n"
             "     · simp only [%s, isPtr, qrw, qconst, upd, e, ↓reduceIte] at hi ⊢; %s)\n")
            % (c, c, fin("hi", [], "upd", sec.get("SELF")), c, fin("hi", ["i"], "", sec.get("OTHER"))))

def default2(c, g, sec=None):
    sec = sec or {}
    return ("  intro i j\n  have hij := h.%s i j\n" % g + sec.get("PRE", "") + "  simp only [qrw]\n  repeat' split\n  all_goals first\n" +
            ("  | (simp only [%s, qrw, qconst] at hij ⊢; exact hij)\n"
             "  | (by_cases ei : i = t <;> by_cases ej : j = t\n"
             "     · subst i; subst j; simp only [%s, isPtr, qrw, qconst, upd_same, hpc, qite] at hij ⊢; (try simp only [qite] at hij ⊢); (try simp only [qpc, ite_self] at hij ⊢); %s\n"
             "     · subst i; simp only [%s, isPtr, qrw, qconst, upd_same, upd, ej, hpc, qite, ↓reduceIte] at hij ⊢; (try simp only [qite] at hij ⊢); (try simp (config := { decide := true }) only [ite_self] at hij ⊢); %s\n"
             "     · subst j; simp only [%s, isPtr, qrw, qconst, upd_same, upd, ei, hpc, qite, ↓reduceIte] at hij ⊢; (try simp only [qite] at hij ⊢); (try simp (config := { decide := true }) only [ite_self] at hij ⊢); %s\n"
             "     · simp only [%s, isPtr, qrw, qconst, upd, ei, ej, ↓reduceIte] at hij ⊢; %s)\n")
            % (c, c, fin("hij", [], "upd", sec.get("BOTH")), c, fin("hij", ["j"], "", sec.get("I_T")),
               c, fin("hij", ["i"], "", sec.get("J_T")), c, fin("hij", ["i", "j"], "", sec.get("NONE"))))

SECTIONS = ("PRE", "SELF", "OTHER", "BOTH", "I_T", "J_T", "NONE")

def sections(txt):
    """manual text made of sections `SELF` / `OTHER` / ... (each followed by indented tactic lines) -> dict, or None if it is a free proof"""
    lines = txt.split("\n")
    if not lines or lines[0].strip() not in SECTIONS:
        return None
    res, cur = {}, None
    for l in lines:
        if l.strip() in SECTIONS and not l.startswith(" "):
            cur = l.strip(); res[cur] = ""
        elif cur is not None and l.strip():
            res[cur] += ("  " if cur == "PRE" else "       ") + l.strip() + "\n"
    return res

def manual(group):
    p = os.path.join(HERE, "manual", group + ".txt")
    res = {}
    if os.path.exists(p):
        cur = None
        for l in open(p).read().split("\n"):
            mm = re.match(r"^-- @(\w+)\s*$", l)
            if mm:
                cur = mm.group(1); res[cur] = []
            elif cur is not None:
                res[cur].append(l)
    return {k: "\n".join(v).rstrip() + "\n" for k, v in res.items()}

def gen(group):
    c, ar = GROUPS[group]
    man = manual(group)
    vars_ = "i" if ar == 1 else "i j"
    out = "/- GENERATED by gen.py (manual proofs from manual/%s.txt) — preservation of `%s` by every step of QRwN. -/\n" % (group, c)
    out += "import TbbVerif.Proofs.C08N.Tac\nset_option linter.unusedVariables false\nset_option linter.unusedSimpArgs false\nnamespace TbbVerif.C08.QRwN\n\n"
    if "PRELUDE" in man:
        out += man["PRELUDE"] + "\n"
    for pc in PCS:
        f = "startOut st t op" if pc == "start" else "s_%s st t" % pc
        out += ("theorem %s_%s (st : St) (t : Tid) (h : Inv st) (op : Op) (r : List Op) (hops : (st.loc t).ops = op :: r)\n"
                "    (hpc : (st.loc t).pc = .%s) : ∀ %s, %s (%s).st %s := by\n") % (group, pc, pc, vars_, c, f, vars_)
        if pc in UPG:
            out += "  exact absurd (h.noUpg t).2.1 (by rw [hpc]; decide)\n"
        elif pc in man and sections(man[pc]) is not None:
            d = (default1 if ar == 1 else default2)(c, group, sections(man[pc]))
            if pc == "start":
                out += "  cases op <;> (\n" + "\n".join("  " + l for l in d.rstrip("\n").split("\n")) + ")\n"
            else:
                out += d
        elif pc in man:
            txt = man[pc]
            d = (default1 if ar == 1 else default2)(c, group)
            def expand(mm):
                ind = mm.group(1)
                return ind + "(\n" + "\n".join(ind + l for l in d.rstrip("\n").split("\n")) + ")\n"
            txt = re.sub(r"^( *)DEFAULT\n", expand, txt, flags=re.M)
            out += txt
        elif pc == "start":
            d = (default1 if ar == 1 else default2)(c, group)
            out += "  cases op <;> (\n" + "\n".join("  " + l for l in d.rstrip("\n").split("\n")) + ")\n"
        else:
            out += (default1 if ar == 1 else default2)(c, group)
        out += "\n"
    out += "theorem pres_%s (st : St) (t : Tid) (h : Inv st) : ∀ %s, %s (step st t) %s :=\n" % (group, vars_, c, vars_)
    out += "  step_cases st t (fun s => ∀ %s, %s s %s) (fun _ => h.%s)\n" % (vars_, c, vars_, group)
    out += "".join("    (%s_%s st t h)\n" % (group, pc) for pc in PCS)
    out += "\nend TbbVerif.C08.QRwN\n"
    open(os.path.join(HERE, "G_%s.lean" % group), "w").write(out)

def gen_tac():
    c1 = ", ".join(GROUPS[g][0] for g in ONES); c2 = ", ".join(GROUPS[g][0] for g in TWOS)
    tac = """/- GENERATED by gen.py — tactics that put instances of the invariant clauses into the context (for `grind`). -/
import TbbVerif.Proofs.C08N.Basic
import TbbVerif.Proofs.C08N.Acc
import TbbVerif.Proofs.C08N.Safe

namespace TbbVerif.C08.QRwN

set_option hygiene false in
/-- all one-node clauses at the stepping thread `v`: its program counter is the literal of `hpc`, so the pc classes evaluate -/
macro "qself " v:term : tactic => `(tactic| (
%s
  simp only [%s, isPtr, hpc, qpc] at %s))

set_option hygiene false in
/-- all one-node clauses at another node -/
macro "qnode " v:term : tactic => `(tactic| (
%s
  simp only [%s, isPtr] at %s))

set_option hygiene false in
/-- all two-node clauses at the ordered pair (a, b) -/
macro "qpair " a:term:max b:term:max : tactic => `(tactic| (
%s
  simp only [%s, isPtr] at %s))

end TbbVerif.C08.QRwN
""" % ("\n".join("  have f_%s := h.%s $v" % (g, g) for g in ONES), c1, " ".join("f_" + g for g in ONES),
       "\n".join("  have n_%s := h.%s $v" % (g, g) for g in ONES), c1, " ".join("n_" + g for g in ONES),
       "\n".join("  have p_%s := h.%s $a $b" % (g, g) for g in TWOS), c2, " ".join("p_" + g for g in TWOS))
    open(os.path.join(HERE, "Tac.lean"), "w").write(tac)

if __name__ == "__main__":
    gen_tac()
    for g in (sys.argv[1:] or list(GROUPS)):
        gen(g)
