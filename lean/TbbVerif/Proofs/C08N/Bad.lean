/- C08 / QRwN — no step dereferences a null or tagged pointer; the invariant holds initially. -/
import TbbVerif.Proofs.C08N.Tac

namespace TbbVerif.C08.QRwN

theorem badPtr_of_isPtr (p : Nat) (h : isPtr p) : badPtr p = false := by
  obtain ⟨t, rfl⟩ := isPtr_iff.mp h; exact badPtr_P t

set_option maxHeartbeats 800000 in
theorem pres_bad (st : St) (t : Tid) (h : Inv st) : (step st t).bad = false := by
  have hb := h.bad
  apply step_cases st t (fun s => s.bad = false) (fun _ => hb)
  case h_start => intro op r hops hpc; cases op <;> simp only [qrw] <;> (repeat' split) <;> exact hb
  all_goals (intro op r hops hpc)
  all_goals first
    | exact absurd (h.noUpg t).2.1 (by rw [hpc]; decide)
    | (simp only [qrw]; (repeat' split) <;> exact hb)
    | skip
  -- the steps that dereference `pred`
  case h_awLink | h_arPst | h_arLink =>
    have hp := h.pred_1 t (by rw [hpc]; decide)
    have hg := h.ghost_2 t (h.phase_2 t (by rw [hpc]; decide)) (by rw [← hp.1]; exact hp.2)
    simp only [qrw, Bool.or_eq_false_iff]
    exact ⟨hb, badPtr_of_isPtr _ (by rw [hp.1]; exact hg)⟩
  case h_rrTryP =>
    have hp := (h.pred_5 t (by rw [hpc]; decide)).1
    simp only [qrw]; (repeat' split) <;> simp only [Bool.or_eq_false_iff] <;> exact ⟨hb, badPtr_of_isPtr _ hp⟩
  -- the steps that dereference `nxt`
  all_goals (
    have hn := h.nxt_1 t (by rw [hpc]; decide)
    have hg := h.nxt_4 t (h.phase_2 t (by rw [hpc]; decide)) (by rw [← hn.1]; exact hn.2)
    simp only [qrw, Bool.or_eq_false_iff]
    first
      | exact ⟨hb, badPtr_of_isPtr _ (by rw [hn.1]; exact hg)⟩
      | ((repeat' split) <;> exact ⟨hb, badPtr_of_isPtr _ (by rw [hn.1]; exact hg)⟩))

/-- no program contains upgrade_to_writer -/
def noUpgProg (progs : List (List Op)) : Prop := ∀ p ∈ progs, ∀ op ∈ p, op ≠ Op.upgrade

instance (progs : List (List Op)) : Decidable (noUpgProg progs) := by unfold noUpgProg; infer_instance

theorem inv_init (progs : List (List Op)) (hn : noUpgProg progs) : Inv (sys progs).init := by
  have hops : ∀ i, ∀ op ∈ (initLoc progs i).ops, op ≠ Op.upgrade := by
    intro i op hop
    simp only [initLoc, List.getD_eq_getElem?_getD] at hop
    cases hg : progs[i]? with
    | none => rw [hg] at hop; cases hop
    | some p =>
      rw [hg] at hop
      exact hn p (List.mem_of_getElem? hg) op hop
  have hP : ∀ i : Tid, ¬ 0 = P i := fun i hh => P_ne_zero i hh.symm
  constructor
  · intro i; exact ⟨hops i, by simp (config := { decide := true }) [sys, initLoc], by simp [sys], by simp [sys], by simp [sys]⟩
  all_goals first
    | (intro i; simp (config := { decide := true }) [c1Phase, c1Init, c1Mode, c1Ar, c1State, c1Ghost, c1Tail, c1Pred, c1Prev, c1Own, c1Nxt, sys, initLoc, isPtr, hP]; done)
    | (intro i j; simp (config := { decide := true }) [c2A, c2G, c2Next, c2Own, c2Unb, c2Go, sys, initLoc, isPtr, hP]; done)
    | rfl

end TbbVerif.C08.QRwN
