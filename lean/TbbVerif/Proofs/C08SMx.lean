/- C08 — tbb::mutex model (SlMx): mutual exclusion, monitor well-formedness, wake-up in flight, no lost hand-off. -/
import TbbVerif.Proofs.C08Mon
namespace TbbVerif.C08.Slp.Mx

@[simp] theorem upd_same (f : Tid → Th) (t : Tid) (x : Th) : upd f t x t = x := by simp [upd]
theorem upd_other (f : Tid → Th) (t i : Tid) (x : Th) (h : i ≠ t) : upd f t x i = f i := by simp [upd, h]

structure InvE (st : St) : Prop where
  e1 : ∀ t u, (st.th t).holds = true → (st.th u).holds = true → t = u
  e2 : ∀ t, (st.th t).holds = true → st.flag = true
  e3 : st.flag = true → ∃ t, (st.th t).holds = true

@[simp] theorem giveTok_holds (f : Tid → Th) (rem : List Tid) (i : Tid) : (giveTok f rem i).holds = (f i).holds := by
  unfold giveTok; split <;> rfl

theorem invE_same {st st' : St} (h : InvE st) (hf : st'.flag = st.flag) (hh : ∀ i, (st'.th i).holds = (st.th i).holds) : InvE st' := by
  obtain ⟨e1, e2, e3⟩ := h
  refine ⟨fun a b ha hb => e1 a b (by rw [← hh]; exact ha) (by rw [← hh]; exact hb), fun a ha => by rw [hf]; exact e2 a (by rw [← hh]; exact ha), fun hfl => ?_⟩
  obtain ⟨a, ha⟩ := e3 (by rw [← hf]; exact hfl)
  exact ⟨a, by rw [hh]; exact ha⟩

theorem invE_acq {st st' : St} (h : InvE st) (t : Tid) (hfl : st.flag = false) (hf : st'.flag = true) (ht : (st'.th t).holds = true)
    (hh : ∀ i, i ≠ t → (st'.th i).holds = (st.th i).holds) : InvE st' := by
  obtain ⟨e1, e2, e3⟩ := h
  have none : ∀ i, (st.th i).holds = false := by
    intro i; cases hi : (st.th i).holds with
    | false => rfl
    | true => have := e2 i hi; rw [hfl] at this; cases this
  refine ⟨fun a b ha hb => ?_, fun _ _ => hf, fun _ => ⟨t, ht⟩⟩
  have ha' : a = t := by
    apply Classical.byContradiction; intro hc; rw [hh a hc, none a] at ha; cases ha
  have hb' : b = t := by
    apply Classical.byContradiction; intro hc; rw [hh b hc, none b] at hb; cases hb
  rw [ha', hb']

theorem invE_rel {st st' : St} (h : InvE st) (t : Tid) (hho : (st.th t).holds = true) (hf : st'.flag = false) (ht : (st'.th t).holds = false)
    (hh : ∀ i, i ≠ t → (st'.th i).holds = (st.th i).holds) : InvE st' := by
  obtain ⟨e1, e2, e3⟩ := h
  have none : ∀ i, (st'.th i).holds = false := by
    intro i; by_cases hi : i = t
    · rw [hi]; exact ht
    · rw [hh i hi]
      cases hc : (st.th i).holds with
      | false => rfl
      | true => exact absurd (e1 i t hc hho) hi
  refine ⟨fun a b ha _ => ?_, fun a ha => ?_, fun hfl => ?_⟩
  · rw [none a] at ha; cases ha
  · rw [none a] at ha; cases ha
  · rw [hf] at hfl; cases hfl

theorem invE_step (st : St) (t : Tid) (h : InvE st) : InvE (step st t) := by
  unfold step stepEv
  dsimp only
  split
  · exact h
  · rename_i op rest hops
    split
    all_goals (try (split))
    all_goals (try (split))
    all_goals (try (split))
    all_goals (try (refine invE_same h rfl (fun i => ?_); by_cases hi : i = t <;> simp [hi, upd, Th.done]; done))
    · rename_i hf _; exact invE_acq h t (by simpa using hf) rfl (by simp) (fun i hi => by simp [upd, hi])
    · rename_i hf _; exact invE_acq h t (by simpa using hf) rfl (by simp) (fun i hi => by simp [upd, hi])
    · rename_i hf _; exact invE_acq h t (by simpa using hf) rfl (by simp) (fun i hi => by simp [upd, hi])
    · rename_i hf _; exact invE_acq h t (by simpa using hf) rfl (by simp) (fun i hi => by simp [upd, hi])
    · rename_i hh; exact invE_rel h t (by simpa using hh) rfl (by simp) (fun i hi => by simp [upd, hi])


/-! ### monitor well-formedness and "wake-up in flight" -/

def mwOf (st : St) : Tid → WT := fun i => (st.th i).mw

structure InvM (st : St) : Prop where
  wfw : ∀ i, (st.th i).pc ≠ .wait → (st.th i).mw.w = .none
  wfn : ∀ i, (st.th i).pc ≠ .notify → (st.th i).mw.n = .none
  wake : WakeInFlight st.mon (mwOf st)

@[simp] theorem giveTok_mw (f : Tid → Th) (rem : List Tid) (i : Tid) : (giveTok f rem i).mw = (f i).mw := by
  unfold giveTok; split <;> rfl
@[simp] theorem giveTok_pc (f : Tid → Th) (rem : List Tid) (i : Tid) : (giveTok f rem i).pc = (f i).pc := by
  unfold giveTok; split <;> rfl
@[simp] theorem giveTok_ops (f : Tid → Th) (rem : List Tid) (i : Tid) : (giveTok f rem i).ops = (f i).ops := by
  unfold giveTok; split <;> rfl

theorem mwOf_upd (st : St) (t : Tid) (x : Th) (m : Mon) (fl : Bool) :
    mwOf { st with flag := fl, mon := m, th := upd st.th t x } = fupd (mwOf st) t x.mw := by
  funext i; by_cases h : i = t <;> simp [mwOf, upd, fupd, h]

theorem mwOf_upd_tok (st : St) (t : Tid) (x : Th) (m : Mon) (fl : Bool) (rem : List Tid) :
    mwOf { st with flag := fl, mon := m, th := upd (giveTok st.th rem) t x } = fupd (mwOf st) t x.mw := by
  funext i; by_cases h : i = t <;> simp [mwOf, upd, fupd, h]

/-- assembling `InvM` of the successor state from facts about the stepping thread's new record -/
theorem invM_of {st st' : St} (h : InvM st) (t : Tid) (thx : Tid → Th) (x : Th)
    (e1 : st'.th = upd thx t x) (hthx : ∀ i, (thx i).mw = (st.th i).mw ∧ (thx i).pc = (st.th i).pc)
    (hwake : WakeInFlight st'.mon (fupd (mwOf st) t x.mw))
    (hw : x.pc ≠ .wait → x.mw.w = .none) (hn : x.pc ≠ .notify → x.mw.n = .none) : InvM st' := by
  have hf : mwOf st' = fupd (mwOf st) t x.mw := by
    funext i; by_cases hi : i = t
    · simp [mwOf, e1, upd, fupd, hi]
    · simp [mwOf, e1, upd, fupd, hi, (hthx i).1]
  refine ⟨fun i hi => ?_, fun i hi => ?_, by rw [hf]; exact hwake⟩
  · rw [e1] at hi ⊢; by_cases e : i = t
    · subst e; simp at hi ⊢; exact hw hi
    · rw [upd_other _ _ _ _ e] at hi ⊢; rw [(hthx i).1]; rw [(hthx i).2] at hi; exact h.wfw i hi
  · rw [e1] at hi ⊢; by_cases e : i = t
    · subst e; simp at hi ⊢; exact hn hi
    · rw [upd_other _ _ _ _ e] at hi ⊢; rw [(hthx i).1]; rw [(hthx i).2] at hi; exact h.wfn i hi

/-- steps that do not touch the monitor -/
theorem invM_other {st st' : St} (h : InvM st) (t : Tid) (x : Th)
    (e1 : st'.th = upd st.th t x) (e2 : st'.mon = st.mon)
    (hpc : (st.th t).pc ≠ .wait ∧ (st.th t).pc ≠ .notify)
    (hw : (x.pc ≠ .wait → x.mw.w = .none) ∧ (x.mw.w = .none ∨ x.mw.w = .spin 0))
    (hn : (x.pc ≠ .notify → x.mw.n = .none) ∧ (x.mw.n = .none ∨ x.mw.n = .peek)) : InvM st' := by
  refine invM_of h t st.th x e1 (fun i => ⟨rfl, rfl⟩) ?_ hw.1 hn.1
  rw [e2]
  refine wake_other t x.mw st.mon (mwOf st) h.wake ?_ ?_
  · intro hs; unfold staged at hs
    rcases hw.2 with a | a <;> simp [a] at hs
  · intro hv; have := h.wfn t hpc.2; simp [mwOf] at hv; rw [this] at hv; cases hv

theorem invM_step (st : St) (t : Tid) (h : InvM st) : InvM (step st t) := by
  unfold step stepEv
  dsimp only
  split
  · exact h
  · rename_i op rest hops
    split
    · -- lock, start
      rename_i hpc
      split
      · exact invM_other h t _ rfl rfl (by simp [hpc]) (by simp [hpc, h.wfw t (by simp [hpc])]) (by simp [hpc, h.wfn t (by simp [hpc])])
      · split
        · split
          · exact invM_other h t _ rfl rfl (by simp [hpc]) (by simp) (by simp [h.wfn t (by simp [hpc])])
          · exact invM_other h t _ rfl rfl (by simp [hpc]) (by simp [Th.done, h.wfw t (by simp [hpc])]) (by simp [Th.done, h.wfn t (by simp [hpc])])
        · exact invM_other h t _ rfl rfl (by simp [hpc]) (by simp [h.wfw t (by simp [hpc])]) (by simp [h.wfn t (by simp [hpc])])
    · -- try_lock, start
      rename_i hpc
      split
      · exact invM_other h t _ rfl rfl (by simp [hpc]) (by simp [hpc, h.wfw t (by simp [hpc])]) (by simp [hpc, h.wfn t (by simp [hpc])])
      · split
        · split
          · exact invM_other h t _ rfl rfl (by simp [hpc]) (by simp) (by simp [h.wfn t (by simp [hpc])])
          · exact invM_other h t _ rfl rfl (by simp [hpc]) (by simp [Th.done, h.wfw t (by simp [hpc])]) (by simp [Th.done, h.wfn t (by simp [hpc])])
        · exact invM_other h t _ rfl rfl (by simp [hpc]) (by simp [h.wfw t (by simp [hpc])]) (by simp [h.wfn t (by simp [hpc])])
    · -- lock, xchg
      rename_i hpc
      split
      · split
        · exact invM_other h t _ rfl rfl (by simp [hpc]) (by simp) (by simp [h.wfn t (by simp [hpc])])
        · exact invM_other h t _ rfl rfl (by simp [hpc]) (by simp [Th.done, h.wfw t (by simp [hpc])]) (by simp [Th.done, h.wfn t (by simp [hpc])])
      · exact invM_other h t _ rfl rfl (by simp [hpc]) (by simp [Th.done, h.wfw t (by simp [hpc])]) (by simp [Th.done, h.wfn t (by simp [hpc])])
    · -- try_lock, xchg
      rename_i hpc
      split
      · split
        · exact invM_other h t _ rfl rfl (by simp [hpc]) (by simp) (by simp [h.wfn t (by simp [hpc])])
        · exact invM_other h t _ rfl rfl (by simp [hpc]) (by simp [Th.done, h.wfw t (by simp [hpc])]) (by simp [Th.done, h.wfn t (by simp [hpc])])
      · exact invM_other h t _ rfl rfl (by simp [hpc]) (by simp [Th.done, h.wfw t (by simp [hpc])]) (by simp [Th.done, h.wfn t (by simp [hpc])])
    · -- lock, wait
      rename_i hpc
      have hk := waitStep_keep t (enc st.flag) (!st.flag) 0 st.spinMax true st.mon (st.th t).mw
      have hfin := waitStep_fin t (enc st.flag) (!st.flag) 0 st.spinMax true st.mon (st.th t).mw
      have hwk := wake_wait t (enc st.flag) (!st.flag) 0 st.spinMax true st.mon (mwOf st) h.wake
      have hn0 := h.wfn t (by simp [hpc])
      simp only [mwOf] at hwk
      generalize hws : waitStep t (enc st.flag) (!st.flag) 0 st.spinMax true st.mon (st.th t).mw = r at hk hfin hwk
      obtain ⟨m', w', ev, fin⟩ := r
      dsimp only at hk hfin hwk ⊢
      refine invM_of h t st.th _ rfl (fun i => ⟨rfl, rfl⟩) hwk ?_ ?_
      · intro hp
        cases fin with
        | false => simp at hp
        | true =>
          rcases hfin rfl with a | a
          · exact a
          · unfold waitStep at hws; rw [a] at hws; simp at hws; simp; rw [← hws.2.1]; exact a
      · intro _; simp; rw [hk.1]; exact hn0
    · -- unlock, start
      rename_i hpc
      split
      · exact invM_other h t _ rfl rfl (by simp [hpc]) (by simp [hpc, h.wfw t (by simp [hpc])]) (by simp [hpc, h.wfn t (by simp [hpc])])
      · exact invM_other h t _ rfl rfl (by simp [hpc]) (by simp [h.wfw t (by simp [hpc])]) (by simp)
    · -- unlock, notify
      rename_i hpc
      have hk := notifyStep_keep st.mon (st.th t).mw
      have hfin := notifyStep_fin st.mon (st.th t).mw
      have hwk := wake_notify t st.mon (mwOf st) h.wake
      have hw0 := h.wfw t (by simp [hpc])
      simp only [mwOf] at hwk
      generalize hws : notifyStep st.mon (st.th t).mw = r at hk hfin hwk
      obtain ⟨m', w', ev, fin⟩ := r
      dsimp only at hk hfin hwk ⊢
      refine invM_of h t _ _ rfl (fun i => ?_) ?_ ?_ ?_
      · split <;> simp
      · have : ∀ (a b : Th), a.mw = w' → b.mw = w' → (if fin = true then a else b).mw = w' := by
          intro a b ha hb; split <;> assumption
        split <;> (rw [this _ _ (by simp [Th.done]) (by simp)]; exact hwk)
      · intro _; split <;> split <;> (simp [Th.done]; rw [hk.1]; exact hw0)
      · intro hp
        cases fin with
        | false => simp at hp; split at hp <;> simp [hpc] at hp
        | true => simp [Th.done]; exact hfin rfl
    · exact h


/-! ### no lost hand-off: a free lock with committed sleepers always has a notifier or a woken thread in flight -/

/-- some thread has committed to sleep (its predicate was false) and is still in the wait set -/
def Sl (st : St) : Prop := ∃ w c, (w, c) ∈ st.mon.waitset ∧ ((st.th w).mw.w = .commit ∨ (st.th w).mw.w = .sleep)
/-- some unlocker is between its `exchange(false)` and the removal of a waiter -/
def Nt (st : St) : Prop := ∃ n, (st.th n).mw.n = .peek ∨ (st.th n).mw.n = .flush
/-- some thread that a notifier removed from the wait set has not yet re-examined the flag -/
def Tk (st : St) : Prop := ∃ u, (st.th u).tok = true
def NL (st : St) : Prop := st.flag = false → Sl st → Nt st ∨ Tk st

theorem selected_one_ne (ws : List (Tid × Nat)) (h : ws ≠ []) : ∃ u, u ∈ selected .one ws := by
  unfold selected
  simp only [Sel.sel]
  have : ws.reverse ≠ [] := by simpa using h
  cases hr : ws.reverse with
  | nil => exact absurd hr this
  | cons a r => exact ⟨a.1, by simp⟩

theorem nl_step (st : St) (t : Tid) (h : NL st) (hsel : ∀ i, (st.th i).mw.n ≠ .none → (st.th i).mw.nsel = .one) : NL (step st t) := by
  unfold step stepEv
  dsimp only
  split
  · exact h
  · rename_i op rest hops
    -- generic frame: same flag (or set), sleepers only shrink, notifiers and tokens persist
    have frame : ∀ st' : St, (st'.flag = false → st.flag = false) → (st'.flag = false → Sl st' → Sl st) → (Nt st → Nt st' ∨ Tk st') → (Tk st → Nt st' ∨ Tk st') → NL st' := by
      intro st' a b c d hf hs
      rcases h (a hf) (b hf hs) with x | x
      · exact c x
      · exact d x
    -- a thread record that keeps mw and tok
    have same : ∀ (x : Th) (fl : Bool), x.mw = (st.th t).mw → x.tok = (st.th t).tok → (fl = false → st.flag = false) →
        NL { st with flag := fl, th := upd st.th t x } := by
      intro x fl hmw htok hfl
      refine frame _ hfl (fun _ hs => ?_) (fun hn => ?_) (fun hk => ?_)
      · obtain ⟨w, c, hc, hw⟩ := hs
        refine ⟨w, c, hc, ?_⟩
        by_cases e : w = t
        · subst e; simpa [hmw] using hw
        · simpa [upd, e] using hw
      · obtain ⟨n, hn⟩ := hn; left; refine ⟨n, ?_⟩
        by_cases e : n = t
        · subst e; simpa [hmw] using hn
        · simpa [upd, e] using hn
      · obtain ⟨u, hu⟩ := hk; right; refine ⟨u, ?_⟩
        by_cases e : u = t
        · subst e; simpa [htok] using hu
        · simpa [upd, e] using hu
    have flagset : ∀ st' : St, st'.flag = true → NL st' := by
      intro st' hf hf'; rw [hf] at hf'; cases hf'
    split
    · -- lock, start
      split
      · exact same _ st.flag rfl rfl id
      · split
        · rename_i hf; split <;> exact flagset _ hf
        · exact same _ st.flag rfl rfl id
    · split
      · exact same _ st.flag rfl rfl id
      · split
        · rename_i hf; split <;> exact flagset _ hf
        · exact same _ st.flag rfl rfl id
    · split
      · rename_i hf; split <;> exact flagset _ hf
      · exact flagset _ rfl
    · split
      · rename_i hf; split <;> exact flagset _ hf
      · exact flagset _ rfl
    · -- lock, wait
      rename_i hpc
      cases hfl : st.flag with
      | true => exact flagset _ rfl
      | false =>
        have hk := waitStep_keep t (enc false) (!false) 0 st.spinMax true st.mon (st.th t).mw
        have hset := waitStep_set t (enc false) (!false) 0 st.spinMax true st.mon (st.th t).mw
        generalize hws : waitStep t (enc false) (!false) 0 st.spinMax true st.mon (st.th t).mw = r at hk hset
        obtain ⟨m', w', ev, fin⟩ := r
        dsimp only at hk hset ⊢
        refine frame _ (fun _ => hfl) (fun _ hs => ?_) (fun hn => ?_) (fun hk' => ?_)
        · obtain ⟨w, c, hc, hw⟩ := hs
          by_cases e : w = t
          · subst e
            simp at hw
            have := (hset.2 hw).1
            simp at this
            simp at hc
            rw [(hset.2 hw).2] at hc
            exact ⟨w, c, hc, this⟩
          · simp [upd, e] at hw
            exact ⟨w, c, (hset.1 w c e).mp hc, hw⟩
        · obtain ⟨n, hn⟩ := hn; left; refine ⟨n, ?_⟩
          by_cases e : n = t
          · subst e; simp; rw [hk.1]; exact hn
          · simpa [upd, e] using hn
        · obtain ⟨u, hu⟩ := hk'; right; refine ⟨u, ?_⟩
          by_cases e : u = t
          · subst e; simpa using hu
          · simpa [upd, e] using hu
    · -- unlock, start
      split
      · exact same _ st.flag rfl rfl id
      · intro _ _; left; exact ⟨t, by simp⟩
    · -- unlock, notify
      rename_i hpc
      have hk := notifyStep_keep st.mon (st.th t).mw
      cases hn : (st.th t).mw.n with
      | none =>
        have e : notifyStep st.mon (st.th t).mw = (st.mon, (st.th t).mw, none, true) := by unfold notifyStep; rw [hn]
        simp only [hn, e]
        exact same _ st.flag (by simp [Th.done]) (by simp [Th.done]) id
      | peek =>
        by_cases hws : st.mon.waitset.length ≠ 0
        · have e2 : (notifyStep st.mon (st.th t).mw).2.1.n = .flush := by
            unfold notifyStep; rw [hn]; simp only []; rw [if_pos hws]
          intro _ _; left; refine ⟨t, Or.inr ?_⟩
          simp only [hn]; simp; split <;> simp [Th.done, e2]
        · have hnil : st.mon.waitset = [] := by
            have : st.mon.waitset.length = 0 := by omega
            exact List.eq_nil_of_length_eq_zero this
          have e1 : (notifyStep st.mon (st.th t).mw).1 = st.mon := by
            unfold notifyStep; rw [hn]; simp only []; split <;> (try split) <;> rfl
          intro _ hs
          obtain ⟨w, c, hc, _⟩ := hs
          simp only [e1, hnil] at hc; cases hc
      | flush =>
        have hone := hsel t (by rw [hn]; simp)
        by_cases hws : st.mon.waitset = []
        · have e1 : (notifyStep st.mon (st.th t).mw).1.waitset = [] := by
            unfold notifyStep; rw [hn]; simp only [hws]; split <;> rfl
          intro _ hs
          obtain ⟨w, c, hc, _⟩ := hs
          simp only [e1] at hc; cases hc
        · obtain ⟨u, hu⟩ := selected_one_ne _ hws
          intro _ _; right; refine ⟨u, ?_⟩
          simp only [hn, hone]
          by_cases e : u = t
          · subst e; simp [giveTok, hu]; split <;> simp [Th.done, hu]
          · simp [upd, e, giveTok, hu]
      | v =>
        have e1 : (notifyStep st.mon (st.th t).mw).1.waitset = st.mon.waitset := by
          unfold notifyStep; rw [hn]; simp only []; split <;> (try split) <;> rfl
        simp only [hn]
        refine frame _ id (fun _ hs => ?_) (fun hn' => ?_) (fun hk' => ?_)
        · obtain ⟨w, c, hc, hw⟩ := hs
          simp only [e1] at hc
          refine ⟨w, c, hc, ?_⟩
          by_cases e : w = t
          · subst e; simp at hw; split at hw <;> (simp [Th.done] at hw; rw [hk.1] at hw; exact hw)
          · simpa [upd, e] using hw
        · obtain ⟨n, hn'⟩ := hn'; left; refine ⟨n, ?_⟩
          have e : n ≠ t := fun e => by subst e; rw [hn] at hn'; simp at hn'
          simpa [upd, e] using hn'
        · obtain ⟨u, hu⟩ := hk'; right; refine ⟨u, ?_⟩
          by_cases e : u = t
          · subst e; simp; split <;> simpa [Th.done] using hu
          · simpa [upd, e] using hu
    · exact h


def InvSel (st : St) : Prop := ∀ i, (st.th i).mw.n ≠ .none → (st.th i).mw.nsel = .one

theorem sel_of {st st' : St} (h : InvSel st) (t : Tid) (thx : Tid → Th) (x : Th)
    (e1 : st'.th = upd thx t x) (hthx : ∀ i, (thx i).mw = (st.th i).mw) (hx : x.mw.n ≠ .none → x.mw.nsel = .one) : InvSel st' := by
  intro i hi; rw [e1] at hi ⊢
  by_cases e : i = t
  · subst e; simp at hi ⊢; exact hx hi
  · rw [upd_other _ _ _ _ e] at hi ⊢; rw [hthx] at hi ⊢; exact h i hi

theorem notifyStep_n_none (m : Mon) (x : WT) (h : x.n = .none) : (notifyStep m x).2.1.n = .none := by
  unfold notifyStep; rw [h]; exact h

theorem invSel_step (st : St) (t : Tid) (h : InvSel st) : InvSel (step st t) := by
  unfold step stepEv
  dsimp only
  split
  · exact h
  · rename_i op rest hops
    have hkw := waitStep_keep t (enc st.flag) (!st.flag) 0 st.spinMax true st.mon (st.th t).mw
    have hkn := notifyStep_keep st.mon (st.th t).mw
    have ht := h t
    have base : ∀ st' : St, ∀ x : Th, st'.th = upd st.th t x → x.mw.n = (st.th t).mw.n → x.mw.nsel = (st.th t).mw.nsel → InvSel st' := by
      intro st' x e1 e2 e3
      exact sel_of h t st.th x e1 (fun _ => rfl) (by rw [e2, e3]; exact ht)
    split
    · split
      · exact base _ _ rfl rfl rfl
      · split
        · split <;> exact base _ _ rfl rfl rfl
        · exact base _ _ rfl rfl rfl
    · split
      · exact base _ _ rfl rfl rfl
      · split
        · split <;> exact base _ _ rfl rfl rfl
        · exact base _ _ rfl rfl rfl
    · split
      · split <;> exact base _ _ rfl rfl rfl
      · exact base _ _ rfl rfl rfl
    · split
      · split <;> exact base _ _ rfl rfl rfl
      · exact base _ _ rfl rfl rfl
    · exact base _ _ rfl hkw.1 hkw.2.2.1
    · split
      · exact base _ _ rfl rfl rfl
      · exact sel_of h t st.th _ rfl (fun _ => rfl) (fun _ => rfl)
    · refine sel_of h t _ _ rfl (fun i => by split <;> simp) ?_
      have key : (notifyStep st.mon (st.th t).mw).2.1.n ≠ .none → (notifyStep st.mon (st.th t).mw).2.1.nsel = .one := by
        intro hn
        rw [hkn.2]; apply ht
        intro hc; exact hn (notifyStep_n_none _ _ hc)
      split <;> simpa [Th.done] using key
    · exact h

theorem inv_init_mx (progs : List (List Op)) (orcs : List (List Bool)) (sm : Nat) :
    InvE (sys progs orcs sm).init ∧ InvM (sys progs orcs sm).init ∧ InvSel (sys progs orcs sm).init ∧ NL (sys progs orcs sm).init := by
  refine ⟨⟨?_, ?_, ?_⟩, ⟨?_, ?_, ?_⟩, ?_, ?_⟩ <;> simp [sys]
  · intro w hw; simp [NeedsV, staged, mwOf] at hw
  · intro i hi; simp at hi
  · intro _ hs; obtain ⟨w, c, hc, _⟩ := hs; simp at hc

structure Inv (st : St) : Prop where
  e : InvE st
  m : InvM st
  sel : InvSel st
  nl : NL st

theorem inv_reachable (progs : List (List Op)) (orcs : List (List Bool)) (sm : Nat) (sched : List Tid) :
    Inv ((sys progs orcs sm).run sched) := by
  refine Sys.inv_run (sys progs orcs sm) Inv ?_ (fun s t h => ?_) sched
  · obtain ⟨a, b, c, d⟩ := inv_init_mx progs orcs sm; exact ⟨a, b, c, d⟩
  · exact ⟨invE_step s t h.e, invM_step s t h.m, invSel_step s t h.sel, nl_step s t h.nl h.sel⟩

end TbbVerif.C08.Slp.Mx
