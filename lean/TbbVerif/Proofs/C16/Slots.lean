/-
C16 — the slot occupation protocol (`arena_slot::try_occupy` / `release`, `arena::occupy_free_slot`): inductive invariant.
-/
import TbbVerif.Model.C16

namespace TbbVerif.C16

/-- What the program counter implies about the thread's locals. -/
def PcOK (cfg : SCfg) (th : STh) : Prop :=
  match th.pc with
  | .idle => th.slot = none
  | .rangeBegin lo hi => th.slot = none ∧ lo < hi ∧ hi ≤ cfg.numSlots ∧ (th.worker = true → cfg.reserved ≤ lo)
  | .scanLoad lo hi start i _ => th.slot = none ∧ lo ≤ i ∧ i < hi ∧ lo ≤ start ∧ start < hi ∧ hi ≤ cfg.numSlots ∧
      (th.worker = true → cfg.reserved ≤ lo)
  | .scanXchg lo hi start i _ => th.slot = none ∧ lo ≤ i ∧ i < hi ∧ lo ≤ start ∧ start < hi ∧ hi ≤ cfg.numSlots ∧
      (th.worker = true → cfg.reserved ≤ lo)
  | .limLoad idx => th.slot = some idx
  | .limCas idx _ => th.slot = some idx
  | .inside idx => th.slot = some idx

structure SInv (cfg : SCfg) (s : SSt) : Prop where
  len : s.occ.length = cfg.numSlots
  pc : ∀ (t : Nat) th, s.ths[t]? = some th → PcOK cfg th
  own : ∀ (t : Nat) th i, s.ths[t]? = some th → th.slot = some i →
    i < cfg.numSlots ∧ s.occ[i]? = some true ∧ (th.worker = true → cfg.reserved ≤ i)
  uniq : ∀ (t1 t2 : Nat) th1 th2 i, s.ths[t1]? = some th1 → s.ths[t2]? = some th2 →
    th1.slot = some i → th2.slot = some i → t1 = t2
  cnt : s.ths.countP (fun th => th.slot.isSome) = s.occ.count true

/-- The effect of one access on the shared `occ` array and on the ghost ownership. -/
inductive Effect (cfg : SCfg) (occ : List Bool) (th th' : STh) (occ' : List Bool) : Prop where
  | same (h1 : occ' = occ) (h2 : th'.slot = th.slot)
  | acquire (i : Nat) (hi : i < cfg.numSlots) (h0 : th.slot = none) (h1 : th'.slot = some i)
      (hfree : occ.getD i false = false) (hocc : occ' = occ.set i true) (hw : th.worker = true → cfg.reserved ≤ i)
  | release (i : Nat) (h0 : th.slot = some i) (h1 : th'.slot = none) (hocc : occ' = occ.set i false)

theorem set_true_of_getD {occ : List Bool} {i : Nat} (h : occ.getD i false = true) : occ.set i true = occ := by
  apply List.ext_getElem?
  intro j
  by_cases hij : i = j
  · subst hij
    by_cases hlt : i < occ.length
    · simp [List.getD_eq_getElem?_getD, List.getElem?_eq_getElem hlt] at h
      simp [hlt, h]
    · simp [List.getD_eq_getElem?_getD, List.getElem?_eq_none (Nat.le_of_not_lt hlt)] at h
  · simp [hij]

theorem generalStart_ok (cfg : SCfg) (th : STh) (h : th.slot = none) (pc : SPc) (hpc : pc = generalStart cfg) :
    PcOK cfg { th with pc := pc } := by
  subst hpc
  unfold generalStart
  split
  · simp [PcOK, h]; omega
  · simp [PcOK, h]

theorem advance_ok (cfg : SCfg) (th : STh) (lo hi start i : Nat) (w : Bool)
    (h : th.slot = none ∧ lo ≤ i ∧ i < hi ∧ lo ≤ start ∧ start < hi ∧ hi ≤ cfg.numSlots ∧ (th.worker = true → cfg.reserved ≤ lo)) :
    PcOK cfg { th with pc := advance cfg th.worker lo hi start i w } := by
  obtain ⟨h0, h1, h2, h3, h4, h5, h6⟩ := h
  unfold advance
  split
  · simp only [PcOK]; exact ⟨h0, by omega, by omega, h3, h4, h5, h6⟩
  · split
    · simp only [PcOK]; exact ⟨h0, by omega, by omega, h3, h4, h5, h6⟩
    · split
      · simp only [PcOK]; exact ⟨h0, by omega, by omega, h3, h4, h5, h6⟩
      · split
        · exact generalStart_ok cfg th h0 _ rfl
        · simp [PcOK, h0]

theorem doScanLoad_ok (cfg : SCfg) (occ : List Bool) (th : STh) (lo hi start i : Nat) (w : Bool)
    (h : th.slot = none ∧ lo ≤ i ∧ i < hi ∧ lo ≤ start ∧ start < hi ∧ hi ≤ cfg.numSlots ∧ (th.worker = true → cfg.reserved ≤ lo)) :
    PcOK cfg (doScanLoad cfg occ th lo hi start i w).1 ∧ (doScanLoad cfg occ th lo hi start i w).1.slot = th.slot ∧
    (doScanLoad cfg occ th lo hi start i w).1.worker = th.worker := by
  by_cases hv : occ.getD i false = true
  · simp only [doScanLoad, hv, ↓reduceIte]
    exact ⟨advance_ok cfg th lo hi start i w h, trivial, trivial⟩
  · have hv' : occ.getD i false = false := by simpa using hv
    simp only [doScanLoad, hv', Bool.false_eq_true, ↓reduceIte]
    refine ⟨?_, trivial, trivial⟩
    simp only [PcOK]; exact h

theorem doRangeBegin_ok (cfg : SCfg) (occ : List Bool) (th : STh) (lo hi : Nat)
    (h : th.slot = none ∧ lo < hi ∧ hi ≤ cfg.numSlots ∧ (th.worker = true → cfg.reserved ≤ lo)) :
    PcOK cfg (doRangeBegin cfg occ th lo hi).1 ∧ (doRangeBegin cfg occ th lo hi).1.slot = th.slot ∧
    (doRangeBegin cfg occ th lo hi).1.worker = th.worker := by
  obtain ⟨h0, h1, h2, h3⟩ := h
  unfold doRangeBegin
  have hmod : th.hints.headD 0 % (hi - lo) < hi - lo := Nat.mod_lt _ (by omega)
  have := doScanLoad_ok cfg occ { th with hints := th.hints.tail } lo hi (lo + th.hints.headD 0 % (hi - lo))
    (lo + th.hints.headD 0 % (hi - lo)) false ⟨h0, by omega, by omega, by omega, by omega, h2, h3⟩
  exact this

theorem enterStart_cases (cfg : SCfg) (worker : Bool) :
    enterStart cfg worker = .idle ∨
    ∃ lo hi, enterStart cfg worker = .rangeBegin lo hi ∧ lo < hi ∧ hi ≤ cfg.numSlots ∧ (worker = true → cfg.reserved ≤ lo) := by
  unfold enterStart generalStart
  split
  · rename_i h
    right; exact ⟨0, min cfg.reserved cfg.numSlots, rfl, by omega, by omega, by intro hw; simp [hw] at h⟩
  · split
    · right; exact ⟨cfg.reserved, cfg.numSlots, rfl, by omega, by omega, fun _ => Nat.le_refl _⟩
    · left; rfl

/-- One access of a thread whose pc is consistent: the pc stays consistent, the `worker` flag is unchanged and the
shared array changes in one of three ways. -/
theorem stepTh_effect (cfg : SCfg) (occ : List Bool) (limit : Nat) (th : STh) (hpc : PcOK cfg th) :
    ∀ r, r = stepTh cfg occ limit th →
    PcOK cfg r.1 ∧ r.1.worker = th.worker ∧ Effect cfg occ th r.1 r.2.1 := by
  intro r hr
  unfold stepTh at hr
  cases hp : th.pc with
  | idle =>
    simp only [hp] at hr
    have h0 : th.slot = none := by simpa [PcOK, hp] using hpc
    cases hh : th.hints with
    | nil =>
      simp only [hh] at hr
      subst hr
      exact ⟨hpc, rfl, .same rfl rfl⟩
    | cons x xs =>
      simp only [hh] at hr
      rcases enterStart_cases cfg th.worker with he | ⟨lo, hi, he, h1, h2, h3⟩
      · simp only [he] at hr
        subst hr
        exact ⟨by simp [PcOK, h0], rfl, .same rfl rfl⟩
      · simp only [he] at hr
        subst hr
        have := doRangeBegin_ok cfg occ th lo hi ⟨h0, h1, h2, h3⟩
        exact ⟨this.1, this.2.2, .same rfl this.2.1⟩
  | rangeBegin lo hi =>
    simp only [hp] at hr
    subst hr
    have h := by simpa [PcOK, hp] using hpc
    have := doRangeBegin_ok cfg occ th lo hi h
    exact ⟨this.1, this.2.2, .same rfl this.2.1⟩
  | scanLoad lo hi start i w =>
    simp only [hp] at hr
    subst hr
    have h := by simpa [PcOK, hp] using hpc
    have := doScanLoad_ok cfg occ th lo hi start i w h
    exact ⟨this.1, this.2.2, .same rfl this.2.1⟩
  | scanXchg lo hi start i w =>
    simp only [hp] at hr
    have h : th.slot = none ∧ lo ≤ i ∧ i < hi ∧ lo ≤ start ∧ start < hi ∧ hi ≤ cfg.numSlots ∧ (th.worker = true → cfg.reserved ≤ lo) := by
      simpa [PcOK, hp] using hpc
    by_cases hold : occ.getD i false = true
    · simp only [hold, if_true] at hr
      subst hr
      exact ⟨advance_ok cfg th lo hi start i w h, rfl, .same (set_true_of_getD hold) rfl⟩
    · simp only [hold] at hr
      subst hr
      refine ⟨by simp [PcOK], rfl, .acquire i (by omega) h.1 rfl (by simpa using hold) rfl ?_⟩
      intro hw; have := h.2.2.2.2.2.2 hw; omega
  | limLoad idx =>
    simp only [hp] at hr
    have h : th.slot = some idx := by simpa [PcOK, hp] using hpc
    by_cases hl : limit < idx + 1
    · simp only [hl, if_true] at hr; subst hr
      exact ⟨by simp [PcOK, h], rfl, .same rfl rfl⟩
    · simp only [hl, if_false] at hr; subst hr
      exact ⟨by simp [PcOK, h], rfl, .same rfl rfl⟩
  | limCas idx old =>
    simp only [hp] at hr
    have h : th.slot = some idx := by simpa [PcOK, hp] using hpc
    by_cases he : limit = old
    · simp only [he, if_true] at hr; subst hr
      exact ⟨by simp [PcOK, h], rfl, .same rfl rfl⟩
    · simp only [he, if_false] at hr
      by_cases hl : limit < idx + 1
      · simp only [hl, if_true] at hr; subst hr
        exact ⟨by simp [PcOK, h], rfl, .same rfl rfl⟩
      · simp only [hl, if_false] at hr; subst hr
        exact ⟨by simp [PcOK, h], rfl, .same rfl rfl⟩
  | inside idx =>
    simp only [hp] at hr
    have h : th.slot = some idx := by simpa [PcOK, hp] using hpc
    subst hr
    exact ⟨by simp [PcOK], rfl, .release idx h rfl rfl⟩

theorem set_cases {α : Type} {l : List α} {t u : Nat} {a b : α} (h : (l.set t a)[u]? = some b) :
    (u = t ∧ b = a) ∨ (u ≠ t ∧ l[u]? = some b) := by
  by_cases hut : t = u
  · subst hut
    left
    rw [List.getElem?_set] at h
    simp at h
    exact ⟨rfl, h.2.symm⟩
  · right
    rw [List.getElem?_set] at h
    simp [hut] at h
    exact ⟨fun h' => hut h'.symm, h⟩

theorem countP_set_add {α : Type} {p : α → Bool} {l : List α} {i : Nat} {a : α} (h : i < l.length) :
    (l.set i a).countP p + (if p l[i] then 1 else 0) = l.countP p + (if p a then 1 else 0) := by
  have h1 := List.countP_set (p := p) (a := a) h
  have h2 : (if p l[i] = true then 1 else 0) ≤ l.countP p := List.boole_getElem_le_countP (p := p) h
  omega

theorem occ_set_get (occ : List Bool) (i k : Nat) (b : Bool) (hi : i < occ.length) :
    (occ.set i b)[k]? = if i = k then some b else occ[k]? := by
  rw [List.getElem?_set]
  by_cases h : i = k <;> simp [h]
  subst h; exact hi

theorem getD_false_of (occ : List Bool) (i : Nat) (hi : i < occ.length) (h : occ.getD i false = false) :
    occ[i] = false := by
  simpa [List.getD_eq_getElem?_getD, List.getElem?_eq_getElem hi] using h

/-- The invariant is preserved by every access of every thread. -/
theorem SInv.step (cfg : SCfg) (s : SSt) (t : Tid) (h : SInv cfg s) : SInv cfg (SSt.step cfg s t) := by
  unfold SSt.step
  cases hth : s.ths[t]? with
  | none => simpa using h
  | some th =>
    simp only
    obtain ⟨hpc', hw, heff⟩ := stepTh_effect cfg s.occ s.limit th (h.pc t th hth) _ rfl
    generalize stepTh cfg s.occ s.limit th = r at hpc' hw heff ⊢
    obtain ⟨th', occ', limit', ev⟩ := r
    simp only at hpc' hw heff ⊢
    have htlt : t < s.ths.length := by
      rcases List.getElem?_eq_some_iff.1 hth with ⟨hlt, _⟩; exact hlt
    have hthget : s.ths[t] = th := by
      rcases List.getElem?_eq_some_iff.1 hth with ⟨_, he⟩; exact he
    have hcnt := countP_set_add (p := fun th => th.slot.isSome) (a := th') htlt
    rw [hthget] at hcnt
    cases heff with
    | same h1 h2 =>
      subst h1
      -- every thread of the new state has an old counterpart with the same slot and worker flag
      have hold : ∀ (u : Nat) thu, (s.ths.set t th')[u]? = some thu →
          ∃ tho, s.ths[u]? = some tho ∧ tho.slot = thu.slot ∧ tho.worker = thu.worker := by
        intro u thu hu
        rcases set_cases hu with ⟨rfl, rfl⟩ | ⟨_, hu'⟩
        · exact ⟨th, hth, h2.symm, hw.symm⟩
        · exact ⟨thu, hu', rfl, rfl⟩
      refine ⟨h.len, ?_, ?_, ?_, ?_⟩
      · intro u thu hu
        rcases set_cases hu with ⟨rfl, rfl⟩ | ⟨_, hu'⟩
        · exact hpc'
        · exact h.pc u thu hu'
      · intro u thu k hu hk
        obtain ⟨tho, ho, hs, hwo⟩ := hold u thu hu
        have := h.own u tho k ho (hs ▸ hk)
        exact ⟨this.1, this.2.1, fun hwk => this.2.2 (hwo ▸ hwk)⟩
      · intro u1 u2 th1 th2 k hu1 hu2 hk1 hk2
        obtain ⟨o1, ho1, hs1, _⟩ := hold u1 th1 hu1
        obtain ⟨o2, ho2, hs2, _⟩ := hold u2 th2 hu2
        exact h.uniq u1 u2 o1 o2 k ho1 ho2 (hs1 ▸ hk1) (hs2 ▸ hk2)
      · show List.countP (fun th => th.slot.isSome) (s.ths.set t th') = List.count true s.occ
        rw [← h.cnt]
        simp only [h2] at hcnt
        omega
    | acquire i hi h0 h1 hfree hocc hwk =>
      subst hocc
      have hilen : i < s.occ.length := by rw [h.len]; exact hi
      have hfalse : s.occ[i] = false := getD_false_of s.occ i hilen hfree
      refine ⟨by simp [h.len], ?_, ?_, ?_, ?_⟩
      · intro u thu hu
        rcases set_cases hu with ⟨rfl, rfl⟩ | ⟨_, hu'⟩
        · exact hpc'
        · exact h.pc u thu hu'
      · intro u thu k hu hk
        rcases set_cases hu with ⟨rfl, rfl⟩ | ⟨_, hu'⟩
        · rw [h1] at hk
          have : i = k := by simpa using hk
          subst this
          exact ⟨hi, by rw [occ_set_get _ _ _ _ hilen]; simp, fun hwk' => hwk (hw ▸ hwk')⟩
        · have := h.own u thu k hu' hk
          refine ⟨this.1, ?_, this.2.2⟩
          rw [occ_set_get _ _ _ _ hilen]
          split
          · rfl
          · exact this.2.1
      · intro u1 u2 th1 th2 k hu1 hu2 hk1 hk2
        -- nobody else can own slot i: it was free
        have hnot : ∀ (u : Nat) thu, s.ths[u]? = some thu → thu.slot ≠ some i := by
          intro u thu hu hk
          have := (h.own u thu i hu hk).2.1
          rw [List.getElem?_eq_getElem hilen, hfalse] at this
          simp at this
        rcases set_cases hu1 with ⟨rfl, rfl⟩ | ⟨hne1, hu1'⟩ <;> rcases set_cases hu2 with ⟨rfl, rfl⟩ | ⟨hne2, hu2'⟩
        · rfl
        · rw [h1] at hk1
          have : i = k := by simpa using hk1
          subst this
          exact absurd hk2 (hnot u2 th2 hu2')
        · rw [h1] at hk2
          have : i = k := by simpa using hk2
          subst this
          exact absurd hk1 (hnot u1 th1 hu1')
        · exact h.uniq u1 u2 th1 th2 k hu1' hu2' hk1 hk2
      · have hc2 := List.count_set (a := true) (b := true) hilen
        have hle : (if s.occ[i] == true then 1 else 0) ≤ s.occ.count true := by
          simp [hfalse]
        rw [hc2, ← h.cnt]
        simp only [h0, h1, hfalse] at hcnt ⊢
        simp at hcnt ⊢
        omega
    | release i h0 h1 hocc =>
      subst hocc
      have hown := h.own t th i hth h0
      have hilen : i < s.occ.length := by rw [h.len]; exact hown.1
      have htrue : s.occ[i] = true := by
        have := hown.2.1
        rw [List.getElem?_eq_getElem hilen] at this
        simpa using this
      refine ⟨by simp [h.len], ?_, ?_, ?_, ?_⟩
      · intro u thu hu
        rcases set_cases hu with ⟨rfl, rfl⟩ | ⟨_, hu'⟩
        · exact hpc'
        · exact h.pc u thu hu'
      · intro u thu k hu hk
        rcases set_cases hu with ⟨rfl, rfl⟩ | ⟨hne, hu'⟩
        · rw [h1] at hk; simp at hk
        · have := h.own u thu k hu' hk
          refine ⟨this.1, ?_, this.2.2⟩
          rw [occ_set_get _ _ _ _ hilen]
          split
          · rename_i hik
            subst hik
            exact absurd (h.uniq u t thu th i hu' hth hk h0) hne
          · exact this.2.1
      · intro u1 u2 th1 th2 k hu1 hu2 hk1 hk2
        rcases set_cases hu1 with ⟨rfl, rfl⟩ | ⟨hne1, hu1'⟩
        · rw [h1] at hk1; simp at hk1
        · rcases set_cases hu2 with ⟨rfl, rfl⟩ | ⟨hne2, hu2'⟩
          · rw [h1] at hk2; simp at hk2
          · exact h.uniq u1 u2 th1 th2 k hu1' hu2' hk1 hk2
      · have hc2 := List.count_set (a := false) (b := true) hilen
        have hle : 1 ≤ s.occ.count true := by
          have := List.boole_getElem_le_countP (p := fun b => b == true) hilen
          simp [htrue] at this
          simpa [List.count_eq_countP] using this
        rw [hc2, ← h.cnt]
        simp only [h0, h1, htrue] at hcnt ⊢
        simp at hcnt ⊢
        have hc := h.cnt
        omega

theorem SInv.init (cfg : SCfg) (threads : List (Bool × List Nat)) : SInv cfg (slotSys cfg threads).init := by
  have key : ∀ th, th ∈ (slotSys cfg threads).init.ths → th.slot = none ∧ th.pc = .idle := by
    intro th hm
    simp only [slotSys, List.mem_map] at hm
    obtain ⟨p, _, rfl⟩ := hm
    exact ⟨rfl, rfl⟩
  refine ⟨by simp [slotSys], ?_, ?_, ?_, ?_⟩
  · intro t th ht
    have := key th (List.mem_of_getElem? ht)
    simp [PcOK, this.1, this.2]
  · intro t th i ht hs
    have := key th (List.mem_of_getElem? ht)
    rw [this.1] at hs; simp at hs
  · intro t1 t2 th1 th2 i ht1 _ hs
    have := key th1 (List.mem_of_getElem? ht1)
    rw [this.1] at hs; simp at hs
  · have h1 : List.count true (slotSys cfg threads).init.occ = 0 := by
      simp [slotSys, List.count_replicate]
    have h2 : List.countP (fun th : STh => th.slot.isSome) (slotSys cfg threads).init.ths = 0 := by
      apply List.countP_eq_zero.2
      intro th hm
      simp [(key th hm).1]
    rw [h1, h2]

theorem SInv.run (cfg : SCfg) (threads : List (Bool × List Nat)) (sched : List Tid) :
    SInv cfg ((slotSys cfg threads).run sched) :=
  Sys.inv_run (slotSys cfg threads) (SInv cfg) (SInv.init cfg threads) (fun s t h => SInv.step cfg s t h) sched

end TbbVerif.C16
