/-
C16 — worker life cycle (`Model/C16Life.lean`): inductive invariant.

* the slot protocol's invariant `SInv` holds for the projection (every life-cycle step is a step of the slot protocol or leaves its
  state alone), so `slots_unique` / `slots_bound` extend to joining, recall and leaving;
* `my_references = external references + ref_worker · (threads holding a worker reference + resume() calls in flight)`;
* program counters agree with the slot sub-protocol and with the ghost reference: a worker that owns a slot holds a reference.
-/
import TbbVerif.Model.C16Life
import TbbVerif.Proofs.C16.Slots

set_option linter.unusedSimpArgs false

namespace TbbVerif.C16.Life
open TbbVerif.C16 TbbVerif.Generated.C16

theorem refWorker_pos : 0 < refWorker := Nat.two_pow_pos _

/-- what the life-cycle pc implies about the slot sub-protocol's pc and the ghost reference -/
def PcL (th : LTh) : Prop :=
  match th.pc with
  | .out => th.sth.pc = .idle ∧ th.holdsRef = false
  | .joinAllot _ => th.sth.pc = .idle ∧ th.holdsRef = false ∧ th.sth.worker = true
  | .joinOk => th.sth.pc = .idle ∧ th.holdsRef = false ∧ th.sth.worker = true
  | .unref => th.sth.pc = .idle ∧ th.holdsRef = true ∧ th.sth.worker = true
  | .occupy => th.holdsRef = th.sth.worker
  | .inside i => th.sth.pc = .inside i ∧ th.holdsRef = th.sth.worker
  | .recallAllot i _ => th.sth.pc = .inside i ∧ th.holdsRef = th.sth.worker
  | .leaving i => th.sth.pc = .inside i ∧ th.holdsRef = th.sth.worker

structure LInv (cfg : SCfg) (s : LSt) : Prop where
  slots : SInv cfg s.proj
  refs : s.refsW = s.holders + s.transient
  pcs : ∀ (t : Nat) th, s.ths[t]? = some th → PcL th

theorem proj_get {s : LSt} {t : Nat} {th : LTh} (h : s.ths[t]? = some th) : s.proj.ths[t]? = some th.sth := by
  simp [LSt.proj, h]

/-- a step that performs an access of the slot sub-protocol for thread `t`: the projection takes the slot protocol's step -/
theorem proj_slot_step (cfg : SCfg) {s : LSt} {t : Nat} {th th' : LTh} (hth : s.ths[t]? = some th)
    (hs : th'.sth = (stepTh cfg s.occ s.limit th.sth).1) :
    ({ (setTh s t th') with occ := (stepTh cfg s.occ s.limit th.sth).2.1, limit := (stepTh cfg s.occ s.limit th.sth).2.2.1 } : LSt).proj =
      SSt.step cfg s.proj t := by
  unfold SSt.step
  rw [proj_get hth]
  simp only [LSt.proj, setTh, List.map_set, hs]

/-- a step that changes thread `t` without touching its slot sub-state or the slot words -/
theorem proj_same {s : LSt} {t : Nat} {th th' : LTh} (hth : s.ths[t]? = some th) (hs : th'.sth = th.sth) :
    (setTh s t th').proj = s.proj := by
  simp only [LSt.proj, setTh, List.map_set, hs]
  congr 1
  apply List.ext_getElem?
  intro j
  rw [List.getElem?_set]
  split
  · rename_i hj
    subst hj
    split
    · simp [hth]
    · rename_i hlt
      simp at hlt
      simp [List.getElem?_eq_none (by simpa using hlt)]
  · rfl

theorem holders_set {s : LSt} {t : Nat} {th th' : LTh} (hth : s.ths[t]? = some th) :
    (setTh s t th').holders + (if th.holdsRef then 1 else 0) = s.holders + (if th'.holdsRef then 1 else 0) := by
  have hlt : t < s.ths.length := by
    rcases Nat.lt_or_ge t s.ths.length with hh | hh
    · exact hh
    · rw [List.getElem?_eq_none hh] at hth; cases hth
  have := countP_set_add (p := fun (x : LTh) => x.holdsRef) (l := s.ths) (i := t) (a := th') hlt
  have hget : s.ths[t] = th := by
    rw [List.getElem?_eq_getElem hlt] at hth; exact Option.some.inj hth
  simp only [hget] at this
  simpa [LSt.holders, setTh] using this

theorem pcs_set {s : LSt} (h : ∀ (t : Nat) th, s.ths[t]? = some th → PcL th) {t : Nat} {th' : LTh} (hp : PcL th') :
    ∀ (u : Nat) th, (s.ths.set t th')[u]? = some th → PcL th := by
  intro u th hu
  rcases set_cases hu with ⟨_, rfl⟩ | ⟨_, hu'⟩
  · exact hp
  · exact h u th hu'

/-- a step that only moves thread `t`'s life-cycle pc (no shared word changes) -/
theorem LInv.move (cfg : SCfg) {s : LSt} (h : LInv cfg s) {t : Nat} {th th' : LTh} (hth : s.ths[t]? = some th)
    (hs : th'.sth = th.sth) (hr : th'.holdsRef = th.holdsRef) (hp : PcL th') : LInv cfg (setTh s t th') := by
  refine ⟨by rw [proj_same hth hs]; exact h.slots, ?_, pcs_set h.pcs hp⟩
  have := holders_set (th' := th') hth
  rw [hr] at this
  have he : (setTh s t th').holders = s.holders := by omega
  simp only [setTh] at he ⊢
  rw [he]; exact h.refs

theorem stepTh_worker (cfg : SCfg) (occ : List Bool) (limit : Nat) (sth : STh) (hpc : PcOK cfg sth) :
    (stepTh cfg occ limit sth).1.worker = sth.worker := (stepTh_effect cfg occ limit sth hpc _ rfl).2.1

theorem stepTh_release_pc (cfg : SCfg) (occ : List Bool) (limit : Nat) (sth : STh) (i : Nat) (hp : sth.pc = .inside i) :
    (stepTh cfg occ limit sth).1.pc = .idle := by
  unfold stepTh
  simp [hp]

theorem LInv.step (cfg : SCfg) {s : LSt} (h : LInv cfg s) (op : LOp) : LInv cfg (s.step cfg op).1 := by
  cases op with
  | setAllot v => exact ⟨h.slots, h.refs, h.pcs⟩
  | extRef up =>
    simp only [LSt.step]
    split
    · exact ⟨h.slots, h.refs, h.pcs⟩
    · split
      · exact ⟨h.slots, h.refs, h.pcs⟩
      · exact h
  | resumeRef up =>
    simp only [LSt.step]
    split
    · refine ⟨h.slots, ?_, h.pcs⟩
      have := h.refs
      simp only [LSt.holders] at this ⊢
      omega
    · split
      · refine ⟨h.slots, ?_, h.pcs⟩
        have := h.refs
        simp only [LSt.holders] at this ⊢
        omega
      · exact h
  | abandon t =>
    simp only [LSt.step]
    split
    · rename_i th hth
      split
      · rename_i hpc
        have hp := h.pcs t th hth
        simp only [PcL, hpc] at hp
        exact h.move cfg hth rfl rfl (by simp [PcL, hp.1, hp.2.1])
      · exact h
    · exact h
  | poll t =>
    simp only [LSt.step]
    split
    · rename_i th hth
      split
      · rename_i i hpc
        split
        · have hp := h.pcs t th hth
          simp only [PcL, hpc] at hp
          exact h.move cfg hth rfl rfl (by simp [PcL, hp.1, hp.2])
        · exact h
      · exact h
    · exact h
  | exit_ t =>
    simp only [LSt.step]
    split
    · rename_i th hth
      split
      · rename_i i hpc
        split
        · have hp := h.pcs t th hth
          simp only [PcL, hpc] at hp
          exact h.move cfg hth rfl rfl (by simp [PcL, hp.1, hp.2])
        · exact h
      · exact h
    · exact h
  | begin_ t =>
    simp only [LSt.step]
    split
    · rename_i th hth
      split
      · rename_i hc
        have hp := h.pcs t th hth
        simp only [PcL, hc.1] at hp
        split
        · rename_i hw
          exact h.move cfg hth rfl rfl (by simp [PcL, hp.1, hp.2, hw])
        · rename_i hw
          -- an application thread starts `occupy_free_slot<false>`: the first access of the slot sub-protocol
          have hpcok := h.slots.pc t th.sth (proj_get hth)
          have hwk := stepTh_worker cfg s.occ s.limit th.sth hpcok
          have hw' : th.sth.worker = false := by simpa using hw
          refine ⟨?_, ?_, ?_⟩
          · rw [proj_slot_step cfg hth (th' := afterOccupy { th with pc := .occupy } (stepTh cfg s.occ s.limit th.sth).1)
              (by unfold afterOccupy; split <;> rfl)]
            exact h.slots.step cfg _ t
          · have hh := holders_set (th' := afterOccupy { th with pc := .occupy } (stepTh cfg s.occ s.limit th.sth).1) hth
            have hr : (afterOccupy { th with pc := .occupy } (stepTh cfg s.occ s.limit th.sth).1).holdsRef = th.holdsRef := by
              unfold afterOccupy; split <;> rfl
            rw [hr] at hh
            have he : (setTh s t (afterOccupy { th with pc := .occupy } (stepTh cfg s.occ s.limit th.sth).1)).holders = s.holders := by omega
            simp only [setTh, LSt.holders] at he ⊢
            rw [he]; exact h.refs
          · apply pcs_set h.pcs
            unfold afterOccupy
            split
            · rename_i i hi
              simp [PcL, hi, hwk, hw', hp.2]
            · rename_i hi
              simp [PcL, hi, hw', hp.2]
            · simp [PcL, hwk, hw', hp.2]
      · exact h
    · exact h
  | th t =>
    simp only [LSt.step]
    split
    · rename_i th hth
      have hp := h.pcs t th hth
      have hpcok := h.slots.pc t th.sth (proj_get hth)
      have hwk := stepTh_worker cfg s.occ s.limit th.sth hpcok
      split
      · rename_i r hpc
        simp only [PcL, hpc] at hp
        exact h.move cfg hth rfl rfl (by split <;> simp [PcL, hp.1, hp.2.1, hp.2.2])
      · rename_i hpc
        -- `my_references += ref_worker`
        simp only [PcL, hpc] at hp
        refine ⟨?_, ?_, ?_⟩
        · have := proj_same (th' := { th with pc := .occupy, holdsRef := true }) hth rfl
          simp only [LSt.proj, setTh] at this ⊢
          rw [this]; exact h.slots
        · have hh := holders_set (th' := { th with pc := .occupy, holdsRef := true }) hth
          simp only [hp.2.1] at hh
          have := h.refs
          simp only [setTh, LSt.holders] at hh ⊢ this
          have he : List.countP (fun x => x.holdsRef) (s.ths.set t { th with pc := .occupy, holdsRef := true }) = List.countP (fun x => x.holdsRef) s.ths + 1 := by
            simpa using hh
          omega
        · exact pcs_set h.pcs (by simp [PcL, hp.2.2])
      · rename_i hpc
        simp only [PcL, hpc] at hp
        refine ⟨?_, ?_, ?_⟩
        · rw [proj_slot_step cfg hth (th' := afterOccupy th (stepTh cfg s.occ s.limit th.sth).1) (by unfold afterOccupy; split <;> rfl)]
          exact h.slots.step cfg _ t
        · have hh := holders_set (th' := afterOccupy th (stepTh cfg s.occ s.limit th.sth).1) hth
          have hr : (afterOccupy th (stepTh cfg s.occ s.limit th.sth).1).holdsRef = th.holdsRef := by
            unfold afterOccupy; split <;> rfl
          rw [hr] at hh
          have he : (setTh s t (afterOccupy th (stepTh cfg s.occ s.limit th.sth).1)).holders = s.holders := by omega
          simp only [setTh, LSt.holders] at he ⊢
          rw [he]; exact h.refs
        · apply pcs_set h.pcs
          unfold afterOccupy
          split
          · rename_i i hi
            simp [PcL, hi, hwk, hp]
          · rename_i hi
            cases hw : th.sth.worker with
            | true => rw [hw] at hp hwk; simp [PcL, hi, hw, hp, hwk]
            | false => rw [hw] at hp; simp [PcL, hi, hw, hp]
          · simp [PcL, hpc, hwk, hp]
      · rename_i i r hpc
        simp only [PcL, hpc] at hp
        exact h.move cfg hth rfl rfl (by simp [PcL, hp.1, hp.2])
      · rename_i i hpc
        -- `release()`
        simp only [PcL, hpc] at hp
        have hidle := stepTh_release_pc cfg s.occ s.limit th.sth i hp.1
        refine ⟨?_, ?_, ?_⟩
        · rw [proj_slot_step cfg hth (th' := { th with sth := (stepTh cfg s.occ s.limit th.sth).1, pc := if th.sth.worker then .unref else .out }) rfl]
          exact h.slots.step cfg _ t
        · have hh := holders_set (th' := { th with sth := (stepTh cfg s.occ s.limit th.sth).1, pc := if th.sth.worker then .unref else .out }) hth
          have he : (setTh s t { th with sth := (stepTh cfg s.occ s.limit th.sth).1, pc := if th.sth.worker then LPc.unref else LPc.out }).holders = s.holders := by
            simp only at hh; omega
          simp only [setTh, LSt.holders] at he ⊢
          rw [he]; exact h.refs
        · apply pcs_set h.pcs
          cases hw : th.sth.worker with
          | true => rw [hw] at hp hwk; simp [PcL, hidle, hw, hp.2, hwk]
          | false => rw [hw] at hp; simp [PcL, hidle, hw, hp.2]
      · rename_i hpc
        -- `my_references.fetch_sub(ref_worker)`
        simp only [PcL, hpc] at hp
        refine ⟨?_, ?_, ?_⟩
        · have := proj_same (th' := { th with pc := .out, holdsRef := false }) hth rfl
          simp only [LSt.proj, setTh] at this ⊢
          rw [this]; exact h.slots
        · have hh := holders_set (th' := { th with pc := .out, holdsRef := false }) hth
          simp only [hp.2.1] at hh
          have := h.refs
          simp only [setTh, LSt.holders] at hh ⊢ this
          have he : List.countP (fun x => x.holdsRef) s.ths = List.countP (fun x => x.holdsRef) (s.ths.set t { th with pc := .out, holdsRef := false }) + 1 := by
            simpa using hh.symm
          omega
        · exact pcs_set h.pcs (by simp [PcL, hp.1])
      · exact h
    · exact h

theorem LInv.init (cfg : SCfg) (threads : List (Bool × List Nat)) (ext0 : Nat) : LInv cfg (LSt.init cfg threads ext0) := by
  refine ⟨?_, ?_, ?_⟩
  · have := SInv.init cfg threads
    simpa [LSt.proj, LSt.init, slotSys, List.map_map, Function.comp_def] using this
  · simp [LSt.init, LSt.holders, List.countP_map, Function.comp_def, List.countP_eq_zero]
  · intro t th hth
    simp only [LSt.init, List.getElem?_map] at hth
    cases hp : threads[t]? with
    | none => simp [hp] at hth
    | some p => simp [hp] at hth; subst hth; simp [PcL]

theorem LInv.run (cfg : SCfg) {s : LSt} (h : LInv cfg s) (ops : List LOp) : LInv cfg (s.run cfg ops) := by
  induction ops generalizing s with
  | nil => exact h
  | cons o os ih => exact ih (h.step cfg o)

end TbbVerif.C16.Life
