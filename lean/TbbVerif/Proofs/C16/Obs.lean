/-
C16 (second half) — scheduler observers: every `on_scheduler_entry` is matched by exactly one `on_scheduler_exit`.

The proof depends on the generated definitions (`Generated.C16.obs*`) only through the `gen_*` lemmas below.
-/
import TbbVerif.Model.C16Obs

namespace TbbVerif.C16.Obs
open TbbVerif.Generated.C16

/-! ### the only facts used about the generated definitions -/

theorem gen_obsEntrySkip : ∀ b, obsEntrySkip b = b := fun _ => rfl
theorem gen_obsExitSkip : ∀ b, obsExitSkip b = b := fun _ => rfl
theorem gen_join : ∀ k, joinNotifies k = true := fun k => by cases k <;> rfl
theorem gen_leave : ∀ k, leaveNotifies k = true := fun k => by cases k <;> rfl
theorem gen_activate : obsEntryOnActivate = true := rfl

/-! ### list helpers -/

theorem getD_set {α : Type} (l : List α) (i j : Nat) (v d : α) :
    (l.set i v).getD j d = if i = j ∧ i < l.length then v else l.getD j d := by
  simp only [List.getD_eq_getElem?_getD, List.getElem?_set]
  by_cases h : i = j
  · subst h
    by_cases h2 : i < l.length <;> simp [h2]
  · simp [h]

theorem getD_append_one (l : List Bool) (j : Nat) :
    (l ++ [true]).getD j false = if j = l.length then true else l.getD j false := by
  simp only [List.getD_eq_getElem?_getD]
  by_cases h : j < l.length
  · have : j ≠ l.length := by omega
    simp [List.getElem?_append_left h, this]
  · by_cases h2 : j = l.length
    · subst h2; simp
    · have h3 : l.length + 1 ≤ j := by omega
      have : (l ++ [true])[j]? = none := by simp; omega
      have h4 : l[j]? = none := by simp; omega
      simp [this, h4, h2]

theorem getD_of_length_le (l : List Bool) (j : Nat) (h : l.length ≤ j) : l.getD j false = false := by
  simp [List.getD_eq_getElem?_getD, List.getElem?_eq_none h]

theorem countP_map_tag (l : List Nat) (t' t p : Nat) (b' b : Bool) :
    (l.map (fun q => (t', q, b'))).countP (fun e => e == (t, p, b)) =
      if t' = t ∧ b' = b then l.count p else 0 := by
  induction l with
  | nil => simp
  | cons a l ih =>
    simp only [List.map_cons, List.countP_cons, ih, List.count_cons]
    by_cases h1 : t' = t <;> by_cases h2 : b' = b <;> by_cases h3 : a = p <;> simp [h1, h2, h3]

theorem count_activeIn (active : List Bool) (lo hi p : Nat) :
    (activeIn active lo hi).count p =
      if lo ≤ p ∧ p < hi ∧ active.getD p false = true then 1 else 0 := by
  unfold activeIn
  by_cases ha : active.getD p false = true
  · rw [List.count_filter (by simpa using ha), List.count_range']
    by_cases h : lo ≤ p ∧ p < hi
    · have : ∃ i, i < hi - lo ∧ p = lo + 1 * i := ⟨p - lo, by omega, by omega⟩
      rw [if_pos this, if_pos ⟨h.1, h.2, ha⟩]
    · have : ¬ ∃ i, i < hi - lo ∧ p = lo + 1 * i := by
        rintro ⟨i, h1, h2⟩; omega
      rw [if_neg this, if_neg]
      intro h'; exact h ⟨h'.1, h'.2.1⟩
  · rw [if_neg (by intro h'; exact ha h'.2.2)]
    apply List.count_eq_zero.mpr
    intro hm
    have := (List.mem_filter.mp hm).2
    exact ha (by simpa using this)

/-! ### what one notification pass does -/

theorem entryPass_active (s : OSt) (t : Nat) : (entryPass s t).active = s.active := by
  unfold entryPass; dsimp only; split <;> rfl

theorem entryPass_inside (s : OSt) (t : Nat) : (entryPass s t).inside = s.inside := by
  unfold entryPass; dsimp only; split <;> rfl

theorem entryPass_last_length (s : OSt) (t : Nat) : (entryPass s t).last.length = s.last.length := by
  unfold entryPass; dsimp only; split <;> simp

theorem entryPass_last (s : OSt) (t t' : Nat) (ht : t < s.last.length) :
    (entryPass s t).last.getD t' 0 = if t' = t then s.active.length else s.last.getD t' 0 := by
  unfold entryPass; dsimp only; rw [gen_obsEntrySkip]
  split
  · rename_i h
    have h : s.last.getD t 0 = s.active.length := by simpa using h
    by_cases h1 : t' = t
    · subst h1; rw [if_pos rfl]; exact h
    · simp [h1]
  · rw [getD_set]
    by_cases h1 : t' = t
    · subst h1; simp [ht]
    · have : ¬ t = t' := fun h => h1 h.symm
      simp [h1, this]

theorem entryPass_exits (s : OSt) (t t' p : Nat) :
    exits (entryPass s t).log t' p = exits s.log t' p := by
  unfold entryPass; dsimp only
  split
  · rfl
  · simp [exits, List.countP_append]

theorem entryPass_entries (s : OSt) (t t' p : Nat) :
    entries (entryPass s t).log t' p = entries s.log t' p +
      if t' = t ∧ s.last.getD t 0 ≤ p ∧ p < s.active.length ∧ s.active.getD p false = true then 1 else 0 := by
  unfold entryPass; dsimp only; rw [gen_obsEntrySkip]
  split
  · rename_i h
    have h : s.last.getD t 0 = s.active.length := by simpa using h
    rw [if_neg (by omega)]; rfl
  · simp only [entries, List.countP_append, countP_map_tag, count_activeIn]
    by_cases h1 : t' = t
    · subst h1; simp
    · have : ¬ t = t' := fun h => h1 h.symm
      simp [h1, this]

theorem exitPass_active (s : OSt) (t : Nat) : (exitPass s t).active = s.active := by
  unfold exitPass; dsimp only; split <;> rfl

theorem exitPass_inside (s : OSt) (t : Nat) : (exitPass s t).inside = s.inside := by
  unfold exitPass; dsimp only; split <;> rfl

theorem exitPass_last (s : OSt) (t : Nat) : (exitPass s t).last = s.last := by
  unfold exitPass; dsimp only; split <;> rfl

theorem exitPass_entries (s : OSt) (t t' p : Nat) :
    entries (exitPass s t).log t' p = entries s.log t' p := by
  unfold exitPass; dsimp only
  split
  · rfl
  · simp [entries, List.countP_append]

theorem exitPass_exits (s : OSt) (t t' p : Nat) :
    exits (exitPass s t).log t' p = exits s.log t' p +
      if t' = t ∧ p < s.last.getD t 0 ∧ s.active.getD p false = true then 1 else 0 := by
  unfold exitPass; dsimp only; rw [gen_obsExitSkip]
  split
  · rename_i h
    have h : s.last.getD t 0 = 0 := by simpa using h
    rw [if_neg (by omega)]; rfl
  · simp only [exits, List.countP_append, countP_map_tag, count_activeIn]
    by_cases h1 : t' = t
    · subst h1; simp
    · have : ¬ t = t' := fun h => h1 h.symm
      simp [h1, this]

/-! ### the invariant -/

structure Inv (s : OSt) : Prop where
  len : s.last.length = s.inside.length
  lastLe : ∀ t, s.last.getD t 0 ≤ s.active.length
  outside : ∀ t, s.inside.getD t false = false → s.last.getD t 0 = 0
  bal : ∀ t p, exits s.log t p ≤ entries s.log t p ∧ entries s.log t p ≤ exits s.log t p + 1
  cov : ∀ t p, p < s.last.getD t 0 → s.active.getD p false = true →
    entries s.log t p = exits s.log t p + 1
  unc : ∀ t p, s.last.getD t 0 ≤ p →
    entries s.log t p = exits s.log t p ∨ s.active.getD p false = false
  fresh : ∀ t p, s.active.length ≤ p → entries s.log t p = 0 ∧ exits s.log t p = 0

theorem lt_of_getD_true (l : List Bool) (t : Nat) (h : l.getD t false = true) : t < l.length := by
  apply Classical.byContradiction; intro hn
  rw [getD_of_length_le l t (by omega)] at h; cases h

theorem lt_of_getD_false (l : List Bool) (t : Nat) (h : l.getD t true = false) : t < l.length := by
  apply Classical.byContradiction; intro hn
  have : l[t]? = none := List.getElem?_eq_none (by omega)
  simp [List.getD_eq_getElem?_getD, this] at h

theorem getD_false_of_true (l : List Bool) (t : Nat) (h : l.getD t true = false) :
    l.getD t false = false := by
  have := lt_of_getD_false l t h
  simp only [List.getD_eq_getElem?_getD, List.getElem?_eq_getElem this, Option.getD_some] at h ⊢
  exact h

theorem inv_init (n : Nat) : Inv (OSt.init n) := by
  have h0 : ∀ t : Nat, (List.replicate n 0)[t]?.getD 0 = 0 := by
    intro t; simp only [List.getElem?_replicate]; split <;> rfl
  refine ⟨by simp [OSt.init], ?_, ?_, ?_, ?_, ?_, ?_⟩ <;>
    simp [OSt.init, h0, entries, exits]

theorem inv_entryPass (s : OSt) (t : Nat) (h : Inv s) (hin : s.inside.getD t false = true) :
    Inv (entryPass s t) := by
  have ht : t < s.last.length := by rw [h.len]; exact lt_of_getD_true _ _ hin
  refine ⟨?_, ?_, ?_, ?_, ?_, ?_, ?_⟩ <;>
    simp only [entryPass_active, entryPass_inside, entryPass_last s t _ ht, entryPass_exits,
      entryPass_entries, entryPass_last_length]
  · exact h.len
  · intro t'; split
    · omega
    · exact h.lastLe t'
  · intro t' hi
    by_cases h1 : t' = t
    · subst h1; rw [hin] at hi; cases hi
    · rw [if_neg h1]; exact h.outside t' hi
  · intro t' p
    have hb := h.bal t' p
    split
    · rename_i hc
      obtain ⟨rfl, h2, h3, h4⟩ := hc
      rcases h.unc t' p h2 with h5 | h5
      · omega
      · rw [h4] at h5; cases h5
    · omega
  · intro t' p hp ha
    by_cases h1 : t' = t
    · subst h1
      rw [if_pos rfl] at hp
      by_cases h2 : s.last.getD t' 0 ≤ p
      · rw [if_pos ⟨rfl, h2, hp, ha⟩]
        rcases h.unc t' p h2 with h5 | h5
        · omega
        · rw [ha] at h5; cases h5
      · rw [if_neg (by intro hc; exact h2 hc.2.1)]
        exact h.cov t' p (by omega) ha
    · rw [if_neg h1] at hp
      rw [if_neg (by intro hc; exact h1 hc.1)]
      exact h.cov t' p hp ha
  · intro t' p hp
    by_cases h1 : t' = t
    · subst h1
      rw [if_pos rfl] at hp
      rw [if_neg (by intro hc; omega)]
      have := h.fresh t' p hp
      omega
    · rw [if_neg h1] at hp
      rw [if_neg (by intro hc; exact h1 hc.1)]
      exact h.unc t' p hp
  · intro t' p hp
    rw [if_neg (by intro hc; omega)]
    exact h.fresh t' p hp

theorem inv_append (s : OSt) (h : Inv s) : Inv { s with active := s.active ++ [true] } := by
  refine ⟨h.len, ?_, h.outside, h.bal, ?_, ?_, ?_⟩
  · intro t; have := h.lastLe t; dsimp only; simp only [List.length_append, List.length_singleton]; omega
  · intro t p hp ha
    dsimp only at hp ha ⊢
    have := h.lastLe t
    simp only [getD_append_one] at ha
    rw [if_neg (by omega)] at ha
    exact h.cov t p hp ha
  · intro t p hp
    dsimp only at hp ⊢
    simp only [getD_append_one]
    by_cases h1 : p < s.active.length
    · rw [if_neg (by omega)]; exact h.unc t p hp
    · have := h.fresh t p (by omega)
      left; omega
  · intro t p hp
    dsimp only at hp ⊢
    simp only [List.length_append, List.length_singleton] at hp
    exact h.fresh t p (by omega)

theorem inv_deactivate (s : OSt) (q : Nat) (h : Inv s) :
    Inv { s with active := s.active.set q false } := by
  refine ⟨h.len, ?_, h.outside, h.bal, ?_, ?_, ?_⟩
  · intro t; simpa using h.lastLe t
  · intro t p hp ha
    dsimp only at hp ha ⊢
    simp only [getD_set] at ha
    split at ha
    · cases ha
    · exact h.cov t p hp ha
  · intro t p hp
    dsimp only at hp ⊢
    simp only [getD_set]
    split
    · right; rfl
    · exact h.unc t p hp
  · intro t p hp
    dsimp only at hp ⊢
    simp only [List.length_set] at hp
    exact h.fresh t p hp

theorem inv_attach (s : OSt) (t : Nat) (h : Inv s) (hout : s.inside.getD t true = false) :
    Inv { s with inside := s.inside.set t true, last := s.last.set t 0 } := by
  have h0 : s.last.getD t 0 = 0 := h.outside t (getD_false_of_true _ _ hout)
  have hl : ∀ t', (s.last.set t 0).getD t' 0 = s.last.getD t' 0 := by
    intro t'; rw [getD_set]; split
    · rename_i hc; rw [← hc.1, h0]
    · rfl
  refine ⟨by simp [h.len], ?_, ?_, h.bal, ?_, ?_, h.fresh⟩ <;> simp only [hl]
  · exact h.lastLe
  · intro t' hi
    rw [getD_set] at hi
    split at hi
    · cases hi
    · exact h.outside t' hi
  · exact h.cov
  · exact h.unc

theorem inv_detach (s : OSt) (t : Nat) (h : Inv s) :
    let s1 := exitPass s t
    Inv { s1 with inside := s1.inside.set t false, last := s1.last.set t 0 } := by
  intro s1
  have hk := h.lastLe t
  refine ⟨?_, ?_, ?_, ?_, ?_, ?_, ?_⟩ <;>
    simp only [s1, exitPass_active, exitPass_inside, exitPass_last, exitPass_entries, exitPass_exits,
      getD_set, List.length_set]
  · exact h.len
  · intro t'; split
    · omega
    · exact h.lastLe t'
  · intro t' hi
    split
    · rfl
    · rename_i h1
      split at hi
      · rename_i h2; rw [h.len] at h1; exact absurd h2 h1
      · exact h.outside t' hi
  · intro t' p
    have hb := h.bal t' p
    split
    · rename_i hc
      obtain ⟨rfl, h2, h3⟩ := hc
      have := h.cov t' p h2 h3
      omega
    · omega
  · intro t' p hp ha
    split at hp
    · omega
    · rename_i h1
      by_cases h2 : t' = t
      · subst h2
        have : s.last.getD t' 0 = 0 := by
          rw [List.getD_eq_getElem?_getD, List.getElem?_eq_none, Option.getD_none]
          apply Classical.byContradiction; intro hc; exact h1 ⟨rfl, by omega⟩
        omega
      · rw [if_neg (by intro hc; exact h2 hc.1)]
        exact h.cov t' p hp ha
  · intro t' p hp
    by_cases h2 : t' = t
    · subst h2
      by_cases h3 : p < s.last.getD t' 0
      · by_cases h4 : s.active.getD p false = true
        · rw [if_pos ⟨rfl, h3, h4⟩]
          left; exact h.cov t' p h3 h4
        · right; simpa using h4
      · rw [if_neg (by intro hc; exact h3 hc.2.1)]
        exact h.unc t' p (by omega)
    · rw [if_neg (by intro hc; exact h2 (hc.1.symm))] at hp
      rw [if_neg (by intro hc; exact h2 hc.1)]
      exact h.unc t' p hp
  · intro t' p hp
    have hk' := h.lastLe t
    rw [if_neg (by intro hc; obtain ⟨rfl, h2, _⟩ := hc; omega)]
    exact h.fresh t' p hp

theorem inv_step (s : OSt) (op : OOp) (h : Inv s) : Inv (s.step op) := by
  cases op with
  | join t k =>
    simp only [OSt.step, gen_join, if_true]
    split
    · exact h
    · rename_i hout
      have hout : s.inside.getD t true = false := by simpa using hout
      apply inv_entryPass _ _ (inv_attach s t h hout)
      dsimp only
      rw [getD_set, if_pos ⟨rfl, lt_of_getD_false _ _ hout⟩]
  | renotify t =>
    simp only [OSt.step]
    split
    · rename_i hin; exact inv_entryPass s t h hin
    · exact h
  | leave t k =>
    simp only [OSt.step, gen_leave, if_true]
    split
    · exact inv_detach s t h
    · exact h
  | activate t =>
    simp only [OSt.step, gen_activate, Bool.true_and]
    split
    · rename_i hin; exact inv_entryPass _ _ (inv_append s h) hin
    · exact inv_append s h
  | deactivate q => exact inv_deactivate s q h

theorem inv_run (ops : List OOp) : ∀ s : OSt, Inv s → Inv (s.run ops) := by
  induction ops with
  | nil => intro s h; exact h
  | cons op ops ih => intro s h; exact ih _ (inv_step s op h)

/-- for every thread t and proxy p, after any sequence of joins, leaves, re-notifications, activations and deactivations:
exits never exceed entries, at most one entry is outstanding, a thread that is outside has an exit for every entry of every
observer that is still active, and a thread inside has exactly one outstanding entry for every active observer its
`my_last_observer` covers and none for active observers beyond it -/
theorem obs_balanced (n : Nat) (ops : List OOp) (t p : Nat) :
    let s := (OSt.init n).run ops
    exits s.log t p ≤ entries s.log t p ∧ entries s.log t p ≤ exits s.log t p + 1 ∧
    (s.inside.getD t false = false → s.active.getD p false = true → entries s.log t p = exits s.log t p) ∧
    (s.inside.getD t false = true → s.active.getD p false = true →
        entries s.log t p = exits s.log t p + (if p < s.last.getD t 0 then 1 else 0)) ∧
    (s.active.length ≤ p → entries s.log t p = 0) := by
  intro s
  have h : Inv s := inv_run ops _ (inv_init n)
  refine ⟨(h.bal t p).1, (h.bal t p).2, ?_, ?_, fun hp => (h.fresh t p hp).1⟩
  · intro hi ha
    have h0 := h.outside t hi
    rcases h.unc t p (by omega) with h1 | h1
    · exact h1
    · rw [ha] at h1; cases h1
  · intro _ ha
    split
    · rename_i hp; exact h.cov t p hp ha
    · rename_i hp
      rcases h.unc t p (by omega) with h1 | h1
      · exact h1
      · rw [ha] at h1; cases h1

end TbbVerif.C16.Obs
