/-
C16 nested isolation — the invariant `NInv` and its basic lemmas.

`NInv` combines
* tag/ghost consistency (`tagOf[r]` is the tag word of every task, frame and dispatcher that refers to region `r`),
* the STACK DISCIPLINE: on every dispatcher `ed = ctxTag stack`, and every frame saved `ctxTag` of the frames below it
  (`WFS`) — this is what `isolate_within_arena`'s save / restore has to maintain, also across exceptions,
* distinctness of live tags (two live regions with the same tag are the same region unless both tags were passed explicitly),
* the property on every logged execution (`LogOk`).
The facts about the *generated* definitions that the proofs use are the `gen_*` lemmas below: a change of the source that
invalidates one of them breaks the build of this file.
-/
import TbbVerif.Model.C16Nest
import TbbVerif.Proofs.C16.IsoScan

set_option linter.unusedSimpArgs false

namespace TbbVerif.C16.Nest
open TbbVerif.Generated.C16
open TbbVerif.C16.Iso (Task PEntry Entry Pool)

/-! ### facts about the generated definitions -/

/-- **what `isolate_within_arena` saves.**  Whatever the dispatcher's word was at the call, the completion guard hands exactly that
word back to `set_isolation`.  (`previous_isolation` initialised to something else *and* captured by value, or never assigned from
`set_isolation`'s result while initialised to something else, falsifies this.) -/
theorem gen_captured (e : Nat) : isolateCaptured e = e := by
  simp [isolateCaptured, isoPrevInit, isoBodyAssignsPrev, isoCompletionByRef]

theorem gen_restoreReturn : isoRestoreOnReturn = true := by decide
theorem gen_restoreThrow : isoRestoreOnThrow = true := by decide
theorem gen_nestedArena : nestedArenaIso = 0 := by decide
theorem gen_base : baseIso = 0 := by decide
theorem gen_resumeTag : resumeTag = 0 := by decide
theorem gen_respawn : critRespawnBeforeEd = true := by decide
theorem gen_bypassKeepsEd : bypassKeepsEd = true := by decide
theorem gen_resumeReturnsNoTask : resumeReturnsNoTask = true := by decide
theorem gen_execWaitTag (e : Nat) : execWaitTag e = e := by simp [execWaitTag]
theorem gen_isolateTag (x f : Nat) : isolateSet (isolateTag x f) = if x ≠ 0 then x else f := by
  simp [isolateSet, isolateTag]

/-! ### the invariant -/

def Tk (m : List Nat) (x : Task) : Prop := x.tag = m.getD x.region 0 ∧ x.region < m.length
def Pk (m : List Nat) (p : PEntry) : Prop := p.ptag = p.task.tag ∧ Tk m p.task
def Ek (m : List Nat) : Entry → Prop
  | .plain x => Tk m x
  | .proxy p => Pk m p

def Fk (m : List Nat) : Fr → Prop
  | .loop i g se sr _ _ => i = m.getD g 0 ∧ g < m.length ∧ se = m.getD sr 0 ∧ sr < m.length
  | .region prev sr rid tag _ => prev = m.getD sr 0 ∧ sr < m.length ∧ tag = m.getD rid 0 ∧ rid < m.length
  | .exec se sr => se = m.getD sr 0 ∧ sr < m.length

/-- the stack discipline: every frame saved the isolation word that was in force below it; a loop's constant is that word, and the
task it runs (unless it is a resume task) passed the loop's filter -/
def WFS : List Fr → Prop
  | [] => True
  | .loop i _ se _ cur res :: rest => se = ctxTag rest ∧ i = se ∧ (res = false → i = 0 ∨ cur = i) ∧ WFS rest
  | .region prev _ _ _ _ :: rest => prev = ctxTag rest ∧ WFS rest
  | .exec se _ :: rest => se = ctxTag rest ∧ WFS rest

def Dk (m : List Nat) (dp : Disp) : Prop :=
  dp.ed = m.getD dp.reg 0 ∧ dp.reg < m.length ∧ (∀ f ∈ dp.stack, Fk m f) ∧ dp.ed = ctxTag dp.stack ∧ WFS dp.stack

/-- live regions with equal tags are the same region, unless both tags were passed explicitly -/
def Lk (ds : List Disp) : Prop :=
  ∀ dp1 ∈ ds, ∀ dp2 ∈ ds, ∀ p1 s1 r1 t1 e1, Fr.region p1 s1 r1 t1 e1 ∈ dp1.stack →
    ∀ p2 s2 r2 t2 e2, Fr.region p2 s2 r2 t2 e2 ∈ dp2.stack → t1 = t2 → ¬(e1 = true ∧ e2 = true) → r1 = r2

/-- the property on one logged execution -/
def LogOk (e : LogE) : Prop :=
  (e.resume = false →
    e.iso = ctxTag e.below ∧ (e.iso = 0 ∨ e.edAt = e.iso) ∧ (e.bypass = false → e.edAt = e.task.tag) ∧
    (e.iso ≠ 0 → e.task.region = e.ghost ∨ e.tLive = false ∨ e.gLive = false ∨ e.bothExpl = true)) ∧
  (e.resume = true → e.task.tag = 0 ∧ e.task.region = 0 ∧ e.edAt = 0)

structure NInv (s : NSt) : Prop where
  zero : s.tagOf.getD 0 0 = 0 ∧ 0 < s.tagOf.length
  pools : ∀ pool ∈ s.pools, ∀ e, some e ∈ pool → Ek s.tagOf e
  mail : ∀ box ∈ s.mail, ∀ p ∈ box, Pk s.tagOf p
  fifo : ∀ x ∈ s.fifo, Tk s.tagOf x
  crit : ∀ x ∈ s.crit, Tk s.tagOf x
  disps : ∀ dp ∈ s.disps, Dk s.tagOf dp
  live : Lk s.disps
  log : ∀ e ∈ s.log, LogOk e

/-! ### monotonicity in `tagOf` -/

theorem getD_snoc_lt (m : List Nat) (τ r : Nat) (h : r < m.length) : (m ++ [τ]).getD r 0 = m.getD r 0 := by
  simp [List.getD_eq_getElem?_getD, List.getElem?_append_left h]

theorem getD_snoc_len (m : List Nat) (τ : Nat) : (m ++ [τ]).getD m.length 0 = τ := by
  simp [List.getD_eq_getElem?_getD]

theorem Tk.mono {m : List Nat} {x : Task} (τ : Nat) (h : Tk m x) : Tk (m ++ [τ]) x := by
  refine ⟨?_, ?_⟩
  · rw [getD_snoc_lt m τ _ h.2]; exact h.1
  · simp; have := h.2; omega

theorem Pk.mono {m : List Nat} {p : PEntry} (τ : Nat) (h : Pk m p) : Pk (m ++ [τ]) p := ⟨h.1, h.2.mono τ⟩

theorem Ek.mono {m : List Nat} {e : Entry} (τ : Nat) (h : Ek m e) : Ek (m ++ [τ]) e := by
  cases e with
  | plain x => exact Tk.mono τ h
  | proxy p => exact Pk.mono τ h

theorem Fk.mono {m : List Nat} {f : Fr} (τ : Nat) (h : Fk m f) : Fk (m ++ [τ]) f := by
  cases f with
  | loop i g se sr c rs =>
    obtain ⟨h1, h2, h3, h4⟩ := h
    refine ⟨?_, ?_, ?_, ?_⟩
    · rw [getD_snoc_lt m τ _ h2]; exact h1
    · simp; omega
    · rw [getD_snoc_lt m τ _ h4]; exact h3
    · simp; omega
  | region prev sr rid tag e =>
    obtain ⟨h1, h2, h3, h4⟩ := h
    refine ⟨?_, ?_, ?_, ?_⟩
    · rw [getD_snoc_lt m τ _ h2]; exact h1
    · simp; omega
    · rw [getD_snoc_lt m τ _ h4]; exact h3
    · simp; omega
  | exec se sr =>
    obtain ⟨h1, h2⟩ := h
    refine ⟨?_, ?_⟩
    · rw [getD_snoc_lt m τ _ h2]; exact h1
    · simp; omega

theorem Dk.mono {m : List Nat} {dp : Disp} (τ : Nat) (h : Dk m dp) : Dk (m ++ [τ]) dp := by
  obtain ⟨h1, h2, h3, h4, h5⟩ := h
  refine ⟨?_, ?_, fun f hf => (h3 f hf).mono τ, h4, h5⟩
  · rw [getD_snoc_lt m τ _ h2]; exact h1
  · simp; omega

/-! ### list helpers -/

theorem mem_set_cases {α : Type} {l : List α} {i : Nat} {a x : α} (h : x ∈ l.set i a) : x = a ∨ x ∈ l := by
  rcases List.mem_or_eq_of_mem_set h with h | h
  · exact Or.inr h
  · exact Or.inl h

theorem getElem?_mem {α : Type} {l : List α} {i : Nat} {a : α} (h : l[i]? = some a) : a ∈ l := List.mem_of_getElem? h

theorem dispOf_mem {s : NSt} {t d : Nat} {dp : Disp} (h : s.dispOf t = some (d, dp)) : s.disps[d]? = some dp := by
  unfold NSt.dispOf at h
  split at h
  · rename_i d' _
    cases hd : s.disps[d']? with
    | none => simp [hd] at h
    | some dp' =>
      simp [hd] at h
      obtain ⟨rfl, rfl⟩ := h
      exact hd
  · simp at h

/-! ### `Lk` under updates of one dispatcher -/

/-- the region frames of the new stack all occur in the old one -/
theorem Lk.set_sub {ds : List Disp} (h : Lk ds) {d : Nat} {dp dp' : Disp} (hd : ds[d]? = some dp)
    (hsub : ∀ p s r t e, Fr.region p s r t e ∈ dp'.stack → Fr.region p s r t e ∈ dp.stack) : Lk (ds.set d dp') := by
  intro dp1 h1 dp2 h2 p1 s1 r1 t1 e1 hf1 p2 s2 r2 t2 e2 hf2
  have hm := getElem?_mem hd
  have a1 : dp1 = dp' ∨ dp1 ∈ ds := mem_set_cases h1
  have a2 : dp2 = dp' ∨ dp2 ∈ ds := mem_set_cases h2
  rcases a1 with a1 | a1 <;> rcases a2 with a2 | a2
  · subst a1; subst a2
    exact h dp hm dp hm _ _ _ _ _ (hsub _ _ _ _ _ hf1) _ _ _ _ _ (hsub _ _ _ _ _ hf2)
  · subst a1
    exact h dp hm dp2 a2 _ _ _ _ _ (hsub _ _ _ _ _ hf1) _ _ _ _ _ hf2
  · subst a2
    exact h dp1 a1 dp hm _ _ _ _ _ hf1 _ _ _ _ _ (hsub _ _ _ _ _ hf2)
  · exact h dp1 a1 dp2 a2 _ _ _ _ _ hf1 _ _ _ _ _ hf2

theorem setCur_region {c : Nat} {rs : Bool} {st : List Fr} {p s r t : Nat} {e : Bool} (h : Fr.region p s r t e ∈ setCur c rs st) :
    Fr.region p s r t e ∈ st := by
  unfold setCur at h
  split at h
  · simp only [List.mem_cons] at h ⊢
    rcases h with h | h
    · cases h
    · exact Or.inr h
  · exact h

end TbbVerif.C16.Nest
