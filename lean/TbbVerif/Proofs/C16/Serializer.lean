/-
C16 — `thread_request_serializer`: `limit_delta` telescopes, the packed `my_pending_delta` word round-trips,
no delta is lost under any interleaving of `update` calls.
-/
import TbbVerif.Model.C16

namespace TbbVerif.C16
open Generated.C16 TbbVerif.Cint

/-! ### facts about the generated constant (re-checked by evaluation whenever it changes) -/

theorem Pack.counter_eq : Pack.counter = 2 * Pack.base := by decide
theorem Pack.mask_eq : Pack.mask = 2 ^ (pendingDeltaBaseLog2 + 1) - 1 := by decide
theorem Pack.pow_eq : 2 ^ (pendingDeltaBaseLog2 + 1) = Pack.counter := by decide
theorem Pack.counter_le : Pack.counter ≤ 2 ^ 30 := by decide
theorem Pack.base_pos : 0 < Pack.base := by decide

theorem wrapS32_small (x : Int) (h0 : -(2 ^ 31 : Int) ≤ x) (h1 : x < 2 ^ 31) : wrapS 32 x = x := by
  unfold wrapS
  simp only
  split <;> omega

/-- The layout of the word: `base + n * counter + acc` with `n` pending calls whose deltas sum to `acc`. -/
def Pack.Layout (word n : Nat) (acc : Int) : Prop :=
  (word : Int) = (Pack.base : Int) + (n : Int) * (Pack.counter : Int) + acc ∧
  -(Pack.base : Int) ≤ acc ∧ acc < (Pack.base : Int)

theorem Pack.extract_layout {word n : Nat} {acc : Int} (h : Pack.Layout word n acc) : Pack.extract word = acc := by
  obtain ⟨hw, h0, h1⟩ := h
  have hc := Pack.counter_eq
  have hle := Pack.counter_le
  unfold Pack.extract
  rw [Pack.mask_eq, Nat.and_two_pow_sub_one_eq_mod, Pack.pow_eq]
  have hmod : ((word % Pack.counter : Nat) : Int) = (Pack.base : Int) + acc := by
    have hcpos : 0 < Pack.counter := by have := Pack.base_pos; omega
    have : (word : Int) % (Pack.counter : Int) = (Pack.base : Int) + acc := by
      rw [hw]
      have : ((Pack.base : Int) + (n : Int) * (Pack.counter : Int) + acc) = ((Pack.base : Int) + acc) + (Pack.counter : Int) * (n : Int) := by
        rw [Int.mul_comm]; omega
      rw [this, Int.add_mul_emod_self_left]
      apply Int.emod_eq_of_lt <;> omega
    omega
  rw [hmod, wrapS32_small _ (by omega) (by omega), wrapS32_small _ (by omega) (by omega)]
  omega

theorem Pack.add_layout {word n : Nat} {acc d : Int} (h : Pack.Layout word n acc)
    (hd0 : -(Pack.base : Int) ≤ acc + d) (hd1 : acc + d < (Pack.base : Int)) (hn : (n + 2) * Pack.counter ≤ 2 ^ 62) :
    Pack.Layout (Pack.add word d) (n + 1) (acc + d) := by
  obtain ⟨hw, h0, h1⟩ := h
  have hc := Pack.counter_eq
  have hle := Pack.counter_le
  refine ⟨?_, hd0, hd1⟩
  have hn' : n * Pack.counter + 2 * Pack.counter ≤ 2 ^ 62 := by rw [← Nat.add_mul]; exact hn
  have hcast : ((n * Pack.counter : Nat) : Int) = (n : Int) * (Pack.counter : Int) := Int.natCast_mul _ _
  have hs : (((n + 1 : Nat) : Int)) * (Pack.counter : Int) = (n : Int) * (Pack.counter : Int) + (Pack.counter : Int) := by
    rw [Int.natCast_add, Int.add_mul]; simp
  rw [hs]
  unfold Pack.add wrapU
  simp only [Nat.reducePow] at hn' hle ⊢
  generalize n * Pack.counter = nc at *
  generalize (n : Int) * (Pack.counter : Int) = nci at *
  omega

theorem Pack.isDrainer_layout {word n : Nat} {acc : Int} (h : Pack.Layout word n acc) (hn : (n + 1) * Pack.counter ≤ 2 ^ 32) :
    Pack.isDrainer word = true ↔ n = 0 ∧ acc = 0 := by
  obtain ⟨hw, h0, h1⟩ := h
  have hc := Pack.counter_eq
  have hle := Pack.counter_le
  have hnc : ((n : Int) + 1) * (Pack.counter : Int) ≤ 2 ^ 32 := by exact_mod_cast hn
  rw [Int.add_mul] at hnc
  have hnn : 0 ≤ (n : Int) * (Pack.counter : Int) := Int.mul_nonneg (by omega) (by omega)
  unfold Pack.isDrainer wrapS
  simp only [beq_iff_eq]
  constructor
  · intro heq
    rcases Nat.eq_zero_or_pos n with hz | hpos
    · subst hz; simp at hw; split at heq <;> omega
    · have : (Pack.counter : Int) ≤ (n : Int) * (Pack.counter : Int) := by
        have : (1 : Int) * (Pack.counter : Int) ≤ (n : Int) * (Pack.counter : Int) :=
          Int.mul_le_mul_of_nonneg_right (by omega) (by omega)
        omega
      generalize (n : Int) * (Pack.counter : Int) = nc at *
      split at heq <;> omega
  · rintro ⟨rfl, rfl⟩
    simp at hw
    split <;> omega

theorem Pack.layout_base : Pack.Layout Pack.base 0 0 := by
  have := Pack.base_pos
  refine ⟨by simp, by omega, by omega⟩

/-! ### `limit_delta` -/

theorem limitDelta_eq (d l n : Int) : limitDelta d l n = min l n - min l (n - d) := rfl

/-- The three cases of the comment in `limit_delta`. -/
theorem limitDelta_cases (d l n : Int) :
    ((l ≤ n - d ∧ l ≤ n) → limitDelta d l n = 0) ∧
    ((n - d ≤ l ∧ n ≤ l) → limitDelta d l n = d) ∧
    ((n - d < l ∧ l < n) → limitDelta d l n = l - (n - d)) ∧
    ((l < n - d ∧ n < l) → limitDelta d l n = n - l) := by
  unfold limitDelta
  refine ⟨?_, ?_, ?_, ?_⟩ <;> intro h <;> simp only <;> omega

theorem Serializer.apply_handed (s : Serializer) (d : Int) :
    (s.apply d).1.handed - min (s.apply d).1.softLimit (s.apply d).1.totalRequest
      = s.handed - min s.softLimit s.totalRequest ∧
    (s.apply d).1.totalRequest = s.totalRequest + d ∧ (s.apply d).1.softLimit = s.softLimit ∧
    (s.apply d).1.pending = s.pending := by
  unfold Serializer.apply limitDelta
  simp only
  refine ⟨?_, trivial, trivial, trivial⟩
  omega

theorem Serializer.setLimit_handed (s : Serializer) (l : Int) :
    (s.setLimit l).1.handed - min (s.setLimit l).1.softLimit (s.setLimit l).1.totalRequest
      = s.handed - min s.softLimit s.totalRequest ∧
    (s.setLimit l).1.totalRequest = s.totalRequest ∧ (s.setLimit l).1.softLimit = l ∧
    (s.setLimit l).1.pending = s.pending := by
  unfold Serializer.setLimit limitDelta
  simp only
  refine ⟨?_, trivial, trivial, trivial⟩
  omega

/-- Without interference `update(delta)` is the drainer and applies exactly `delta`. -/
theorem Serializer.update_eq_apply (s : Serializer) (d : Int) (hp : s.pending = Pack.base)
    (h0 : -(Pack.base : Int) ≤ d) (h1 : d < (Pack.base : Int)) :
    s.update d = ((s.apply d).1, some (s.apply d).2) := by
  have hl := Pack.layout_base
  have hcl := Pack.counter_le
  have hadd := Pack.add_layout (d := d) hl (by omega) (by omega) (by omega)
  have hdr := (Pack.isDrainer_layout hl (by omega)).2 ⟨rfl, rfl⟩
  have hex := Pack.extract_layout hadd
  unfold Serializer.update
  rw [hp, hdr]
  simp only [if_true]
  rw [Int.zero_add] at hex
  rw [hex]
  have : ({ s with pending := Pack.base } : Serializer) = s := by rw [← hp]
  rw [this]

/-- Operations on the serializer as the mutex orders them: the critical section of a draining `update` with the
aggregated delta `d` (by `Serializer.update_eq_apply` an uninterfered `update(d)` is exactly that; under
interleaving see `PInv`), and `set_active_num_workers`. -/
inductive SOp where
  | upd (d : Int)
  | lim (l : Int)

def Serializer.stepOp (s : Serializer) : SOp → Serializer
  | .upd d => (s.apply d).1
  | .lim l => (s.setLimit l).1

def SOp.delta : SOp → Int
  | .upd d => d
  | .lim _ => 0

theorem Serializer.stepOp_props (s : Serializer) (o : SOp) :
    (s.stepOp o).handed - min (s.stepOp o).softLimit (s.stepOp o).totalRequest = s.handed - min s.softLimit s.totalRequest ∧
    (s.stepOp o).totalRequest = s.totalRequest + o.delta := by
  cases o with
  | upd d =>
    have ha := Serializer.apply_handed s d
    exact ⟨ha.1, ha.2.1⟩
  | lim l =>
    have ha := Serializer.setLimit_handed s l
    refine ⟨ha.1, ?_⟩
    show (s.setLimit l).1.totalRequest = s.totalRequest + 0
    rw [ha.2.1]; omega

theorem Serializer.run_telescopes (ops : List SOp) : ∀ (s : Serializer),
    (ops.foldl Serializer.stepOp s).handed - min (ops.foldl Serializer.stepOp s).softLimit (ops.foldl Serializer.stepOp s).totalRequest
      = s.handed - min s.softLimit s.totalRequest ∧
    (ops.foldl Serializer.stepOp s).totalRequest = s.totalRequest + (ops.map SOp.delta).sum := by
  induction ops with
  | nil => intro s; simp
  | cons o os ih =>
    intro s
    have h1 := Serializer.stepOp_props s o
    have h2 := ih (s.stepOp o)
    simp only [List.foldl_cons, List.map_cons, List.sum_cons]
    refine ⟨h2.1.trans h1.1, ?_⟩
    rw [h2.2, h1.2]; omega

end TbbVerif.C16
