/-
C16 isolation — facts about the generated conditions (the only place the proofs look inside `Generated.C16.iso*`, `tag*`,
`edAfter*`, `isolate*`), and lemmas about the three scans (`ownScan`, `stealScan`, `mailScan`).
-/
import TbbVerif.Model.C16Iso

namespace TbbVerif.C16.Iso
open TbbVerif.Generated.C16

/-! ## generated facts: if the generator emits a weaker condition exactly these lemmas fail -/

theorem gen_ownOmit (i t : Nat) (h : isoOwnOmit i t = false) : i = 0 ∨ i = t := by
  simp [isoOwnOmit] at h; omega

theorem gen_ownPlain (o p : Bool) (h : isoOwnPlain o p = true) : o = false ∧ p = false := by
  cases o <;> cases p <;> simp_all [isoOwnPlain]

/-- the proxy branch of `get_task_impl` is reached only for a task that is not omitted -/
theorem gen_ownSkip (o : Bool) (h : isoOwnSkip o = false) : o = false := by
  cases o <;> simp_all [isoOwnSkip]

theorem gen_stealOk (i t : Nat) (h : isoStealOk i t = true) : i = 0 ∨ i = t := by
  simp [isoStealOk] at h; omega

theorem gen_mail (i t : Nat) (h : (isoMailGuard i && isoMailSkip i t) = false) : i = 0 ∨ i = t := by
  simp [isoMailGuard, isoMailSkip] at h; omega

theorem gen_fifo (fa : Bool) (i : Nat) (h : isoFifoOk fa i = true) : i = 0 := by
  simp [isoFifoOk] at h; omega

theorem gen_crit (i t : Nat) (h : (!isoCritSpecific (isoArgCrit1 i) || isoCritMatch true (argCrit i) t) = true) : i = 0 ∨ i = t := by
  simp [isoCritSpecific, isoCritMatch, argCrit, isoArgCrit1, isoArgCrit2, isoArgCrit3] at h; omega

theorem gen_argOwn (i : Nat) : argOwn i = i := rfl
theorem gen_argMail (i : Nat) : argMail i = i := rfl
theorem gen_argSteal (i : Nat) : argSteal i = i := rfl
theorem gen_argFifo (i : Nat) : argFifo i = i := rfl
theorem gen_loop (e : Nat) : isoLoop e = e := rfl
theorem gen_tagSpawn (e : Nat) : tagSpawn e = e := rfl
theorem gen_tagSpawnAff (e : Nat) : tagSpawnAff e = e := rfl
theorem gen_tagProxy (e : Nat) : tagProxy e = e := rfl
theorem gen_tagCritical (e : Nat) : tagCritical e = e := rfl
theorem gen_tagEnqueue (e : Nat) : tagEnqueue e = 0 := rfl
theorem gen_edAfterOwn (t : Nat) : edAfterOwn t = t := rfl
theorem gen_edAfterIdle (t : Nat) : edAfterIdle t = t := rfl
theorem gen_edAfterCrit (t : Nat) : edAfterCrit t = t := rfl
theorem gen_isolate (f : Nat) (_h : f ≠ 0) : isolateSet (isolateTag 0 f) = f := by
  simp [isolateSet, isolateTag]
theorem gen_isolateRestore (p : Nat) : isolateRestore p = p := rfl

/-- a thread that is not isolated is refused by none of the filters -/
theorem gen_nonisolated (t : Nat) :
    isoOwnOmit 0 t = false ∧ isoStealOk 0 t = true ∧ (isoMailGuard 0 && isoMailSkip 0 t) = false ∧ isoFifoOk true 0 = true ∧
    (!isoCritSpecific (isoArgCrit1 0) || isoCritMatch true (argCrit 0) t) = true := by
  simp [isoOwnOmit, isoStealOk, isoMailGuard, isoFifoOk, isoCritSpecific, isoArgCrit1]

attribute [local irreducible] isoOwnOmit isoOwnPlain isoOwnSkip isoStealOk isoStealPlain isoStealProxyTake isoMailGuard isoMailSkip

/-! ## plain tasks of a pool -/

def plainTasks : List (Option Entry) → List Task
  | [] => []
  | some (.plain x) :: rest => x :: plainTasks rest
  | _ :: rest => plainTasks rest

@[simp] theorem plainTasks_nil : plainTasks [] = [] := rfl
@[simp] theorem plainTasks_none (l : List (Option Entry)) : plainTasks (none :: l) = plainTasks l := rfl
@[simp] theorem plainTasks_plain (x : Task) (l : List (Option Entry)) : plainTasks (some (.plain x) :: l) = x :: plainTasks l := rfl
@[simp] theorem plainTasks_proxy (p : PEntry) (l : List (Option Entry)) : plainTasks (some (.proxy p) :: l) = plainTasks l := rfl

theorem plainTasks_append (a b : List (Option Entry)) : plainTasks (a ++ b) = plainTasks a ++ plainTasks b := by
  induction a with
  | nil => rfl
  | cons e a ih =>
    cases e with
    | none => simpa using ih
    | some e => cases e <;> simp [ih]

theorem plainTasks_reverse (a : List (Option Entry)) : plainTasks a.reverse = (plainTasks a).reverse := by
  induction a with
  | nil => rfl
  | cons e a ih =>
    rw [List.reverse_cons, plainTasks_append, ih]
    cases e with
    | none => simp
    | some e => cases e <;> simp

/-! ## `ownScan` -/

/-- the plain task the owner's scan returned (a task obtained through a proxy is accounted for by the proxy) -/
def ownPlainRes (r : List (Option Entry) × Option Task × Option PEntry) : List Task :=
  match r.2.1, r.2.2 with
  | some x, none => [x]
  | _, _ => []

theorem ownScan_sub (iso : Nat) (c : List Nat) (l : List (Option Entry)) (om : Bool) (e : Entry)
    (h : some e ∈ (ownScan iso c l om).1) : some e ∈ l := by
  fun_induction ownScan iso c l om <;> simp_all [ownTakeRest] <;> grind

/-- what the owner's scan returns: an entry of the pool that the isolation filter accepts -/
theorem ownScan_res (iso : Nat) (c : List Nat) (l : List (Option Entry)) (om : Bool) (x : Task)
    (h : (ownScan iso c l om).2.1 = some x) :
    ∃ e, some e ∈ l ∧ (iso = 0 ∨ iso = e.tag) ∧
      ((e = .plain x ∧ (ownScan iso c l om).2.2 = none) ∨
       (∃ p, e = .proxy p ∧ x = p.task ∧ p.pid ∉ c ∧ (ownScan iso c l om).2.2 = some p)) := by
  fun_induction ownScan iso c l om
  case case1 => simp at h
  case case2 ih => obtain ⟨e, he, hr⟩ := ih h; exact ⟨e, List.mem_cons_of_mem _ he, hr⟩
  case case3 ih => obtain ⟨e, he, hr⟩ := ih h; exact ⟨e, List.mem_cons_of_mem _ he, hr⟩
  case case4 =>
    obtain ⟨ho, _⟩ := gen_ownPlain _ _ ‹isoOwnPlain _ _ = true›
    simp only [Option.some.injEq] at h
    subst h
    exact ⟨_, by simp, gen_ownOmit _ _ ho, Or.inl ⟨rfl, rfl⟩⟩
  case case5 => exact absurd (gen_ownPlain _ _ ‹isoOwnPlain _ _ = true›).2 (by simp [Entry.isProxy])
  case case6 ih => obtain ⟨e, he, hr⟩ := ih h; exact ⟨e, List.mem_cons_of_mem _ he, hr⟩
  case case7 ih => obtain ⟨e, he, hr⟩ := ih h; exact ⟨e, List.mem_cons_of_mem _ he, hr⟩
  case case8 ih => obtain ⟨e, he, hr⟩ := ih h; exact ⟨e, List.mem_cons_of_mem _ he, hr⟩
  case case9 =>
    have ho := gen_ownSkip _ (by simpa using ‹¬isoOwnSkip _ = true›)
    simp only [Option.some.injEq] at h
    subst h
    exact ⟨_, by simp, gen_ownOmit _ _ ho, Or.inr ⟨_, rfl, rfl, ‹_ ∉ c›, rfl⟩⟩
  case case10 ih => obtain ⟨e, he, hr⟩ := ih h; exact ⟨e, List.mem_cons_of_mem _ he, hr⟩

def entryPlain : Entry → List Task
  | .plain x => [x]
  | .proxy _ => []

theorem plainTasks_some (e : Entry) (l : List (Option Entry)) : plainTasks (some e :: l) = entryPlain e ++ plainTasks l := by
  cases e <;> rfl

theorem ownScan_count (iso : Nat) (c : List Nat) (l : List (Option Entry)) (om : Bool) (x : Task) :
    (plainTasks l).count x = (plainTasks (ownScan iso c l om).1).count x + (ownPlainRes (ownScan iso c l om)).count x := by
  fun_induction ownScan iso c l om
  case case1 => simp [ownPlainRes]
  case case2 ih => simpa [ownPlainRes] using ih
  case case3 ih => simpa [ownPlainRes] using ih
  case case4 => simp only [ownTakeRest]; split <;> simp [ownPlainRes, List.count_cons] <;> omega
  case case5 ih => simp only [plainTasks_some, List.count_append] at ih ⊢; simp only [ownPlainRes] at ih ⊢; omega
  case case6 ih => simp only [plainTasks_some, List.count_append] at ih ⊢; simp only [ownPlainRes] at ih ⊢; omega
  case case7 ih => simpa [ownPlainRes] using ih
  case case8 ih => simpa [ownPlainRes] using ih
  case case9 => simp only [ownTakeRest]; split <;> simp [ownPlainRes]
  case case10 ih => simp only [plainTasks_some, List.count_append] at ih ⊢; simp only [ownPlainRes] at ih ⊢; omega

theorem claim_sub (c : List Nat) (o : Option PEntry) (n : Nat) (h : n ∉ claim c o) : n ∉ c := by
  cases o <;> simp_all [claim]

/-- a proxy that is still unclaimed after the owner's scan is still in the pool -/
theorem ownScan_stay (iso : Nat) (c : List Nat) (l : List (Option Entry)) (om : Bool) (q : PEntry)
    (h : some (.proxy q) ∈ l) (hq : q.pid ∉ claim c (ownScan iso c l om).2.2) : some (.proxy q) ∈ (ownScan iso c l om).1 := by
  fun_induction ownScan iso c l om
  all_goals (try (have hc := claim_sub _ _ _ hq))
  all_goals (simp only [List.mem_cons, Option.some.injEq, Entry.proxy.injEq, reduceCtorEq, false_or, List.not_mem_nil, ownTakeRest, claim] at *)
  all_goals (try grind)

theorem ownScan_claimed (iso : Nat) (c : List Nat) (l : List (Option Entry)) (om : Bool) (p : PEntry)
    (h : (ownScan iso c l om).2.2 = some p) :
    some (.proxy p) ∈ l ∧ p.pid ∉ c ∧ (ownScan iso c l om).2.1 = some p.task := by
  fun_induction ownScan iso c l om <;> simp_all [ownTakeRest]

/-! ## `stealScan` -/

def stealPlainRes : Option Entry → List Task
  | some (.plain x) => [x]
  | _ => []

theorem stealPlainRes_some (e : Entry) : stealPlainRes (some e) = entryPlain e := by cases e <;> rfl

theorem stealScan_sub (iso : Nat) (c : List Nat) (di : Nat → Bool) (vi : Bool) (l : List (Option Entry)) (om : Bool) (e : Entry)
    (h : some e ∈ (stealScan iso c di vi l om).1) : some e ∈ l := by
  fun_induction stealScan iso c di vi l om <;> simp_all <;> grind

theorem stealScan_res (iso : Nat) (c : List Nat) (di : Nat → Bool) (vi : Bool) (l : List (Option Entry)) (om : Bool) (e : Entry)
    (h : (stealScan iso c di vi l om).2 = some e) : some e ∈ l ∧ (iso = 0 ∨ iso = e.tag) := by
  fun_induction stealScan iso c di vi l om
  case case1 => simp at h
  case case2 ih => exact ⟨List.mem_cons_of_mem _ (ih h).1, (ih h).2⟩
  case case3 ih => exact ⟨List.mem_cons_of_mem _ (ih h).1, (ih h).2⟩
  case case4 =>
    simp only [Option.some.injEq] at h
    subst h
    have ht : stealTakes iso c di vi _ = true := ‹_›
    simp only [stealTakes, Bool.and_eq_true] at ht
    exact ⟨by simp, gen_stealOk _ _ ht.1⟩
  case case5 ih => exact ⟨List.mem_cons_of_mem _ (ih h).1, (ih h).2⟩

theorem stealScan_count (iso : Nat) (c : List Nat) (di : Nat → Bool) (vi : Bool) (l : List (Option Entry)) (om : Bool) (x : Task) :
    (plainTasks l).count x = (plainTasks (stealScan iso c di vi l om).1).count x + (stealPlainRes (stealScan iso c di vi l om).2).count x := by
  fun_induction stealScan iso c di vi l om
  case case1 => simp [stealPlainRes]
  case case2 ih => simpa using ih
  case case3 ih => simpa using ih
  case case4 =>
    simp only [plainTasks_some, List.count_append, stealPlainRes_some]
    split <;> (try simp only [plainTasks_none]) <;> omega
  case case5 ih => simp only [plainTasks_some, List.count_append] at ih ⊢; omega

/-- an entry other than the one taken stays in the victim's pool -/
theorem stealScan_stay (iso : Nat) (c : List Nat) (di : Nat → Bool) (vi : Bool) (l : List (Option Entry)) (om : Bool) (e : Entry)
    (h : some e ∈ l) (hne : (stealScan iso c di vi l om).2 ≠ some e) : some e ∈ (stealScan iso c di vi l om).1 := by
  fun_induction stealScan iso c di vi l om <;> simp_all <;> grind

/-! ## `mailScan` -/

theorem mailScan_sub (iso : Nat) (c : List Nat) (l : List PEntry) (p : PEntry) (h : p ∈ (mailScan iso c l).1) : p ∈ l := by
  fun_induction mailScan iso c l <;> simp_all <;> grind

theorem mailScan_res (iso : Nat) (c : List Nat) (l : List PEntry) (p : PEntry) (h : (mailScan iso c l).2 = some p) :
    p ∈ l ∧ p.pid ∉ c ∧ (iso = 0 ∨ iso = p.ptag) := by
  fun_induction mailScan iso c l
  case case1 => simp at h
  case case2 ih => exact ⟨List.mem_cons_of_mem _ (ih h).1, (ih h).2⟩
  case case3 ih => exact ⟨List.mem_cons_of_mem _ (ih h).1, (ih h).2⟩
  case case4 =>
    simp only [Option.some.injEq] at h
    subst h
    exact ⟨by simp, ‹_ ∉ c›, gen_mail _ _ (by simpa using ‹¬(isoMailGuard iso && isoMailSkip iso _) = true›)⟩

/-- a proxy that is still unclaimed after the mailbox scan is still in the mailbox -/
theorem mailScan_stay (iso : Nat) (c : List Nat) (l : List PEntry) (q : PEntry) (h : q ∈ l)
    (hq : q.pid ∉ claim c (mailScan iso c l).2) : q ∈ (mailScan iso c l).1 := by
  fun_induction mailScan iso c l
  all_goals (try (have hc := claim_sub _ _ _ hq))
  all_goals (simp only [List.mem_cons, List.not_mem_nil, claim] at *)
  all_goals (try grind)

end TbbVerif.C16.Iso
