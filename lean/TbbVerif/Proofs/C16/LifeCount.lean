/-
C16 — worker life cycle: counting consequences of the invariant (`Proofs/C16/Life.lean`).
-/
import TbbVerif.Proofs.C16.Life

set_option linter.unusedSimpArgs false

namespace TbbVerif.C16.Life
open TbbVerif.C16 TbbVerif.Generated.C16

/-- pairwise distinct naturals below `n` are at most `n` -/
theorem nodup_bound : ∀ (n : Nat) (l : List Nat), l.Nodup → (∀ x ∈ l, x < n) → l.length ≤ n := by
  intro n
  induction n with
  | zero =>
    intro l _ hb
    cases l with
    | nil => simp
    | cons a t => exact absurd (hb a (by simp)) (by omega)
  | succ n ih =>
    intro l hd hb
    have hd' : (l.erase n).Nodup := hd.erase n
    have hb' : ∀ x ∈ l.erase n, x < n := by
      intro x hx
      have := (List.Nodup.mem_erase_iff hd).1 hx
      have := hb x this.2
      omega
    have := ih (l.erase n) hd' hb'
    have hl := List.length_erase (a := n) (l := l)
    split at hl <;> omega

/-- elements of `l` selected by `p` are mapped by `f` to pairwise distinct numbers below `n` (distinct *positions* give distinct
values): at most `n` are selected -/
theorem countP_le_of_inj {α : Type} (l : List α) (p : α → Bool) (f : α → Nat) (n : Nat)
    (hr : ∀ x ∈ l, p x = true → f x < n)
    (hinj : ∀ (i j : Nat) x y, l[i]? = some x → l[j]? = some y → p x = true → p y = true → f x = f y → i = j) :
    l.countP p ≤ n := by
  rw [List.countP_eq_length_filter, ← List.length_map (f := f)]
  apply nodup_bound
  · -- Nodup
    have hp : l.Pairwise (fun a b => p a = true → p b = true → f a ≠ f b) := by
      rw [List.pairwise_iff_getElem]
      intro i j hi hj hij ha hb heq
      have := hinj i j l[i] l[j] (List.getElem?_eq_getElem hi) (List.getElem?_eq_getElem hj) ha hb heq
      omega
    have hf := hp.filter p
    unfold List.Nodup
    rw [List.pairwise_map]
    refine hf.imp_of_mem ?_
    intro a b ha hb hR
    exact hR (List.mem_filter.1 ha).2 (List.mem_filter.1 hb).2
  · intro x hx
    rw [List.mem_map] at hx
    obtain ⟨a, ha, rfl⟩ := hx
    exact hr a (List.mem_filter.1 ha).1 (List.mem_filter.1 ha).2

/-- workers that own a slot are at most `num_slots − reserved` (= `my_max_num_workers`, or the single slot kept for the mandatory
worker of a one-thread arena) — whatever `my_references` and the allotment say -/
theorem workersInside_le {cfg : SCfg} {s : LSt} (h : LInv cfg s) : s.workersInside ≤ cfg.numSlots - cfg.reserved := by
  unfold LSt.workersInside
  apply countP_le_of_inj s.ths _ (fun th => th.sth.slot.getD 0 - cfg.reserved)
  · intro th hth hp
    obtain ⟨t, ht⟩ := List.getElem?_of_mem hth
    simp only [Bool.and_eq_true] at hp
    obtain ⟨hw, hs⟩ := hp
    obtain ⟨i, hi⟩ := Option.isSome_iff_exists.1 hs
    have := h.slots.own t th.sth i (proj_get ht) hi
    have hr := this.2.2 hw
    simp only [hi, Option.getD_some]
    omega
  · intro t1 t2 x y h1 h2 hp1 hp2 heq
    simp only [Bool.and_eq_true] at hp1 hp2
    obtain ⟨i1, hi1⟩ := Option.isSome_iff_exists.1 hp1.2
    obtain ⟨i2, hi2⟩ := Option.isSome_iff_exists.1 hp2.2
    have o1 := h.slots.own t1 x.sth i1 (proj_get h1) hi1
    have o2 := h.slots.own t2 y.sth i2 (proj_get h2) hi2
    have r1 := o1.2.2 hp1.1
    have r2 := o2.2.2 hp2.1
    simp only [hi1, hi2, Option.getD_some] at heq
    have : i1 = i2 := by omega
    subst this
    exact h.slots.uniq t1 t2 x.sth y.sth i1 (proj_get h1) (proj_get h2) hi1 hi2

/-- a worker that owns a slot holds a `ref_worker` reference -/
theorem worker_inside_holds {cfg : SCfg} {s : LSt} (h : LInv cfg s) {t : Nat} {th : LTh} (hth : s.ths[t]? = some th)
    (hw : th.sth.worker = true) (hs : th.sth.slot.isSome = true) : th.holdsRef = true := by
  have hp := h.pcs t th hth
  have hpc := h.slots.pc t th.sth (proj_get hth)
  obtain ⟨i, hi⟩ := Option.isSome_iff_exists.1 hs
  unfold PcL at hp
  split at hp
  all_goals first
    | (rw [hw] at hp; first | exact hp | exact hp.2)
    | (have h0 := hp.1; simp [PcOK, h0, hi] at hpc)

theorem workersInside_le_holders {cfg : SCfg} {s : LSt} (h : LInv cfg s) : s.workersInside ≤ s.holders := by
  unfold LSt.workersInside LSt.holders
  apply List.countP_mono_left
  intro th hth hp
  obtain ⟨t, ht⟩ := List.getElem?_of_mem hth
  simp only [Bool.and_eq_true] at hp
  exact worker_inside_holds h ht hp.1 hp.2

/-- `num_workers_active()` computed from the word -/
theorem active_refs (s : LSt) : active s.refs = s.refsE / refWorker + s.refsW := by
  unfold active LSt.refs
  exact Nat.add_mul_div_left _ _ refWorker_pos

end TbbVerif.C16.Life
