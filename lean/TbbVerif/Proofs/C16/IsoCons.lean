/-
C16 isolation — nothing is lost, nothing is duplicated, and a task that an isolated thread skipped stays where a thread
without isolation finds it.

`cnt x s` counts task `x` in: the execution log, the plain entries of all pools, the unclaimed proxies (registry
`s.proxies`, ghost), the fifo stream, the critical stream.  Invariant `R`: `cnt x s = count x s.spawned` for every `x`, ids are
distinct, and every unclaimed proxy is physically present both in a pool and in a mailbox.
-/
import TbbVerif.Proofs.C16.IsoScan

namespace TbbVerif.C16.Iso
open TbbVerif.Generated.C16

def live (c : List Nat) (p : PEntry) : Bool := !c.contains p.pid

def liveTasks (ps : List PEntry) (c : List Nat) : List Task := (ps.filter (live c)).map (·.task)

def poolCount (x : Task) (pools : List Pool) : Nat := (pools.map (fun p => (plainTasks p).count x)).sum

def cnt (x : Task) (s : ISt) : Nat :=
  (s.log.map (·.task)).count x + poolCount x s.pools + (liveTasks s.proxies s.claimed).count x + s.fifo.count x + s.crit.count x

/-! ## list helpers -/

theorem poolCount_set (x : Task) (pools : List Pool) (t : Nat) (pool pool' : Pool) (h : pools[t]? = some pool) :
    poolCount x (pools.set t pool') + (plainTasks pool).count x = poolCount x pools + (plainTasks pool').count x := by
  induction pools generalizing t with
  | nil => simp at h
  | cons a l ih =>
    cases t with
    | zero =>
      simp only [List.getElem?_cons_zero, Option.some.injEq] at h
      subst h
      simp only [poolCount, List.set_cons_zero, List.map_cons, List.sum_cons]
      omega
    | succ t =>
      simp only [List.getElem?_cons_succ] at h
      have := ih t h
      simp only [poolCount, List.set_cons_succ, List.map_cons, List.sum_cons] at this ⊢
      omega

theorem count_eraseIdx (x y : Task) (l : List Task) (k : Nat) (h : l[k]? = some y) :
    l.count x = (l.eraseIdx k).count x + (if y = x then 1 else 0) := by
  induction l generalizing k with
  | nil => simp at h
  | cons a l ih =>
    cases k with
    | zero =>
      simp only [List.getElem?_cons_zero, Option.some.injEq] at h
      subst h
      simp only [List.eraseIdx_cons_zero, List.count_cons, beq_iff_eq]
    | succ k =>
      simp only [List.getElem?_cons_succ] at h
      have := ih k h
      simp only [List.eraseIdx_cons_succ, List.count_cons] at this ⊢
      omega

theorem live_cons_ne (c : List Nat) (n : Nat) (p : PEntry) (h : p.pid ≠ n) : live (n :: c) p = live c p := by
  simp only [live, List.contains_cons]
  have : (p.pid == n) = false := by simpa using h
  simp [this]

/-- claiming proxy `p` removes exactly its task from the live tasks -/
theorem liveTasks_claim (x : Task) (ps : List PEntry) (c : List Nat) (p : PEntry) (hp : p ∈ ps)
    (hnd : (ps.map (·.pid)).Nodup) (hc : p.pid ∉ c) :
    (liveTasks ps c).count x = (liveTasks ps (p.pid :: c)).count x + (if p.task = x then 1 else 0) := by
  induction ps with
  | nil => simp at hp
  | cons q ps ih =>
    simp only [List.map_cons, List.nodup_cons] at hnd
    simp only [List.mem_cons] at hp
    rcases hp with rfl | hp
    · -- the head is p: no other entry has its pid
      have hrest : ∀ r ∈ ps, live (p.pid :: c) r = live c r := by
        intro r hr
        apply live_cons_ne
        intro he
        exact hnd.1 (by rw [← he]; exact List.mem_map_of_mem hr)
      have hl : live c p = true := by simpa [live] using hc
      have hl' : live (p.pid :: c) p = false := by simp [live]
      simp only [liveTasks, List.filter_cons, hl, hl', ite_true, Bool.false_eq_true, ite_false, List.map_cons, List.count_cons, beq_iff_eq]
      rw [List.filter_congr hrest]
    · have hne : q.pid ≠ p.pid := by
        intro he
        exact hnd.1 (by rw [he]; exact List.mem_map_of_mem hp)
      have := ih hp hnd.2
      simp only [liveTasks, List.filter_cons, live_cons_ne c p.pid q hne] at this ⊢
      split
      · simp only [List.map_cons, List.count_cons]; omega
      · exact this

theorem liveTasks_append_new (ps : List PEntry) (c : List Nat) (p : PEntry) (h : p.pid ∉ c) :
    liveTasks (ps ++ [p]) c = liveTasks ps c ++ [p.task] := by
  have hl : live c p = true := by simpa [live] using h
  simp [liveTasks, List.filter_append, hl]

/-! ## the invariant -/

structure R (s : ISt) : Prop where
  poolReg : ∀ pool ∈ s.pools, ∀ p, some (.proxy p) ∈ pool → p ∈ s.proxies
  mailReg : ∀ box ∈ s.mail, ∀ p ∈ box, p ∈ s.proxies
  pids : (s.proxies.map (·.pid)).Nodup
  pidLt : ∀ p ∈ s.proxies, p.pid < s.next
  claimedLt : ∀ c ∈ s.claimed, c < s.next
  ids : s.spawned.map (·.id) = List.range s.next
  count : ∀ x, cnt x s = s.spawned.count x
  present : ∀ p ∈ s.proxies, p.pid ∉ s.claimed →
    (∃ (i : Nat) (pool : Pool), s.pools[i]? = some pool ∧ some (Entry.proxy p) ∈ pool) ∧
    (∃ (i : Nat) (box : List PEntry), s.mail[i]? = some box ∧ p ∈ box)

theorem R.init (n : Nat) : R (ISt.init n) := by
  refine ⟨?_, ?_, ?_, ?_, ?_, ?_, ?_, ?_⟩ <;> simp [ISt.init, List.mem_replicate, cnt, liveTasks, poolCount]

theorem mem_set_cases' {α : Type} {l : List α} {i : Nat} {a x : α} (h : x ∈ l.set i a) : x = a ∨ x ∈ l := by
  rcases List.mem_or_eq_of_mem_set h with h | h
  · exact Or.inr h
  · exact Or.inl h

/-- only the threads changed -/
theorem R.ofThs {s : ISt} (h : R s) (ths : List Th) : R { s with ths := ths } :=
  ⟨h.poolReg, h.mailReg, h.pids, h.pidLt, h.claimedLt, h.ids, h.count, h.present⟩

/-- thread `t` executes `x`: the log grows by `x` -/
theorem cnt_exec (y : Task) (s : ISt) (t : Nat) (th : Th) (x : Task) (i g e : Nat) :
    cnt y (s.exec t th x i g e) = cnt y s + (if x = y then 1 else 0) := by
  simp only [cnt, ISt.exec, List.map_append, List.map_cons, List.map_nil, List.count_append, List.count_cons, List.count_nil, beq_iff_eq]
  omega

/-- membership in pool `i` survives appending to pool `t` -/
theorem pool_present_push {pools : List Pool} {t : Nat} {pool : Pool} (ht : pools[t]? = some pool) (e : Option Entry)
    {p : PEntry} (h : ∃ (i : Nat) (q : Pool), pools[i]? = some q ∧ some (Entry.proxy p) ∈ q) :
    ∃ (i : Nat) (q : Pool), (pools.set t (pool ++ [e]))[i]? = some q ∧ some (Entry.proxy p) ∈ q := by
  obtain ⟨i, q, hq, hm⟩ := h
  by_cases hi : t = i
  · subst hi
    rw [ht] at hq
    simp only [Option.some.injEq] at hq
    subst hq
    refine ⟨t, pool ++ [e], ?_, List.mem_append_left _ hm⟩
    rw [List.getElem?_set_self]
    exact (List.getElem?_eq_some_iff.1 ht).1
  · exact ⟨i, q, by rw [List.getElem?_set_ne hi]; exact hq, hm⟩

theorem ids_push {s : ISt} (h : s.spawned.map (·.id) = List.range s.next) (x : Task) (hx : x.id = s.next) :
    (s.spawned ++ [x]).map (·.id) = List.range (s.next + 1) := by
  rw [List.map_append, h, List.range_succ]; simp [hx]

theorem R.step_spawn {s : ISt} (h : R s) (t : Nat) : R (s.step (.spawn t)) := by
  simp only [ISt.step]
  split
  · rename_i th pool hth hp
    refine ⟨?_, h.mailReg, h.pids, fun p hp' => Nat.lt_succ_of_lt (h.pidLt p hp'), fun c hc => Nat.lt_succ_of_lt (h.claimedLt c hc),
      ids_push h.ids _ rfl, ?_, ?_⟩
    · intro q hq p hm
      rcases mem_set_cases' hq with rfl | hq
      · simp only [List.mem_append, List.mem_singleton, Option.some.injEq, reduceCtorEq, or_false] at hm
        exact h.poolReg _ (List.mem_of_getElem? hp) _ hm
      · exact h.poolReg _ hq _ hm
    · intro x
      have h1 := poolCount_set x s.pools t pool (pool ++ [some (.plain { id := s.next, tag := tagSpawn th.ed, region := th.reg })]) hp
      have h2 := h.count x
      simp only [cnt, plainTasks_append, List.count_append, plainTasks_plain, plainTasks_nil] at h1 h2 ⊢
      omega
    · intro p hp' hc
      obtain ⟨h1, h2⟩ := h.present p hp' hc
      exact ⟨pool_present_push hp _ h1, h2⟩
  · exact h

theorem R.step_enqueue {s : ISt} (h : R s) (t : Nat) : R (s.step (.enqueue t)) := by
  simp only [ISt.step]
  split
  · refine ⟨h.poolReg, h.mailReg, h.pids, fun p hp' => Nat.lt_succ_of_lt (h.pidLt p hp'), fun c hc => Nat.lt_succ_of_lt (h.claimedLt c hc),
      ids_push h.ids _ rfl, ?_, h.present⟩
    intro x
    have h2 := h.count x
    simp only [cnt, List.count_append] at h2 ⊢
    omega
  · exact h

theorem R.step_critical {s : ISt} (h : R s) (t : Nat) : R (s.step (.critical t)) := by
  simp only [ISt.step]
  split
  · refine ⟨h.poolReg, h.mailReg, h.pids, fun p hp' => Nat.lt_succ_of_lt (h.pidLt p hp'), fun c hc => Nat.lt_succ_of_lt (h.claimedLt c hc),
      ids_push h.ids _ rfl, ?_, h.present⟩
    intro x
    have h2 := h.count x
    simp only [cnt, List.count_append] at h2 ⊢
    omega
  · exact h

theorem R.step_spawnAff {s : ISt} (h : R s) (t d : Nat) : R (s.step (.spawnAff t d)) := by
  simp only [ISt.step]
  split
  · rename_i th pool hth hp
    split
    · rename_i box hbox
      have hbox' : s.mail[d]? = some box := by
        split at hbox
        · simp at hbox
        · exact hbox
      refine ⟨?_, ?_, ?_, ?_, fun c hc => Nat.lt_succ_of_lt (h.claimedLt c hc), ids_push h.ids _ rfl, ?_, ?_⟩
      · intro q hq p hm
        rcases mem_set_cases' hq with rfl | hq
        · simp only [List.mem_append, List.mem_singleton, Option.some.injEq, Entry.proxy.injEq] at hm
          rcases hm with hm | hm
          · exact List.mem_append_left _ (h.poolReg _ (List.mem_of_getElem? hp) _ hm)
          · subst hm; simp
        · exact List.mem_append_left _ (h.poolReg _ hq _ hm)
      · intro b hb p hm
        rcases mem_set_cases' hb with rfl | hb
        · simp only [List.mem_append, List.mem_singleton] at hm
          rcases hm with hm | hm
          · exact List.mem_append_left _ (h.mailReg _ (List.mem_of_getElem? hbox') _ hm)
          · subst hm; simp
        · exact List.mem_append_left _ (h.mailReg _ hb _ hm)
      · rw [List.map_append, List.nodup_append]
        refine ⟨h.pids, by simp, ?_⟩
        intro a ha b hb
        simp only [List.map_cons, List.map_nil, List.mem_singleton] at hb
        subst hb
        obtain ⟨p, hp', rfl⟩ := List.mem_map.1 ha
        exact Nat.ne_of_lt (h.pidLt p hp')
      · intro p hp'
        simp only [List.mem_append, List.mem_singleton] at hp'
        rcases hp' with hp' | rfl
        · exact Nat.lt_succ_of_lt (h.pidLt p hp')
        · exact Nat.lt_succ_self _
      · intro x
        have hfresh : s.next ∉ s.claimed := fun hc => Nat.lt_irrefl _ (h.claimedLt _ hc)
        have h1 := poolCount_set x s.pools t pool
          (pool ++ [some (.proxy { pid := s.next, ptag := tagProxy th.ed, task := { id := s.next, tag := tagSpawnAff th.ed, region := th.reg }, dest := d })]) hp
        have h2 := h.count x
        simp only [cnt, plainTasks_append, List.count_append, plainTasks_proxy, plainTasks_nil] at h1 h2 ⊢
        rw [liveTasks_append_new _ _ _ hfresh, List.count_append]
        dsimp only at h1 ⊢
        simp only [List.count_nil] at h1 ⊢
        omega
      · intro p hp' hc
        simp only [List.mem_append, List.mem_singleton] at hp'
        rcases hp' with hp' | rfl
        · obtain ⟨h1, i, b, hb, hm⟩ := h.present p hp' hc
          refine ⟨pool_present_push hp _ h1, ?_⟩
          by_cases hi : d = i
          · subst hi
            rw [hbox'] at hb
            simp only [Option.some.injEq] at hb
            subst hb
            exact ⟨d, box ++ [_], by rw [List.getElem?_set_self]; exact (List.getElem?_eq_some_iff.1 hbox').1, List.mem_append_left _ hm⟩
          · exact ⟨i, b, by rw [List.getElem?_set_ne hi]; exact hb, hm⟩
        · refine ⟨⟨t, pool ++ [_], by rw [List.getElem?_set_self]; exact (List.getElem?_eq_some_iff.1 hp).1, by simp⟩,
            ⟨d, box ++ [_], by rw [List.getElem?_set_self]; exact (List.getElem?_eq_some_iff.1 hbox').1, by simp⟩⟩
    · refine ⟨?_, h.mailReg, h.pids, fun p hp' => Nat.lt_succ_of_lt (h.pidLt p hp'), fun c hc => Nat.lt_succ_of_lt (h.claimedLt c hc),
        ids_push h.ids _ rfl, ?_, ?_⟩
      · intro q hq p hm
        rcases mem_set_cases' hq with rfl | hq
        · simp only [List.mem_append, List.mem_singleton, Option.some.injEq, reduceCtorEq, or_false] at hm
          exact h.poolReg _ (List.mem_of_getElem? hp) _ hm
        · exact h.poolReg _ hq _ hm
      · intro x
        have h1 := poolCount_set x s.pools t pool (pool ++ [some (.plain { id := s.next, tag := tagSpawnAff th.ed, region := th.reg })]) hp
        have h2 := h.count x
        simp only [cnt, plainTasks_append, List.count_append, plainTasks_plain, plainTasks_nil] at h1 h2 ⊢
        omega
      · intro p hp' hc
        obtain ⟨h1, h2⟩ := h.present p hp' hc
        exact ⟨pool_present_push hp _ h1, h2⟩
  · exact h

/-! ## the take operations -/

/-- `R` without the counting equation -/
structure R0 (s : ISt) : Prop where
  poolReg : ∀ pool ∈ s.pools, ∀ p, some (.proxy p) ∈ pool → p ∈ s.proxies
  mailReg : ∀ box ∈ s.mail, ∀ p ∈ box, p ∈ s.proxies
  pids : (s.proxies.map (·.pid)).Nodup
  pidLt : ∀ p ∈ s.proxies, p.pid < s.next
  claimedLt : ∀ c ∈ s.claimed, c < s.next
  ids : s.spawned.map (·.id) = List.range s.next
  present : ∀ p ∈ s.proxies, p.pid ∉ s.claimed →
    (∃ (i : Nat) (pool : Pool), s.pools[i]? = some pool ∧ some (Entry.proxy p) ∈ pool) ∧
    (∃ (i : Nat) (box : List PEntry), s.mail[i]? = some box ∧ p ∈ box)

theorem R.of {s : ISt} (h0 : R0 s) (hc : ∀ x, cnt x s = s.spawned.count x) : R s :=
  ⟨h0.poolReg, h0.mailReg, h0.pids, h0.pidLt, h0.claimedLt, h0.ids, hc, h0.present⟩

theorem R.exec {s1 : ISt} (h0 : R0 s1) (t : Nat) (th : Th) (x : Task) (i g e : Nat)
    (hc : ∀ y, cnt y s1 + (if x = y then 1 else 0) = s1.spawned.count y) : R (s1.exec t th x i g e) :=
  ⟨h0.poolReg, h0.mailReg, h0.pids, h0.pidLt, h0.claimedLt, h0.ids, fun y => by rw [cnt_exec]; exact hc y, h0.present⟩

theorem claim_lt {s : ISt} (h : R s) (o : Option PEntry) (ho : ∀ p, o = some p → p ∈ s.proxies) :
    ∀ c ∈ claim s.claimed o, c < s.next := by
  intro c hc
  cases o with
  | none => exact h.claimedLt c hc
  | some p =>
    simp only [claim, List.mem_cons] at hc
    rcases hc with rfl | hc
    · exact h.pidLt p (ho p rfl)
    · exact h.claimedLt c hc

theorem R.step_own {s : ISt} (h : R s) (t : Nat) : R (s.step (.own t)) := by
  simp only [ISt.step]
  split
  · rename_i th pool hth hp
    split
    · rename_i i g hl
      generalize hr : ownScan (argOwn i) s.claimed pool.reverse false = r
      have hsub : ∀ e, some e ∈ r.1.reverse → some e ∈ pool := by
        intro e he
        have := ownScan_sub (argOwn i) s.claimed pool.reverse false e (by rw [hr]; exact List.mem_reverse.1 he)
        exact List.mem_reverse.1 this
      have hclaimed : ∀ p, r.2.2 = some p → some (Entry.proxy p) ∈ pool ∧ p.pid ∉ s.claimed ∧ r.2.1 = some p.task := by
        intro p hp'
        have := ownScan_claimed (argOwn i) s.claimed pool.reverse false p (by rw [hr]; exact hp')
        rw [hr] at this
        exact ⟨List.mem_reverse.1 this.1, this.2.1, this.2.2⟩
      have hreg : ∀ p, r.2.2 = some p → p ∈ s.proxies := fun p hp' => h.poolReg _ (List.mem_of_getElem? hp) _ (hclaimed p hp').1
      have h0 : R0 { s with pools := s.pools.set t r.1.reverse, claimed := claim s.claimed r.2.2 } := by
        refine ⟨?_, h.mailReg, h.pids, h.pidLt, claim_lt h _ hreg, h.ids, ?_⟩
        · intro q hq p hm
          rcases mem_set_cases' hq with rfl | hq
          · exact h.poolReg _ (List.mem_of_getElem? hp) _ (hsub _ hm)
          · exact h.poolReg _ hq _ hm
        · intro p hp' hc
          obtain ⟨⟨j, q, hq, hm⟩, h2⟩ := h.present p hp' (claim_sub _ _ _ hc)
          refine ⟨?_, h2⟩
          by_cases hj : t = j
          · subst hj
            rw [hp] at hq
            simp only [Option.some.injEq] at hq
            subst hq
            refine ⟨t, r.1.reverse, by rw [List.getElem?_set_self]; exact (List.getElem?_eq_some_iff.1 hp).1, ?_⟩
            have := ownScan_stay (argOwn i) s.claimed pool.reverse false p (List.mem_reverse.2 hm) (by rw [hr]; exact hc)
            rw [hr] at this
            exact List.mem_reverse.2 this
          · exact ⟨j, q, by rw [List.getElem?_set_ne hj]; exact hq, hm⟩
      have hcount : ∀ y, (plainTasks pool).count y = (plainTasks r.1.reverse).count y + (ownPlainRes r).count y := by
        intro y
        have := ownScan_count (argOwn i) s.claimed pool.reverse false y
        rw [hr, plainTasks_reverse, List.count_reverse] at this
        rw [plainTasks_reverse, List.count_reverse]
        exact this
      -- the counting equation of the intermediate state, by cases on what the scan returned
      have key : ∀ y, cnt y { s with pools := s.pools.set t r.1.reverse, claimed := claim s.claimed r.2.2 } +
          (match r.2.1 with | some x => if x = y then 1 else 0 | none => 0) = s.spawned.count y := by
        intro y
        have h1 := poolCount_set y s.pools t pool r.1.reverse hp
        have h2 := h.count y
        have h3 := hcount y
        simp only [cnt] at h2 ⊢
        cases h22 : r.2.2 with
        | none =>
          simp only [claim]
          cases h21 : r.2.1 with
          | none => simp only [ownPlainRes, h21, h22, List.count_nil] at h3; dsimp only; omega
          | some x => simp only [ownPlainRes, h21, h22, List.count_cons, List.count_nil, beq_iff_eq] at h3; dsimp only; omega
        | some p =>
          obtain ⟨hm, hnc, h21⟩ := hclaimed p h22
          have h4 := liveTasks_claim y s.proxies s.claimed p (hreg p h22) h.pids hnc
          simp only [claim, h21]
          simp only [ownPlainRes, h21, h22, List.count_nil] at h3
          omega
      split
      · rename_i x hx
        exact R.exec h0 t th x i g _ (fun y => by have := key y; rw [hx] at this; exact this)
      · rename_i hx
        exact R.of h0 (fun y => by have := key y; rw [hx] at this; simpa using this)
    · exact h
  · exact h

theorem steal_R0 {s : ISt} (h : R s) {v : Nat} {pool : Pool} (hp : s.pools[v]? = some pool)
    (iso : Nat) (di : Nat → Bool) (vi : Bool) (cl : List Nat)
    (hsup : ∀ c ∈ s.claimed, c ∈ cl) (hlt : ∀ c ∈ cl, c < s.next)
    (htaken : ∀ p, (stealScan iso s.claimed di vi pool false).2 = some (.proxy p) → p.pid ∈ cl) :
    R0 { s with pools := s.pools.set v (stealScan iso s.claimed di vi pool false).1, claimed := cl } := by
  refine ⟨?_, h.mailReg, h.pids, h.pidLt, hlt, h.ids, ?_⟩
  · intro q hq p hm
    rcases mem_set_cases' hq with rfl | hq
    · exact h.poolReg _ (List.mem_of_getElem? hp) _ (stealScan_sub _ _ _ _ _ _ _ hm)
    · exact h.poolReg _ hq _ hm
  · intro p hp' hc
    obtain ⟨⟨j, q, hq, hm⟩, h2⟩ := h.present p hp' (fun hcl => hc (hsup _ hcl))
    refine ⟨?_, h2⟩
    by_cases hj : v = j
    · subst hj
      rw [hp] at hq
      simp only [Option.some.injEq] at hq
      subst hq
      refine ⟨v, _, by rw [List.getElem?_set_self]; exact (List.getElem?_eq_some_iff.1 hp).1, ?_⟩
      exact stealScan_stay _ _ _ _ _ _ _ hm (fun he => hc (htaken p he))
    · exact ⟨j, q, by rw [List.getElem?_set_ne hj]; exact hq, hm⟩

theorem R.step_steal {s : ISt} (h : R s) (t v : Nat) : R (s.step (.steal t v)) := by
  simp only [ISt.step]
  split
  · rename_i th pool hth hp
    split
    · rename_i i g hl
      split
      · exact h
      · have hcount := fun y => stealScan_count (argSteal i) s.claimed (fun d => s.idle.getD d false) (s.idle.getD v false) pool false y
        have hpc := fun y => poolCount_set y s.pools v pool (stealScan (argSteal i) s.claimed (fun d => s.idle.getD d false) (s.idle.getD v false) pool false).1 hp
        split
        · rename_i x hx
          have h0 := steal_R0 h hp (argSteal i) (fun d => s.idle.getD d false) (s.idle.getD v false) s.claimed (fun _ hc => hc) h.claimedLt
            (fun p he => by rw [hx] at he; simp at he)
          refine R.exec h0 t th x i g _ (fun y => ?_)
          have h1 := hpc y; have h2 := h.count y; have h3 := hcount y
          rw [hx] at h3
          simp only [cnt, stealPlainRes, List.count_cons, List.count_nil, beq_iff_eq] at h2 h3 ⊢
          omega
        · rename_i p hx
          have hmem := (stealScan_res _ _ _ _ _ _ _ hx).1
          have hreg : p ∈ s.proxies := h.poolReg _ (List.mem_of_getElem? hp) _ hmem
          split
          · rename_i hc
            have h0 := steal_R0 h hp (argSteal i) (fun d => s.idle.getD d false) (s.idle.getD v false) s.claimed (fun _ hc => hc) h.claimedLt
              (fun q he => by rw [hx] at he; simp only [Option.some.injEq, Entry.proxy.injEq] at he; subst he; exact hc)
            refine R.of h0 (fun y => ?_)
            have h1 := hpc y; have h2 := h.count y; have h3 := hcount y
            rw [hx] at h3
            simp only [cnt, stealPlainRes, List.count_nil] at h2 h3 ⊢
            omega
          · rename_i hc
            have h0 := steal_R0 h hp (argSteal i) (fun d => s.idle.getD d false) (s.idle.getD v false) (p.pid :: s.claimed)
              (fun _ hc => List.mem_cons_of_mem _ hc)
              (fun c hc' => by
                simp only [List.mem_cons] at hc'
                rcases hc' with rfl | hc'
                · exact h.pidLt p hreg
                · exact h.claimedLt c hc')
              (fun q he => by rw [hx] at he; simp only [Option.some.injEq, Entry.proxy.injEq] at he; subst he; simp)
            refine R.exec h0 t th p.task i g _ (fun y => ?_)
            have h1 := hpc y; have h2 := h.count y; have h3 := hcount y
            have h4 := liveTasks_claim y s.proxies s.claimed p hreg h.pids hc
            rw [hx] at h3
            simp only [cnt, stealPlainRes, List.count_nil] at h2 h3 ⊢
            omega
        · rename_i hx
          have h0 := steal_R0 h hp (argSteal i) (fun d => s.idle.getD d false) (s.idle.getD v false) s.claimed (fun _ hc => hc) h.claimedLt
            (fun p he => by rw [hx] at he; simp at he)
          refine R.of h0 (fun y => ?_)
          have h1 := hpc y; have h2 := h.count y; have h3 := hcount y
          rw [hx] at h3
          simp only [cnt, stealPlainRes, List.count_nil] at h2 h3 ⊢
          omega
    · exact h
  · exact h

theorem R.step_mailbox {s : ISt} (h : R s) (t : Nat) : R (s.step (.mailbox t)) := by
  simp only [ISt.step]
  split
  · rename_i th box hth hb
    split
    · rename_i i g hl
      generalize hr : mailScan (argMail i) s.claimed box = r
      have hres : ∀ p, r.2 = some p → p ∈ box ∧ p.pid ∉ s.claimed := by
        intro p hp
        have := mailScan_res (argMail i) s.claimed box p (by rw [hr]; exact hp)
        exact ⟨this.1, this.2.1⟩
      have hreg : ∀ p, r.2 = some p → p ∈ s.proxies := fun p hp => h.mailReg _ (List.mem_of_getElem? hb) _ (hres p hp).1
      have h0 : R0 { s with mail := s.mail.set t r.1, claimed := claim s.claimed r.2 } := by
        refine ⟨h.poolReg, ?_, h.pids, h.pidLt, claim_lt h _ hreg, h.ids, ?_⟩
        · intro b hb' p hm
          rcases mem_set_cases' hb' with rfl | hb'
          · exact h.mailReg _ (List.mem_of_getElem? hb) _ (by have := mailScan_sub (argMail i) s.claimed box p (by rw [hr]; exact hm); exact this)
          · exact h.mailReg _ hb' _ hm
        · intro p hp' hc
          obtain ⟨h1, j, b, hbj, hm⟩ := h.present p hp' (claim_sub _ _ _ hc)
          refine ⟨h1, ?_⟩
          by_cases hj : t = j
          · subst hj
            rw [hb] at hbj
            simp only [Option.some.injEq] at hbj
            subst hbj
            refine ⟨t, r.1, by rw [List.getElem?_set_self]; exact (List.getElem?_eq_some_iff.1 hb).1, ?_⟩
            have := mailScan_stay (argMail i) s.claimed box p hm (by rw [hr]; exact hc)
            rw [hr] at this
            exact this
          · exact ⟨j, b, by rw [List.getElem?_set_ne hj]; exact hbj, hm⟩
      split
      · rename_i p hx
        refine R.exec h0 t th p.task i g _ (fun y => ?_)
        have h2 := h.count y
        have h4 := liveTasks_claim y s.proxies s.claimed p (hreg p hx) h.pids (hres p hx).2
        simp only [cnt, hx, claim] at h2 ⊢
        omega
      · rename_i hx
        refine R.of h0 (fun y => ?_)
        have h2 := h.count y
        simp only [cnt, hx, claim] at h2 ⊢
        exact h2
    · exact h
  · exact h

theorem R.step_popFifo {s : ISt} (h : R s) (t : Nat) (fa : Bool) (k : Nat) : R (s.step (.popFifo t fa k)) := by
  simp only [ISt.step]
  split
  · rename_i th x hth hx
    split
    · split
      · have h0 : R0 { s with fifo := s.fifo.eraseIdx k } := ⟨h.poolReg, h.mailReg, h.pids, h.pidLt, h.claimedLt, h.ids, h.present⟩
        refine R.exec h0 t th x _ _ _ (fun y => ?_)
        have h2 := h.count y
        have h3 := count_eraseIdx y x s.fifo k hx
        simp only [cnt] at h2 ⊢
        omega
      · exact h
    · exact h
  · exact h

theorem R.step_popCrit {s : ISt} (h : R s) (t : Nat) (k : Nat) : R (s.step (.popCrit t k)) := by
  simp only [ISt.step]
  split
  · rename_i th x hth hx
    split
    · split
      · have h0 : R0 { s with crit := s.crit.eraseIdx k } := ⟨h.poolReg, h.mailReg, h.pids, h.pidLt, h.claimedLt, h.ids, h.present⟩
        refine R.exec h0 t th x _ _ _ (fun y => ?_)
        have h2 := h.count y
        have h3 := count_eraseIdx y x s.crit k hx
        simp only [cnt] at h2 ⊢
        omega
      · exact h
    · exact h
  · exact h

theorem R.step {s : ISt} (h : R s) (op : IOp) : R (s.step op) := by
  cases op with
  | wait t => simp only [ISt.step]; split <;> first | exact h.ofThs _ | exact h
  | endWait t => simp only [ISt.step]; split <;> (try split) <;> first | exact h.ofThs _ | exact h
  | isolate t f => simp only [ISt.step]; split <;> (try split) <;> first | exact h.ofThs _ | exact h
  | endIsolate t => simp only [ISt.step]; split <;> (try split) <;> first | exact h.ofThs _ | exact h
  | spawn t => exact h.step_spawn t
  | spawnAff t d => exact h.step_spawnAff t d
  | enqueue t => exact h.step_enqueue t
  | critical t => exact h.step_critical t
  | setIdle t b =>
    simp only [ISt.step]
    split
    · exact ⟨h.poolReg, h.mailReg, h.pids, h.pidLt, h.claimedLt, h.ids, h.count, h.present⟩
    · exact h
  | own t => exact h.step_own t
  | steal t v => exact h.step_steal t v
  | mailbox t => exact h.step_mailbox t
  | popFifo t fa k => exact h.step_popFifo t fa k
  | popCrit t k => exact h.step_popCrit t k

theorem R.run {s : ISt} (h : R s) (ops : List IOp) : R (s.run ops) := by
  induction ops generalizing s with
  | nil => exact h
  | cons o os ih => exact ih (h.step o)

end TbbVerif.C16.Iso
