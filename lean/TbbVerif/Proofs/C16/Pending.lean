/-
C16 — `thread_request_serializer::update` under arbitrary interleaving: no delta is lost or counted twice.
-/
import TbbVerif.Proofs.C16.Serializer

namespace TbbVerif.C16
open Generated.C16 TbbVerif.Cint

def sumI (f : PTh → Int) (l : List PTh) : Int := (l.map f).sum

theorem sumI_set (f : PTh → Int) : ∀ (l : List PTh) (i : Nat) (a : PTh) (h : i < l.length),
    sumI f (l.set i a) = sumI f l - f l[i] + f a
  | x :: xs, 0, a, _ => by simp [sumI]; omega
  | x :: xs, i + 1, a, h => by
    have := sumI_set f xs i a (by simpa using h)
    simp [sumI] at this ⊢; omega

def absI (x : Int) : Int := if x < 0 then -x else x

def f0 (th : PTh) : Int := if th.pc = 0 then 1 else 0          -- not yet started
def fA0 (th : PTh) : Int := if th.pc = 0 then absI th.delta else 0
def f1 (th : PTh) : Int := if th.pc = 1 then 1 else 0          -- a drainer before its exchange
def fD2 (th : PTh) : Int := if th.pc = 2 then th.d else 0      -- extracted, not yet applied
def fS (th : PTh) : Int := if th.pc = 0 then 0 else th.delta   -- deltas that entered the word
def fAll (th : PTh) : Int := absI th.delta
def fAllD (th : PTh) : Int := th.delta

/-- Inductive invariant.  `n` = calls whose `fetch_add` happened since the last `exchange`, `acc` = sum of their deltas. -/
structure PInv (soft : Int) (s : PSt) : Prop where
  ex : ∃ (n : Nat) (acc : Int),
    Pack.Layout s.ser.pending n acc ∧
    (n : Int) + sumI f0 s.ths ≤ s.ths.length ∧
    -(sumI fAll s.ths - sumI fA0 s.ths) ≤ acc ∧ acc ≤ sumI fAll s.ths - sumI fA0 s.ths ∧
    sumI f1 s.ths = (if n = 0 then 0 else 1) ∧
    (n = 0 → acc = 0) ∧
    s.ser.totalRequest + acc + sumI fD2 s.ths = sumI fS s.ths
  small : sumI fAll s.ths < Pack.base
  few : (s.ths.length + 2) * Pack.counter ≤ 2 ^ 32
  handed : s.ser.handed - min s.ser.softLimit s.ser.totalRequest = -min soft 0
  softc : s.ser.softLimit = soft
  pcs : ∀ th ∈ s.ths, th.pc ≤ 3

theorem sumI_nonneg (f : PTh → Int) (hf : ∀ th, 0 ≤ f th) : ∀ l : List PTh, 0 ≤ sumI f l
  | [] => by simp [sumI]
  | x :: xs => by have := sumI_nonneg f hf xs; have := hf x; simp [sumI] at *; omega

theorem absI_nonneg (x : Int) : 0 ≤ absI x := by unfold absI; split <;> omega

theorem sumI_le (f g : PTh → Int) (hfg : ∀ th, f th ≤ g th) : ∀ l : List PTh, sumI f l ≤ sumI g l
  | [] => by simp [sumI]
  | x :: xs => by have := sumI_le f g hfg xs; have := hfg x; simp [sumI] at *; omega

theorem PInv.step (soft : Int) (s : PSt) (t : Tid) (h : PInv soft s) : PInv soft (s.step t) := by
  unfold PSt.step
  cases hth : s.ths[t]? with
  | none => simpa using h
  | some th =>
    simp only
    have htlt : t < s.ths.length := (List.getElem?_eq_some_iff.1 hth).1
    have hget : s.ths[t] = th := (List.getElem?_eq_some_iff.1 hth).2
    obtain ⟨⟨n, acc, hlay, hcnt, hlo, hhi, hN1, hz, hcons⟩, hsmall, hfew, hhand, hsoft, hpcs⟩ := h
    have hpc3 := hpcs th (List.mem_of_getElem? hth)
    have hcle := Pack.counter_le
    have hceq := Pack.counter_eq
    have hA0nn : 0 ≤ sumI fA0 s.ths := sumI_nonneg fA0 (fun th => by unfold fA0; split; exact absI_nonneg _; omega) _
    have hA0le : sumI fA0 s.ths ≤ sumI fAll s.ths :=
      sumI_le fA0 fAll (fun th => by unfold fA0 fAll; split; omega; exact absI_nonneg _) _
    -- how each sum changes when thread t's record is replaced
    have hs0 := fun a => sumI_set f0 s.ths t a htlt
    have hsA0 := fun a => sumI_set fA0 s.ths t a htlt
    have hs1 := fun a => sumI_set f1 s.ths t a htlt
    have hsD2 := fun a => sumI_set fD2 s.ths t a htlt
    have hsS := fun a => sumI_set fS s.ths t a htlt
    have hsAll := fun a => sumI_set fAll s.ths t a htlt
    simp only [hget] at hs0 hsA0 hs1 hsD2 hsS hsAll
    have hpcs' : ∀ (th' : PTh), th'.pc ≤ 3 → ∀ x ∈ s.ths.set t th', x.pc ≤ 3 := by
      intro th' h3 x hx
      rcases List.mem_or_eq_of_mem_set hx with hm | rfl
      · exact hpcs x hm
      · exact h3
    have hf1nn : 0 ≤ sumI f1 s.ths := sumI_nonneg f1 (fun th => by unfold f1; split <;> omega) _
    have hn32 : (n + 1) * Pack.counter ≤ 2 ^ 32 := by
      have h1 : (n : Int) ≤ s.ths.length := by
        have := sumI_nonneg f0 (fun th => by unfold f0; split <;> omega) s.ths
        omega
      have h2 : n + 1 ≤ s.ths.length + 2 := by omega
      exact Nat.le_trans (Nat.mul_le_mul_right _ h2) hfew
    match hp : th.pc with
    | 0 =>
      simp only
      have habs : -(absI th.delta) ≤ th.delta ∧ th.delta ≤ absI th.delta := by unfold absI; split <;> omega
      have hthA0 : fA0 th = absI th.delta := by simp [fA0, hp]
      have hthAll : fAll th = absI th.delta := rfl
      -- the calling thread's |delta| is still counted in fA0, so the new sum stays within the field
      have hA0ge : absI th.delta ≤ sumI fA0 s.ths := by
        have := sumI_set fA0 s.ths t { th with pc := 1 } htlt
        rw [hget] at this
        have hnn := sumI_nonneg fA0 (fun th => by unfold fA0; split; exact absI_nonneg _; omega) (s.ths.set t { th with pc := 1 })
        simp [fA0, hp] at this
        omega
      have hnew := Pack.add_layout (d := th.delta) hlay (by omega) (by omega) (by
        have h1 : (n : Int) ≤ s.ths.length := by
          have := sumI_nonneg f0 (fun th => by unfold f0; split <;> omega) s.ths
          omega
        have h2 : n + 2 ≤ s.ths.length + 2 := by omega
        have := Nat.le_trans (Nat.mul_le_mul_right Pack.counter h2) hfew
        omega)
      have hdr := Pack.isDrainer_layout hlay hn32
      generalize hpc'def : (if Pack.isDrainer s.ser.pending = true then 1 else 3 : Nat) = pc'
      have hpc'v : (pc' = 1 ∧ n = 0) ∨ (pc' = 3 ∧ n ≠ 0) := by
        by_cases hn0 : n = 0
        · left
          have hd : Pack.isDrainer s.ser.pending = true := hdr.2 ⟨hn0, hz hn0⟩
          simp [hd] at hpc'def
          exact ⟨hpc'def.symm, hn0⟩
        · right
          have hd : Pack.isDrainer s.ser.pending = false := by
            cases hb : Pack.isDrainer s.ser.pending with
            | false => rfl
            | true => exact absurd (hdr.1 hb).1 hn0
          simp [hd] at hpc'def
          exact ⟨hpc'def.symm, hn0⟩
      rcases hpc'v with ⟨rfl, hn0⟩ | ⟨rfl, hn0⟩
      · refine ⟨⟨n + 1, acc + th.delta, hnew, ?_, ?_, ?_, ?_, by omega, ?_⟩, ?_, by simpa using hfew, hhand, hsoft, ?_⟩
        · simp only [List.length_set]; rw [hs0]; simp [f0, hp]; omega
        · rw [hsAll, hsA0]; simp [fAll, fA0, hp]; omega
        · rw [hsAll, hsA0]; simp [fAll, fA0, hp]; omega
        · rw [hs1]; simp [f1, hp, hn0] at hN1 ⊢; omega
        · rw [hsD2, hsS]; simp [fD2, fS, hp]; omega
        · rw [hsAll]; simp [fAll]; omega
        · apply hpcs'; simp
      · refine ⟨⟨n + 1, acc + th.delta, hnew, ?_, ?_, ?_, ?_, by omega, ?_⟩, ?_, by simpa using hfew, hhand, hsoft, ?_⟩
        · simp only [List.length_set]; rw [hs0]; simp [f0, hp]; omega
        · rw [hsAll, hsA0]; simp [fAll, fA0, hp]; omega
        · rw [hsAll, hsA0]; simp [fAll, fA0, hp]; omega
        · rw [hs1]; simp [f1, hp, hn0] at hN1 ⊢; omega
        · rw [hsD2, hsS]; simp [fD2, fS, hp]; omega
        · rw [hsAll]; simp [fAll]; omega
        · apply hpcs'; simp
    | 1 =>
      simp only
      have hex := Pack.extract_layout hlay
      have hth1 : f1 th = 1 := by simp [f1, hp]
      have hn0 : n ≠ 0 := by
        intro hn
        have h1 := hs1 { th with pc := 2, d := 0 }
        have hnn := sumI_nonneg f1 (fun th => by unfold f1; split <;> omega) (s.ths.set t { th with pc := 2, d := 0 })
        simp [f1, hp, hN1, hn] at h1
        omega
      refine ⟨⟨0, 0, Pack.layout_base, ?_, ?_, ?_, ?_, fun _ => rfl, ?_⟩, ?_, by simpa using hfew, hhand, hsoft, ?_⟩
      · simp only [List.length_set]; rw [hs0]; simp [f0, hp]; omega
      · rw [hsAll, hsA0]; simp [fAll, fA0, hp]; omega
      · rw [hsAll, hsA0]; simp [fAll, fA0, hp]; omega
      · rw [hs1]; simp [f1, hp, hN1, hn0]
      · rw [hsD2, hsS, hex]; simp [fD2, fS, hp]; omega
      · rw [hsAll]; simp [fAll]; omega
      · apply hpcs'; simp
    | 2 =>
      simp only
      have ha := Serializer.apply_handed s.ser th.d
      refine ⟨⟨n, acc, by rw [ha.2.2.2]; exact hlay, ?_, ?_, ?_, ?_, hz, ?_⟩, ?_, by simpa using hfew, ?_, ha.2.2.1.trans hsoft, ?_⟩
      · simp only [List.length_set]; rw [hs0]; simp [f0, hp]; omega
      · rw [hsAll, hsA0]; simp [fAll, fA0, hp]; omega
      · rw [hsAll, hsA0]; simp [fAll, fA0, hp]; omega
      · rw [hs1]; simp [f1, hp]; omega
      · rw [hsD2, hsS, ha.2.1]; simp [fD2, fS, hp]; omega
      · rw [hsAll]; simp [fAll]; omega
      · rw [ha.1]; exact hhand
      · apply hpcs'; simp
    | k + 3 =>
      simp only
      exact ⟨⟨n, acc, hlay, hcnt, hlo, hhi, hN1, hz, hcons⟩, hsmall, hfew, hhand, hsoft, hpcs⟩

theorem map_set_same {α β : Type} (f : α → β) : ∀ (l : List α) (i : Nat) (a : α) (h : i < l.length),
    f a = f l[i] → (l.set i a).map f = l.map f
  | x :: xs, 0, a, _, hf => by simp at hf; simp [hf]
  | x :: xs, i + 1, a, h, hf => by
    simp at hf
    simp [map_set_same f xs i a (by simpa using h) hf]

/-- The `delta` arguments of the calls never change. -/
theorem PSt.step_deltas (s : PSt) (t : Tid) : (s.step t).ths.map (·.delta) = s.ths.map (·.delta) := by
  unfold PSt.step
  cases hth : s.ths[t]? with
  | none => rfl
  | some th =>
    have htlt : t < s.ths.length := (List.getElem?_eq_some_iff.1 hth).1
    have hget : s.ths[t] = th := (List.getElem?_eq_some_iff.1 hth).2
    simp only
    split
    · exact map_set_same _ _ _ _ htlt (by simp [hget])
    · exact map_set_same _ _ _ _ htlt (by simp [hget])
    · exact map_set_same _ _ _ _ htlt (by simp [hget])
    · rfl

theorem sumI_init (f : PTh → Int) (c : Int → Int) (hf : ∀ d, f { delta := d } = c d) (deltas : List Int) :
    sumI f (deltas.map (fun d => ({ delta := d } : PTh))) = (deltas.map c).sum := by
  induction deltas with
  | nil => rfl
  | cons d ds ih => simp [sumI] at ih ⊢; rw [hf, ih]

theorem sum_ones : ∀ (l : List Int), (l.map (fun _ => (1 : Int))).sum = l.length
  | [] => rfl
  | _ :: xs => by have := sum_ones xs; simp at this ⊢; omega

theorem sum_zeros : ∀ (l : List Int), (l.map (fun _ => (0 : Int))).sum = 0
  | [] => rfl
  | _ :: xs => by have := sum_zeros xs; simp at this ⊢; exact this

theorem PInv.init (soft : Int) (deltas : List Int) (hsmall : (deltas.map absI).sum < Pack.base)
    (hfew : (deltas.length + 2) * Pack.counter ≤ 2 ^ 32) : PInv soft (pendSys soft deltas).init := by
  have h0 := sumI_init f0 (fun _ => 1) (fun d => by simp [f0]) deltas
  have hA0 := sumI_init fA0 absI (fun d => by simp [fA0]) deltas
  have hAll := sumI_init fAll absI (fun d => by simp [fAll]) deltas
  have h1 := sumI_init f1 (fun _ => 0) (fun d => by simp [f1]) deltas
  have hD2 := sumI_init fD2 (fun _ => 0) (fun d => by simp [fD2]) deltas
  have hS := sumI_init fS (fun _ => 0) (fun d => by simp [fS]) deltas
  have hones := sum_ones deltas
  have hzeros := sum_zeros deltas
  refine ⟨⟨0, 0, Pack.layout_base, ?_, ?_, ?_, ?_, fun _ => rfl, ?_⟩, ?_, by simpa [pendSys] using hfew, ?_, rfl, ?_⟩
  · simp only [pendSys, List.length_map]; rw [h0, hones]; omega
  · simp only [pendSys]; rw [hAll, hA0]; omega
  · simp only [pendSys]; rw [hAll, hA0]; omega
  · simp only [pendSys]; rw [h1, hzeros]; simp
  · simp only [pendSys]; rw [hD2, hS, hzeros]; simp
  · simp only [pendSys]; rw [hAll]; exact hsmall
  · simp [pendSys]
  · intro th hm
    simp only [pendSys, List.mem_map] at hm
    obtain ⟨d, _, rfl⟩ := hm
    simp

theorem PInv.run (soft : Int) (deltas : List Int) (hsmall : (deltas.map absI).sum < Pack.base)
    (hfew : (deltas.length + 2) * Pack.counter ≤ 2 ^ 32) (sched : List Tid) :
    PInv soft ((pendSys soft deltas).run sched) :=
  Sys.inv_run (pendSys soft deltas) (PInv soft) (PInv.init soft deltas hsmall hfew) (fun s t h => PInv.step soft s t h) sched

theorem pendSys_deltas (soft : Int) (deltas : List Int) (sched : List Tid) :
    ((pendSys soft deltas).run sched).ths.map (·.delta) = deltas :=
  Sys.inv_run (pendSys soft deltas) (fun s => s.ths.map (·.delta) = deltas)
    (by simp [pendSys, Function.comp_def])
    (fun s t h => (PSt.step_deltas s t).trans h) sched

theorem sumI_all_done (f g : PTh → Int) (l : List PTh) (hdone : ∀ th ∈ l, th.pc = 3)
    (hfg : ∀ th, th.pc = 3 → f th = g th) : sumI f l = sumI g l := by
  induction l with
  | nil => rfl
  | cons x xs ih =>
    have := ih (fun th h => hdone th (List.mem_cons_of_mem _ h))
    simp [sumI] at this ⊢
    rw [hfg x (hdone x (List.mem_cons_self ..)), this]

/-- At quiescence every delta has been applied exactly once. -/
theorem PInv.final {soft : Int} {s : PSt} (h : PInv soft s) (hdone : ∀ th ∈ s.ths, th.pc = 3) :
    s.ser.totalRequest = (s.ths.map (·.delta)).sum ∧ s.ser.pending = Pack.base ∧
    s.ser.handed = min soft s.ser.totalRequest - min soft 0 := by
  obtain ⟨⟨n, acc, hlay, _, _, _, hN1, hz, hcons⟩, _, _, hhand, hsoft, _⟩ := h
  have h1 : sumI f1 s.ths = sumI (fun _ => 0) s.ths := sumI_all_done _ _ _ hdone (fun th h => by simp [f1, h])
  have hD2 : sumI fD2 s.ths = sumI (fun _ => 0) s.ths := sumI_all_done _ _ _ hdone (fun th h => by simp [fD2, h])
  have hS : sumI fS s.ths = sumI fAllD s.ths := sumI_all_done _ _ _ hdone (fun th h => by simp [fS, fAllD, h])
  have hzero : sumI (fun _ => 0) s.ths = 0 := by
    unfold sumI
    induction s.ths with
    | nil => rfl
    | cons x xs ih => simp at ih ⊢; exact ih
  have hn0 : n = 0 := by
    rw [h1, hzero] at hN1
    by_cases hn : n = 0
    · exact hn
    · simp [hn] at hN1
  have hacc := hz hn0
  subst hn0; subst hacc
  refine ⟨?_, ?_, ?_⟩
  · rw [hD2, hzero, hS] at hcons
    have : sumI fAllD s.ths = (s.ths.map (·.delta)).sum := rfl
    omega
  · have := hlay.1
    simp at this
    exact_mod_cast this
  · rw [hsoft] at hhand; omega

end TbbVerif.C16
