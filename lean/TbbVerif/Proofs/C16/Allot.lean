/-
C16 — lemmas about `market::update_allotment` (model: `TbbVerif.C16.updateAllotment`).
-/
import TbbVerif.Model.C16

namespace TbbVerif.C16

def sumMax (cs : List Client) : Nat := (cs.map (·.maxW)).sum
def sumAll (os : List Out) : Nat := (os.map (·.allotted)).sum

@[simp] theorem sumMax_nil : sumMax [] = 0 := rfl
@[simp] theorem sumMax_cons (c : Client) (cs : List Client) : sumMax (c :: cs) = c.maxW + sumMax cs := by
  simp [sumMax]
@[simp] theorem sumAll_nil : sumAll [] = 0 := rfl
@[simp] theorem sumAll_cons (o : Out) (os : List Out) : sumAll (o :: os) = o.allotted + sumAll os := by
  simp [sumAll]

theorem Pointwise.imp {α β : Type} {R S : α → β → Prop} (h : ∀ a b, R a b → S a b) :
    ∀ {as : List α} {bs : List β}, Pointwise R as bs → Pointwise S as bs
  | [], [], _ => trivial
  | _ :: _, _ :: _, ⟨h1, h2⟩ => ⟨h _ _ h1, Pointwise.imp h h2⟩
  | [], _ :: _, hf => hf.elim
  | _ :: _, [], hf => hf.elim

theorem Pointwise.length_eq {α β : Type} {R : α → β → Prop} :
    ∀ {as : List α} {bs : List β}, Pointwise R as bs → as.length = bs.length
  | [], [], _ => rfl
  | _ :: _, _ :: _, ⟨_, h2⟩ => by simp [Pointwise.length_eq h2]
  | [], _ :: _, hf => hf.elim
  | _ :: _, [], hf => hf.elim

/-- Reading a `Pointwise` fact at an index. -/
theorem Pointwise.get {α β : Type} {R : α → β → Prop} :
    ∀ {as : List α} {bs : List β}, Pointwise R as bs → ∀ (i : Nat) (a : α) (b : β),
      as[i]? = some a → bs[i]? = some b → R a b
  | [], [], _, i, a, b, ha, _ => by simp at ha
  | x :: xs, y :: ys, ⟨h1, h2⟩, i, a, b, ha, hb => by
    cases i with
    | zero => simp at ha hb; subst ha; subst hb; exact h1
    | succ i => simp at ha hb; exact Pointwise.get h2 i a b ha hb
  | [], _ :: _, hf, _, _, _, _, _ => hf.elim
  | _ :: _, [], hf, _, _, _, _, _ => hf.elim

theorem sumAll_le_sumMax : ∀ {cs : List Client} {os : List Out},
    Pointwise (fun c o => o.allotted ≤ c.maxW) cs os → sumAll os ≤ sumMax cs
  | [], [], _ => by simp
  | c :: cs, o :: os, ⟨h1, h2⟩ => by
    have := sumAll_le_sumMax h2
    simp; omega
  | [], _ :: _, hf => hf.elim
  | _ :: _, [], hf => hf.elim

theorem nat_le_sum_of_mem : ∀ {l : List Nat} {x : Nat}, x ∈ l → x ≤ l.sum
  | y :: ys, x, h => by
    rcases List.mem_cons.1 h with rfl | h'
    · simp
    · have := nat_le_sum_of_mem h'; simp; omega

/-! ### proportional division of one level (`my_num_workers_soft_limit != 0`) -/

theorem levelLoop_pos {soft mw D app level : Nat} (hs : 0 < soft) (happ : app ≤ D) :
    ∀ (cs : List Client) (st : Loop), (D = 0 ∨ st.carry < D) → (D = 0 → ∀ c ∈ cs, c.maxW = 0) →
      ∃ st' os, levelLoop soft mw D app level st cs = some (st', os) ∧
        st'.unassigned = st.unassigned ∧
        sumAll os * D + st'.carry = app * sumMax cs + st.carry ∧
        (D = 0 ∨ st'.carry < D) ∧
        st'.assigned = st.assigned + sumAll os ∧
        Pointwise (fun c o => o.allotted ≤ c.maxW) cs os := by
  intro cs
  induction cs with
  | nil => intro st hc _; exact ⟨st, [], rfl, rfl, by simp, hc, by simp, trivial⟩
  | cons c cs ih =>
    intro st hc hz
    obtain ⟨st1, os, hrun, hu, heq, hc1, hass, hpw⟩ := ih st hc (fun h c' hc' => hz h c' (List.mem_cons_of_mem _ hc'))
    simp only [levelLoop, hrun]
    by_cases hm : c.maxW = 0
    · refine ⟨st1, { allotted := 0, setTop := none } :: os, by simp [clientStep, hm], hu, ?_, hc1, ?_, ?_⟩
      · simp [hm]; exact heq
      · simp; exact hass
      · exact ⟨by simp, hpw⟩
    · have hD : D ≠ 0 := fun h => hm (hz h c (List.mem_cons_self ..))
      have hDpos : 0 < D := Nat.pos_of_ne_zero hD
      have hs' : soft ≠ 0 := Nat.ne_of_gt hs
      have hc1' : st1.carry < D := by rcases hc1 with h | h; exact absurd h hD; exact h
      simp only [clientStep, hm, hs', hD, if_false]
      refine ⟨_, _, rfl, hu, ?_, Or.inr (Nat.mod_lt _ hDpos), ?_, ?_, hpw⟩
      · -- (q + S) * D + r = app * (m + M) + carry0
        have hdm := Nat.div_add_mod (c.maxW * app + st1.carry) D
        simp only [sumAll_cons, sumMax_cons]
        rw [Nat.add_mul, Nat.mul_add, Nat.mul_comm app c.maxW]
        rw [Nat.mul_comm D] at hdm
        omega
      · simp only [sumAll_cons]; omega
      · -- q ≤ m
        show (c.maxW * app + st1.carry) / D ≤ c.maxW
        have h1 : c.maxW * app ≤ c.maxW * D := Nat.mul_le_mul_left _ happ
        have h2 : c.maxW * app + st1.carry < (c.maxW + 1) * D := by
          rw [Nat.add_mul]; omega
        have := (Nat.div_lt_iff_lt_mul hDpos).2 h2
        omega

/-- At the end of a level whose demand word equals the sum of its clients' requests the carry is zero again
and the level received exactly `assigned_per_priority` workers. -/
theorem levelLoop_pos_exact {soft mw D app level : Nat} (hs : 0 < soft) (happ : app ≤ D)
    (cs : List Client) (st : Loop) (hc : st.carry = 0) (hD : D = sumMax cs) :
    ∃ st' os, levelLoop soft mw D app level st cs = some (st', os) ∧
      st'.unassigned = st.unassigned ∧ st'.carry = 0 ∧ sumAll os = app ∧
      st'.assigned = st.assigned + app ∧ st'.topLevel = st'.topLevel ∧
      Pointwise (fun c o => o.allotted ≤ c.maxW) cs os := by
  have hz : D = 0 → ∀ c ∈ cs, c.maxW = 0 := by
    intro h c hcm
    have : c.maxW ≤ sumMax cs := by
      unfold sumMax
      exact nat_le_sum_of_mem (List.mem_map_of_mem hcm)
    omega
  obtain ⟨st', os, hrun, hu, heq, hc', hass, hpw⟩ :=
    levelLoop_pos (mw := mw) (level := level) hs happ cs st (by omega) hz
  have hle := sumAll_le_sumMax hpw
  have hS : sumAll os = app ∧ st'.carry = 0 := by
    rw [hc, ← hD, Nat.add_zero] at heq
    rcases Nat.eq_zero_or_pos D with h0 | hpos
    · subst h0
      have : sumAll os = 0 := by omega
      simp at heq
      omega
    · have hc'' : st'.carry < D := by rcases hc' with h | h; omega; exact h
      rcases Nat.lt_trichotomy (sumAll os) app with hlt | heq' | hgt
      · have : (sumAll os + 1) * D ≤ app * D := Nat.mul_le_mul_right _ hlt
        rw [Nat.add_mul] at this; omega
      · rw [heq'] at heq; exact ⟨heq', by omega⟩
      · have : (app + 1) * D ≤ sumAll os * D := Nat.mul_le_mul_right _ hgt
        rw [Nat.add_mul] at this; omega
  exact ⟨st', os, hrun, hu, hS.2, hS.1, by rw [hass, hS.1], rfl, hpw⟩

/-! ### the level shares -/

theorem shares_length : ∀ (Ds : List Nat) (u : Nat), (shares Ds u).length = Ds.length
  | [], _ => rfl
  | D :: Ds, u => by simp [shares, shares_length Ds]

theorem shares_sum : ∀ (Ds : List Nat) (u : Nat), (shares Ds u).sum = min Ds.sum u
  | [], u => by simp [shares]
  | D :: Ds, u => by
    simp only [shares, List.sum_cons, shares_sum Ds]
    omega

theorem shares_getD_le : ∀ (Ds : List Nat) (u j : Nat), (shares Ds u).getD j 0 ≤ u
  | [], u, j => by simp [shares]
  | D :: Ds, u, 0 => by simp [shares]; omega
  | D :: Ds, u, j + 1 => by
    have := shares_getD_le Ds (u - min D u) j
    simp [shares] at this ⊢; omega

theorem shares_getD_le_demand : ∀ (Ds : List Nat) (u j : Nat), (shares Ds u).getD j 0 ≤ Ds.getD j 0
  | [], u, j => by simp [shares]
  | D :: Ds, u, 0 => by simp [shares]; omega
  | D :: Ds, u, j + 1 => by
    have := shares_getD_le_demand Ds (u - min D u) j
    simp [shares] at this ⊢; omega

/-- A level receives something only if every higher-priority (smaller index) level is fully served. -/
theorem shares_priority : ∀ (Ds : List Nat) (u i j : Nat), i < j → 0 < (shares Ds u).getD j 0 →
    (shares Ds u).getD i 0 = Ds.getD i 0
  | [], u, i, j, _, h => by simp [shares] at h
  | D :: Ds, u, 0, j + 1, _, h => by
    have h1 := shares_getD_le Ds (u - min D u) j
    simp [shares] at h h1 ⊢; omega
  | D :: Ds, u, i + 1, j + 1, hij, h => by
    have := shares_priority Ds (u - min D u) i j (by omega)
    simp [shares] at h this ⊢
    exact this h

/-! ### the outer loop, `my_num_workers_soft_limit != 0` -/

theorem levelsLoop_pos {soft mw : Nat} (hs : 0 < soft) :
    ∀ (levels : List (Nat × List Client)) (level : Nat) (st : Loop), st.carry = 0 →
      (∀ lv ∈ levels, lv.1 = sumMax lv.2) →
      ∃ st' oss, levelsLoop soft mw level st levels = some (st', oss) ∧
        st'.carry = 0 ∧
        oss.map sumAll = shares (levels.map (·.1)) st.unassigned ∧
        st'.assigned = st.assigned + (oss.map sumAll).sum ∧
        Pointwise (fun lv os => Pointwise (fun c o => o.allotted ≤ c.maxW) lv.2 os) levels oss := by
  intro levels
  induction levels with
  | nil => intro level st hc _; exact ⟨st, [], rfl, hc, rfl, by simp, trivial⟩
  | cons lv rest ih =>
    intro level st hc hwf
    obtain ⟨D, cs⟩ := lv
    have hD : D = sumMax cs := hwf (D, cs) (List.mem_cons_self ..)
    obtain ⟨st1, os, hrun, hu, hc1, hsum, hass, _, hpw⟩ :=
      levelLoop_pos_exact (mw := mw) (level := level) hs (Nat.min_le_left D st.unassigned) cs
        { st with unassigned := st.unassigned - min D st.unassigned } hc hD
    obtain ⟨st2, oss, hrun2, hc2, hsh, hass2, hpw2⟩ :=
      ih (level + 1) st1 hc1 (fun lv h => hwf lv (List.mem_cons_of_mem _ h))
    refine ⟨st2, os :: oss, by simp [levelsLoop, hrun, hrun2], hc2, ?_, ?_, ⟨hpw, hpw2⟩⟩
    · simp [shares, hsum, hsh, hu]
    · simp at hass ⊢; rw [hass2, hass, hsum]; omega

/-! ### `my_num_workers_soft_limit == 0` (mandatory concurrency only) -/

theorem levelLoop_zero {mw D app level : Nat} (hmw : mw ≤ 1) :
    ∀ (cs : List Client) (st : Loop),
      ∃ st' os, levelLoop 0 mw D app level st cs = some (st', os) ∧
        st'.assigned = st.assigned + sumAll os ∧
        (st.assigned ≤ mw → st'.assigned ≤ mw) ∧
        ((∃ c ∈ cs, eligible c) → mw ≤ st'.assigned) ∧
        (mw ≤ st.assigned → mw ≤ st'.assigned) ∧
        Pointwise (fun c o => o.allotted ≤ c.maxW ∧ o.allotted ≤ 1 ∧ (0 < o.allotted → eligible c)) cs os := by
  intro cs
  induction cs with
  | nil => intro st; exact ⟨st, [], rfl, by simp, id, by simp, id, trivial⟩
  | cons c cs ih =>
    intro st
    obtain ⟨st1, os, hrun, hass, hle, hel, hmono, hpw⟩ := ih st
    simp only [levelLoop, hrun]
    by_cases hm : c.maxW = 0
    · refine ⟨st1, { allotted := 0, setTop := none } :: os, by simp [clientStep, hm], by simpa using hass, hle, ?_, hmono,
        ⟨by simp, hpw⟩⟩
      rintro ⟨c', hc', he⟩
      rcases List.mem_cons.1 hc' with rfl | h
      · exact absurd he.2 (by omega)
      · exact hel ⟨c', h, he⟩
    · simp only [clientStep, hm, if_false, if_true]
      refine ⟨_, _, rfl, ?_, ?_, ?_, ?_, ?_, hpw⟩
      · simp only [sumAll_cons]; omega
      · intro h; have := hle h; show st1.assigned + _ ≤ mw; split <;> omega
      · rintro ⟨c', hc', he⟩
        show mw ≤ st1.assigned + _
        rcases List.mem_cons.1 hc' with rfl | h
        · have := he.1; split <;> omega
        · have := hel ⟨c', h, he⟩; omega
      · intro h; have := hmono h; show mw ≤ st1.assigned + _; omega
      · refine ⟨?_, ?_, ?_⟩
        · show (if 0 < c.minW ∧ st1.assigned < mw then 1 else 0) ≤ c.maxW
          split <;> omega
        · show (if 0 < c.minW ∧ st1.assigned < mw then 1 else 0) ≤ 1
          split <;> omega
        · show 0 < (if 0 < c.minW ∧ st1.assigned < mw then 1 else 0) → eligible c
          split
          · rename_i h; intro _; exact ⟨h.1, by omega⟩
          · intro h; omega

theorem levelsLoop_zero {mw : Nat} (hmw : mw ≤ 1) :
    ∀ (levels : List (Nat × List Client)) (level : Nat) (st : Loop),
      ∃ st' oss, levelsLoop 0 mw level st levels = some (st', oss) ∧
        st'.assigned = st.assigned + (oss.map sumAll).sum ∧
        (st.assigned ≤ mw → st'.assigned ≤ mw) ∧
        (anyEligible levels → mw ≤ st'.assigned) ∧
        (mw ≤ st.assigned → mw ≤ st'.assigned) ∧
        Pointwise (fun lv os => Pointwise (fun c o => o.allotted ≤ c.maxW ∧ o.allotted ≤ 1 ∧
          (0 < o.allotted → eligible c)) lv.2 os) levels oss := by
  intro levels
  induction levels with
  | nil =>
    intro level st
    exact ⟨st, [], rfl, by simp, id, by rintro ⟨lv, h, _⟩; simp at h, id, trivial⟩
  | cons lv rest ih =>
    intro level st
    obtain ⟨D, cs⟩ := lv
    obtain ⟨st1, os, hrun, hass, hle, hel, hmono, hpw⟩ :=
      levelLoop_zero (D := D) (app := min D st.unassigned) (level := level) hmw cs
        { st with unassigned := st.unassigned - min D st.unassigned }
    obtain ⟨st2, oss, hrun2, hass2, hle2, hel2, hmono2, hpw2⟩ := ih (level + 1) st1
    refine ⟨st2, os :: oss, by simp [levelsLoop, hrun, hrun2], ?_, fun h => hle2 (hle h), ?_,
      fun h => hmono2 (hmono h), ⟨hpw, hpw2⟩⟩
    · simp at hass ⊢; omega
    · rintro ⟨lv, hlv, c, hc, he⟩
      rcases List.mem_cons.1 hlv with rfl | h
      · exact hmono2 (hel ⟨c, hc, he⟩)
      · exact hel2 ⟨lv, h, c, hc, he⟩

/-! ### `update_allotment` as a whole -/

theorem Pointwise.map_right {α β γ : Type} {R : α → γ → Prop} (f : β → γ) :
    ∀ {as : List α} {bs : List β}, Pointwise (fun a b => R a (f b)) as bs → Pointwise R as (bs.map f)
  | [], [], _ => trivial
  | _ :: _, _ :: _, ⟨h1, h2⟩ => ⟨h1, Pointwise.map_right f h2⟩
  | [], _ :: _, hf => hf.elim
  | _ :: _, [], hf => hf.elim

theorem map_sum_allotted (oss : List (List Out)) :
    (oss.map (fun os => os.map (·.allotted))).map List.sum = oss.map sumAll := by
  simp [List.map_map, sumAll, Function.comp_def]

theorem effLimit_pos {soft mand : Nat} (hs : 0 < soft) : effLimit soft mand = soft := by
  unfold effLimit; split <;> omega

theorem effLimit_zero_le (mand : Nat) : effLimit 0 mand ≤ 1 := by
  unfold effLimit; split <;> omega

theorem WF.levels {total : Nat} {levels : List (Nat × List Client)} (h : WF total levels) :
    ∀ lv ∈ levels, lv.1 = sumMax lv.2 := h.2

theorem updateAllotment_pos {soft total mand : Nat} {levels : List (Nat × List Client)}
    (hs : 0 < soft) (hwf : WF total levels) :
    ∃ st' oss, updateAllotment soft total mand levels = some (st', oss) ∧
      oss.map sumAll = shares (levels.map (·.1)) (min total soft) ∧
      st'.assigned = min total soft ∧ (oss.map sumAll).sum = min total soft ∧
      Pointwise (fun lv os => Pointwise (fun c o => o.allotted ≤ c.maxW) lv.2 os) levels oss := by
  obtain ⟨st', oss, hrun, _, hsh, hass, hpw⟩ :=
    levelsLoop_pos (mw := min total soft) hs levels 0
      { unassigned := min total soft, assigned := 0, carry := 0, topLevel := none } rfl hwf.levels
  have hsum : (oss.map sumAll).sum = min total soft := by
    rw [hsh, shares_sum, ← hwf.1]; simp
  refine ⟨st', oss, by simp [updateAllotment, effLimit_pos hs, hrun], hsh, ?_, hsum, hpw⟩
  simp at hass; omega

theorem updateAllotment_zero {total mand : Nat} (levels : List (Nat × List Client)) :
    ∃ st' oss, updateAllotment 0 total mand levels = some (st', oss) ∧
      st'.assigned = (oss.map sumAll).sum ∧
      (oss.map sumAll).sum ≤ min total (effLimit 0 mand) ∧
      (anyEligible levels → (oss.map sumAll).sum = min total (effLimit 0 mand)) ∧
      Pointwise (fun lv os => Pointwise (fun c o => o.allotted ≤ c.maxW ∧ o.allotted ≤ 1 ∧
          (0 < o.allotted → eligible c)) lv.2 os) levels oss := by
  have hmw : min total (effLimit 0 mand) ≤ 1 := by have := effLimit_zero_le mand; omega
  obtain ⟨st', oss, hrun, hass, hle, hel, _, hpw⟩ :=
    levelsLoop_zero hmw levels 0
      { unassigned := min total (effLimit 0 mand), assigned := 0, carry := 0, topLevel := none }
  simp at hass hle
  refine ⟨st', oss, by simp [updateAllotment, hrun], hass, by omega, ?_, hpw⟩
  intro h; have := hel h; omega

/-- No eligible client: nobody receives the mandatory worker. -/
theorem pointwise_zero_of_not_eligible : ∀ {cs : List Client} {os : List Out},
    Pointwise (fun c o => o.allotted ≤ c.maxW ∧ o.allotted ≤ 1 ∧ (0 < o.allotted → eligible c)) cs os →
    (∀ c ∈ cs, ¬ eligible c) → sumAll os = 0
  | [], [], _, _ => rfl
  | c :: cs, o :: os, ⟨h1, h2⟩, hne => by
    have h0 : o.allotted = 0 := by
      rcases Nat.eq_zero_or_pos o.allotted with h | h
      · exact h
      · exact absurd (h1.2.2 h) (hne c (List.mem_cons_self ..))
    have := pointwise_zero_of_not_eligible h2 (fun c' h => hne c' (List.mem_cons_of_mem _ h))
    simp [h0, this]
  | [], _ :: _, hf, _ => hf.elim
  | _ :: _, [], hf, _ => hf.elim

end TbbVerif.C16
