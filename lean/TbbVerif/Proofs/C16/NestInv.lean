/-
C16 nested isolation — `NInv` is preserved by the scoping operations (dispatch loops, `isolate_within_arena`, `nested_arena_context`,
dispatcher creation / attachment) and by the operations that create tasks.
-/
import TbbVerif.Proofs.C16.NestDefs

set_option linter.unusedSimpArgs false

namespace TbbVerif.C16.Nest
open TbbVerif.Generated.C16
open TbbVerif.C16.Iso (Task PEntry Entry Pool gen_loop gen_tagSpawn gen_tagSpawnAff gen_tagProxy gen_tagCritical gen_tagEnqueue gen_isolateRestore)

theorem NInv.init (n : Nat) : NInv (NSt.init n) := by
  refine ⟨by simp [NSt.init], ?_, ?_, ?_, ?_, ?_, ?_, ?_⟩ <;> simp [NSt.init, List.mem_replicate]
  · intro _
    refine ⟨?_, ?_, ?_⟩ <;> simp [gen_base, ctxTag, WFS]
  · intro dp1 h1 dp2 h2 p1 s1 r1 t1 e1 hf1
    rw [List.mem_replicate] at h1
    rw [h1.2] at hf1
    simp at hf1

/-- replace dispatcher `d` by `dp'` whose region frames all occur in the old record -/
theorem NInv.setDisp {s : NSt} (h : NInv s) {d : Nat} {dp dp' : Disp} (hd : s.disps[d]? = some dp) (hk : Dk s.tagOf dp')
    (hsub : ∀ p s r t e, Fr.region p s r t e ∈ dp'.stack → Fr.region p s r t e ∈ dp.stack) : NInv (s.setDisp d dp') := by
  refine ⟨h.zero, h.pools, h.mail, h.fifo, h.crit, ?_, h.live.set_sub hd hsub, h.log⟩
  intro dp'' h''
  rcases mem_set_cases h'' with e | e
  · subst e; exact hk
  · exact h.disps _ e

theorem NInv.step_wait {s : NSt} (h : NInv s) (t : Nat) : NInv (s.step (.wait t)) := by
  simp only [NSt.step]
  split
  · rename_i d dp hdp
    have hd := dispOf_mem hdp
    obtain ⟨h1, h2, h3, h4, h5⟩ := h.disps _ (getElem?_mem hd)
    refine h.setDisp hd ⟨h1, h2, ?_, ?_, ?_⟩ ?_
    · intro f hf
      simp only [List.mem_cons] at hf
      rcases hf with hf | hf
      · subst hf; exact ⟨by rw [gen_loop]; exact h1, h2, h1, h2⟩
      · exact h3 f hf
    · simp [ctxTag]
    · exact ⟨h4, gen_loop _, fun _ => Or.inr (gen_loop _).symm, h5⟩
    · intro p s r t e hf
      simp only [List.mem_cons] at hf
      rcases hf with hf | hf
      · cases hf
      · exact hf
  · exact h

theorem NInv.step_endWait {s : NSt} (h : NInv s) (t : Nat) : NInv (s.step (.endWait t)) := by
  simp only [NSt.step]
  split
  · rename_i d dp hdp
    have hd := dispOf_mem hdp
    obtain ⟨h1, h2, h3, h4, h5⟩ := h.disps _ (getElem?_mem hd)
    split
    · rename_i i g se sr c rs st heq
      rw [heq] at h3 h5
      have hf := h3 _ (List.mem_cons_self ..)
      obtain ⟨hs, _, _, hw⟩ := h5
      refine h.setDisp hd ⟨hf.2.2.1, hf.2.2.2, fun f hf' => h3 f (List.mem_cons_of_mem _ hf'), hs, hw⟩ ?_
      intro p s r t e hf'
      rw [heq]; exact List.mem_cons_of_mem _ hf'
    · exact h
  · exact h

theorem NInv.step_execBegin {s : NSt} (h : NInv s) (t : Nat) : NInv (s.step (.execBegin t)) := by
  simp only [NSt.step]
  split
  · rename_i d dp hdp
    have hd := dispOf_mem hdp
    obtain ⟨h1, h2, h3, h4, h5⟩ := h.disps _ (getElem?_mem hd)
    refine h.setDisp hd ⟨by rw [gen_nestedArena]; exact h.zero.1.symm, h.zero.2, ?_, by simp [ctxTag, gen_nestedArena], ⟨h4, h5⟩⟩ ?_
    · intro f hf
      simp only [List.mem_cons] at hf
      rcases hf with hf | hf
      · subst hf; exact ⟨h1, h2⟩
      · exact h3 f hf
    · intro p s r t e hf
      simp only [List.mem_cons] at hf
      rcases hf with hf | hf
      · cases hf
      · exact hf
  · exact h

theorem NInv.step_execEnd {s : NSt} (h : NInv s) (t : Nat) : NInv (s.step (.execEnd t)) := by
  simp only [NSt.step]
  split
  · rename_i d dp hdp
    have hd := dispOf_mem hdp
    obtain ⟨h1, h2, h3, h4, h5⟩ := h.disps _ (getElem?_mem hd)
    split
    · rename_i se sr st heq
      rw [heq] at h3 h5
      have hf := h3 _ (List.mem_cons_self ..)
      obtain ⟨hs, hw⟩ := h5
      refine h.setDisp hd ⟨hf.1, hf.2, fun f hf' => h3 f (List.mem_cons_of_mem _ hf'), hs, hw⟩ ?_
      intro p s r t e hf'
      rw [heq]; exact List.mem_cons_of_mem _ hf'
    · exact h
  · exact h

theorem NInv.step_endIsolate {s : NSt} (h : NInv s) (t : Nat) (thrown : Bool) : NInv (s.step (.endIsolate t thrown)) := by
  simp only [NSt.step]
  split
  · rename_i d dp hdp
    have hd := dispOf_mem hdp
    obtain ⟨h1, h2, h3, h4, h5⟩ := h.disps _ (getElem?_mem hd)
    split
    · rename_i prev sr rid tag ex st heq
      rw [heq] at h3 h5
      have hf := h3 _ (List.mem_cons_self ..)
      obtain ⟨hs, hw⟩ := h5
      have hrest : (if (if thrown = true then isoRestoreOnThrow else isoRestoreOnReturn) = true then isolateRestore prev else dp.ed) = prev := by
        cases thrown <;> simp [gen_restoreReturn, gen_restoreThrow, gen_isolateRestore]
      rw [hrest]
      refine h.setDisp hd ⟨hf.1, hf.2.1, fun f hf' => h3 f (List.mem_cons_of_mem _ hf'), hs, hw⟩ ?_
      intro p s r t e hf'
      rw [heq]; exact List.mem_cons_of_mem _ hf'
    · exact h
  · exact h

theorem tagFree_spec {s : NSt} {ex : Bool} {τ : Nat} (h : s.tagFree ex τ = true) {dp : Disp} (hdp : dp ∈ s.disps)
    {p sr r t : Nat} {e : Bool} (hf : Fr.region p sr r t e ∈ dp.stack) (ht : t = τ) : ex = true ∧ e = true := by
  unfold NSt.tagFree at h
  rw [List.all_eq_true] at h
  have h1 := h dp hdp
  rw [List.all_eq_true] at h1
  have h2 := h1 _ hf
  subst ht
  cases ex <;> cases e <;> simp [Fr.hasAddrTag, Fr.hasTag] at h2 ⊢

theorem NInv.step_isolate {s : NSt} (h : NInv s) (t x f : Nat) : NInv (s.step (.isolate t x f)) := by
  simp only [NSt.step]
  split
  · rename_i d dp hdp
    have hd := dispOf_mem hdp
    obtain ⟨h1, h2, h3, h4, h5⟩ := h.disps _ (getElem?_mem hd)
    split
    · exact h
    · rename_i hc
      have hfree : s.tagFree (x != 0) (isolateSet (isolateTag x f)) = true := by
        cases hb : s.tagFree (x != 0) (isolateSet (isolateTag x f))
        · exact absurd (Or.inr (Or.inr hb)) hc
        · rfl
      refine ⟨?_, ?_, ?_, ?_, ?_, ?_, ?_, h.log⟩
      · refine ⟨?_, by simp⟩
        rw [getD_snoc_lt _ _ _ h.zero.2]; exact h.zero.1
      · exact fun pool hp e he => (h.pools pool hp e he).mono _
      · exact fun box hb p hp => (h.mail box hb p hp).mono _
      · exact fun y hy => (h.fifo y hy).mono _
      · exact fun y hy => (h.crit y hy).mono _
      · intro dp' h'
        rcases mem_set_cases h' with e | e
        · subst e
          refine ⟨(getD_snoc_len _ _).symm, by simp, ?_, by simp [ctxTag], ?_⟩
          · intro fr hfr
            simp only [List.mem_cons] at hfr
            rcases hfr with hfr | hfr
            · subst hfr
              refine ⟨?_, by simp; omega, (getD_snoc_len _ _).symm, by simp⟩
              rw [gen_captured, getD_snoc_lt _ _ _ h2]; exact h1
            · exact (h3 fr hfr).mono _
          · exact ⟨by rw [gen_captured]; exact h4, h5⟩
        · exact (h.disps _ e).mono _
      · -- live tags stay distinct: the new frame's tag was free
        intro dp1 hm1 dp2 hm2 p1 s1 r1 t1 e1 hf1 p2 s2 r2 t2 e2 hf2 ht hne
        have hm := getElem?_mem hd
        have a1 : dp1 = _ ∨ dp1 ∈ s.disps := mem_set_cases hm1
        have a2 : dp2 = _ ∨ dp2 ∈ s.disps := mem_set_cases hm2
        -- a region frame of the new record is the new frame or a frame of `dp`
        have old_or_new : ∀ {p sr r tt : Nat} {e : Bool}, Fr.region p sr r tt e ∈
            (Fr.region (isolateCaptured dp.ed) dp.reg s.tagOf.length (isolateSet (isolateTag x f)) (x != 0) :: dp.stack) →
            (r = s.tagOf.length ∧ tt = isolateSet (isolateTag x f) ∧ e = (x != 0)) ∨ Fr.region p sr r tt e ∈ dp.stack := by
          intro p sr r tt e hh
          simp only [List.mem_cons] at hh
          rcases hh with hh | hh
          · left; cases hh; exact ⟨rfl, rfl, rfl⟩
          · right; exact hh
        rcases a1 with a1 | a1 <;> rcases a2 with a2 | a2
        · subst a1; subst a2
          rcases old_or_new hf1 with ⟨r1e, t1e, e1e⟩ | o1 <;> rcases old_or_new hf2 with ⟨r2e, t2e, e2e⟩ | o2
          · omega
          · have := tagFree_spec hfree hm o2 (by rw [← ht, t1e]); exact absurd ⟨by rw [e1e]; exact this.1, this.2⟩ hne
          · have := tagFree_spec hfree hm o1 (by rw [ht, t2e]); exact absurd ⟨this.2, by rw [e2e]; exact this.1⟩ hne
          · exact h.live dp hm dp hm _ _ _ _ _ o1 _ _ _ _ _ o2 ht hne
        · subst a1
          rcases old_or_new hf1 with ⟨r1e, t1e, e1e⟩ | o1
          · have := tagFree_spec hfree a2 hf2 (by rw [← ht, t1e]); exact absurd ⟨by rw [e1e]; exact this.1, this.2⟩ hne
          · exact h.live dp hm dp2 a2 _ _ _ _ _ o1 _ _ _ _ _ hf2 ht hne
        · subst a2
          rcases old_or_new hf2 with ⟨r2e, t2e, e2e⟩ | o2
          · have := tagFree_spec hfree a1 hf1 (by rw [ht, t2e]); exact absurd ⟨this.2, by rw [e2e]; exact this.1⟩ hne
          · exact h.live dp1 a1 dp hm _ _ _ _ _ hf1 _ _ _ _ _ o2 ht hne
        · exact h.live dp1 a1 dp2 a2 _ _ _ _ _ hf1 _ _ _ _ _ hf2 ht hne
  · exact h

theorem NInv.step_newDisp {s : NSt} (h : NInv s) : NInv (s.step .newDisp) := by
  simp only [NSt.step]
  refine ⟨h.zero, h.pools, h.mail, h.fifo, h.crit, ?_, ?_, h.log⟩
  · intro dp hdp
    simp only [List.mem_append, List.mem_singleton] at hdp
    rcases hdp with hdp | hdp
    · exact h.disps dp hdp
    · subst hdp
      exact ⟨by simp [gen_base]; exact h.zero.1.symm, h.zero.2, by simp, by simp [gen_base, ctxTag], by simp [WFS]⟩
  · intro dp1 h1 dp2 h2 p1 s1 r1 t1 e1 hf1 p2 s2 r2 t2 e2 hf2
    simp only [List.mem_append, List.mem_singleton] at h1 h2
    rcases h1 with h1 | h1
    · rcases h2 with h2 | h2
      · exact h.live dp1 h1 dp2 h2 _ _ _ _ _ hf1 _ _ _ _ _ hf2
      · subst h2; simp at hf2
    · subst h1; simp at hf1

theorem NInv.step_attach {s : NSt} (h : NInv s) (t d : Nat) : NInv (s.step (.attach t d)) := by
  simp only [NSt.step]
  split
  · exact ⟨h.zero, h.pools, h.mail, h.fifo, h.crit, h.disps, h.live, h.log⟩
  · exact h

theorem NInv.step_resumeReq {s : NSt} (h : NInv s) (d : Nat) : NInv (s.step (.resumeReq d)) := by
  simp only [NSt.step]
  exact ⟨h.zero, h.pools, h.mail, h.fifo, h.crit, h.disps, h.live, h.log⟩

theorem NInv.step_setIdle {s : NSt} (h : NInv s) (t : Nat) (b : Bool) : NInv (s.step (.setIdle t b)) := by
  simp only [NSt.step]
  split
  · exact ⟨h.zero, h.pools, h.mail, h.fifo, h.crit, h.disps, h.live, h.log⟩
  · exact h

/-! ### creating tasks -/

/-- appending an entry to pool `t` -/
theorem NInv.pushPool {s : NSt} (h : NInv s) {t : Nat} {pool : Pool} (hp : s.pools[t]? = some pool) {e : Entry} (he : Ek s.tagOf e) :
    ∀ pool' ∈ s.pools.set t (pool ++ [some e]), ∀ e', some e' ∈ pool' → Ek s.tagOf e' := by
  intro pool' hp' e' he'
  rcases mem_set_cases hp' with hh | hh
  · subst hh
    simp only [List.mem_append, List.mem_singleton, Option.some.injEq] at he'
    rcases he' with hh | hh
    · exact h.pools _ (getElem?_mem hp) _ hh
    · subst hh; exact he
  · exact h.pools _ hh _ he'

theorem NInv.doSpawn {s : NSt} (h : NInv s) {t : Nat} {dp : Disp} {pool : Pool} (hp : s.pools[t]? = some pool) {tag : Nat}
    (hk : Tk s.tagOf { id := s.next, tag := tag, region := dp.reg }) : NInv (s.doSpawn t dp pool tag) :=
  ⟨h.zero, h.pushPool hp (e := .plain _) hk, h.mail, h.fifo, h.crit, h.disps, h.live, h.log⟩

theorem NInv.step_spawn {s : NSt} (h : NInv s) (t : Nat) : NInv (s.step (.spawn t)) := by
  simp only [NSt.step]
  split
  · rename_i d dp pool hdp hp
    have hk := h.disps _ (getElem?_mem (dispOf_mem hdp))
    exact h.doSpawn hp ⟨by simp [gen_tagSpawn]; exact hk.1, hk.2.1⟩
  · exact h

theorem NInv.step_spawnAff {s : NSt} (h : NInv s) (t dst : Nat) : NInv (s.step (.spawnAff t dst)) := by
  simp only [NSt.step]
  split
  · rename_i d dp pool hdp hp
    have hk := h.disps _ (getElem?_mem (dispOf_mem hdp))
    have hx : Tk s.tagOf { id := s.next, tag := tagSpawnAff dp.ed, region := dp.reg } := ⟨by simp [gen_tagSpawnAff]; exact hk.1, hk.2.1⟩
    split
    · rename_i box hbox
      have hpe : Pk s.tagOf { pid := s.next, ptag := tagProxy dp.ed, task := { id := s.next, tag := tagSpawnAff dp.ed, region := dp.reg }, dest := dst } :=
        ⟨by simp [gen_tagProxy, gen_tagSpawnAff], hx⟩
      refine ⟨h.zero, h.pushPool hp (e := .proxy _) hpe, ?_, h.fifo, h.crit, h.disps, h.live, h.log⟩
      intro box' hb' p hp'
      rcases mem_set_cases hb' with hh | hh
      · subst hh
        simp only [List.mem_append, List.mem_singleton] at hp'
        rcases hp' with hh | hh
        · have hbm : box ∈ s.mail := by
            split at hbox
            · simp at hbox
            · exact getElem?_mem hbox
          exact h.mail _ hbm _ hh
        · subst hh; exact hpe
      · exact h.mail _ hh _ hp'
    · exact ⟨h.zero, h.pushPool hp (e := .plain _) hx, h.mail, h.fifo, h.crit, h.disps, h.live, h.log⟩
  · exact h

theorem NInv.step_enqueue {s : NSt} (h : NInv s) (t : Nat) : NInv (s.step (.enqueue t)) := by
  simp only [NSt.step]
  split
  · refine ⟨h.zero, h.pools, h.mail, ?_, h.crit, h.disps, h.live, h.log⟩
    intro x hx
    simp only [List.mem_append, List.mem_singleton] at hx
    rcases hx with hh | hh
    · exact h.fifo _ hh
    · subst hh; exact ⟨by simp [gen_tagEnqueue]; exact h.zero.1.symm, h.zero.2⟩
  · exact h

theorem NInv.step_critical {s : NSt} (h : NInv s) (t : Nat) : NInv (s.step (.critical t)) := by
  simp only [NSt.step]
  split
  · rename_i d dp hdp
    have hk := h.disps _ (getElem?_mem (dispOf_mem hdp))
    refine ⟨h.zero, h.pools, h.mail, h.fifo, ?_, h.disps, h.live, h.log⟩
    intro x hx
    simp only [List.mem_append, List.mem_singleton] at hx
    rcases hx with hh | hh
    · exact h.crit _ hh
    · subst hh; exact ⟨by simp [gen_tagCritical]; exact hk.1, hk.2.1⟩
  · exact h

end TbbVerif.C16.Nest
