/-
C16 nested isolation — a second, independent invariant (`AInv`) about the GHOST regions: the region of the code running directly in
an `isolate` functor is that call's region, a dispatch loop entered directly from the functor waits in that region, and that region
is live while the loop runs.  Consequence (`isolation_direct_wait`): for a thread that waits *directly* inside
`this_task_arena::isolate`, the only way to execute a task of another region is a task that outlived an earlier region which had the
same tag.
-/
import TbbVerif.Proofs.C16.NestThm

set_option linter.unusedSimpArgs false

namespace TbbVerif.C16.Nest
open TbbVerif.Generated.C16
open TbbVerif.C16.Iso (Task)

/-- the ghost region a frame saved (to be restored when it is popped) -/
def Fr.savedReg : Fr → Nat
  | .loop _ _ _ sr _ _ => sr
  | .region _ sr _ _ _ => sr
  | .exec _ sr => sr

/-- a frame directly above the frame of region `r` saved `r`; a loop there waits in `r` -/
def AdjS : List Fr → Prop
  | [] => True
  | f :: rest =>
    (∀ p s r t e rest', rest = Fr.region p s r t e :: rest' →
      f.savedReg = r ∧ (∀ i g se sr c rs, f = Fr.loop i g se sr c rs → g = r)) ∧ AdjS rest

def RegTop (dp : Disp) : Prop := ∀ p s r t e rest, dp.stack = Fr.region p s r t e :: rest → dp.reg = r

def LogAdj (e : LogE) : Prop := ∀ p s r t x rest, e.below = Fr.region p s r t x :: rest → e.ghost = r ∧ e.gLive = true

structure AInv (s : NSt) : Prop where
  disps : ∀ dp ∈ s.disps, RegTop dp ∧ AdjS dp.stack
  log : ∀ e ∈ s.log, LogAdj e

theorem AInv.init (n : Nat) : AInv (NSt.init n) := by
  refine ⟨?_, by simp [NSt.init]⟩
  intro dp hdp
  simp only [NSt.init, List.mem_replicate] at hdp
  rw [hdp.2]
  exact ⟨by intro p s r t e rest h; simp at h, trivial⟩

theorem AInv.of_eq {s s' : NSt} (h : AInv s) (hd : s'.disps = s.disps) (hl : s'.log = s.log) : AInv s' :=
  ⟨by rw [hd]; exact h.disps, by rw [hl]; exact h.log⟩

theorem AInv.setDisp {s : NSt} (h : AInv s) (d : Nat) {dp' : Disp} (hk : RegTop dp' ∧ AdjS dp'.stack) : AInv (s.setDisp d dp') := by
  refine ⟨?_, h.log⟩
  intro dp hdp
  rcases mem_set_cases hdp with e | e
  · subst e; exact hk
  · exact h.disps _ e

theorem adj_setCur {c : Nat} {r : Bool} {st : List Fr} (h : AdjS st) : AdjS (setCur c r st) := by
  unfold setCur
  split
  · rename_i i g se sr c0 r0 rest
    refine ⟨?_, h.2⟩
    intro p s rr t e rest' hr
    have := h.1 p s rr t e rest' hr
    refine ⟨this.1, ?_⟩
    intro i' g' se' sr' c' rs' hf
    cases hf
    exact this.2 i g se sr c0 r0 rfl
  · exact h

theorem setCur_top_loop {c : Nat} {r : Bool} {st : List Fr} {i g se sr c0 : Nat} {r0 : Bool} {rest : List Fr}
    (h : st = Fr.loop i g se sr c0 r0 :: rest) : setCur c r st = Fr.loop i g se sr c r :: rest := by
  subst h; rfl

/-- the state after `exec`: the dispatcher's top frame is a loop (so `RegTop` is vacuous), the stack only changes its `cur` field -/
theorem AInv.exec {s : NSt} (h : AInv s) {t d : Nat} {dp : Disp} (hd : s.disps[d]? = some dp) (x : Task) {i g : Nat} {below : List Fr}
    (hl : dp.curLoop = some (i, g, below)) (edNew : Nat) (res : Bool) : AInv (s.exec t d dp x i g below edNew res) := by
  obtain ⟨se, sr, c, rs, hst⟩ := curLoop_spec hl
  have hk := h.disps _ (getElem?_mem hd)
  refine ⟨?_, ?_⟩
  · intro dp' h'
    rcases mem_set_cases h' with e | e
    · subst e
      refine ⟨?_, adj_setCur hk.2⟩
      intro p s' r t' e' rest hh
      simp only [setCur_top_loop hst] at hh
      cases hh
    · exact h.disps _ e
  · intro e he
    simp only [NSt.exec, List.mem_append, List.mem_singleton] at he
    rcases he with he | he
    · exact h.log _ he
    · subst he
      intro p s' r t' x' rest hb
      simp only at hb
      have hadj := hk.2
      rw [hst] at hadj
      have := (hadj.1 p s' r t' x' rest hb).2 i g se sr c rs rfl
      refine ⟨this, ?_⟩
      simp only
      -- the region frame is on this dispatcher's stack
      unfold NSt.liveRid
      rw [List.any_eq_true]
      refine ⟨dp, getElem?_mem hd, ?_⟩
      rw [List.any_eq_true]
      refine ⟨Fr.region p s' r t' x', ?_, by simp [Fr.hasRid, this]⟩
      rw [hst, hb]; simp

theorem AInv.exec' {s s1 : NSt} (h : AInv s) (hd1 : s1.disps = s.disps) (hl1 : s1.log = s.log) {t d : Nat} {dp : Disp} (hd : s.disps[d]? = some dp)
    (x : Task) {i g : Nat} {below : List Fr} (hl : dp.curLoop = some (i, g, below)) (edNew : Nat) (res : Bool) :
    AInv (s1.exec t d dp x i g below edNew res) :=
  (h.of_eq hd1 hl1).exec (by rw [hd1]; exact hd) x hl edNew res

theorem AInv.doPopCrit {s : NSt} (h : AInv s) {t d : Nat} {dp : Disp} (hd : s.disps[d]? = some dp)
    {i g : Nat} {below : List Fr} (hl : dp.curLoop = some (i, g, below)) (k : Nat) : AInv (s.doPopCrit t d dp i g below k) := by
  unfold NSt.doPopCrit
  split
  · split
    · exact h.exec' (by rfl) (by rfl) hd _ hl _ _
    · exact h
  · exact h

theorem AInv.doPopCrit' {s s1 : NSt} (h : AInv s) (hd1 : s1.disps = s.disps) (hl1 : s1.log = s.log) {t d : Nat} {dp : Disp} (hd : s.disps[d]? = some dp)
    {i g : Nat} {below : List Fr} (hl : dp.curLoop = some (i, g, below)) (k : Nat) : AInv (s1.doPopCrit t d dp i g below k) :=
  (h.of_eq hd1 hl1).doPopCrit (by rw [hd1]; exact hd) hl k

theorem adj_push {f : Fr} {st : List Fr} (h : AdjS st)
    (hf : ∀ p s r t e rest', st = Fr.region p s r t e :: rest' → f.savedReg = r ∧ (∀ i g se sr c rs, f = Fr.loop i g se sr c rs → g = r)) :
    AdjS (f :: st) := ⟨hf, h⟩

theorem AInv.step {s : NSt} (h : AInv s) (op : NOp) : AInv (s.step op) := by
  cases op with
  | wait t =>
    simp only [NSt.step]
    split
    · rename_i d dp hdp
      have hk := h.disps _ (getElem?_mem (dispOf_mem hdp))
      refine h.setDisp d ⟨by intro p s r t e rest hh; simp at hh, adj_push hk.2 ?_⟩
      intro p s r t e rest' hst
      have := hk.1 p s r t e rest' hst
      exact ⟨this, by intro i g se sr c rs hf; cases hf; exact this⟩
    · exact h
  | endWait t =>
    simp only [NSt.step]
    split
    · rename_i d dp hdp
      have hk := h.disps _ (getElem?_mem (dispOf_mem hdp))
      split
      · rename_i i g se sr c rs st heq
        rw [heq] at hk
        refine h.setDisp d ⟨?_, hk.2.2⟩
        intro p s r t e rest hh
        exact (hk.2.1 p s r t e rest hh).1
      · exact h
    · exact h
  | isolate t x f =>
    simp only [NSt.step]
    split
    · rename_i d dp hdp
      have hk := h.disps _ (getElem?_mem (dispOf_mem hdp))
      split
      · exact h
      · refine ⟨?_, h.log⟩
        intro dp' h'
        rcases mem_set_cases h' with e | e
        · subst e
          refine ⟨by intro p s r t e rest hh; cases hh; rfl, adj_push hk.2 ?_⟩
          intro p s r t e rest' hst
          exact ⟨hk.1 p s r t e rest' hst, by intro i g se sr c rs hf; cases hf⟩
        · exact h.disps _ e
    · exact h
  | endIsolate t th =>
    simp only [NSt.step]
    split
    · rename_i d dp hdp
      have hk := h.disps _ (getElem?_mem (dispOf_mem hdp))
      split
      · rename_i prev sr rid tag ex st heq
        rw [heq] at hk
        refine h.setDisp d ⟨?_, hk.2.2⟩
        intro p s r t e rest hh
        exact (hk.2.1 p s r t e rest hh).1
      · exact h
    · exact h
  | execBegin t =>
    simp only [NSt.step]
    split
    · rename_i d dp hdp
      have hk := h.disps _ (getElem?_mem (dispOf_mem hdp))
      refine h.setDisp d ⟨by intro p s r t e rest hh; simp at hh, adj_push hk.2 ?_⟩
      intro p s r t e rest' hst
      exact ⟨hk.1 p s r t e rest' hst, by intro i g se sr c rs hf; cases hf⟩
    · exact h
  | execEnd t =>
    simp only [NSt.step]
    split
    · rename_i d dp hdp
      have hk := h.disps _ (getElem?_mem (dispOf_mem hdp))
      split
      · rename_i se sr st heq
        rw [heq] at hk
        refine h.setDisp d ⟨?_, hk.2.2⟩
        intro p s r t e rest hh
        exact (hk.2.1 p s r t e rest hh).1
      · exact h
    · exact h
  | spawn t =>
    simp only [NSt.step]
    split
    · exact h.of_eq rfl rfl
    · exact h
  | spawnAff t dst =>
    simp only [NSt.step]
    split
    · split
      · exact h.of_eq rfl rfl
      · exact h.of_eq rfl rfl
    · exact h
  | enqueue t =>
    simp only [NSt.step]
    split
    · exact h.of_eq rfl rfl
    · exact h
  | critical t =>
    simp only [NSt.step]
    split
    · exact h.of_eq rfl rfl
    · exact h
  | setIdle t b =>
    simp only [NSt.step]
    split
    · exact h.of_eq rfl rfl
    · exact h
  | resumeReq d => exact h.of_eq rfl rfl
  | newDisp =>
    simp only [NSt.step]
    refine ⟨?_, h.log⟩
    intro dp hdp
    simp only [List.mem_append, List.mem_singleton] at hdp
    rcases hdp with hdp | hdp
    · exact h.disps dp hdp
    · subst hdp
      exact ⟨by intro p s r t e rest hh; simp at hh, trivial⟩
  | attach t d =>
    simp only [NSt.step]
    split
    · exact h.of_eq rfl rfl
    · exact h
  | own t =>
    simp only [NSt.step]
    split
    · rename_i d dp pool hdp hp
      have hd := dispOf_mem hdp
      split
      · rename_i i g below hl
        split
        · exact h.exec' (by rfl) (by rfl) hd _ hl _ _
        · exact h.of_eq rfl rfl
      · exact h
    · exact h
  | steal t v =>
    simp only [NSt.step]
    split
    · rename_i d dp pool hdp hp
      have hd := dispOf_mem hdp
      split
      · rename_i i g below hl
        split
        · exact h
        · split
          · exact h.exec' (by rfl) (by rfl) hd _ hl _ _
          · split
            · exact h.of_eq rfl rfl
            · exact h.exec' (by rfl) (by rfl) hd _ hl _ _
          · exact h.of_eq rfl rfl
      · exact h
    · exact h
  | stealCrit t v k =>
    simp only [NSt.step]
    split
    · rename_i d dp pool poolT hdp hp hpt
      have hd := dispOf_mem hdp
      split
      · rename_i i g below hl
        split
        · exact h
        · split
          · split
            · exact h.doPopCrit' (by rfl) (by rfl) hd hl k
            · exact h
          · exact h
      · exact h
    · exact h
  | mailbox t =>
    simp only [NSt.step]
    split
    · rename_i d dp box hdp hb
      have hd := dispOf_mem hdp
      split
      · rename_i i g below hl
        split
        · exact h.exec' (by rfl) (by rfl) hd _ hl _ _
        · exact h.of_eq rfl rfl
      · exact h
    · exact h
  | popFifo t fa k =>
    simp only [NSt.step]
    split
    · rename_i d dp x hdp hx
      have hd := dispOf_mem hdp
      split
      · rename_i i g below hl
        split
        · exact h.exec' (by rfl) (by rfl) hd _ hl _ _
        · exact h
      · exact h
    · exact h
  | popCrit t k =>
    simp only [NSt.step]
    split
    · rename_i d dp hdp
      have hd := dispOf_mem hdp
      split
      · rename_i i g below hl
        exact h.doPopCrit hd hl k
      · exact h
    · exact h
  | popResume t k =>
    simp only [NSt.step]
    split
    · rename_i d dp target hdp hx
      have hd := dispOf_mem hdp
      split
      · rename_i i g below hl
        split
        · exact h.exec' (by rfl) (by rfl) hd _ hl _ _
        · exact h
      · exact h
    · exact h
  | bypass t k =>
    simp only [NSt.step]
    split
    · rename_i d dp pool hdp hp
      have hd := dispOf_mem hdp
      have hk := h.disps _ (getElem?_mem hd)
      split
      · rename_i i g below hl
        obtain ⟨se, sr, c, rs, hst⟩ := curLoop_spec hl
        split
        · exact h
        · split
          · split
            · exact h.doPopCrit' (by rfl) (by rfl) hd hl _
            · exact h
          · refine ⟨?_, ?_⟩
            · intro dp' h'
              rcases mem_set_cases h' with e | e
              · subst e
                refine ⟨?_, adj_setCur hk.2⟩
                intro p s' r t' e' rest hh
                simp only [setCur_top_loop hst] at hh
                cases hh
              · exact h.disps _ e
            · intro e he
              simp only [List.mem_append, List.mem_singleton] at he
              rcases he with he | he
              · exact h.log _ he
              · subst he
                intro p s' r t' x' rest hb
                simp only at hb
                have hadj := hk.2
                rw [hst] at hadj
                have := (hadj.1 p s' r t' x' rest hb).2 i g se sr c rs rfl
                refine ⟨this, ?_⟩
                simp only
                unfold NSt.liveRid
                rw [List.any_eq_true]
                refine ⟨dp, getElem?_mem hd, ?_⟩
                rw [List.any_eq_true]
                refine ⟨Fr.region p s' r t' x', ?_, by simp [Fr.hasRid, this]⟩
                rw [hst, hb]; simp
      · exact h
    · exact h
  | waitWith t k =>
    simp only [NSt.step]
    split
    · rename_i d dp pool hdp hp
      have hd := dispOf_mem hdp
      have hk := h.disps _ (getElem?_mem hd)
      have hpush : RegTop { dp with stack := Fr.loop (isoLoop dp.ed) dp.reg dp.ed dp.reg dp.ed false :: dp.stack } ∧
          AdjS (Fr.loop (isoLoop dp.ed) dp.reg dp.ed dp.reg dp.ed false :: dp.stack) := by
        refine ⟨by intro p s r t e rest hh; simp at hh, adj_push hk.2 ?_⟩
        intro p s r t e rest' hst
        have := hk.1 p s r t e rest' hst
        exact ⟨this, by intro i g se sr c rs hf; cases hf; exact this⟩
      have h0 : AInv (s.setDisp d { dp with stack := Fr.loop (isoLoop dp.ed) dp.reg dp.ed dp.reg dp.ed false :: dp.stack }) := h.setDisp d hpush
      have hd0 : (s.setDisp d { dp with stack := Fr.loop (isoLoop dp.ed) dp.reg dp.ed dp.reg dp.ed false :: dp.stack }).disps[d]? =
          some { dp with stack := Fr.loop (isoLoop dp.ed) dp.reg dp.ed dp.reg dp.ed false :: dp.stack } := by
        simp [NSt.setDisp, disps_lt hd]
      split
      · split
        · exact h0.doPopCrit' (by rfl) (by rfl) hd0 (by simp [Disp.curLoop]) _
        · exact h
      · refine ⟨h0.disps, ?_⟩
        intro e he
        simp only [NSt.setDisp, List.mem_append, List.mem_singleton] at he
        rcases he with he | he
        · exact h.log _ he
        · subst he
          intro p s' r t' x' rest hb
          simp only at hb
          have := hk.1 p s' r t' x' rest hb
          refine ⟨this, ?_⟩
          simp only
          unfold NSt.liveRid
          rw [List.any_eq_true]
          refine ⟨dp, getElem?_mem hd, ?_⟩
          rw [List.any_eq_true]
          refine ⟨Fr.region p s' r t' x', ?_, by simp [Fr.hasRid, this]⟩
          rw [hb]; simp
    · exact h

theorem AInv.run {s : NSt} (h : AInv s) (ops : List NOp) : AInv (s.run ops) := by
  induction ops generalizing s with
  | nil => exact h
  | cons o os ih => exact ih (h.step o)

end TbbVerif.C16.Nest
