/-
C16 — the market as a machine: the demand words stay consistent with the clients' requests under every sequence of
register / unregister / adjust_demand / set_active_num_workers, so the hypotheses of the allotment theorems hold in
every reachable state, and the allotment stored in the arenas is `allot` of the current words.
-/
import TbbVerif.Proofs.C16.Allot

namespace TbbVerif.C16

def reqSum (cs : List Arena) : Nat := (cs.map (·.maxW)).sum
def fstSum (l : List (Int × List Arena)) : Int := (l.map (·.1)).sum

structure MWF (m : Market) : Prop where
  lvl : ∀ p ∈ m.lv, p.1 = (reqSum p.2 : Nat)
  tot : m.totalDemand = fstSum m.lv
  shape : m.grants.map List.length = m.lv.map (·.2.length)

theorem fstSum_set : ∀ (l : List (Int × List Arena)) (i : Nat) (p : Int × List Arena) (h : i < l.length),
    fstSum (l.set i p) = fstSum l - l[i].1 + p.1
  | x :: xs, 0, p, _ => by simp [fstSum]; omega
  | x :: xs, i + 1, p, h => by
    have := fstSum_set xs i p (by simpa using h)
    simp [fstSum] at this ⊢; omega

theorem reqSum_append (cs : List Arena) (a : Arena) : reqSum (cs ++ [a]) = reqSum cs + a.maxW := by
  simp [reqSum]

theorem reqSum_set : ∀ (cs : List Arena) (i : Nat) (a : Arena) (h : i < cs.length),
    reqSum (cs.set i a) + cs[i].maxW = reqSum cs + a.maxW
  | x :: xs, 0, a, _ => by simp [reqSum]; omega
  | x :: xs, i + 1, a, h => by
    have := reqSum_set xs i a (by simpa using h)
    simp [reqSum] at this ⊢; omega

theorem reqSum_eraseIdx : ∀ (cs : List Arena) (i : Nat) (h : i < cs.length),
    reqSum (cs.eraseIdx i) + cs[i].maxW = reqSum cs
  | x :: xs, 0, _ => by simp [reqSum]; omega
  | x :: xs, i + 1, h => by
    have := reqSum_eraseIdx xs i (by simpa using h)
    simp [reqSum] at this ⊢; omega

theorem fstSum_nonneg : ∀ (l : List (Int × List Arena)), (∀ p ∈ l, 0 ≤ p.1) → 0 ≤ fstSum l
  | [], _ => by simp [fstSum]
  | x :: xs, h => by
    have hx := h x (List.mem_cons_self ..)
    have := fstSum_nonneg xs (fun p hp => h p (List.mem_cons_of_mem _ hp))
    simp [fstSum] at *; omega

theorem toNat_fstSum : ∀ (l : List (Int × List Arena)), (∀ p ∈ l, 0 ≤ p.1) →
    (fstSum l).toNat = (l.map (fun p => p.1.toNat)).sum
  | [], _ => rfl
  | x :: xs, h => by
    have hx := h x (List.mem_cons_self ..)
    have hrest : ∀ p ∈ xs, 0 ≤ p.1 := fun p hp => h p (List.mem_cons_of_mem _ hp)
    have ih := toNat_fstSum xs hrest
    have hnn : 0 ≤ fstSum xs := fstSum_nonneg xs hrest
    simp [fstSum] at ih hnn ⊢
    omega

theorem MWF.nonneg {m : Market} (h : MWF m) : ∀ p ∈ m.lv, 0 ≤ p.1 := by
  intro p hp; rw [h.lvl p hp]; omega

/-- Consistent words in the market give the hypothesis `WF` of the allotment theorems. -/
theorem MWF.wf {m : Market} (h : MWF m) : WF m.totalDemand.toNat m.levels := by
  refine ⟨?_, ?_⟩
  · rw [h.tot, toNat_fstSum _ h.nonneg]
    simp [Market.levels, List.map_map, Function.comp_def]
  · intro lv hlv
    simp only [Market.levels, List.mem_map] at hlv
    obtain ⟨p, hp, rfl⟩ := hlv
    have := h.lvl p hp
    simp only [List.map_map, Function.comp_def, Arena.client]
    show p.1.toNat = (p.2.map (·.maxW)).sum
    have e : reqSum p.2 = (p.2.map (·.maxW)).sum := rfl
    omega

theorem MWF.guard {m : Market} (h : MWF m) : ¬ (m.totalDemand < 0 ∨ m.lv.any (·.1 < 0) = true) := by
  have hnn := h.nonneg
  have htot : 0 ≤ m.totalDemand := by
    rw [h.tot]; exact fstSum_nonneg _ hnn
  intro hc
  rcases hc with hc | hc
  · omega
  · simp only [List.any_eq_true, decide_eq_true_eq] at hc
    obtain ⟨p, hp, hneg⟩ := hc
    have := hnn p hp
    omega

theorem MWF.shape_at {m : Market} (h : MWF m) {l : Nat} {d : Int} {cs : List Arena} {gs : List Grant}
    (hlv : m.lv[l]? = some (d, cs)) (hgr : m.grants[l]? = some gs) : gs.length = cs.length := by
  have hs := h.shape
  have h1 : (m.grants.map List.length)[l]? = some gs.length := by simp [hgr]
  have h2 : (m.lv.map (·.2.length))[l]? = some cs.length := by simp [hlv]
  rw [hs, h2] at h1
  simpa using h1.symm

/-! ### shapes of the outputs -/

theorem shape_of_pointwise {R : Client → Out → Prop} : ∀ {levels : List (Nat × List Client)} {oss : List (List Out)},
    Pointwise (fun lv os => Pointwise R lv.2 os) levels oss → oss.map List.length = levels.map (·.2.length)
  | [], [], _ => rfl
  | lv :: ls, os :: oss, ⟨h1, h2⟩ => by
    simp [shape_of_pointwise h2, Pointwise.length_eq h1]
  | [], _ :: _, hf => hf.elim
  | _ :: _, [], hf => hf.elim

theorem zipWith_applyOut : ∀ (gs : List Grant) (os : List Out), gs.length = os.length →
    (List.zipWith applyOut gs os).length = gs.length ∧ (List.zipWith applyOut gs os).map (·.1) = os.map (·.allotted)
  | [], [], _ => ⟨rfl, rfl⟩
  | g :: gs, o :: os, h => by
    have := zipWith_applyOut gs os (by simpa using h)
    simp [applyOut, this.1, this.2]
  | [], _ :: _, h => by simp at h
  | _ :: _, [], h => by simp at h

theorem zipWith2_applyOut : ∀ (gss : List (List Grant)) (oss : List (List Out)), gss.map List.length = oss.map List.length →
    (List.zipWith (fun gs os => List.zipWith applyOut gs os) gss oss).map List.length = gss.map List.length ∧
    (List.zipWith (fun gs os => List.zipWith applyOut gs os) gss oss).map (·.map (·.1)) = oss.map (·.map (·.allotted))
  | [], [], _ => ⟨rfl, rfl⟩
  | gs :: gss, os :: oss, h => by
    simp at h
    have h1 := zipWith_applyOut gs os h.1
    have h2 := zipWith2_applyOut gss oss h.2
    simp [h1.1, h1.2, h2.1, h2.2]
  | [], _ :: _, h => by simp at h
  | _ :: _, [], h => by simp at h

theorem levels_shape (m : Market) : m.levels.map (·.2.length) = m.lv.map (·.2.length) := by
  simp [Market.levels, List.map_map, Function.comp_def]

/-- `update_allotment` on consistent words: defined, leaves the words alone, and what it stores is `allot`. -/
theorem Market.updateAllotment_spec {m : Market} (h : MWF m) :
    ∃ m' r, m.updateAllotment = some m' ∧
      allot m.softLimit m.totalDemand.toNat m.mandatoryNum.toNat m.levels = some r ∧
      m'.allotView = r ∧ m'.lv = m.lv ∧ m'.totalDemand = m.totalDemand ∧ m'.softLimit = m.softLimit ∧
      m'.mandatoryNum = m.mandatoryNum ∧ MWF m' := by
  have hwf := h.wf
  have hg := h.guard
  have key : ∃ st oss, C16.updateAllotment m.softLimit m.totalDemand.toNat m.mandatoryNum.toNat m.levels = some (st, oss) ∧
      oss.map List.length = m.levels.map (·.2.length) := by
    rcases Nat.eq_zero_or_pos m.softLimit with hz | hs
    · obtain ⟨st, oss, hrun, _, _, _, hpw⟩ := updateAllotment_zero (total := m.totalDemand.toNat) (mand := m.mandatoryNum.toNat) m.levels
      exact ⟨st, oss, by rw [hz]; exact hrun, shape_of_pointwise hpw⟩
    · obtain ⟨st, oss, hrun, _, _, _, hpw⟩ := updateAllotment_pos (mand := m.mandatoryNum.toNat) hs hwf
      exact ⟨st, oss, hrun, shape_of_pointwise hpw⟩
  obtain ⟨st, oss, hrun, hshape⟩ := key
  have hsh : m.grants.map List.length = oss.map List.length := by
    rw [h.shape, hshape, levels_shape]
  have hz := zipWith2_applyOut m.grants oss hsh
  refine ⟨{ m with grants := List.zipWith (fun gs os => List.zipWith applyOut gs os) m.grants oss },
    oss.map (·.map (·.allotted)), ?_, ?_, ?_, rfl, rfl, rfl, rfl, ?_⟩
  · unfold Market.updateAllotment
    rw [if_neg hg, hrun]
  · simp [allot, hrun]
  · simp only [Market.allotView]; exact hz.2
  · exact ⟨h.lvl, h.tot, by simp only []; rw [hz.1, h.shape]⟩

/-! ### the operations preserve consistency -/

theorem mem_set_cases {α : Type} {l : List α} {i : Nat} {a x : α} (h : x ∈ l.set i a) : x = a ∨ x ∈ l := by
  rcases List.mem_or_eq_of_mem_set h with h | h
  · exact Or.inr h
  · exact Or.inl h

theorem Market.register_wf {m m' : Market} {id level mnw : Nat} (h : MWF m) (hr : m.register id level mnw = some m') : MWF m' := by
  unfold Market.register at hr
  split at hr
  · rename_i d cs gs _ hlv hgr
    simp at hr
    subst hr
    have hlt : level < m.lv.length := (List.getElem?_eq_some_iff.1 hlv).1
    have hget : m.lv[level] = (d, cs) := (List.getElem?_eq_some_iff.1 hlv).2
    have hglt : level < m.grants.length := (List.getElem?_eq_some_iff.1 hgr).1
    have hgget : m.grants[level] = gs := (List.getElem?_eq_some_iff.1 hgr).2
    have hmem : (d, cs) ∈ m.lv := List.mem_of_getElem? hlv
    refine ⟨?_, ?_, ?_⟩
    · intro p hp
      rcases mem_set_cases hp with rfl | hp'
      · have := h.lvl _ hmem
        simp only [reqSum_append] at this ⊢
        simpa using this
      · exact h.lvl p hp'
    · simp only []
      rw [fstSum_set _ _ _ hlt, hget, h.tot]; simp
    · simp only [List.map_set]
      have h1 : (m.grants.map List.length)[level]? = some gs.length := by simp [hgr]
      have hs := h.shape
      apply List.ext_getElem?
      intro k
      simp only [List.getElem?_set, List.length_map]
      by_cases hk : level = k
      · subst hk; simp [hlt, hglt, h.shape_at hlv hgr]
      · simp [hk]; rw [← List.getElem?_map, ← List.getElem?_map, hs]
  · simp at hr

theorem Market.unregister_wf {m m' : Market} {id : Nat} (h : MWF m) (hr : m.unregister id = some m') : MWF m' := by
  unfold Market.unregister at hr
  split at hr
  · rename_i l i _
    split at hr
    · rename_i d cs gs hlv hgr
      split at hr
      · rename_i a ha
        split at hr
        · rename_i hcond
          simp at hr
          subst hr
          have hlt : l < m.lv.length := (List.getElem?_eq_some_iff.1 hlv).1
          have hget : m.lv[l] = (d, cs) := (List.getElem?_eq_some_iff.1 hlv).2
          have hglt : l < m.grants.length := (List.getElem?_eq_some_iff.1 hgr).1
          have hilt : i < cs.length := (List.getElem?_eq_some_iff.1 ha).1
          have higet : cs[i] = a := (List.getElem?_eq_some_iff.1 ha).2
          have hmem : (d, cs) ∈ m.lv := List.mem_of_getElem? hlv
          have hshape_l : gs.length = cs.length := h.shape_at hlv hgr
          refine ⟨?_, ?_, ?_⟩
          · intro p hp
            rcases mem_set_cases hp with rfl | hp'
            · have := h.lvl _ hmem
              have he := reqSum_eraseIdx cs i hilt
              rw [higet, hcond.1] at he
              simp only at this ⊢
              omega
            · exact h.lvl p hp'
          · simp only []
            rw [fstSum_set _ _ _ hlt, hget, h.tot]; simp
          · simp only [List.map_set]
            have hs := h.shape
            apply List.ext_getElem?
            intro k
            simp only [List.getElem?_set, List.length_map]
            by_cases hk : l = k
            · subst hk
              simp [hlt, hglt, List.length_eraseIdx, hilt, hshape_l]
            · simp [hk]; rw [← List.getElem?_map, ← List.getElem?_map, hs]
        · simp at hr
      · simp at hr
    · simp at hr
  · simp at hr

theorem Market.request_wf {m m' : Market} {l i : Nat} {md wd delta : Int} (h : MWF m)
    (hr : m.request l i md wd = some (m', delta)) : MWF m' := by
  unfold Market.request at hr
  split at hr
  · rename_i d cs hlv
    split at hr
    · rename_i a ha
      simp at hr
      obtain ⟨hm, _⟩ := hr
      subst hm
      have hlt : l < m.lv.length := (List.getElem?_eq_some_iff.1 hlv).1
      have hget : m.lv[l] = (d, cs) := (List.getElem?_eq_some_iff.1 hlv).2
      have hilt : i < cs.length := (List.getElem?_eq_some_iff.1 ha).1
      have higet : cs[i] = a := (List.getElem?_eq_some_iff.1 ha).2
      have hmem : (d, cs) ∈ m.lv := List.mem_of_getElem? hlv
      have hdelta : (a.updateRequest md wd).2 = ((a.updateRequest md wd).1.maxW : Int) - (a.maxW : Int) := by
        simp [Arena.updateRequest]
      refine ⟨?_, ?_, ?_⟩
      · intro p hp
        rcases mem_set_cases hp with rfl | hp'
        · have := h.lvl _ hmem
          have he := reqSum_set cs i (a.updateRequest md wd).1 hilt
          rw [higet] at he
          simp only at this ⊢
          rw [hdelta]
          omega
        · exact h.lvl p hp'
      · simp only []
        rw [fstSum_set _ _ _ hlt, hget, h.tot]; simp; omega
      · simp only [List.map_set]
        have hs := h.shape
        rw [hs]
        apply List.ext_getElem?
        intro k
        simp only [List.getElem?_set, List.length_map]
        by_cases hk : l = k
        · subst hk; simp [hlt, hget]
        · simp [hk]
    · simp at hr
  · simp at hr

theorem Market.adjust_wf {m m' : Market} {l i : Nat} {md wd delta : Int} (h : MWF m)
    (hr : m.adjust l i md wd = some (m', delta)) :
    MWF m' ∧ allot m'.softLimit m'.totalDemand.toNat m'.mandatoryNum.toNat m'.levels = some m'.allotView := by
  unfold Market.adjust at hr
  split at hr
  · rename_i m1 d1 hreq
    have h1 := Market.request_wf h hreq
    obtain ⟨m2, r, hup, hal, hview, hlv, htot, hsoft, hmand, hwf2⟩ := Market.updateAllotment_spec h1
    rw [hup] at hr
    simp at hr
    obtain ⟨rfl, _⟩ := hr
    refine ⟨hwf2, ?_⟩
    have hlev : m2.levels = m1.levels := by simp [Market.levels, hlv]
    rw [hlev, htot, hsoft, hmand, hview]; exact hal
  · simp at hr

theorem Market.setLimit_wf {m m' : Market} {n : Nat} (h : MWF m) (hr : m.setLimit n = some m') :
    MWF m' ∧ (m.softLimit ≠ n → allot m'.softLimit m'.totalDemand.toNat m'.mandatoryNum.toNat m'.levels = some m'.allotView) := by
  unfold Market.setLimit at hr
  split at hr
  · rename_i hne
    have h1 : MWF { m with softLimit := n } := ⟨h.lvl, h.tot, h.shape⟩
    obtain ⟨m2, r, hup, hal, hview, hlv, htot, hsoft, hmand, hwf2⟩ := Market.updateAllotment_spec h1
    rw [hup] at hr
    simp at hr
    subst hr
    refine ⟨hwf2, fun _ => ?_⟩
    have hlev : m2.levels = ({ m with softLimit := n } : Market).levels := by simp [Market.levels, hlv]
    rw [hlev, htot, hsoft, hmand, hview]; exact hal
  · rename_i heq
    simp at hr
    subst hr
    exact ⟨h, fun hne => absurd hne heq⟩

theorem MWF.init (soft : Nat) : MWF (Market.init soft) := by
  refine ⟨?_, ?_, ?_⟩
  · intro p hp
    simp only [Market.init, List.mem_replicate] at hp
    rw [hp.2]; rfl
  · simp only [Market.init, fstSum]
    induction Generated.C16.numPriorityLevels with
    | zero => rfl
    | succ n ih => simp [List.replicate_succ] at ih ⊢
  · simp [Market.init]

theorem World.step_wf {w w' : World} {o : WOp} (h : MWF w.market) (hs : w.step o = some w') : MWF w'.market := by
  cases o with
  | reg id level mnw =>
    simp only [World.step, Option.map_eq_some_iff] at hs
    obtain ⟨m, hm, rfl⟩ := hs
    exact Market.register_wf h hm
  | unreg id =>
    simp only [World.step, Option.map_eq_some_iff] at hs
    obtain ⟨m, hm, rfl⟩ := hs
    exact Market.unregister_wf h hm
  | adjust id md wd =>
    simp only [World.step] at hs
    split at hs
    · simp at hs
    · split at hs
      · split at hs
        · rename_i m2 delta hadj
          simp at hs
          subst hs
          exact (Market.adjust_wf h hadj).1
        · simp at hs
      · simp at hs
  | setLimit n =>
    simp only [World.step] at hs
    split at hs
    · rename_i m2 hm
      simp at hs
      subst hs
      exact (Market.setLimit_wf h hm).1
    · simp at hs

theorem World.run_wf : ∀ (ops : List WOp) (w w' : World), MWF w.market → w.run ops = some w' → MWF w'.market
  | [], w, w', h, hr => by simp [World.run] at hr; subst hr; exact h
  | o :: os, w, w', h, hr => by
    simp only [World.run] at hr
    split at hr
    · rename_i w1 hs
      exact World.run_wf os w1 w' (World.step_wf h hs) hr
    · simp at hr

end TbbVerif.C16
