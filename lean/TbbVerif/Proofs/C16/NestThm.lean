/-
C16 nested isolation — consequences of `NInv` used by the property theorems: restore on exit, the isolation word as a function of
the frame stack, stack switches.
-/
import TbbVerif.Proofs.C16.NestTake

set_option linter.unusedSimpArgs false

namespace TbbVerif.C16.Nest
open TbbVerif.Generated.C16

theorem NInv.reach (n : Nat) (ops : List NOp) : NInv ((NSt.init n).run ops) := (NInv.init n).run ops

theorem disps_lt {s : NSt} {d : Nat} {dp : Disp} (hd : s.disps[d]? = some dp) : d < s.disps.length := by
  rcases Nat.lt_or_ge d s.disps.length with hh | hh
  · exact hh
  · rw [List.getElem?_eq_none hh] at hd; cases hd

theorem dispOf_setDisp {s : NSt} {t d : Nat} {dp dp' : Disp} (h : s.dispOf t = some (d, dp)) :
    (s.setDisp d dp').dispOf t = some (d, dp') := by
  have hlt := disps_lt (dispOf_mem h)
  unfold NSt.dispOf at h ⊢
  simp only [NSt.setDisp]
  split at h
  · rename_i d' hc
    cases hd' : s.disps[d']? with
    | none => simp [hd'] at h
    | some dq =>
      simp [hd'] at h
      obtain ⟨rfl, rfl⟩ := h
      simp [hc, hlt]
  · simp at h

/-- `isolate_within_arena` returns (normally or by exception) on a dispatcher whose stack is the call's region frame on top of the
stack `st0` it was called on (word `ed0` then): afterwards the dispatcher carries `ed0` and `st0` again. -/
theorem restored {s0 s2 : NSt} (i0 : NInv s0) (i2 : NInv s2) {t d : Nat} {dp0 dp2 : Disp}
    (h0 : s0.dispOf t = some (d, dp0)) (h2 : s2.dispOf t = some (d, dp2)) {p sr r tg : Nat} {e : Bool}
    (hst : dp2.stack = Fr.region p sr r tg e :: dp0.stack) (thrown : Bool) :
    (s2.step (.endIsolate t thrown)).dispOf t = some (d, { ed := dp0.ed, reg := sr, stack := dp0.stack }) ∧ dp0.ed = ctxTag dp0.stack := by
  have k0 := i0.disps _ (getElem?_mem (dispOf_mem h0))
  have k2 := i2.disps _ (getElem?_mem (dispOf_mem h2))
  have hw := k2.2.2.2.2
  rw [hst] at hw
  have hp : p = dp0.ed := by rw [k0.2.2.2.1]; exact hw.1
  refine ⟨?_, k0.2.2.2.1⟩
  simp only [NSt.step, h2, hst]
  have hrest : (if (if thrown = true then isoRestoreOnThrow else isoRestoreOnReturn) = true then isolateRestore p else dp2.ed) = dp0.ed := by
    cases thrown <;> simp [gen_restoreReturn, gen_restoreThrow, Iso.gen_isolateRestore, hp]
  rw [hrest]
  exact dispOf_setDisp h2

theorem wait_after {s : NSt} {t d : Nat} {dp : Disp} (h : s.dispOf t = some (d, dp)) :
    (s.step (.wait t)).dispOf t = some (d, { dp with stack := .loop dp.ed dp.reg dp.ed dp.reg dp.ed false :: dp.stack }) := by
  simp only [NSt.step, h, Iso.gen_loop]
  exact dispOf_setDisp h

/-- taking a resume task touches the taker's dispatcher only; attaching touches none -/
theorem popResume_others {s : NSt} {t k d : Nat} {dp : Disp} (h : s.dispOf t = some (d, dp)) (d' : Nat) (hne : d' ≠ d) :
    (s.step (.popResume t k)).disps[d']? = s.disps[d']? := by
  simp only [NSt.step, h]
  split
  · rename_i d2 dp2 target heq _
    simp only [Option.some.injEq, Prod.mk.injEq] at heq
    obtain ⟨rfl, rfl⟩ := heq
    split
    · split
      · simp only [NSt.exec]
        rw [List.getElem?_set_ne (Ne.symm hne)]
      · rfl
    · rfl
  · rfl

theorem attach_disps (s : NSt) (t d : Nat) : (s.step (.attach t d)).disps = s.disps := by
  simp only [NSt.step]
  split <;> rfl

end TbbVerif.C16.Nest
