/-
C16 — market + serializer as wired by `threading_control_impl`: in every reachable state the thread dispatcher has been
asked for exactly `min(effective soft limit, total demand)` workers (`workers_within_budget`).
-/
import TbbVerif.Proofs.C16.Machine
import TbbVerif.Proofs.C16.Serializer

namespace TbbVerif.C16

/-- Serializer-proxy invariant relative to the user-level limit `L` (last `set_active_num_workers` argument). -/
structure PxInv (p : Proxy) (L : Nat) : Prop where
  en : p.enabled = true ↔ (L = 0 ∧ 0 < p.numMandatory)
  soft : p.ser.softLimit = if p.enabled then 1 else (L : Int)
  handed : p.ser.handed = min p.ser.softLimit p.ser.totalRequest
  pend : p.ser.pending = Pack.base

theorem ser_setLimit_facts (s : Serializer) (l : Int) (h : s.handed = min s.softLimit s.totalRequest) :
    (s.setLimit l).1.handed = min (s.setLimit l).1.softLimit (s.setLimit l).1.totalRequest ∧
    (s.setLimit l).1.softLimit = l ∧ (s.setLimit l).1.totalRequest = s.totalRequest ∧ (s.setLimit l).1.pending = s.pending := by
  have := Serializer.setLimit_handed s l
  exact ⟨by omega, this.2.2.1, this.2.1, this.2.2.2⟩

theorem PxInv.setLimit {p : Proxy} {L : Nat} (h : PxInv p L) (n : Nat) :
    PxInv (p.setLimit n) n ∧ (p.setLimit n).ser.totalRequest = p.ser.totalRequest ∧ (p.setLimit n).numMandatory = p.numMandatory := by
  unfold Proxy.setLimit
  split
  · rename_i hn
    have f := ser_setLimit_facts p.ser n h.handed
    refine ⟨⟨by simp; omega, by simp [f.2.1], f.1, by simp only []; rw [f.2.2.2]; exact h.pend⟩, f.2.2.1, rfl⟩
  · rename_i hn
    have hn0 : n = 0 := by omega
    subst hn0
    split
    · rename_i hm
      have f := ser_setLimit_facts p.ser 1 h.handed
      refine ⟨⟨by simp; exact hm, by simp [f.2.1], f.1, by simp only []; rw [f.2.2.2]; exact h.pend⟩, f.2.2.1, rfl⟩
    · rename_i hm
      have f := ser_setLimit_facts p.ser 0 h.handed
      have hen : p.enabled = false := by
        cases he : p.enabled with
        | false => rfl
        | true => exact absurd (h.en.1 he).2 hm
      refine ⟨⟨by simp [hen]; omega, by simp [f.2.1, hen], f.1, by simp only []; rw [f.2.2.2]; exact h.pend⟩, f.2.2.1, rfl⟩

/-- `enabled`, the serializer and the count after a `register_mandatory_request` that changes neither flag nor limit. -/
theorem PxInv.keep {p p' : Proxy} {L : Nat} (h : PxInv p L) (hs : p'.ser = p.ser) (he : p'.enabled = p.enabled)
    (hiff : p.enabled = true ↔ (L = 0 ∧ 0 < p'.numMandatory)) : PxInv p' L :=
  ⟨by rw [he]; exact hiff, by rw [hs, he]; exact h.soft, by rw [hs]; exact h.handed, by rw [hs]; exact h.pend⟩

theorem PxInv.enable {p p' : Proxy} {L : Nat} (h : PxInv p L) (hs : p'.ser = (p.ser.setLimit 1).1) (he : p'.enabled = true)
    (hL : L = 0 ∧ 0 < p'.numMandatory) : PxInv p' L := by
  have f := ser_setLimit_facts p.ser 1 h.handed
  exact ⟨by rw [he]; simp [hL], by rw [hs, he, f.2.1]; simp, by rw [hs]; exact f.1, by rw [hs, f.2.2.2]; exact h.pend⟩

theorem PxInv.disable {p p' : Proxy} {L : Nat} (h : PxInv p L) (hs : p'.ser = (p.ser.setLimit 0).1) (he : p'.enabled = false)
    (hL : L = 0 ∧ p'.numMandatory ≤ 0) : PxInv p' L := by
  have f := ser_setLimit_facts p.ser 0 h.handed
  refine ⟨by rw [he]; simp; intro; omega, by rw [hs, he, f.2.1]; simp [hL.1], by rw [hs]; exact f.1, by rw [hs, f.2.2.2]; exact h.pend⟩

theorem PxInv.registerMandatory {p : Proxy} {L : Nat} (h : PxInv p L) (md : Int) (hmd : -1 ≤ md ∧ md ≤ 1) :
    PxInv (p.registerMandatory md) L ∧ (p.registerMandatory md).ser.totalRequest = p.ser.totalRequest ∧
    (p.registerMandatory md).numMandatory = p.numMandatory + md := by
  have hen := h.en
  have hsoft := h.soft
  have f1 := ser_setLimit_facts p.ser 1 h.handed
  have f0 := ser_setLimit_facts p.ser 0 h.handed
  unfold Proxy.registerMandatory
  split
  · rename_i h0; subst h0; exact ⟨h, rfl, by omega⟩
  · simp only
    split
    · rename_i hc1
      split
      · rename_i hc2
        -- enable
        have hsz : p.ser.softLimit = 0 := hc2.2.2
        have hne : p.enabled = false := by simpa using hc2.2.1
        rw [hne] at hsoft
        simp at hsoft
        have hL : L = 0 := by omega
        exact ⟨PxInv.enable h rfl rfl ⟨hL, hc2.1⟩, f1.2.2.1, rfl⟩
      · rename_i hc2
        refine ⟨PxInv.keep h rfl rfl ?_, rfl, rfl⟩
        simp only
        cases he : p.enabled with
        | true => have := (hen.1 he); omega
        | false =>
          rw [he] at hsoft; simp at hsoft
          simp only [he, Bool.not_false, true_and] at hc2
          constructor
          · intro hf; simp at hf
          · intro hL; exfalso; apply hc2; exact ⟨by omega, by omega⟩
    · rename_i hc1
      split
      · rename_i hc3
        split
        · rename_i hc4
          -- disable
          have he : p.enabled = true := hc4.2.1
          have hL := (hen.1 he).1
          exact ⟨PxInv.disable h rfl rfl ⟨hL, hc4.1⟩, f0.2.2.1, rfl⟩
        · rename_i hc4
          refine ⟨PxInv.keep h rfl rfl ?_, rfl, rfl⟩
          simp only
          cases he : p.enabled with
          | true =>
            rw [he] at hsoft; simp at hsoft
            exfalso; apply hc4; exact ⟨by omega, he, by omega⟩
          | false =>
            constructor
            · intro hf; simp at hf
            · intro hL
              have : ¬ (L = 0 ∧ 0 < p.numMandatory) := fun hc => by have := hen.2 hc; rw [he] at this; simp at this
              exfalso; apply this; exact ⟨hL.1, by omega⟩
      · rename_i hc3
        refine ⟨PxInv.keep h rfl rfl ?_, rfl, rfl⟩
        simp only
        constructor
        · intro he; have := hen.1 he; exact ⟨this.1, by omega⟩
        · intro hL; apply hen.2; exact ⟨hL.1, by omega⟩

theorem PxInv.update {p : Proxy} {L : Nat} (h : PxInv p L) (d : Int) (h0 : -(Pack.base : Int) ≤ d) (h1 : d < (Pack.base : Int)) :
    PxInv { p with ser := (p.ser.update d).1 } L ∧ (p.ser.update d).1.totalRequest = p.ser.totalRequest + d := by
  have hu := Serializer.update_eq_apply p.ser d h.pend h0 h1
  have ha := Serializer.apply_handed p.ser d
  rw [hu]
  refine ⟨⟨h.en, by simp only []; rw [ha.2.2.1]; exact h.soft, ?_, by simp only []; rw [ha.2.2.2]; exact h.pend⟩, ha.2.1⟩
  have := h.handed
  simp only []
  omega

/-- All arenas are small enough for the packed delta field (`my_max_num_workers < pending_delta_base`). -/
def Market.small (m : Market) : Prop := ∀ p ∈ m.lv, ∀ a ∈ p.2, a.maxNumWorkers < Pack.base ∧ (a.maxW : Int) ≤ max (a.maxNumWorkers : Int) 1

structure WInv (w : World) : Prop where
  mwf : MWF w.market
  px : PxInv w.proxy w.userLimit
  mand : w.proxy.numMandatory = w.market.mandatoryNum
  lim : w.market.softLimit = w.userLimit
  tot : w.proxy.ser.totalRequest = w.market.totalDemand
  small : w.market.small

theorem WInv.init (soft : Nat) : WInv (World.init soft) := by
  refine ⟨MWF.init soft, ⟨by simp [World.init], by simp [World.init], ?_, rfl⟩, rfl, rfl, rfl, ?_⟩
  · simp only [World.init]; omega
  · intro p hp a ha
    simp only [World.init, Market.init, List.mem_replicate] at hp
    rw [hp.2] at ha; simp at ha

theorem updateAllotment_small {m m' : Market} (h : m.updateAllotment = some m') (hs : m.small) : m'.small := by
  unfold Market.updateAllotment at h
  split at h
  · simp at h
  · split at h
    · simp at h
    · simp at h; subst h; exact hs

theorem updateAllotment_words {m m' : Market} (h : m.updateAllotment = some m') :
    m'.lv = m.lv ∧ m'.totalDemand = m.totalDemand ∧ m'.softLimit = m.softLimit ∧ m'.mandatoryNum = m.mandatoryNum := by
  unfold Market.updateAllotment at h
  split at h
  · simp at h
  · split at h
    · simp at h
    · simp at h; subst h; exact ⟨rfl, rfl, rfl, rfl⟩

theorem updateRequest_small (a : Arena) (md wd : Int) (ha : a.maxNumWorkers < Pack.base ∧ (a.maxW : Int) ≤ max (a.maxNumWorkers : Int) 1) :
    let r := a.updateRequest md wd
    (r.1.maxNumWorkers < Pack.base ∧ (r.1.maxW : Int) ≤ max (r.1.maxNumWorkers : Int) 1) ∧
    -(Pack.base : Int) ≤ r.2 ∧ r.2 < (Pack.base : Int) := by
  have hb : 2 ≤ Pack.base := by decide
  simp only [Arena.updateRequest, clampI]
  refine ⟨⟨ha.1, ?_⟩, ?_, ?_⟩ <;> (repeat' split) <;> omega

/-! projection lemmas with variable fields (rewriting with them keeps the kernel from comparing `Serializer.update`
terms structurally) -/
theorem World.market_mk (m : Market) (p : Proxy) (u : Nat) : (World.mk m p u).market = m := rfl
theorem World.proxy_mk (m : Market) (p : Proxy) (u : Nat) : (World.mk m p u).proxy = p := rfl
theorem World.userLimit_mk (m : Market) (p : Proxy) (u : Nat) : (World.mk m p u).userLimit = u := rfl
theorem Proxy.ser_mk (s : Serializer) (n : Int) (e : Bool) : (Proxy.mk s n e).ser = s := rfl
theorem Proxy.numMandatory_mk (s : Serializer) (n : Int) (e : Bool) : (Proxy.mk s n e).numMandatory = n := rfl

theorem World.step_inv {w w' : World} {o : WOp} (h : WInv w) (hs : w.step o = some w')
    (hsmall : ∀ id level mnw, o = .reg id level mnw → mnw < Pack.base) : WInv w' := by
  have hmwf := World.step_wf h.mwf hs
  cases o with
  | reg id level mnw =>
    simp only [World.step, Option.map_eq_some_iff] at hs
    obtain ⟨m, hm, rfl⟩ := hs
    have hmn := hsmall id level mnw rfl
    unfold Market.register at hm
    split at hm
    · rename_i d cs gs _ hlv hgr
      simp at hm; subst hm
      refine ⟨hmwf, h.px, h.mand, h.lim, h.tot, ?_⟩
      intro p hp a ha
      rcases mem_set_cases hp with rfl | hp'
      · simp only [List.mem_append, List.mem_singleton] at ha
        rcases ha with ha | rfl
        · exact h.small _ (List.mem_of_getElem? hlv) a ha
        · simp; omega
      · exact h.small p hp' a ha
    · simp at hm
  | unreg id =>
    simp only [World.step, Option.map_eq_some_iff] at hs
    obtain ⟨m, hm, rfl⟩ := hs
    unfold Market.unregister at hm
    split at hm
    · split at hm
      · rename_i d cs gs hlv hgr
        split at hm
        · split at hm
          · simp at hm; subst hm
            refine ⟨hmwf, h.px, h.mand, h.lim, h.tot, ?_⟩
            intro p hp a ha
            rcases mem_set_cases hp with rfl | hp'
            · exact h.small _ (List.mem_of_getElem? hlv) a (List.mem_of_mem_eraseIdx ha)
            · exact h.small p hp' a ha
          · simp at hm
        · simp at hm
      · simp at hm
    · simp at hm
  | adjust id md wd =>
    simp only [World.step] at hs
    split at hs
    · simp at hs
    · rename_i hmd
      split at hs
      · rename_i l i _
        split at hs
        · rename_i m2 delta hadj
          simp at hs; subst hs
          have hmd' : -1 ≤ md ∧ md ≤ 1 := by omega
          obtain ⟨hp1, hp1t, hp1m⟩ := h.px.registerMandatory md hmd'
          have hm2 : MWF m2 := (Market.adjust_wf h.mwf hadj).1
          -- unfold the market side
          unfold Market.adjust at hadj
          split at hadj
          · rename_i m1 d1 hreq
            simp only [Option.map_eq_some_iff] at hadj
            obtain ⟨m2', hup, heq⟩ := hadj
            simp at heq; obtain ⟨rfl, rfl⟩ := heq
            have hw := updateAllotment_words hup
            unfold Market.request at hreq
            split at hreq
            · rename_i d cs hlv
              split at hreq
              · rename_i a ha
                simp at hreq
                obtain ⟨rfl, rfl⟩ := hreq
                have hmem : (d, cs) ∈ w.market.lv := List.mem_of_getElem? hlv
                have hamem : a ∈ cs := List.mem_of_getElem? ha
                have hsm := updateRequest_small a md wd (h.small _ hmem a hamem)
                simp only at hsm
                have hsmall1 : Market.small { w.market with
                    totalDemand := w.market.totalDemand + (a.updateRequest md wd).2
                    mandatoryNum := w.market.mandatoryNum + md
                    lv := w.market.lv.set l (d + (a.updateRequest md wd).2, cs.set i (a.updateRequest md wd).1) } := by
                  intro p hp b hb
                  rcases mem_set_cases hp with rfl | hp'
                  · rcases mem_set_cases hb with rfl | hb'
                    · exact hsm.1
                    · exact h.small _ hmem b hb'
                  · exact h.small p hp' b hb
                have hsmall2 := updateAllotment_small hup hsmall1
                simp only [] at hw
                by_cases hd : (a.updateRequest md wd).2 = 0
                · rw [if_pos hd]
                  refine ⟨hmwf, hp1, ?_, ?_, ?_, hsmall2⟩
                  · show (w.proxy.registerMandatory md).numMandatory = m2'.mandatoryNum
                    rw [hp1m, hw.2.2.2, h.mand]
                  · show m2'.softLimit = w.userLimit
                    rw [hw.2.2.1]; exact h.lim
                  · show (w.proxy.registerMandatory md).ser.totalRequest = m2'.totalDemand
                    rw [hp1t, hw.2.1, h.tot, hd]; simp
                · rw [if_neg hd]
                  obtain ⟨hp2, hp2t⟩ := hp1.update (a.updateRequest md wd).2 hsm.2.1 hsm.2.2
                  refine ⟨?_, ?_, ?_, ?_, ?_, ?_⟩
                  · rw [World.market_mk]; exact hm2
                  · rw [World.proxy_mk, World.userLimit_mk]; exact hp2
                  · rw [World.proxy_mk, World.market_mk, Proxy.numMandatory_mk, hp1m, hw.2.2.2, h.mand]
                  · rw [World.market_mk, World.userLimit_mk, hw.2.2.1]; exact h.lim
                  · rw [World.proxy_mk, World.market_mk, Proxy.ser_mk, hp2t, hp1t, hw.2.1, h.tot]
                  · rw [World.market_mk]; exact hsmall2
              · simp at hreq
            · simp at hreq
          · simp at hadj
        · simp at hs
      · simp at hs
  | setLimit n =>
    simp only [World.step] at hs
    split at hs
    · rename_i m2 hm
      simp at hs; subst hs
      obtain ⟨hp1, hp1t, hp1m⟩ := h.px.setLimit n
      unfold Market.setLimit at hm
      split at hm
      · have hw := updateAllotment_words hm
        have hsm := updateAllotment_small hm (show Market.small { w.market with softLimit := n } from h.small)
        exact ⟨hmwf, hp1, by rw [hp1m, hw.2.2.2]; exact h.mand, hw.2.2.1, by rw [hp1t, hw.2.1]; exact h.tot, hsm⟩
      · rename_i heq
        simp at hm; subst hm
        have : w.market.softLimit = n := by simpa using heq
        exact ⟨hmwf, hp1, by rw [hp1m]; exact h.mand, this, by rw [hp1t]; exact h.tot, h.small⟩
    · simp at hs

def WOp.small : WOp → Prop
  | .reg _ _ mnw => mnw < Pack.base
  | _ => True

theorem World.run_inv : ∀ (ops : List WOp) (w w' : World), WInv w → (∀ o ∈ ops, o.small) → w.run ops = some w' → WInv w'
  | [], w, w', h, _, hr => by simp [World.run] at hr; subst hr; exact h
  | o :: os, w, w', h, hsm, hr => by
    simp only [World.run] at hr
    split at hr
    · rename_i w1 hs
      have ho := hsm o (List.mem_cons_self ..)
      have h1 := World.step_inv h hs (fun id level mnw he => by subst he; exact ho)
      exact World.run_inv os w1 w' h1 (fun o' h' => hsm o' (List.mem_cons_of_mem _ h')) hr
    · simp at hr

end TbbVerif.C16
