/-
C16 (second half) — the mandatory-concurrency flag of an arena and the three counters that mirror it
(`arena::my_mandatory_requests`, the market's and the serializer proxy's mandatory counts): inductive invariant over
every interleaving of any number of threads, the state at rest, and withdrawal of the request by `out_of_work`.
-/
import TbbVerif.Model.C16Mand

namespace TbbVerif.C16.Mand
open TbbVerif TbbVerif.C16 TbbVerif.Generated.C16

/-! ## 0. What is used of the generated decisions (everything below depends on them only through these lemmas) -/

theorem gen_advMandDelta : ∀ m, advMandDelta m = if m then 1 else 0 := by intro m; cases m <;> rfl
theorem gen_oowMandDelta : ∀ m, oowMandDelta m = if m then -1 else 0 := by intro m; cases m <;> rfl
theorem gen_advReports : ∀ m w, advReports m w = false → m = false := by intro m w; cases m <;> cases w <;> decide
theorem gen_oowReports : ∀ m w, oowReports m w = false → m = false := by intro m w; cases m <;> cases w <;> decide
theorem gen_oowMandPred : ∀ h, oowMandPred h = !h := by intro h; cases h <;> rfl

attribute [local irreducible] advMandCond advReports advMandDelta advWorkersDelta advOverrideCond advOverrideVal
  oowMandPred oowPoolPred oowReports oowMandDelta oowWorkersDelta oowOverrideCond oowOverrideVal arenaWorkerless leaveCallsOow

theorem oowReports_true (w : Bool) : oowReports true w = true := by
  cases h : oowReports true w
  · exact absurd (gen_oowReports _ _ h) (by decide)
  · rfl

/-! ## 1. Sums over the thread list -/

theorem sum_set (f : MTh → Int) : ∀ (l : List MTh) (i : Nat) (a b : MTh), l[i]? = some a →
    ((l.set i b).map f).sum = (l.map f).sum - f a + f b
  | [], _, _, _, h => by simp at h
  | x :: xs, 0, a, b, h => by
    simp at h; subst h; simp; omega
  | x :: xs, i + 1, a, b, h => by
    have := sum_set f xs i a b (by simpa using h)
    simp at this ⊢; omega

theorem sum_zero (f : MTh → Int) : ∀ (l : List MTh), (∀ th ∈ l, f th = 0) → (l.map f).sum = 0
  | [], _ => by simp
  | x :: xs, h => by
    have h1 := h x (by simp)
    have h2 := sum_zero f xs (fun th hth => h th (by simp [hth]))
    simp [h1, h2]

/-! ## 2. Per-thread invariant -/

/-- program counters at which the thread owns the busy value of the flag `m` -/
def ownPc (m : Bool) : Pc → Bool
  | .clrPred m' => m' == m
  | .clrFin m' _ => m' == m
  | _ => false

/-- what a thread record satisfies at each program counter -/
def thOk (th : MTh) : Prop :=
  match th.pc with
  | .push => th.adv = true → th.mRes = false
  | .tasLoad true => th.adv = true
  | .tasCasU true => th.adv = true
  | .tasCasB m seen => seen ≠ .unset ∧ (m = true → th.adv = true)
  | .clrLoad true => th.adv = false
  | .clrCas true => th.adv = false
  | .clrPred true => th.adv = false
  | .clrFin true _ => th.adv = false
  | .testLoad => th.adv = false
  | _ => True

theorem decided_zero (th : MTh) (h : th.mRes = false) : decided th = 0 := by
  simp [decided, h, gen_advMandDelta, gen_oowMandDelta]

/-! ### finishOp / flagDone -/

theorem finishOp_pc (cfg : MCfg) (th : MTh) :
    ((finishOp cfg th).pc = .reqSer ∧ (finishOp cfg th).md = decided th) ∨
    ((finishOp cfg th).pc = .idle ∧ decided th = 0) := by
  unfold finishOp
  cases ha : th.adv
  · cases hr : oowReports th.mRes th.wRes
    · right; simp [decided_zero th (gen_oowReports _ _ hr)]
    · left; simp [decided, ha]
  · cases hr : advReports th.mRes th.wRes
    · right; simp [decided_zero th (gen_advReports _ _ hr)]
    · left; simp [decided, ha]

theorem finishOp_prog (cfg : MCfg) (th : MTh) : (finishOp cfg th).prog = th.prog := by
  unfold finishOp; split <;> split <;> rfl

@[simp] theorem inflightMkt_finishOp (cfg : MCfg) (th : MTh) : inflightMkt (finishOp cfg th) = decided th := by
  rcases finishOp_pc cfg th with ⟨h1, h2⟩ | ⟨h1, h2⟩ <;> simp [inflightMkt, h1, h2, poolPhase]

@[simp] theorem inflightSer_finishOp (cfg : MCfg) (th : MTh) : inflightSer (finishOp cfg th) = decided th := by
  rcases finishOp_pc cfg th with ⟨h1, h2⟩ | ⟨h1, h2⟩ <;> simp [inflightSer, h1, h2, poolPhase]

@[simp] theorem thOk_finishOp (cfg : MCfg) (th : MTh) : thOk (finishOp cfg th) := by
  rcases finishOp_pc cfg th with ⟨h1, _⟩ | ⟨h1, _⟩ <;> simp [thOk, h1]

@[simp] theorem ownPc_finishOp (cfg : MCfg) (th : MTh) (m : Bool) : ownPc m (finishOp cfg th).pc = false := by
  rcases finishOp_pc cfg th with ⟨h1, _⟩ | ⟨h1, _⟩ <;> simp [ownPc, h1]

/-- the delta decided by a mandatory-flag operation that returned `r` -/
def decidedR (adv r : Bool) : Int := if adv then advMandDelta r else oowMandDelta r

@[simp] theorem decidedR_false (adv : Bool) : decidedR adv false = 0 := by
  cases adv <;> simp [decidedR, gen_advMandDelta, gen_oowMandDelta]
@[simp] theorem decidedR_adv : decidedR true true = 1 := by simp [decidedR, gen_advMandDelta]
@[simp] theorem decidedR_oow : decidedR false true = -1 := by simp [decidedR, gen_oowMandDelta]

@[simp] theorem inflightMkt_flagDone (cfg : MCfg) (th : MTh) (m r : Bool) :
    inflightMkt (flagDone cfg th m r) = if m then decidedR th.adv r else decided th := by
  cases m
  · simp [flagDone, decided]
  · cases ha : th.adv <;> simp [flagDone, ha, inflightMkt, poolPhase, decided, decidedR]

@[simp] theorem inflightSer_flagDone (cfg : MCfg) (th : MTh) (m r : Bool) :
    inflightSer (flagDone cfg th m r) = if m then decidedR th.adv r else decided th := by
  cases m
  · simp [flagDone, decided]
  · cases ha : th.adv <;> simp [flagDone, ha, inflightSer, poolPhase, decided, decidedR]

@[simp] theorem thOk_flagDone (cfg : MCfg) (th : MTh) (m r : Bool) : thOk (flagDone cfg th m r) := by
  cases m
  · simp [flagDone]
  · cases ha : th.adv <;> simp [flagDone, ha, thOk]

@[simp] theorem ownPc_flagDone (cfg : MCfg) (th : MTh) (m r m' : Bool) : ownPc m' (flagDone cfg th m r).pc = false := by
  cases m
  · simp [flagDone]
  · cases ha : th.adv <;> simp [flagDone, ha, ownPc]

/-! ### flag accessors -/

@[simp] theorem flag_setFlag (sh : MSh) (m k : Bool) (f : Flag) :
    (sh.setFlag m f).flag k = if k = m then f else sh.flag k := by
  cases m <;> cases k <;> simp [MSh.setFlag, MSh.flag]
@[simp] theorem arena_setFlag (sh : MSh) (m : Bool) (f : Flag) : (sh.setFlag m f).arena = sh.arena := by
  cases m <;> rfl
@[simp] theorem marketMand_setFlag (sh : MSh) (m : Bool) (f : Flag) : (sh.setFlag m f).marketMand = sh.marketMand := by
  cases m <;> rfl
@[simp] theorem proxyMand_setFlag (sh : MSh) (m : Bool) (f : Flag) : (sh.setFlag m f).proxyMand = sh.proxyMand := by
  cases m <;> rfl
@[simp] theorem hasEnq_setFlag (sh : MSh) (m : Bool) (f : Flag) : (sh.setFlag m f).hasEnq = sh.hasEnq := by
  cases m <;> rfl
theorem mand_eq_flag (sh : MSh) : sh.mand = sh.flag true := rfl
theorem pool_eq_flag (sh : MSh) : sh.pool = sh.flag false := rfl

/-! ## 3. One step of one thread -/

/-- what one step of thread `t` from `(sh, th)` to `(sh', th')` preserves -/
structure StepOk (t : Nat) (sh : MSh) (th : MTh) (sh' : MSh) (th' : MTh) : Prop where
  ok : thOk th'
  mkt : sh'.arena.mandReq + inflightMkt th' - flagBit (sh'.flag true) = sh.arena.mandReq + inflightMkt th - flagBit (sh.flag true)
  ser : sh'.proxyMand + inflightSer th' - flagBit (sh'.flag true) = sh.proxyMand + inflightSer th - flagBit (sh.flag true)
  mm : sh'.marketMand - sh'.arena.mandReq = sh.marketMand - sh.arena.mandReq
  minw : sh.arena.minW = (if sh.arena.mandReq > 0 then 1 else 0) → sh'.arena.minW = (if sh'.arena.mandReq > 0 then 1 else 0)
  own : ∀ k, (sh.flag k = .busy t → ownPc k th.pc = true) →
    ∀ b, sh'.flag k = .busy b → (b ≠ t ∧ sh.flag k = .busy b) ∨ (b = t ∧ ownPc k th'.pc = true)

theorem own_same (t : Nat) (sh : MSh) (th th' : MTh)
    (hpc : ∀ k, sh.flag k = .busy t → ownPc k th.pc = true → ownPc k th'.pc = true) :
    ∀ k, (sh.flag k = .busy t → ownPc k th.pc = true) →
    ∀ b, sh.flag k = .busy b → (b ≠ t ∧ sh.flag k = .busy b) ∨ (b = t ∧ ownPc k th'.pc = true) := by
  intro k h b hb
  by_cases hbt : b = t
  · subst hbt; exact .inr ⟨rfl, hpc k hb (h hb)⟩
  · exact .inl ⟨hbt, hb⟩

/-- a step that touches neither the flags nor the counters -/
theorem stepOk_local (t : Nat) (sh sh' : MSh) (th th' : MTh)
    (hf : ∀ k, sh'.flag k = sh.flag k) (ha : sh'.arena = sh.arena) (hmm : sh'.marketMand = sh.marketMand)
    (hp : sh'.proxyMand = sh.proxyMand) (hok : thOk th')
    (hm : inflightMkt th' = inflightMkt th) (hs : inflightSer th' = inflightSer th)
    (hown : ∀ k, sh.flag k = .busy t → ownPc k th.pc = true → ownPc k th'.pc = true) : StepOk t sh th sh' th' := by
  refine ⟨hok, by rw [hf, ha, hm], by rw [hf, hp, hs], by rw [hmm, ha], by rw [ha]; exact id, ?_⟩
  intro k h b hb
  rw [hf] at hb
  exact own_same t sh th th' hown k h b hb

/-- a step that writes `f` to the flag `m` -/
theorem stepOk_setFlag (t : Nat) (sh : MSh) (th th' : MTh) (m : Bool) (f : Flag) (hok : thOk th')
    (hm : inflightMkt th' - (if m then flagBit f else 0) = inflightMkt th - (if m then flagBit (sh.flag true) else 0))
    (hs : inflightSer th' - (if m then flagBit f else 0) = inflightSer th - (if m then flagBit (sh.flag true) else 0))
    (hown : ∀ k, k ≠ m → ownPc k th.pc = true → ownPc k th'.pc = true)
    (hf : ∀ b, f = .busy b → b = t ∧ ownPc m th'.pc = true) : StepOk t sh th (sh.setFlag m f) th' := by
  refine ⟨hok, ?_, ?_, by simp, by simp, ?_⟩
  · cases m <;> simp at hm ⊢ <;> omega
  · cases m <;> simp at hs ⊢ <;> omega
  · intro k h b hb
    by_cases hk : k = m
    · subst hk; simp at hb; exact .inr (hf b hb)
    · have hb' : sh.flag k = .busy b := by simpa [hk] using hb
      by_cases hbt : b = t
      · subst hbt; exact .inr ⟨rfl, hown k hk (h hb')⟩
      · exact .inl ⟨hbt, hb'⟩

/-- what remains to be shown of a step after `stepOk_local` -/
macro "local_step" : tactic =>
  `(tactic| (apply stepOk_local <;> (try intro k) <;> (try cases k) <;>
      (try simp only [inflightMkt_flagDone, inflightSer_flagDone, thOk_flagDone, ownPc_flagDone, decidedR_false]) <;>
      (try simp_all [thOk, inflightMkt, inflightSer, poolPhase, ownPc, MSh.flag, decided, gen_advMandDelta, gen_oowMandDelta])))

macro "flag_step" : tactic =>
  `(tactic| (dsimp only; apply stepOk_setFlag <;> (try intro k) <;> (try cases k) <;>
      (try simp only [inflightMkt_flagDone, inflightSer_flagDone, thOk_flagDone, ownPc_flagDone, decidedR_false]) <;>
      (try simp_all [thOk, inflightMkt, inflightSer, poolPhase, ownPc, MSh.flag, decided, flagBit])))

theorem stepPc_ok (cfg : MCfg) (t : Nat) (sh : MSh) (th : MTh) (hok : thOk th) :
    StepOk t sh th (stepPc cfg t sh th).1 (stepPc cfg t sh th).2 := by
  cases hpc : th.pc with
  | idle =>
    have e : stepPc cfg t sh th = (sh, th) := by simp [stepPc, hpc]
    rw [e]; local_step
  | push =>
    have hm : th.adv = true → th.mRes = false := by simpa [thOk, hpc] using hok
    cases ha : th.adv
    · have e : stepPc cfg t sh th = ((if th.enq then { sh with hasEnq := false } else sh), { th with pc := .idle }) := by
        simp [stepPc, hpc, ha]
      rw [e]; cases th.enq <;> local_step
    · have e : stepPc cfg t sh th = ({ sh with hasEnq := true },
          if advMandCond th.enq cfg.numSlots cfg.reserved then { th with pc := .tasLoad true } else { th with pc := .tasLoad false }) := by
        simp [stepPc, hpc, ha]
      rw [e]; cases advMandCond th.enq cfg.numSlots cfg.reserved <;> local_step
  | tasLoad m =>
    have e : stepPc cfg t sh th = (sh, match sh.flag m with
        | .set => flagDone cfg th m false | .unset => { th with pc := .tasCasU m } | .busy b => { th with pc := .tasCasB m (.busy b) }) := by
      simp only [stepPc, hpc]; cases sh.flag m <;> rfl
    rw [e]; cases m <;> cases sh.flag _ <;> local_step
  | tasCasU m =>
    by_cases hfl : sh.flag m = .unset
    · have e : stepPc cfg t sh th = (sh.setFlag m .set, flagDone cfg th m true) := by simp [stepPc, hpc, hfl]
      rw [e]; cases m <;> flag_step
    · have e : stepPc cfg t sh th = (sh, flagDone cfg th m false) := by simp [stepPc, hpc, hfl]
      rw [e]; cases m <;> local_step
  | tasCasB m seen =>
    by_cases hfl : sh.flag m = seen
    · have e : stepPc cfg t sh th = (sh.setFlag m .set, flagDone cfg th m false) := by simp [stepPc, hpc, hfl]
      rw [e]; cases m <;> flag_step
    · by_cases hfu : sh.flag m = .unset
      · have hfl' : ¬ Flag.unset = seen := by rw [← hfu]; exact hfl
        have e : stepPc cfg t sh th = (sh, { th with pc := .tasCasU m }) := by simp [stepPc, hpc, hfu, hfl']
        rw [e]; cases m <;> local_step
      · have e : stepPc cfg t sh th = (sh, flagDone cfg th m false) := by simp [stepPc, hpc, hfl, hfu]
        rw [e]; cases m <;> local_step
  | clrLoad m =>
    by_cases hfl : sh.flag m = .set
    · have e : stepPc cfg t sh th = (sh, { th with pc := .clrCas m }) := by simp [stepPc, hpc, hfl]
      rw [e]; cases m <;> local_step
    · have e : stepPc cfg t sh th = (sh, flagDone cfg th m false) := by simp [stepPc, hpc, hfl]
      rw [e]; cases m <;> local_step
  | clrCas m =>
    by_cases hfl : sh.flag m = .set
    · have e : stepPc cfg t sh th = (sh.setFlag m (.busy t), { th with pc := .clrPred m }) := by simp [stepPc, hpc, hfl]
      rw [e]; cases m <;> flag_step
    · have e : stepPc cfg t sh th = (sh, flagDone cfg th m false) := by simp [stepPc, hpc, hfl]
      rw [e]; cases m <;> local_step
  | clrPred m =>
    have e : stepPc cfg t sh th =
        (sh, { th with pc := .clrFin m (if m then oowMandPred sh.hasEnq else oowPoolPred th.hasTasks) }) := by
      simp [stepPc, hpc]
    rw [e]; cases m <;> local_step
  | clrFin m p =>
    by_cases hfl : sh.flag m = .busy t
    · cases p
      · have e : stepPc cfg t sh th = (sh.setFlag m .set, flagDone cfg th m false) := by simp [stepPc, hpc, hfl]
        rw [e]; cases m <;> flag_step
      · have e : stepPc cfg t sh th = (sh.setFlag m .unset, flagDone cfg th m true) := by simp [stepPc, hpc, hfl]
        rw [e]; cases m <;> flag_step
    · have e : stepPc cfg t sh th = (sh, flagDone cfg th m false) := by simp [stepPc, hpc, hfl]
      rw [e]; cases m <;> local_step
  | reqSer =>
    have e : stepPc cfg t sh th = ({ sh with proxyMand := sh.proxyMand + th.md }, { th with pc := .reqMkt }) := by
      simp [stepPc, hpc]
    rw [e]
    refine ⟨by simp [thOk], ?_, ?_, by simp, by simp, ?_⟩
    · simp [inflightMkt, hpc, MSh.flag]
    · simp [inflightSer, hpc, MSh.flag, poolPhase]
    · exact own_same t sh th _ (by intro k; simp [hpc, ownPc])
  | reqMkt =>
    have e : stepPc cfg t sh th =
        ({ sh with arena := (sh.arena.updateRequest th.md th.wd).1, marketMand := sh.marketMand + th.md },
          { th with pc := .idle }) := by
      simp [stepPc, hpc]
    rw [e]
    refine ⟨by simp [thOk], ?_, ?_, ?_, ?_, ?_⟩
    · simp [inflightMkt, hpc, MSh.flag, poolPhase, Arena.updateRequest]
    · simp [inflightSer, hpc, MSh.flag, poolPhase]
    · simp [Arena.updateRequest]; omega
    · simp [Arena.updateRequest]
    · exact own_same t sh th _ (by intro k; simp [hpc, ownPc])
  | testLoad =>
    have e : stepPc cfg t sh th = (sh, if leaveCallsOow true (decide (sh.mand ≠ .unset)) then { th with pc := .clrLoad true }
        else { th with pc := .idle }) := by
      simp only [stepPc, hpc]; split <;> rfl
    rw [e]; cases leaveCallsOow true (decide (sh.mand ≠ .unset)) <;> local_step

theorem beginAct_ok (cfg : MCfg) (th : MTh) (hpc : th.pc = .idle) :
    thOk (beginAct cfg th) ∧ inflightMkt (beginAct cfg th) = 0 ∧ inflightSer (beginAct cfg th) = 0 ∧
    ∀ k, ownPc k (beginAct cfg th).pc = false := by
  unfold beginAct
  cases hp : th.prog with
  | nil => simp [thOk, inflightMkt, inflightSer, ownPc, hpc, poolPhase]
  | cons a rest =>
    cases a <;> simp [thOk, inflightMkt, inflightSer, ownPc, poolPhase, decided, gen_advMandDelta]

theorem stepTh_ok (cfg : MCfg) (t : Nat) (sh : MSh) (th : MTh) (hok : thOk th) :
    StepOk t sh th (stepTh cfg t sh th).1 (stepTh cfg t sh th).2 := by
  unfold stepTh
  by_cases hpc : th.pc = .idle
  · rw [if_pos hpc]
    obtain ⟨h1, h2, h3, h4⟩ := beginAct_ok cfg th hpc
    have so := stepPc_ok cfg t sh (beginAct cfg th) h1
    have e2 : inflightMkt th = 0 := by simp [inflightMkt, hpc, poolPhase]
    have e3 : inflightSer th = 0 := by simp [inflightSer, hpc, poolPhase]
    refine ⟨so.ok, by rw [so.mkt, h2, e2], by rw [so.ser, h3, e3], so.mm, so.minw, ?_⟩
    intro k h b hb
    refine so.own k (fun hbt => ?_) b hb
    have := h hbt
    simp [hpc, ownPc] at this
  · rw [if_neg hpc]; exact stepPc_ok cfg t sh th hok

/-! ## 4. The global invariant -/

structure Inv (s : MSt) : Prop where
  mkt : s.sh.arena.mandReq + (s.ths.map inflightMkt).sum = flagBit (s.sh.flag true)
  mm : s.sh.marketMand = s.sh.arena.mandReq
  ser : s.sh.proxyMand + (s.ths.map inflightSer).sum = flagBit (s.sh.flag true)
  minw : s.sh.arena.minW = (if s.sh.arena.mandReq > 0 then 1 else 0)
  own : ∀ k b, s.sh.flag k = .busy b → ∃ th, s.ths[b]? = some th ∧ ownPc k th.pc = true
  ok : ∀ th ∈ s.ths, thOk th

theorem Inv.init (cfg : MCfg) (progs : List (List Act)) : Inv (mandSys cfg progs).init := by
  have hz1 : ((progs.map (fun p => ({ prog := p } : MTh))).map inflightMkt).sum = 0 := by
    apply sum_zero; intro th hth; simp at hth; obtain ⟨p, _, rfl⟩ := hth; simp [inflightMkt, poolPhase]
  have hz2 : ((progs.map (fun p => ({ prog := p } : MTh))).map inflightSer).sum = 0 := by
    apply sum_zero; intro th hth; simp at hth; obtain ⟨p, _, rfl⟩ := hth; simp [inflightSer, poolPhase]
  refine ⟨?_, rfl, ?_, rfl, ?_, ?_⟩
  · simp only [mandSys, hz1]; simp [MSh.flag, flagBit]
  · simp only [mandSys, hz2]; simp [MSh.flag, flagBit]
  · intro k b; cases k <;> simp [mandSys, MSh.flag]
  · intro th hth; simp [mandSys] at hth; obtain ⟨p, _, rfl⟩ := hth; simp [thOk]

theorem Inv.step (cfg : MCfg) (s : MSt) (t : Tid) (h : Inv s) : Inv (MSt.step cfg s t) := by
  unfold MSt.step
  cases hth : s.ths[t]? with
  | none => simpa using h
  | some th =>
    simp only
    have htlt : t < s.ths.length := (List.getElem?_eq_some_iff.1 hth).1
    have hmem : th ∈ s.ths := List.mem_of_getElem? hth
    have so := stepTh_ok cfg t s.sh th (h.ok th hmem)
    have e1 := sum_set inflightMkt s.ths t th (stepTh cfg t s.sh th).2 hth
    have e2 := sum_set inflightSer s.ths t th (stepTh cfg t s.sh th).2 hth
    refine ⟨?_, ?_, ?_, so.minw h.minw, ?_, ?_⟩
    · have := so.mkt; have := h.mkt; simp only [] at *; omega
    · have := so.mm; have := h.mm; simp only [] at *; omega
    · have := so.ser; have := h.ser; simp only [] at *; omega
    · intro k b hb
      have hown : s.sh.flag k = .busy t → ownPc k th.pc = true := by
        intro hbt
        obtain ⟨th', h1, h2⟩ := h.own k t hbt
        rw [hth] at h1; cases h1; exact h2
      rcases so.own k hown b hb with ⟨hne, hb'⟩ | ⟨rfl, hb'⟩
      · obtain ⟨th', h1, h2⟩ := h.own k b hb'
        exact ⟨th', by simp [Ne.symm hne, h1], h2⟩
      · exact ⟨_, by simp [htlt], hb'⟩
    · intro th' hth'
      rcases List.mem_or_eq_of_mem_set hth' with h1 | rfl
      · exact h.ok th' h1
      · exact so.ok

theorem inv_run (cfg : MCfg) (progs : List (List Act)) (sched : List Tid) : Inv ((mandSys cfg progs).run sched) :=
  Sys.inv_run (mandSys cfg progs) Inv (Inv.init cfg progs) (fun s t h => Inv.step cfg s t h) sched

theorem ownPc_iff (m : Bool) (pc : Pc) : ownPc m pc = true ↔ (pc = .clrPred m ∨ ∃ p, pc = .clrFin m p) := by
  cases pc <;> simp [ownPc]

/-! ## 5. The theorems -/

/-- inductive invariant, every schedule, any number of threads -/
theorem mand_inv (cfg : MCfg) (progs : List (List Act)) (sched : List Tid) :
    let s := (mandSys cfg progs).run sched
    s.sh.arena.mandReq + (s.ths.map inflightMkt).sum = flagBit s.sh.mand ∧
    s.sh.marketMand = s.sh.arena.mandReq ∧
    s.sh.proxyMand + (s.ths.map inflightSer).sum = flagBit s.sh.mand ∧
    s.sh.arena.minW = (if s.sh.arena.mandReq > 0 then 1 else 0) ∧
    (∀ b, s.sh.mand = .busy b → ∃ th, s.ths[b]? = some th ∧ (th.pc = .clrPred true ∨ ∃ p, th.pc = .clrFin true p)) ∧
    (∀ b, s.sh.pool = .busy b → ∃ th, s.ths[b]? = some th ∧ (th.pc = .clrPred false ∨ ∃ p, th.pc = .clrFin false p)) := by
  intro s
  have h : Inv s := inv_run cfg progs sched
  refine ⟨h.mkt, h.mm, h.ser, h.minw, ?_, ?_⟩
  · intro b hb
    obtain ⟨th, h1, h2⟩ := h.own true b hb
    exact ⟨th, h1, (ownPc_iff _ _).1 h2⟩
  · intro b hb
    obtain ⟨th, h1, h2⟩ := h.own false b hb
    exact ⟨th, h1, (ownPc_iff _ _).1 h2⟩

/-- the state at rest, for any state satisfying the invariant -/
theorem Inv.quiescent {s : MSt} (h : Inv s) (hq : s.quiescent) :
    (s.sh.mand = .unset ∨ s.sh.mand = .set) ∧ (s.sh.pool = .unset ∨ s.sh.pool = .set) ∧
    s.sh.arena.mandReq = flagBit s.sh.mand ∧ s.sh.marketMand = flagBit s.sh.mand ∧ s.sh.proxyMand = flagBit s.sh.mand ∧
    s.sh.arena.minW = (if s.sh.mand = .set then 1 else 0) := by
  have hz1 : (s.ths.map inflightMkt).sum = 0 :=
    sum_zero _ _ (fun th hth => by simp [inflightMkt, hq th hth, poolPhase])
  have hz2 : (s.ths.map inflightSer).sum = 0 :=
    sum_zero _ _ (fun th hth => by simp [inflightSer, hq th hth, poolPhase])
  have hnb : ∀ k b, s.sh.flag k ≠ .busy b := by
    intro k b hb
    obtain ⟨th, h1, h2⟩ := h.own k b hb
    rw [hq th (List.mem_of_getElem? h1)] at h2
    simp [ownPc] at h2
  have hm : s.sh.mand = .unset ∨ s.sh.mand = .set := by
    have := hnb true; cases hf : s.sh.mand <;> simp_all [MSh.flag]
  have hp : s.sh.pool = .unset ∨ s.sh.pool = .set := by
    have := hnb false; cases hf : s.sh.pool <;> simp_all [MSh.flag]
  have e1 : s.sh.arena.mandReq = flagBit s.sh.mand := by have := h.mkt; rw [hz1] at this; simpa [MSh.flag] using this
  have e2 : s.sh.proxyMand = flagBit s.sh.mand := by have := h.ser; rw [hz2] at this; simpa [MSh.flag] using this
  refine ⟨hm, hp, e1, by rw [h.mm, e1], e2, ?_⟩
  rw [h.minw, e1]
  rcases hm with hm | hm <;> simp [hm, flagBit]

/-- at rest the three counters agree with the flag -/
theorem mand_quiescent (cfg : MCfg) (progs : List (List Act)) (sched : List Tid) :
    let s := (mandSys cfg progs).run sched
    s.quiescent →
      (s.sh.mand = .unset ∨ s.sh.mand = .set) ∧ (s.sh.pool = .unset ∨ s.sh.pool = .set) ∧
      s.sh.arena.mandReq = flagBit s.sh.mand ∧ s.sh.marketMand = flagBit s.sh.mand ∧ s.sh.proxyMand = flagBit s.sh.mand ∧
      s.sh.arena.minW = (if s.sh.mand = .set then 1 else 0) := by
  intro s hq
  exact (inv_run cfg progs sched).quiescent hq

/-! ## 6. One thread running alone -/

/-- `n` consecutive steps of thread `t` on its own record -/
def soloIter (cfg : MCfg) (t : Nat) : Nat → MSh × MTh → MSh × MTh
  | 0, x => x
  | n + 1, x => soloIter cfg t n (stepTh cfg t x.1 x.2)

theorem solo_run (cfg : MCfg) (progs : List (List Act)) (t : Nat) : ∀ (n : Nat) (s : MSt) (th : MTh),
    s.ths[t]? = some th →
    (mandSys cfg progs).runFrom s (List.replicate n t) =
      { sh := (soloIter cfg t n (s.sh, th)).1, ths := s.ths.set t (soloIter cfg t n (s.sh, th)).2 }
  | 0, s, th, h => by
    obtain ⟨hlt, hget⟩ := List.getElem?_eq_some_iff.1 h
    simp [soloIter, ← hget]
  | n + 1, s, th, h => by
    have hlt : t < s.ths.length := (List.getElem?_eq_some_iff.1 h).1
    have hs : (mandSys cfg progs).step s t =
        { sh := (stepTh cfg t s.sh th).1, ths := s.ths.set t (stepTh cfg t s.sh th).2 } := by
      simp [mandSys, MSt.step, h]
    rw [List.replicate_succ, Sys.runFrom_cons, hs,
      solo_run cfg progs t n _ (stepTh cfg t s.sh th).2 (by simp [hlt])]
    simp [soloIter]

theorem solo_oow (cfg : MCfg) (t : Nat) (sh : MSh) (th : MTh) (ht : Bool) (rest : List Act)
    (hpc : th.pc = .idle) (hprog : th.prog = .oow ht :: rest) (hm : sh.mand = .set) (he : sh.hasEnq = false)
    (hp : sh.pool = .unset ∨ sh.pool = .set) :
    ∃ n, n ≤ 10 ∧
      (soloIter cfg t n (sh, th)).2.pc = .idle ∧ (soloIter cfg t n (sh, th)).2.prog = rest ∧
      (soloIter cfg t n (sh, th)).1.mand = .unset ∧
      (soloIter cfg t n (sh, th)).1.arena.mandReq = sh.arena.mandReq - 1 ∧
      (soloIter cfg t n (sh, th)).1.marketMand = sh.marketMand - 1 ∧
      (soloIter cfg t n (sh, th)).1.proxyMand = sh.proxyMand - 1 ∧
      (soloIter cfg t n (sh, th)).1.arena.minW = (if sh.arena.mandReq - 1 > 0 then 1 else 0) := by
  obtain ⟨mand, pool, hasEnq, arena, mm, pm⟩ := sh
  obtain ⟨pc, prog, adv, enq, hasTasks, mRes, wRes, md, wd⟩ := th
  simp only at hpc hprog hm he hp
  subst hpc hprog hm he
  rcases hp with rfl | rfl
  · refine ⟨7, by omega, ?_⟩
    simp [soloIter, stepTh, beginAct, stepPc, MSh.flag, MSh.setFlag, flagDone, finishOp, gen_oowMandPred,
      oowReports_true, gen_oowMandDelta, Arena.updateRequest]
    exact ⟨by omega, by omega, by omega, by split <;> split <;> omega⟩
  · refine ⟨10, by omega, ?_⟩
    cases hpp : oowPoolPred ht <;>
    · simp [soloIter, stepTh, beginAct, stepPc, MSh.flag, MSh.setFlag, flagDone, finishOp, gen_oowMandPred,
        oowReports_true, gen_oowMandDelta, Arena.updateRequest, hpp]
      exact ⟨by omega, by omega, by omega, by split <;> split <;> omega⟩

/-- out_of_work by one thread, run alone from a state at rest in which the flag is set and no enqueued task is left,
withdraws the mandatory request completely — whatever has_tasks() says (ht) and whatever the pool flag is -/
theorem mand_withdrawn (cfg : MCfg) (progs : List (List Act)) (sched : List Tid) (t : Nat) (th : MTh) (ht : Bool) (rest : List Act) :
    let s := (mandSys cfg progs).run sched
    s.quiescent → s.sh.mand = .set → s.sh.hasEnq = false → s.ths[t]? = some th → th.prog = .oow ht :: rest →
    ∃ n, n ≤ 10 ∧
      let s' := (mandSys cfg progs).runFrom s (List.replicate n t)
      s'.quiescent ∧ s'.sh.mand = .unset ∧ s'.sh.arena.mandReq = 0 ∧ s'.sh.marketMand = 0 ∧ s'.sh.proxyMand = 0 ∧
      s'.sh.arena.minW = 0 ∧ (∃ th', s'.ths[t]? = some th' ∧ th'.prog = rest) := by
  intro s hq hm he hth hprog
  have hI : Inv s := inv_run cfg progs sched
  obtain ⟨_, hp, e1, e2, e3, _⟩ := hI.quiescent hq
  have hlt : t < s.ths.length := (List.getElem?_eq_some_iff.1 hth).1
  have hpc : th.pc = .idle := hq th (List.mem_of_getElem? hth)
  obtain ⟨n, hn, r1, r2, r3, r4, r5, r6, r7⟩ := solo_oow cfg t s.sh th ht rest hpc hprog hm he hp
  refine ⟨n, hn, ?_⟩
  simp only [solo_run cfg progs t n s th hth]
  have hfb : flagBit s.sh.mand = 1 := by simp [hm, flagBit]
  refine ⟨?_, r3, by rw [r4, e1, hfb]; rfl, by rw [r5, e2, hfb]; rfl, by rw [r6, e3, hfb]; rfl, ?_, ?_⟩
  · intro th' hth'
    rcases List.mem_or_eq_of_mem_set hth' with h1 | rfl
    · exact hq th' h1
    · exact r1
  · rw [r7, e1, hfb]; rfl
  · exact ⟨_, by simp [hlt], r2⟩

end TbbVerif.C16.Mand
