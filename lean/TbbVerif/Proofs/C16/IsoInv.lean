/-
C16 isolation — the tag/region invariant and `isolation_respected`.

Invariant `G`: every task's tag word equals the ghost region it was spawned in, every proxy carries its task's tag, every
thread's execute data equal the ghost region of the code it runs, every dispatch loop's isolation constant equals the ghost
region it waits in; every logged execution satisfies the property.
-/
import TbbVerif.Proofs.C16.IsoScan

namespace TbbVerif.C16.Iso
open TbbVerif.Generated.C16

def Task.ok (x : Task) : Prop := x.tag = x.region
def PEntry.ok (p : PEntry) : Prop := p.ptag = p.task.tag ∧ p.task.ok
def Entry.ok : Entry → Prop
  | .plain x => x.ok
  | .proxy p => p.ok
def Fr.ok : Fr → Prop
  | .loop i g se sr => i = g ∧ se = sr
  | .region se sr => se = sr
def Th.ok (th : Th) : Prop := th.ed = th.reg ∧ ∀ f ∈ th.stack, f.ok
/-- the property on one executed task: the loop's isolation word is the ghost region the loop waits in, and a loop that waits
inside a region executes only tasks spawned in that region -/
def LogE.ok (e : LogE) : Prop := e.iso = e.ghost ∧ e.task.ok ∧ (e.ghost = 0 ∨ e.task.region = e.ghost)

structure G (s : ISt) : Prop where
  pools : ∀ pool ∈ s.pools, ∀ e, some e ∈ pool → e.ok
  mail : ∀ box ∈ s.mail, ∀ p ∈ box, p.ok
  fifo : ∀ x ∈ s.fifo, x.ok
  crit : ∀ x ∈ s.crit, x.ok
  ths : ∀ th ∈ s.ths, th.ok
  log : ∀ e ∈ s.log, e.ok

theorem G.init (n : Nat) : G (ISt.init n) := by
  refine ⟨?_, ?_, ?_, ?_, ?_, ?_⟩ <;> simp [ISt.init, List.mem_replicate]
  intro _; exact ⟨rfl, by simp⟩

theorem mem_set_cases {α : Type} {l : List α} {i : Nat} {a x : α} (h : x ∈ l.set i a) : x = a ∨ x ∈ l := by
  rcases List.mem_or_eq_of_mem_set h with h | h
  · exact Or.inr h
  · exact Or.inl h

theorem curLoop_ok {th : Th} {i g : Nat} (hth : th.ok) (h : th.curLoop = some (i, g)) : i = g := by
  unfold Th.curLoop at h
  split at h
  · rename_i i' g' se sr st heq
    simp only [Option.some.injEq, Prod.mk.injEq] at h
    have := hth.2 (.loop i' g' se sr) (by rw [heq]; simp)
    simp only [Fr.ok] at this
    omega
  · simp at h

/-- thread `t` (record `th`) executes task `x` taken in a loop with isolation `i` / ghost `g` -/
theorem G.exec {s : ISt} (hg : G s) {t : Nat} {th : Th} (hth : th.ok) {x : Task} (hx : x.ok) {i g : Nat} (hig : i = g)
    (hiso : i = 0 ∨ i = x.tag) : G (s.exec t th x i g x.tag) := by
  refine ⟨hg.pools, hg.mail, hg.fifo, hg.crit, ?_, ?_⟩
  · intro th' h'
    rcases mem_set_cases h' with h | h
    · subst h; exact ⟨hx, hth.2⟩
    · exact hg.ths _ h
  · intro e he
    simp only [ISt.exec, List.mem_append, List.mem_singleton] at he
    rcases he with he | he
    · exact hg.log _ he
    · subst he
      refine ⟨hig, hx, ?_⟩
      simp only
      rcases hiso with h | h
      · left; omega
      · right; rw [← hx, ← h]; exact hig

theorem G.setThread {s : ISt} (hg : G s) (t : Nat) {th : Th} (hth : th.ok) : G { s with ths := s.ths.set t th } := by
  refine ⟨hg.pools, hg.mail, hg.fifo, hg.crit, ?_, hg.log⟩
  intro th' h'
  rcases mem_set_cases h' with h | h
  · subst h; exact hth
  · exact hg.ths _ h

theorem getElem?_mem {α : Type} {l : List α} {i : Nat} {a : α} (h : l[i]? = some a) : a ∈ l := List.mem_of_getElem? h

theorem G.step_wait {s : ISt} (hg : G s) (t : Nat) : G (s.step (.wait t)) := by
  simp only [ISt.step]
  split
  · rename_i th hth
    have hok := hg.ths _ (getElem?_mem hth)
    apply hg.setThread
    refine ⟨hok.1, ?_⟩
    intro f hf
    simp only [List.mem_cons] at hf
    rcases hf with hf | hf
    · subst hf; exact ⟨by rw [gen_loop]; exact hok.1, hok.1⟩
    · exact hok.2 _ hf
  · exact hg

theorem G.step_endWait {s : ISt} (hg : G s) (t : Nat) : G (s.step (.endWait t)) := by
  simp only [ISt.step]
  split
  · rename_i th hth
    have hok := hg.ths _ (getElem?_mem hth)
    split
    · rename_i i g se sr st heq
      apply hg.setThread
      have hf := hok.2 (.loop i g se sr) (by rw [heq]; simp)
      refine ⟨hf.2, ?_⟩
      intro f hf'
      exact hok.2 _ (by rw [heq]; exact List.mem_cons_of_mem _ hf')
    · exact hg
  · exact hg

theorem G.step_isolate {s : ISt} (hg : G s) (t f : Nat) : G (s.step (.isolate t f)) := by
  simp only [ISt.step]
  split
  · rename_i th hth
    have hok := hg.ths _ (getElem?_mem hth)
    split
    · exact hg
    · rename_i hf
      apply hg.setThread
      refine ⟨gen_isolate f hf, ?_⟩
      intro fr hfr
      simp only [List.mem_cons] at hfr
      rcases hfr with h | h
      · subst h; exact hok.1
      · exact hok.2 _ h
  · exact hg

theorem G.step_endIsolate {s : ISt} (hg : G s) (t : Nat) : G (s.step (.endIsolate t)) := by
  simp only [ISt.step]
  split
  · rename_i th hth
    have hok := hg.ths _ (getElem?_mem hth)
    split
    · rename_i se sr st heq
      apply hg.setThread
      have hf := hok.2 (.region se sr) (by rw [heq]; simp)
      refine ⟨by rw [gen_isolateRestore]; exact hf, ?_⟩
      intro f hf'
      exact hok.2 _ (by rw [heq]; exact List.mem_cons_of_mem _ hf')
    · exact hg
  · exact hg

/-- appending an entry to pool `t` -/
theorem G.pushPool {s : ISt} (hg : G s) {t : Nat} {pool : Pool} (hp : s.pools[t]? = some pool) {e : Entry} (he : e.ok) :
    ∀ pool' ∈ s.pools.set t (pool ++ [some e]), ∀ e', some e' ∈ pool' → e'.ok := by
  intro pool' hp' e' he'
  rcases mem_set_cases hp' with h | h
  · subst h
    simp only [List.mem_append, List.mem_singleton, Option.some.injEq] at he'
    rcases he' with h | h
    · exact hg.pools _ (getElem?_mem hp) _ h
    · subst h; exact he
  · exact hg.pools _ h _ he'

theorem G.step_spawn {s : ISt} (hg : G s) (t : Nat) : G (s.step (.spawn t)) := by
  simp only [ISt.step]
  split
  · rename_i th pool hth hp
    have hok := hg.ths _ (getElem?_mem hth)
    exact ⟨hg.pushPool hp (e := .plain _) (by simp [Entry.ok, Task.ok, gen_tagSpawn]; exact hok.1), hg.mail, hg.fifo, hg.crit, hg.ths, hg.log⟩
  · exact hg

theorem G.step_spawnAff {s : ISt} (hg : G s) (t d : Nat) : G (s.step (.spawnAff t d)) := by
  simp only [ISt.step]
  split
  · rename_i th pool hth hp
    have hok := hg.ths _ (getElem?_mem hth)
    split
    · rename_i box hbox
      have hpe : PEntry.ok { pid := s.next, ptag := tagProxy th.ed, task := { id := s.next, tag := tagSpawnAff th.ed, region := th.reg }, dest := d } := by
        simp [PEntry.ok, Task.ok, gen_tagProxy, gen_tagSpawnAff]; exact hok.1
      refine ⟨hg.pushPool hp (e := .proxy _) hpe, ?_, hg.fifo, hg.crit, hg.ths, hg.log⟩
      intro box' hb' p hp'
      rcases mem_set_cases hb' with h | h
      · subst h
        simp only [List.mem_append, List.mem_singleton] at hp'
        rcases hp' with h | h
        · have hbm : box ∈ s.mail := by
            split at hbox
            · simp at hbox
            · exact getElem?_mem hbox
          exact hg.mail _ hbm _ h
        · subst h; exact hpe
      · exact hg.mail _ h _ hp'
    · exact ⟨hg.pushPool hp (e := .plain _) (by simp [Entry.ok, Task.ok, gen_tagSpawnAff]; exact hok.1), hg.mail, hg.fifo, hg.crit, hg.ths, hg.log⟩
  · exact hg

theorem G.step_enqueue {s : ISt} (hg : G s) (t : Nat) : G (s.step (.enqueue t)) := by
  simp only [ISt.step]
  split
  · refine ⟨hg.pools, hg.mail, ?_, hg.crit, hg.ths, hg.log⟩
    intro x hx
    simp only [List.mem_append, List.mem_singleton] at hx
    rcases hx with h | h
    · exact hg.fifo _ h
    · subst h; simp [Task.ok, gen_tagEnqueue]
  · exact hg

theorem G.step_critical {s : ISt} (hg : G s) (t : Nat) : G (s.step (.critical t)) := by
  simp only [ISt.step]
  split
  · rename_i th hth
    have hok := hg.ths _ (getElem?_mem hth)
    refine ⟨hg.pools, hg.mail, hg.fifo, ?_, hg.ths, hg.log⟩
    intro x hx
    simp only [List.mem_append, List.mem_singleton] at hx
    rcases hx with h | h
    · exact hg.crit _ h
    · subst h; simp [Task.ok, gen_tagCritical]; exact hok.1
  · exact hg

theorem G.step_setIdle {s : ISt} (hg : G s) (t : Nat) (b : Bool) : G (s.step (.setIdle t b)) := by
  simp only [ISt.step]
  split
  · exact ⟨hg.pools, hg.mail, hg.fifo, hg.crit, hg.ths, hg.log⟩
  · exact hg

/-- replacing pool `t` by a pool whose entries all come from it -/
theorem G.subPool {s : ISt} (hg : G s) {t : Nat} {pool pool' : Pool} (hp : s.pools[t]? = some pool)
    (hsub : ∀ e, some e ∈ pool' → some e ∈ pool) :
    ∀ q ∈ s.pools.set t pool', ∀ e, some e ∈ q → e.ok := by
  intro q hq e he
  rcases mem_set_cases hq with h | h
  · subst h; exact hg.pools _ (getElem?_mem hp) _ (hsub _ he)
  · exact hg.pools _ h _ he

theorem G.step_own {s : ISt} (hg : G s) (t : Nat) : G (s.step (.own t)) := by
  simp only [ISt.step]
  split
  · rename_i th pool hth hp
    have hok := hg.ths _ (getElem?_mem hth)
    split
    · rename_i i g hl
      have hig := curLoop_ok hok hl
      have hsub : ∀ e, some e ∈ (ownScan (argOwn i) s.claimed pool.reverse false).1.reverse → some e ∈ pool := by
        intro e he
        have := ownScan_sub _ _ _ _ _ (List.mem_reverse.1 he)
        exact List.mem_reverse.1 this
      have hg1 : G { s with pools := s.pools.set t (ownScan (argOwn i) s.claimed pool.reverse false).1.reverse,
                            claimed := claim s.claimed (ownScan (argOwn i) s.claimed pool.reverse false).2.2 } :=
        ⟨hg.subPool hp hsub, hg.mail, hg.fifo, hg.crit, hg.ths, hg.log⟩
      split
      · rename_i x hx
        obtain ⟨e, he, hiso, hr⟩ := ownScan_res _ _ _ _ _ hx
        have heok := hg.pools _ (getElem?_mem hp) e (List.mem_reverse.1 he)
        rw [gen_argOwn] at hiso
        rw [gen_edAfterOwn]
        rcases hr with ⟨rfl, _⟩ | ⟨p, rfl, rfl, _, _⟩
        · exact hg1.exec hok heok hig hiso
        · exact hg1.exec hok heok.2 hig (by simpa [Entry.tag, heok.1] using hiso)
      · exact hg1
    · exact hg
  · exact hg

theorem G.step_steal {s : ISt} (hg : G s) (t v : Nat) : G (s.step (.steal t v)) := by
  simp only [ISt.step]
  split
  · rename_i th pool hth hp
    have hok := hg.ths _ (getElem?_mem hth)
    split
    · rename_i i g hl
      have hig := curLoop_ok hok hl
      split
      · exact hg
      · have hg1 : G { s with pools := s.pools.set v (stealScan (argSteal i) s.claimed (fun d => s.idle.getD d false) (s.idle.getD v false) pool false).1 } :=
          ⟨hg.subPool hp (fun e he => stealScan_sub _ _ _ _ _ _ _ he), hg.mail, hg.fifo, hg.crit, hg.ths, hg.log⟩
        split
        · rename_i x hx
          obtain ⟨he, hiso⟩ := stealScan_res _ _ _ _ _ _ _ hx
          have heok := hg.pools _ (getElem?_mem hp) _ he
          rw [gen_argSteal] at hiso
          rw [gen_edAfterIdle]
          exact hg1.exec hok heok hig hiso
        · rename_i p hx
          obtain ⟨he, hiso⟩ := stealScan_res _ _ _ _ _ _ _ hx
          have heok : p.ok := hg.pools _ (getElem?_mem hp) _ he
          rw [gen_argSteal] at hiso
          split
          · exact hg1
          · rw [gen_edAfterIdle]
            have hg2 : G { s with pools := s.pools.set v (stealScan (argSteal i) s.claimed (fun d => s.idle.getD d false) (s.idle.getD v false) pool false).1,
                                  claimed := p.pid :: s.claimed } :=
              ⟨hg1.pools, hg.mail, hg.fifo, hg.crit, hg.ths, hg.log⟩
            exact hg2.exec hok heok.2 hig (by simpa [Entry.tag, heok.1] using hiso)
        · exact hg1
    · exact hg
  · exact hg

theorem G.step_mailbox {s : ISt} (hg : G s) (t : Nat) : G (s.step (.mailbox t)) := by
  simp only [ISt.step]
  split
  · rename_i th box hth hb
    have hok := hg.ths _ (getElem?_mem hth)
    split
    · rename_i i g hl
      have hig := curLoop_ok hok hl
      have hg1 : G { s with mail := s.mail.set t (mailScan (argMail i) s.claimed box).1, claimed := claim s.claimed (mailScan (argMail i) s.claimed box).2 } := by
        refine ⟨hg.pools, ?_, hg.fifo, hg.crit, hg.ths, hg.log⟩
        intro b hb' p hp
        rcases mem_set_cases hb' with h | h
        · subst h; exact hg.mail _ (getElem?_mem hb) _ (mailScan_sub _ _ _ _ hp)
        · exact hg.mail _ h _ hp
      split
      · rename_i p hx
        obtain ⟨hp, _, hiso⟩ := mailScan_res _ _ _ _ hx
        have hpok := hg.mail _ (getElem?_mem hb) _ hp
        rw [gen_argMail] at hiso
        rw [gen_edAfterIdle]
        exact hg1.exec hok hpok.2 hig (by simpa [hpok.1] using hiso)
      · exact hg1
    · exact hg
  · exact hg

theorem G.step_popFifo {s : ISt} (hg : G s) (t : Nat) (fa : Bool) (k : Nat) : G (s.step (.popFifo t fa k)) := by
  simp only [ISt.step]
  split
  · rename_i th x hth hx
    have hok := hg.ths _ (getElem?_mem hth)
    split
    · rename_i i g hl
      have hig := curLoop_ok hok hl
      split
      · rename_i hf
        have hi0 := gen_fifo _ _ hf
        rw [gen_argFifo] at hi0
        have hg1 : G { s with fifo := s.fifo.eraseIdx k } :=
          ⟨hg.pools, hg.mail, fun y hy => hg.fifo _ (List.mem_of_mem_eraseIdx hy), hg.crit, hg.ths, hg.log⟩
        rw [gen_edAfterIdle]
        exact hg1.exec hok (hg.fifo _ (getElem?_mem hx)) hig (Or.inl hi0)
      · exact hg
    · exact hg
  · exact hg

theorem G.step_popCrit {s : ISt} (hg : G s) (t : Nat) (k : Nat) : G (s.step (.popCrit t k)) := by
  simp only [ISt.step]
  split
  · rename_i th x hth hx
    have hok := hg.ths _ (getElem?_mem hth)
    split
    · rename_i i g hl
      have hig := curLoop_ok hok hl
      split
      · rename_i hf
        have hiso := gen_crit _ _ hf
        have hg1 : G { s with crit := s.crit.eraseIdx k } :=
          ⟨hg.pools, hg.mail, hg.fifo, fun y hy => hg.crit _ (List.mem_of_mem_eraseIdx hy), hg.ths, hg.log⟩
        rw [gen_edAfterCrit]
        exact hg1.exec hok (hg.crit _ (getElem?_mem hx)) hig hiso
      · exact hg
    · exact hg
  · exact hg

theorem G.step {s : ISt} (hg : G s) (op : IOp) : G (s.step op) := by
  cases op with
  | wait t => exact hg.step_wait t
  | endWait t => exact hg.step_endWait t
  | isolate t f => exact hg.step_isolate t f
  | endIsolate t => exact hg.step_endIsolate t
  | spawn t => exact hg.step_spawn t
  | spawnAff t d => exact hg.step_spawnAff t d
  | enqueue t => exact hg.step_enqueue t
  | critical t => exact hg.step_critical t
  | setIdle t b => exact hg.step_setIdle t b
  | own t => exact hg.step_own t
  | steal t v => exact hg.step_steal t v
  | mailbox t => exact hg.step_mailbox t
  | popFifo t fa k => exact hg.step_popFifo t fa k
  | popCrit t k => exact hg.step_popCrit t k

theorem G.run {s : ISt} (hg : G s) (ops : List IOp) : G (s.run ops) := by
  induction ops generalizing s with
  | nil => exact hg
  | cons o os ih => exact ih (hg.step o)

end TbbVerif.C16.Iso
