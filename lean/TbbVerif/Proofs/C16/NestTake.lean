/-
C16 nested isolation — `NInv` is preserved by every take point (own pool, steal, steal + critical displacement, mailbox, fifo /
critical / resume stream, bypass, `execute_and_wait` with an initial task); `NInv.run`.
-/
import TbbVerif.Proofs.C16.NestInv

set_option linter.unusedSimpArgs false

namespace TbbVerif.C16.Nest
open TbbVerif.Generated.C16
open TbbVerif.C16.Iso (Task PEntry Entry Pool ownScan stealScan mailScan claim argOwn argMail argSteal argFifo argCrit
  ownScan_sub ownScan_res stealScan_sub stealScan_res mailScan_sub mailScan_res gen_argOwn gen_argMail gen_argSteal gen_argFifo
  gen_edAfterOwn gen_edAfterIdle gen_edAfterCrit gen_fifo gen_crit gen_loop gen_tagSpawn)

/-! ### liveness lemmas -/

theorem liveRid_spec {s : NSt} {r : Nat} (h : s.liveRid r = true) :
    ∃ dp ∈ s.disps, ∃ p sr t e, Fr.region p sr r t e ∈ dp.stack := by
  unfold NSt.liveRid at h
  rw [List.any_eq_true] at h
  obtain ⟨dp, hdp, h1⟩ := h
  rw [List.any_eq_true] at h1
  obtain ⟨f, hf, h2⟩ := h1
  cases f with
  | region p sr rid t e =>
    simp [Fr.hasRid] at h2
    subst h2
    exact ⟨dp, hdp, p, sr, t, e, hf⟩
  | loop _ _ _ _ _ => simp [Fr.hasRid] at h2
  | exec _ _ => simp [Fr.hasRid] at h2

theorem explRid_intro {s : NSt} {dp : Disp} (hdp : dp ∈ s.disps) {p sr r t : Nat} (hf : Fr.region p sr r t true ∈ dp.stack) :
    s.explRid r = true := by
  unfold NSt.explRid
  rw [List.any_eq_true]
  refine ⟨dp, hdp, ?_⟩
  rw [List.any_eq_true]
  exact ⟨_, hf, by simp [Fr.isExplRid]⟩

/-- two live regions with the same tag word are the same region, or both were entered with an explicit tag -/
theorem live_cases {s : NSt} (h : NInv s) {r1 r2 : Nat} (ht : s.tagOf.getD r1 0 = s.tagOf.getD r2 0)
    (h1 : s.liveRid r1 = true) (h2 : s.liveRid r2 = true) : r1 = r2 ∨ (s.explRid r1 && s.explRid r2) = true := by
  obtain ⟨dp1, hd1, p1, s1, t1, e1, hf1⟩ := liveRid_spec h1
  obtain ⟨dp2, hd2, p2, s2, t2, e2, hf2⟩ := liveRid_spec h2
  have k1 := (h.disps dp1 hd1).2.2.1 _ hf1
  have k2 := (h.disps dp2 hd2).2.2.1 _ hf2
  have htt : t1 = t2 := by rw [k1.2.2.1, k2.2.2.1]; exact ht
  by_cases hb : e1 = true ∧ e2 = true
  · right
    obtain ⟨hb1, hb2⟩ := hb
    subst hb1; subst hb2
    simp [explRid_intro hd1 hf1, explRid_intro hd2 hf2]
  · left
    exact h.live dp1 hd1 dp2 hd2 _ _ _ _ _ hf1 _ _ _ _ _ hf2 htt hb

/-- the disjunction of `LogOk` about regions -/
theorem region_cases {s : NSt} (h : NInv s) {r g : Nat} (ht : s.tagOf.getD r 0 = s.tagOf.getD g 0) :
    r = g ∨ s.liveRid r = false ∨ s.liveRid g = false ∨ (s.explRid r && s.explRid g) = true := by
  cases h1 : s.liveRid r
  · right; left; rfl
  · cases h2 : s.liveRid g
    · right; right; left; rfl
    · rcases live_cases h ht h1 h2 with hh | hh
      · left; exact hh
      · right; right; right; exact hh

/-! ### the loop on top of a dispatcher -/

theorem curLoop_spec {dp : Disp} {i g : Nat} {below : List Fr} (h : dp.curLoop = some (i, g, below)) :
    ∃ se sr c rs, dp.stack = .loop i g se sr c rs :: below := by
  unfold Disp.curLoop at h
  split at h
  · rename_i i' g' se sr c rs rest heq
    simp only [Option.some.injEq, Prod.mk.injEq] at h
    obtain ⟨rfl, rfl, rfl⟩ := h
    exact ⟨se, sr, c, rs, heq⟩
  · simp at h

/-- thread `t` starts task `x` in the loop on top of dispatcher `d`; `s1` differs from `s` in the containers only -/
theorem NInv.exec {s : NSt} (h : NInv s) {t d : Nat} {dp : Disp} (hd : s.disps[d]? = some dp) {x : Task} (hx : Tk s.tagOf x)
    {i g : Nat} {below : List Fr} (hl : dp.curLoop = some (i, g, below)) (hiso : i = 0 ∨ i = x.tag) :
    NInv (s.exec t d dp x i g below x.tag false) := by
  obtain ⟨se, sr, c, rs, hst⟩ := curLoop_spec hl
  obtain ⟨h1, h2, h3, h4, h5⟩ := h.disps _ (getElem?_mem hd)
  rw [hst] at h3 h5
  have hf := h3 _ (List.mem_cons_self ..)
  refine ⟨h.zero, h.pools, h.mail, h.fifo, h.crit, ?_, ?_, ?_⟩
  · intro dp' h'
    rcases mem_set_cases h' with e | e
    · subst e
      refine ⟨hx.1, hx.2, ?_, ?_, ?_⟩
      · intro f hf'
        rw [hst] at hf'
        simp only [setCur, List.mem_cons] at hf'
        rcases hf' with hf' | hf'
        · subst hf'; exact hf
        · exact h3 f (List.mem_cons_of_mem _ hf')
      · simp [hst, setCur, ctxTag]
      · simp only [hst, setCur]
        refine ⟨h5.1, h5.2.1, fun _ => ?_, h5.2.2.2⟩
        rcases hiso with hh | hh
        · left; exact hh
        · right; exact hh.symm
    · exact h.disps _ e
  · exact h.live.set_sub hd (fun p s r t e hh => setCur_region hh)
  · intro e he
    simp only [NSt.exec, List.mem_append, List.mem_singleton] at he
    rcases he with he | he
    · exact h.log _ he
    · subst he
      refine ⟨fun _ => ⟨?_, ?_, fun _ => rfl, ?_⟩, fun hr => by simp at hr⟩
      · simp only; rw [h5.2.1]; exact h5.1
      · simp only; rcases hiso with hh | hh
        · left; exact hh
        · right; exact hh.symm
      · intro hne
        simp only at hne ⊢
        have hit : i = x.tag := by rcases hiso with hh | hh; exact absurd hh hne; exact hh
        apply region_cases h
        rw [← hx.1, ← hf.1, hit]

/-- the same for a resume task: no isolation test, the taker's word becomes the resume task's tag -/
theorem NInv.execResume {s : NSt} (h : NInv s) {t d : Nat} {dp : Disp} (hd : s.disps[d]? = some dp) (target : Nat)
    {i g : Nat} {below : List Fr} (hl : dp.curLoop = some (i, g, below)) :
    NInv (s.exec t d dp { id := target, tag := resumeTag, region := 0 } i g below (edAfterIdle resumeTag) true) := by
  obtain ⟨se, sr, c, rs, hst⟩ := curLoop_spec hl
  obtain ⟨h1, h2, h3, h4, h5⟩ := h.disps _ (getElem?_mem hd)
  rw [hst] at h3 h5
  have hf := h3 _ (List.mem_cons_self ..)
  refine ⟨h.zero, h.pools, h.mail, h.fifo, h.crit, ?_, ?_, ?_⟩
  · intro dp' h'
    rcases mem_set_cases h' with e | e
    · subst e
      refine ⟨by simp [gen_edAfterIdle, gen_resumeTag]; exact h.zero.1.symm, h.zero.2, ?_, ?_, ?_⟩
      · intro f hf'
        rw [hst] at hf'
        simp only [setCur, List.mem_cons] at hf'
        rcases hf' with hf' | hf'
        · subst hf'; exact hf
        · exact h3 f (List.mem_cons_of_mem _ hf')
      · simp [hst, setCur, ctxTag]
      · simp only [hst, setCur]
        exact ⟨h5.1, h5.2.1, fun hh => by simp at hh, h5.2.2.2⟩
    · exact h.disps _ e
  · exact h.live.set_sub hd (fun p s r t e hh => setCur_region hh)
  · intro e he
    simp only [NSt.exec, List.mem_append, List.mem_singleton] at he
    rcases he with he | he
    · exact h.log _ he
    · subst he
      exact ⟨fun hr => by simp at hr, fun _ => ⟨gen_resumeTag, rfl, by simp [gen_edAfterIdle, gen_resumeTag]⟩⟩

/-! ### container updates -/

theorem NInv.subPool {s : NSt} (h : NInv s) {t : Nat} {pool pool' : Pool} (hp : s.pools[t]? = some pool)
    (hsub : ∀ e, some e ∈ pool' → some e ∈ pool) :
    ∀ q ∈ s.pools.set t pool', ∀ e, some e ∈ q → Ek s.tagOf e := by
  intro q hq e he
  rcases mem_set_cases hq with hh | hh
  · subst hh; exact h.pools _ (getElem?_mem hp) _ (hsub _ he)
  · exact h.pools _ hh _ he

theorem NInv.doPopCrit {s : NSt} (h : NInv s) {t d : Nat} {dp : Disp} (hd : s.disps[d]? = some dp)
    {i g : Nat} {below : List Fr} (hl : dp.curLoop = some (i, g, below)) (k : Nat) : NInv (s.doPopCrit t d dp i g below k) := by
  unfold NSt.doPopCrit
  split
  · rename_i x hx
    split
    · rename_i hf
      have hiso := gen_crit _ _ hf
      have h1 : NInv { s with crit := s.crit.eraseIdx k } :=
        ⟨h.zero, h.pools, h.mail, h.fifo, fun y hy => h.crit _ (List.mem_of_mem_eraseIdx hy), h.disps, h.live, h.log⟩
      rw [gen_edAfterCrit]
      exact h1.exec (s := { s with crit := s.crit.eraseIdx k }) hd (h.crit _ (getElem?_mem hx)) hl hiso
    · exact h
  · exact h

theorem NInv.step_own {s : NSt} (h : NInv s) (t : Nat) : NInv (s.step (.own t)) := by
  simp only [NSt.step]
  split
  · rename_i d dp pool hdp hp
    have hd := dispOf_mem hdp
    split
    · rename_i i g below hl
      have hsub : ∀ e, some e ∈ (ownScan (argOwn i) s.claimed pool.reverse false).1.reverse → some e ∈ pool := by
        intro e he
        have := ownScan_sub _ _ _ _ _ (List.mem_reverse.1 he)
        exact List.mem_reverse.1 this
      have h1 : NInv { s with pools := s.pools.set t (ownScan (argOwn i) s.claimed pool.reverse false).1.reverse,
                              claimed := claim s.claimed (ownScan (argOwn i) s.claimed pool.reverse false).2.2 } :=
        ⟨h.zero, h.subPool hp hsub, h.mail, h.fifo, h.crit, h.disps, h.live, h.log⟩
      split
      · rename_i x hx
        obtain ⟨e, he, hiso, hr⟩ := ownScan_res _ _ _ _ _ hx
        have heok := h.pools _ (getElem?_mem hp) e (List.mem_reverse.1 he)
        rw [gen_argOwn] at hiso
        rw [gen_edAfterOwn]
        rcases hr with ⟨rfl, _⟩ | ⟨p, rfl, rfl, _, _⟩
        · exact h1.exec hd heok hl hiso
        · exact h1.exec hd heok.2 hl (by simpa [Entry.tag, heok.1] using hiso)
      · exact h1
    · exact h
  · exact h

theorem NInv.step_steal {s : NSt} (h : NInv s) (t v : Nat) : NInv (s.step (.steal t v)) := by
  simp only [NSt.step]
  split
  · rename_i d dp pool hdp hp
    have hd := dispOf_mem hdp
    split
    · rename_i i g below hl
      split
      · exact h
      · have h1 : NInv { s with pools := s.pools.set v (stealScan (argSteal i) s.claimed (fun d => s.idle.getD d false) (s.idle.getD v false) pool false).1 } :=
          ⟨h.zero, h.subPool hp (fun e he => stealScan_sub _ _ _ _ _ _ _ he), h.mail, h.fifo, h.crit, h.disps, h.live, h.log⟩
        split
        · rename_i x hx
          obtain ⟨he, hiso⟩ := stealScan_res _ _ _ _ _ _ _ hx
          have heok := h.pools _ (getElem?_mem hp) _ he
          rw [gen_argSteal] at hiso
          rw [gen_edAfterIdle]
          exact h1.exec hd heok hl hiso
        · rename_i p hx
          obtain ⟨he, hiso⟩ := stealScan_res _ _ _ _ _ _ _ hx
          have heok : Pk s.tagOf p := h.pools _ (getElem?_mem hp) _ he
          rw [gen_argSteal] at hiso
          split
          · exact h1
          · rw [gen_edAfterIdle]
            have h2 : NInv { s with pools := s.pools.set v (stealScan (argSteal i) s.claimed (fun d => s.idle.getD d false) (s.idle.getD v false) pool false).1,
                                    claimed := p.pid :: s.claimed } :=
              ⟨h.zero, h1.pools, h.mail, h.fifo, h.crit, h.disps, h.live, h.log⟩
            exact h2.exec hd heok.2 hl (by simpa [Entry.tag, heok.1] using hiso)
        · exact h1
    · exact h
  · exact h

theorem NInv.step_mailbox {s : NSt} (h : NInv s) (t : Nat) : NInv (s.step (.mailbox t)) := by
  simp only [NSt.step]
  split
  · rename_i d dp box hdp hb
    have hd := dispOf_mem hdp
    split
    · rename_i i g below hl
      have h1 : NInv { s with mail := s.mail.set t (mailScan (argMail i) s.claimed box).1, claimed := claim s.claimed (mailScan (argMail i) s.claimed box).2 } := by
        refine ⟨h.zero, h.pools, ?_, h.fifo, h.crit, h.disps, h.live, h.log⟩
        intro b hb' p hp
        rcases mem_set_cases hb' with hh | hh
        · subst hh; exact h.mail _ (getElem?_mem hb) _ (mailScan_sub _ _ _ _ hp)
        · exact h.mail _ hh _ hp
      split
      · rename_i p hx
        obtain ⟨hp, _, hiso⟩ := mailScan_res _ _ _ _ hx
        have hpok := h.mail _ (getElem?_mem hb) _ hp
        rw [gen_argMail] at hiso
        rw [gen_edAfterIdle]
        exact h1.exec hd hpok.2 hl (by simpa [hpok.1] using hiso)
      · exact h1
    · exact h
  · exact h

theorem NInv.step_popFifo {s : NSt} (h : NInv s) (t : Nat) (fa : Bool) (k : Nat) : NInv (s.step (.popFifo t fa k)) := by
  simp only [NSt.step]
  split
  · rename_i d dp x hdp hx
    have hd := dispOf_mem hdp
    split
    · rename_i i g below hl
      split
      · rename_i hf
        have hi0 := gen_fifo _ _ hf
        rw [gen_argFifo] at hi0
        have h1 : NInv { s with fifo := s.fifo.eraseIdx k } :=
          ⟨h.zero, h.pools, h.mail, fun y hy => h.fifo _ (List.mem_of_mem_eraseIdx hy), h.crit, h.disps, h.live, h.log⟩
        rw [gen_edAfterIdle]
        exact h1.exec (s := { s with fifo := s.fifo.eraseIdx k }) hd (h.fifo _ (getElem?_mem hx)) hl (Or.inl hi0)
      · exact h
    · exact h
  · exact h

theorem NInv.step_popCrit {s : NSt} (h : NInv s) (t : Nat) (k : Nat) : NInv (s.step (.popCrit t k)) := by
  simp only [NSt.step]
  split
  · rename_i d dp hdp
    have hd := dispOf_mem hdp
    split
    · rename_i i g below hl
      exact h.doPopCrit hd hl k
    · exact h
  · exact h

theorem NInv.step_popResume {s : NSt} (h : NInv s) (t : Nat) (k : Nat) : NInv (s.step (.popResume t k)) := by
  simp only [NSt.step]
  split
  · rename_i d dp target hdp hx
    have hd := dispOf_mem hdp
    split
    · rename_i i g below hl
      split
      · have h1 : NInv { s with resume := s.resume.eraseIdx k } :=
          ⟨h.zero, h.pools, h.mail, h.fifo, h.crit, h.disps, h.live, h.log⟩
        exact h1.execResume (s := { s with resume := s.resume.eraseIdx k }) hd target hl
      · exact h
    · exact h
  · exact h

theorem NInv.step_bypass {s : NSt} (h : NInv s) (t : Nat) (k : Option Nat) : NInv (s.step (.bypass t k)) := by
  simp only [NSt.step]
  split
  · rename_i d dp pool hdp hp
    have hd := dispOf_mem hdp
    obtain ⟨h1, h2, h3, h4, h5⟩ := h.disps _ (getElem?_mem hd)
    split
    · rename_i i g below hl
      obtain ⟨se, sr, c, rs, hst⟩ := curLoop_spec hl
      split
      · exact h
      · rename_i hres
        split
        · rename_i k'
          split
          · have hs : NInv (s.doSpawn t dp pool (if critRespawnBeforeEd = true then tagSpawn dp.ed else tagSpawn (edAfterCrit (critTagAt s k')))) :=
              h.doSpawn hp ⟨by simp [gen_respawn, gen_tagSpawn]; exact h1, h2⟩
            exact hs.doPopCrit (s := s.doSpawn t dp pool _) hd hl k'
          · exact h
        · -- run at once: no take, no filter, `ed.isolation` untouched — the running task's tag (`cur = ed`) passed the loop's filter
          rw [hst] at h3 h5 h4
          have hf := h3 _ (List.mem_cons_self ..)
          have hrs : rs = false := by simpa [Disp.runsResume, hst, gen_resumeReturnsNoTask] using hres
          have hcur : i = 0 ∨ dp.ed = i := by
            rcases h5.2.2.1 hrs with hh | hh
            · left; exact hh
            · right; rw [h4]; simpa [ctxTag] using hh
          simp only [gen_bypassKeepsEd, if_true]
          refine ⟨h.zero, h.pools, h.mail, h.fifo, h.crit, ?_, ?_, ?_⟩
          · intro dp' h'
            rcases mem_set_cases h' with e | e
            · subst e
              refine ⟨h1, h2, ?_, ?_, ?_⟩
              · intro f hf'
                rw [hst] at hf'
                simp only [setCur, List.mem_cons] at hf'
                rcases hf' with hf' | hf'
                · subst hf'; exact hf
                · exact h3 f (List.mem_cons_of_mem _ hf')
              · simp [hst, setCur, ctxTag]
              · simp only [hst, setCur]
                exact ⟨h5.1, h5.2.1, fun _ => hcur, h5.2.2.2⟩
            · exact h.disps _ e
          · exact h.live.set_sub hd (fun p s r t e hh => setCur_region hh)
          · intro e he
            simp only [List.mem_append, List.mem_singleton] at he
            rcases he with he | he
            · exact h.log _ he
            · subst he
              refine ⟨fun _ => ⟨?_, hcur, fun hb => by simp at hb, ?_⟩, fun hr => by simp at hr⟩
              · simp only; rw [h5.2.1]; exact h5.1
              · intro hne
                simp only at hne ⊢
                have hit : dp.ed = i := by rcases hcur with hh | hh; exact absurd hh hne; exact hh
                apply region_cases h
                rw [← h1, ← hf.1, hit]
    · exact h
  · exact h

theorem NInv.step_waitWith {s : NSt} (h : NInv s) (t : Nat) (k : Option Nat) : NInv (s.step (.waitWith t k)) := by
  simp only [NSt.step]
  split
  · rename_i d dp pool hdp hp
    have hd := dispOf_mem hdp
    obtain ⟨h1, h2, h3, h4, h5⟩ := h.disps _ (getElem?_mem hd)
    -- the state after the loop frame was pushed (as in `wait`)
    have hk : Dk s.tagOf { dp with stack := .loop (isoLoop dp.ed) dp.reg dp.ed dp.reg dp.ed false :: dp.stack } := by
      refine ⟨h1, h2, ?_, by simp [ctxTag], ⟨h4, gen_loop _, fun _ => Or.inr (gen_loop _).symm, h5⟩⟩
      intro f hf
      simp only [List.mem_cons] at hf
      rcases hf with hf | hf
      · subst hf; exact ⟨by rw [gen_loop]; exact h1, h2, h1, h2⟩
      · exact h3 f hf
    have h0 : NInv (s.setDisp d { dp with stack := .loop (isoLoop dp.ed) dp.reg dp.ed dp.reg dp.ed false :: dp.stack }) := by
      refine h.setDisp hd hk ?_
      intro p s r t e hf
      simp only [List.mem_cons] at hf
      rcases hf with hf | hf
      · cases hf
      · exact hf
    have hd0 : (s.setDisp d { dp with stack := .loop (isoLoop dp.ed) dp.reg dp.ed dp.reg dp.ed false :: dp.stack }).disps[d]? =
        some { dp with stack := .loop (isoLoop dp.ed) dp.reg dp.ed dp.reg dp.ed false :: dp.stack } := by
      have hlt : d < s.disps.length := by
        rcases Nat.lt_or_ge d s.disps.length with hh | hh
        · exact hh
        · rw [List.getElem?_eq_none hh] at hd; cases hd
      simp [NSt.setDisp, hlt]
    split
    · rename_i k'
      split
      · have hs : NInv ((s.setDisp d { dp with stack := .loop (isoLoop dp.ed) dp.reg dp.ed dp.reg dp.ed false :: dp.stack }).doSpawn t
            { dp with stack := .loop (isoLoop dp.ed) dp.reg dp.ed dp.reg dp.ed false :: dp.stack } pool
            (if critRespawnBeforeEd = true then tagSpawn (execWaitTag dp.ed) else tagSpawn (edAfterCrit (critTagAt s k')))) :=
          h0.doSpawn (s := s.setDisp d _) hp ⟨by simp [gen_respawn, gen_tagSpawn, gen_execWaitTag]; exact h1, h2⟩
        exact hs.doPopCrit (s := (s.setDisp d _).doSpawn t _ pool _) hd0 (by simp [Disp.curLoop]) k'
      · exact h
    · refine ⟨h0.zero, h0.pools, h0.mail, h0.fifo, h0.crit, h0.disps, h0.live, ?_⟩
      intro e he
      simp only [NSt.setDisp, List.mem_append, List.mem_singleton] at he
      rcases he with he | he
      · exact h.log _ he
      · subst he
        refine ⟨fun _ => ⟨?_, Or.inr (gen_loop _).symm, fun _ => (gen_execWaitTag _).symm, ?_⟩, fun hr => by simp at hr⟩
        · simp only; rw [gen_loop]; exact h4
        · intro _
          left; rfl
  · exact h

theorem NInv.step_stealCrit {s : NSt} (h : NInv s) (t v k : Nat) : NInv (s.step (.stealCrit t v k)) := by
  simp only [NSt.step]
  split
  · rename_i d dp pool poolT hdp hp hpt
    have hd := dispOf_mem hdp
    split
    · rename_i i g below hl
      split
      · exact h
      · rename_i hvt
        split
        · rename_i x cl c hheld hc
          split
          · -- the held task comes from the victim's pool and passed the thief's filter; it is re-spawned with its own tag
            have hxk : Tk s.tagOf x := by
              split at hheld
              · rename_i y hy
                simp only [Option.some.injEq, Prod.mk.injEq] at hheld
                obtain ⟨rfl, _⟩ := hheld
                exact h.pools _ (getElem?_mem hp) _ (stealScan_res _ _ _ _ _ _ _ hy).1
              · rename_i p hy
                split at hheld
                · cases hheld
                · simp only [Option.some.injEq, Prod.mk.injEq] at hheld
                  obtain ⟨rfl, _⟩ := hheld
                  exact (h.pools _ (getElem?_mem hp) _ (stealScan_res _ _ _ _ _ _ _ hy).1 : Pk s.tagOf p).2
              · cases hheld
            have hx' : Tk s.tagOf { x with tag := if critRespawnBeforeEd = true then tagSpawn (edAfterIdle x.tag) else tagSpawn (edAfterCrit c.tag) } := by
              simp [gen_respawn, gen_tagSpawn, gen_edAfterIdle]; exact hxk
            have hp1 : ∀ q ∈ s.pools.set v (stealScan (argSteal i) s.claimed (fun x => s.idle.getD x false) (s.idle.getD v false) pool false).1,
                ∀ e, some e ∈ q → Ek s.tagOf e := h.subPool hp (fun e he => stealScan_sub _ _ _ _ _ _ _ he)
            have h1 : NInv { s with
                pools := (s.pools.set v (stealScan (argSteal i) s.claimed (fun x => s.idle.getD x false) (s.idle.getD v false) pool false).1).set t
                  (((s.pools.set v (stealScan (argSteal i) s.claimed (fun x => s.idle.getD x false) (s.idle.getD v false) pool false).1).getD t []) ++
                    [some (Entry.plain { x with tag := if critRespawnBeforeEd = true then tagSpawn (edAfterIdle x.tag) else tagSpawn (edAfterCrit c.tag) })]),
                claimed := cl } := by
              refine ⟨h.zero, ?_, h.mail, h.fifo, h.crit, h.disps, h.live, h.log⟩
              intro q hq e he
              rcases mem_set_cases hq with hh | hh
              · subst hh
                simp only [List.mem_append, List.mem_singleton, Option.some.injEq] at he
                rcases he with he | he
                · have hlt : t < (s.pools.set v (stealScan (argSteal i) s.claimed (fun x => s.idle.getD x false) (s.idle.getD v false) pool false).1).length := by
                    rcases Nat.lt_or_ge t s.pools.length with hh | hh
                    · simpa using hh
                    · rw [List.getElem?_eq_none hh] at hpt; cases hpt
                  rw [List.getD_eq_getElem?_getD, List.getElem?_eq_getElem hlt] at he
                  exact hp1 _ (List.getElem_mem hlt) e he
                · subst he; exact hx'
              · exact hp1 q hh e he
            exact h1.doPopCrit hd hl k
          · exact h
        · exact h
    · exact h
  · exact h

theorem NInv.step {s : NSt} (h : NInv s) (op : NOp) : NInv (s.step op) := by
  cases op with
  | wait t => exact h.step_wait t
  | endWait t => exact h.step_endWait t
  | isolate t x f => exact h.step_isolate t x f
  | endIsolate t th => exact h.step_endIsolate t th
  | execBegin t => exact h.step_execBegin t
  | execEnd t => exact h.step_execEnd t
  | spawn t => exact h.step_spawn t
  | spawnAff t d => exact h.step_spawnAff t d
  | enqueue t => exact h.step_enqueue t
  | critical t => exact h.step_critical t
  | setIdle t b => exact h.step_setIdle t b
  | own t => exact h.step_own t
  | steal t v => exact h.step_steal t v
  | stealCrit t v k => exact h.step_stealCrit t v k
  | mailbox t => exact h.step_mailbox t
  | popFifo t fa k => exact h.step_popFifo t fa k
  | popCrit t k => exact h.step_popCrit t k
  | resumeReq d => exact h.step_resumeReq d
  | popResume t k => exact h.step_popResume t k
  | bypass t k => exact h.step_bypass t k
  | waitWith t k => exact h.step_waitWith t k
  | newDisp => exact h.step_newDisp
  | attach t d => exact h.step_attach t d

theorem NInv.run {s : NSt} (h : NInv s) (ops : List NOp) : NInv (s.run ops) := by
  induction ops generalizing s with
  | nil => exact h
  | cons o os ih => exact ih (h.step o)

end TbbVerif.C16.Nest
