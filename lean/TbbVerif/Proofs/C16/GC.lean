/-
C16 — `global_control` storage: the active value of `max_allowed_parallelism` is the minimum of the live controls,
and it is what was last passed to `apply_active` (hence to `threading_control::set_active_num_workers(value - 1)`).
-/
import TbbVerif.Model.C16

namespace TbbVerif.C16

theorem listMin_cons_cons (x y : Nat) (ys : List Nat) : listMin (x :: y :: ys) = min x (listMin (y :: ys)) := rfl

theorem listMin_mem : ∀ {l : List Nat}, l ≠ [] → listMin l ∈ l
  | [x], _ => by simp [listMin]
  | x :: y :: ys, _ => by
    have := listMin_mem (l := y :: ys) (by simp)
    rw [listMin_cons_cons]
    rcases Nat.le_total x (listMin (y :: ys)) with h | h
    · rw [Nat.min_eq_left h]; exact List.mem_cons_self ..
    · rw [Nat.min_eq_right h]; exact List.mem_cons_of_mem _ this

theorem listMin_le : ∀ {l : List Nat} {x : Nat}, x ∈ l → listMin l ≤ x
  | [y], x, h => by simp at h; subst h; simp [listMin]
  | y :: z :: zs, x, h => by
    rw [listMin_cons_cons]
    rcases List.mem_cons.1 h with rfl | h'
    · exact Nat.min_le_left _ _
    · exact Nat.le_trans (Nat.min_le_right _ _) (listMin_le h')

theorem listMin_append_single : ∀ (l : List Nat), l ≠ [] → ∀ v, listMin (l ++ [v]) = min (listMin l) v
  | [x], _, v => by simp [listMin]
  | x :: y :: ys, _, v => by
    have := listMin_append_single (y :: ys) (by simp) v
    simp only [List.cons_append] at this ⊢
    rw [listMin_cons_cons, this, listMin_cons_cons]
    omega

theorem getLast?_concat' {α : Type} (l : List α) (a : α) : (l ++ [a]).getLast? = some a := by
  simp

structure GInv (g : GC) : Prop where
  act : g.preferMin = true → g.live ≠ [] → g.active = listMin (g.live.map (·.2))
  last : g.live ≠ [] → g.applied.getLast? = some g.active
  lastEmpty : g.live = [] → g.applied ≠ [] → g.applied.getLast? = some g.dflt

theorem GInv.create (g : GC) (h v : Nat) (hi : GInv g) : GInv (g.create h v) := by
  unfold GC.create
  by_cases he : g.live = []
  · simp only [he, List.isEmpty_nil, true_or, if_true]
    refine ⟨?_, ?_, ?_⟩
    · intro _ _; simp [GC.apply, he, listMin]
    · intro _; simp [GC.apply]
    · intro hc; simp [GC.apply, he] at hc
  · have hne : g.live.isEmpty = false := by simpa using he
    by_cases hp : g.preferred v g.active = true
    · simp only [hne, hp, Bool.false_eq_true, false_or, if_true]
      refine ⟨?_, ?_, ?_⟩
      · intro hm _
        have hact := hi.act hm he
        simp only [GC.apply, List.map_append, List.map_cons, List.map_nil]
        rw [listMin_append_single _ (by simpa using he)]
        have hm' : g.preferMin = true := hm
        unfold GC.preferred at hp
        rw [hm'] at hp
        simp at hp
        rw [← hact]
        omega
      · intro _; simp [GC.apply]
      · intro hc; simp [GC.apply] at hc
    · simp only [hne, hp, Bool.false_eq_true, false_or, if_false]
      refine ⟨?_, ?_, ?_⟩
      · intro hm _
        have hact := hi.act hm he
        simp only [List.map_append, List.map_cons, List.map_nil]
        rw [listMin_append_single _ (by simpa using he)]
        have hm' : g.preferMin = true := hm
        unfold GC.preferred at hp
        rw [hm'] at hp
        simp at hp
        rw [← hact]
        omega
      · intro _; exact hi.last he
      · intro hc; simp at hc

theorem GInv.destroy (g : GC) (h : Nat) (hi : GInv g) : GInv (g.destroy h) := by
  unfold GC.destroy
  by_cases hany : g.live.any (·.1 == h) = true
  · have hne : g.live ≠ [] := by intro he; simp [he] at hany
    simp only [hany, if_true]
    by_cases hchg : (if (g.live.filter (·.1 != h)).isEmpty then g.dflt else listMin ((g.live.filter (·.1 != h)).map (·.2))) ≠ g.active
    · simp only [hchg, ne_eq, not_false_eq_true, if_true]
      refine ⟨?_, ?_, ?_⟩
      · intro _ hl
        have : (g.live.filter (·.1 != h)).isEmpty = false := by simpa [GC.apply] using hl
        simp [GC.apply, this]
      · intro _; simp [GC.apply]
      · intro hl _
        have : (g.live.filter (·.1 != h)).isEmpty = true := by simpa [GC.apply] using hl
        simp [GC.apply, this]
    · have heq : (if (g.live.filter (·.1 != h)).isEmpty then g.dflt else listMin ((g.live.filter (·.1 != h)).map (·.2))) = g.active := by
        simpa using hchg
      simp only [hchg, if_false]
      refine ⟨?_, ?_, ?_⟩
      · intro _ hl
        have : (g.live.filter (·.1 != h)).isEmpty = false := by simpa using hl
        simp only [this] at heq
        simpa using heq.symm
      · intro _; exact hi.last hne
      · intro hl _
        have : (g.live.filter (·.1 != h)).isEmpty = true := by simpa using hl
        simp only [this, if_true] at heq
        have := hi.last hne
        simpa [heq] using this
  · simp only [hany]
    exact hi

theorem GInv.step (g : GC) (o : GOp) (hi : GInv g) : GInv (g.step o) := by
  cases o with
  | create h v => exact GInv.create g h v hi
  | destroy h => exact GInv.destroy g h hi

theorem GInv.run (ops : List GOp) : ∀ (g : GC), GInv g → GInv (g.run ops) := by
  induction ops with
  | nil => intro g h; exact h
  | cons o os ih => intro g h; exact ih _ (GInv.step g o h)

theorem GInv.init (pm : Bool) (d : Nat) : GInv { preferMin := pm, dflt := d } :=
  ⟨fun _ h => absurd rfl h, fun h => absurd rfl h, fun _ h => absurd rfl h⟩

theorem GC.step_preferMin (g : GC) (o : GOp) : (g.step o).preferMin = g.preferMin := by
  cases o with
  | create h v =>
    simp only [GC.step, GC.create]
    split <;> rfl
  | destroy h =>
    simp only [GC.step, GC.destroy]
    split
    · split <;> split <;> rfl
    · rfl

theorem GC.run_preferMin (g : GC) (ops : List GOp) : (g.run ops).preferMin = g.preferMin := by
  induction ops generalizing g with
  | nil => rfl
  | cons o os ih =>
    show ((g.step o).run os).preferMin = g.preferMin
    rw [ih, GC.step_preferMin]

end TbbVerif.C16
