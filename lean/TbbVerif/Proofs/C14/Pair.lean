/-
C14 helper lemmas: the push/pull switching protocol between an input_node S and a rejecting function node R
(`PullPair`), for every order of task executions and external try_puts.
-/
import TbbVerif.Proofs.C14.Func
import TbbVerif.Proofs.C14.Caches

namespace TbbVerif.C14
namespace PullPair

structure PInv (first : Nat) (p : PullPair) : Prop where
  si : InputNode.Inv p.s
  sf : p.s.first = first
  ri : FuncInput.Inv p.r
  rq : p.r.queue = none
  edge : (p.s.succs = [rid] ∧ p.r.preds = []) ∨ (p.s.succs = [] ∧ p.r.preds = [sid])
  acc : ∀ m, p.r.accepted.count m = p.s.delivered.count m + p.ext.count m
  nr : p.s.reserved = false
  fb : p.fwdTasks = (if p.r.fwdBusy then 1 else 0)
  m0 : p.r.preds ≠ [] → p.r.maxc ≠ 0
  prog : p.s.active = true → (p.s.hasItem = true ∨ p.s.next < p.s.stop) →
    0 < p.putTasks ∨ (p.r.preds = [sid] ∧ (0 < p.fwdTasks ∨ p.r.running ≠ []))

theorem inv_init (first stop maxc : Nat) : PInv first (init first stop maxc) := by
  refine ⟨?_, rfl, FuncInput.inv_new maxc false, rfl, Or.inl ⟨rfl, rfl⟩, ?_, rfl, rfl, ?_, ?_⟩
  · constructor <;> simp [init, InputNode.new]
  · intro m; simp [init, FuncInput.new, InputNode.new]
  · intro h; simp [init, FuncInput.new] at h
  · intro h; simp [init, InputNode.new] at h

/-- running is non-empty when all slots of a limited node are taken -/
theorem running_ne_of_full {r : FuncInput} (hi : FuncInput.Inv r) (h0 : r.maxc ≠ 0) (hc : r.conc = r.maxc) :
    r.running ≠ [] := by
  intro he
  have := hi.conc_eq h0
  rw [he] at this
  simp at this
  omega

theorem inv_extPut {first : Nat} {p : PullPair} (h : PInv first p) (m : Nat) : PInv first (p.step (.extPut m)).1 := by
  obtain ⟨si, sf, ri, rq, edge, acc, nr, fb, m0, prog⟩ := h
  have hI := FuncInput.inv_step ri (.tryput m)
  simp only [step]
  rcases FuncInput.tryput_spec p.r m with hrej | ⟨ho, hr, hq, ha, hf, hp⟩ | ⟨ho, hr, hq, ha, hf, hp⟩
  · rw [hrej]; simp
    exact ⟨si, sf, ri, rq, edge, acc, nr, fb, m0, prog⟩
  · generalize hstep : p.r.step (.tryput m) = q at *
    obtain ⟨r1, out⟩ := q
    simp only at ho hr hq ha hf hp hI
    subst ho
    have hqn : r1.queue = none := by
      have := FuncInput.step_queue_isSome p.r (.tryput m)
      rw [hstep] at this; simp [rq] at this; simpa using this
    have hmx : r1.maxc = p.r.maxc := by have := FuncInput.step_maxc p.r (.tryput m); rw [hstep] at this; exact this
    have hfb : r1.fwdBusy = p.r.fwdBusy := by
      have : (p.r.step (.tryput m)).1.fwdBusy = p.r.fwdBusy := by
        simp only [FuncInput.gen_tryput, FuncInput.gen_occupy, FuncInput.gen_done, FuncInput.gen_fwd, FuncInput.gen_dec, FuncInput.gen_fcb, FuncInput.gen_rps, decide_eq_true_eq, Bool.not_true, Bool.and_false, FuncInput.step]; (repeat' split) <;> rfl
      rw [hstep] at this; exact this
    refine ⟨si, sf, hI, hqn, ?_, ?_, nr, ?_, ?_, ?_⟩
    · simpa [hp] using edge
    · intro x; have := acc x; simp [ha, List.count_cons] at this ⊢; omega
    · simp [hfb]; exact fb
    · simp [hp, hmx]; exact m0
    · intro h1 h2
      rcases prog h1 h2 with h3 | ⟨h3, h4⟩
      · left; exact h3
      · right; refine ⟨by simpa [hp] using h3, ?_⟩
        rcases h4 with h4 | h4
        · left; exact h4
        · right; simp [hr]
  · -- a rejecting node never answers `queued`
    exfalso
    have : (p.r.step (.tryput m)).2 ≠ .queued := by
      simp only [FuncInput.gen_tryput, FuncInput.gen_occupy, FuncInput.gen_done, FuncInput.gen_fwd, FuncInput.gen_dec, FuncInput.gen_fcb, FuncInput.gen_rps, decide_eq_true_eq, Bool.not_true, Bool.and_false, FuncInput.step, rq]; (repeat' split) <;> simp
    exact this ho

/-- in pull mode a forwarder task is pending or a body of R is running -/
theorem pull_mode_alive {r : FuncInput} {ft : Nat} (ri : FuncInput.Inv r) (rq : r.queue = none)
    (fb : ft = (if r.fwdBusy then 1 else 0)) (m0 : r.preds ≠ [] → r.maxc ≠ 0) (hp : r.preds = [sid]) :
    0 < ft ∨ r.running ≠ [] := by
  have hne : r.preds ≠ [] := by rw [hp]; simp
  rcases ri.pull rq hne with hb | hc
  · left; rw [fb, hb]; simp
  · right; exact running_ne_of_full ri (m0 hne) hc

theorem inv_activate {first : Nat} {p : PullPair} (h : PInv first p) : PInv first (p.step .activate).1 := by
  obtain ⟨si, sf, ri, rq, edge, acc, nr, fb, m0, prog⟩ := h
  have hI := InputNode.inv_step si .activate
  simp only [step, InputNode.step] at hI ⊢
  refine ⟨hI, sf, ri, rq, edge, acc, nr, fb, m0, ?_⟩
  intro _ _
  rcases edge with ⟨e1, e2⟩ | ⟨e1, e2⟩
  · left; simp [e1, b2n]
  · right; exact ⟨e2, pull_mode_alive ri rq fb m0 e2⟩

/-! ### what the operations of R do on a rejecting node -/

theorem tryput_rej {r : FuncInput} (hq : r.queue = none) (v : Nat) :
    (r.step (.tryput v) = (r, .rejected) ∧ r.maxc ≠ 0 ∧ ¬ r.conc < r.maxc) ∨
    ((r.step (.tryput v)).2 = .run v ∧ (r.step (.tryput v)).1.running = v :: r.running ∧
      (r.step (.tryput v)).1.accepted = v :: r.accepted ∧ (r.step (.tryput v)).1.preds = r.preds ∧
      (r.step (.tryput v)).1.fwdBusy = r.fwdBusy ∧ (r.step (.tryput v)).1.queue = none ∧
      (r.step (.tryput v)).1.maxc = r.maxc) := by
  simp only [FuncInput.gen_tryput, FuncInput.gen_occupy, FuncInput.gen_done, FuncInput.gen_fwd, FuncInput.gen_dec, FuncInput.gen_fcb, FuncInput.gen_rps, decide_eq_true_eq, Bool.not_true, Bool.and_false, FuncInput.step]
  split
  · right; simp [hq]
  · rename_i h0
    split
    · right; simp [hq]
    · rename_i hc
      left; simp [hq]; exact ⟨h0, by omega⟩

theorem regPred_spec (r : FuncInput) (q : Nat) :
    (r.step (.regPred q)).1 = { r with preds := r.preds ++ [q], fwdBusy := true } ∧
    (r.step (.regPred q)).2 = .reg (!r.fwdBusy) := by
  simp only [FuncInput.gen_tryput, FuncInput.gen_occupy, FuncInput.gen_done, FuncInput.gen_fwd, FuncInput.gen_dec, FuncInput.gen_fcb, FuncInput.gen_rps, decide_eq_true_eq, Bool.not_true, Bool.and_false, FuncInput.step]
  split
  · rename_i hb; simp [hb]
  · rename_i hb; simp at hb; simp [hb]

theorem getItem_one_some (q v : Nat) : getItem [q] [some v] = (some v, [q], []) := by simp [getItem]
theorem getItem_one_none (q : Nat) : getItem [q] [none] = (none, [], [q]) := by simp [getItem]

/-- `p.pull` when R has no predecessor registered -/
theorem pull_nil {p : PullPair} (h : p.r.preds = []) : p.pull = ([], p.s, 0) := by
  simp [pull, h]

theorem pull_item {p : PullPair} (h : p.r.preds = [sid]) (hr : p.s.reserved = false) (hi : p.s.hasItem = true) :
    p.pull = ([some p.s.item], { p.s with hasItem := false, delivered := p.s.item :: p.s.delivered }, 0) := by
  simp [pull, h, InputNode.step, hr, hi]

theorem pull_none {p : PullPair} (h : p.r.preds = [sid]) (hr : p.s.reserved = false) (hi : p.s.hasItem = false) :
    p.pull = ([none], { p.s with succs := p.s.succs ++ [rid] }, b2n p.s.active + b2n p.s.active) := by
  simp [pull, h, InputNode.step, hr, hi, succAdd]

/-- fields that `app_body_bypass` / `try_fwd` never touch -/
theorem done_frame (r : FuncInput) (m : Nat) (ans) :
    (r.step (.done m ans)).1.fwdBusy = r.fwdBusy ∧ (r.step (.done m ans)).1.maxc = r.maxc ∧
    ((r.step (.done m ans)).1.queue = none ↔ r.queue = none) := by
  refine ⟨?_, FuncInput.step_maxc r _, ?_⟩
  · simp only [FuncInput.gen_tryput, FuncInput.gen_occupy, FuncInput.gen_done, FuncInput.gen_fwd, FuncInput.gen_dec, FuncInput.gen_fcb, FuncInput.gen_rps, decide_eq_true_eq, Bool.not_true, Bool.and_false, FuncInput.step]
    split
    · split
      · rfl
      · split
        · simp [FuncInput.pqr_fwdBusy]
        · rfl
    · rfl
  · have := FuncInput.step_queue_isSome r (.done m ans)
    constructor
    · intro h; rw [h] at this; cases hq : r.queue <;> simp_all
    · intro h; rw [h] at this; cases hq : (r.step (.done m ans)).1.queue <;> simp_all

/-- `app_body_bypass` of a rejecting limited node with a free slot afterwards -/
theorem done_rej {r : FuncInput} (hq : r.queue = none) {m : Nat} (hm : m ∈ r.running) (h0 : r.maxc ≠ 0)
    (hlt : r.conc - 1 < r.maxc) (ans : List (Option Nat)) :
    let r' := (r.step (.done m ans)).1
    r'.finished = m :: r.finished ∧
    (r.preds = [] → r'.preds = [] ∧ r'.running = r.running.erase m ∧ r'.accepted = r.accepted) ∧
    (∀ q v, r.preds = [q] → ans = [some v] →
      r'.preds = [q] ∧ r'.running = v :: r.running.erase m ∧ r'.accepted = v :: r.accepted) ∧
    (∀ q, r.preds = [q] → ans = [none] →
      r'.preds = [] ∧ r'.running = r.running.erase m ∧ r'.accepted = r.accepted) := by
  simp only [FuncInput.gen_tryput, FuncInput.gen_occupy, FuncInput.gen_done, FuncInput.gen_fwd, FuncInput.gen_dec, FuncInput.gen_fcb, FuncInput.gen_rps, decide_eq_true_eq, Bool.not_true, Bool.and_false, FuncInput.step, hm, if_true, h0, if_false]
  simp only [hlt, if_true, FuncInput.pqr, hq]
  refine ⟨?_, ?_, ?_, ?_⟩
  · split <;> rfl
  · intro hp; simp [hp, getItem]
  · intro q v hp ha; simp [hp, ha, getItem]
  · intro q hp ha; simp [hp, ha, getItem]

theorem done_unl {r : FuncInput} {m : Nat} (hm : m ∈ r.running) (h0 : r.maxc = 0) (ans : List (Option Nat)) :
    (r.step (.done m ans)).1.preds = r.preds ∧ (r.step (.done m ans)).1.accepted = r.accepted := by
  simp [FuncInput.gen_tryput, FuncInput.gen_occupy, FuncInput.gen_done, FuncInput.gen_fwd, FuncInput.gen_dec, FuncInput.gen_fcb, FuncInput.gen_rps, decide_eq_true_eq, Bool.not_true, Bool.and_false, FuncInput.step, hm, h0]

theorem inv_bodyDone {first : Nat} {p : PullPair} (h : PInv first p) (m : Nat) : PInv first (p.step (.bodyDone m)).1 := by
  obtain ⟨si, sf, ri, rq, edge, acc, nr, fb, m0, prog⟩ := h
  simp only [step]
  split
  · rename_i hm
    have hlen : 0 < p.r.running.length := List.length_pos_of_mem hm
    by_cases h0 : p.r.maxc = 0
    · -- unlimited: no pull, push mode
      have hfree : (decide (p.r.maxc ≠ 0) && Generated.C14.doneFree (p.r.conc - Generated.C14.doneDecrement) p.r.maxc) = false := by simp [h0]
      simp only [hfree, Bool.false_eq_true, if_false]
      have hI := FuncInput.inv_step ri (.done m [])
      obtain ⟨f1, f2, f3⟩ := done_frame p.r m []
      obtain ⟨d1, d2⟩ := done_unl hm h0 []
      have hp0 : p.r.preds = [] := by
        by_cases hp : p.r.preds = []
        · exact hp
        · exact absurd h0 (m0 hp)
      refine ⟨si, sf, hI, f3.mpr rq, ?_, ?_, nr, ?_, ?_, ?_⟩
      · rcases edge with ⟨e1, e2⟩ | ⟨e1, e2⟩
        · left; exact ⟨e1, by simp [d1, e2]⟩
        · rw [hp0] at e2; simp at e2
      · intro x; simp [d2]; exact acc x
      · simp [f1]; exact fb
      · simp [d1, f2]; exact m0
      · intro a1 a2
        rcases prog a1 a2 with h3 | ⟨h3, _⟩
        · left; exact h3
        · rw [hp0] at h3; simp at h3
    · have hce := ri.conc_eq h0
      have hlt : p.r.conc - 1 < p.r.maxc := by have := ri.conc_le; omega
      have hfree : (decide (p.r.maxc ≠ 0) && Generated.C14.doneFree (p.r.conc - Generated.C14.doneDecrement) p.r.maxc) = true := by
        simp [h0, hlt, FuncInput.gen_done, FuncInput.gen_dec]
      simp only [hfree, if_true]
      rcases edge with ⟨e1, e2⟩ | ⟨e1, e2⟩
      · -- push mode
        rw [pull_nil e2]
        simp only
        have hI := FuncInput.inv_step ri (.done m [])
        obtain ⟨f1, f2, f3⟩ := done_frame p.r m []
        obtain ⟨_, d1, _, _⟩ := done_rej rq hm h0 hlt []
        obtain ⟨d1, d2, d3⟩ := d1 e2
        refine ⟨si, sf, hI, f3.mpr rq, Or.inl ⟨e1, d1⟩, ?_, nr, ?_, ?_, ?_⟩
        · intro x; simp [d3]; exact acc x
        · simp [f1]; exact fb
        · intro hne; simp [d1] at hne
        · intro a1 a2
          rcases prog a1 a2 with h3 | ⟨h3, _⟩
          · left; simpa using h3
          · rw [e2] at h3; simp at h3
      · -- pull mode
        by_cases hi : p.s.hasItem = true
        · rw [pull_item e2 nr hi]
          simp only
          have hI := FuncInput.inv_step ri (.done m [some p.s.item])
          obtain ⟨f1, f2, f3⟩ := done_frame p.r m [some p.s.item]
          obtain ⟨_, _, d2, _⟩ := done_rej rq hm h0 hlt [some p.s.item]
          obtain ⟨d1, d2, d3⟩ := d2 sid p.s.item e2 rfl
          have hS := InputNode.inv_step si .tryGet
          simp only [InputNode.step, nr, hi] at hS
          refine ⟨by simpa [nr] using hS, sf, hI, f3.mpr rq, Or.inr ⟨e1, d1⟩, ?_, nr, ?_, ?_, ?_⟩
          · intro x; have := acc x; simp [d3, List.count_cons] at this ⊢; omega
          · simp [f1]; exact fb
          · intro _; simp [f2]; exact h0
          · intro _ _; right; exact ⟨d1, Or.inr (by simp [d2])⟩
        · simp at hi
          rw [pull_none e2 nr hi]
          simp only
          have hI := FuncInput.inv_step ri (.done m [none])
          obtain ⟨f1, f2, f3⟩ := done_frame p.r m [none]
          obtain ⟨_, _, _, d3⟩ := done_rej rq hm h0 hlt [none]
          obtain ⟨d1, d2, d3⟩ := d3 sid e2 rfl
          refine ⟨?_, sf, hI, f3.mpr rq, Or.inl ⟨by simp [e1], d1⟩, ?_, nr, ?_, ?_, ?_⟩
          · exact ⟨si.le, si.gen, si.res⟩
          · intro x; simp [d3]; exact acc x
          · simp [f1]; exact fb
          · intro hne; simp [d1] at hne
          · intro a1 _; left
            have : p.s.active = true := a1
            simp [this, b2n]
  · exact ⟨si, sf, ri, rq, edge, acc, nr, fb, m0, prog⟩

/-- `try_reserve_apply_body` on an unreserved input node -/
theorem reserveApply_spec {s : InputNode} (hr : s.reserved = false) :
    ((s.hasItem = false ∧ ¬ s.next < s.stop) ∧ s.step .reserveApply = (s, .res none false)) ∨
    (∃ s1 v, s.step .reserveApply = (s1, .res (some v) false) ∧ s1.reserved = true ∧ s1.hasItem = true ∧
      s1.item = v ∧ s1.succs = s.succs ∧ s1.delivered = s.delivered ∧ s1.active = s.active ∧
      s1.first = s.first) := by
  by_cases hi : s.hasItem = true
  · right
    refine ⟨{ s with reserved := true }, s.item, ?_, rfl, hi, rfl, rfl, rfl, rfl, rfl⟩
    simp [InputNode.step, hr, hi]
  · simp at hi
    by_cases hlt : s.next < s.stop
    · right
      refine ⟨{ s with item := s.next, next := s.next + 1, hasItem := true, reserved := true }, s.next, ?_, rfl, rfl, rfl, rfl, rfl, rfl, rfl⟩
      simp [InputNode.step, hr, hi, hlt]
    · left; simp [InputNode.step, hr, hi, hlt]

/-- changing the successor set does not affect the item bookkeeping -/
theorem inv_succs {s : InputNode} (h : InputNode.Inv s) (x : List Nat) : InputNode.Inv { s with succs := x } :=
  ⟨h.le, h.gen, h.res⟩

theorem inv_putTask {first : Nat} {p : PullPair} (h : PInv first p) : PInv first (p.step .putTask).1 := by
  obtain ⟨si, sf, ri, rq, edge, acc, nr, fb, m0, prog⟩ := h
  simp only [step]
  split
  · exact ⟨si, sf, ri, rq, edge, acc, nr, fb, m0, prog⟩
  · rename_i hpt
    have hS1 := InputNode.inv_step si .reserveApply
    rcases reserveApply_spec nr with ⟨⟨c1, c2⟩, hstep⟩ | ⟨s1, v, hstep, b1, b2, b3, b4, b5, b6, b7⟩
    · -- the generator is exhausted: nothing to send
      simp only [hstep]
      refine ⟨si, sf, ri, rq, edge, acc, nr, fb, m0, ?_⟩
      intro _ a2
      rcases a2 with a2 | a2
      · rw [c1] at a2; cases a2
      · exact absurd a2 c2
    · simp only [hstep] at hS1 ⊢
      have hanyR : ([(rid, Resp.reject true)].any fun o => decide (o.2 = Resp.accept)) = false := by decide
      have hanyA : ([(rid, Resp.accept)].any fun o => decide (o.2 = Resp.accept)) = true := by decide
      have hanyN : (([] : List (Nat × Resp)).any fun o => decide (o.2 = Resp.accept)) = false := by decide
      rcases edge with ⟨e1, e2⟩ | ⟨e1, e2⟩
      · -- push mode: R is offered `v`
        rw [b4, e1]
        simp only [bcastM]
        obtain ⟨r1, out1, hst⟩ : ∃ r1 out1, p.r.step (.tryput v) = (r1, out1) := ⟨_, _, rfl⟩
        have hIr := FuncInput.inv_step ri (.tryput v)
        rw [hst] at hIr
        simp only [hst]
        rcases tryput_rej rq v with ⟨hrej, hmx, hfull⟩ | ⟨ho, t1, t2, t3, t4, t5, t6⟩
        · -- rejected: register_predecessor, the edge flips to pull, the item stays cached (release)
          rw [hst] at hrej
          injection hrej with hr1 hout
          subst hr1; subst hout
          obtain ⟨g1, g2⟩ := regPred_spec p.r sid
          obtain ⟨r2, out2, hreg⟩ : ∃ r2 out2, p.r.step (.regPred sid) = (r2, out2) := ⟨_, _, rfl⟩
          rw [hreg] at g1 g2
          simp only [hreg]
          simp only at g1 g2
          subst g2
          have hI := FuncInput.inv_step ri (.regPred sid)
          rw [hreg] at hI
          simp only at hI
          have hS3 := InputNode.inv_step (inv_succs hS1 []) .tryRelease
          simp only [InputNode.step, b1, b2, Bool.and_self, if_true] at hS3
          simp only [hanyR, Bool.false_eq_true, if_false, if_true, InputNode.step, b1, b2, Bool.and_self]
          have hc : p.r.conc = p.r.maxc := by have := ri.conc_le; omega
          refine ⟨hS3, ?_, hI, ?_, ?_, ?_, rfl, ?_, ?_, ?_⟩
          · show s1.first = first; rw [b7]; exact sf
          · show r2.queue = none; rw [g1]; exact rq
          · right; refine ⟨rfl, ?_⟩; show r2.preds = [sid]; rw [g1]; simp [e2]
          · intro x; show r2.accepted.count x = s1.delivered.count x + p.ext.count x
            rw [g1, b5]; exact acc x
          · show p.fwdTasks + (0 + b2n (!p.r.fwdBusy)) = if r2.fwdBusy then 1 else 0
            rw [g1, fb]; cases hb : p.r.fwdBusy <;> simp [b2n]
          · intro _; show r2.maxc ≠ 0; rw [g1]; exact hmx
          · intro _ _
            right
            refine ⟨by show r2.preds = [sid]; rw [g1]; simp [e2], Or.inr ?_⟩
            show r2.running ≠ []
            rw [g1]
            show p.r.running ≠ []
            exact running_ne_of_full ri hmx hc
        · -- accepted: consume, a new put task is spawned
          rw [hst] at ho t1 t2 t3 t4 t5 t6
          simp only at ho t1 t2 t3 t4 t5 t6
          subst ho
          have hS3 := InputNode.inv_step (inv_succs hS1 [rid]) .tryConsume
          simp only [InputNode.step, b1, b2, Bool.and_self, if_true] at hS3
          have hne : ¬ (Resp.accept = Resp.reject true) := by decide
          simp only [hne, hanyA, if_false, if_true, InputNode.step, b1, b2, Bool.and_self]
          refine ⟨hS3, ?_, hIr, t5, ?_, ?_, rfl, ?_, ?_, ?_⟩
          · show s1.first = first; rw [b7]; exact sf
          · left; exact ⟨rfl, by show r1.preds = []; rw [t3]; exact e2⟩
          · intro x; show r1.accepted.count x = (s1.item :: s1.delivered).count x + p.ext.count x
            have := acc x; rw [b5, b3, t2]; simp [List.count_cons] at this ⊢; omega
          · show p.fwdTasks + 0 = if r1.fwdBusy then 1 else 0
            rw [t4]; simpa using fb
          · show r1.preds ≠ [] → r1.maxc ≠ 0; rw [t3, t6]; exact m0
          · intro _ _; left; show 0 < p.putTasks - 1 + b2n (![rid].isEmpty); simp [b2n]
      · -- pull mode: no successor in the push set, the item is released and stays cached
        rw [b4, e1]
        simp only [bcastM]
        have hS3 := InputNode.inv_step (inv_succs hS1 []) .tryRelease
        simp only [InputNode.step, b1, b2, Bool.and_self, if_true] at hS3
        simp only [hanyN, Bool.false_eq_true, if_false, if_true, InputNode.step, b1, b2, Bool.and_self]
        refine ⟨hS3, ?_, ri, rq, ?_, ?_, rfl, ?_, m0, ?_⟩
        · show s1.first = first; rw [b7]; exact sf
        · right; exact ⟨rfl, e2⟩
        · intro x; show p.r.accepted.count x = s1.delivered.count x + p.ext.count x; rw [b5]; exact acc x
        · show p.fwdTasks + 0 = _; simpa using fb
        · intro _ _; right; exact ⟨e2, pull_mode_alive ri rq fb m0 e2⟩

/-- `try_fwd` on a rejecting node -/
theorem fwd_rej {r : FuncInput} (hq : r.queue = none) (ans : List (Option Nat)) :
    let r' := (r.step (.fwd ans)).1
    let o := (r.step (.fwd ans)).2
    (¬ r.conc < r.maxc → o = .next none [] ∧ r'.preds = r.preds ∧ r'.fwdBusy = false ∧
        r'.running = r.running ∧ r'.accepted = r.accepted) ∧
    (r.conc < r.maxc → r.preds = [] → o = .next none [] ∧ r'.preds = [] ∧ r'.fwdBusy = false ∧
        r'.running = r.running ∧ r'.accepted = r.accepted) ∧
    (∀ q v, r.conc < r.maxc → r.preds = [q] → ans = [some v] → o = .next (some v) [] ∧ r'.preds = [q] ∧
        r'.fwdBusy = r.fwdBusy ∧ r'.running = v :: r.running ∧ r'.accepted = v :: r.accepted ∧ r'.conc = r.conc + 1) ∧
    (∀ q, r.conc < r.maxc → r.preds = [q] → ans = [none] → o = .next none [q] ∧ r'.preds = [] ∧
        r'.fwdBusy = false ∧ r'.running = r.running ∧ r'.accepted = r.accepted) := by
  refine ⟨?_, ?_, ?_, ?_⟩
  · intro h; simp [FuncInput.gen_tryput, FuncInput.gen_occupy, FuncInput.gen_done, FuncInput.gen_fwd, FuncInput.gen_dec, FuncInput.gen_fcb, FuncInput.gen_rps, decide_eq_true_eq, Bool.not_true, Bool.and_false, FuncInput.step, h]
  · intro h hp; simp [FuncInput.gen_tryput, FuncInput.gen_occupy, FuncInput.gen_done, FuncInput.gen_fwd, FuncInput.gen_dec, FuncInput.gen_fcb, FuncInput.gen_rps, decide_eq_true_eq, Bool.not_true, Bool.and_false, FuncInput.step, h, FuncInput.pqr, hq, hp, getItem]
  · intro q v h hp ha; simp [FuncInput.gen_tryput, FuncInput.gen_occupy, FuncInput.gen_done, FuncInput.gen_fwd, FuncInput.gen_dec, FuncInput.gen_fcb, FuncInput.gen_rps, decide_eq_true_eq, Bool.not_true, Bool.and_false, FuncInput.step, h, FuncInput.pqr, hq, hp, ha, getItem]
  · intro q h hp ha; simp [FuncInput.gen_tryput, FuncInput.gen_occupy, FuncInput.gen_done, FuncInput.gen_fwd, FuncInput.gen_dec, FuncInput.gen_fcb, FuncInput.gen_rps, decide_eq_true_eq, Bool.not_true, Bool.and_false, FuncInput.step, h, FuncInput.pqr, hq, hp, ha, getItem]

theorem fwd_frame (r : FuncInput) (ans) :
    (r.step (.fwd ans)).1.maxc = r.maxc ∧ ((r.step (.fwd ans)).1.queue = none ↔ r.queue = none) := by
  refine ⟨FuncInput.step_maxc r _, ?_⟩
  have := FuncInput.step_queue_isSome r (.fwd ans)
  constructor
  · intro h; rw [h] at this; cases hq : r.queue <;> simp_all
  · intro h; rw [h] at this; cases hq : (r.step (.fwd ans)).1.queue <;> simp_all

/-- the invariant while the forwarder task of R is running -/
structure LInv (first : Nat) (p : PullPair) : Prop where
  si : InputNode.Inv p.s
  sf : p.s.first = first
  ri : FuncInput.Inv p.r
  rq : p.r.queue = none
  edge : (p.s.succs = [rid] ∧ p.r.preds = []) ∨ (p.s.succs = [] ∧ p.r.preds = [sid])
  acc : ∀ m, p.r.accepted.count m = p.s.delivered.count m + p.ext.count m
  nr : p.s.reserved = false
  busy : p.r.fwdBusy = true ∧ p.fwdTasks = 0
  m0 : p.r.preds ≠ [] → p.r.maxc ≠ 0
  prog : p.s.active = true → (p.s.hasItem = true ∨ p.s.next < p.s.stop) → 0 < p.putTasks ∨ p.r.preds = [sid]

theorem fwdLoop_inv {first : Nat} : ∀ (fuel : Nat) (p : PullPair), LInv first p → p.r.maxc - p.r.conc < fuel →
    PInv first (fwdLoop fuel p) := by
  intro fuel
  induction fuel with
  | zero => intro p _ h; omega
  | succ fuel ih =>
    intro p hl hfuel
    obtain ⟨si, sf, ri, rq, edge, acc, nr, ⟨bz, ft⟩, m0, prog⟩ := hl
    simp only [fwdLoop, FuncInput.gen_fwd]
    by_cases hfree : p.r.conc < p.r.maxc
    · simp only [hfree, decide_true, if_true]
      rcases edge with ⟨e1, e2⟩ | ⟨e1, e2⟩
      · -- push mode: nothing to pull, the forwarder ends
        rw [pull_nil e2]
        simp only
        obtain ⟨_, f2, _, _⟩ := fwd_rej rq ([] : List (Option Nat))
        obtain ⟨o1, o2, o3, o4, o5⟩ := f2 hfree e2
        obtain ⟨g1, g2⟩ := fwd_frame p.r []
        have hI := FuncInput.inv_step ri (.fwd [])
        obtain ⟨r1, out, hst⟩ : ∃ r1 out, p.r.step (.fwd []) = (r1, out) := ⟨_, _, rfl⟩
        rw [hst] at o1 o2 o3 o4 o5 g1 g2 hI
        simp only at o1 o2 o3 o4 o5 g1 g2 hI
        simp only [hst, o1]
        refine ⟨si, sf, hI, g2.mpr rq, Or.inl ⟨e1, o2⟩, ?_, nr, ?_, ?_, ?_⟩
        · intro x; show r1.accepted.count x = _; rw [o5]; exact acc x
        · show p.fwdTasks = if r1.fwdBusy then 1 else 0; rw [o3, ft]; simp
        · intro hne; exact absurd o2 hne
        · intro a1 a2
          rcases prog a1 a2 with h3 | h3
          · left; simpa using h3
          · rw [e2] at h3; simp at h3
      · by_cases hi : p.s.hasItem = true
        · -- pull mode, S has an item: R takes it and the loop continues
          rw [pull_item e2 nr hi]
          simp only
          obtain ⟨_, _, f3, _⟩ := fwd_rej rq [some p.s.item]
          obtain ⟨o1, o2, o3, o4, o5, o6⟩ := f3 sid p.s.item hfree e2 rfl
          obtain ⟨g1, g2⟩ := fwd_frame p.r [some p.s.item]
          have hI := FuncInput.inv_step ri (.fwd [some p.s.item])
          obtain ⟨r1, out, hst⟩ : ∃ r1 out, p.r.step (.fwd [some p.s.item]) = (r1, out) := ⟨_, _, rfl⟩
          rw [hst] at o1 o2 o3 o4 o5 o6 g1 g2 hI
          simp only at o1 o2 o3 o4 o5 o6 g1 g2 hI
          simp only [hst, o1]
          apply ih
          · have hS := InputNode.inv_step si .tryGet
            simp only [InputNode.step, nr, hi] at hS
            refine ⟨by simpa [nr] using hS, sf, hI, g2.mpr rq, Or.inr ⟨e1, o2⟩, ?_, nr, ⟨by rw [o3]; exact bz, ft⟩, ?_, ?_⟩
            · intro x; show r1.accepted.count x = (p.s.item :: p.s.delivered).count x + p.ext.count x
              have := acc x; rw [o5]; simp [List.count_cons] at this ⊢; omega
            · intro _; show r1.maxc ≠ 0; rw [g1]; omega
            · intro _ _; right; exact o2
          · show r1.maxc - r1.conc < fuel
            rw [g1, o6]; omega
        · -- pull mode, S has nothing: the edge goes back to push, S is asked to produce
          simp at hi
          rw [pull_none e2 nr hi]
          simp only
          obtain ⟨_, _, _, f4⟩ := fwd_rej rq [none]
          obtain ⟨o1, o2, o3, o4, o5⟩ := f4 sid hfree e2 rfl
          obtain ⟨g1, g2⟩ := fwd_frame p.r [none]
          have hI := FuncInput.inv_step ri (.fwd [none])
          obtain ⟨r1, out, hst⟩ : ∃ r1 out, p.r.step (.fwd [none]) = (r1, out) := ⟨_, _, rfl⟩
          rw [hst] at o1 o2 o3 o4 o5 g1 g2 hI
          simp only at o1 o2 o3 o4 o5 g1 g2 hI
          simp only [hst, o1]
          refine ⟨⟨si.le, si.gen, si.res⟩, sf, hI, g2.mpr rq, Or.inl ⟨by simp [e1], o2⟩, ?_, nr, ?_, ?_, ?_⟩
          · intro x; show r1.accepted.count x = _; rw [o5]; exact acc x
          · show p.fwdTasks = if r1.fwdBusy then 1 else 0; rw [o3, ft]; simp
          · intro hne; exact absurd o2 hne
          · intro a1 _; left
            have : p.s.active = true := a1
            show 0 < p.putTasks + (b2n p.s.active + b2n p.s.active)
            simp [this, b2n]
    · -- no free slot: the forwarder gives up
      have hdf : decide (p.r.conc < p.r.maxc) = false := by simp [hfree]
      simp only [hdf, Bool.false_eq_true, if_false]
      obtain ⟨f1, _, _, _⟩ := fwd_rej rq ([] : List (Option Nat))
      obtain ⟨o1, o2, o3, o4, o5⟩ := f1 hfree
      obtain ⟨g1, g2⟩ := fwd_frame p.r []
      have hI := FuncInput.inv_step ri (.fwd [])
      obtain ⟨r1, out, hst⟩ : ∃ r1 out, p.r.step (.fwd []) = (r1, out) := ⟨_, _, rfl⟩
      rw [hst] at o1 o2 o3 o4 o5 g1 g2 hI
      simp only at o1 o2 o3 o4 o5 g1 g2 hI
      have hpull : ∃ a b c, p.pull = (a, b, c) := ⟨_, _, _, rfl⟩
      obtain ⟨a, b, c, hpl⟩ := hpull
      simp only [hpl, hst, o1]
      have hc : p.r.conc = p.r.maxc := by have := ri.conc_le; omega
      refine ⟨si, sf, hI, g2.mpr rq, ?_, ?_, nr, ?_, ?_, ?_⟩
      · show (p.s.succs = [rid] ∧ r1.preds = []) ∨ (p.s.succs = [] ∧ r1.preds = [sid]); rw [o2]; exact edge
      · intro x; show r1.accepted.count x = _; rw [o5]; exact acc x
      · show p.fwdTasks = if r1.fwdBusy then 1 else 0; rw [o3, ft]; simp
      · show r1.preds ≠ [] → r1.maxc ≠ 0; rw [o2, g1]; exact m0
      · intro a1 a2
        rcases prog a1 a2 with h3 | h3
        · left; exact h3
        · right
          refine ⟨by show r1.preds = [sid]; rw [o2]; exact h3, Or.inr ?_⟩
          show r1.running ≠ []
          rw [o4]
          exact running_ne_of_full ri (m0 (by rw [h3]; simp)) hc

theorem inv_fwdTask {first : Nat} {p : PullPair} (h : PInv first p) : PInv first (p.step .fwdTask).1 := by
  obtain ⟨si, sf, ri, rq, edge, acc, nr, fb, m0, prog⟩ := h
  simp only [step]
  split
  · exact ⟨si, sf, ri, rq, edge, acc, nr, fb, m0, prog⟩
  · rename_i hft
    have hb : p.r.fwdBusy = true := by
      cases hbz : p.r.fwdBusy
      · rw [hbz] at fb; simp at fb; exact absurd fb hft
      · rfl
    have hone : p.fwdTasks = 1 := by rw [fb, hb]; simp
    apply fwdLoop_inv
    · refine ⟨si, sf, ri, rq, edge, acc, nr, ⟨hb, by show p.fwdTasks - 1 = 0; omega⟩, m0, ?_⟩
      intro a1 a2
      rcases prog a1 a2 with h3 | ⟨h3, _⟩
      · left; exact h3
      · right; exact h3
    · show p.r.maxc - p.r.conc < p.r.maxc + 1; omega

theorem inv_step {first : Nat} {p : PullPair} (h : PInv first p) (o : POp) : PInv first (p.step o).1 := by
  cases o with
  | activate => exact inv_activate h
  | putTask => exact inv_putTask h
  | fwdTask => exact inv_fwdTask h
  | bodyDone m => exact inv_bodyDone h m
  | extPut m => exact inv_extPut h m

/-- The four facts of `edge_push_pull_no_loss`, for every sequence of task executions and external puts. -/
theorem props (first stop maxc : Nat) (ops : List POp) :
    let p := ((mach first stop maxc).run ops).1
    ((p.s.succs = [rid] ∧ p.r.preds = []) ∨ (p.s.succs = [] ∧ p.r.preds = [sid])) ∧
    (∀ m, p.r.accepted.count m = p.s.delivered.count m + p.ext.count m) ∧
    (p.s.delivered.reverse ++ (if p.s.hasItem then [p.s.item] else []) = List.range' first (p.s.next - first)) ∧
    (p.s.active = true → (p.s.hasItem = true ∨ p.s.next < p.s.stop) →
      0 < p.putTasks ∨ 0 < p.fwdTasks ∨ p.r.running ≠ []) := by
  intro p
  have hi : PInv first p :=
    Mach.inv_run (mach first stop maxc) (PInv first) (inv_init first stop maxc) (fun _ o h => inv_step h o) ops
  refine ⟨hi.edge, hi.acc, ?_, ?_⟩
  · have := hi.si.gen; rw [hi.sf] at this; exact this
  · intro a1 a2
    rcases hi.prog a1 a2 with h3 | ⟨_, h4⟩
    · left; exact h3
    · right; exact h4

end PullPair
end TbbVerif.C14
