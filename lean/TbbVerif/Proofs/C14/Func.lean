/-
C14 helper lemmas: the inductive invariant of `FuncInput` (function_input_base).
-/
import TbbVerif.Model.C14

namespace TbbVerif.C14
open TbbVerif.Generated.C14 (tryputFree occupyFree doneFree fwdFree doneDecrement fwdClearsBusy regPredSetsBusy)
namespace FuncInput

/-! ### the regenerated pieces of the handlers (E-GEN): what the source says NOW must be what the proofs use -/
theorem gen_tryput (c m : Nat) : tryputFree c m = decide (c < m) := rfl
theorem gen_occupy (c m : Nat) : occupyFree c m = decide (c < m) := rfl
theorem gen_done (c m : Nat) : doneFree c m = decide (c < m) := rfl
theorem gen_fwd (c m : Nat) : fwdFree c m = decide (c < m) := rfl
theorem gen_dec : doneDecrement = 1 := rfl
theorem gen_fcb : fwdClearsBusy = true := rfl
theorem gen_rps : regPredSetsBusy = true := rfl

/-- The inductive invariant of one function node. -/
structure Inv (s : FuncInput) : Prop where
  conc_eq : s.maxc ≠ 0 → s.conc = s.running.length
  conc_le : s.conc ≤ s.maxc
  bal : ∀ m, s.accepted.count m = s.finished.count m + s.running.count m + s.queued.count m
  sat : s.queued ≠ [] → s.conc = s.maxc
  /-- rejecting node: a predecessor in pull mode is never forgotten — a forwarder task is pending or every
  slot is taken (and the `app_body_bypass` that frees one pulls) -/
  pull : s.queue = none → s.preds ≠ [] → s.fwdBusy = true ∨ s.conc = s.maxc
  unl : s.maxc = 0 → s.queued = []

theorem getItem_none {ps : List Nat} {ans : List (Option Nat)} (h : (getItem ps ans).1 = none) :
    (getItem ps ans).2.1 = [] := by
  induction ps generalizing ans with
  | nil => simp [getItem]
  | cons p ps ih =>
    cases ans with
    | nil => simp only [getItem] at h ⊢; exact ih h
    | cons a as =>
      cases a with
      | none => simp only [getItem] at h ⊢; exact ih h
      | some v => simp [getItem] at h

theorem inv_new (maxc : Nat) (q : Bool) : Inv (new maxc q) := by
  constructor <;> cases q <;> simp [new, queued]

/-- Precondition of `perform_queued_requests`: a free slot exists. -/
structure PreInv (s : FuncInput) : Prop where
  conc_eq : s.maxc ≠ 0 → s.conc = s.running.length
  conc_lt : s.conc < s.maxc
  bal : ∀ m, s.accepted.count m = s.finished.count m + s.running.count m + s.queued.count m
  sat : s.queued ≠ [] → s.conc + 1 = s.maxc
  pull : s.queue = none → s.preds ≠ [] → s.fwdBusy = true ∨ s.conc + 1 = s.maxc

theorem pqr_maxc (s : FuncInput) (ans) : (pqr s ans).1.maxc = s.maxc := by
  unfold pqr; split <;> try rfl
  split <;> rfl

theorem pqr_queue_isSome (s : FuncInput) (ans) : (pqr s ans).1.queue.isSome = s.queue.isSome := by
  unfold pqr; split
  · rename_i h; simp [h]
  · rfl
  · split <;> rfl

theorem pqr_fwdBusy (s : FuncInput) (ans) : (pqr s ans).1.fwdBusy = s.fwdBusy := by
  unfold pqr; split <;> try rfl
  split <;> rfl

theorem pqr_inv {s : FuncInput} (h : PreInv s) (ans : List (Option Nat)) : Inv (pqr s ans).1 := by
  obtain ⟨h1, h2, h3, h4, h5⟩ := h
  unfold pqr
  split
  · rename_i m q hq
    refine ⟨?_, ?_, ?_, ?_, ?_, ?_⟩
    · intro hm; simp at hm ⊢; have := h1 hm; omega
    · simp; omega
    · intro x
      have := h3 x
      simp [queued, hq, List.count_cons] at this ⊢
      omega
    · intro _; simp [queued, hq] at h4 ⊢; omega
    · intro hn; simp at hn
    · intro h0; simp at h0; omega
  · rename_i hq
    refine ⟨h1, ?_, h3, ?_, ?_, ?_⟩
    · show s.conc ≤ s.maxc; omega
    · intro hne; simp [queued, hq] at hne
    · intro hn; simp [hq] at hn
    · intro _; simp [queued, hq]
  · rename_i hq
    split
    · rename_i v ps fl hg
      refine ⟨?_, ?_, ?_, ?_, ?_, ?_⟩
      · intro hm; simp at hm ⊢; have := h1 hm; omega
      · simp; omega
      · intro x
        have := h3 x
        simp [queued, hq, List.count_cons] at this ⊢
        omega
      · intro hne; simp [queued, hq] at hne
      · intro _ hne
        have hp : s.preds ≠ [] := by
          intro he; rw [he] at hg; simp [getItem] at hg
        have := h5 hq hp
        simp at this ⊢
        omega
      · intro _; simp [queued, hq]
    · rename_i ps fl hg
      have : ps = [] := by
        have := getItem_none (ps := s.preds) (ans := ans) (by rw [hg])
        rw [hg] at this; exact this
      subst this
      refine ⟨h1, ?_, h3, ?_, ?_, ?_⟩
      · simp; omega
      · intro hne; simp [queued, hq] at hne
      · intro _ hne; simp at hne
      · intro _; simp [queued, hq]

theorem step_maxc (s : FuncInput) (o : FOp) : (step s o).1.maxc = s.maxc := by
  cases o <;> simp only [step, gen_tryput, gen_occupy, gen_done, gen_fwd, gen_dec, gen_fcb, gen_rps, decide_eq_true_eq, Bool.not_true, Bool.and_false]
  · split; rfl
    split; rfl
    split <;> rfl
  · split; rfl
    split <;> rfl
  · split
    · split; rfl
      split
      · simp [pqr_maxc]
      · rfl
    · rfl
  · split
    · split <;> simp_all [pqr_maxc]
    · rfl
  · split <;> rfl

theorem step_queue_isSome (s : FuncInput) (o : FOp) : (step s o).1.queue.isSome = s.queue.isSome := by
  cases o <;> simp only [step, gen_tryput, gen_occupy, gen_done, gen_fwd, gen_dec, gen_fcb, gen_rps, decide_eq_true_eq, Bool.not_true, Bool.and_false]
  · split; rfl
    split; rfl
    split
    · rename_i h; simp [h]
    · rfl
  · split; rfl
    split <;> rfl
  · split
    · split; rfl
      split
      · simp [pqr_queue_isSome]
      · rfl
    · rfl
  · split
    · split <;> simp_all [pqr_queue_isSome]
    · rfl
  · split <;> rfl

theorem inv_step {s : FuncInput} (h : Inv s) (o : FOp) : Inv (step s o).1 := by
  obtain ⟨h1, h2, h3, h4, h5, h6⟩ := h
  cases o with
  | tryput m =>
    simp only [step, gen_tryput, gen_occupy, gen_done, gen_fwd, gen_dec, gen_fcb, gen_rps, decide_eq_true_eq, Bool.not_true, Bool.and_false]
    split
    · rename_i h0
      refine ⟨fun hm => absurd h0 hm, h2, ?_, h4, h5, h6⟩
      intro x; have := h3 x; simp [queued, List.count_cons] at this ⊢; omega
    · rename_i h0
      split
      · rename_i hlt
        refine ⟨?_, ?_, ?_, ?_, ?_, ?_⟩
        · intro hm; simp; have := h1 hm; omega
        · simp; omega
        · intro x; have := h3 x; simp [queued, List.count_cons] at this ⊢; omega
        · intro hne; have := h4 hne; simp at this ⊢; omega
        · intro hq hp
          rcases h5 hq hp with hb | hc
          · left; exact hb
          · omega
        · intro hm; exact absurd hm h0
      · rename_i hge
        split
        · rename_i q hq
          refine ⟨h1, h2, ?_, ?_, ?_, ?_⟩
          · intro x; have := h3 x
            simp [queued, hq, List.count_cons, List.count_append] at this ⊢; omega
          · intro _; simp; omega
          · intro hn; simp at hn
          · intro hm; exact absurd hm h0
        · exact ⟨h1, h2, h3, h4, h5, h6⟩
  | occupy m =>
    simp only [step, gen_tryput, gen_occupy, gen_done, gen_fwd, gen_dec, gen_fcb, gen_rps, decide_eq_true_eq, Bool.not_true, Bool.and_false]
    split
    · rename_i h0
      refine ⟨fun hm => absurd h0 hm, h2, ?_, h4, h5, h6⟩
      intro x; have := h3 x; simp [queued, List.count_cons] at this ⊢; omega
    · rename_i h0
      split
      · rename_i hlt
        refine ⟨?_, ?_, ?_, ?_, ?_, ?_⟩
        · intro hm; simp; have := h1 hm; omega
        · simp; omega
        · intro x; have := h3 x; simp [queued, List.count_cons] at this ⊢; omega
        · intro hne; have := h4 hne; simp at this ⊢; omega
        · intro hq hp
          rcases h5 hq hp with hb | hc
          · left; exact hb
          · omega
        · intro hm; exact absurd hm h0
      · exact ⟨h1, h2, h3, h4, h5, h6⟩
  | done m ans =>
    simp only [step, gen_tryput, gen_occupy, gen_done, gen_fwd, gen_dec, gen_fcb, gen_rps, decide_eq_true_eq, Bool.not_true, Bool.and_false]
    split
    · rename_i hmem
      have hlen : 0 < s.running.length := List.length_pos_of_mem hmem
      have hbal : ∀ x, s.accepted.count x = (m :: s.finished).count x + (s.running.erase m).count x + s.queued.count x := by
        intro x
        have := h3 x
        have hc : 0 < s.running.count m := List.count_pos_iff.mpr hmem
        by_cases hx : m = x
        · subst hx
          simp [List.count_erase_self]
          omega
        · have hx' : (m == x) = false := by simpa using hx
          simp [List.count_cons, List.count_erase, hx']
          omega
      split
      · rename_i h0
        exact ⟨fun hm => absurd h0 hm, h2, hbal, h4, h5, h6⟩
      · rename_i h0
        have hc := h1 h0
        split
        · apply pqr_inv
          refine ⟨?_, ?_, hbal, ?_, ?_⟩
          · intro _; simp [List.length_erase_of_mem hmem]; omega
          · simp; omega
          · intro hne; have := h4 hne; simp at this ⊢; omega
          · intro hq hp
            rcases h5 hq hp with hb | hc
            · left; exact hb
            · right; show s.conc - 1 + 1 = s.maxc; omega
        · rename_i hge
          simp at hge
          omega
    · exact ⟨h1, h2, h3, h4, h5, h6⟩
  | fwd ans =>
    simp only [step, gen_tryput, gen_occupy, gen_done, gen_fwd, gen_dec, gen_fcb, gen_rps, decide_eq_true_eq, Bool.not_true, Bool.and_false]
    split
    · rename_i hlt
      have hp : PreInv s := ⟨h1, hlt, h3, fun hne => by have := h4 hne; omega,
        fun hq hp => by
          rcases h5 hq hp with hb | hc
          · left; exact hb
          · omega⟩
      have hi := pqr_inv hp ans
      split
      · exact hi
      · rename_i hnone
        refine ⟨hi.1, hi.2, hi.3, hi.4, ?_, hi.6⟩
        intro hq hpr
        -- no item was found: on a rejecting node the cache is now empty
        exfalso
        revert hnone hq hpr
        unfold pqr
        split
        · intro _ hq; simp at hq
        · rename_i hq0; intro _ hq; simp [hq0] at hq
        · split
          · intro hn; simp at hn
          · rename_i ps fl hg
            intro _ _ hpr
            have : ps = [] := by
              have := getItem_none (ps := s.preds) (ans := ans) (by rw [hg])
              rw [hg] at this; exact this
            subst this
            simp at hpr
    · rename_i hge
      refine ⟨h1, h2, h3, h4, ?_, h6⟩
      intro _ _; right; show s.conc = s.maxc; omega
  | regPred p =>
    simp only [step, gen_tryput, gen_occupy, gen_done, gen_fwd, gen_dec, gen_fcb, gen_rps, decide_eq_true_eq, Bool.not_true, Bool.and_false]
    split
    · rename_i hb
      refine ⟨h1, h2, h3, h4, ?_, h6⟩
      intro _ _; left; exact hb
    · refine ⟨h1, h2, h3, h4, ?_, h6⟩
      intro _ _; left; rfl
  | remPred p =>
    simp only [step, gen_tryput, gen_occupy, gen_done, gen_fwd, gen_dec, gen_fcb, gen_rps, decide_eq_true_eq, Bool.not_true, Bool.and_false]
    refine ⟨h1, h2, h3, h4, ?_, h6⟩
    intro hq hp
    apply h5 hq
    intro he
    apply hp
    simp [he, cacheRemove, List.span, List.span.loop]

/-- The invariant holds after every sequence of node operations. -/
theorem inv_run (maxc : Nat) (q : Bool) (ops : List FOp) : Inv ((mach maxc q).run ops).1 :=
  Mach.inv_run (mach maxc q) Inv (inv_new maxc q) (fun _ o h => inv_step h o) ops

theorem run_maxc (maxc : Nat) (q : Bool) (ops : List FOp) : ((mach maxc q).run ops).1.maxc = maxc :=
  Mach.inv_run (mach maxc q) (fun s => s.maxc = maxc) (by simp [mach, new])
    (fun s o h => by simp [mach, step_maxc, h]) ops

/-! ### what single operations do (used by the graph-level proofs) -/

/-- `try_put`: a rejected message leaves the node untouched; an accepted one is recorded exactly once, as a
new body invocation or at the back of the queue. -/
theorem tryput_spec (s : FuncInput) (m : Nat) :
    (step s (.tryput m) = (s, .rejected)) ∨
    ((step s (.tryput m)).2 = .run m ∧ (step s (.tryput m)).1.running = m :: s.running ∧
      (step s (.tryput m)).1.queued = s.queued ∧ (step s (.tryput m)).1.accepted = m :: s.accepted ∧
      (step s (.tryput m)).1.finished = s.finished ∧ (step s (.tryput m)).1.preds = s.preds) ∨
    ((step s (.tryput m)).2 = .queued ∧ (step s (.tryput m)).1.running = s.running ∧
      (step s (.tryput m)).1.queued = s.queued ++ [m] ∧ (step s (.tryput m)).1.accepted = m :: s.accepted ∧
      (step s (.tryput m)).1.finished = s.finished ∧ (step s (.tryput m)).1.preds = s.preds) := by
  simp only [step, gen_tryput, gen_occupy, gen_done, gen_fwd, gen_dec, gen_fcb, gen_rps, decide_eq_true_eq, Bool.not_true, Bool.and_false]
  split
  · right; left; simp [queued]
  · split
    · right; left; simp [queued]
    · split
      · rename_i q hq; right; right; simp [queued, hq]
      · left; rfl

/-- A node that never rejects: queueing policy or unlimited concurrency. -/
def accepting (s : FuncInput) : Prop := s.queue.isSome = true ∨ s.maxc = 0

theorem tryput_accepting {s : FuncInput} (h : accepting s) (m : Nat) : (step s (.tryput m)).2 ≠ .rejected := by
  simp only [step, gen_tryput, gen_occupy, gen_done, gen_fwd, gen_dec, gen_fcb, gen_rps, decide_eq_true_eq, Bool.not_true, Bool.and_false]
  split
  · simp
  · split
    · simp
    · split
      · simp
      · rename_i h0 _ _ hq
        rcases h with h | h
        · simp [hq] at h
        · exact absurd h h0

theorem step_accepting {s : FuncInput} (h : accepting s) (o : FOp) : accepting (step s o).1 := by
  unfold accepting at *
  rw [step_queue_isSome, step_maxc]; exact h

/-- `app_body_bypass` on a node without pull-mode predecessors. -/
theorem done_spec {s : FuncInput} (hp : s.preds = []) {m : Nat} (hm : m ∈ s.running) :
    ∃ nx, (step s (.done m [])).2 = .next nx [] ∧
      (step s (.done m [])).1.running = (match nx with | some m' => m' :: s.running.erase m | none => s.running.erase m) ∧
      (step s (.done m [])).1.accepted = s.accepted ∧
      (step s (.done m [])).1.finished = m :: s.finished ∧
      (step s (.done m [])).1.preds = [] := by
  simp only [step, hm, if_true, gen_tryput, gen_occupy, gen_done, gen_fwd, gen_dec, gen_fcb, gen_rps, decide_eq_true_eq, Bool.not_true, Bool.and_false]
  split
  · exact ⟨none, by simp [hp]⟩
  · split
    · simp only [pqr]
      split
      · rename_i m' q hq; exact ⟨some m', by simp [hp]⟩
      · exact ⟨none, by simp [hp]⟩
      · simp [hp, getItem]
    · exact ⟨none, by simp [hp]⟩

theorem done_bad {s : FuncInput} {m : Nat} (hm : m ∉ s.running) (ans) : step s (.done m ans) = (s, .bad) := by
  simp [step, hm]

end FuncInput
end TbbVerif.C14
