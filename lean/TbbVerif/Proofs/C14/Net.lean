/-
C14 helper lemmas: the inductive invariant of `Net` (a graph of function nodes + the wait-context vertex).
-/
import TbbVerif.Proofs.C14.Func

namespace TbbVerif.C14
namespace Net

@[simp] theorem upd_same {α : Type} (f : Nat → α) (n : Nat) (v : α) : upd f n v n = v := by simp [upd]
theorem upd_other {α : Type} (f : Nat → α) {n i : Nat} (v : α) (h : i ≠ n) : upd f n v i = f i := by simp [upd, h]

theorem pend_cons (t : Nat × Nat × List Nat) (d) (p n m : Nat) :
    pend (t :: d) p n m = pend d p n m + (if t.1 = p ∧ t.2.1 = m ∧ n ∈ t.2.2 then 1 else 0) := by
  simp [pend, List.countP_cons]

theorem pend_append (d1 d2) (p n m : Nat) : pend (d1 ++ d2) p n m = pend d1 p n m + pend d2 p n m := by
  simp [pend, List.countP_append]

@[simp] theorem pend_nil (p n m : Nat) : pend [] p n m = 0 := by simp [pend]

/-- The inductive invariant of the graph. -/
structure NInv (s : Net) : Prop where
  fi : ∀ n, FuncInput.Inv (s.node n)
  np : ∀ n, (s.node n).preds = []
  run : ∀ n m, (s.node n).running.count m = s.live.count (n, m) + s.zombies.count (n, m)
  st : ∀ t, s.started.count t ≤ s.live.count t
  vx : s.vertex = ((s.live.length + s.dtasks.length + s.resv : Nat) : Int)
  acc : ∀ n m, (s.node n).accepted.count m = (s.ext n).count m + ((s.recv n).map Prod.snd).count m
  edge : ∀ p n m, n ∈ s.succs p →
    (s.node p).finished.count m = (s.recv n).count (p, m) + (s.lost n).count (p, m) + pend s.dtasks p n m
  dt : ∀ t ∈ s.dtasks, t.2.2.Nodup ∧ ∀ i ∈ t.2.2, i ∈ s.succs t.1
  sn : ∀ p, (s.succs p).Nodup
  org : ∀ n p m, (p, m) ∈ s.recv n → n ∈ s.succs p

theorem step_succs (s : Net) (o : NOp) : (s.step o).1.succs = s.succs := by
  cases o <;> simp only [step] <;> (repeat' split) <;> rfl

theorem inv_init (node : Nat → FuncInput) (succs : Nat → List Nat)
    (h1 : ∀ n, FuncInput.Inv (node n)) (h2 : ∀ n, (node n).preds = [])
    (h3 : ∀ n, (node n).running = [] ∧ (node n).accepted = [] ∧ (node n).finished = [])
    (h4 : ∀ p, (succs p).Nodup) : NInv (init node succs) := by
  refine ⟨h1, h2, ?_, ?_, ?_, ?_, ?_, ?_, h4, ?_⟩ <;> simp [init, h3]

theorem inv_put {s : Net} (h : NInv s) (n m : Nat) : NInv (s.step (.put n m)).1 := by
  obtain ⟨hfi, hnp, hrun, hst, hvx, hacc, hedge, hdt, hsn, horg⟩ := h
  have hI := FuncInput.inv_step (hfi n) (.tryput m)
  simp only [step]
  rcases FuncInput.tryput_spec (s.node n) m with hrej | ⟨ho, hr, hq, ha, hf, hp⟩ | ⟨ho, hr, hq, ha, hf, hp⟩
  · rw [hrej]; exact ⟨hfi, hnp, hrun, hst, hvx, hacc, hedge, hdt, hsn, horg⟩
  · generalize hstep : (s.node n).step (.tryput m) = r at *
    obtain ⟨f, out⟩ := r
    simp only at ho hr hq ha hf hp hI
    subst ho
    refine ⟨?_, ?_, ?_, ?_, ?_, ?_, ?_, hdt, hsn, horg⟩
    · intro i; by_cases hi : i = n
      · subst hi; simpa using hI
      · simpa [upd_other _ _ hi] using hfi i
    · intro i; by_cases hi : i = n
      · subst hi; simp [hp, hnp]
      · simpa [upd_other _ _ hi] using hnp i
    · intro i x; by_cases hi : i = n
      · subst hi
        have := hrun i x
        simp [hr, List.count_cons] at this ⊢
        by_cases hx : m = x
        · subst hx; simp; omega
        · have : ¬ (x = m) := fun e => hx e.symm
          simp [hx, this]; omega
      · have := hrun i x
        have hne : ¬ (n = i) := fun e => hi e.symm
        simp [upd_other _ _ hi, List.count_cons, hne] at this ⊢; omega
    · intro t; have := hst t; simp [List.count_cons] at this ⊢; omega
    · simp [hvx]; omega
    · intro i x; by_cases hi : i = n
      · subst hi; have := hacc i x; simp [ha, List.count_cons] at this ⊢; omega
      · simpa [upd_other _ _ hi] using hacc i x
    · intro p i x hin; by_cases hp' : p = n
      · subst hp'; have := hedge p i x hin; simp [hf] at this ⊢; exact this
      · have := hedge p i x hin; simpa [upd_other _ _ hp'] using this
  · generalize hstep : (s.node n).step (.tryput m) = r at *
    obtain ⟨f, out⟩ := r
    simp only at ho hr hq ha hf hp hI
    subst ho
    refine ⟨?_, ?_, ?_, hst, hvx, ?_, ?_, hdt, hsn, horg⟩
    · intro i; by_cases hi : i = n
      · subst hi; simpa using hI
      · simpa [upd_other _ _ hi] using hfi i
    · intro i; by_cases hi : i = n
      · subst hi; simp [hp, hnp]
      · simpa [upd_other _ _ hi] using hnp i
    · intro i x; by_cases hi : i = n
      · subst hi; have := hrun i x; simp [hr] at this ⊢; exact this
      · simpa [upd_other _ _ hi] using hrun i x
    · intro i x; by_cases hi : i = n
      · subst hi; have := hacc i x; simp [ha, List.count_cons] at this ⊢; omega
      · simpa [upd_other _ _ hi] using hacc i x
    · intro p i x hin; by_cases hp' : p = n
      · subst hp'; have := hedge p i x hin; simp [hf] at this ⊢; exact this
      · have := hedge p i x hin; simpa [upd_other _ _ hp'] using this

theorem count_erase_pair (l : List (Nat × Nat)) (a b : Nat × Nat) :
    (l.erase a).count b = l.count b - (if a = b then 1 else 0) := by
  rw [List.count_erase]; by_cases h : a = b <;> simp [h]

theorem inv_start {s : Net} (h : NInv s) (n m : Nat) : NInv (s.step (.start n m)).1 := by
  obtain ⟨hfi, hnp, hrun, hst, hvx, hacc, hedge, hdt, hsn, horg⟩ := h
  simp only [step]
  split
  · rename_i hc
    refine ⟨hfi, hnp, hrun, ?_, hvx, hacc, hedge, hdt, hsn, horg⟩
    intro t; have := hst t
    by_cases ht : (n, m) = t
    · subst ht; simp; omega
    · have : ¬ (t = (n, m)) := fun e => ht e.symm
      simp [List.count_cons, ht]; omega
  · exact ⟨hfi, hnp, hrun, hst, hvx, hacc, hedge, hdt, hsn, horg⟩

theorem started_mem_running {s : Net} (h : NInv s) {n m : Nat} (hs : (n, m) ∈ s.started) :
    (n, m) ∈ s.live ∧ m ∈ (s.node n).running := by
  have h1 : 0 < s.started.count (n, m) := List.count_pos_iff.mpr hs
  have h2 := h.st (n, m)
  have h3 : 0 < s.live.count (n, m) := by omega
  refine ⟨List.count_pos_iff.mp h3, ?_⟩
  apply List.count_pos_iff.mp
  have := h.run n m; omega

theorem inv_finish {s : Net} (h : NInv s) (n m : Nat) : NInv (s.step (.finish n m)).1 := by
  have hh := h
  obtain ⟨hfi, hnp, hrun, hst, hvx, hacc, hedge, hdt, hsn, horg⟩ := h
  simp only [step]
  split
  · rename_i hs
    obtain ⟨hl, hm⟩ := started_mem_running hh hs
    have hI := FuncInput.inv_step (hfi n) (.done m [])
    obtain ⟨nx, ho, hr, ha, hf, hp⟩ := FuncInput.done_spec (hnp n) hm
    generalize hstep : (s.node n).step (.done m []) = r at *
    obtain ⟨f, out⟩ := r
    simp only at ho hr ha hf hp hI
    subst ho
    have hlen : 0 < s.live.length := List.length_pos_of_mem hl
    have hcl : 0 < s.live.count (n, m) := List.count_pos_iff.mpr hl
    have hcs : 0 < s.started.count (n, m) := List.count_pos_iff.mpr hs
    have hcr : 0 < (s.node n).running.count m := List.count_pos_iff.mpr hm
    cases nx with
    | none =>
      simp only
      refine ⟨?_, ?_, ?_, ?_, ?_, ?_, ?_, ?_, hsn, horg⟩
      · intro i; by_cases hi : i = n
        · subst hi; simpa using hI
        · simpa [upd_other _ _ hi] using hfi i
      · intro i; by_cases hi : i = n
        · subst hi; simp [hp]
        · simpa [upd_other _ _ hi] using hnp i
      · intro i x; by_cases hi : i = n
        · subst hi
          have := hrun i x
          simp [hr, count_erase_pair, List.count_erase] at this ⊢
          by_cases hx : m = x
          · subst hx; simp; omega
          · have hx' : (m == x) = false := by simpa using hx
            simp [hx, hx']; omega
        · have := hrun i x
          have hne : ¬ ((n, m) = (i, x)) := by intro e; injection e with e1 _; exact hi e1.symm
          simp [upd_other _ _ hi, count_erase_pair, hne] at this ⊢; exact this
      · intro t; have := hst t
        simp only [count_erase_pair]
        by_cases ht : (n, m) = t
        · subst ht; simp; omega
        · simp [ht]; exact this
      · simp [hvx, List.length_erase_of_mem hl]; omega
      · intro i x; by_cases hi : i = n
        · subst hi; have := hacc i x; simp [ha] at this ⊢; exact this
        · simpa [upd_other _ _ hi] using hacc i x
      · intro p i x hin; by_cases hp' : p = n
        · subst hp'
          have := hedge p i x hin
          simp [hf, pend_append, pend_cons, List.count_cons] at this ⊢
          have hin' : i ∈ s.succs p := hin
          by_cases hx : m = x
          · subst hx; simp [hin']; omega
          · have : ¬ (x = m) := fun e => hx e.symm
            simp [hx, this]; omega
        · have := hedge p i x hin
          have hne : ¬ (n = p) := fun e => hp' e.symm
          simp [upd_other _ _ hp', pend_append, pend_cons, hne] at this ⊢; exact this
      · intro t ht
        simp at ht
        rcases ht with ht | ht
        · exact hdt t ht
        · subst ht; exact ⟨hsn n, fun i hi => hi⟩
    | some m' =>
      simp only
      refine ⟨?_, ?_, ?_, ?_, ?_, ?_, ?_, ?_, hsn, horg⟩
      · intro i; by_cases hi : i = n
        · subst hi; simpa using hI
        · simpa [upd_other _ _ hi] using hfi i
      · intro i; by_cases hi : i = n
        · subst hi; simp [hp]
        · simpa [upd_other _ _ hi] using hnp i
      · intro i x; by_cases hi : i = n
        · subst hi
          have := hrun i x
          simp [hr, count_erase_pair, List.count_erase, List.count_cons] at this ⊢
          by_cases hx : m = x
          · subst hx
            by_cases hy : m' = m
            · simp [hy]; omega
            · have : ¬ (m = m') := fun e => hy e.symm
              simp [hy, this]; omega
          · have hx' : (m == x) = false := by simpa using hx
            by_cases hy : m' = x
            · subst hy; simp [hx, hx']; omega
            · have : ¬ (x = m') := fun e => hy e.symm
              simp [hx, hx', hy, this]; omega
        · have := hrun i x
          have hne : ¬ ((n, m) = (i, x)) := by intro e; injection e with e1 _; exact hi e1.symm
          have hne2 : ¬ (n = i) := fun e => hi e.symm
          simp [upd_other _ _ hi, count_erase_pair, hne, List.count_cons, hne2] at this ⊢; exact this
      · intro t; have := hst t
        simp only [count_erase_pair, List.count_cons]
        by_cases ht : (n, m) = t
        · subst ht; simp; omega
        · simp [ht]; omega
      · simp [hvx, List.length_erase_of_mem hl]; omega
      · intro i x; by_cases hi : i = n
        · subst hi; have := hacc i x; simp [ha] at this ⊢; exact this
        · simpa [upd_other _ _ hi] using hacc i x
      · intro p i x hin; by_cases hp' : p = n
        · subst hp'
          have := hedge p i x hin
          simp [hf, pend_append, pend_cons, List.count_cons] at this ⊢
          have hin' : i ∈ s.succs p := hin
          by_cases hx : m = x
          · subst hx; simp [hin']; omega
          · have : ¬ (x = m) := fun e => hx e.symm
            simp [hx, this]; omega
        · have := hedge p i x hin
          have hne : ¬ (n = p) := fun e => hp' e.symm
          simp [upd_other _ _ hp', pend_append, pend_cons, hne] at this ⊢; exact this
      · intro t ht
        simp at ht
        rcases ht with ht | ht
        · exact hdt t ht
        · subst ht; exact ⟨hsn n, fun i hi => hi⟩
  · exact ⟨hfi, hnp, hrun, hst, hvx, hacc, hedge, hdt, hsn, horg⟩

theorem inv_deliver {s : Net} (h : NInv s) : NInv (s.step .deliver).1 := by
  obtain ⟨hfi, hnp, hrun, hst, hvx, hacc, hedge, hdt, hsn, horg⟩ := h
  simp only [step]
  split
  · exact ⟨hfi, hnp, hrun, hst, hvx, hacc, hedge, hdt, hsn, horg⟩
  · rename_i n0 m0 rest hd
    refine ⟨hfi, hnp, hrun, hst, ?_, hacc, ?_, ?_, hsn, horg⟩
    · simp [hvx, hd]; omega
    · intro p i x hin
      have := hedge p i x hin
      simp [hd, pend_cons] at this ⊢; exact this
    · intro t ht; exact hdt t (by simp [hd, ht])
  · rename_i n0 m0 r rem rest hd
    have hd0 := hdt (n0, m0, r :: rem) (by simp [hd])
    have hnd : r ∉ rem := (List.nodup_cons.mp hd0.1).1
    have hnd2 : rem.Nodup := (List.nodup_cons.mp hd0.1).2
    have hrs : r ∈ s.succs n0 := hd0.2 r (by simp)
    have hdt' : ∀ t ∈ (n0, m0, rem) :: rest, t.2.2.Nodup ∧ ∀ i ∈ t.2.2, i ∈ s.succs t.1 := by
      intro t ht
      simp at ht
      rcases ht with ht | ht
      · subst ht; exact ⟨hnd2, fun i hi => hd0.2 i (by simp [hi])⟩
      · exact hdt t (by simp [hd, ht])
    -- the change of the pending-offer count
    have hpend : ∀ p i x, pend s.dtasks p i x =
        pend ((n0, m0, rem) :: rest) p i x + (if n0 = p ∧ m0 = x ∧ i = r then 1 else 0) := by
      intro p i x
      simp only [hd, pend_cons]
      by_cases h1 : n0 = p <;> by_cases h2 : m0 = x <;> by_cases h3 : i = r <;> simp [h1, h2, h3, hnd]
    have hI := FuncInput.inv_step (hfi r) (.tryput m0)
    rcases FuncInput.tryput_spec (s.node r) m0 with hrej | ⟨ho, hr, hq, ha, hf, hp⟩ | ⟨ho, hr, hq, ha, hf, hp⟩
    · rw [hrej]
      simp only
      refine ⟨hfi, hnp, hrun, hst, ?_, hacc, ?_, hdt', hsn, horg⟩
      · simp [hvx, hd]
      · intro p i x hin
        have := hedge p i x hin
        rw [hpend] at this
        by_cases hi : i = r
        · subst hi
          simp [List.count_cons] at this ⊢
          by_cases h1 : n0 = p <;> by_cases h2 : m0 = x <;> simp [h1, h2] at this ⊢ <;> omega
        · simp [upd_other _ _ hi, hi] at this ⊢; exact this
    · generalize hstep : (s.node r).step (.tryput m0) = q at *
      obtain ⟨f, out⟩ := q
      simp only at ho hr hq ha hf hp hI
      subst ho
      simp only
      refine ⟨?_, ?_, ?_, ?_, ?_, ?_, ?_, hdt', hsn, ?_⟩
      · intro i; by_cases hi : i = r
        · subst hi; simpa using hI
        · simpa [upd_other _ _ hi] using hfi i
      · intro i; by_cases hi : i = r
        · subst hi; simp [hp, hnp]
        · simpa [upd_other _ _ hi] using hnp i
      · intro i x; by_cases hi : i = r
        · subst hi
          have := hrun i x
          simp [hr, List.count_cons] at this ⊢
          by_cases hx : m0 = x
          · subst hx; simp; omega
          · have : ¬ (x = m0) := fun e => hx e.symm
            simp [hx, this]; omega
        · have := hrun i x
          have hne : ¬ (r = i) := fun e => hi e.symm
          simp [upd_other _ _ hi, List.count_cons, hne] at this ⊢; omega
      · intro t; have := hst t; simp [List.count_cons] at this ⊢; omega
      · simp [hvx, hd]; omega
      · intro i x; by_cases hi : i = r
        · subst hi; have := hacc i x; simp [ha, List.count_cons] at this ⊢; omega
        · simpa [upd_other _ _ hi] using hacc i x
      · intro p i x hin
        have := hedge p i x hin
        rw [hpend] at this
        have hfin : (upd s.node r f p).finished = (s.node p).finished := by
          by_cases hp' : p = r
          · subst hp'; simp [hf]
          · simp [upd_other _ _ hp']
        rw [hfin]
        by_cases hi : i = r
        · subst hi
          simp [List.count_cons] at this ⊢
          by_cases h1 : n0 = p <;> by_cases h2 : m0 = x <;> simp [h1, h2] at this ⊢ <;> omega
        · simp [upd_other _ _ hi, hi] at this ⊢; exact this
      · intro i p x hmem
        by_cases hi : i = r
        · subst hi
          simp at hmem
          rcases hmem with ⟨e1, e2⟩ | hmem
          · subst e1; exact hrs
          · exact horg i p x hmem
        · simp [upd_other _ _ hi] at hmem; exact horg i p x hmem
    · generalize hstep : (s.node r).step (.tryput m0) = q at *
      obtain ⟨f, out⟩ := q
      simp only at ho hr hq ha hf hp hI
      subst ho
      simp only
      refine ⟨?_, ?_, ?_, hst, ?_, ?_, ?_, hdt', hsn, ?_⟩
      · intro i; by_cases hi : i = r
        · subst hi; simpa using hI
        · simpa [upd_other _ _ hi] using hfi i
      · intro i; by_cases hi : i = r
        · subst hi; simp [hp, hnp]
        · simpa [upd_other _ _ hi] using hnp i
      · intro i x; by_cases hi : i = r
        · subst hi; have := hrun i x; simp [hr] at this ⊢; exact this
        · simpa [upd_other _ _ hi] using hrun i x
      · simp [hvx, hd]
      · intro i x; by_cases hi : i = r
        · subst hi; have := hacc i x; simp [ha, List.count_cons] at this ⊢; omega
        · simpa [upd_other _ _ hi] using hacc i x
      · intro p i x hin
        have := hedge p i x hin
        rw [hpend] at this
        have hfin : (upd s.node r f p).finished = (s.node p).finished := by
          by_cases hp' : p = r
          · subst hp'; simp [hf]
          · simp [upd_other _ _ hp']
        rw [hfin]
        by_cases hi : i = r
        · subst hi
          simp [List.count_cons] at this ⊢
          by_cases h1 : n0 = p <;> by_cases h2 : m0 = x <;> simp [h1, h2] at this ⊢ <;> omega
        · simp [upd_other _ _ hi, hi] at this ⊢; exact this
      · intro i p x hmem
        by_cases hi : i = r
        · subst hi
          simp at hmem
          rcases hmem with ⟨e1, e2⟩ | hmem
          · subst e1; exact hrs
          · exact horg i p x hmem
        · simp [upd_other _ _ hi] at hmem; exact horg i p x hmem

theorem inv_rotate {s : Net} (h : NInv s) : NInv (s.step .rotate).1 := by
  obtain ⟨hfi, hnp, hrun, hst, hvx, hacc, hedge, hdt, hsn, horg⟩ := h
  simp only [step]
  split
  · exact ⟨hfi, hnp, hrun, hst, hvx, hacc, hedge, hdt, hsn, horg⟩
  · rename_i t rest hd
    refine ⟨hfi, hnp, hrun, hst, ?_, hacc, ?_, ?_, hsn, horg⟩
    · simp [hvx, hd]
    · intro p i x hin
      have := hedge p i x hin
      simp [hd, pend_cons, pend_append] at this ⊢; omega
    · intro u hu; apply hdt u; simp [hd] at hu ⊢; rcases hu with hu | hu <;> simp [hu]

theorem inv_dropTask {s : Net} (h : NInv s) (n m : Nat) : NInv (s.step (.dropTask n m)).1 := by
  obtain ⟨hfi, hnp, hrun, hst, hvx, hacc, hedge, hdt, hsn, horg⟩ := h
  simp only [step]
  split
  · rename_i hc
    have hcl : 0 < s.live.count (n, m) := by omega
    have hl : (n, m) ∈ s.live := List.count_pos_iff.mp hcl
    have hlen : 0 < s.live.length := List.length_pos_of_mem hl
    refine ⟨hfi, hnp, ?_, ?_, ?_, hacc, hedge, hdt, hsn, horg⟩
    · intro i x
      have := hrun i x
      simp only [count_erase_pair, List.count_cons]
      by_cases ht : (n, m) = (i, x)
      · injection ht with e1 e2; subst e1; subst e2; simp; omega
      · have : ¬ ((i, x) = (n, m)) := fun e => ht e.symm
        simp [ht, this]; omega
    · intro t; have := hst t
      simp only [count_erase_pair]
      by_cases ht : (n, m) = t
      · subst ht; simp; omega
      · simp [ht]; exact this
    · simp [hvx, List.length_erase_of_mem hl]; omega
  · exact ⟨hfi, hnp, hrun, hst, hvx, hacc, hedge, hdt, hsn, horg⟩

theorem inv_throw {s : Net} (h : NInv s) (n m : Nat) : NInv (s.step (.throw n m)).1 := by
  have hh := h
  obtain ⟨hfi, hnp, hrun, hst, hvx, hacc, hedge, hdt, hsn, horg⟩ := h
  simp only [step]
  split
  · rename_i hs
    obtain ⟨hl, hm⟩ := started_mem_running hh hs
    have hcl : 0 < s.live.count (n, m) := List.count_pos_iff.mpr hl
    have hcs : 0 < s.started.count (n, m) := List.count_pos_iff.mpr hs
    have hlen : 0 < s.live.length := List.length_pos_of_mem hl
    refine ⟨hfi, hnp, ?_, ?_, ?_, hacc, hedge, hdt, hsn, horg⟩
    · intro i x
      have := hrun i x
      simp only [count_erase_pair, List.count_cons]
      by_cases ht : (n, m) = (i, x)
      · injection ht with e1 e2; subst e1; subst e2; simp; omega
      · have : ¬ ((i, x) = (n, m)) := fun e => ht e.symm
        simp [ht, this]; omega
    · intro t; have := hst t
      simp only [count_erase_pair]
      by_cases ht : (n, m) = t
      · subst ht; simp; omega
      · simp [ht]; exact this
    · simp [hvx, List.length_erase_of_mem hl]; omega
  · exact ⟨hfi, hnp, hrun, hst, hvx, hacc, hedge, hdt, hsn, horg⟩

theorem inv_step {s : Net} (h : NInv s) (o : NOp) : NInv (s.step o).1 := by
  cases o with
  | put n m => exact inv_put h n m
  | start n m => exact inv_start h n m
  | finish n m => exact inv_finish h n m
  | deliver => exact inv_deliver h
  | rotate => exact inv_rotate h
  | dropTask n m => exact inv_dropTask h n m
  | throw n m => exact inv_throw h n m
  | cancel =>
    obtain ⟨hfi, hnp, hrun, hst, hvx, hacc, hedge, hdt, hsn, horg⟩ := h
    exact ⟨hfi, hnp, hrun, hst, hvx, hacc, hedge, hdt, hsn, horg⟩
  | reserve =>
    obtain ⟨hfi, hnp, hrun, hst, hvx, hacc, hedge, hdt, hsn, horg⟩ := h
    refine ⟨hfi, hnp, hrun, hst, ?_, hacc, hedge, hdt, hsn, horg⟩
    simp [step, hvx]; omega
  | release =>
    obtain ⟨hfi, hnp, hrun, hst, hvx, hacc, hedge, hdt, hsn, horg⟩ := h
    simp only [step]
    split
    · exact ⟨hfi, hnp, hrun, hst, hvx, hacc, hedge, hdt, hsn, horg⟩
    · refine ⟨hfi, hnp, hrun, hst, ?_, hacc, hedge, hdt, hsn, horg⟩
      simp [hvx]; omega

end Net
end TbbVerif.C14
