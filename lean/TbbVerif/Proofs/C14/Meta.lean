/-
C14 (c) helper lemmas: the reference count of a `try_put_and_wait` vertex equals the number of references the live
holders own, for every interleaving of holder creations / destructions / forwards; only descendants own references.
-/
import TbbVerif.Model.C14Meta

namespace TbbVerif.C14.Meta
namespace MS

theorem MFlags.ok_iff (F : MFlags) : F.ok = true ↔
    F.taskPutBeforeFinalize = true ∧ F.pqrCopyBeforePop = true ∧ F.bufferPutBeforeDestroy = true ∧
    F.joinPutBeforeAccepted = true ∧ F.limiterPutBeforeConsume = true ∧ F.slotReservesOnCopy = true ∧
    F.slotReleasesOnDestroy = true ∧ F.taskReservesOnCopy = true ∧ F.taskReleasesOnFinalize = true ∧
    F.tpwWaitsOnOwnVertex = true ∧ F.known = true := by
  simp [MFlags.ok, and_assoc]

theorem order_of_ok {F : MFlags} (h : F.ok = true) (p : Path) : F.order p = true := by
  obtain ⟨a, b, c, d, e, _⟩ := (MFlags.ok_iff F).mp h
  cases p <;> simp [MFlags.order, *]

theorem reserves_of_ok {F : MFlags} (h : F.ok = true) (k : HKind) : F.reserves k = true := by
  obtain ⟨_, _, _, _, _, a, _, b, _⟩ := (MFlags.ok_iff F).mp h
  cases k <;> simp [MFlags.reserves, *]

theorem releases_of_ok {F : MFlags} (h : F.ok = true) (k : HKind) : F.releases k = true := by
  obtain ⟨_, _, _, _, _, _, a, _, b, _⟩ := (MFlags.ok_iff F).mp h
  cases k <;> simp [MFlags.releases, *]

@[simp] theorem owned_nil (w : Nat) : owned [] w = 0 := rfl
@[simp] theorem owned_cons (h : Holder) (hs : List Holder) (w : Nat) : owned (h :: hs) w = h.ws.count w + owned hs w := by
  simp [owned]

theorem count_le_owned {hs : List Holder} {x : Holder} (hx : x ∈ hs) (w : Nat) : x.ws.count w ≤ owned hs w := by
  induction hs with
  | nil => cases hx
  | cons y ys ih =>
    rw [owned_cons]
    rcases List.mem_cons.mp hx with rfl | hx'
    · omega
    · have := ih hx'; omega

structure Inv (s : MS) : Prop where
  cnt : ∀ w, s.cnt w = (owned s.hs w : Int)
  trk : ∀ h ∈ s.hs, h.tracked = true → ∀ w ∈ h.org, w ∈ h.ws
  own : ∀ h ∈ s.hs, ∀ w ∈ h.ws, w ∈ h.org
  pnd : ∀ p ∈ s.pend, p.transit = none
  ids : ∀ h ∈ s.hs, h.id < s.next
  nd : (s.hs.map (·.id)).Nodup
  early : s.early = false

theorem inv_init : Inv ({} : MS) := by
  constructor <;> simp

theorem find_mem {s : MS} {i : Nat} {h : Holder} (hf : s.find i = some h) : h ∈ s.hs ∧ h.id = i := by
  unfold find at hf
  have := List.find?_some hf
  exact ⟨List.mem_of_find?_eq_some hf, by simpa using this⟩

/-- removing the holder with id `i` removes exactly its references -/
theorem owned_filter {hs : List Holder} (hnd : (hs.map (·.id)).Nodup) {h : Holder} (hm : h ∈ hs) (w : Nat) :
    owned (hs.filter (fun x => x.id != h.id)) w + h.ws.count w = owned hs w := by
  induction hs with
  | nil => cases hm
  | cons x xs ih =>
    simp only [List.map_cons, List.nodup_cons] at hnd
    rcases List.mem_cons.mp hm with rfl | hm'
    · have hnot : ∀ y ∈ xs, (y.id != h.id) = true := by
        intro y hy
        have : y.id ≠ h.id := by
          intro e; apply hnd.1; rw [← e]; exact List.mem_map_of_mem hy
        simpa using this
      have : xs.filter (fun x => x.id != h.id) = xs := List.filter_eq_self.mpr hnot
      simp [this]; omega
    · have hne : (x.id != h.id) = true := by
        have : x.id ≠ h.id := by
          intro e; apply hnd.1; rw [e]; exact List.mem_map_of_mem hm'
        simpa using this
      simp only [List.filter_cons, hne, ↓reduceIte, owned_cons]
      have := ih hnd.2 hm'
      omega

theorem inv_mkH {F : MFlags} (hF : F.ok = true) {s : MS} (h : Inv s) (k : HKind) (ws org : List Nat) (tr : Bool)
    (h1 : tr = true → ∀ w ∈ org, w ∈ ws) (h2 : ∀ w ∈ ws, w ∈ org) : Inv (s.mkH F k ws org tr) := by
  obtain ⟨a1, a2, a3, a4, a5, a6, a7⟩ := h
  unfold mkH
  rw [reserves_of_ok hF k]
  refine ⟨?_, ?_, ?_, a4, ?_, ?_, a7⟩
  · intro w; simp [addRefs, a1 w]; omega
  · intro x hx; rcases List.mem_cons.mp hx with rfl | hx
    · exact h1
    · exact a2 x hx
  · intro x hx; rcases List.mem_cons.mp hx with rfl | hx
    · exact h2
    · exact a3 x hx
  · intro x hx; rcases List.mem_cons.mp hx with rfl | hx
    · show s.next < s.next + 1; omega
    · have := a5 x hx; show x.id < s.next + 1; omega
  · simp only [List.map_cons, List.nodup_cons]
    refine ⟨?_, a6⟩
    intro hm
    obtain ⟨y, hy, hye⟩ := List.mem_map.mp hm
    have := a5 y hy
    have hye' : y.id = s.next := hye
    omega

theorem inv_kill {F : MFlags} (hF : F.ok = true) {s : MS} (h : Inv s) (i : Nat) : Inv (s.kill F i) := by
  unfold kill
  cases hf : s.find i with
  | none => exact h
  | some x =>
    obtain ⟨hm, hid⟩ := find_mem hf
    obtain ⟨a1, a2, a3, a4, a5, a6, a7⟩ := h
    simp only [releases_of_ok hF x.kind, ↓reduceIte]
    subst hid
    refine ⟨?_, ?_, ?_, a4, ?_, ?_, a7⟩
    · intro w
      have := owned_filter a6 hm w
      simp only [subRefs, a1 w]
      omega
    · intro y hy; exact a2 y (List.mem_filter.mp hy).1
    · intro y hy; exact a3 y (List.mem_filter.mp hy).1
    · intro y hy; exact a5 y (List.mem_filter.mp hy).1
    · exact (List.filter_sublist.map _).nodup a6

theorem kill_pend {F : MFlags} (s : MS) (i : Nat) : (s.kill F i).pend = s.pend := by
  unfold kill; split <;> rfl

theorem inv_killAll {F : MFlags} (hF : F.ok = true) : ∀ (l : List Nat) {s : MS}, Inv s → Inv (s.killAll F l)
  | [], _, h => h
  | i :: is, _, h => inv_killAll hF is (inv_kill hF h i)

theorem killAll_pend {F : MFlags} : ∀ (l : List Nat) (s : MS), (s.killAll F l).pend = s.pend
  | [], _ => rfl
  | i :: is, s => by rw [killAll, killAll_pend is, kill_pend]

theorem gather_spec {s : MS} (h : Inv s) : ∀ (l : List Nat),
    (∀ w ∈ (s.gather l).1, w ∈ (s.gather l).2.1) ∧ ((s.gather l).2.2 = true → ∀ w ∈ (s.gather l).2.1, w ∈ (s.gather l).1)
  | [] => by simp [gather]
  | i :: is => by
    have ih := gather_spec h is
    unfold gather
    cases hf : s.find i with
    | none => simpa using ih
    | some x =>
      have hm := (find_mem hf).1
      simp only
      constructor
      · intro w hw
        rcases List.mem_append.mp hw with hw | hw
        · exact List.mem_append_left _ (h.own x hm w hw)
        · exact List.mem_append_right _ (ih.1 w hw)
      · intro ht w hw
        simp only [Bool.and_eq_true] at ht
        rcases List.mem_append.mp hw with hw | hw
        · exact List.mem_append_left _ (h.trk x hm ht.1 w hw)
        · exact List.mem_append_right _ (ih.2 ht.2 w hw)

theorem inv_pend_append {s : MS} (h : Inv s) (p : Pend) (hp : p.transit = none) : Inv { s with pend := s.pend ++ [p] } := by
  obtain ⟨a1, a2, a3, a4, a5, a6, a7⟩ := h
  refine ⟨a1, a2, a3, ?_, a5, a6, a7⟩
  intro q hq
  rcases List.mem_append.mp hq with hq | hq
  · exact a4 q hq
  · simp at hq; subst hq; exact hp

theorem inv_step {F : MFlags} (hF : F.ok = true) {s : MS} (h : Inv s) (o : MOp) : Inv (s.step F o) := by
  cases o with
  | tpw w k =>
    simp only [step]
    split
    · exact h
    · have := inv_mkH hF h k [w] [w] true (fun _ x hx => hx) (fun x hx => hx)
      obtain ⟨a1, a2, a3, a4, a5, a6, a7⟩ := this
      exact ⟨a1, a2, a3, a4, a5, a6, a7⟩
  | put k => exact inv_mkH hF h k [] [] true (fun _ x hx => hx) (fun x hx => hx)
  | fwdBegin path srcs acc dst tr =>
    simp only [step]
    split
    · exact h
    · simp only [order_of_ok hF path, ↓reduceIte]
      have hg := gather_spec h srcs
      cases acc with
      | false => exact inv_pend_append h _ rfl
      | true =>
        simp only [↓reduceIte]
        apply inv_pend_append _ _ rfl
        apply inv_mkH hF h
        · intro ht w hw
          simp only [Bool.and_eq_true] at ht
          simp only [ht.2, ↓reduceIte]
          exact hg.2 ht.1 w hw
        · intro w hw
          cases tr with
          | false => simp at hw
          | true => simp only [↓reduceIte] at hw; exact hg.1 w hw
  | fwdEnd i =>
    simp only [step]
    cases hp : s.pend[i]? with
    | none => exact h
    | some p =>
      have hpm : p ∈ s.pend := List.mem_of_getElem? hp
      have htr := h.pnd p hpm
      simp only [htr]
      have h0 : Inv { s with pend := s.pend.eraseIdx i } := by
        obtain ⟨a1, a2, a3, a4, a5, a6, a7⟩ := h
        exact ⟨a1, a2, a3, fun q hq => a4 q ((List.eraseIdx_sublist _ _).mem hq), a5, a6, a7⟩
      split
      · exact inv_killAll hF _ h0
      · exact h0
  | fin x =>
    simp only [step]
    split
    · exact h
    · exact inv_kill hF h x
  | waitTest w =>
    obtain ⟨_, _, _, _, _, _, _, _, _, g, _⟩ := (MFlags.ok_iff F).mp hF
    simp only [step, g, ↓reduceIte]
    split
    · exact h
    · rename_i hc
      have hc0 : ¬ (s.cnt w > 0) := by simpa using hc
      obtain ⟨a1, a2, a3, a4, a5, a6, a7⟩ := h
      refine ⟨a1, a2, a3, a4, a5, a6, ?_⟩
      have ho : owned s.hs w = 0 := by
        rw [a1 w] at hc0
        have : ¬ (owned s.hs w > 0) := by intro hh; apply hc0; exact_mod_cast hh
        omega
      have hnone : ∀ x ∈ s.hs, x.ws.count w = 0 := by
        intro x hx
        have := count_le_owned hx w
        omega
      have e1 : s.hs.any (fun x => x.tracked && x.org.contains w) = false := by
        rw [List.any_eq_false]
        intro x hx
        simp only [Bool.and_eq_true, List.contains_iff_mem, not_and]
        intro ht hw
        have := a2 x hx ht w (by simpa using hw)
        have := List.count_pos_iff.mpr this
        have := hnone x hx
        omega
      have e2 : s.pend.any (fun p => match p.transit with | some m => p.acc && m.2.2 && m.2.1.contains w | none => false) = false := by
        rw [List.any_eq_false]
        intro p hp
        simp [a4 p hp]
      show (s.early || s.hs.any (fun x => x.tracked && x.org.contains w) ||
        s.pend.any (fun p => match p.transit with | some m => p.acc && m.2.2 && m.2.1.contains w | none => false)) = false
      rw [a7, e1, e2]; rfl

theorem inv_sys {F : MFlags} (hF : F.ok = true) (ops : List MOp) : Inv (sys F ops) := by
  unfold sys
  have : ∀ (ops : List MOp) (s : MS), Inv s → Inv (ops.foldl (step F) s) := by
    intro ops
    induction ops with
    | nil => intro s h; exact h
    | cons o os ih => intro s h; exact ih _ (inv_step hF h o)
  exact this ops _ inv_init

end MS
end TbbVerif.C14.Meta
