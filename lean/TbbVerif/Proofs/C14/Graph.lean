/-
C14 helper lemmas: consequences of the `Net` invariant (conservation, idleness, cancellation).
-/
import TbbVerif.Proofs.C14.Net

namespace TbbVerif

theorem Mach.runFrom_append {σ Op Out : Type} (M : Mach σ Op Out) (s : σ) (a b : List Op) :
    (M.runFrom s (a ++ b)).1 = (M.runFrom (M.runFrom s a).1 b).1 := by
  induction a generalizing s with
  | nil => simp [Mach.runFrom]
  | cons o os ih => simp only [List.cons_append, Mach.runFrom]; exact ih _

namespace C14
namespace Net

/-- all nodes never reject (queueing policy or unlimited concurrency) and nothing was dropped -/
structure AInv (s : Net) : Prop where
  accn : ∀ n, FuncInput.accepting (s.node n)
  nolost : ∀ n, s.lost n = []

theorem ainv_step {s : Net} (h : AInv s) (o : NOp) : AInv (s.step o).1 := by
  obtain ⟨h1, h2⟩ := h
  cases o with
  | put n m =>
    simp only [step]
    have ha := FuncInput.step_accepting (h1 n) (.tryput m)
    generalize (s.node n).step (.tryput m) = r at *
    obtain ⟨f, out⟩ := r
    split
    · rename_i heq; injection heq with e1 e2; subst e1
      refine ⟨?_, h2⟩
      intro i; by_cases hi : i = n
      · subst hi; simpa using ha
      · simpa [upd_other _ _ hi] using h1 i
    · rename_i heq; injection heq with e1 e2; subst e1
      refine ⟨?_, h2⟩
      intro i; by_cases hi : i = n
      · subst hi; simpa using ha
      · simpa [upd_other _ _ hi] using h1 i
    · exact ⟨h1, h2⟩
  | start n m => simp only [step]; split <;> exact ⟨h1, h2⟩
  | finish n m =>
    simp only [step]
    split
    · have ha := FuncInput.step_accepting (h1 n) (.done m [])
      generalize (s.node n).step (.done m []) = r at *
      obtain ⟨f, out⟩ := r
      split
      · rename_i heq; injection heq with e1 e2; subst e1
        have hn : ∀ i, FuncInput.accepting (upd s.node n f i) := by
          intro i; by_cases hi : i = n
          · subst hi; simpa using ha
          · simpa [upd_other _ _ hi] using h1 i
        split <;> exact ⟨hn, h2⟩
      · exact ⟨h1, h2⟩
    · exact ⟨h1, h2⟩
  | deliver =>
    simp only [step]
    split
    · exact ⟨h1, h2⟩
    · exact ⟨h1, h2⟩
    · rename_i n0 m0 r rem rest hd
      have ha := FuncInput.step_accepting (h1 r) (.tryput m0)
      have hne := FuncInput.tryput_accepting (h1 r) m0
      rcases FuncInput.tryput_spec (s.node r) m0 with hrej | ⟨ho, _⟩ | ⟨ho, _⟩
      · rw [hrej] at hne; simp at hne
      · generalize (s.node r).step (.tryput m0) = q at *
        obtain ⟨f, out⟩ := q
        simp only at ho ha; subst ho
        refine ⟨?_, h2⟩
        intro i; by_cases hi : i = r
        · subst hi; simpa using ha
        · simpa [upd_other _ _ hi] using h1 i
      · generalize (s.node r).step (.tryput m0) = q at *
        obtain ⟨f, out⟩ := q
        simp only at ho ha; subst ho
        refine ⟨?_, h2⟩
        intro i; by_cases hi : i = r
        · subst hi; simpa using ha
        · simpa [upd_other _ _ hi] using h1 i
  | rotate => simp only [step]; split <;> exact ⟨h1, h2⟩
  | dropTask n m => simp only [step]; split <;> exact ⟨h1, h2⟩
  | throw n m => simp only [step]; split <;> exact ⟨h1, h2⟩
  | cancel => exact ⟨h1, h2⟩
  | reserve => exact ⟨h1, h2⟩
  | release => simp only [step]; split <;> exact ⟨h1, h2⟩

/-- nothing is running, pending or being delivered, and no task was cancelled -/
def Quiescent (s : Net) : Prop := s.live = [] ∧ s.dtasks = [] ∧ s.zombies = []

theorem quiescent_node {s : Net} (h : NInv s) (hq : Quiescent s) (n : Nat) :
    (s.node n).running = [] ∧ (s.node n).queued = [] ∧
    ∀ m, (s.node n).finished.count m = (s.node n).accepted.count m := by
  obtain ⟨hl, hd, hz⟩ := hq
  have hr : (s.node n).running = [] := by
    apply List.eq_nil_iff_forall_not_mem.mpr
    intro m hm
    have h1 := h.run n m
    have h2 : 0 < (s.node n).running.count m := List.count_pos_iff.mpr hm
    rw [hl, hz] at h1
    simp at h1
    omega
  have hI := h.fi n
  have hqe : (s.node n).queued = [] := by
    by_cases h0 : (s.node n).maxc = 0
    · exact hI.unl h0
    · by_cases hne : (s.node n).queued = []
      · exact hne
      · have := hI.sat hne
        have := hI.conc_eq h0
        simp [hr] at this
        omega
  refine ⟨hr, hqe, ?_⟩
  intro m
  have := hI.bal m
  simp [hr, hqe] at this
  omega

/-- On a quiescent accepting graph every edge has carried exactly what its source produced. -/
theorem quiescent_edge {s : Net} (h : NInv s) (ha : AInv s) (hq : Quiescent s) {p n : Nat} (he : n ∈ s.succs p) (m : Nat) :
    (s.recv n).count (p, m) = (s.node p).accepted.count m := by
  have h1 := h.edge p n m he
  have h2 := (quiescent_node h hq p).2.2 m
  obtain ⟨_, hd, _⟩ := hq
  simp [hd, ha.nolost n] at h1
  omega

/-- if every entry of `l` comes from origin `p`, counting messages is counting (origin, message) pairs -/
theorem count_map_snd_of_origin {l : List (Nat × Nat)} {p : Nat} (h : ∀ x ∈ l, x.1 = p) (m : Nat) :
    (l.map Prod.snd).count m = l.count (p, m) := by
  induction l with
  | nil => simp
  | cons x xs ih =>
    have hx : x.1 = p := h x (by simp)
    have ih' := ih (fun y hy => h y (by simp [hy]))
    obtain ⟨a, b⟩ := x
    simp at hx
    subst hx
    simp only [List.map_cons, List.count_cons, ih']
    by_cases hb : b = m
    · subst hb; simp
    · have : ¬ ((a, b) = (a, m)) := by intro e; injection e with _ e2; exact hb e2
      simp [hb, this]

theorem count_map_snd_two {l : List (Nat × Nat)} {p q : Nat} (hpq : p ≠ q) (h : ∀ x ∈ l, x.1 = p ∨ x.1 = q) (m : Nat) :
    (l.map Prod.snd).count m = l.count (p, m) + l.count (q, m) := by
  induction l with
  | nil => simp
  | cons x xs ih =>
    have hx := h x (by simp)
    have ih' := ih (fun y hy => h y (by simp [hy]))
    obtain ⟨a, b⟩ := x
    simp only [List.map_cons, List.count_cons, ih']
    simp at hx
    by_cases hb : b = m
    · subst hb
      rcases hx with hx | hx
      · subst hx
        have : ¬ ((a, b) = (q, b)) := by intro e; injection e with e1 _; exact hpq e1
        simp [this]; omega
      · subst hx
        have : ¬ ((a, b) = (p, b)) := by intro e; injection e with e1 _; exact hpq e1.symm
        simp [this]; omega
    · have h1 : ¬ ((a, b) = (p, m)) := by intro e; injection e with _ e2; exact hb e2
      have h2 : ¬ ((a, b) = (q, m)) := by intro e; injection e with _ e2; exact hb e2
      simp [hb, h1, h2]

/-- a node with no predecessor received nothing -/
theorem recv_nil_of_no_pred {s : Net} (h : NInv s) {n : Nat} (hn : ∀ p, n ∉ s.succs p) : s.recv n = [] := by
  apply List.eq_nil_iff_forall_not_mem.mpr
  intro x hx
  obtain ⟨p, m⟩ := x
  exact hn p (h.org n p m hx)

/-- a node with exactly one predecessor `p`, at quiescence: what it accepted = its own external puts + what `p` accepted -/
theorem quiescent_single_pred {s : Net} (h : NInv s) (ha : AInv s) (hq : Quiescent s) {p n : Nat}
    (he : n ∈ s.succs p) (honly : ∀ p', n ∈ s.succs p' → p' = p) (m : Nat) :
    (s.node n).accepted.count m = (s.ext n).count m + (s.node p).accepted.count m := by
  have h1 := h.acc n m
  have h2 : ((s.recv n).map Prod.snd).count m = (s.recv n).count (p, m) :=
    count_map_snd_of_origin (fun x hx => by
      obtain ⟨p', m'⟩ := x
      exact honly p' (h.org n p' m' hx)) m
  have h3 := quiescent_edge h ha hq he m
  omega

theorem vertex_zero {s : Net} (h : NInv s) (hv : s.vertex = 0) :
    s.live = [] ∧ s.started = [] ∧ s.dtasks = [] ∧ s.resv = 0 := by
  have := h.vx
  rw [hv] at this
  have h0 : s.live.length + s.dtasks.length + s.resv = 0 := by omega
  have hl : s.live = [] := List.eq_nil_of_length_eq_zero (by omega)
  refine ⟨hl, ?_, List.eq_nil_of_length_eq_zero (by omega), by omega⟩
  apply List.eq_nil_iff_forall_not_mem.mpr
  intro t ht
  have h1 := h.st t
  have : 0 < s.started.count t := List.count_pos_iff.mpr ht
  simp [hl] at h1
  omega

/-- Once the context is cancelled it stays cancelled and no body starts. -/
theorem cancelled_step {s : Net} (hc : s.cancelled = true) (o : NOp) :
    (s.step o).1.cancelled = true ∧ (s.step o).1.bodyStarts = s.bodyStarts := by
  cases o <;> simp only [step] <;> (repeat' split) <;> simp_all

theorem cancelled_runFrom (node succs) {s : Net} (hc : s.cancelled = true) (ops : List NOp) :
    ((mach node succs).runFrom s ops).1.cancelled = true ∧
    ((mach node succs).runFrom s ops).1.bodyStarts = s.bodyStarts := by
  induction ops generalizing s with
  | nil => simp [Mach.runFrom, hc]
  | cons o os ih =>
    simp only [Mach.runFrom]
    have h1 := cancelled_step hc o
    have h2 := ih (s := (s.step o).1) h1.1
    exact ⟨h2.1, h2.2.trans h1.2⟩

end Net
end C14
end TbbVerif
