/-
C14 (d) helper lemmas: after cancellation (or an exception) only bodies that were already in flight finish.
-/
import TbbVerif.Proofs.C14.Graph

namespace TbbVerif.C14
namespace FuncInput

theorem tryput_finished (s : FuncInput) (m : Nat) : (s.step (.tryput m)).1.finished = s.finished := by
  rcases tryput_spec s m with h | ⟨_, _, _, _, hf, _⟩ | ⟨_, _, _, _, hf, _⟩
  · rw [h]
  · exact hf
  · exact hf

/-- whatever `app_body_bypass` answers, `finished` grows by at most the completed message -/
theorem done_finished (s : FuncInput) (m : Nat) (ans : List (Option Nat)) (x : Nat) :
    (s.step (.done m ans)).1.finished.count x ≤ s.finished.count x + (if m = x then 1 else 0) := by
  by_cases hm : m ∈ s.running
  · have : (s.step (.done m ans)).1.finished = m :: s.finished := by
      simp only [step, hm, if_true]
      split
      · rfl
      · split
        · simp only [pqr]
          split
          · rfl
          · rfl
          · split <;> rfl
        · rfl
    rw [this, List.count_cons]
    by_cases hx : m = x <;> simp [hx]
  · rw [done_bad hm]; show s.finished.count x ≤ _; omega

end FuncInput

namespace Net

/-- bodies of `(n, m)` that have finished or are in flight -/
def doneOrFlying (s : Net) (n m : Nat) : Nat := (s.node n).finished.count m + s.started.count (n, m)

theorem cancelled_flying_step {s : Net} (hc : s.cancelled = true) (o : NOp) (n m : Nat) :
    doneOrFlying (s.step o).1 n m ≤ doneOrFlying s n m := by
  unfold doneOrFlying
  cases o with
  | put n' m' =>
    simp only [step]
    have hf := FuncInput.tryput_finished (s.node n') m'
    split
    · rename_i f _ heq
      have : f.finished = (s.node n').finished := by rw [← hf, heq]
      by_cases hn : n = n'
      · subst hn; simp [this]
      · simp [upd_other _ _ hn]
    · rename_i f heq
      have : f.finished = (s.node n').finished := by rw [← hf, heq]
      by_cases hn : n = n'
      · subst hn; simp [this]
      · simp [upd_other _ _ hn]
    · exact Nat.le_refl _
  | start n' m' => simp [step, hc]
  | finish n' m' =>
    simp only [step]
    split
    · rename_i hs
      have hd := FuncInput.done_finished (s.node n') m' [] m
      split
      · rename_i f nx fl heq
        have hf : f.finished.count m ≤ (s.node n').finished.count m + (if m' = m then 1 else 0) := by
          have : f = ((s.node n').step (.done m' [])).1 := by rw [heq]
          rw [this]; exact hd
        have hcnt : (s.started.erase (n', m')).count (n, m) = s.started.count (n, m) - (if (n', m') = (n, m) then 1 else 0) :=
          count_erase_pair _ _ _
        have hpos : 0 < s.started.count (n', m') := List.count_pos_iff.mpr hs
        by_cases hn : n = n'
        · subst hn
          by_cases hm : m' = m
          · subst hm
            cases nx <;> simp [hcnt] <;> simp at hf <;> omega
          · have : ¬ ((n, m') = (n, m)) := by intro e; injection e with _ e; exact hm e
            cases nx <;> simp [hcnt, this] <;> simp [hm] at hf <;> omega
        · have : ¬ ((n', m') = (n, m)) := by intro e; injection e with e _; exact hn e.symm
          cases nx <;> simp [upd_other _ _ hn, hcnt, this]
      · exact Nat.le_refl _
    · exact Nat.le_refl _
  | deliver =>
    simp only [step]
    split
    · exact Nat.le_refl _
    · exact Nat.le_refl _
    · rename_i n' m' r rem rest _
      have hf := FuncInput.tryput_finished (s.node r) m'
      split
      · rename_i f _ heq
        have : f.finished = (s.node r).finished := by rw [← hf, heq]
        by_cases hn : n = r
        · subst hn; simp [this]
        · simp [upd_other _ _ hn]
      · rename_i f heq
        have : f.finished = (s.node r).finished := by rw [← hf, heq]
        by_cases hn : n = r
        · subst hn; simp [this]
        · simp [upd_other _ _ hn]
      · exact Nat.le_refl _
  | rotate => simp only [step]; split <;> exact Nat.le_refl _
  | dropTask n' m' => simp only [step]; split <;> exact Nat.le_refl _
  | throw n' m' =>
    simp only [step]
    split
    · have hcnt : (s.started.erase (n', m')).count (n, m) ≤ s.started.count (n, m) := by
        rw [count_erase_pair]; omega
      simp; omega
    · exact Nat.le_refl _
  | cancel => exact Nat.le_refl _
  | reserve => exact Nat.le_refl _
  | release => simp only [step]; split <;> exact Nat.le_refl _

theorem cancelled_flying_runFrom (node succs) {s : Net} (hc : s.cancelled = true) (ops : List NOp) (n m : Nat) :
    doneOrFlying ((mach node succs).runFrom s ops).1 n m ≤ doneOrFlying s n m := by
  induction ops generalizing s with
  | nil => simp [Mach.runFrom]
  | cons o os ih =>
    simp only [Mach.runFrom]
    have h1 := cancelled_step hc o
    exact Nat.le_trans (ih (s := (s.step o).1) h1.1) (cancelled_flying_step hc o n m)

end Net
end TbbVerif.C14
