/-
C14 (a) helper lemmas: the inductive invariant of the reservation protocol of `limiter_node::forward_task` over
`reservable_predecessor_cache`, for every interleaving of any number of forward attempts with item arrivals,
edge flips and counter changes.
-/
import TbbVerif.Model.C14Res

namespace TbbVerif.C14.Res
open TbbVerif.Generated.C14Res

@[simp] theorem upd_same {α : Type} (f : Nat → α) (n : Nat) (v : α) : upd f n v n = v := by simp [upd]
theorem upd_ne {α : Type} (f : Nat → α) {n i : Nat} (v : α) (h : i ≠ n) : upd f n v i = f i := by simp [upd, h]

/-- pcs before a successful reservation (the local `reserved` is still false) -/
def Pc.preRes : Pc → Bool
  | .entered | .asking _ | .refused _ | .noRes => true
  | _ => false

/-- pcs after `try_reserve` returned true -/
def Pc.postRes : Pc → Bool
  | .holding _ _ | .offered _ _ _ => true
  | _ => false

namespace St

/-- The inductive invariant. -/
structure Inv (s : St) : Prop where
  /-- exactly the holder is at a pc that owns `reserved_src` -/
  hold : ∀ a, s.holder = some a ↔ (s.att a).pc.holdsSrc.isSome = true
  src : s.rsrc = s.hpc.holdsSrc
  res1 : ∀ p, (s.snd p).reserved = true → ∃ v, s.hpc.holdsRes = some (p, v)
  res2 : ∀ p v, s.hpc.holdsRes = some (p, v) → (s.snd p).reserved = true ∧ (s.snd p).items.head? = some v
  flagF : ∀ a, (s.att a).pc.preRes = true → (s.att a).flag = false
  flagT : ∀ a, (s.att a).pc.postRes = true → (s.att a).flag = true
  clean : s.stolen = false ∧ s.crashed = false
  deliv : s.delivered = s.inflight ++ s.consumed
  arr : ∀ p, s.arrived p = ((s.consumed.filter (fun x => x.1 == p)).map (·.2)).reverse ++ (s.snd p).items

theorem inv_init (t : Nat) : Inv (init t) := by
  constructor <;> simp [init, hpc, inflight, Pc.holdsSrc, Pc.holdsRes, Pc.preRes, Pc.postRes, Pc.infl]

/-- the invariant only reads these fields -/
theorem Inv.congr {s s' : St} (h : Inv s) (e1 : s'.rsrc = s.rsrc) (e2 : s'.snd = s.snd) (e3 : s'.att = s.att)
    (e4 : s'.holder = s.holder) (e5 : s'.delivered = s.delivered) (e6 : s'.consumed = s.consumed)
    (e7 : s'.arrived = s.arrived) (e8 : s'.stolen = s.stolen) (e9 : s'.crashed = s.crashed) : Inv s' := by
  have hp : s'.hpc = s.hpc := by simp [hpc, e3, e4]
  have hi : s'.inflight = s.inflight := by simp [inflight, hp]
  obtain ⟨a1, a2, a3, a4, a5, a6, a7, a8, a9⟩ := h
  constructor
  · intro a; rw [e4, e3]; exact a1 a
  · rw [e1, hp]; exact a2
  · intro p; rw [e2, hp]; exact a3 p
  · intro p v; rw [e2, hp]; exact a4 p v
  · intro a; rw [e3]; exact a5 a
  · intro a; rw [e3]; exact a6 a
  · rw [e8, e9]; exact a7
  · rw [e5, hi, e6]; exact a8
  · intro p; rw [e7, e6, e2]; exact a9 p

theorem bump_eq (s : St) : ∃ c f, s.bump = { s with count := c, futureDec := f } := by
  unfold bump
  dsimp only
  split
  · exact ⟨_, _, rfl⟩
  · split
    · exact ⟨_, _, rfl⟩
    · exact ⟨_, _, rfl⟩

theorem respawn_eq (s : St) : ∃ n, s.respawn = { s with pending := n } := by
  unfold respawn
  split
  · exact ⟨_, rfl⟩
  · exact ⟨s.pending, rfl⟩

/-- the pc of the holder is unaffected by a change of a non-holder -/
theorem hpc_upd_ne {s : St} {a : Nat} (A : Att) (h : s.holder ≠ some a) (s' : St) (e3 : s'.att = upd s.att a A)
    (e4 : s'.holder = s.holder) : s'.hpc = s.hpc := by
  unfold hpc
  rw [e4, e3]
  cases hh : s.holder with
  | none => rfl
  | some b =>
    have : b ≠ a := by intro e; apply h; rw [hh, e]
    simp [upd_ne _ _ this]

/-- A non-holder moves between pcs that do not own `reserved_src`; nothing else that the invariant reads changes. -/
theorem inv_nonholder {s s' : St} (h : Inv s) (a : Nat) (A : Att) (h0 : (s.att a).pc.holdsSrc = none)
    (h1 : A.pc.holdsSrc = none) (hF : A.pc.preRes = true → A.flag = false) (hT : A.pc.postRes = true → A.flag = true)
    (e1 : s'.rsrc = s.rsrc) (e2 : s'.snd = s.snd) (e3 : s'.att = upd s.att a A)
    (e4 : s'.holder = s.holder) (e5 : s'.delivered = s.delivered) (e6 : s'.consumed = s.consumed)
    (e7 : s'.arrived = s.arrived) (e8 : s'.stolen = s.stolen) (e9 : s'.crashed = s.crashed) : Inv s' := by
  have hne : s.holder ≠ some a := by
    intro e; have := (h.hold a).mp e; rw [h0] at this; simp at this
  have hp : s'.hpc = s.hpc := hpc_upd_ne A hne s' e3 e4
  have hi : s'.inflight = s.inflight := by simp [inflight, hp]
  obtain ⟨a1, a2, a3, a4, a5, a6, a7, a8, a9⟩ := h
  constructor
  · intro b
    rw [e4, e3]
    by_cases hb : b = a
    · subst hb; simp [h1]; exact hne
    · rw [upd_ne _ _ hb]; exact a1 b
  · rw [e1, hp]; exact a2
  · intro p; rw [e2, hp]; exact a3 p
  · intro p v; rw [e2, hp]; exact a4 p v
  · intro b; rw [e3]
    by_cases hb : b = a
    · subst hb; simpa using hF
    · rw [upd_ne _ _ hb]; exact a5 b
  · intro b; rw [e3]
    by_cases hb : b = a
    · subst hb; simpa using hT
    · rw [upd_ne _ _ hb]; exact a6 b
  · rw [e8, e9]; exact a7
  · rw [e5, hi, e6]; exact a8
  · intro p; rw [e7, e6, e2]; exact a9 p

/-- The holder `a` moves to pc `A.pc` (still holding `reserved_src`); `snd` may change at the reserved sender. -/
theorem inv_holder_move {s s' : St} (h : Inv s) (a : Nat) (A : Att) (hh : s.holder = some a)
    (h1 : A.pc.holdsSrc = (s.att a).pc.holdsSrc)
    (hF : A.pc.preRes = true → A.flag = false) (hT : A.pc.postRes = true → A.flag = true)
    (e1 : s'.rsrc = s.rsrc) (e3 : s'.att = upd s.att a A)
    (e4 : s'.holder = s.holder) (e6 : s'.consumed = s.consumed)
    (e7 : s'.arrived = s.arrived) (e8 : s'.stolen = s.stolen) (e9 : s'.crashed = s.crashed)
    (hitems : ∀ p, (s'.snd p).items = (s.snd p).items)
    (hres1 : ∀ p, (s'.snd p).reserved = true → ∃ v, A.pc.holdsRes = some (p, v))
    (hres2 : ∀ p v, A.pc.holdsRes = some (p, v) → (s'.snd p).reserved = true ∧ (s.snd p).items.head? = some v)
    (hdel : s'.delivered = A.pc.infl ++ s.consumed) : Inv s' := by
  have hp : s'.hpc = A.pc := by simp [hpc, e4, hh, e3]
  have hp0 : s.hpc = (s.att a).pc := by simp [hpc, hh]
  obtain ⟨a1, a2, a3, a4, a5, a6, a7, a8, a9⟩ := h
  constructor
  · intro b
    rw [e4, e3]
    by_cases hb : b = a
    · subst hb; simp [h1, hh]; exact (a1 b).mp hh
    · rw [upd_ne _ _ hb]; exact a1 b
  · rw [e1, hp, h1, a2, hp0]
  · intro p; rw [hp]; exact hres1 p
  · intro p v; rw [hp, hitems]; exact hres2 p v
  · intro b; rw [e3]
    by_cases hb : b = a
    · subst hb; simpa using hF
    · rw [upd_ne _ _ hb]; exact a5 b
  · intro b; rw [e3]
    by_cases hb : b = a
    · subst hb; simpa using hT
    · rw [upd_ne _ _ hb]; exact a6 b
  · rw [e8, e9]; exact a7
  · rw [hdel, e6]; simp [inflight, hp]
  · intro p; rw [e7, e6, hitems]; exact a9 p

@[simp] theorem respawn_rsrc (s : St) : s.respawn.rsrc = s.rsrc := by unfold respawn; split <;> rfl
@[simp] theorem bump_rsrc (s : St) : s.bump.rsrc = s.rsrc := by unfold bump; dsimp only; (repeat' split) <;> rfl
@[simp] theorem setPc_rsrc (s : St) (a : Nat) (pc : Pc) : (s.setPc a pc).rsrc = s.rsrc := rfl
@[simp] theorem respawn_snd (s : St) : s.respawn.snd = s.snd := by unfold respawn; split <;> rfl
@[simp] theorem bump_snd (s : St) : s.bump.snd = s.snd := by unfold bump; dsimp only; (repeat' split) <;> rfl
@[simp] theorem setPc_snd (s : St) (a : Nat) (pc : Pc) : (s.setPc a pc).snd = s.snd := rfl
@[simp] theorem respawn_att (s : St) : s.respawn.att = s.att := by unfold respawn; split <;> rfl
@[simp] theorem bump_att (s : St) : s.bump.att = s.att := by unfold bump; dsimp only; (repeat' split) <;> rfl
@[simp] theorem respawn_holder (s : St) : s.respawn.holder = s.holder := by unfold respawn; split <;> rfl
@[simp] theorem bump_holder (s : St) : s.bump.holder = s.holder := by unfold bump; dsimp only; (repeat' split) <;> rfl
@[simp] theorem setPc_holder (s : St) (a : Nat) (pc : Pc) : (s.setPc a pc).holder = s.holder := rfl
@[simp] theorem respawn_delivered (s : St) : s.respawn.delivered = s.delivered := by unfold respawn; split <;> rfl
@[simp] theorem bump_delivered (s : St) : s.bump.delivered = s.delivered := by unfold bump; dsimp only; (repeat' split) <;> rfl
@[simp] theorem setPc_delivered (s : St) (a : Nat) (pc : Pc) : (s.setPc a pc).delivered = s.delivered := rfl
@[simp] theorem respawn_consumed (s : St) : s.respawn.consumed = s.consumed := by unfold respawn; split <;> rfl
@[simp] theorem bump_consumed (s : St) : s.bump.consumed = s.consumed := by unfold bump; dsimp only; (repeat' split) <;> rfl
@[simp] theorem setPc_consumed (s : St) (a : Nat) (pc : Pc) : (s.setPc a pc).consumed = s.consumed := rfl
@[simp] theorem respawn_arrived (s : St) : s.respawn.arrived = s.arrived := by unfold respawn; split <;> rfl
@[simp] theorem bump_arrived (s : St) : s.bump.arrived = s.arrived := by unfold bump; dsimp only; (repeat' split) <;> rfl
@[simp] theorem setPc_arrived (s : St) (a : Nat) (pc : Pc) : (s.setPc a pc).arrived = s.arrived := rfl
@[simp] theorem respawn_stolen (s : St) : s.respawn.stolen = s.stolen := by unfold respawn; split <;> rfl
@[simp] theorem bump_stolen (s : St) : s.bump.stolen = s.stolen := by unfold bump; dsimp only; (repeat' split) <;> rfl
@[simp] theorem setPc_stolen (s : St) (a : Nat) (pc : Pc) : (s.setPc a pc).stolen = s.stolen := rfl
@[simp] theorem respawn_crashed (s : St) : s.respawn.crashed = s.crashed := by unfold respawn; split <;> rfl
@[simp] theorem bump_crashed (s : St) : s.bump.crashed = s.crashed := by unfold bump; dsimp only; (repeat' split) <;> rfl
@[simp] theorem setPc_crashed (s : St) (a : Nat) (pc : Pc) : (s.setPc a pc).crashed = s.crashed := rfl
@[simp] theorem respawn_q (s : St) : s.respawn.q = s.q := by unfold respawn; split <;> rfl
@[simp] theorem bump_q (s : St) : s.bump.q = s.q := by unfold bump; dsimp only; (repeat' split) <;> rfl
@[simp] theorem setPc_q (s : St) (a : Nat) (pc : Pc) : (s.setPc a pc).q = s.q := rfl
@[simp] theorem respawn_ev (s : St) : s.respawn.ev = s.ev := by unfold respawn; split <;> rfl
@[simp] theorem bump_ev (s : St) : s.bump.ev = s.ev := by unfold bump; dsimp only; (repeat' split) <;> rfl
@[simp] theorem setPc_ev (s : St) (a : Nat) (pc : Pc) : (s.setPc a pc).ev = s.ev := rfl
@[simp] theorem setPc_att (s : St) (a : Nat) (pc : Pc) : (s.setPc a pc).att = upd s.att a { s.att a with pc := pc } := rfl


theorem Flags.ok_iff (F : Flags) : F.ok = true ↔
    F.reserveChecksSrc = true ∧ F.limSetsReserved = true ∧ F.limFailReleases = true ∧ F.limFailGuarded = true ∧
      F.limSuccessConsumes = true ∧ F.known = true := by
  simp [Flags.ok, and_assoc]

/-- The holder `a` gives `reserved_src` up (sender `p` is left unreserved) and continues at a non-owning pc. -/
theorem inv_holder_drop {s s' : St} (h : Inv s) (a : Nat) (A : Att) (hh : s.holder = some a)
    (h1 : A.pc.holdsSrc = none)
    (hF : A.pc.preRes = true → A.flag = false) (hT : A.pc.postRes = true → A.flag = true)
    (e1 : s'.rsrc = none) (e3 : s'.att = upd s.att a A)
    (e4 : s'.holder = none) (e7 : s'.arrived = s.arrived) (e8 : s'.stolen = false) (e9 : s'.crashed = false)
    (hres : ∀ p, (s'.snd p).reserved = false)
    (hdel : s'.delivered = s'.consumed)
    (harr : ∀ p, ((s'.consumed.filter (fun x => x.1 == p)).map (·.2)).reverse ++ (s'.snd p).items =
        ((s.consumed.filter (fun x => x.1 == p)).map (·.2)).reverse ++ (s.snd p).items) : Inv s' := by
  have hp : s'.hpc = .idle := by simp [hpc, e4]
  obtain ⟨a1, a2, a3, a4, a5, a6, a7, a8, a9⟩ := h
  constructor
  · intro b
    rw [e4, e3]
    by_cases hb : b = a
    · subst hb; simp [h1]
    · rw [upd_ne _ _ hb]
      have := a1 b
      rw [hh] at this
      constructor
      · intro h; cases h
      · intro h; have := this.mpr h; injection this with this; exact absurd this.symm hb
  · rw [e1, hp]; rfl
  · intro p hp'; rw [hres p] at hp'; cases hp'
  · intro p v; rw [hp]; intro h; cases h
  · intro b; rw [e3]
    by_cases hb : b = a
    · subst hb; simpa using hF
    · rw [upd_ne _ _ hb]; exact a5 b
  · intro b; rw [e3]
    by_cases hb : b = a
    · subst hb; simpa using hT
    · rw [upd_ne _ _ hb]; exact a6 b
  · exact ⟨e8, e9⟩
  · rw [hdel]; simp [inflight, hp, Pc.infl]
  · intro p; rw [e7, harr p]; exact a9 p

theorem holder_of_src {s : St} (h : Inv s) {a : Nat} {p : Nat} (hs : (s.att a).pc.holdsSrc = some p) :
    s.holder = some a ∧ s.rsrc = some p ∧ s.hpc = (s.att a).pc := by
  have hh : s.holder = some a := (h.hold a).mpr (by rw [hs]; rfl)
  have hp : s.hpc = (s.att a).pc := by simp [hpc, hh]
  exact ⟨hh, by rw [h.src, hp, hs], hp⟩

theorem nosrc_of_none {s : St} (h : Inv s) (hn : s.rsrc = none) : s.holder = none := by
  cases hh : s.holder with
  | none => rfl
  | some b =>
    exfalso
    have h1 := (h.hold b).mp hh
    have h2 : s.hpc = (s.att b).pc := by simp [hpc, hh]
    have h3 := h.src
    rw [h2, hn] at h3
    rw [← h3] at h1; simp at h1

/-- with nobody holding `reserved_src`, no sender is reserved -/
theorem unreserved_of_noholder {s : St} (h : Inv s) (hn : s.holder = none) (p : Nat) : (s.snd p).reserved = false := by
  cases hr : (s.snd p).reserved with
  | false => rfl
  | true =>
    obtain ⟨v, hv⟩ := h.res1 p hr
    simp [hpc, hn, Pc.holdsRes] at hv

theorem inv_acquire {s s' : St} (h : Inv s) (a p : Nat) (A : Att) (hn : s.holder = none) (hA : A.pc = .asking p)
    (hF : A.flag = false)
    (e1 : s'.rsrc = some p) (e2 : s'.snd = s.snd) (e3 : s'.att = upd s.att a A)
    (e4 : s'.holder = some a) (e5 : s'.delivered = s.delivered) (e6 : s'.consumed = s.consumed)
    (e7 : s'.arrived = s.arrived) (e8 : s'.stolen = s.stolen) (e9 : s'.crashed = s.crashed) : Inv s' := by
  have hp : s'.hpc = .asking p := by simp [hpc, e4, e3, hA]
  have hp0 : s.hpc = .idle := by simp [hpc, hn]
  have hun := unreserved_of_noholder h hn
  obtain ⟨a1, a2, a3, a4, a5, a6, a7, a8, a9⟩ := h
  constructor
  · intro b
    rw [e4, e3]
    by_cases hb : b = a
    · subst hb; simp [hA, Pc.holdsSrc]
    · rw [upd_ne _ _ hb]
      have := a1 b
      rw [hn] at this
      constructor
      · intro h; injection h with h; exact absurd h.symm hb
      · intro h; have := this.mpr h; cases this
  · rw [e1, hp]; rfl
  · intro q hq; rw [e2, hun q] at hq; cases hq
  · intro q v; rw [hp]; intro h; cases h
  · intro b; rw [e3]
    by_cases hb : b = a
    · subst hb; simp [hF]
    · rw [upd_ne _ _ hb]; exact a5 b
  · intro b; rw [e3]
    by_cases hb : b = a
    · subst hb; simp [hA, Pc.postRes]
    · rw [upd_ne _ _ hb]; exact a6 b
  · rw [e8, e9]; exact a7
  · rw [e5, e6, a8]; simp [inflight, hp, hp0, Pc.infl]
  · intro q; rw [e7, e6, e2]; exact a9 q


theorem inv_stepAtt {F : Flags} (hF : F.ok = true) {s : St} (h : Inv s) (a : Nat) (acc : Bool) : Inv (s.stepAtt F a acc) := by
  obtain ⟨gen_rcs, gen_lsr, gen_lfr, gen_lfg, gen_lsc, _⟩ := (Flags.ok_iff F).mp hF
  unfold stepAtt
  dsimp only
  split
  next hpc0 =>
    -- idle
    have h0 : (s.att a).pc.holdsSrc = none := by rw [hpc0]; rfl
    split
    · exact inv_nonholder h a { pc := .entered, flag := false } h0 rfl (fun _ => rfl) (fun h => by cases h) rfl rfl rfl rfl rfl rfl rfl rfl rfl
    · exact inv_nonholder h a { s.att a with pc := .done } h0 rfl (fun h => by cases h) (fun h => by cases h) rfl rfl rfl rfl rfl rfl rfl rfl rfl
  next hpc0 =>
    -- entered
    have h0 : (s.att a).pc.holdsSrc = none := by rw [hpc0]; rfl
    have hf : (s.att a).flag = false := h.flagF a (by rw [hpc0]; rfl)
    split
    · exact inv_nonholder h a { s.att a with pc := .noRes } h0 rfl (fun _ => hf) (fun h => by cases h) rfl rfl rfl rfl rfl rfl rfl rfl rfl
    · rename_i hns
      rw [gen_rcs] at hns
      have hn : s.rsrc = none := by cases hr : s.rsrc <;> simp [hr] at hns ⊢
      have hno := nosrc_of_none h hn
      split
      · exact inv_nonholder h a { s.att a with pc := .noRes } h0 rfl (fun _ => hf) (fun h => by cases h) rfl rfl rfl rfl rfl rfl rfl rfl rfl
      · rename_i p ps hq
        exact inv_acquire h a p { s.att a with pc := .asking p } hno rfl hf rfl rfl rfl rfl rfl rfl rfl rfl rfl
  next p hpc0 =>
    -- asking p
    have hs : (s.att a).pc.holdsSrc = some p := by rw [hpc0]; rfl
    obtain ⟨hh, hr, hp⟩ := holder_of_src h hs
    have hf : (s.att a).flag = false := h.flagF a (by rw [hpc0]; rfl)
    have hun : ∀ q, (s.snd q).reserved = false := by
      intro q
      cases hq : (s.snd q).reserved with
      | false => rfl
      | true => obtain ⟨v, hv⟩ := h.res1 q hq; rw [hp, hpc0] at hv; cases hv
    have hinf : s.delivered = s.consumed := by rw [h.deliv]; simp [inflight, hp, hpc0, Pc.infl]
    split
    · exact inv_holder_move h a { s.att a with pc := .refused p } hh (by rw [hpc0]; rfl) (fun _ => hf) (fun h => by cases h)
        rfl rfl rfl rfl rfl rfl rfl (fun _ => rfl) (fun q hq => by have hq' : (s.snd q).reserved = true := hq; rw [hun q] at hq'; cases hq') (fun q v hq => by cases hq)
        (by simp [Pc.infl, hinf])
    · split
      · exact inv_holder_move h a { s.att a with pc := .refused p } hh (by rw [hpc0]; rfl) (fun _ => hf) (fun h => by cases h)
          rfl rfl rfl rfl rfl rfl rfl (fun _ => rfl) (fun q hq => by have hq' : (s.snd q).reserved = true := hq; rw [hun q] at hq'; cases hq') (fun q v hq => by cases hq)
          (by simp [Pc.infl, hinf])
      · rename_i v rest hit
        refine inv_holder_move h a { s.att a with pc := .gotIt p v } hh (by rw [hpc0]; rfl) (fun h => by cases h) (fun h => by cases h)
          rfl rfl rfl rfl rfl rfl rfl ?_ ?_ ?_ (by simp [Pc.infl, hinf])
        · intro q; by_cases hq : q = p
          · subst hq; simp
          · simp [upd_ne _ _ hq]
        · intro q hq'
          by_cases hq : q = p
          · subst hq; exact ⟨v, rfl⟩
          · simp [upd_ne _ _ hq, hun q] at hq'
        · intro q w hq
          simp [Pc.holdsRes] at hq
          obtain ⟨rfl, rfl⟩ := hq
          simp [hit]
  next p hpc0 =>
    -- refused p
    have hs : (s.att a).pc.holdsSrc = some p := by rw [hpc0]; rfl
    obtain ⟨hh, hr, hp⟩ := holder_of_src h hs
    have hf : (s.att a).flag = false := h.flagF a (by rw [hpc0]; rfl)
    have hun : ∀ q, (s.snd q).reserved = false := by
      intro q
      cases hq : (s.snd q).reserved with
      | false => rfl
      | true => obtain ⟨v, hv⟩ := h.res1 q hq; rw [hp, hpc0] at hv; cases hv
    have hinf : s.delivered = s.consumed := by rw [h.deliv]; simp [inflight, hp, hpc0, Pc.infl]
    refine inv_holder_drop h a { s.att a with pc := .entered } hh rfl (fun _ => hf) (fun h => by cases h)
      rfl rfl rfl rfl h.clean.1 h.clean.2 ?_ hinf ?_
    · intro q; by_cases hq : q = p
      · subst hq; simp [hun q]
      · simp [upd_ne _ _ hq, hun q]
    · intro q; by_cases hq : q = p
      · subst hq; simp
      · simp [upd_ne _ _ hq]
  next p v hpc0 =>
    -- gotIt p v
    have hs : (s.att a).pc.holdsSrc = some p := by rw [hpc0]; rfl
    obtain ⟨hh, hr, hp⟩ := holder_of_src h hs
    have hinf : s.delivered = s.consumed := by rw [h.deliv]; simp [inflight, hp, hpc0, Pc.infl]
    refine inv_holder_move h a { pc := .holding p v, flag := F.limSetsReserved } hh (by rw [hpc0]; rfl) (fun h => by cases h) (fun _ => gen_lsr)
      rfl rfl rfl rfl rfl rfl rfl (fun _ => rfl) ?_ ?_ (by simp [Pc.infl, hinf])
    · intro q hq
      obtain ⟨w, hw⟩ := h.res1 q hq
      rw [hp, hpc0] at hw
      exact ⟨w, hw⟩
    · intro q w hq
      exact h.res2 q w (by rw [hp, hpc0]; exact hq)
  next p v hpc0 =>
    -- holding p v
    have hs : (s.att a).pc.holdsSrc = some p := by rw [hpc0]; rfl
    obtain ⟨hh, hr, hp⟩ := holder_of_src h hs
    have hinf : s.delivered = s.consumed := by rw [h.deliv]; simp [inflight, hp, hpc0, Pc.infl]
    have hft : (s.att a).flag = true := h.flagT a (by rw [hpc0]; rfl)
    refine inv_holder_move h a { s.att a with pc := .offered p v acc } hh (by rw [hpc0]; rfl) (fun h => by cases h) (fun _ => hft)
      rfl rfl rfl rfl rfl rfl rfl (fun _ => rfl) ?_ ?_ ?_
    · intro q hq
      obtain ⟨w, hw⟩ := h.res1 q hq
      rw [hp, hpc0] at hw
      exact ⟨w, hw⟩
    · intro q w hq
      exact h.res2 q w (by rw [hp, hpc0]; exact hq)
    · cases acc <;> simp [Pc.infl, hinf]
  next p v hpc0 =>
    -- offered p v true: the success section
    have hs : (s.att a).pc.holdsSrc = some p := by rw [hpc0]; rfl
    obtain ⟨hh, hr, hp⟩ := holder_of_src h hs
    obtain ⟨hres, hhead⟩ := h.res2 p v (by rw [hp, hpc0]; rfl)
    obtain ⟨rest, hit⟩ : ∃ rest, (s.snd p).items = v :: rest := by
      cases hi : (s.snd p).items with
      | nil => simp [hi] at hhead
      | cons x r => simp [hi] at hhead; exact ⟨r, by rw [hhead]⟩
    have hdel : s.delivered = (p, v) :: s.consumed := by rw [h.deliv]; simp [inflight, hp, hpc0, Pc.infl]
    simp only [gen_lsc, ↓reduceIte]
    refine inv_holder_drop h a { s.att a with pc := .done } hh rfl (fun h => by cases h) (fun h => by cases h) ?_ ?_ ?_ ?_ ?_ ?_ ?_ ?_ ?_
    · simp [cacheConsume, hr]
    · simp [cacheConsume, hr]
    · simp [cacheConsume, hr]
    · simp [cacheConsume, hr]
    · simp [cacheConsume, hr, hh, hres, h.clean.1]
    · simp [cacheConsume, hr, h.clean.2]
    · intro q; simp [cacheConsume, hr]
      by_cases hq : q = p
      · subst hq; simp
      · simp [upd_ne _ _ hq]
        cases hq' : (s.snd q).reserved with
        | false => rfl
        | true =>
          obtain ⟨w, hw⟩ := h.res1 q hq'
          rw [hp, hpc0] at hw; simp [Pc.holdsRes] at hw; exact absurd hw.1.symm hq
    · simp [cacheConsume, hr, hit, hdel]
    · intro q; simp [cacheConsume, hr, hit]
      by_cases hq : q = p
      · subst hq; simp [hit]
      · have : (p == q) = false := by simp; exact fun e => hq e.symm
        simp [upd_ne _ _ hq, this]
  next p v hpc0 =>
    -- offered p v false: the failure section of an attempt that holds a reservation
    have hs : (s.att a).pc.holdsSrc = some p := by rw [hpc0]; rfl
    obtain ⟨hh, hr, hp⟩ := holder_of_src h hs
    obtain ⟨hres, hhead⟩ := h.res2 p v (by rw [hp, hpc0]; rfl)
    have hft : (s.att a).flag = true := h.flagT a (by rw [hpc0]; rfl)
    have hdel : s.delivered = s.consumed := by rw [h.deliv]; simp [inflight, hp, hpc0, Pc.infl]
    simp only [gen_lfr, gen_lfg, hft, Bool.not_true, Bool.false_or, Bool.and_self, ↓reduceIte]
    refine inv_holder_drop h a { s.att a with pc := .done } hh rfl (fun h => by cases h) (fun h => by cases h) ?_ ?_ ?_ ?_ ?_ ?_ ?_ ?_ ?_
    · simp [cacheRelease, hr]
    · simp [cacheRelease, hr]
    · simp [cacheRelease, hr]
    · simp [cacheRelease, hr]
    · simp [cacheRelease, hr, hh, hres, h.clean.1]
    · simp [cacheRelease, hr, h.clean.2]
    · intro q; simp [cacheRelease, hr]
      by_cases hq : q = p
      · subst hq; simp
      · simp [upd_ne _ _ hq]
        cases hq' : (s.snd q).reserved with
        | false => rfl
        | true =>
          obtain ⟨w, hw⟩ := h.res1 q hq'
          rw [hp, hpc0] at hw; simp [Pc.holdsRes] at hw; exact absurd hw.1.symm hq
    · simp [cacheRelease, hr, hdel]
    · intro q; simp [cacheRelease, hr]
      by_cases hq : q = p
      · subst hq; simp
      · simp [upd_ne _ _ hq]
  next hpc0 =>
    -- noRes: the failure section of an attempt whose try_reserve failed
    have h0 : (s.att a).pc.holdsSrc = none := by rw [hpc0]; rfl
    have hf : (s.att a).flag = false := h.flagF a (by rw [hpc0]; rfl)
    simp only [gen_lfr, gen_lfg, hf, Bool.not_true, Bool.or_self, Bool.and_false, Bool.false_eq_true, ↓reduceIte]
    exact inv_nonholder h a { s.att a with pc := .done } h0 rfl (fun h => by cases h) (fun h => by cases h)
      (by simp) (by simp) (by simp) (by simp) (by simp) (by simp) (by simp) (by simp) (by simp)
  next hpc0 => exact h


/-- like `Inv.congr`, but the senders may differ in fields the invariant does not read (`pushMode`, `owner`) -/
theorem Inv.congr' {s s' : St} (h : Inv s) (e1 : s'.rsrc = s.rsrc)
    (e2 : ∀ q, (s'.snd q).reserved = (s.snd q).reserved ∧ (s'.snd q).items = (s.snd q).items) (e3 : s'.att = s.att)
    (e4 : s'.holder = s.holder) (e5 : s'.delivered = s.delivered) (e6 : s'.consumed = s.consumed)
    (e7 : s'.arrived = s.arrived) (e8 : s'.stolen = s.stolen) (e9 : s'.crashed = s.crashed) : Inv s' := by
  have hp : s'.hpc = s.hpc := by simp [hpc, e3, e4]
  have hi : s'.inflight = s.inflight := by simp [inflight, hp]
  obtain ⟨a1, a2, a3, a4, a5, a6, a7, a8, a9⟩ := h
  constructor
  · intro a; rw [e4, e3]; exact a1 a
  · rw [e1, hp]; exact a2
  · intro p; rw [(e2 p).1, hp]; exact a3 p
  · intro p v; rw [(e2 p).1, (e2 p).2, hp]; exact a4 p v
  · intro a; rw [e3]; exact a5 a
  · intro a; rw [e3]; exact a6 a
  · rw [e8, e9]; exact a7
  · rw [e5, hi, e6]; exact a8
  · intro p; rw [e7, e6, (e2 p).2]; exact a9 p

macro "proj_rfl" : tactic => `(tactic| (simp only [step]; (try dsimp only); (repeat' split) <;> rfl))

theorem inv_step {F : Flags} (hF : F.ok = true) {s : St} (h : Inv s) (o : Op) : Inv (s.step F o) := by
  cases o with
  | step a acc => exact inv_stepAtt hF h a acc
  | senderPut p v =>
    obtain ⟨a1, a2, a3, a4, a5, a6, a7, a8, a9⟩ := h
    constructor
    · exact a1
    · exact a2
    · intro q hq
      by_cases hqp : q = p
      · subst hqp; simp [step] at hq; exact a3 q hq
      · simp [step, upd_ne _ _ hqp] at hq; exact a3 q hq
    · intro q w hq
      have := a4 q w hq
      by_cases hqp : q = p
      · subst hqp; simp [step]
        refine ⟨this.1, ?_⟩
        cases hi : (s.snd q).items with
        | nil => rw [hi] at this; simp at this
        | cons x r => rw [hi] at this; simpa using this.2
      · simp [step, upd_ne _ _ hqp]; exact this
    · exact a5
    · exact a6
    · exact a7
    · exact a8
    · intro q
      by_cases hqp : q = p
      · subst hqp; simp [step]; rw [a9 q]; simp
      · simp [step, upd_ne _ _ hqp]; exact a9 q
  | regPred p =>
    refine h.congr' (by proj_rfl) ?_ (by proj_rfl) (by proj_rfl) (by proj_rfl) (by proj_rfl) (by proj_rfl) (by proj_rfl) (by proj_rfl)
    intro q
    have : (s.step F (.regPred p)).snd = upd s.snd p { s.snd p with pushMode := false } := by proj_rfl
    rw [this]
    by_cases hq : q = p
    · subst hq; simp
    · simp [upd_ne _ _ hq]
  | dec => exact h.congr (by proj_rfl) (by proj_rfl) (by proj_rfl) (by proj_rfl) (by proj_rfl) (by proj_rfl) (by proj_rfl) (by proj_rfl) (by proj_rfl)
  | putBegin => exact h.congr (by proj_rfl) (by proj_rfl) (by proj_rfl) (by proj_rfl) (by proj_rfl) (by proj_rfl) (by proj_rfl) (by proj_rfl) (by proj_rfl)
  | putEnd acc =>
    simp only [step]
    split
    · exact h.congr (by simp) (by simp) (by simp) (by simp) (by simp) (by simp) (by simp) (by simp) (by simp)
    · exact h.congr (by simp) (by simp) (by simp) (by simp) (by simp) (by simp) (by simp) (by simp) (by simp)
  | setSucc b => exact h.congr rfl rfl rfl rfl rfl rfl rfl rfl rfl

theorem inv_sys {F : Flags} (hF : F.ok = true) (t : Nat) (ops : List Op) : Inv (sys F t ops) := by
  unfold sys
  have : ∀ (ops : List Op) (s : St), Inv s → Inv (ops.foldl (step F) s) := by
    intro ops
    induction ops with
    | nil => intro s h; exact h
    | cons o os ih => intro s h; exact ih _ (inv_step hF h o)
  exact this ops _ (inv_init t)


/-- what a step may not touch when the attempt holds nothing -/
def sameRes (s s' : St) : Prop :=
  s'.rsrc = s.rsrc ∧ s'.snd = s.snd ∧ s'.q = s.q ∧ s'.holder = s.holder ∧ s'.delivered = s.delivered ∧
    s'.consumed = s.consumed ∧ s'.ev = s.ev

theorem failed_entered {F : Flags} (hF : F.ok = true) {s : St} (a : Nat) (acc : Bool)
    (hpc : (s.att a).pc = .entered) (hr : s.rsrc.isSome = true) :
    ((s.stepAtt F a acc).att a).pc = .noRes ∧ sameRes s (s.stepAtt F a acc) := by
  obtain ⟨g1, _, _, _, _⟩ := (Flags.ok_iff F).mp hF
  unfold stepAtt
  simp only [hpc, g1, hr, Bool.and_self, ↓reduceIte]
  exact ⟨by simp, rfl, rfl, rfl, rfl, rfl, rfl, rfl⟩

theorem failed_noRes {F : Flags} (hF : F.ok = true) {s : St} (h : Inv s) (a : Nat) (acc : Bool)
    (hpc : (s.att a).pc = .noRes) :
    ((s.stepAtt F a acc).att a).pc = .done ∧ sameRes s (s.stepAtt F a acc) := by
  obtain ⟨_, _, g3, g4, _⟩ := (Flags.ok_iff F).mp hF
  have hf : (s.att a).flag = false := h.flagF a (by rw [hpc]; rfl)
  unfold stepAtt
  simp only [hpc, g3, g4, hf, Bool.not_true, Bool.or_self, Bool.and_false, Bool.false_eq_true, ↓reduceIte]
  exact ⟨by simp, by simp, by simp, by simp, by simp, by simp, by simp, by simp⟩

theorem nodup_of_reverse {l : List Nat} (h : l.reverse.Nodup) : l.Nodup :=
  List.nodup_iff_count.mpr (fun a => by have := List.nodup_iff_count.mp h a; simpa [List.count_reverse] using this)

/-- at most once: with distinct items per sender, what was delivered from a sender has no duplicates -/
theorem delivered_nodup {s : St} (h : Inv s) (p : Nat) (hnd : (s.arrived p).Nodup) :
    ((s.delivered.filter (fun x => x.1 == p)).map (·.2)).Nodup := by
  rw [h.deliv]
  have ha := h.arr p
  rw [ha] at hnd
  simp only [List.filter_append, List.map_append]
  have h1 := List.nodup_append.mp hnd
  have hC : ((s.consumed.filter (fun x => x.1 == p)).map (·.2)).Nodup := nodup_of_reverse h1.1
  unfold inflight
  cases hh : s.hpc with
  | offered q v acc =>
    cases acc with
    | false => simpa [Pc.infl] using hC
    | true =>
      simp only [Pc.infl]
      by_cases hq : q = p
      · subst hq
        have := (h.res2 q v (by rw [hh]; rfl)).2
        obtain ⟨rest, hit⟩ : ∃ rest, (s.snd q).items = v :: rest := by
          cases hi : (s.snd q).items with
          | nil => simp [hi] at this
          | cons x r => simp [hi] at this; exact ⟨r, by rw [this]⟩
        rw [hit] at h1
        simp only [List.filter_cons, beq_self_eq_true, ↓reduceIte, List.filter_nil, List.map_cons, List.map_nil,
          List.singleton_append, List.nodup_cons]
        refine ⟨?_, hC⟩
        intro hx
        exact h1.2.2 v (List.mem_reverse.mpr hx) v (by simp) rfl
      · have : (q == p) = false := by simp [hq]
        simpa [List.filter_cons, this] using hC
  | _ => simpa [Pc.infl] using hC


end St
end TbbVerif.C14.Res
