/-
C14 (b) helper lemmas: the counting invariant of the graph's wait-context vertex with per-thread reference vertices,
for every interleaving of the atomic accesses of any number of threads.
-/
import TbbVerif.Model.C14Wait

namespace TbbVerif.C14.Wait
namespace WT

@[simp] theorem upd_same {α : Type} (f : Nat → α) (n : Nat) (v : α) : upd f n v n = v := by simp [upd]
theorem upd_ne {α : Type} (f : Nat → α) {n i : Nat} (v : α) (h : i ≠ n) : upd f n v i = f i := by simp [upd, h]

theorem WFlags.ok_iff (F : WFlags) : F.ok = true ↔
    F.refReserveOnZero = true ∧ F.refReleaseOnZero = true ∧ F.taskCtorReserves = true ∧ F.taskFinalizeReleases = true ∧
      F.reserveWaitReserves = true ∧ F.releaseWaitReleases = true ∧ F.waitWhilePositive = true ∧ F.known = true := by
  simp [WFlags.ok, and_assoc]

structure Inv (s : WT) : Prop where
  cnt : ∀ u, s.child u = s.tasksChild u
  one : ∀ u, s.pr u = true → s.child u = 1
  nd : s.liveSet.Nodup
  live : ∀ u, u ∈ s.liveSet ↔ (0 < s.child u ∧ s.pr u = false)
  root : s.root = ((s.resv + s.tasksRoot + s.liveSet.length + s.pendRel : Nat) : Int)
  early : s.early = false

theorem inv_init : Inv ({} : WT) := by
  constructor <;> simp

theorem inv_step {F : WFlags} (hF : F.ok = true) {s : WT} (h : Inv s) (o : WOp) : Inv (s.step F o) := by
  obtain ⟨f1, f2, f3, f4, f5, f6, f7, _⟩ := (WFlags.ok_iff F).mp hF
  obtain ⟨a1, a2, a3, a4, a5, a6⟩ := h
  cases o with
  | reserveWait =>
    simp only [step, f5, ↓reduceIte]
    exact ⟨a1, a2, a3, a4, by show s.root + 1 = _; rw [a5]; push_cast; omega, a6⟩
  | releaseWait =>
    simp only [step, f6, ↓reduceIte]
    split
    · exact ⟨a1, a2, a3, a4, a5, a6⟩
    · rename_i hr
      exact ⟨a1, a2, a3, a4, by show s.root - 1 = _; rw [a5]; push_cast; omega, a6⟩
  | mkForeign =>
    simp only [step, f3, ↓reduceIte]
    exact ⟨a1, a2, a3, a4, by show s.root + 1 = _; rw [a5]; push_cast; omega, a6⟩
  | finRoot =>
    simp only [step, f4, ↓reduceIte]
    split
    · exact ⟨a1, a2, a3, a4, a5, a6⟩
    · rename_i hr
      exact ⟨a1, a2, a3, a4, by show s.root - 1 = _; rw [a5]; push_cast; omega, a6⟩
  | mkArena u =>
    simp only [step, f3, f1, Bool.not_true, Bool.false_eq_true, ↓reduceIte, beq_true]
    split
    · exact ⟨a1, a2, a3, a4, a5, a6⟩
    · rename_i hp
      have hp' : s.pr u = false := by simpa using hp
      split
      · rename_i hz
        have hz' : s.child u = 0 := by simpa using hz
        refine ⟨?_, ?_, a3, ?_, a5, a6⟩
        · intro v; by_cases hv : v = u
          · subst hv; simp [a1 v]
          · simp [upd_ne _ _ hv]; exact a1 v
        · intro v; by_cases hv : v = u
          · subst hv; simp [hz']
          · simp [upd_ne _ _ hv]; exact a2 v
        · intro v; by_cases hv : v = u
          · subst hv; simp
            intro hm; have := (a4 v).mp hm; omega
          · simp [upd_ne _ _ hv]; exact a4 v
      · rename_i hz
        have hz' : 0 < s.child u := by
          have : ¬ s.child u = 0 := by simpa using hz
          omega
        refine ⟨?_, ?_, a3, ?_, a5, a6⟩
        · intro v; by_cases hv : v = u
          · subst hv; simp [a1 v]
          · simp [upd_ne _ _ hv]; exact a1 v
        · intro v; by_cases hv : v = u
          · subst hv; simp [hp']
          · simp [upd_ne _ _ hv]; exact a2 v
        · intro v; by_cases hv : v = u
          · subst hv; simp [hp']; exact (a4 v).mpr ⟨hz', hp'⟩
          · simp [upd_ne _ _ hv]; exact a4 v
  | parentReserve u =>
    simp only [step]
    split
    · rename_i hp
      have hc := a2 u hp
      have hnm : u ∉ s.liveSet := by
        intro hm; have := ((a4 u).mp hm).2; rw [hp] at this; cases this
      refine ⟨a1, ?_, List.nodup_cons.mpr ⟨hnm, a3⟩, ?_, ?_, a6⟩
      · intro v; by_cases hv : v = u
        · subst hv; simp
        · simp [upd_ne _ _ hv]; exact a2 v
      · intro v; by_cases hv : v = u
        · subst hv; simp [hc]
        · simp [upd_ne _ _ hv, hv]; exact a4 v
      · show s.root + 1 = _; rw [a5]; simp; omega
    · exact ⟨a1, a2, a3, a4, a5, a6⟩
  | finChild u =>
    simp only [step, f4, f2, Bool.not_true, Bool.false_eq_true, ↓reduceIte, beq_true]
    split
    · exact ⟨a1, a2, a3, a4, a5, a6⟩
    · rename_i hc
      have hp : s.pr u = false := by
        cases hq : s.pr u with
        | false => rfl
        | true => simp [hq] at hc
      have ht : 0 < s.tasksChild u := by
        have : ¬ s.tasksChild u = 0 := by intro e; simp [e] at hc
        omega
      have hch : 0 < s.child u := by rw [a1 u]; exact ht
      have hm : u ∈ s.liveSet := (a4 u).mpr ⟨hch, hp⟩
      split
      · rename_i hz
        have hz' : s.child u - 1 = 0 := by simpa using hz
        refine ⟨?_, ?_, a3.erase u, ?_, ?_, a6⟩
        · intro v; by_cases hv : v = u
          · subst hv; simp [a1 v]
          · simp [upd_ne _ _ hv]; exact a1 v
        · intro v; by_cases hv : v = u
          · subst hv; simp [hp]
          · simp [upd_ne _ _ hv]; exact a2 v
        · intro v
          rw [a3.mem_erase_iff]
          by_cases hv : v = u
          · subst hv; simp [hz']
          · simp [upd_ne _ _ hv, hv]; exact a4 v
        · show s.root = _
          rw [a5]
          have := List.length_erase_of_mem hm
          have hl : 0 < s.liveSet.length := List.length_pos_of_mem hm
          simp only [this]
          push_cast; omega
      · rename_i hz
        have hz' : 0 < s.child u - 1 := by
          have : ¬ s.child u - 1 = 0 := by simpa using hz
          omega
        refine ⟨?_, ?_, a3, ?_, a5, a6⟩
        · intro v; by_cases hv : v = u
          · subst hv; simp [a1 v]
          · simp [upd_ne _ _ hv]; exact a1 v
        · intro v; by_cases hv : v = u
          · subst hv; simp [hp]
          · simp [upd_ne _ _ hv]; exact a2 v
        · intro v; by_cases hv : v = u
          · subst hv; simp [hp, hz']; exact hm
          · simp [upd_ne _ _ hv]; exact a4 v
  | parentRelease =>
    simp only [step]
    split
    · exact ⟨a1, a2, a3, a4, a5, a6⟩
    · exact ⟨a1, a2, a3, a4, by show s.root - 1 = _; rw [a5]; push_cast; omega, a6⟩
  | waitTest =>
    simp only [step, f7, ↓reduceIte]
    split
    · exact ⟨a1, a2, a3, a4, a5, a6⟩
    · rename_i hr
      have hr0 : ¬ (s.root > 0) := by simpa using hr
      have h0 : s.resv = 0 ∧ s.tasksRoot = 0 ∧ s.liveSet.length = 0 := by
        rw [a5] at hr0
        have : ¬ ((s.resv + s.tasksRoot + s.liveSet.length + s.pendRel : Nat) > 0) := by
          intro h; apply hr0; exact_mod_cast h
        omega
      have hl : s.liveSet = [] := List.length_eq_zero_iff.mp h0.2.2
      refine ⟨a1, a2, a3, a4, a5, ?_⟩
      simp [a6, h0.1, h0.2.1, hl]

theorem inv_sys {F : WFlags} (hF : F.ok = true) (ops : List WOp) : Inv (sys F ops) := by
  unfold sys
  have : ∀ (ops : List WOp) (s : WT), Inv s → Inv (ops.foldl (step F) s) := by
    intro ops
    induction ops with
    | nil => intro s h; exact h
    | cons o os ih => intro s h; exact ih _ (inv_step hF h o)
  exact this ops _ inv_init

end WT
end TbbVerif.C14.Wait
