/-
C14 helper lemmas: successor caches (broadcast / round-robin), continue_receiver, input_node.
-/
import TbbVerif.Model.C14

namespace TbbVerif.C14

/-- successors whose edge was flipped to pull mode by an offer sequence -/
def flipped (offers : List (Nat × Resp)) : List Nat :=
  (offers.filter (fun o => o.2 = .reject true)).map Prod.fst

/-- successors that accepted -/
def acceptors (offers : List (Nat × Resp)) : List Nat :=
  (offers.filter (fun o => o.2 = .accept)).map Prod.fst

section
variable {σ : Type} (offer : σ → Nat → σ × Resp)

theorem bcastM_offers (s : σ) (succs : List Nat) : ((bcastM offer s succs).2.1).map Prod.fst = succs := by
  induction succs generalizing s with
  | nil => simp [bcastM]
  | cons r rs ih => simp [bcastM, ih]

theorem bcastM_remaining (s : σ) (succs : List Nat) :
    (bcastM offer s succs).2.2 =
      (((bcastM offer s succs).2.1).filter (fun o => o.2 ≠ .reject true)).map Prod.fst := by
  induction succs generalizing s with
  | nil => simp [bcastM]
  | cons r rs ih =>
    simp only [bcastM]
    by_cases h : (offer s r).2 = .reject true
    · simp [h, ih]
    · simp [h, ih]

theorem bcastM_edges (s : σ) (succs : List Nat) (r : Nat) :
    ((bcastM offer s succs).2.2).count r + (flipped (bcastM offer s succs).2.1).count r = succs.count r := by
  induction succs generalizing s with
  | nil => simp [bcastM, flipped]
  | cons x xs ih =>
    simp only [bcastM]
    have := ih (offer s x).1
    by_cases h : (offer s x).2 = .reject true
    · simp [h, flipped, List.count_cons] at this ⊢; omega
    · simp [h, flipped, List.count_cons] at this ⊢; omega

theorem rrM_prefix (s : σ) (succs : List Nat) :
    ∃ rest, succs = ((rrM offer s succs).2.1).map Prod.fst ++ rest := by
  induction succs generalizing s with
  | nil => exact ⟨[], by simp [rrM]⟩
  | cons r rs ih =>
    simp only [rrM]
    split
    · exact ⟨rs, by simp⟩
    · obtain ⟨rest, h⟩ := ih (offer s r).1
      exact ⟨rest, by simp; exact h⟩
    · obtain ⟨rest, h⟩ := ih (offer s r).1
      exact ⟨rest, by simp; exact h⟩

/-- Round-robin hands the message to at most one successor, and it is the last one asked. -/
theorem rrM_single (s : σ) (succs : List Nat) :
    (acceptors (rrM offer s succs).2.1 = [] ∧ ((rrM offer s succs).2.1).map Prod.fst = succs) ∨
    (∃ pre r, (rrM offer s succs).2.1 = pre ++ [(r, .accept)] ∧ acceptors pre = []) := by
  induction succs generalizing s with
  | nil => left; simp [rrM, acceptors]
  | cons r rs ih =>
    simp only [rrM]
    split
    · right; exact ⟨[], r, by simp, by simp [acceptors]⟩
    · rcases ih (offer s r).1 with ⟨h1, h2⟩ | ⟨pre, x, h1, h2⟩
      · left; simp [acceptors] at h1 ⊢; exact ⟨h1, h2⟩
      · right; exact ⟨(r, .reject true) :: pre, x, by simp [h1], by simp [acceptors] at h2 ⊢; exact h2⟩
    · rcases ih (offer s r).1 with ⟨h1, h2⟩ | ⟨pre, x, h1, h2⟩
      · left; simp [acceptors] at h1 ⊢; exact ⟨h1, h2⟩
      · right; exact ⟨(r, .reject false) :: pre, x, by simp [h1], by simp [acceptors] at h2 ⊢; exact h2⟩

theorem rrM_accept_le_one (s : σ) (succs : List Nat) : (acceptors (rrM offer s succs).2.1).length ≤ 1 := by
  rcases rrM_single offer s succs with ⟨h, _⟩ | ⟨pre, r, h1, h2⟩
  · simp [h]
  · rw [h1]; unfold acceptors at h2 ⊢; simp [List.filter_append, h2]

theorem rrM_edges (s : σ) (succs : List Nat) (r : Nat) :
    ((rrM offer s succs).2.2).count r + (flipped (rrM offer s succs).2.1).count r = succs.count r := by
  induction succs generalizing s with
  | nil => simp [rrM, flipped]
  | cons x xs ih =>
    simp only [rrM]
    have := ih (offer s x).1
    split
    · simp [flipped]
    · simp [flipped, List.count_cons] at this ⊢; omega
    · simp [flipped, List.count_cons] at this ⊢; omega

end

/-! ### continue_receiver -/
namespace ContinueNode

/-- puts received = fires × threshold + current count, while the threshold `k ≥ 1` is not changed. -/
structure Inv (k : Int) (s : ContinueNode) : Prop where
  pc : s.predCount = k
  lo : 0 ≤ s.curCount
  hi : s.curCount < k
  acc : (s.puts : Int) = s.fires * k + s.curCount

theorem inv_put {k : Int} {s : ContinueNode} (h : Inv k s) : Inv k (s.step .put).1 := by
  obtain ⟨h1, h2, h3, h4⟩ := h
  simp only [step]
  split
  · rename_i hlt
    refine ⟨h1, ?_, ?_, ?_⟩
    · simp; omega
    · simp; omega
    · simp; rw [h4]; omega
  · rename_i hge
    refine ⟨h1, ?_, ?_, ?_⟩
    · simp
    · simp; omega
    · simp
      have : s.curCount + 1 = k := by omega
      rw [h4]
      have e : ((s.fires : Int) + 1) * k = s.fires * k + k := by
        rw [Int.add_mul]; simp
      rw [e]; omega

theorem put_fires_iff {s : ContinueNode} : (s.step .put).2 = true ↔ s.predCount ≤ s.curCount + 1 := by
  simp only [step]; split <;> simp <;> omega

end ContinueNode

/-! ### input_node -/
namespace InputNode

/-- Everything the body generated is either delivered (exactly once, in order) or is the cached item. -/
structure Inv (s : InputNode) : Prop where
  le : s.first ≤ s.next
  gen : s.delivered.reverse ++ (if s.hasItem then [s.item] else []) = List.range' s.first (s.next - s.first)
  res : s.reserved = true → s.hasItem = true

theorem inv_new (first stop : Nat) : Inv (new first stop) := by
  constructor <;> simp [new]

theorem range'_snoc (a n : Nat) : List.range' a (n + 1) = List.range' a n ++ [a + n] := by
  rw [List.range'_concat]; simp

theorem inv_step {s : InputNode} (h : Inv s) (o : IOp) : Inv (s.step o).1 := by
  obtain ⟨h1, h2, h3⟩ := h
  cases o <;> simp only [step]
  · -- tryGet
    split
    · exact ⟨h1, h2, h3⟩
    · split
      · rename_i hr hi
        refine ⟨h1, ?_, ?_⟩
        · simp [hi] at h2 ⊢; exact h2
        · simp at hr; simp [hr]
      · exact ⟨h1, h2, h3⟩
  · -- tryReserve
    split
    · exact ⟨h1, h2, h3⟩
    · split
      · rename_i hi; exact ⟨h1, h2, fun _ => hi⟩
      · exact ⟨h1, h2, h3⟩
  · -- tryRelease
    split
    · refine ⟨h1, h2, ?_⟩; simp
    · exact ⟨h1, h2, h3⟩
  · -- tryConsume
    split
    · rename_i hc
      simp at hc
      refine ⟨h1, ?_, ?_⟩
      · simp [hc.2] at h2 ⊢; exact h2
      · simp
    · exact ⟨h1, h2, h3⟩
  · exact ⟨h1, h2, h3⟩
  · exact ⟨h1, h2, h3⟩
  · exact ⟨h1, h2, h3⟩
  · -- reserveApply
    split
    · exact ⟨h1, h2, h3⟩
    · rename_i hr
      by_cases hi : s.hasItem = true
      · simp [hi]
        exact ⟨h1, by simp [hi] at h2 ⊢; exact h2, fun _ => rfl⟩
      · simp at hi
        by_cases hlt : s.next < s.stop
        · simp [hi, hlt]
          refine ⟨by show s.first ≤ s.next + 1; omega, ?_, ?_⟩
          · simp [hi] at h2
            show s.delivered.reverse ++ [s.next] = List.range' s.first (s.next + 1 - s.first)
            have e : s.next + 1 - s.first = (s.next - s.first) + 1 := by omega
            rw [e, range'_snoc, ← h2]
            congr 2
            omega
          · simp
        · simp [hi, hlt]
          exact ⟨h1, by simp [hi] at h2 ⊢; exact h2, by simp at hr; simp [hr]⟩

theorem inv_run (first stop : Nat) (ops : List IOp) : Inv ((mach first stop).run ops).1 :=
  Mach.inv_run (mach first stop) Inv (inv_new first stop) (fun _ o h => inv_step h o) ops

end InputNode
end TbbVerif.C14
