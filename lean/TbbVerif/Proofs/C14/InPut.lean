/-
C14 (a) helper lemmas: `input_node::apply_body_bypass` with any number of concurrent put tasks and an external
pulling / reserving successor — inductive invariant for every interleaving.
-/
import TbbVerif.Proofs.C14.Res

namespace TbbVerif.C14.Res
namespace ISt

theorem IFlags.ok_iff (F : IFlags) : F.ok = true ↔
    F.reserveChecksReserved = true ∧ F.bodyOnlyWhenEmpty = true ∧ F.applyReturnsOnFail = true ∧
      F.applyConsumesOnAccept = true ∧ F.applyReleasesOnReject = true ∧ F.known = true := by
  simp [IFlags.ok, and_assoc]

structure Inv (s : ISt) : Prop where
  hold : ∀ a, s.holder = some (.task a) ↔ (s.task a).val.isSome = true
  res : s.reserved = s.holder.isSome
  item : s.reserved = true → s.hasItem = true
  val : ∀ a v, (s.task a).val = some v → s.item = v
  clean : s.stolen = false
  gen1 : s.gen.reverse = List.range' s.first (s.next - s.first)
  le : s.first ≤ s.next
  gen2 : s.gen = (if s.hasItem then [s.item] else []) ++ s.taken.map (·.2)
  deliv : s.delivered = s.inflight ++ (s.taken.filter (·.1)).map (·.2)

theorem inv_init (a b : Nat) : Inv (init a b) := by
  constructor <;> simp [init, inflight, htask, IPc.infl, IPc.val]

theorem respawn_eq (s : ISt) : ∃ n, s.respawn = { s with pending := n } := by
  unfold respawn
  split
  · exact ⟨_, rfl⟩
  · exact ⟨s.pending, rfl⟩

/-- the invariant only reads these fields -/
theorem Inv.congr {s s' : ISt} (h : Inv s) (e1 : s'.task = s.task) (e2 : s'.holder = s.holder)
    (e3 : s'.reserved = s.reserved) (e4 : s'.hasItem = s.hasItem) (e5 : s'.item = s.item) (e6 : s'.stolen = s.stolen)
    (e7 : s'.gen = s.gen) (e8 : s'.first = s.first) (e9 : s'.next = s.next) (e10 : s'.taken = s.taken)
    (e11 : s'.delivered = s.delivered) : Inv s' := by
  have hi : s'.inflight = s.inflight := by simp [inflight, htask, e1, e2]
  obtain ⟨a1, a2, a3, a4, a5, a6, a7, a8, a9⟩ := h
  constructor
  · intro a; rw [e2, e1]; exact a1 a
  · rw [e3, e2]; exact a2
  · rw [e3, e4]; exact a3
  · intro a v; rw [e1, e5]; exact a4 a v
  · rw [e6]; exact a5
  · rw [e7, e8, e9]; exact a6
  · rw [e8, e9]; exact a7
  · rw [e7, e4, e5, e10]; exact a8
  · rw [e11, hi, e10]; exact a9

theorem htask_upd_ne {s s' : ISt} {a : Nat} (pc : IPc) (h : s.holder ≠ some (.task a)) (e1 : s'.task = upd s.task a pc)
    (e2 : s'.holder = s.holder) : s'.htask = s.htask := by
  unfold htask
  rw [e2, e1]
  cases hh : s.holder with
  | none => rfl
  | some w =>
    cases w with
    | ext => rfl
    | task b =>
      have : b ≠ a := by intro e; apply h; rw [hh, e]
      simp [upd_ne _ _ this]

/-- a task that does not hold the reservation moves between non-holding pcs -/
theorem inv_nonholder {s s' : ISt} (h : Inv s) (a : Nat) (pc : IPc) (h0 : (s.task a).val = none) (h1 : pc.val = none)
    (e1 : s'.task = upd s.task a pc) (e2 : s'.holder = s.holder)
    (e3 : s'.reserved = s.reserved) (e4 : s'.hasItem = s.hasItem) (e5 : s'.item = s.item) (e6 : s'.stolen = s.stolen)
    (e7 : s'.gen = s.gen) (e8 : s'.first = s.first) (e9 : s'.next = s.next) (e10 : s'.taken = s.taken)
    (e11 : s'.delivered = s.delivered) : Inv s' := by
  have hne : s.holder ≠ some (.task a) := by
    intro e; have := (h.hold a).mp e; rw [h0] at this; simp at this
  have hp : s'.htask = s.htask := htask_upd_ne pc hne e1 e2
  have hi : s'.inflight = s.inflight := by simp [inflight, hp]
  obtain ⟨a1, a2, a3, a4, a5, a6, a7, a8, a9⟩ := h
  constructor
  · intro b; rw [e2, e1]
    by_cases hb : b = a
    · subst hb; simp [h1]; exact hne
    · rw [upd_ne _ _ hb]; exact a1 b
  · rw [e3, e2]; exact a2
  · rw [e3, e4]; exact a3
  · intro b v; rw [e1, e5]
    by_cases hb : b = a
    · subst hb; simp [h1]
    · rw [upd_ne _ _ hb]; exact a4 b v
  · rw [e6]; exact a5
  · rw [e7, e8, e9]; exact a6
  · rw [e8, e9]; exact a7
  · rw [e7, e4, e5, e10]; exact a8
  · rw [e11, hi, e10]; exact a9

theorem noholder_of_unreserved {s : ISt} (h : Inv s) (hr : s.reserved = false) : s.holder = none := by
  have := h.res; rw [hr] at this
  cases hh : s.holder with
  | none => rfl
  | some w => rw [hh] at this; simp at this

theorem range_snoc (f n : Nat) (h : f ≤ n) : List.range' f (n - f) ++ [n] = List.range' f (n + 1 - f) := by
  have : n + 1 - f = (n - f) + 1 := by omega
  rw [this, List.range'_concat]
  congr 2
  omega

/-- a put task (not reserved, nobody holds) takes the reservation on the cached item -/
theorem inv_acquire {s s' : ISt} (h : Inv s) (a : Nat) (hn : s.holder = none) (hid : (s.task a).val = none)
    (hit : s'.hasItem = true)
    (e1 : s'.task = upd s.task a (.got s'.item)) (e2 : s'.holder = some (.task a))
    (e3 : s'.reserved = true) (e6 : s'.stolen = s.stolen)
    (e8 : s'.first = s.first) (e10 : s'.taken = s.taken) (e11 : s'.delivered = s.delivered)
    (hg1 : s'.gen.reverse = List.range' s'.first (s'.next - s'.first)) (hle : s'.first ≤ s'.next)
    (hg2 : s'.gen = [s'.item] ++ s'.taken.map (·.2)) : Inv s' := by
  have hp : s'.htask = .got s'.item := by simp [htask, e2, e1]
  have hp0 : s.htask = .idle := by simp [htask, hn]
  obtain ⟨a1, a2, a3, a4, a5, a6, a7, a8, a9⟩ := h
  constructor
  · intro b; rw [e2, e1]
    by_cases hb : b = a
    · subst hb; simp [IPc.val]
    · rw [upd_ne _ _ hb]
      have := a1 b
      rw [hn] at this
      constructor
      · intro h; injection h with h; injection h with h; exact absurd h.symm hb
      · intro h; have := this.mpr h; cases this
  · rw [e3, e2]; rfl
  · intro _; exact hit
  · intro b v; rw [e1]
    by_cases hb : b = a
    · subst hb; simp [IPc.val]
    · rw [upd_ne _ _ hb]
      intro hv
      have : (s.task b).val.isSome = true := by rw [hv]; rfl
      have := (a1 b).mpr this
      rw [hn] at this; cases this
  · rw [e6]; exact a5
  · exact hg1
  · exact hle
  · rw [hg2, hit]; rfl
  · rw [e11, e10, a9]; simp [inflight, hp, hp0, IPc.infl]

@[simp] theorem respawn_task (s : ISt) : s.respawn.task = s.task := by unfold respawn; split <;> rfl
@[simp] theorem respawn_holder (s : ISt) : s.respawn.holder = s.holder := by unfold respawn; split <;> rfl
@[simp] theorem setTask_holder (s : ISt) (a : Nat) (pc : IPc) : (s.setTask a pc).holder = s.holder := rfl
@[simp] theorem respawn_reserved (s : ISt) : s.respawn.reserved = s.reserved := by unfold respawn; split <;> rfl
@[simp] theorem setTask_reserved (s : ISt) (a : Nat) (pc : IPc) : (s.setTask a pc).reserved = s.reserved := rfl
@[simp] theorem respawn_hasItem (s : ISt) : s.respawn.hasItem = s.hasItem := by unfold respawn; split <;> rfl
@[simp] theorem setTask_hasItem (s : ISt) (a : Nat) (pc : IPc) : (s.setTask a pc).hasItem = s.hasItem := rfl
@[simp] theorem respawn_item (s : ISt) : s.respawn.item = s.item := by unfold respawn; split <;> rfl
@[simp] theorem setTask_item (s : ISt) (a : Nat) (pc : IPc) : (s.setTask a pc).item = s.item := rfl
@[simp] theorem respawn_stolen (s : ISt) : s.respawn.stolen = s.stolen := by unfold respawn; split <;> rfl
@[simp] theorem setTask_stolen (s : ISt) (a : Nat) (pc : IPc) : (s.setTask a pc).stolen = s.stolen := rfl
@[simp] theorem respawn_gen (s : ISt) : s.respawn.gen = s.gen := by unfold respawn; split <;> rfl
@[simp] theorem setTask_gen (s : ISt) (a : Nat) (pc : IPc) : (s.setTask a pc).gen = s.gen := rfl
@[simp] theorem respawn_first (s : ISt) : s.respawn.first = s.first := by unfold respawn; split <;> rfl
@[simp] theorem setTask_first (s : ISt) (a : Nat) (pc : IPc) : (s.setTask a pc).first = s.first := rfl
@[simp] theorem respawn_next (s : ISt) : s.respawn.next = s.next := by unfold respawn; split <;> rfl
@[simp] theorem setTask_next (s : ISt) (a : Nat) (pc : IPc) : (s.setTask a pc).next = s.next := rfl
@[simp] theorem respawn_taken (s : ISt) : s.respawn.taken = s.taken := by unfold respawn; split <;> rfl
@[simp] theorem setTask_taken (s : ISt) (a : Nat) (pc : IPc) : (s.setTask a pc).taken = s.taken := rfl
@[simp] theorem respawn_delivered (s : ISt) : s.respawn.delivered = s.delivered := by unfold respawn; split <;> rfl
@[simp] theorem setTask_delivered (s : ISt) (a : Nat) (pc : IPc) : (s.setTask a pc).delivered = s.delivered := rfl
@[simp] theorem setTask_task (s : ISt) (a : Nat) (pc : IPc) : (s.setTask a pc).task = upd s.task a pc := rfl
@[simp] theorem task_ne_ext (a : Nat) : (Who.task a != Who.ext) = true := by simp

/-- whoever holds the reservation gives it up; afterwards no task is at a holding pc -/
theorem inv_drop {s s' : ISt} (h : Inv s) (htv : ∀ b, (s'.task b).val = none)
    (e2 : s'.holder = none) (e3 : s'.reserved = false) (e6 : s'.stolen = false)
    (e7 : s'.gen = s.gen) (e8 : s'.first = s.first) (e9 : s'.next = s.next)
    (hg2 : s.gen = (if s'.hasItem then [s'.item] else []) ++ s'.taken.map (·.2))
    (hdel : s'.delivered = (s'.taken.filter (·.1)).map (·.2)) : Inv s' := by
  have hp : s'.htask = .idle := by simp [htask, e2]
  obtain ⟨a1, a2, a3, a4, a5, a6, a7, a8, a9⟩ := h
  constructor
  · intro b; rw [e2, htv b]; simp
  · rw [e3, e2]; rfl
  · intro h; rw [e3] at h; cases h
  · intro b v hv; rw [htv b] at hv; cases hv
  · exact e6
  · rw [e7, e8, e9]; exact a6
  · rw [e8, e9]; exact a7
  · rw [e7]; exact hg2
  · rw [hdel]; simp [inflight, hp, IPc.infl]

theorem others_idle' {s : ISt} (h : Inv s) (hn : s.holder = none) (b : Nat) : (s.task b).val = none := by
  cases hv : (s.task b).val with
  | none => rfl
  | some v =>
    have : (s.task b).val.isSome = true := by rw [hv]; rfl
    have := (h.hold b).mpr this
    rw [hn] at this; cases this

theorem others_idle {s : ISt} (h : Inv s) {w : Who} (hh : s.holder = some w) (b : Nat) (hb : w ≠ .task b) :
    (s.task b).val = none := by
  cases hv : (s.task b).val with
  | none => rfl
  | some v =>
    have : (s.task b).val.isSome = true := by rw [hv]; rfl
    have := (h.hold b).mpr this
    rw [hh] at this; injection this with this; exact absurd this hb

theorem inv_offer {s s' : ISt} (h : Inv s) (a v : Nat) (acc : Bool) (hpc0 : s.task a = .got v)
    (e1 : s'.task = upd s.task a (.offered v acc)) (e2 : s'.holder = s.holder)
    (e3 : s'.reserved = s.reserved) (e4 : s'.hasItem = s.hasItem) (e5 : s'.item = s.item) (e6 : s'.stolen = s.stolen)
    (e7 : s'.gen = s.gen) (e8 : s'.first = s.first) (e9 : s'.next = s.next) (e10 : s'.taken = s.taken)
    (e11 : s'.delivered = if acc then v :: s.delivered else s.delivered) : Inv s' := by
  have hv : (s.task a).val = some v := by rw [hpc0]; rfl
  have hh : s.holder = some (.task a) := (h.hold a).mpr (by rw [hv]; rfl)
  have hp0 : s.htask = .got v := by simp [htask, hh, hpc0]
  have hp : s'.htask = .offered v acc := by simp [htask, e2, hh, e1]
  obtain ⟨a1, a2, a3, a4, a5, a6, a7, a8, a9⟩ := h
  constructor
  · intro b; rw [e2, e1]
    by_cases hb : b = a
    · subst hb; simp [IPc.val, hh]
    · simp only [upd_ne _ _ hb]; exact a1 b
  · rw [e3, e2]; exact a2
  · rw [e3, e4]; exact a3
  · intro b w; rw [e1, e5]
    by_cases hb : b = a
    · subst hb; simp [IPc.val]; intro e; subst e; exact a4 b v hv
    · simp only [upd_ne _ _ hb]; exact a4 b w
  · rw [e6]; exact a5
  · rw [e7, e8, e9]; exact a6
  · rw [e8, e9]; exact a7
  · rw [e7, e4, e5, e10]; exact a8
  · unfold inflight; rw [hp, e11, e10, a9]; unfold inflight; rw [hp0]
    cases acc <;> simp [IPc.infl]

theorem inv_stepTask {F : IFlags} (hF : F.ok = true) {s : ISt} (h : Inv s) (a : Nat) (acc : Bool) :
    Inv (s.stepTask F a acc) := by
  obtain ⟨g1, g2, g3, g4, g5, _⟩ := (IFlags.ok_iff F).mp hF
  unfold stepTask
  split
  next hpc0 =>
    -- idle: try_reserve_apply_body
    have h0 : (s.task a).val = none := by rw [hpc0]; rfl
    simp only [g1, g2, g3, Bool.true_and, ↓reduceIte]
    split
    · exact inv_nonholder h a .done h0 rfl rfl rfl rfl rfl rfl rfl rfl rfl rfl rfl rfl
    · rename_i hr
      have hr' : s.reserved = false := by simpa using hr
      have hn := noholder_of_unreserved h hr'
      by_cases hi : s.hasItem = true
      · simp only [hi, ↓reduceIte]
        refine inv_acquire h a hn h0 rfl rfl rfl rfl rfl rfl rfl rfl h.gen1 h.le ?_
        show s.gen = [s.item] ++ s.taken.map (·.2)
        have := h.gen2; rw [hi] at this; simpa using this
      · have hi' : s.hasItem = false := by simpa using hi
        simp only [hi', Bool.false_eq_true, ↓reduceIte]
        by_cases hlt : s.next < s.stop
        · simp only [hlt, ↓reduceIte]
          refine inv_acquire h a hn h0 rfl rfl rfl rfl rfl rfl rfl rfl ?_ ?_ ?_
          · show (s.next :: s.gen).reverse = List.range' s.first (s.next + 1 - s.first)
            rw [List.reverse_cons, h.gen1]; exact range_snoc _ _ h.le
          · show s.first ≤ s.next + 1
            have := h.le; omega
          · show s.next :: s.gen = [s.next] ++ s.taken.map (·.2)
            have := h.gen2; rw [hi'] at this; simp at this; rw [this]; rfl
        · simp only [hlt, ↓reduceIte, Bool.false_eq_true]
          refine inv_nonholder h a .done h0 rfl rfl rfl rfl ?_ rfl rfl rfl rfl rfl rfl rfl
          exact hi'.symm
  next v hpc0 =>
    -- got v: offer to the successors
    exact inv_offer h a v acc hpc0 rfl rfl rfl rfl rfl rfl rfl rfl rfl rfl rfl
  next v hpc0 =>
    -- offered v true: try_consume
    have hv : (s.task a).val = some v := by rw [hpc0]; rfl
    have hh : s.holder = some (.task a) := (h.hold a).mpr (by rw [hv]; rfl)
    have hp0 : s.htask = .offered v true := by simp [htask, hh, hpc0]
    have hr : s.reserved = true := by rw [h.res, hh]; rfl
    have hi : s.hasItem = true := h.item hr
    have hiv : s.item = v := h.val a v hv
    simp only [g4, ↓reduceIte]
    refine inv_drop h ?_ ?_ ?_ ?_ ?_ ?_ ?_ ?_ ?_
    · intro b
      by_cases hb : b = a
      · subst hb; simp [consume, IPc.val]
      · simp [consume, upd_ne _ _ hb]; exact others_idle h hh b (by intro e; injection e with e; exact hb e.symm)
    · simp [consume]
    · simp [consume]
    · simp [consume, hh, hr, hi, h.clean]
    · simp [consume]
    · simp [consume]
    · simp [consume]
    · simp [consume, hi]; have := h.gen2; rw [hi] at this; simpa using this
    · simp [consume, hi]
      have := h.deliv; unfold inflight at this; rw [hp0] at this
      simp [IPc.infl] at this
      rw [this, hiv]
  next v hpc0 =>
    -- offered v false: try_release
    have hv : (s.task a).val = some v := by rw [hpc0]; rfl
    have hh : s.holder = some (.task a) := (h.hold a).mpr (by rw [hv]; rfl)
    have hp0 : s.htask = .offered v false := by simp [htask, hh, hpc0]
    have hr : s.reserved = true := by rw [h.res, hh]; rfl
    have hi : s.hasItem = true := h.item hr
    simp only [g5, ↓reduceIte]
    refine inv_drop h ?_ ?_ ?_ ?_ ?_ ?_ ?_ ?_ ?_
    · intro b
      by_cases hb : b = a
      · subst hb; simp [release, IPc.val]
      · simp [release, upd_ne _ _ hb]; exact others_idle h hh b (by intro e; injection e with e; exact hb e.symm)
    · simp [release]
    · simp [release]
    · simp [release, hh, hr, hi, h.clean]
    · simp [release]
    · simp [release]
    · simp [release]
    · simp [release]; exact h.gen2
    · simp [release]
      have := h.deliv; unfold inflight at this; rw [hp0] at this
      simpa [IPc.infl] using this
  next hpc0 => exact h

theorem inv_step {F : IFlags} (hF : F.ok = true) {s : ISt} (h : Inv s) (o : IOp) : Inv (s.step F o) := by
  cases o with
  | step a acc => exact inv_stepTask hF h a acc
  | activate =>
    simp only [step]
    exact h.congr (by simp) (by simp) (by simp) (by simp) (by simp) (by simp) (by simp) (by simp) (by simp) (by simp) (by simp)
  | xGet =>
    simp only [step]
    split
    · exact h
    · rename_i hr
      have hr' : s.reserved = false := by simpa using hr
      have hn := noholder_of_unreserved h hr'
      split
      · rename_i hi
        refine inv_drop h (fun b => others_idle' h hn b) hn hr' h.clean rfl rfl rfl ?_ ?_
        · simp; have := h.gen2; rw [hi] at this; simpa using this
        · simp; have := h.deliv; simpa [inflight, htask, hn, IPc.infl] using this
      · split
        · exact h.congr rfl rfl rfl rfl rfl rfl rfl rfl rfl rfl rfl
        · exact h
  | xReserve =>
    simp only [step]
    split
    · exact h
    · rename_i hr
      have hr' : s.reserved = false := by simpa using hr
      have hn := noholder_of_unreserved h hr'
      split
      · rename_i hi
        obtain ⟨a1, a2, a3, a4, a5, a6, a7, a8, a9⟩ := h
        constructor
        · intro b
          show some Who.ext = some (Who.task b) ↔ _
          have := a1 b; rw [hn] at this
          constructor
          · intro e; injection e with e; cases e
          · intro e; have := this.mpr e; cases this
        · rfl
        · intro _; exact hi
        · exact a4
        · exact a5
        · exact a6
        · exact a7
        · exact a8
        · have := a9; simpa [inflight, htask, hn, IPc.infl] using this
      · exact h
  | xRelease =>
    simp only [step]
    split
    · rename_i hh
      have hr : s.reserved = true := by rw [h.res, hh]; rfl
      have hi : s.hasItem = true := h.item hr
      have hp0 : s.htask = .idle := by simp [htask, hh]
      refine inv_drop h ?_ ?_ ?_ ?_ ?_ ?_ ?_ ?_ ?_
      · intro b; simp [release]; exact others_idle h hh b (by intro e; cases e)
      · simp [release]
      · simp [release]
      · simp [release, hh, hr, hi, h.clean]
      · simp [release]
      · simp [release]
      · simp [release]
      · simp [release]; exact h.gen2
      · simp [release]
        have := h.deliv; unfold inflight at this; rw [hp0] at this
        simpa [IPc.infl] using this
    · exact h
  | xConsume =>
    simp only [step]
    split
    · rename_i hh
      have hr : s.reserved = true := by rw [h.res, hh]; rfl
      have hi : s.hasItem = true := h.item hr
      have hp0 : s.htask = .idle := by simp [htask, hh]
      refine inv_drop h ?_ ?_ ?_ ?_ ?_ ?_ ?_ ?_ ?_
      · intro b; simp [consume]; exact others_idle h hh b (by intro e; cases e)
      · simp [consume]
      · simp [consume]
      · simp [consume, hh, hr, hi, h.clean]
      · simp [consume]
      · simp [consume]
      · simp [consume]
      · simp [consume, hi]; have := h.gen2; rw [hi] at this; simpa using this
      · simp [consume, hi]
        have := h.deliv; unfold inflight at this; rw [hp0] at this
        simpa [IPc.infl] using this
    · exact h
  | setSucc b => exact h.congr rfl rfl rfl rfl rfl rfl rfl rfl rfl rfl rfl

theorem inv_sys {F : IFlags} (hF : F.ok = true) (a b : Nat) (ops : List IOp) : Inv (sys F a b ops) := by
  unfold sys
  have : ∀ (ops : List IOp) (s : ISt), Inv s → Inv (ops.foldl (step F) s) := by
    intro ops
    induction ops with
    | nil => intro s h; exact h
    | cons o os ih => intro s h; exact ih _ (inv_step hF h o)
  exact this ops _ (inv_init a b)

/-- a put task that finds the node reserved returns without touching anything (no body call, no call-out) -/
theorem failed_task {F : IFlags} (hF : F.ok = true) {s : ISt} (a : Nat) (acc : Bool) (hpc : s.task a = .idle)
    (hr : s.reserved = true) : s.stepTask F a acc = s.setTask a .done := by
  obtain ⟨g1, _, g3, _, _⟩ := (IFlags.ok_iff F).mp hF
  unfold stepTask
  simp only [hpc, g1, g3, hr, Bool.and_self, ↓reduceIte]

/-- the ids the successors accepted from put tasks are pairwise distinct -/
theorem delivered_nodup {s : ISt} (h : Inv s) : s.delivered.Nodup := by
  have hg : s.gen.Nodup := by
    apply St.nodup_of_reverse
    rw [h.gen1]; exact List.nodup_range'
  rw [h.gen2] at hg
  rw [h.deliv]
  have h1 := List.nodup_append.mp hg
  have ht : ((s.taken.filter (·.1)).map (·.2)).Nodup := by
    have : List.Sublist ((s.taken.filter (·.1)).map (·.2)) (s.taken.map (·.2)) :=
      List.Sublist.map _ List.filter_sublist
    exact this.nodup h1.2.1
  unfold inflight
  cases hp : s.htask with
  | offered v acc =>
    cases acc with
    | false => simpa [IPc.infl] using ht
    | true =>
      simp only [IPc.infl, List.singleton_append, List.nodup_cons]
      refine ⟨?_, ht⟩
      -- the in-flight value is the cached item, which is not among the taken ones
      obtain ⟨a, ha⟩ : ∃ a, s.holder = some (.task a) ∧ s.task a = .offered v true := by
        unfold htask at hp
        cases hh : s.holder with
        | none => rw [hh] at hp; cases hp
        | some w =>
          cases w with
          | ext => rw [hh] at hp; cases hp
          | task a => rw [hh] at hp; exact ⟨a, rfl, hp⟩
      have hr : s.reserved = true := by rw [h.res, ha.1]; rfl
      have hi : s.hasItem = true := h.item hr
      have hiv : s.item = v := h.val a v (by rw [ha.2]; rfl)
      rw [hi] at h1
      intro hx
      have hx' : v ∈ s.taken.map (·.2) := by
        simp only [List.mem_map, List.mem_filter] at hx ⊢
        obtain ⟨x, ⟨hx1, _⟩, hx2⟩ := hx
        exact ⟨x, hx1, hx2⟩
      exact h1.2.2 v (by simp [hiv]) v hx' rfl
  | _ => simpa [IPc.infl] using ht


end ISt
end TbbVerif.C14.Res
