import TbbVerif.Proofs.C08SRwB

namespace TbbVerif.C08.Slp.Rw
open TbbVerif.C08 (Word Phase busy dec_enc enc_inj)

theorem lock_good (tid sm : Nat) (s : Word) (m : Mon) (t : Th) (rest : List Op) (hops : t.ops = .lock :: rest) (hwf : Wf t)
    (hg : ¬(t.pc = .start ∧ t.phase ≠ Op.pre .lock)) : Good s t (stepOp tid sm .lock s m t) := by
  by_cases hpw : t.pc = .wait
  · exact wait_good tid sm s m t _ rest hops hwf hpw
  obtain ⟨w1, w2, w3, w4, w5, w6⟩ := hwf
  rw [hops] at w4
  have hw := w5 hpw
  have e : ∀ hpn : t.pc ≠ .notify, stepOp tid sm .lock s m t = lockBody s m t .start none := by
    intro hpn; unfold stepOp; split <;> first | contradiction | rfl
  rcases w4 with h | ⟨hph, hb⟩
  · have hph : t.phase = .idle := phase_at_start t _ hg h
    rw [e (by simp [h])]
    exact lockBody_good s m t .lock rest .start none hops (Or.inl ⟨rfl, rfl⟩) (Or.inl h) hph hw (w6 (by simp [h]))
  · rcases hb with ⟨h, hsv⟩ | h | h | ⟨h, _⟩
    · rw [e (by simp [h])]
      exact lockBody_good s m t .lock rest .start none hops (Or.inl ⟨rfl, rfl⟩) (Or.inr (Or.inl ⟨h, hsv⟩)) hph hw (w6 (by simp [h]))
    · rw [e (by simp [h])]
      exact lockBody_good s m t .lock rest .start none hops (Or.inl ⟨rfl, rfl⟩) (Or.inr (Or.inr (Or.inl h))) hph hw (w6 (by simp [h]))
    · rw [e (by simp [h])]
      exact lockBody_good s m t .lock rest .start none hops (Or.inl ⟨rfl, rfl⟩) (Or.inr (Or.inr (Or.inr h))) hph hw (w6 (by simp [h]))
    · exact absurd h hpw

theorem shared_good (tid sm : Nat) (s : Word) (m : Mon) (t : Th) (op : Op) (rest : List Op) (hops : t.ops = op :: rest)
    (hop : op = .lockShared ∨ op = .tryLockShared) (hwf : Wf t)
    (hg : ¬(t.pc = .start ∧ t.phase ≠ .idle)) : Good s t (stepOp tid sm op s m t) := by
  by_cases hpw : t.pc = .wait
  · exact wait_good tid sm s m t _ rest hops hwf hpw
  by_cases hpn : t.pc = .notify
  · exact notify_good tid sm s m t _ rest hops hwf hpn
  obtain ⟨w1, w2, w3, w4, w5, w6⟩ := hwf
  rw [hops] at w4
  have hw := w5 hpw
  have hn := w6 hpn
  have hl := not_locker t _ _ hops (by rcases hop with rfl | rfl <;> simp) (by rcases hop with rfl | rfl <;> simp)
  have w4' : t.pc = .start ∨ (t.pc = .shAdd ∧ t.phase = .idle) ∨ (t.pc = .shUndo ∧ t.phase = .rt) := by
    rcases hop with rfl | rfl
    · rcases w4 with h | h | h | ⟨h, _⟩ | ⟨h, _⟩
      · exact Or.inl h
      · exact Or.inr (Or.inl h)
      · exact Or.inr (Or.inr h)
      · exact absurd h hpn
      · exact absurd h hpw
    · rcases w4 with h | h | h | ⟨h, _⟩
      · exact Or.inl h
      · exact Or.inr (Or.inl h)
      · exact Or.inr (Or.inr h)
      · exact absurd h hpn
  have mk : ∀ t' : Th, t'.ops = t.ops → t'.mw = t.mw → (t'.phase = .rt → t'.pc = .shUndo) → t'.phase ≠ .upgWait → t'.phase ≠ .upgReady →
      ((t'.pc = .shAdd ∧ t'.phase = .idle) ∨ (t'.pc = .shUndo ∧ t'.phase = .rt)) → Wf t' := by
    intro t' ho hm a b c d
    have hpw' : t'.pc ≠ .wait ∧ t'.pc ≠ .notify := by rcases d with ⟨d, _⟩ | ⟨d, _⟩ <;> simp [d]
    refine wf_stay t t' op rest hops ho a (fun e => absurd e b) (fun e => absurd e c) ?_ (fun _ => by rw [hm]; exact hw) (fun _ => by rw [hm]; exact hn)
    rcases hop with rfl | rfl
    · rcases d with d | d
      · exact Or.inr (Or.inl d)
      · exact Or.inr (Or.inr (Or.inl d))
    · rcases d with d | d
      · exact Or.inr (Or.inl d)
      · exact Or.inr (Or.inr (Or.inl d))
  unfold Good
  rcases w4' with h | ⟨h, hph⟩ | ⟨h, hph⟩
  · have hph : t.phase = .idle := by
      apply Classical.byContradiction; intro hc; exact hg ⟨h, hc⟩
    rcases hop with rfl | rfl
    · simp only [stepOp, h]
      split <;> (try dsimp only)
      · refine ⟨S_silent rfl rfl rfl (fun hh => by rw [hl] at hh; cases hh), ?_⟩
        exact mk _ rfl rfl (by simp [hph]) (by simp [hph]) (by simp [hph]) (Or.inl ⟨rfl, hph⟩)
      · simp only [ite_true]
        refine ⟨S_silent rfl rfl rfl (fun hh => by rw [hl] at hh; cases hh), ?_⟩
        refine wf_stay t _ _ rest hops rfl (by simp [startWait, hph]) (by simp [startWait, hph]) (by simp [startWait, hph]) ?_ (fun hh => absurd rfl hh) (fun _ => hn)
        exact Or.inr (Or.inr (Or.inr (Or.inr ⟨rfl, hph, rfl⟩)))
    · simp only [stepOp, h]
      split <;> (try dsimp only)
      · refine ⟨S_silent rfl rfl rfl (fun hh => by rw [hl] at hh; cases hh), ?_⟩
        exact mk _ rfl rfl (by simp [hph]) (by simp [hph]) (by simp [hph]) (Or.inl ⟨rfl, hph⟩)
      · simp only [show (Op.tryLockShared = Op.lockShared) = False by simp, ite_false]
        refine ⟨S_silent rfl rfl rfl (fun hh => by rw [hl] at hh; cases hh), ?_⟩
        exact wf_done _ _ _ (by simp [hph]) (by simp [hph]) (by simp [hph]) hw hn
  · have e : stepOp tid sm op s m t =
        (if !(s.w || s.p) then ({ s with r := s.r + 1 }, false, m, t.done .holdR (if op = .lockShared then none else some 1), some ⟨"fadd", "word", s.enc, ({ s with r := s.r + 1 } : Word).enc⟩)
         else ({ s with r := s.r + 1 }, false, m, { t with pc := .shUndo, phase := .rt }, some ⟨"fadd", "word", s.enc, ({ s with r := s.r + 1 } : Word).enc⟩)) := by
      rcases hop with rfl | rfl <;> simp only [stepOp, h]
    rw [e]
    split <;> dsimp only
    · rename_i hc
      have hw' : s.w = false := by simp at hc; exact hc.1
      exact ⟨S_addROk hph hl hw' rfl rfl rfl, wf_done _ _ _ (by simp) (by simp) (by simp) hw hn⟩
    · rename_i hc
      -- a writer holds, or only WRITER_PENDING is set: in both cases the unit is taken back
      refine ⟨S_addRRtAny hph hl rfl rfl rfl (not_locker _ op rest hops (by rcases hop with rfl | rfl <;> simp) (by rcases hop with rfl | rfl <;> simp)), ?_⟩
      exact mk _ rfl rfl (by simp) (by simp) (by simp) (Or.inr ⟨rfl, rfl⟩)
  · have e : stepOp tid sm op s m t =
        ({ s with r := s.r - 1 }, decide (s.r = 0), m, startNotify { t with phase := .idle } (.ctx 0) .fail, some ⟨"fsub", "word", s.enc, ({ s with r := s.r - 1 } : Word).enc⟩) := by
      rcases hop with rfl | rfl <;> simp only [stepOp, h]
    rw [e]
    dsimp only
    refine ⟨S_undo hph hl rfl rfl rfl, ?_⟩
    refine wf_notify_start t _ _ rest hops _ _ rfl hw (by simp) (by simp) (by simp) ?_
    rcases hop with rfl | rfl
    · exact Or.inr (Or.inr (Or.inr (Or.inl ⟨rfl, rfl, rfl⟩)))
    · exact Or.inr (Or.inr (Or.inr ⟨rfl, rfl, rfl⟩))


theorem upgrade_good (tid sm : Nat) (s : Word) (m : Mon) (t : Th) (rest : List Op) (hops : t.ops = .upgrade :: rest) (hwf : Wf t)
    (hg : ¬(t.pc = .start ∧ t.phase ≠ Op.pre .upgrade)) : Good s t (stepOp tid sm .upgrade s m t) := by
  by_cases hpw : t.pc = .wait
  · exact wait_good tid sm s m t _ rest hops hwf hpw
  by_cases hpn : t.pc = .notify
  · exact notify_good tid sm s m t _ rest hops hwf hpn
  obtain ⟨w1, w2, w3, w4, w5, w6⟩ := hwf
  rw [hops] at w4
  have hw := w5 hpw
  have hn := w6 hpn
  have mk : ∀ t' : Th, t'.ops = t.ops → t'.mw = t.mw → t'.pc ≠ .wait → t'.pc ≠ .notify → (t'.phase = .rt → t'.pc = .shUndo) →
      (t'.phase = .upgWait → (t'.pc = .upLoad ∨ t'.pc = .wait)) → (t'.phase = .upgReady → t'.pc = .upFin) → WfOp .upgrade t' → Wf t' := by
    intro t' ho hm hx hy a b c d
    exact wf_stay t t' _ rest hops ho a b c d (fun _ => by rw [hm]; exact hw) (fun _ => by rw [hm]; exact hn)
  have nl : ∀ t' : Th, t'.ops = t.ops → (t'.slow = false ∨ t'.phase ≠ .idle) → isLocker t' = false := by
    intro t' ho a
    unfold isLocker; rw [ho, hops]
    rcases a with a | a
    · simp [a]
    · simp [a]
  have elk : (t.pc = .lkLoad ∨ t.pc = .tlCas ∨ t.pc = .pLoad ∨ t.pc = .pOr) → stepOp tid sm .upgrade s m t = lockBody s m t .lkLoad (some 0) := by
    intro h; rcases h with h | h | h | h <;> simp only [stepOp, h]
  unfold Good
  rcases w4 with h | ⟨h, hph, hsl, hc, he⟩ | ⟨h, hph, hsl⟩ | ⟨h, _⟩ | ⟨h, hph, hsl⟩ | ⟨h, hph, hsl⟩ | ⟨h, _⟩ | ⟨hph, hsl, hb⟩
  · -- start: load
    have hph : t.phase = .holdR := phase_at_start t _ hg h
    have hl := nl t rfl (Or.inr (by simp [hph]))
    simp only [stepOp, h]
    split <;> dsimp only
    · rename_i hcnd
      refine ⟨S_silent rfl rfl rfl (fun hh => by rw [hl] at hh; cases hh), ?_⟩
      refine mk _ rfl rfl (by simp) (by simp) (by simp [hph]) (by simp [hph]) (by simp [hph]) (Or.inr (Or.inl ⟨rfl, hph, rfl, ?_, ?_⟩))
      · simp only [dec_enc]
        simp at hcnd
        rcases hcnd with h1 | h1
        · exact Or.inl h1
        · exact Or.inr h1
      · simp only [dec_enc]
    · refine ⟨S_silent rfl rfl rfl (fun hh => by rw [hl] at hh; cases hh), ?_⟩
      exact mk _ rfl rfl (by simp) (by simp) (by simp [hph]) (by simp [hph]) (by simp [hph]) (Or.inr (Or.inr (Or.inr (Or.inr (Or.inr (Or.inl ⟨rfl, hph, rfl⟩))))))
  · -- upCas
    have hl := nl t rfl (Or.inl hsl)
    simp only [stepOp, h]
    split <;> (try dsimp only)
    · rename_i heq
      have hs : s = Word.dec t.sv := enc_inj (by rw [he, heq])
      refine ⟨S_upgCasOk hph hl (by rw [hs]; exact hc) (by rw [hs]) rfl rfl (nl _ rfl (Or.inl hsl)), ?_⟩
      exact mk _ rfl rfl (by simp) (by simp) (by simp) (by simp) (by simp) (Or.inr (Or.inr (Or.inl ⟨rfl, rfl, hsl⟩)))
    · split <;> dsimp only
      · rename_i hcnd
        refine ⟨S_silent rfl rfl rfl (fun hh => by rw [hl] at hh; cases hh), ?_⟩
        refine mk _ rfl rfl (by simp) (by simp) (by simp [hph]) (by simp [hph]) (by simp [hph]) (Or.inr (Or.inl ⟨rfl, hph, hsl, ?_, ?_⟩))
        · simp only [dec_enc]
          simp at hcnd
          rcases hcnd with h1 | h1
          · exact Or.inl h1
          · exact Or.inr h1
        · simp only [dec_enc]
      · refine ⟨S_silent rfl rfl rfl (fun hh => by rw [hl] at hh; cases hh), ?_⟩
        exact mk _ rfl rfl (by simp) (by simp) (by simp [hph]) (by simp [hph]) (by simp [hph]) (Or.inr (Or.inr (Or.inr (Or.inr (Or.inr (Or.inl ⟨rfl, hph, rfl⟩))))))
  · -- upLoad
    have hl := nl t rfl (Or.inl hsl)
    simp only [stepOp, h]
    split <;> dsimp only
    · rename_i hr
      refine ⟨S_upgSee hph hl hr rfl rfl rfl (nl _ rfl (Or.inl hsl)), ?_⟩
      exact mk _ rfl rfl (by simp) (by simp) (by simp) (by simp) (by simp) (Or.inr (Or.inr (Or.inr (Or.inr (Or.inl ⟨rfl, rfl, hsl⟩)))))
    · refine ⟨S_silent rfl rfl rfl (fun hh => by rw [hl] at hh; cases hh), ?_⟩
      refine wf_stay t _ _ rest hops rfl (by simp [startWait, hph]) (by simp [startWait]) (by simp [startWait, hph]) ?_ (fun hh => absurd rfl hh) (fun _ => hn)
      exact Or.inr (Or.inr (Or.inr (Or.inl ⟨rfl, rfl, hph, hsl⟩)))
  · exact absurd h hpw
  · -- upFin
    have hl := nl t rfl (Or.inl hsl)
    simp only [stepOp, h]
    exact ⟨S_upgFin hph hl rfl rfl rfl, wf_done _ _ _ (by simp) (by simp) (by simp) hw hn⟩
  · -- upSlowRel
    have hl := nl t rfl (Or.inr (by simp [hph]))
    simp only [stepOp, h]
    refine ⟨S_relR hph hl rfl rfl rfl, ?_⟩
    exact wf_notify_start t _ _ rest hops _ _ rfl hw (by simp) (by simp) (by simp) (Or.inr (Or.inr (Or.inr (Or.inr (Or.inr (Or.inr (Or.inl ⟨rfl, rfl, hsl, rfl⟩)))))))
  · exact absurd h hpn
  · -- the lock() body of the slow path
    rcases hb with h | ⟨h, hsv⟩ | h | h | ⟨h, _⟩
    · rw [elk (Or.inl h)]
      exact lockBody_good s m t .upgrade rest .lkLoad (some 0) hops (Or.inr ⟨rfl, rfl, hsl⟩) (Or.inl h) hph hw hn
    · rw [elk (Or.inr (Or.inl h))]
      exact lockBody_good s m t .upgrade rest .lkLoad (some 0) hops (Or.inr ⟨rfl, rfl, hsl⟩) (Or.inr (Or.inl ⟨h, hsv⟩)) hph hw hn
    · rw [elk (Or.inr (Or.inr (Or.inl h)))]
      exact lockBody_good s m t .upgrade rest .lkLoad (some 0) hops (Or.inr ⟨rfl, rfl, hsl⟩) (Or.inr (Or.inr (Or.inl h))) hph hw hn
    · rw [elk (Or.inr (Or.inr (Or.inr h)))]
      exact lockBody_good s m t .upgrade rest .lkLoad (some 0) hops (Or.inr ⟨rfl, rfl, hsl⟩) (Or.inr (Or.inr (Or.inr h))) hph hw hn
    · exact absurd h hpw

theorem stepTh_good (tid sm : Nat) (s : Word) (m : Mon) (t : Th) (hwf : Wf t) : Good s t (stepTh tid sm s m t) := by
  unfold stepTh
  cases hops : t.ops with
  | nil =>
    dsimp only
    exact ⟨S_silent rfl rfl rfl (fun h => h), hwf⟩
  | cons op rest =>
    dsimp only
    split
    · rename_i hg
      have hg' : t.pc = .start ∧ t.phase ≠ op.pre := hg
      have hl : isLocker t = false := by
        unfold isLocker; rw [hops]
        cases op <;> simp_all [Op.pre]
      refine ⟨S_silent rfl rfl rfl (fun hh => by rw [hl] at hh; cases hh), ?_⟩
      obtain ⟨w1, w2, w3, w4, w5, w6⟩ := hwf
      refine ⟨by simpa using w1, by simpa using w2, by simpa using w3, ?_, by simpa using w5, by simpa using w6⟩
      simp only [List.tail_cons]
      cases rest with
      | nil => simpa using hg'.1
      | cons o r => exact wfOp_start o _ hg'.1
    · rename_i hg
      cases op with
      | lock => exact lock_good tid sm s m t rest hops hwf hg
      | tryLock => exact tryLock_good tid sm s m t rest hops hwf hg
      | unlock => exact unlock_good tid sm s m t rest hops hwf hg
      | lockShared => exact shared_good tid sm s m t _ rest hops (Or.inl rfl) hwf hg
      | tryLockShared => exact shared_good tid sm s m t _ rest hops (Or.inr rfl) hwf hg
      | unlockShared => exact unlockShared_good tid sm s m t rest hops hwf hg
      | upgrade => exact upgrade_good tid sm s m t rest hops hwf hg
      | downgrade => exact downgrade_good tid sm s m t rest hops hwf hg

end TbbVerif.C08.Slp.Rw
