/- Helper lemmas and the inductive invariant for the spin_rw_mutex word protocol (C08). -/
import TbbVerif.Model.C08

namespace TbbVerif.C08

/-! ### encoding -/

theorem dec_enc (s : Word) : Word.dec s.enc = s := by
  cases s with
  | mk w p r =>
    cases w <;> cases p <;> simp [Word.enc, Word.dec] <;> omega

theorem enc_inj {s s' : Word} (h : s.enc = s'.enc) : s = s' := by
  rw [← dec_enc s, ← dec_enc s', h]

/-! ### counting threads by phase -/

def cnt (ph : Phase) (l : List Th) : Nat := l.countP (fun t => t.phase == ph)

/-- threads currently executing the body of `lock()` (directly, or as the slow path of `upgrade`) -/
def isLocker (t : Th) : Bool :=
  match t.ops with
  | .lock :: _ => t.phase == .idle
  | .upgrade :: _ => t.pc == .upgSlowLock || t.pc == .lockCas || t.pc == .lockOr
  | _ => false

def nLock (l : List Th) : Nat := l.countP isLocker

theorem countP_set_add {α} (p : α → Bool) (l : List α) (i : Nat) (x y : α) (h : l[i]? = some x) :
    (l.set i y).countP p + (if p x then 1 else 0) = l.countP p + (if p y then 1 else 0) := by
  induction l generalizing i with
  | nil => simp at h
  | cons a l ih =>
    cases i with
    | zero =>
      simp at h; subst h
      simp [List.countP_cons]; omega
    | succ i =>
      simp at h
      have := ih i h
      simp [List.countP_cons]; omega

theorem cnt_set (ph : Phase) (l : List Th) (i : Nat) (x y : Th) (h : l[i]? = some x) :
    cnt ph (l.set i y) + (if x.phase = ph then 1 else 0) = cnt ph l + (if y.phase = ph then 1 else 0) := by
  have := countP_set_add (fun t => t.phase == ph) l i x y h
  simpa [cnt] using this

theorem nLock_set (l : List Th) (i : Nat) (x y : Th) (h : l[i]? = some x) :
    nLock (l.set i y) + (if isLocker x then 1 else 0) = nLock l + (if isLocker y then 1 else 0) := by
  simpa [nLock] using countP_set_add isLocker l i x y h

theorem cnt_pos_of_mem (ph : Phase) (l : List Th) (i : Nat) (x : Th) (h : l[i]? = some x) (hx : x.phase = ph) :
    0 < cnt ph l := by
  have hm : x ∈ l := List.mem_of_getElem? h
  exact List.countP_pos_iff.mpr ⟨x, hm, by simp [hx]⟩

theorem nLock_pos_of_mem (l : List Th) (i : Nat) (x : Th) (h : l[i]? = some x) (hx : isLocker x = true) :
    0 < nLock l := by
  have hm : x ∈ l := List.mem_of_getElem? h
  exact List.countP_pos_iff.mpr ⟨x, hm, hx⟩

/-! ### abstract transitions of one access -/

/-- What one atomic access can do, abstractly: (word, phase, locker flag) before and after. -/
inductive Trans : Word → Phase → Bool → Word → Bool → Phase → Bool → Prop
  | silent (s ph lk lk') (h : lk = true → lk' = true) : Trans s ph lk s false ph lk'
  | setPending (s) : Trans s .idle true { s with p := true } false .idle true
  | acqW (s lk lk') (hw : s.w = false) (hr : s.r = 0) : Trans s .idle lk { w := true, p := false, r := 0 } false .holdW lk'
  | relW (s lk') : Trans s .holdW false { s with w := false, p := false } false .idle lk'
  | addROk (s lk') (hw : s.w = false) : Trans s .idle false { s with r := s.r + 1 } false .holdR lk'
  | addRRt (s) (hw : s.w = true) : Trans s .idle false { s with r := s.r + 1 } false .rt false
  | undo (s lk') : Trans s .rt false { s with r := s.r - 1 } (s.r = 0) .idle lk'
  | relR (s lk') : Trans s .holdR false { s with r := s.r - 1 } (s.r = 0) .idle lk'
  | upgCasOk (s) (hc : s.r = 1 ∨ s.p = false) : Trans s .holdR false { s with w := true, p := true } false .upgWait false
  | upgSee (s) (hr : s.r = 1) : Trans s .upgWait false s false .upgReady false
  | upgFin (s lk') : Trans s .upgReady false { s with r := s.r - 1, p := false } (s.r = 0 || !s.p) .holdW lk'
  | downgr (s lk') : Trans s .holdW false { s with w := false, r := s.r + 1 } (!s.w) .holdR lk'

/-- the local `s` was loaded from a word with no writer and no readers (so a successful CAS against it
proves the word is still such a word) -/
def sv0 (t : Th) : Prop := (Word.dec t.sv).w = false ∧ (Word.dec t.sv).r = 0 ∧ (Word.dec t.sv).enc = t.sv

/-- Program-counter / phase consistency inside operation `op`. -/
def WfOp (op : Op) (t : Th) : Prop :=
  match op with
  | .lock => t.pc = .start ∨ (t.pc = .lockCas ∧ t.phase = .idle ∧ sv0 t) ∨ (t.pc = .lockOr ∧ t.phase = .idle)
  | .tryLock => t.pc = .start ∨ (t.pc = .lockCas ∧ t.phase = .idle ∧ sv0 t)
  | .unlock | .unlockShared | .downgrade => t.pc = .start
  | .lockShared | .tryLockShared =>
      t.pc = .start ∨ (t.pc = .sharedAdd ∧ t.phase = .idle) ∨ (t.pc = .sharedUndo ∧ t.phase = .rt)
  | .upgrade =>
      t.pc = .start ∨
      (t.pc = .upgCas ∧ t.phase = .holdR ∧ t.slow = false ∧
        ((Word.dec t.sv).r = 1 ∨ (Word.dec t.sv).p = false) ∧ (Word.dec t.sv).enc = t.sv) ∨
      (t.pc = .upgSpin ∧ t.phase = .upgWait ∧ t.slow = false) ∨
      (t.pc = .upgFinish ∧ t.phase = .upgReady ∧ t.slow = false) ∨
      (t.pc = .upgSlowRelease ∧ t.phase = .holdR ∧ t.slow = true) ∨
      (t.pc = .upgSlowLock ∧ t.phase = .idle ∧ t.slow = true) ∨
      (t.pc = .lockOr ∧ t.phase = .idle ∧ t.slow = true) ∨
      (t.pc = .lockCas ∧ t.phase = .idle ∧ t.slow = true ∧ sv0 t)

/-- Local well-formedness of a thread: its phase is the one its program counter implies, and the locals it
will CAS against were loaded under the condition the code tested. -/
def Wf (t : Th) : Prop :=
  (t.phase = .rt → t.pc = .sharedUndo) ∧
  (t.phase = .upgWait → t.pc = .upgSpin) ∧
  (t.phase = .upgReady → t.pc = .upgFinish) ∧
  (match t.ops with
   | [] => t.pc = .start
   | op :: _ => WfOp op t)

theorem wfOp_start (op : Op) (t : Th) (h : t.pc = .start) : WfOp op t := by
  cases op <;> simp [WfOp, h]

def Good (s : Word) (t : Th) (o : Out) : Prop :=
  Trans s t.phase (isLocker t) o.1 o.2.1 o.2.2.1.phase (isLocker o.2.2.1) ∧ Wf o.2.2.1

section wrappers
variable {s s' : Word} {ph ph' : Phase} {lk lk' : Bool} {b : Bool}
theorem T_silent (h0 : s' = s) (hb : b = false) (h1 : ph' = ph) (h : lk = true → lk' = true) : Trans s ph lk s' b ph' lk' := by
  subst h0 hb h1; exact Trans.silent _ _ _ _ h
theorem T_setPending (h1 : ph = .idle) (h2 : lk = true) (h3 : s' = { s with p := true }) (hb : b = false) (h4 : ph' = .idle) (h5 : lk' = true) :
    Trans s ph lk s' b ph' lk' := by subst h1 h2 h3 hb h4 h5; exact Trans.setPending _
theorem T_acqW (h1 : ph = .idle) (hw : s.w = false) (hr : s.r = 0) (h3 : s' = { w := true, p := false, r := 0 }) (hb : b = false) (h4 : ph' = .holdW) :
    Trans s ph lk s' b ph' lk' := by subst h1 h3 hb h4; exact Trans.acqW _ _ _ hw hr
theorem T_relW (h1 : ph = .holdW) (h2 : lk = false) (h3 : s' = { s with w := false, p := false }) (hb : b = false) (h4 : ph' = .idle) :
    Trans s ph lk s' b ph' lk' := by subst h1 h2 h3 hb h4; exact Trans.relW _ _
theorem T_addROk (h1 : ph = .idle) (h2 : lk = false) (hw : s.w = false) (h3 : s' = { s with r := s.r + 1 }) (hb : b = false) (h4 : ph' = .holdR) :
    Trans s ph lk s' b ph' lk' := by subst h1 h2 h3 hb h4; exact Trans.addROk _ _ hw
theorem T_addRRt (h1 : ph = .idle) (h2 : lk = false) (hw : s.w = true) (h3 : s' = { s with r := s.r + 1 }) (hb : b = false) (h4 : ph' = .rt) (h5 : lk' = false) :
    Trans s ph lk s' b ph' lk' := by subst h1 h2 h3 hb h4 h5; exact Trans.addRRt _ hw
theorem T_undo (h1 : ph = .rt) (h2 : lk = false) (h3 : s' = { s with r := s.r - 1 }) (hb : b = decide (s.r = 0)) (h4 : ph' = .idle) :
    Trans s ph lk s' b ph' lk' := by subst h1 h2 h3 hb h4; exact Trans.undo _ _
theorem T_relR (h1 : ph = .holdR) (h2 : lk = false) (h3 : s' = { s with r := s.r - 1 }) (hb : b = decide (s.r = 0)) (h4 : ph' = .idle) :
    Trans s ph lk s' b ph' lk' := by subst h1 h2 h3 hb h4; exact Trans.relR _ _
theorem T_upgCasOk (h1 : ph = .holdR) (h2 : lk = false) (hc : s.r = 1 ∨ s.p = false) (h3 : s' = { s with w := true, p := true }) (hb : b = false)
    (h4 : ph' = .upgWait) (h5 : lk' = false) : Trans s ph lk s' b ph' lk' := by subst h1 h2 h3 hb h4 h5; exact Trans.upgCasOk _ hc
theorem T_upgSee (h1 : ph = .upgWait) (h2 : lk = false) (hr : s.r = 1) (h3 : s' = s) (hb : b = false) (h4 : ph' = .upgReady) (h5 : lk' = false) :
    Trans s ph lk s' b ph' lk' := by subst h1 h2 h3 hb h4 h5; exact Trans.upgSee _ hr
theorem T_upgFin (h1 : ph = .upgReady) (h2 : lk = false) (h3 : s' = { s with r := s.r - 1, p := false }) (hb : b = (decide (s.r = 0) || !s.p)) (h4 : ph' = .holdW) :
    Trans s ph lk s' b ph' lk' := by subst h1 h2 h3 hb h4; exact Trans.upgFin _ _
theorem T_downgr (h1 : ph = .holdW) (h2 : lk = false) (h3 : s' = { s with w := false, r := s.r + 1 }) (hb : b = !s.w) (h4 : ph' = .holdR) :
    Trans s ph lk s' b ph' lk' := by subst h1 h2 h3 hb h4; exact Trans.downgr _ _
end wrappers

theorem wf_done (t : Th) (ph : Phase) (res : Option Nat)
    (h1 : ph ≠ .rt) (h2 : ph ≠ .upgWait) (h3 : ph ≠ .upgReady) : Wf (t.done ph res) := by
  refine ⟨fun h => absurd h h1, fun h => absurd h h2, fun h => absurd h h3, ?_⟩
  simp only [Th.done]
  cases t.ops.tail with
  | nil => simp
  | cons op r => exact wfOp_start op _ rfl

theorem sv0_word (s : Word) (t : Th) (h : sv0 t) (he : s.enc = t.sv) : s.w = false ∧ s.r = 0 := by
  obtain ⟨a, b, c⟩ := h
  have : s = Word.dec t.sv := enc_inj (by rw [c, he])
  subst this; exact ⟨a, b⟩

theorem sv0_of_not_busy (s : Word) (h : busy s = false) : (Word.dec s.enc).w = false ∧ (Word.dec s.enc).r = 0 ∧ (Word.dec s.enc).enc = s.enc := by
  rw [dec_enc]
  simp [busy] at h
  exact ⟨h.1, h.2, rfl⟩

theorem lockBody_good (s : Word) (t : Th) (op : Op) (rest : List Op) (back : Pc) (res : Option Nat)
    (hops : t.ops = op :: rest)
    (hop : (op = .lock ∧ back = .start) ∨ (op = .upgrade ∧ back = .upgSlowLock))
    (hpc : t.pc = back ∨ t.pc = .lockCas ∨ t.pc = .lockOr) (hph : t.phase = .idle)
    (hsv : t.pc = .lockCas → sv0 t) (hslow : op = .upgrade → t.slow = true) :
    Good s t (lockBody s t back res) := by
  have hlk : isLocker t = true := by
    unfold isLocker; rw [hops]
    rcases hop with ⟨rfl, rfl⟩ | ⟨rfl, rfl⟩
    · simp [hph]
    · rcases hpc with h | h | h <;> simp [h]
  have hbk : back ≠ .lockCas ∧ back ≠ .lockOr := by
    rcases hop with ⟨_, rfl⟩ | ⟨_, rfl⟩ <;> simp
  -- a thread that stays inside the lock body (same ops, idle, pc among the three) is a well-formed locker
  have stay : ∀ (t' : Th), t'.ops = t.ops → t'.phase = .idle → t'.slow = t.slow →
      (t'.pc = back ∨ (t'.pc = .lockCas ∧ sv0 t') ∨ t'.pc = .lockOr) → isLocker t' = true ∧ Wf t' := by
    intro t' ho hp hs hpc'
    constructor
    · unfold isLocker; rw [ho, hops]
      rcases hop with ⟨rfl, rfl⟩ | ⟨rfl, rfl⟩
      · simp [hp]
      · rcases hpc' with h | ⟨h, _⟩ | h <;> simp [h]
    · refine ⟨by simp [hp], by simp [hp], by simp [hp], ?_⟩
      rw [ho, hops]
      rcases hop with ⟨rfl, rfl⟩ | ⟨rfl, rfl⟩
      · simp only [WfOp]
        rcases hpc' with h | ⟨h, h'⟩ | h
        · exact Or.inl h
        · exact Or.inr (Or.inl ⟨h, hp, h'⟩)
        · exact Or.inr (Or.inr ⟨h, hp⟩)
      · simp only [WfOp]
        have hs' : t'.slow = true := by rw [hs]; exact hslow rfl
        rcases hpc' with h | ⟨h, h'⟩ | h
        · exact Or.inr (Or.inr (Or.inr (Or.inr (Or.inr (Or.inl ⟨h, hp, hs'⟩)))))
        · exact Or.inr (Or.inr (Or.inr (Or.inr (Or.inr (Or.inr (Or.inr ⟨h, hp, hs', h'⟩))))))
        · exact Or.inr (Or.inr (Or.inr (Or.inr (Or.inr (Or.inr (Or.inl ⟨h, hp, hs'⟩))))))
  unfold lockBody Good
  by_cases hb : t.pc = back
  · rw [if_pos hb]
    dsimp only
    split
    · rename_i hbusy
      have hnb : busy s = false := by simpa using hbusy
      obtain ⟨l, w⟩ := stay { t with sv := s.enc, pc := .lockCas } rfl hph rfl (Or.inr (Or.inl ⟨rfl, sv0_of_not_busy s hnb⟩))
      exact ⟨T_silent rfl rfl rfl (fun _ => l), w⟩
    · split
      · obtain ⟨l, w⟩ := stay { t with sv := s.enc, pc := .lockOr } rfl hph rfl (Or.inr (Or.inr rfl))
        exact ⟨T_silent rfl rfl rfl (fun _ => l), w⟩
      · obtain ⟨l, w⟩ := stay { t with sv := s.enc } rfl hph rfl (Or.inl hb)
        exact ⟨T_silent rfl rfl rfl (fun _ => l), w⟩
  · rw [if_neg hb]
    rcases hpc with h | h | h
    · exact absurd h hb
    · rw [h]
      dsimp only
      split
      · rename_i he
        have hw := sv0_word s t (hsv h) he
        exact ⟨T_acqW hph hw.1 hw.2 rfl rfl rfl, wf_done _ _ _ (by simp) (by simp) (by simp)⟩
      · obtain ⟨l, w⟩ := stay { t with pc := back, sv := s.enc } rfl hph rfl (Or.inl rfl)
        exact ⟨T_silent rfl rfl rfl (fun _ => l), w⟩
    · rw [h]
      dsimp only
      obtain ⟨l, w⟩ := stay { t with pc := back } rfl hph rfl (Or.inl rfl)
      exact ⟨T_setPending hph hlk rfl rfl hph l, w⟩

theorem not_locker (t : Th) (op : Op) (rest : List Op) (hops : t.ops = op :: rest) (h1 : op ≠ .lock) (h2 : op ≠ .upgrade) :
    isLocker t = false := by
  unfold isLocker; rw [hops]; cases op <;> simp_all

theorem wf_stay (t t' : Th) (op : Op) (rest : List Op) (hops : t.ops = op :: rest) (ho : t'.ops = t.ops)
    (h1 : t'.phase = .rt → t'.pc = .sharedUndo) (h2 : t'.phase = .upgWait → t'.pc = .upgSpin)
    (h3 : t'.phase = .upgReady → t'.pc = .upgFinish) (h : WfOp op t') : Wf t' := by
  refine ⟨h1, h2, h3, ?_⟩
  rw [ho, hops]; exact h

theorem stepTryLock_good (s : Word) (t : Th) (rest : List Op) (hops : t.ops = .tryLock :: rest) (hwf : Wf t)
    (hg : ¬(t.pc = .start ∧ t.phase ≠ Op.pre .tryLock)) : Good s t (stepTryLock s t) := by
  obtain ⟨w1, w2, w3, w4⟩ := hwf
  rw [hops] at w4
  have hl := not_locker t _ _ hops (by simp) (by simp)
  unfold Good stepTryLock
  rcases w4 with h | ⟨h, hph, hsv⟩
  · have hph : t.phase = .idle := by
      apply Classical.byContradiction; intro hc; exact hg ⟨h, by simpa [Op.pre] using hc⟩
    rw [h]; dsimp only
    split
    · rename_i hb
      have hnb : busy s = false := by simpa using hb
      refine ⟨T_silent rfl rfl rfl (fun hh => by rw [hl] at hh; cases hh), ?_⟩
      exact wf_stay t _ _ _ hops rfl (by simp [hph]) (by simp [hph]) (by simp [hph])
        (Or.inr ⟨rfl, hph, sv0_of_not_busy s hnb⟩)
    · refine ⟨T_silent rfl rfl rfl (fun hh => by rw [hl] at hh; cases hh), ?_⟩
      exact wf_done _ _ _ (by simp [hph]) (by simp [hph]) (by simp [hph])
  · rw [h]; dsimp only
    split
    · rename_i he
      have hw := sv0_word s t hsv he
      exact ⟨T_acqW hph hw.1 hw.2 rfl rfl rfl, wf_done _ _ _ (by simp) (by simp) (by simp)⟩
    · refine ⟨T_silent rfl rfl rfl (fun hh => by rw [hl] at hh; cases hh), ?_⟩
      exact wf_done _ _ _ (by simp [hph]) (by simp [hph]) (by simp [hph])

theorem stepUnlock_good (s : Word) (t : Th) (rest : List Op) (hops : t.ops = .unlock :: rest) (hwf : Wf t)
    (hg : ¬(t.pc = .start ∧ t.phase ≠ Op.pre .unlock)) : Good s t (stepUnlock s t) := by
  obtain ⟨w1, w2, w3, w4⟩ := hwf
  rw [hops] at w4
  have hl := not_locker t _ _ hops (by simp) (by simp)
  have h : t.pc = .start := w4
  have hph : t.phase = .holdW := by
    apply Classical.byContradiction; intro hc; exact hg ⟨h, by simpa [Op.pre] using hc⟩
  unfold Good stepUnlock
  rw [h]; dsimp only
  exact ⟨T_relW hph hl rfl rfl rfl, wf_done _ _ _ (by simp) (by simp) (by simp)⟩

theorem stepUnlockShared_good (s : Word) (t : Th) (rest : List Op) (hops : t.ops = .unlockShared :: rest) (hwf : Wf t)
    (hg : ¬(t.pc = .start ∧ t.phase ≠ Op.pre .unlockShared)) : Good s t (stepUnlockShared s t) := by
  obtain ⟨w1, w2, w3, w4⟩ := hwf
  rw [hops] at w4
  have hl := not_locker t _ _ hops (by simp) (by simp)
  have h : t.pc = .start := w4
  have hph : t.phase = .holdR := by
    apply Classical.byContradiction; intro hc; exact hg ⟨h, by simpa [Op.pre] using hc⟩
  unfold Good stepUnlockShared
  rw [h]; dsimp only
  exact ⟨T_relR hph hl rfl rfl rfl, wf_done _ _ _ (by simp) (by simp) (by simp)⟩

theorem stepDowngrade_good (s : Word) (t : Th) (rest : List Op) (hops : t.ops = .downgrade :: rest) (hwf : Wf t)
    (hg : ¬(t.pc = .start ∧ t.phase ≠ Op.pre .downgrade)) : Good s t (stepDowngrade s t) := by
  obtain ⟨w1, w2, w3, w4⟩ := hwf
  rw [hops] at w4
  have hl := not_locker t _ _ hops (by simp) (by simp)
  have h : t.pc = .start := w4
  have hph : t.phase = .holdW := by
    apply Classical.byContradiction; intro hc; exact hg ⟨h, by simpa [Op.pre] using hc⟩
  unfold Good stepDowngrade
  rw [h]; dsimp only
  exact ⟨T_downgr hph hl rfl rfl rfl, wf_done _ _ _ (by simp) (by simp) (by simp)⟩

theorem stepShared_good (bl : Bool) (s : Word) (t : Th) (op : Op) (rest : List Op) (hops : t.ops = op :: rest)
    (hop : op = .lockShared ∨ op = .tryLockShared) (hwf : Wf t)
    (hg : ¬(t.pc = .start ∧ t.phase ≠ .idle)) : Good s t (stepShared bl s t) := by
  obtain ⟨w1, w2, w3, w4⟩ := hwf
  rw [hops] at w4
  have hl := not_locker t _ _ hops (by rcases hop with rfl | rfl <;> simp) (by rcases hop with rfl | rfl <;> simp)
  have w4' : t.pc = .start ∨ (t.pc = .sharedAdd ∧ t.phase = .idle) ∨ (t.pc = .sharedUndo ∧ t.phase = .rt) := by
    rcases hop with rfl | rfl <;> exact w4
  have mk : ∀ t' : Th, t'.ops = t.ops → (t'.phase = .rt → t'.pc = .sharedUndo) → (t'.phase = .upgWait → t'.pc = .upgSpin) →
      (t'.phase = .upgReady → t'.pc = .upgFinish) →
      (t'.pc = .start ∨ (t'.pc = .sharedAdd ∧ t'.phase = .idle) ∨ (t'.pc = .sharedUndo ∧ t'.phase = .rt)) → Wf t' := by
    intro t' ho a b c d
    refine wf_stay t t' op rest hops ho a b c ?_
    rcases hop with rfl | rfl <;> exact d
  have nl : ∀ t' : Th, t'.ops = t.ops → isLocker t' = false := by
    intro t' ho
    exact not_locker t' op rest (by rw [ho, hops]) (by rcases hop with rfl | rfl <;> simp) (by rcases hop with rfl | rfl <;> simp)
  unfold Good stepShared
  rcases w4' with h | ⟨h, hph⟩ | ⟨h, hph⟩
  · have hph : t.phase = .idle := by
      apply Classical.byContradiction; intro hc; exact hg ⟨h, hc⟩
    rw [h]; dsimp only
    split
    · refine ⟨T_silent rfl rfl rfl (fun hh => by rw [hl] at hh; cases hh), ?_⟩
      exact mk _ rfl (by simp [hph]) (by simp [hph]) (by simp [hph]) (Or.inr (Or.inl ⟨rfl, hph⟩))
    · split
      · refine ⟨T_silent rfl rfl rfl (fun hh => by rw [hl] at hh; cases hh), ?_⟩
        exact mk _ rfl (by simp [hph]) (by simp [hph]) (by simp [hph]) (Or.inl rfl)
      · refine ⟨T_silent rfl rfl rfl (fun hh => by rw [hl] at hh; cases hh), ?_⟩
        exact wf_done _ _ _ (by simp [hph]) (by simp [hph]) (by simp [hph])
  · rw [h]; dsimp only
    split
    · rename_i hw
      have hw' : s.w = false := by simpa using hw
      exact ⟨T_addROk hph hl hw' rfl rfl rfl, wf_done _ _ _ (by simp) (by simp) (by simp)⟩
    · rename_i hw
      have hw' : s.w = true := by simpa using hw
      refine ⟨T_addRRt hph hl hw' rfl rfl rfl (nl _ rfl), ?_⟩
      exact mk _ rfl (by simp) (by simp) (by simp) (Or.inr (Or.inr ⟨rfl, rfl⟩))
  · rw [h]; dsimp only
    split
    · refine ⟨T_undo hph hl rfl rfl rfl, ?_⟩
      exact mk _ rfl (by simp) (by simp) (by simp) (Or.inl rfl)
    · exact ⟨T_undo hph hl rfl rfl rfl, wf_done _ _ _ (by simp) (by simp) (by simp)⟩

theorem stepLock_good (s : Word) (t : Th) (rest : List Op) (hops : t.ops = .lock :: rest) (hwf : Wf t)
    (hg : ¬(t.pc = .start ∧ t.phase ≠ Op.pre .lock)) : Good s t (stepLock s t) := by
  obtain ⟨w1, w2, w3, w4⟩ := hwf
  rw [hops] at w4
  unfold stepLock
  rcases w4 with h | ⟨h, hph, hsv⟩ | ⟨h, hph⟩
  · have hph : t.phase = .idle := by
      apply Classical.byContradiction; intro hc; exact hg ⟨h, by simpa [Op.pre] using hc⟩
    exact lockBody_good s t .lock rest .start none hops (Or.inl ⟨rfl, rfl⟩) (Or.inl h) hph (fun hh => by rw [h] at hh; cases hh) (fun hh => by cases hh)
  · exact lockBody_good s t .lock rest .start none hops (Or.inl ⟨rfl, rfl⟩) (Or.inr (Or.inl h)) hph (fun _ => hsv) (fun hh => by cases hh)
  · exact lockBody_good s t .lock rest .start none hops (Or.inl ⟨rfl, rfl⟩) (Or.inr (Or.inr h)) hph (fun hh => by rw [h] at hh; cases hh) (fun hh => by cases hh)

theorem stepUpgrade_good (s : Word) (t : Th) (rest : List Op) (hops : t.ops = .upgrade :: rest) (hwf : Wf t)
    (hg : ¬(t.pc = .start ∧ t.phase ≠ Op.pre .upgrade)) : Good s t (stepUpgrade s t) := by
  obtain ⟨w1, w2, w3, w4⟩ := hwf
  rw [hops] at w4
  have mk : ∀ t' : Th, t'.ops = t.ops → (t'.phase = .rt → t'.pc = .sharedUndo) → (t'.phase = .upgWait → t'.pc = .upgSpin) →
      (t'.phase = .upgReady → t'.pc = .upgFinish) → WfOp .upgrade t' → Wf t' := by
    intro t' ho a b c d
    exact wf_stay t t' _ rest hops ho a b c d
  have nl : ∀ t' : Th, t'.ops = t.ops → t'.pc ≠ .upgSlowLock → t'.pc ≠ .lockCas → t'.pc ≠ .lockOr → isLocker t' = false := by
    intro t' ho a b c
    unfold isLocker; rw [ho, hops]; simp [a, b, c]
  rcases w4 with h | ⟨h, hph, hsl, hc, he⟩ | ⟨h, hph, hsl⟩ | ⟨h, hph, hsl⟩ | ⟨h, hph, hsl⟩ | ⟨h, hph, hsl⟩ | ⟨h, hph, hsl⟩ | ⟨h, hph, hsl, hsv⟩
  · -- start: load
    have hph : t.phase = .holdR := by
      apply Classical.byContradiction; intro hc; exact hg ⟨h, by simpa [Op.pre] using hc⟩
    have hl := nl t rfl (by simp [h]) (by simp [h]) (by simp [h])
    unfold Good stepUpgrade
    rw [h]; dsimp only
    split
    · rename_i hcnd
      refine ⟨T_silent rfl rfl rfl (fun hh => by rw [hl] at hh; cases hh), ?_⟩
      refine mk _ rfl (by simp [hph]) (by simp [hph]) (by simp [hph]) (Or.inr (Or.inl ⟨rfl, hph, rfl, ?_, ?_⟩))
      · simp only [dec_enc]
        simp at hcnd
        rcases hcnd with h1 | h1
        · exact Or.inl h1
        · exact Or.inr h1
      · simp only [dec_enc]
    · refine ⟨T_silent rfl rfl rfl (fun hh => by rw [hl] at hh; cases hh), ?_⟩
      exact mk _ rfl (by simp [hph]) (by simp [hph]) (by simp [hph]) (Or.inr (Or.inr (Or.inr (Or.inr (Or.inl ⟨rfl, hph, rfl⟩)))))
  · -- upgCas
    have hl := nl t rfl (by simp [h]) (by simp [h]) (by simp [h])
    unfold Good stepUpgrade
    rw [h]; dsimp only
    split
    · rename_i heq
      have hs : s = Word.dec t.sv := enc_inj (by rw [he, heq])
      refine ⟨T_upgCasOk hph hl (by rw [hs]; exact hc) (by rw [hs]) rfl rfl (nl _ rfl (by simp) (by simp) (by simp)), ?_⟩
      exact mk _ rfl (by simp) (by simp) (by simp) (Or.inr (Or.inr (Or.inl ⟨rfl, rfl, hsl⟩)))
    · split
      · rename_i hcnd
        refine ⟨T_silent rfl rfl rfl (fun hh => by rw [hl] at hh; cases hh), ?_⟩
        refine mk _ rfl (by simp [hph]) (by simp [hph, h]) (by simp [hph]) (Or.inr (Or.inl ⟨rfl, hph, hsl, ?_, ?_⟩))
        · simp only [dec_enc]
          simp at hcnd
          rcases hcnd with h1 | h1
          · exact Or.inl h1
          · exact Or.inr h1
        · simp only [dec_enc]
      · refine ⟨T_silent rfl rfl rfl (fun hh => by rw [hl] at hh; cases hh), ?_⟩
        exact mk _ rfl (by simp [hph]) (by simp [hph]) (by simp [hph]) (Or.inr (Or.inr (Or.inr (Or.inr (Or.inl ⟨rfl, hph, rfl⟩)))))
  · -- upgSpin
    have hl := nl t rfl (by simp [h]) (by simp [h]) (by simp [h])
    unfold Good stepUpgrade
    rw [h]; dsimp only
    split
    · rename_i hr
      refine ⟨T_upgSee hph hl hr rfl rfl rfl (nl _ rfl (by simp) (by simp) (by simp)), ?_⟩
      exact mk _ rfl (by simp) (by simp) (by simp) (Or.inr (Or.inr (Or.inr (Or.inl ⟨rfl, rfl, hsl⟩))))
    · refine ⟨T_silent rfl rfl rfl (fun hh => by rw [hl] at hh; cases hh), ?_⟩
      exact mk _ rfl (by simp [hph]) (by simp [hph, h]) (by simp [hph]) (Or.inr (Or.inr (Or.inl ⟨h, hph, hsl⟩)))
  · -- upgFinish
    have hl := nl t rfl (by simp [h]) (by simp [h]) (by simp [h])
    unfold Good stepUpgrade
    rw [h]; dsimp only
    exact ⟨T_upgFin hph hl rfl rfl rfl, wf_done _ _ _ (by simp) (by simp) (by simp)⟩
  · -- upgSlowRelease
    have hl := nl t rfl (by simp [h]) (by simp [h]) (by simp [h])
    unfold Good stepUpgrade
    rw [h]; dsimp only
    refine ⟨T_relR hph hl rfl rfl rfl, ?_⟩
    exact mk _ rfl (by simp) (by simp) (by simp) (Or.inr (Or.inr (Or.inr (Or.inr (Or.inr (Or.inl ⟨rfl, rfl, hsl⟩))))))
  · -- upgSlowLock
    have : stepUpgrade s t = lockBody s t .upgSlowLock (some 0) := by unfold stepUpgrade; rw [h]
    rw [this]
    exact lockBody_good s t .upgrade rest .upgSlowLock _ hops (Or.inr ⟨rfl, rfl⟩) (Or.inl h) hph (fun hh => by rw [h] at hh; cases hh) (fun _ => hsl)
  · -- lockOr
    have : stepUpgrade s t = lockBody s t .upgSlowLock (some 0) := by unfold stepUpgrade; rw [h]
    rw [this]
    exact lockBody_good s t .upgrade rest .upgSlowLock _ hops (Or.inr ⟨rfl, rfl⟩) (Or.inr (Or.inr h)) hph (fun hh => by rw [h] at hh; cases hh) (fun _ => hsl)
  · -- lockCas
    have : stepUpgrade s t = lockBody s t .upgSlowLock (some 0) := by unfold stepUpgrade; rw [h]
    rw [this]
    exact lockBody_good s t .upgrade rest .upgSlowLock _ hops (Or.inr ⟨rfl, rfl⟩) (Or.inr (Or.inl h)) hph (fun _ => hsv) (fun _ => hsl)

theorem stepTh_good (s : Word) (t : Th) (hwf : Wf t) : Good s t (stepTh s t) := by
  unfold stepTh
  cases hops : t.ops with
  | nil =>
    dsimp only
    refine ⟨T_silent rfl rfl rfl (fun h => h), hwf⟩
  | cons op rest =>
    dsimp only
    split
    · rename_i hg
      have hg' : t.pc = .start ∧ t.phase ≠ op.pre := hg
      have hl : isLocker t = false := by
        unfold isLocker; rw [hops]
        cases op <;> simp_all [Op.pre]
      refine ⟨T_silent rfl rfl rfl (fun hh => by rw [hl] at hh; cases hh), ?_⟩
      obtain ⟨w1, w2, w3, w4⟩ := hwf
      refine ⟨by simpa using w1, by simpa using w2, by simpa using w3, ?_⟩
      simp only [List.tail_cons]
      cases rest with
      | nil => simpa using hg'.1
      | cons o r => exact wfOp_start o _ hg'.1
    · rename_i hg
      cases op with
      | lock => exact stepLock_good s t rest hops hwf hg
      | tryLock => exact stepTryLock_good s t rest hops hwf hg
      | unlock => exact stepUnlock_good s t rest hops hwf hg
      | lockShared => exact stepShared_good true s t _ rest hops (Or.inl rfl) hwf hg
      | tryLockShared => exact stepShared_good false s t _ rest hops (Or.inr rfl) hwf hg
      | unlockShared => exact stepUnlockShared_good s t rest hops hwf hg
      | upgrade => exact stepUpgrade_good s t rest hops hwf hg
      | downgrade => exact stepDowngrade_good s t rest hops hwf hg

structure Inv (st : St) : Prop where
  hr : st.word.r = cnt .rt st.ths + cnt .holdR st.ths + cnt .upgWait st.ths + cnt .upgReady st.ths
  hw : cnt .holdW st.ths + cnt .upgWait st.ths + cnt .upgReady st.ths = (if st.word.w then 1 else 0)
  hx : 0 < cnt .holdW st.ths + cnt .upgReady st.ths → cnt .holdR st.ths = 0
  hp : 0 < cnt .upgWait st.ths + cnt .upgReady st.ths → st.word.p = true
  hl : st.word.p = true → 0 < nLock st.ths + cnt .upgWait st.ths + cnt .upgReady st.ths
  hbad : st.bad = false
  hwf : ∀ (tid : Nat) (t : Th), st.ths[tid]? = some t → Wf t

theorem inv_trans (st : St) (tid : Nat) (t t' : Th) (hget : st.ths[tid]? = some t) (hinv : Inv st)
    (s s' : Word) (b : Bool) (ph ph' : Phase) (lk lk' : Bool)
    (es : st.word = s) (e1 : t.phase = ph) (e2 : isLocker t = lk) (e3 : t'.phase = ph') (e4 : isLocker t' = lk')
    (htr : Trans s ph lk s' b ph' lk') (hwf' : Wf t') :
    Inv { word := s', bad := st.bad || b, ths := st.ths.set tid t' } := by
  obtain ⟨hr, hw, hx, hp, hl, hbad, hwf⟩ := hinv
  have c1 := cnt_set .rt st.ths tid t t' hget
  have c2 := cnt_set .holdR st.ths tid t t' hget
  have c3 := cnt_set .upgWait st.ths tid t t' hget
  have c4 := cnt_set .upgReady st.ths tid t t' hget
  have c5 := cnt_set .holdW st.ths tid t t' hget
  have c7 := nLock_set st.ths tid t t' hget
  have hwfs : ∀ (tid' : Nat) (x : Th), (st.ths.set tid t')[tid']? = some x → Wf x := by
    intro tid' x hx'
    rw [List.getElem?_set] at hx'
    split at hx'
    · split at hx'
      · simp at hx'; subst hx'; exact hwf'
      · simp at hx'
    · exact hwf tid' x hx'
  rw [e1, e3] at c1 c2 c3 c4 c5
  rw [e2, e4] at c7
  rw [es] at hr hw hp hl
  cases htr <;> simp at c1 c2 c3 c4 c5 c7 <;> refine ⟨?_, ?_, ?_, ?_, ?_, ?_, hwfs⟩ <;> dsimp only
  all_goals (try (first
    | omega
    | exact ⟨hbad, by omega⟩
    | exact ⟨hbad, by omega, hp (by omega)⟩
    | (intro _; exact hp (by omega))
    | (have := nLock_pos_of_mem st.ths tid t hget e2; omega)))
  all_goals (try (cases hws : s.w <;> simp [hws] at hw ⊢))
  all_goals (try omega)
  all_goals (try (simp_all; done))
  all_goals (try (intro h'; simp_all <;> omega))
  all_goals (try (intro h'; have := hl h'; cases lk <;> cases lk' <;> simp_all <;> omega))
  all_goals (try exact ⟨hbad, by omega⟩)
  all_goals (try exact ⟨hbad, by omega, hp (by omega)⟩)
  -- upgrade CAS succeeded while WRITER was set: impossible (we hold a reader unit)
  · rename_i hc
    exfalso
    by_cases hq : 0 < cnt Phase.holdW st.ths + cnt Phase.upgReady st.ths
    · have := hx hq; omega
    · have hp' := hp (by omega)
      rcases hc with h | h
      · omega
      · rw [hp'] at h; cases h

theorem inv_step (st : St) (tid : Tid) (h : Inv st) : Inv (step st tid) := by
  unfold step
  cases hget : st.ths[tid]? with
  | none => simpa using h
  | some t =>
    dsimp only
    have hg := stepTh_good st.word t (h.hwf tid t hget)
    exact inv_trans st tid t _ hget h st.word _ _ _ _ _ _ rfl rfl rfl rfl rfl hg.1 hg.2

theorem cnt_init (ph : Phase) (hne : ph ≠ .idle) (progs : List (List Op)) :
    cnt ph (progs.map (fun p => ({ ops := p } : Th))) = 0 := by
  unfold cnt
  rw [List.countP_eq_zero]
  intro t ht
  simp at ht
  obtain ⟨p, _, rfl⟩ := ht
  simp
  exact fun h => hne h.symm

theorem inv_init (progs : List (List Op)) : Inv (sys progs).init := by
  refine ⟨?_, ?_, ?_, ?_, ?_, rfl, ?_⟩ <;> simp only [sys]
  · simp [cnt_init]
  · simp [cnt_init]
  · simp [cnt_init]
  · simp [cnt_init]
  · intro h; cases h
  · intro tid t ht
    simp [List.getElem?_map] at ht
    obtain ⟨p, _, rfl⟩ := ht
    refine ⟨by simp, by simp, by simp, ?_⟩
    cases p with
    | nil => simp
    | cons o r => exact wfOp_start o _ rfl

theorem inv_reachable (progs : List (List Op)) (sched : List Tid) : Inv ((sys progs).run sched) :=
  Sys.inv_run (sys progs) Inv (inv_init progs) (fun s t h => inv_step s t h) sched

end TbbVerif.C08
