/- spin_mutex: flag = true iff exactly one thread holds (C08). -/
import TbbVerif.Proofs.C08

namespace TbbVerif.C08

def nHold (l : List STh) : Nat := l.countP (fun t => t.holds)

structure SInv (st : SSt) : Prop where
  h : nHold st.ths = (if st.flag then 1 else 0)

theorem sinv_step (st : SSt) (tid : Tid) (hi : SInv st) : SInv (sstep st tid) := by
  unfold sstep
  cases hget : st.ths[tid]? with
  | none => simpa using hi
  | some t =>
    dsimp only
    have c := countP_set_add (fun t : STh => t.holds) st.ths tid t (sstepTh st.flag t).2.1 hget
    obtain ⟨h⟩ := hi
    constructor
    simp only [nHold] at h ⊢
    have hpos : t.holds = true → 0 < List.countP (fun t : STh => t.holds) st.ths := by
      intro hh
      exact List.countP_pos_iff.mpr ⟨t, List.mem_of_getElem? hget, hh⟩
    generalize hn : List.countP (fun t : STh => t.holds) st.ths = n at *
    generalize hn' : List.countP (fun t : STh => t.holds) (st.ths.set tid (sstepTh st.flag t).2.1) = n' at *
    have key : ((sstepTh st.flag t).2.1.holds = t.holds ∧ (sstepTh st.flag t).1 = st.flag) ∨
        (st.flag = false ∧ t.holds = false ∧ (sstepTh st.flag t).2.1.holds = true ∧ (sstepTh st.flag t).1 = true) ∨
        (t.holds = true ∧ (sstepTh st.flag t).2.1.holds = false ∧ (sstepTh st.flag t).1 = false) := by
      unfold sstepTh
      cases hops : t.ops with
      | nil => simp
      | cons op rest =>
        cases op <;> cases hf : st.flag <;> cases hh : t.holds <;> simp <;>
          (try (have := hpos hh; simp [hf] at h; omega)) <;> (try exact hh)
    rcases key with ⟨k1, k2⟩ | ⟨k1, k2, k3, k4⟩ | ⟨k1, k2, k3⟩
    · rw [k1] at c; rw [k2]; omega
    · rw [k2, k3] at c; rw [k4]; rw [k1] at h; simp at c h ⊢; omega
    · rw [k1, k2] at c; rw [k3]
      have := hpos k1
      cases hf : st.flag <;> simp [hf] at h c ⊢ <;> omega

theorem sinv_init (progs : List (List SOp)) : SInv (ssys progs).init := by
  constructor
  simp only [ssys, nHold]
  rw [List.countP_eq_zero.mpr]
  · simp
  · intro t ht
    simp at ht
    obtain ⟨p, _, rfl⟩ := ht
    simp

theorem sinv_reachable (progs : List (List SOp)) (sched : List Tid) : SInv ((ssys progs).run sched) :=
  Sys.inv_run (ssys progs) SInv (sinv_init progs) (fun s t h => sinv_step s t h) sched

end TbbVerif.C08
