/-
C17 — arithmetic helper lemmas and the finite size-class tables (kernel-evaluated), core Lean only.
-/
import TbbVerif.Model.C17

namespace TbbVerif.C17
open TbbVerif.Cint
open TbbVerif.Generated.C17

/-! ### finite-table checker: `p k` for every `k ≤ n`, evaluated by the kernel (`decide +kernel`) -/

def allUpTo : Nat → (Nat → Bool) → Bool
  | 0, p => p 0
  | n + 1, p => p (n + 1) && allUpTo n p

theorem allUpTo_spec {n : Nat} {p : Nat → Bool} (h : allUpTo n p = true) : ∀ k, k ≤ n → p k = true := by
  induction n with
  | zero =>
    intro k hk
    have : k = 0 := by omega
    subst this; simpa [allUpTo] using h
  | succ n ih =>
    intro k hk
    simp only [allUpTo, Bool.and_eq_true] at h
    rcases Nat.lt_or_ge k (n + 1) with h1 | h1
    · exact ih h.2 k (by omega)
    · have : k = n + 1 := by omega
      subst this; exact h.1

/-! ### bit masks are rounding -/

theorem testBit_ge_of_lt {y i n : Nat} (h : y < 2 ^ n) (hi : n ≤ i) : y.testBit i = false := by
  apply Nat.testBit_lt_two_pow
  exact Nat.lt_of_lt_of_le h (Nat.pow_le_pow_right (by omega) hi)

/-- `y & ~(2^k - 1)` on 64-bit words is rounding down to a multiple of `2^k` -/
theorem and_not_low (y k : Nat) (hy : y < 2 ^ 64) (hk : k ≤ 64) :
    y &&& (2 ^ 64 - 1 - (2 ^ k - 1)) = y / 2 ^ k * 2 ^ k := by
  have h1 : 2 ^ 64 - 1 - (2 ^ k - 1) = 2 ^ 64 - ((2 ^ k - 1) + 1) := by omega
  have hlt : 2 ^ k - 1 < 2 ^ 64 := by
    have : 2 ^ k ≤ 2 ^ 64 := Nat.pow_le_pow_right (by omega) hk
    have : 0 < 2 ^ k := Nat.two_pow_pos k
    omega
  apply Nat.eq_of_testBit_eq
  intro i
  rw [h1, Nat.testBit_and, Nat.testBit_two_pow_sub_succ hlt, Nat.testBit_two_pow_sub_one,
    Nat.testBit_mul_two_pow, Nat.testBit_div_two_pow]
  by_cases hik : k ≤ i
  · have e : i - k + k = i := by omega
    by_cases hi64 : i < 64
    · have : ¬ i < k := by omega
      simp [hik, hi64, this, e]
    · have : y.testBit i = false := testBit_ge_of_lt hy (by omega)
      simp [hik, hi64, this, e]
  · have : i < k := by omega
    simp [hik, this]

theorem alignUpN_spec (x a : Nat) (ha : 0 < a) :
    x ≤ alignUpN x a ∧ alignUpN x a < x + a ∧ alignUpN x a % a = 0 := by
  unfold alignUpN
  have h := Nat.div_add_mod (x + (a - 1)) a
  have hr := Nat.mod_lt (x + (a - 1)) ha
  rw [Nat.mul_comm] at h
  refine ⟨by omega, by omega, Nat.mul_mod_left _ _⟩

theorem alignDownN_spec (x a : Nat) (ha : 0 < a) :
    alignDownN x a ≤ x ∧ x < alignDownN x a + a ∧ alignDownN x a % a = 0 := by
  unfold alignDownN
  have h := Nat.div_add_mod x a
  have hr := Nat.mod_lt x ha
  rw [Nat.mul_comm] at h
  refine ⟨by omega, by omega, Nat.mul_mod_left _ _⟩

theorem subU64_one (a : Nat) (h1 : 1 ≤ a) (h2 : a < 2 ^ 64) : subU64 a 1 = a - 1 := by
  unfold subU64; omega

theorem subU64_le (a b : Nat) (h1 : b ≤ a) (h2 : a < 2 ^ 64) : subU64 a b = a - b := by
  unfold subU64; omega

/-- the generated `alignDown` (bit mask, from shared_utils.h) rounds down -/
theorem gen_alignDown (x k : Nat) (hx : x < 2 ^ 64) (hk : k < 64) :
    alignDown x (2 ^ k) = alignDownN x (2 ^ k) := by
  have hp : 2 ^ k < 2 ^ 64 := Nat.pow_lt_pow_right (by omega) hk
  have hp1 : 1 ≤ 2 ^ k := Nat.two_pow_pos k
  unfold alignDown alignDownN
  rw [subU64_one _ hp1 hp, and_not_low x k hx (by omega)]

/-- the generated `alignUp` rounds up, modulo 2^64 -/
theorem gen_alignUp_mod (x k : Nat) (hx : x < 2 ^ 64) (hk : k < 64) :
    alignUp x (2 ^ k) = alignUpN x (2 ^ k) % 2 ^ 64 := by
  have hp : 2 ^ k < 2 ^ 64 := Nat.pow_lt_pow_right (by omega) hk
  have hp1 : 1 ≤ 2 ^ k := Nat.two_pow_pos k
  unfold alignUp
  rw [subU64_one _ hp1 hp, and_not_low _ k (Nat.mod_lt _ (by omega)) (by omega)]
  unfold alignUpN
  have e64 : (2:Nat) ^ 64 = 2 ^ k * 2 ^ (64 - k) := by rw [← Nat.pow_add]; congr 1; omega
  rcases Nat.lt_or_ge (x + (2 ^ k - 1)) (2 ^ 64) with h | h
  · rw [Nat.mod_eq_of_lt h]
    have := Nat.div_mul_le_self (x + (2 ^ k - 1)) (2 ^ k)
    rw [Nat.mod_eq_of_lt (by omega)]
  · have hs : (x + (2 ^ k - 1)) % 2 ^ 64 = x + (2 ^ k - 1) - 2 ^ 64 := by omega
    rw [hs]
    have hmq : 2 ^ (64 - k) ≤ (x + (2 ^ k - 1)) / 2 ^ k := by
      rw [Nat.le_div_iff_mul_le hp1, Nat.mul_comm, ← e64]; exact h
    have hd : (x + (2 ^ k - 1) - 2 ^ 64) / 2 ^ k = (x + (2 ^ k - 1)) / 2 ^ k - 2 ^ (64 - k) := by
      rw [e64, Nat.sub_mul_div_of_le]
      rw [← e64]; exact h
    rw [hd, Nat.sub_mul, Nat.mul_comm (2 ^ (64 - k)) (2 ^ k), ← e64]
    have h1 := Nat.div_mul_le_self (x + (2 ^ k - 1)) (2 ^ k)
    have h2 : 2 ^ 64 ≤ (x + (2 ^ k - 1)) / 2 ^ k * 2 ^ k := by
      have := Nat.mul_le_mul_right (2 ^ k) hmq
      rw [Nat.mul_comm (2 ^ (64 - k)) (2 ^ k), ← e64] at this; exact this
    omega

/-- no wrap-around when the rounded value still fits -/
theorem gen_alignUp (x k : Nat) (hk : k < 64) (hx : x + 2 ^ k ≤ 2 ^ 64) :
    alignUp x (2 ^ k) = alignUpN x (2 ^ k) := by
  have hp1 : 1 ≤ 2 ^ k := Nat.two_pow_pos k
  rw [gen_alignUp_mod x k (by omega) hk]
  have := alignUpN_spec x (2 ^ k) hp1
  exact Nat.mod_eq_of_lt (by omega)

theorem pow_dvd_slab (a : Nat) (h : a ≤ 14) : slabSize % 2 ^ a = 0 := by
  have : (2:Nat) ^ a ∣ 2 ^ 14 := Nat.pow_dvd_pow 2 h
  exact Nat.mod_eq_zero_of_dvd (by simpa [slabSize] using this)

theorem pow_le_imp (a n : Nat) (h : 2 ^ a ≤ 2 ^ n) : a ≤ n := by
  rcases Nat.lt_or_ge n a with h1 | h1
  · have := Nat.pow_lt_pow_right (show 1 < 2 by omega) h1
    omega
  · exact h1

/-! ### the size-class table (checked for every size of the domain) -/

/-- everything the property needs of one request size: the bin exists, the object is big enough, the
object size is the bin's closed-form size (so all sizes of a bin agree), alignment of the class, and the
bin/object size are fixed points (a slab initialised for one size of the bin serves all of them). -/
def sizeCheck (s : Nat) : Bool :=
  s == 0 ||
  match indexOf s, objectSizeOf s with
  | some i, some o => decide (s ≤ o) && decide (i < numBlockBins) && decide (o = binObjSize i) && decide (o % 8 = 0)
      && (decide (s ≤ 8) || decide (o % 16 = 0)) && (decide (s ≤ maxSegregatedObjectSize) || decide (o % fittingAlignment = 0))
      && decide (indexOf o = some i) && decide (objectSizeOf o = some o) && decide (o ≤ fittingSize5)
      && (decide (maxSegregatedObjectSize < s) || decide (o ≤ maxSegregatedObjectSize))
      && decide (o ≤ slabSize - sizeofBlock) && decide (0 < o)
  | _, _ => false

set_option maxRecDepth 100000 in
theorem sizeCheck_all : allUpTo fittingSize5 sizeCheck = true := by decide +kernel

theorem sizeCheck_of (s : Nat) (h : s ≤ fittingSize5) : sizeCheck s = true :=
  allUpTo_spec sizeCheck_all s h

/-- unpacked form of the table -/
theorem size_table (s : Nat) (h1 : 1 ≤ s) (h2 : s ≤ fittingSize5) :
    ∃ i o, indexOf s = some i ∧ objectSizeOf s = some o ∧ s ≤ o ∧ i < numBlockBins ∧ o = binObjSize i ∧ o % 8 = 0 ∧
      (8 < s → o % 16 = 0) ∧ (maxSegregatedObjectSize < s → o % fittingAlignment = 0) ∧
      indexOf o = some i ∧ objectSizeOf o = some o ∧ o ≤ fittingSize5 ∧
      (s ≤ maxSegregatedObjectSize → o ≤ maxSegregatedObjectSize) ∧ o ≤ slabSize - sizeofBlock ∧ 0 < o := by
  have h := sizeCheck_of s h2
  unfold sizeCheck at h
  have hs : (s == 0) = false := by simp; omega
  rw [hs, Bool.false_or] at h
  split at h
  · rename_i i o hi ho
    simp only [Bool.and_eq_true, Bool.or_eq_true, decide_eq_true_eq, and_assoc] at h
    obtain ⟨a1, a2, a3, a4, a5, a6, a7, a8, a9, a10, a11, a12⟩ := h
    simp only [maxSegregatedObjectSize, fittingAlignment, fittingSize5, slabSize, sizeofBlock, numBlockBins] at *
    exact ⟨i, o, hi, ho, a1, a2, a3, a4, by omega, by omega, a7, a8, a9, by omega, a11, a12⟩
  · exact absurd h (by simp)

/-- case 1 of `allocateAligned` (size, alignment ≤ maxSegregatedObjectSize): the slab class chosen for
`alignUp(size ? size : 8, alignment)` has objects that are multiples of the alignment -/
def case1Check (a : Nat) (s : Nat) : Bool :=
  match alignedStrategy s (2 ^ a) with
  | .small req false =>
    match objectSizeOf req with
    | some o => decide (1 ≤ req) && decide (s ≤ req) && decide (req ≤ maxSegregatedObjectSize) && decide (o % 2 ^ a = 0)
        && decide (o ≤ maxSegregatedObjectSize)
    | none => false
  | _ => false

def case1CheckAll (a : Nat) : Bool := allUpTo maxSegregatedObjectSize (case1Check a)

set_option maxRecDepth 100000 in
theorem case1_all : allUpTo 10 case1CheckAll = true := by decide +kernel

theorem case1_of (s a : Nat) (hs : s ≤ maxSegregatedObjectSize) (ha : a ≤ 10) : case1Check a s = true :=
  allUpTo_spec (allUpTo_spec case1_all a ha) s hs

end TbbVerif.C17
