/-
C13 — inductive invariant of the aggregator system `Agg` (Model/C13.lean, Part 2).
-/
import TbbVerif.Model.C13

namespace TbbVerif.C13

/-- pcs at which the handler already took the batch -/
def Pc.handling : Pc → Bool
  | .p1Load | .p1Defer | .p1SzLd | .p1SzSt | .p1Status | .p2Load | .p2SzLd | .p2SzSt | .p2Status | .release
  | .p1Adv | .p2Adv => true
  | _ => false

def Pc.pass2 : Pc → Bool
  | .p2Load | .p2SzLd | .p2SzSt | .p2Status | .p2Adv => true
  | _ => false

def Pc.fresh : Pc → Bool
  | .ldPend | .stNext | .cas => true
  | _ => false

/-- The inductive invariant.  Counters: `nSub` submitted (CAS succeeded), `nGrab` grabbed into a batch,
`nSet` status stored, `nRet` returned.  `plist` = pending list, `unset` = grabbed operations without status. -/
structure Inv (s : St) : Prop where
  act_unique : ∀ t u, (s.ths t).pc.active = true → (s.ths u).pc.active = true → t = u
  busy0 : s.busy = 0 → ∀ u, (s.ths u).pc.active = false
  setBusy0 : ∀ t, (s.ths t).pc = .setBusy → s.busy = 0
  wait_last : ∀ u, (s.ths u).pc.waiting = true ↔ s.plist.getLast? = some u
  sub : ∀ u, (s.ths u).nSub = (s.ths u).nGrab + s.plist.count u
  grabc : ∀ u, (s.ths u).nGrab = (s.ths u).nSet + s.unset.count u
  setc : ∀ u, (s.ths u).nRet ≤ (s.ths u).nSet
  subret : ∀ u, (s.ths u).nSub ≤ (s.ths u).nRet + 1
  out : ∀ u, (s.ths u).pc.outside = true → (s.ths u).nSub = (s.ths u).nRet
  inn : ∀ u, (s.ths u).pc.outside = false → (s.ths u).nSub = (s.ths u).nRet + 1
  rd : ∀ u, (s.ths u).pc = .rdStatus → (s.ths u).nSet = (s.ths u).nSub
  spin : ∀ u, (s.ths u).pc = .spin → (s.ths u).status ≠ 0 → (s.ths u).nSet = (s.ths u).nSub
  st0 : ∀ u, (s.ths u).pc.fresh = true → (s.ths u).status = 0
  lists : ∀ a, (s.ths a).pc.active = true → ∀ u, s.unset.count u =
      (s.ths a).rem.count u + (s.ths a).dfr.count u + (if (s.ths a).pc.inflight = true ∧ (s.ths a).tmp = u then 1 else 0)
  idle_unset : (∀ a, (s.ths a).pc.active = false) → ∀ u, s.unset.count u = 0
  no_lists : ∀ a, (s.ths a).pc.handling = false → (s.ths a).rem = [] ∧ (s.ths a).dfr = []
  rel_lists : ∀ a, (s.ths a).pc = .release → (s.ths a).rem = [] ∧ (s.ths a).dfr = []
  p2_dfr : ∀ a, (s.ths a).pc.pass2 = true → (s.ths a).dfr = []
  own : ∀ a, (s.ths a).pc.handling = true → s.plist.count a = 0

@[simp] theorem modTh_ths (s : St) (t : Tid) (f : Th → Th) (u : Tid) :
    (s.modTh t f).ths u = if u = t then f (s.ths u) else s.ths u := rfl
@[simp] theorem modTh_plist (s : St) (t : Tid) (f : Th → Th) : (s.modTh t f).plist = s.plist := rfl
@[simp] theorem modTh_busy (s : St) (t : Tid) (f : Th → Th) : (s.modTh t f).busy = s.busy := rfl
@[simp] theorem modTh_unset (s : St) (t : Tid) (f : Th → Th) : (s.modTh t f).unset = s.unset := rfl
@[simp] theorem modTh_heap (s : St) (t : Tid) (f : Th → Th) : (s.modTh t f).heap = s.heap := rfl
@[simp] theorem modTh_mySize (s : St) (t : Tid) (f : Th → Th) : (s.modTh t f).mySize = s.mySize := rfl

/-- one-thread field: case `u = t` by computation on the known pc, `u ≠ t` unchanged -/
syntax "fld " term ", " ident ", " ident : tactic
macro_rules
  | `(tactic| fld $f, $t, $hpc) => `(tactic|
      (intro u; have hh := $f u; by_cases hu : u = $t
       · (subst hu; simp [$hpc:ident, Pc.active, Pc.waiting, Pc.inflight, Pc.outside, Pc.handling, Pc.pass2, Pc.fresh] at hh ⊢ <;> first | done | omega | exact hh | simp_all)
       · (simp [hu] at hh ⊢ <;> first | done | exact hh | omega)))

/-- a step that changes only thread `t`'s pc (and fields the invariant does not mention), between two pcs
that are alike for the invariant -/
theorem Inv.pc_change {s : St} (h : Inv s) (t : Tid) (f : Th → Th) (pc' : Pc) (s' : St)
    (hs : s'.ths = (s.modTh t f).ths) (hp : s'.plist = s.plist) (hb : s'.busy = s.busy) (hu : s'.unset = s.unset)
    (hf : ∀ x : Th, x = s.ths t → (f x).pc = pc' ∧ (f x).nSub = x.nSub ∧ (f x).nGrab = x.nGrab ∧ (f x).nSet = x.nSet ∧
      (f x).nRet = x.nRet ∧ (f x).status = x.status ∧ (f x).rem = x.rem ∧ (f x).dfr = x.dfr ∧ (f x).tmp = x.tmp)
    (c1 : pc'.active = (s.ths t).pc.active) (c2 : pc'.waiting = (s.ths t).pc.waiting)
    (c3 : pc'.inflight = (s.ths t).pc.inflight) (c4 : pc'.outside = (s.ths t).pc.outside)
    (c5 : pc'.handling = (s.ths t).pc.handling) (c6 : pc'.pass2 = (s.ths t).pc.pass2)
    (c7 : pc'.fresh = (s.ths t).pc.fresh)
    (c8 : pc' = .setBusy → (s.ths t).pc = .setBusy) (c9 : pc' = .rdStatus → (s.ths t).pc = .rdStatus)
    (c10 : pc' = .spin → (s.ths t).pc = .spin) (c11 : pc' = .release → (s.ths t).pc = .release) : Inv s' := by
  have e : ∀ u, s'.ths u = if u = t then f (s.ths u) else s.ths u := fun u => by rw [hs]; rfl
  have et : s'.ths t = f (s.ths t) := by rw [e]; simp
  obtain ⟨f1, f2, f3, f4, f5, f6, f7, f8, f9⟩ := hf (s.ths t) rfl
  have key : ∀ u, (s'.ths u).pc.active = (s.ths u).pc.active ∧ (s'.ths u).pc.waiting = (s.ths u).pc.waiting ∧
      (s'.ths u).pc.inflight = (s.ths u).pc.inflight ∧ (s'.ths u).pc.outside = (s.ths u).pc.outside ∧
      (s'.ths u).pc.handling = (s.ths u).pc.handling ∧ (s'.ths u).pc.pass2 = (s.ths u).pc.pass2 ∧
      (s'.ths u).pc.fresh = (s.ths u).pc.fresh ∧ (s'.ths u).nSub = (s.ths u).nSub ∧ (s'.ths u).nGrab = (s.ths u).nGrab ∧
      (s'.ths u).nSet = (s.ths u).nSet ∧ (s'.ths u).nRet = (s.ths u).nRet ∧ (s'.ths u).status = (s.ths u).status ∧
      (s'.ths u).rem = (s.ths u).rem ∧ (s'.ths u).dfr = (s.ths u).dfr ∧ (s'.ths u).tmp = (s.ths u).tmp ∧
      ((s'.ths u).pc = .setBusy → (s.ths u).pc = .setBusy) ∧ ((s'.ths u).pc = .rdStatus → (s.ths u).pc = .rdStatus) ∧
      ((s'.ths u).pc = .spin → (s.ths u).pc = .spin) ∧ ((s'.ths u).pc = .release → (s.ths u).pc = .release) := by
    intro u
    by_cases huu : u = t
    · subst huu
      rw [et, f1, f2, f3, f4, f5, f6, f7, f8, f9, c1, c2, c3, c4, c5, c6, c7]
      exact ⟨rfl, rfl, rfl, rfl, rfl, rfl, rfl, rfl, rfl, rfl, rfl, rfl, rfl, rfl, rfl, c8, c9, c10, c11⟩
    · rw [e, if_neg huu]
      exact ⟨rfl, rfl, rfl, rfl, rfl, rfl, rfl, rfl, rfl, rfl, rfl, rfl, rfl, rfl, rfl, id, id, id, id⟩
  constructor
  · intro a b ha hb'
    rw [(key a).1] at ha; rw [(key b).1] at hb'
    exact h.act_unique a b ha hb'
  · intro hb0 u; rw [(key u).1]; exact h.busy0 (by rw [← hb]; exact hb0) u
  · intro u hu'; rw [hb]; exact h.setBusy0 u ((key u).2.2.2.2.2.2.2.2.2.2.2.2.2.2.2.1 hu')
  · intro u; rw [(key u).2.1, hp]; exact h.wait_last u
  · intro u; rw [(key u).2.2.2.2.2.2.2.1, (key u).2.2.2.2.2.2.2.2.1, hp]; exact h.sub u
  · intro u; rw [(key u).2.2.2.2.2.2.2.2.1, (key u).2.2.2.2.2.2.2.2.2.1, hu]; exact h.grabc u
  · intro u; rw [(key u).2.2.2.2.2.2.2.2.2.1, (key u).2.2.2.2.2.2.2.2.2.2.1]; exact h.setc u
  · intro u; rw [(key u).2.2.2.2.2.2.2.1, (key u).2.2.2.2.2.2.2.2.2.2.1]; exact h.subret u
  · intro u; rw [(key u).2.2.2.1, (key u).2.2.2.2.2.2.2.1, (key u).2.2.2.2.2.2.2.2.2.2.1]; exact h.out u
  · intro u; rw [(key u).2.2.2.1, (key u).2.2.2.2.2.2.2.1, (key u).2.2.2.2.2.2.2.2.2.2.1]; exact h.inn u
  · intro u hu'; rw [(key u).2.2.2.2.2.2.2.1, (key u).2.2.2.2.2.2.2.2.2.1]
    exact h.rd u ((key u).2.2.2.2.2.2.2.2.2.2.2.2.2.2.2.2.1 hu')
  · intro u hu' hst; rw [(key u).2.2.2.2.2.2.2.1, (key u).2.2.2.2.2.2.2.2.2.1]
    rw [(key u).2.2.2.2.2.2.2.2.2.2.2.1] at hst
    exact h.spin u ((key u).2.2.2.2.2.2.2.2.2.2.2.2.2.2.2.2.2.1 hu') hst
  · intro u; rw [(key u).2.2.2.2.2.2.1, (key u).2.2.2.2.2.2.2.2.2.2.2.1]; exact h.st0 u
  · intro a ha u
    rw [(key a).1] at ha
    rw [hu, (key a).2.2.1, (key a).2.2.2.2.2.2.2.2.2.2.2.2.1, (key a).2.2.2.2.2.2.2.2.2.2.2.2.2.1, (key a).2.2.2.2.2.2.2.2.2.2.2.2.2.2.1]
    exact h.lists a ha u
  · intro hi u; rw [hu]; exact h.idle_unset (fun a => by rw [← (key a).1]; exact hi a) u
  · intro a; rw [(key a).2.2.2.2.1, (key a).2.2.2.2.2.2.2.2.2.2.2.2.1, (key a).2.2.2.2.2.2.2.2.2.2.2.2.2.1]; exact h.no_lists a
  · intro a ha; rw [(key a).2.2.2.2.2.2.2.2.2.2.2.2.1, (key a).2.2.2.2.2.2.2.2.2.2.2.2.2.1]
    exact h.rel_lists a ((key a).2.2.2.2.2.2.2.2.2.2.2.2.2.2.2.2.2.2 ha)
  · intro a; rw [(key a).2.2.2.2.2.1, (key a).2.2.2.2.2.2.2.2.2.2.2.2.2.1]; exact h.p2_dfr a
  · intro a; rw [(key a).2.2.2.2.1, hp]; exact h.own a


/-- modifying fields the invariant does not mention (`next`, `elem`, …) of any thread -/
theorem Inv.frame {s : St} (h : Inv s) (v : Tid) (g : Th → Th)
    (hg : ∀ x : Th, (g x).pc = x.pc ∧ (g x).nSub = x.nSub ∧ (g x).nGrab = x.nGrab ∧ (g x).nSet = x.nSet ∧
      (g x).nRet = x.nRet ∧ (g x).status = x.status ∧ (g x).rem = x.rem ∧ (g x).dfr = x.dfr ∧ (g x).tmp = x.tmp) :
    Inv (s.modTh v g) :=
  h.pc_change v g (s.ths v).pc _ rfl rfl rfl rfl (fun x e => by subst e; exact hg _) rfl rfl rfl rfl rfl rfl rfl id id id id

syntax "pc_side " ident : tactic
macro_rules
  | `(tactic| pc_side $hpc) => `(tactic|
      all_goals (first
        | (intro x _; exact ⟨rfl, rfl, rfl, rfl, rfl, rfl, rfl, rfl, rfl⟩)
        | rfl
        | (simp [$hpc:ident, Pc.active, Pc.waiting, Pc.inflight, Pc.outside, Pc.handling, Pc.pass2, Pc.fresh])))

theorem step_ldPend (s : St) (t : Tid) (h : Inv s) (hpc : (s.ths t).pc = .ldPend) : Inv (aggStep s t) := by
  unfold aggStep; simp only [hpc]
  apply h.pc_change t _ .stNext _ rfl
  pc_side hpc

theorem step_stNext (s : St) (t : Tid) (h : Inv s) (hpc : (s.ths t).pc = .stNext) : Inv (aggStep s t) := by
  unfold aggStep; simp only [hpc]
  apply h.pc_change t _ .cas _ rfl
  pc_side hpc

theorem step_p1SzLd (s : St) (t : Tid) (h : Inv s) (hpc : (s.ths t).pc = .p1SzLd) : Inv (aggStep s t) := by
  unfold aggStep; simp only [hpc]
  apply h.pc_change t _ .p1SzSt _ rfl
  pc_side hpc

theorem step_p1SzSt (s : St) (t : Tid) (h : Inv s) (hpc : (s.ths t).pc = .p1SzSt) : Inv (aggStep s t) := by
  unfold aggStep; simp only [hpc]
  refine Inv.pc_change h t (fun x => { x with pc := .p1Status }) .p1Status _ rfl rfl rfl rfl ?_ ?_ ?_ ?_ ?_ ?_ ?_ ?_ ?_ ?_ ?_ ?_
  pc_side hpc

theorem step_p2SzLd (s : St) (t : Tid) (h : Inv s) (hpc : (s.ths t).pc = .p2SzLd) : Inv (aggStep s t) := by
  unfold aggStep; simp only [hpc]
  apply h.pc_change t _ .p2SzSt _ rfl
  pc_side hpc

theorem step_p2SzSt (s : St) (t : Tid) (h : Inv s) (hpc : (s.ths t).pc = .p2SzSt) : Inv (aggStep s t) := by
  unfold aggStep; simp only [hpc]
  refine Inv.pc_change h t (fun x => { x with pc := .p2Status }) .p2Status _ rfl rfl rfl rfl ?_ ?_ ?_ ?_ ?_ ?_ ?_ ?_ ?_ ?_ ?_ ?_
  pc_side hpc

syntax "fld2 " term ", " ident : tactic
macro_rules
  | `(tactic| fld2 $f, $t) => `(tactic|
      (intro a b ha hb; have hh := $f a b
       by_cases h1 : a = $t <;> by_cases h2 : b = $t <;>
         simp_all [Pc.active, Pc.waiting, Pc.inflight, Pc.outside, Pc.handling, Pc.pass2, Pc.fresh]))

/-- `lists` / `idle_unset` when the stepping thread is not active before and after -/
syntax "fldL " ident ", " ident ", " ident : tactic
macro_rules
  | `(tactic| fldL $h, $t, $hpc) => `(tactic|
      (intro a ha u; have hh := Inv.lists $h a
       by_cases h1 : a = $t
       · (subst h1; simp [$hpc:ident, Pc.active] at ha)
       · (simp [h1] at ha ⊢; exact hh ha u)))
syntax "fldI " ident ", " ident ", " ident : tactic
macro_rules
  | `(tactic| fldI $h, $t, $hpc) => `(tactic|
      (intro hi u; apply Inv.idle_unset $h; intro a; have := hi a
       by_cases h1 : a = $t
       · (subst h1; simp [$hpc:ident, Pc.active])
       · (simpa [h1] using this)))

theorem step_idle (s : St) (t : Tid) (h : Inv s) (hpc : (s.ths t).pc = .idle) : Inv (aggStep s t) := by
  unfold aggStep; simp only [hpc]
  split
  · exact h
  · constructor
    · fld2 h.act_unique, t
    · intro hb; fld (h.busy0 hb), t, hpc
    · fld h.setBusy0, t, hpc
    · fld h.wait_last, t, hpc
    · fld h.sub, t, hpc
    · fld h.grabc, t, hpc
    · fld h.setc, t, hpc
    · fld h.subret, t, hpc
    · fld h.out, t, hpc
    · fld h.inn, t, hpc
    · fld h.rd, t, hpc
    · fld h.spin, t, hpc
    · fld h.st0, t, hpc
    · fldL h, t, hpc
    · fldI h, t, hpc
    · fld h.no_lists, t, hpc
    · fld h.rel_lists, t, hpc
    · fld h.p2_dfr, t, hpc
    · fld h.own, t, hpc

theorem step_spin (s : St) (t : Tid) (h : Inv s) (hpc : (s.ths t).pc = .spin) : Inv (aggStep s t) := by
  unfold aggStep; simp only [hpc]
  split
  · rename_i hst
    have hrd := h.spin t hpc hst
    constructor
    · fld2 h.act_unique, t
    · intro hb; fld (h.busy0 hb), t, hpc
    · fld h.setBusy0, t, hpc
    · fld h.wait_last, t, hpc
    · fld h.sub, t, hpc
    · fld h.grabc, t, hpc
    · fld h.setc, t, hpc
    · fld h.subret, t, hpc
    · fld h.out, t, hpc
    · fld h.inn, t, hpc
    · fld h.rd, t, hpc
    · fld h.spin, t, hpc
    · fld h.st0, t, hpc
    · fldL h, t, hpc
    · fldI h, t, hpc
    · fld h.no_lists, t, hpc
    · fld h.rel_lists, t, hpc
    · fld h.p2_dfr, t, hpc
    · fld h.own, t, hpc
  · exact h

theorem step_waitBusy (s : St) (t : Tid) (h : Inv s) (hpc : (s.ths t).pc = .waitBusy) : Inv (aggStep s t) := by
  unfold aggStep; simp only [hpc]
  split
  · rename_i hb0
    constructor
    · fld2 h.act_unique, t
    · intro hb; fld (h.busy0 hb), t, hpc
    · fld h.setBusy0, t, hpc
    · fld h.wait_last, t, hpc
    · fld h.sub, t, hpc
    · fld h.grabc, t, hpc
    · fld h.setc, t, hpc
    · fld h.subret, t, hpc
    · fld h.out, t, hpc
    · fld h.inn, t, hpc
    · fld h.rd, t, hpc
    · fld h.spin, t, hpc
    · fld h.st0, t, hpc
    · fldL h, t, hpc
    · fldI h, t, hpc
    · fld h.no_lists, t, hpc
    · fld h.rel_lists, t, hpc
    · fld h.p2_dfr, t, hpc
    · fld h.own, t, hpc
  · exact h

theorem step_rdStatus (s : St) (t : Tid) (h : Inv s) (hpc : (s.ths t).pc = .rdStatus) : Inv (aggStep s t) := by
  unfold aggStep; simp only [hpc]
  have h1 := h.rd t hpc
  have h2 := h.inn t (by simp [hpc, Pc.outside])
  constructor
  · fld2 h.act_unique, t
  · intro hb; fld (h.busy0 hb), t, hpc
  · fld h.setBusy0, t, hpc
  · fld h.wait_last, t, hpc
  · fld h.sub, t, hpc
  · fld h.grabc, t, hpc
  · fld h.setc, t, hpc
  · fld h.subret, t, hpc
  · fld h.out, t, hpc
  · fld h.inn, t, hpc
  · fld h.rd, t, hpc
  · fld h.spin, t, hpc
  · fld h.st0, t, hpc
  · fldL h, t, hpc
  · fldI h, t, hpc
  · fld h.no_lists, t, hpc
  · fld h.rel_lists, t, hpc
  · fld h.p2_dfr, t, hpc
  · fld h.own, t, hpc

theorem getLast?_cons_ne (t : Tid) (l : List Tid) (h : l ≠ []) : (t :: l).getLast? = l.getLast? := by
  cases l with
  | nil => exact absurd rfl h
  | cons a l => simp [List.getLast?_cons_cons]

theorem step_cas (s : St) (t : Tid) (h : Inv s) (hpc : (s.ths t).pc = .cas) : Inv (aggStep s t) := by
  unfold aggStep; simp only [hpc]
  split
  · rename_i hhead
    have hout := h.out t (by simp [hpc, Pc.outside])
    have hst := h.st0 t (by simp [hpc, Pc.fresh])
    have hwl := h.wait_last t
    simp only [hpc, Pc.waiting] at hwl
    have hcnt : ∀ u, (t :: s.plist).count u = s.plist.count u + if t = u then 1 else 0 := by
      intro u; rw [List.count_cons]; simp
    constructor
    · intro a b ha hb; have hh := h.act_unique a b
      by_cases h1 : a = t <;> by_cases h2 : b = t
      · rw [h1, h2]
      · subst h1; simp at ha; split at ha <;> simp [Pc.active] at ha
      · subst h2; simp at hb; split at hb <;> simp [Pc.active] at hb
      · simp [h1] at ha; simp [h2] at hb; exact hh ha hb
    · intro hb u; have hh := h.busy0 hb u
      by_cases hu : u = t
      · subst hu; simp; split <;> simp [Pc.active]
      · simpa [hu] using hh
    · intro u hu'; have hh := h.setBusy0 u
      by_cases hu : u = t
      · subst hu; simp at hu'; split at hu' <;> simp at hu'
      · simp [hu] at hu'; exact hh hu'
    · intro u
      by_cases hnil : s.plist = []
      · have hres : (s.ths t).res = none := by rw [← hhead]; simp [headNode, hnil]
        have hnw : ∀ v, (s.ths v).pc.waiting = false := by
          intro v; have := h.wait_last v; rw [hnil] at this; simpa using this
        by_cases hu : u = t
        · subst hu; simp [hres, hnil, Pc.waiting]
        · have := hnw u
          simp [hu, hnil, this]; exact fun e => hu e.symm
      · have hres : (s.ths t).res ≠ none := by
          rw [← hhead]; cases hp : s.plist with
          | nil => exact absurd hp hnil
          | cons a l => simp [headNode, hp]
        simp only [getLast?_cons_ne t s.plist hnil]
        by_cases hu : u = t
        · subst hu; simp [hres, Pc.waiting]; simpa using hwl
        · simpa [hu] using h.wait_last u
    · intro u; have hh := h.sub u; rw [hcnt]
      by_cases hu : u = t
      · subst hu; simp; omega
      · have : ¬ t = u := fun e => hu e.symm
        simp [hu, this]; exact hh
    · fld h.grabc, t, hpc
    · fld h.setc, t, hpc
    · intro u; have hh := h.subret u
      by_cases hu : u = t
      · subst hu; simp; omega
      · simpa [hu] using hh
    · intro u; have hh := h.out u
      by_cases hu : u = t
      · subst hu; simp; split <;> simp [Pc.outside]
      · simpa [hu] using hh
    · intro u; have hh := h.inn u
      by_cases hu : u = t
      · subst hu; simp; omega
      · simpa [hu] using hh
    · intro u; have hh := h.rd u
      by_cases hu : u = t
      · subst hu; simp; split <;> simp
      · simpa [hu] using hh
    · intro u; have hh := h.spin u
      by_cases hu : u = t
      · subst hu; simp; intro _ hc; exact absurd hst hc
      · simpa [hu] using hh
    · intro u; have hh := h.st0 u
      by_cases hu : u = t
      · subst hu; simp; split <;> simp [Pc.fresh]
      · simpa [hu] using hh
    · intro a ha u; have hh := h.lists a
      by_cases h1 : a = t
      · subst h1; simp at ha; split at ha <;> simp [Pc.active] at ha
      · simp [h1] at ha ⊢; exact hh ha u
    · intro hi u; apply h.idle_unset; intro a; have := hi a
      by_cases h1 : a = t
      · subst h1; simp [hpc, Pc.active]
      · simpa [h1] using this
    · intro u; have hh := h.no_lists u
      by_cases hu : u = t
      · subst hu; simp; intro _; exact hh (by simp [hpc, Pc.handling])
      · simpa [hu] using hh
    · intro u; have hh := h.rel_lists u
      by_cases hu : u = t
      · subst hu; simp; split <;> simp
      · simpa [hu] using hh
    · intro u; have hh := h.p2_dfr u
      by_cases hu : u = t
      · subst hu; simp; split <;> simp [Pc.pass2]
      · simpa [hu] using hh
    · intro u; have hh := h.own u; rw [hcnt]
      by_cases hu : u = t
      · subst hu; simp; split <;> simp [Pc.handling]
      · have : ¬ t = u := fun e => hu e.symm
        simp [hu, this]; exact hh
  · apply h.pc_change t _ .stNext _ rfl
    pc_side hpc
theorem step_setBusy (s : St) (t : Tid) (h : Inv s) (hpc : (s.ths t).pc = .setBusy) : Inv (aggStep s t) := by
  unfold aggStep; simp only [hpc]
  have hb0 := h.setBusy0 t hpc
  have hna := h.busy0 hb0
  have hnl := h.no_lists t (by simp [hpc, Pc.handling])
  have hwt := (h.wait_last t).mp (by simp [hpc, Pc.waiting])
  constructor
  · intro a b ha hb
    by_cases h1 : a = t <;> by_cases h2 : b = t
    · rw [h1, h2]
    · simp [h2] at hb; rw [hna b] at hb; simp at hb
    · simp [h1] at ha; rw [hna a] at ha; simp at ha
    · simp [h1] at ha; rw [hna a] at ha; simp at ha
  · intro hb; simp at hb
  · intro u hu'
    by_cases hu : u = t
    · subst hu; simp at hu'
    · simp [hu] at hu'
      have := (h.wait_last u).mp (by simp [hu', Pc.waiting])
      rw [hwt] at this; exact absurd (Option.some.inj this).symm hu
  · fld h.wait_last, t, hpc
  · fld h.sub, t, hpc
  · fld h.grabc, t, hpc
  · fld h.setc, t, hpc
  · fld h.subret, t, hpc
  · fld h.out, t, hpc
  · fld h.inn, t, hpc
  · fld h.rd, t, hpc
  · fld h.spin, t, hpc
  · fld h.st0, t, hpc
  · intro a ha u
    by_cases h1 : a = t
    · subst h1
      have := h.idle_unset hna u
      simp [Pc.inflight, hnl.1, hnl.2, this]
    · simp [h1] at ha; rw [hna a] at ha; simp at ha
  · intro hi; have := hi t; simp [Pc.active] at this
  · fld h.no_lists, t, hpc
  · fld h.rel_lists, t, hpc
  · fld h.p2_dfr, t, hpc
  · fld h.own, t, hpc

theorem step_release (s : St) (t : Tid) (h : Inv s) (hpc : (s.ths t).pc = .release) : Inv (aggStep s t) := by
  unfold aggStep; simp only [hpc]
  have hact : (s.ths t).pc.active = true := by simp [hpc, Pc.active]
  have hrl := h.rel_lists t hpc
  have hl := h.lists t hact
  simp only [hpc, Pc.inflight, hrl.1, hrl.2] at hl
  have hown := h.own t (by simp [hpc, Pc.handling])
  have hna : ∀ u, u ≠ t → (s.ths u).pc.active = false := by
    intro u hu
    cases hc : (s.ths u).pc.active with
    | false => rfl
    | true => exact absurd (h.act_unique u t hc hact) hu
  have hun : ∀ u, s.unset.count u = 0 := by intro u; simpa using hl u
  constructor
  · intro a b ha hb
    by_cases h1 : a = t <;> by_cases h2 : b = t
    · rw [h1, h2]
    · subst h1; simp [Pc.active] at ha
    · subst h2; simp [Pc.active] at hb
    · simp [h1] at ha; rw [hna a h1] at ha; simp at ha
  · intro _ u
    by_cases hu : u = t
    · subst hu; simp [Pc.active]
    · simpa [hu] using hna u hu
  · intro u hu'
    by_cases hu : u = t
    · subst hu; simp at hu'
    · rfl
  · fld h.wait_last, t, hpc
  · fld h.sub, t, hpc
  · fld h.grabc, t, hpc
  · fld h.setc, t, hpc
  · fld h.subret, t, hpc
  · fld h.out, t, hpc
  · fld h.inn, t, hpc
  · intro u; have hh := h.rd u
    by_cases hu : u = t
    · subst hu; simp
      have := h.sub u; have := h.grabc u; have := hun u; omega
    · simpa [hu] using hh
  · fld h.spin, t, hpc
  · fld h.st0, t, hpc
  · intro a ha u
    by_cases h1 : a = t
    · subst h1; simp [Pc.active] at ha
    · simp [h1] at ha; rw [hna a h1] at ha; simp at ha
  · intro _ u; exact hun u
  · intro u; have hh := h.no_lists u
    by_cases hu : u = t
    · subst hu; simp; exact fun _ => hrl
    · simpa [hu] using hh
  · fld h.rel_lists, t, hpc
  · fld h.p2_dfr, t, hpc
  · fld h.own, t, hpc
/-- fields for a step of the active handler `t` that stays active: other threads are not active -/
theorem others_inactive {s : St} (h : Inv s) (t : Tid) (hact : (s.ths t).pc.active = true) :
    ∀ u, u ≠ t → (s.ths u).pc.active = false := by
  intro u hu
  cases hc : (s.ths u).pc.active with
  | false => rfl
  | true => exact absurd (h.act_unique u t hc hact) hu

theorem adv1_inv (s : St) (t : Tid) (h : Inv s) (hpc : (s.ths t).pc = .p1Adv) : Inv (adv1 s t) := by
  unfold adv1; dsimp only
  have hact : (s.ths t).pc.active = true := by simp [hpc, Pc.active]
  have hna := others_inactive h t hact
  have hl := h.lists t hact
  simp only [hpc, Pc.inflight] at hl
  split
  · apply h.pc_change t _ .p1Load _ rfl
    pc_side hpc
  · rename_i hrem
    have hrem : (s.ths t).rem = [] := by simpa using hrem
    split
    · rename_i hdfr
      constructor
      · fld2 h.act_unique, t
      · intro hb; fld (h.busy0 hb), t, hpc
      · fld h.setBusy0, t, hpc
      · fld h.wait_last, t, hpc
      · fld h.sub, t, hpc
      · fld h.grabc, t, hpc
      · fld h.setc, t, hpc
      · fld h.subret, t, hpc
      · fld h.out, t, hpc
      · fld h.inn, t, hpc
      · fld h.rd, t, hpc
      · fld h.spin, t, hpc
      · fld h.st0, t, hpc
      · intro a ha u
        by_cases h1 : a = t
        · subst h1; have := hl u; simp [Pc.inflight, hrem] at this ⊢; omega
        · simp [h1] at ha; rw [hna a h1] at ha; simp at ha
      · intro hi; have := hi t; simp [Pc.active] at this
      · fld h.no_lists, t, hpc
      · fld h.rel_lists, t, hpc
      · fld h.p2_dfr, t, hpc
      · fld h.own, t, hpc
    · rename_i hdfr
      have hdfr : (s.ths t).dfr = [] := by simpa using hdfr
      constructor
      · fld2 h.act_unique, t
      · intro hb; fld (h.busy0 hb), t, hpc
      · fld h.setBusy0, t, hpc
      · fld h.wait_last, t, hpc
      · fld h.sub, t, hpc
      · fld h.grabc, t, hpc
      · fld h.setc, t, hpc
      · fld h.subret, t, hpc
      · fld h.out, t, hpc
      · fld h.inn, t, hpc
      · fld h.rd, t, hpc
      · fld h.spin, t, hpc
      · fld h.st0, t, hpc
      · intro a ha u
        by_cases h1 : a = t
        · subst h1; have := hl u; simp [Pc.inflight, hrem, hdfr] at this ⊢; omega
        · simp [h1] at ha; rw [hna a h1] at ha; simp at ha
      · intro hi; have := hi t; simp [Pc.active] at this
      · fld h.no_lists, t, hpc
      · intro u; have hh := h.rel_lists u
        by_cases hu : u = t
        · subst hu; simp; exact ⟨hrem, hdfr⟩
        · simpa [hu] using hh
      · fld h.p2_dfr, t, hpc
      · fld h.own, t, hpc

theorem adv2_inv (s : St) (t : Tid) (h : Inv s) (hpc : (s.ths t).pc = .p2Adv) : Inv (adv2 s t) := by
  unfold adv2; dsimp only
  have hact : (s.ths t).pc.active = true := by simp [hpc, Pc.active]
  have hna := others_inactive h t hact
  have hl := h.lists t hact
  have hd := h.p2_dfr t (by simp [hpc, Pc.pass2])
  simp only [hpc, Pc.inflight] at hl
  split
  · apply h.pc_change t _ .p2Load _ rfl
    pc_side hpc
  · rename_i hrem
    have hrem : (s.ths t).rem = [] := by simpa using hrem
    constructor
    · fld2 h.act_unique, t
    · intro hb; fld (h.busy0 hb), t, hpc
    · fld h.setBusy0, t, hpc
    · fld h.wait_last, t, hpc
    · fld h.sub, t, hpc
    · fld h.grabc, t, hpc
    · fld h.setc, t, hpc
    · fld h.subret, t, hpc
    · fld h.out, t, hpc
    · fld h.inn, t, hpc
    · fld h.rd, t, hpc
    · fld h.spin, t, hpc
    · fld h.st0, t, hpc
    · intro a ha u
      by_cases h1 : a = t
      · subst h1; have := hl u; simp [Pc.inflight, hrem, hd] at this ⊢; omega
      · simp [h1] at ha; rw [hna a h1] at ha; simp at ha
    · intro hi; have := hi t; simp [Pc.active] at this
    · fld h.no_lists, t, hpc
    · intro u; have hh := h.rel_lists u
      by_cases hu : u = t
      · subst hu; simp; exact ⟨hrem, hd⟩
      · simpa [hu] using hh
    · fld h.p2_dfr, t, hpc
    · fld h.own, t, hpc
theorem step_grab (s : St) (t : Tid) (h : Inv s) (hpc : (s.ths t).pc = .grab) : Inv (aggStep s t) := by
  unfold aggStep; simp only [hpc]
  have hact : (s.ths t).pc.active = true := by simp [hpc, Pc.active]
  have hna := others_inactive h t hact
  have hnl := h.no_lists t (by simp [hpc, Pc.handling])
  have hl := h.lists t hact
  simp only [hpc, Pc.inflight, hnl.1, hnl.2] at hl
  have hun : ∀ u, s.unset.count u = 0 := by intro u; simpa using hl u
  have hwt := (h.wait_last t).mp (by simp [hpc, Pc.waiting])
  apply adv1_inv _ _ _ (by simp)
  constructor
  · intro a b ha hb
    by_cases h1 : a = t <;> by_cases h2 : b = t
    · rw [h1, h2]
    · simp [h2] at hb; rw [hna b h2] at hb; simp at hb
    · simp [h1] at ha; rw [hna a h1] at ha; simp at ha
    · simp [h1] at ha; rw [hna a h1] at ha; simp at ha
  · intro hb; have := h.busy0 hb t; rw [hact] at this; simp at this
  · intro u hu'
    by_cases hu : u = t
    · subst hu; simp at hu'
    · simp [hu] at hu'; exact h.setBusy0 u hu'
  · intro u
    by_cases hu : u = t
    · subst hu; simp [Pc.waiting]
    · simp [hu]
      cases hw : (s.ths u).pc.waiting with
      | false => rfl
      | true =>
        have := (h.wait_last u).mp hw
        rw [hwt] at this; exact absurd (Option.some.inj this).symm hu
  · intro u; have hh := h.sub u
    by_cases hu : u = t
    · subst hu; simp; omega
    · simp [hu]; omega
  · intro u; have hh := h.grabc u; have := hun u
    by_cases hu : u = t
    · subst hu; simp; omega
    · simp [hu]; omega
  · intro u; have hh := h.setc u
    by_cases hu : u = t
    · subst hu; simpa using hh
    · simpa [hu] using hh
  · intro u; have hh := h.subret u
    by_cases hu : u = t
    · subst hu; simpa using hh
    · simpa [hu] using hh
  · intro u; have hh := h.out u
    by_cases hu : u = t
    · subst hu; simp [Pc.outside]
    · simpa [hu] using hh
  · intro u; have hh := h.inn u
    by_cases hu : u = t
    · subst hu; simp [hpc, Pc.outside] at hh ⊢; exact hh
    · simpa [hu] using hh
  · intro u; have hh := h.rd u
    by_cases hu : u = t
    · subst hu; simp
    · simpa [hu] using hh
  · intro u; have hh := h.spin u
    by_cases hu : u = t
    · subst hu; simp
    · simpa [hu] using hh
  · intro u; have hh := h.st0 u
    by_cases hu : u = t
    · subst hu; simp [Pc.fresh]
    · simpa [hu] using hh
  · intro a ha u
    by_cases h1 : a = t
    · subst h1; simp [Pc.inflight]
    · simp [h1] at ha; rw [hna a h1] at ha; simp at ha
  · intro hi; have := hi t; simp [Pc.active] at this
  · intro u; have hh := h.no_lists u
    by_cases hu : u = t
    · subst hu; simp [Pc.handling]
    · simpa [hu] using hh
  · intro u; have hh := h.rel_lists u
    by_cases hu : u = t
    · subst hu; simp
    · simpa [hu] using hh
  · intro u; have hh := h.p2_dfr u
    by_cases hu : u = t
    · subst hu; simp [Pc.pass2]
    · simpa [hu] using hh
  · intro u _; simp
theorem handling_props (p : Pc) (h : p.handling = true) :
    p.active = true ∧ p.waiting = false ∧ p.outside = false ∧ p.fresh = false ∧ p ≠ .setBusy ∧ p ≠ .rdStatus ∧ p ≠ .spin := by
  cases p <;> simp_all [Pc.handling, Pc.active, Pc.waiting, Pc.outside, Pc.fresh]

/-- a step of the handler `t` (which already took its batch) that touches only its own locals and keeps the
account of unset operations -/
theorem Inv.handler_move {s : St} (h : Inv s) (t : Tid) (f : Th → Th) (s' : St)
    (hs : s'.ths = (s.modTh t f).ths) (hp : s'.plist = s.plist) (hb : s'.busy = s.busy) (hu : s'.unset = s.unset)
    (hh : (s.ths t).pc.handling = true)
    (hf : (f (s.ths t)).nSub = (s.ths t).nSub ∧ (f (s.ths t)).nGrab = (s.ths t).nGrab ∧ (f (s.ths t)).nSet = (s.ths t).nSet ∧
      (f (s.ths t)).nRet = (s.ths t).nRet ∧ (f (s.ths t)).status = (s.ths t).status)
    (hh' : (f (s.ths t)).pc.handling = true)
    (hrel : (f (s.ths t)).pc = .release → (f (s.ths t)).rem = [] ∧ (f (s.ths t)).dfr = [])
    (hp2 : (f (s.ths t)).pc.pass2 = true → (f (s.ths t)).dfr = [])
    (hcount : ∀ u, (f (s.ths t)).rem.count u + (f (s.ths t)).dfr.count u +
        (if (f (s.ths t)).pc.inflight = true ∧ (f (s.ths t)).tmp = u then 1 else 0) =
      (s.ths t).rem.count u + (s.ths t).dfr.count u + (if (s.ths t).pc.inflight = true ∧ (s.ths t).tmp = u then 1 else 0)) :
    Inv s' := by
  have e : ∀ u, s'.ths u = if u = t then f (s.ths u) else s.ths u := fun u => by rw [hs]; rfl
  have et : s'.ths t = f (s.ths t) := by rw [e]; simp
  have en : ∀ u, u ≠ t → s'.ths u = s.ths u := fun u hu' => by rw [e, if_neg hu']
  obtain ⟨f1, f2, f3, f4, f5⟩ := hf
  obtain ⟨a1, a2, a3, a4, a5, a6, a7⟩ := handling_props _ hh
  obtain ⟨b1, b2, b3, b4, b5, b6, b7⟩ := handling_props _ hh'
  have hna := others_inactive h t a1
  constructor
  · intro a b ha hb'
    by_cases h1 : a = t <;> by_cases h2 : b = t
    · rw [h1, h2]
    · rw [en b h2, hna b h2] at hb'; simp at hb'
    · rw [en a h1, hna a h1] at ha; simp at ha
    · rw [en a h1, hna a h1] at ha; simp at ha
  · intro hb0; rw [hb] at hb0; have := h.busy0 hb0 t; rw [a1] at this; simp at this
  · intro u hu'
    by_cases h1 : u = t
    · subst h1; rw [et] at hu'; exact absurd hu' b5
    · rw [en u h1] at hu'; rw [hb]; exact h.setBusy0 u hu'
  · intro u; rw [hp]
    by_cases h1 : u = t
    · subst h1; rw [et, b2, ← a2]; exact h.wait_last u
    · rw [en u h1]; exact h.wait_last u
  · intro u; rw [hp]
    by_cases h1 : u = t
    · subst h1; rw [et, f1, f2]; exact h.sub u
    · rw [en u h1]; exact h.sub u
  · intro u; rw [hu]
    by_cases h1 : u = t
    · subst h1; rw [et, f2, f3]; exact h.grabc u
    · rw [en u h1]; exact h.grabc u
  · intro u
    by_cases h1 : u = t
    · subst h1; rw [et, f3, f4]; exact h.setc u
    · rw [en u h1]; exact h.setc u
  · intro u
    by_cases h1 : u = t
    · subst h1; rw [et, f1, f4]; exact h.subret u
    · rw [en u h1]; exact h.subret u
  · intro u
    by_cases h1 : u = t
    · subst h1; rw [et, b3]; simp
    · rw [en u h1]; exact h.out u
  · intro u
    by_cases h1 : u = t
    · subst h1; rw [et, f1, f4]; intro _; exact h.inn u a3
    · rw [en u h1]; exact h.inn u
  · intro u
    by_cases h1 : u = t
    · subst h1; rw [et]; intro hc; exact absurd hc b6
    · rw [en u h1]; exact h.rd u
  · intro u
    by_cases h1 : u = t
    · subst h1; rw [et]; intro hc; exact absurd hc b7
    · rw [en u h1]; exact h.spin u
  · intro u
    by_cases h1 : u = t
    · subst h1; rw [et, b4]; simp
    · rw [en u h1]; exact h.st0 u
  · intro a ha u
    by_cases h1 : a = t
    · subst h1; rw [et, hu, hcount u]; exact h.lists a a1 u
    · rw [en a h1, hna a h1] at ha; simp at ha
  · intro hi; have := hi t; rw [et, b1] at this; simp at this
  · intro a
    by_cases h1 : a = t
    · subst h1; rw [et, hh']; simp
    · rw [en a h1]; exact h.no_lists a
  · intro a
    by_cases h1 : a = t
    · subst h1; rw [et]; exact hrel
    · rw [en a h1]; exact h.rel_lists a
  · intro a
    by_cases h1 : a = t
    · subst h1; rw [et]; exact hp2
    · rw [en a h1]; exact h.p2_dfr a
  · intro a; rw [hp]
    by_cases h1 : a = t
    · subst h1; intro _; exact h.own a hh
    · rw [en a h1]; exact h.own a
/-- writing `*elem` of any operation keeps the invariant and the handler's view of itself -/
theorem elem_frame {s : St} (h : Inv s) (u : Tid) (v : Option Elem) (t : Tid) :
    Inv (s.modTh u (fun x => { x with elem := v })) ∧
    ((s.modTh u (fun x => { x with elem := v })).ths t).pc = (s.ths t).pc ∧
    ((s.modTh u (fun x => { x with elem := v })).ths t).rem = (s.ths t).rem ∧
    ((s.modTh u (fun x => { x with elem := v })).ths t).dfr = (s.ths t).dfr ∧
    ((s.modTh u (fun x => { x with elem := v })).ths t).tmp = (s.ths t).tmp := by
  refine ⟨h.frame u _ (fun x => ⟨rfl, rfl, rfl, rfl, rfl, rfl, rfl, rfl, rfl⟩), ?_, ?_, ?_, ?_⟩ <;>
    (by_cases e : t = u <;> simp [e])

syntax "hm_side" : tactic
macro_rules
  | `(tactic| hm_side) => `(tactic|
      all_goals (first
        | rfl
        | exact ⟨rfl, rfl, rfl, rfl, rfl⟩
        | (simp_all [Pc.active, Pc.waiting, Pc.inflight, Pc.outside, Pc.handling, Pc.pass2, Pc.fresh, List.count_cons]; done)
        | (intro x; simp_all [Pc.active, Pc.waiting, Pc.inflight, Pc.outside, Pc.handling, Pc.pass2, Pc.fresh, List.count_cons]; try omega)))

/-- no operation (current or still to be called) is a pop whose element assignment throws -/
def NT (s : St) : Prop := ∀ u, popThrows (s.ths u).op = false ∧ ∀ p ∈ (s.ths u).todo, popThrows p.1 = false

theorem step_p1Load (s : St) (t : Tid) (h : Inv s) (hnt : NT s) (hpc : (s.ths t).pc = .p1Load) : Inv (aggStep s t) := by
  unfold aggStep; simp only [hpc]
  have hh : (s.ths t).pc.handling = true := by simp [hpc, Pc.handling]
  split
  · apply adv1_inv _ _ _ (by simp)
    apply h.handler_move t _ _ rfl rfl rfl rfl hh
    hm_side
  · rename_i u rest hrem
    split
    · rename_i thr hop
      split
      · split
        · rename_i hthr
          have := (hnt u).1
          rw [hop, hthr] at this; simp [popThrows] at this
        · obtain ⟨h0, e1, e2, e3, e4⟩ := elem_frame h u (some (back s.heap.data)) t
          apply h0.handler_move t _ _ rfl rfl rfl rfl (by rw [e1]; exact hh)
          hm_side
      · apply h.handler_move t _ _ rfl rfl rfl rfl hh
        hm_side
    · split
      · apply h.handler_move t _ _ rfl rfl rfl rfl hh
        hm_side
      · refine h.handler_move t (fun x => { x with tmp := u, rem := rest, pc := .p1SzLd, st := 1 }) _ rfl rfl rfl rfl hh ?_ ?_ ?_ ?_ ?_
        hm_side
theorem next_frame {s : St} (h : Inv s) (u : Tid) (v : Option (Tid × Nat)) (t : Tid) :
    Inv (s.modTh u (fun x => { x with next := v })) ∧
    ((s.modTh u (fun x => { x with next := v })).ths t).pc = (s.ths t).pc ∧
    ((s.modTh u (fun x => { x with next := v })).ths t).rem = (s.ths t).rem ∧
    ((s.modTh u (fun x => { x with next := v })).ths t).dfr = (s.ths t).dfr ∧
    ((s.modTh u (fun x => { x with next := v })).ths t).tmp = (s.ths t).tmp := by
  refine ⟨h.frame u _ (fun x => ⟨rfl, rfl, rfl, rfl, rfl, rfl, rfl, rfl, rfl⟩), ?_, ?_, ?_, ?_⟩ <;>
    (by_cases e : t = u <;> simp [e])

theorem step_p1Defer (s : St) (t : Tid) (h : Inv s) (hpc : (s.ths t).pc = .p1Defer) : Inv (aggStep s t) := by
  unfold aggStep; simp only [hpc]
  have hh : (s.ths t).pc.handling = true := by simp [hpc, Pc.handling]
  apply adv1_inv _ _ _ (by simp)
  obtain ⟨h0, e1, e2, e3, e4⟩ := next_frame h (s.ths t).tmp ((s.ths t).dfr.head?.map (nodeOf s)) t
  have e1' := e1.trans hpc
  refine h0.handler_move t _ _ rfl rfl rfl rfl (by rw [e1]; exact hh) ⟨rfl, rfl, rfl, rfl, rfl⟩ ?_ ?_ ?_ ?_
  · simp [Pc.handling]
  · simp
  · simp [Pc.pass2]
  · intro x
    simp only [e1', Pc.inflight, List.count_cons]
    simp
    omega

theorem step_p2Load (s : St) (t : Tid) (h : Inv s) (hnt : NT s) (hpc : (s.ths t).pc = .p2Load) : Inv (aggStep s t) := by
  unfold aggStep; simp only [hpc]
  have hh : (s.ths t).pc.handling = true := by simp [hpc, Pc.handling]
  have hd := h.p2_dfr t (by simp [hpc, Pc.pass2])
  split
  · apply adv2_inv _ _ _ (by simp)
    apply h.handler_move t _ _ rfl rfl rfl rfl hh
    hm_side
  · rename_i u rest hrem
    split
    · apply h.handler_move t _ _ rfl rfl rfl rfl hh
      hm_side
    · split
      · rename_i hthr
        rw [(hnt u).1] at hthr; simp at hthr
      · split
        · obtain ⟨h0, e1, e2, e3, e4⟩ := elem_frame h u (some (back s.heap.data)) t
          apply h0.handler_move t _ _ rfl rfl rfl rfl (by rw [e1]; exact hh)
          hm_side
        · obtain ⟨h0, e1, e2, e3, e4⟩ := elem_frame h u (some (get s.heap.data 0)) t
          apply h0.handler_move t _ _ rfl rfl rfl rfl (by rw [e1]; exact hh)
          hm_side
/-- the handler `t` stores the status of `tmp` -/
theorem Inv.status_store {s : St} (h : Inv s) (t : Tid) (stv : Nat) (pc' : Pc) (s' : St)
    (hs : s'.ths = ((s.modTh (s.ths t).tmp (fun x => { x with status := stv, nSet := x.nSet + 1 })).modTh t
      (fun x => { x with pc := pc' })).ths)
    (hp : s'.plist = s.plist) (hb : s'.busy = s.busy) (hu : s'.unset = s.unset.erase (s.ths t).tmp)
    (hh : (s.ths t).pc.handling = true) (hin : (s.ths t).pc.inflight = true)
    (hh' : pc'.handling = true) (hin' : pc'.inflight = false) (hrel : pc' ≠ .release)
    (hp2 : pc'.pass2 = (s.ths t).pc.pass2) : Inv s' := by
  obtain ⟨a1, a2, a3, a4, a5, a6, a7⟩ := handling_props _ hh
  obtain ⟨b1, b2, b3, b4, b5, b6, b7⟩ := handling_props _ hh'
  have hna := others_inactive h t a1
  have hl := h.lists t a1
  simp only [hin, true_and] at hl
  -- every thread: same except pc of t, status / nSet of v
  have e : ∀ x, (s'.ths x).pc = (if x = t then pc' else (s.ths x).pc) ∧ (s'.ths x).nSub = (s.ths x).nSub ∧
      (s'.ths x).nGrab = (s.ths x).nGrab ∧ (s'.ths x).nRet = (s.ths x).nRet ∧
      (s'.ths x).nSet = (s.ths x).nSet + (if x = (s.ths t).tmp then 1 else 0) ∧
      (s'.ths x).rem = (s.ths x).rem ∧ (s'.ths x).dfr = (s.ths x).dfr ∧ (s'.ths x).tmp = (s.ths x).tmp ∧
      (x ≠ (s.ths t).tmp → (s'.ths x).status = (s.ths x).status) := by
    intro x; rw [hs]; simp only [modTh_ths]
    by_cases h1 : x = t
    · subst h1
      by_cases h2 : x = (s.ths x).tmp
      · rw [if_pos rfl, if_pos h2, if_pos h2]; simp; exact fun hc => absurd h2 hc
      · rw [if_pos rfl, if_neg h2, if_neg h2]; simp
    · by_cases h2 : x = (s.ths t).tmp
      · rw [if_neg h1, if_pos h2, if_neg h1, if_pos h2]; simp; exact fun hc => absurd h2 hc
      · rw [if_neg h1, if_neg h2, if_neg h1, if_neg h2]; simp
  have hcv : ∀ x, s'.unset.count x + (if x = (s.ths t).tmp then 1 else 0) = s.unset.count x := by
    intro x; rw [hu, List.count_erase]
    have := hl x
    by_cases h2 : x = (s.ths t).tmp
    · subst h2; simp at this ⊢; omega
    · have : ¬ (s.ths t).tmp = x := fun e => h2 e.symm
      simp [h2, this]
  have hv : ∀ x, x = (s.ths t).tmp → (s.ths x).nGrab = (s.ths x).nSet + 1 ∧ (s.ths x).nSub = (s.ths x).nGrab ∧
      (s.ths x).nSub = (s.ths x).nRet + 1 ∧ (s.ths x).nRet = (s.ths x).nSet := by
    intro x hx
    have c := hcv x; rw [if_pos hx] at c
    have := h.grabc x; have := h.sub x; have := h.subret x; have := h.setc x
    omega
  constructor
  · intro a b ha hb'
    rw [(e a).1] at ha; rw [(e b).1] at hb'
    by_cases h1 : a = t <;> by_cases h2 : b = t
    · rw [h1, h2]
    · simp [h2, hna b h2] at hb'
    · simp [h1, hna a h1] at ha
    · simp [h1, hna a h1] at ha
  · intro hb0; rw [hb] at hb0; have := h.busy0 hb0 t; rw [a1] at this; simp at this
  · intro x hx; rw [(e x).1] at hx; rw [hb]
    by_cases h1 : x = t
    · simp [h1] at hx; exact absurd hx b5
    · simp [h1] at hx; exact h.setBusy0 x hx
  · intro x; rw [(e x).1, hp]
    by_cases h1 : x = t
    · subst h1; simp only [if_true, b2, ← a2]; exact h.wait_last x
    · simp only [h1, if_false]; exact h.wait_last x
  · intro x; rw [(e x).2.1, (e x).2.2.1, hp]; exact h.sub x
  · intro x; rw [(e x).2.2.1, (e x).2.2.2.2.1]; have := hcv x; have := h.grabc x; omega
  · intro x; rw [(e x).2.2.2.1, (e x).2.2.2.2.1]; have := h.setc x; omega
  · intro x; rw [(e x).2.1, (e x).2.2.2.1]; exact h.subret x
  · intro x; rw [(e x).1, (e x).2.1, (e x).2.2.2.1]
    by_cases h1 : x = t
    · simp [h1, b3]
    · simp only [h1, if_false]; exact h.out x
  · intro x; rw [(e x).1, (e x).2.1, (e x).2.2.2.1]
    by_cases h1 : x = t
    · subst h1; intro _; exact h.inn x a3
    · simp only [h1, if_false]; exact h.inn x
  · intro x; rw [(e x).1, (e x).2.1, (e x).2.2.2.2.1]
    by_cases h1 : x = t
    · simp [h1]; intro hc; exact absurd hc b6
    · simp only [h1, if_false]; intro hx
      have := h.rd x hx
      by_cases h2 : x = (s.ths t).tmp
      · have := hv x h2; omega
      · simp [h2]; exact this
  · intro x; rw [(e x).1, (e x).2.1, (e x).2.2.2.2.1]
    by_cases h1 : x = t
    · simp [h1]; intro hc; exact absurd hc b7
    · simp only [h1, if_false]; intro hx hst
      by_cases h2 : x = (s.ths t).tmp
      · have := hv x h2; simp [h2] at *; omega
      · rw [(e x).2.2.2.2.2.2.2.2 h2] at hst
        simp [h2]; exact h.spin x hx hst
  · intro x; rw [(e x).1]
    by_cases h1 : x = t
    · simp [h1, b4]
    · simp only [h1, if_false]; intro hx
      by_cases h2 : x = (s.ths t).tmp
      · have := hv x h2
        have ho : (s.ths x).pc.outside = true := by
          revert hx; cases (s.ths x).pc <;> simp [Pc.fresh, Pc.outside]
        have := h.out x ho; omega
      · rw [(e x).2.2.2.2.2.2.2.2 h2]; exact h.st0 x hx
  · intro a ha x
    rw [(e a).1] at ha
    by_cases h1 : a = t
    · subst h1
      rw [(e a).1, (e a).2.2.2.2.2.1, (e a).2.2.2.2.2.2.1, (e a).2.2.2.2.2.2.2.1]
      simp only [if_true, hin', Bool.false_eq_true, false_and, if_false]
      have := hcv x; have := hl x
      by_cases h2 : x = (s.ths a).tmp
      · subst h2; simp at *; omega
      · have : ¬ (s.ths a).tmp = x := fun e => h2 e.symm
        simp [h2, this] at *; omega
    · simp [h1, hna a h1] at ha
  · intro hi; have := hi t; rw [(e t).1] at this; simp [b1] at this
  · intro a; rw [(e a).1, (e a).2.2.2.2.2.1, (e a).2.2.2.2.2.2.1]
    by_cases h1 : a = t
    · simp [h1, hh']
    · simp only [h1, if_false]; exact h.no_lists a
  · intro a; rw [(e a).1, (e a).2.2.2.2.2.1, (e a).2.2.2.2.2.2.1]
    by_cases h1 : a = t
    · simp [h1]; intro hc; exact absurd hc hrel
    · simp only [h1, if_false]; exact h.rel_lists a
  · intro a; rw [(e a).1, (e a).2.2.2.2.2.2.1]
    by_cases h1 : a = t
    · subst h1; simp only [if_true, hp2]; exact h.p2_dfr a
    · simp only [h1, if_false]; exact h.p2_dfr a
  · intro a; rw [(e a).1, hp]
    by_cases h1 : a = t
    · subst h1; intro _; exact h.own a hh
    · simp only [h1, if_false]; exact h.own a
theorem step_p1Status (s : St) (t : Tid) (h : Inv s) (hpc : (s.ths t).pc = .p1Status) : Inv (aggStep s t) := by
  unfold aggStep; simp only [hpc]
  apply adv1_inv _ _ _ (by simp)
  apply Inv.status_store h t (s.ths t).st .p1Adv <;> first | rfl | simp [hpc, Pc.handling, Pc.inflight, Pc.pass2]

theorem step_p2Status (s : St) (t : Tid) (h : Inv s) (hpc : (s.ths t).pc = .p2Status) : Inv (aggStep s t) := by
  unfold aggStep; simp only [hpc]
  apply adv2_inv _ _ _ (by simp)
  apply Inv.status_store h t (s.ths t).st .p2Adv <;> first | rfl | simp [hpc, Pc.handling, Pc.inflight, Pc.pass2]

theorem step_p1Adv (s : St) (t : Tid) (h : Inv s) (hpc : (s.ths t).pc = .p1Adv) : Inv (aggStep s t) := by
  unfold aggStep; simp only [hpc]; exact adv1_inv s t h hpc

theorem step_p2Adv (s : St) (t : Tid) (h : Inv s) (hpc : (s.ths t).pc = .p2Adv) : Inv (aggStep s t) := by
  unfold aggStep; simp only [hpc]; exact adv2_inv s t h hpc

/-- when does `handle_operations` unwind with the exception of a pop's element assignment (as coded) -/
def unwinds (s : St) (t : Tid) : Bool :=
  match (s.ths t).pc, (s.ths t).rem with
  | .p1Load, u :: _ => popThrows (s.ths u).op && shortcut s.heap && !guarded
  | .p2Load, u :: _ => popThrows (s.ths u).op && !(isEmpty2 s.heap) && !guarded
  | _, _ => false

/-- the invariant is inductive (as long as no pop's element assignment throws) -/
theorem inv_step (s : St) (t : Tid) (h : Inv s) (hnt : NT s) : Inv (aggStep s t) := by
  cases hpc : (s.ths t).pc
  · exact step_idle s t h hpc
  · exact step_ldPend s t h hpc
  · exact step_stNext s t h hpc
  · exact step_cas s t h hpc
  · exact step_spin s t h hpc
  · exact step_waitBusy s t h hpc
  · exact step_setBusy s t h hpc
  · exact step_grab s t h hpc
  · exact step_p1Load s t h hnt hpc
  · exact step_p1Defer s t h hpc
  · exact step_p1SzLd s t h hpc
  · exact step_p1SzSt s t h hpc
  · exact step_p1Status s t h hpc
  · exact step_p2Load s t h hnt hpc
  · exact step_p2SzLd s t h hpc
  · exact step_p2SzSt s t h hpc
  · exact step_p2Status s t h hpc
  · exact step_release s t h hpc
  · exact step_rdStatus s t h hpc
  · exact step_p1Adv s t h hpc
  · exact step_p2Adv s t h hpc

theorem inv_init (todo : Tid → List (Op × Nat)) (h0 : Heap) : Inv (Agg todo h0).init := by
  constructor <;> simp [Agg, Pc.active, Pc.waiting, Pc.outside, Pc.handling, Pc.pass2, Pc.fresh]

theorem adv1_ths (s : St) (t u : Tid) :
    ((adv1 s t).ths u).nRet = (s.ths u).nRet ∧ ((adv1 s t).ths u).nSet = (s.ths u).nSet ∧
    ((adv1 s t).ths u).nGrab = (s.ths u).nGrab ∧ ((adv1 s t).ths u).nSub = (s.ths u).nSub := by
  unfold adv1; dsimp only
  split
  · by_cases h : u = t <;> simp [h]
  · split <;> (by_cases h : u = t <;> simp [h])

theorem adv2_ths (s : St) (t u : Tid) :
    ((adv2 s t).ths u).nRet = (s.ths u).nRet ∧ ((adv2 s t).ths u).nSet = (s.ths u).nSet ∧
    ((adv2 s t).ths u).nGrab = (s.ths u).nGrab ∧ ((adv2 s t).ths u).nSub = (s.ths u).nSub := by
  unfold adv2; dsimp only
  split <;> (by_cases h : u = t <;> simp [h])


syntax "cnt_cases " ident ", " ident ", " ident : tactic
macro_rules
  | `(tactic| cnt_cases $s, $t, $u) => `(tactic|
      (cases hpc : (St.ths $s $t).pc <;> unfold aggStep <;> simp only [hpc, unwind, reduceCtorEq, and_false, and_true, false_and, true_and, if_false, or_false, false_or, or_true, true_or, if_true, Nat.add_zero] <;> (repeat' split) <;>
       (try simp only [(adv1_ths _ _ _).1, (adv1_ths _ _ _).2.1, (adv1_ths _ _ _).2.2.1, (adv1_ths _ _ _).2.2.2,
          (adv2_ths _ _ _).1, (adv2_ths _ _ _).2.1, (adv2_ths _ _ _).2.2.1, (adv2_ths _ _ _).2.2.2])))

/-- `nRet` counts returns: it is incremented exactly by the owner's step out of `rdStatus` (and, as coded, when
the handler's call is left by the exception of a pop's element assignment, `unwinds`) -/
theorem nRet_step (s : St) (t u : Tid) :
    ((aggStep s t).ths u).nRet = (s.ths u).nRet +
      (if u = t ∧ ((s.ths t).pc = .rdStatus ∨ unwinds s t = true) then 1 else 0) := by
  unfold unwinds
  cnt_cases s, t, u
  all_goals (by_cases hu : u = t <;> (try subst hu) <;> simp [*, popThrows])
  all_goals (first | (split <;> rfl) | (split <;> simp_all [popThrows]) | simp_all [popThrows] | skip)

/-- `nSet` counts status stores: incremented exactly for `tmp` by the handler's `tmp->status.store` -/
theorem nSet_step (s : St) (t u : Tid) :
    ((aggStep s t).ths u).nSet = (s.ths u).nSet +
      (if ((s.ths t).pc = .p1Status ∨ (s.ths t).pc = .p2Status) ∧ u = (s.ths t).tmp then 1 else 0) := by
  cnt_cases s, t, u
  all_goals (simp only [modTh_ths])
  all_goals (repeat' split)
  all_goals (first | rfl | (subst_vars; first | rfl | contradiction | simp) | skip)

/-- `nGrab` counts batch membership: the exchange adds every operation of the pending list -/
theorem nGrab_step (s : St) (t u : Tid) :
    ((aggStep s t).ths u).nGrab = (s.ths u).nGrab + (if (s.ths t).pc = .grab then s.plist.count u else 0) := by
  cnt_cases s, t, u
  all_goals (by_cases hu : u = t <;> (try subst hu) <;> simp [*])
  all_goals (first | (split <;> rfl) | (split <;> simp_all) | simp_all | skip)

/-- `nSub` counts submissions: incremented exactly by the owner's successful CAS -/
theorem nSub_step (s : St) (t u : Tid) :
    ((aggStep s t).ths u).nSub = (s.ths u).nSub +
      (if u = t ∧ (s.ths t).pc = .cas ∧ headNode s = (s.ths t).res then 1 else 0) := by
  cnt_cases s, t, u
  all_goals (by_cases hu : u = t <;> (try subst hu) <;> simp [*])
  all_goals (first | (split <;> rfl) | (split <;> simp_all) | simp_all | skip)
theorem adv1_op (s : St) (t u : Tid) :
    ((adv1 s t).ths u).op = (s.ths u).op ∧ ((adv1 s t).ths u).todo = (s.ths u).todo := by
  unfold adv1; dsimp only
  split
  · by_cases h : u = t <;> simp [h]
  · split <;> (by_cases h : u = t <;> simp [h])

theorem adv2_op (s : St) (t u : Tid) :
    ((adv2 s t).ths u).op = (s.ths u).op ∧ ((adv2 s t).ths u).todo = (s.ths u).todo := by
  unfold adv2; dsimp only
  split <;> (by_cases h : u = t <;> simp [h])

/-- a step changes `op` / `todo` only by starting the next call -/
theorem op_todo_step (s : St) (t u : Tid) :
    (((aggStep s t).ths u).op = (s.ths u).op ∧ ((aggStep s t).ths u).todo = (s.ths u).todo) ∨
    (∃ c, (s.ths u).todo = (((aggStep s t).ths u).op, c) :: ((aggStep s t).ths u).todo) := by
  cases hpc : (s.ths t).pc <;> unfold aggStep <;> simp only [hpc, unwind] <;> (repeat' split) <;>
    (try simp only [(adv1_op _ _ _).1, (adv1_op _ _ _).2, (adv2_op _ _ _).1, (adv2_op _ _ _).2]) <;>
    (try simp only [modTh_ths])
  all_goals (repeat' split)
  all_goals (first | (left; exact ⟨trivial, trivial⟩) | (left; exact ⟨rfl, rfl⟩) | (subst_vars; first | (left; exact ⟨rfl, rfl⟩) | (right; exact ⟨_, by assumption⟩)) | skip)

theorem nt_step (s : St) (t : Tid) (h : NT s) : NT (aggStep s t) := by
  intro u
  rcases op_todo_step s t u with ⟨e1, e2⟩ | ⟨c, e⟩
  · rw [e1, e2]; exact h u
  · have := (h u).2
    rw [e] at this
    exact ⟨this (((aggStep s t).ths u).op, c) (List.mem_cons_self), fun p hp => this p (List.mem_cons_of_mem _ hp)⟩

theorem inv_run (todo : Tid → List (Op × Nat)) (h0 : Heap) (hnt : ∀ t, ∀ p ∈ todo t, popThrows p.1 = false)
    (sched : List Tid) : Inv ((Agg todo h0).run sched) ∧ NT ((Agg todo h0).run sched) := by
  have := Sys.inv_run (Agg todo h0) (fun s => Inv s ∧ NT s)
    ⟨inv_init todo h0, fun u => ⟨rfl, hnt u⟩⟩
    (fun s t hs => ⟨inv_step s t hs.1 hs.2, nt_step s t hs.2⟩) sched
  exact this
end TbbVerif.C13
