/-
C13 — heap lemmas: `heapify` / `reheap` of the model produce heaps and preserve the multiset.
-/
import TbbVerif.Model.C13

namespace TbbVerif.C13

/-! ### `get` / `set` -/

theorem get_set (d : List Elem) (i : Nat) (v : Elem) (j : Nat) :
    get (d.set i v) j = if j = i ∧ i < d.length then v else get d j := by
  unfold get
  rw [List.getElem?_set]
  by_cases h : i = j
  · subst h
    by_cases h2 : i < d.length <;> simp [h2]
  · have : ¬ j = i := fun e => h e.symm
    simp [h, this]

theorem get_set_eq (d : List Elem) (i : Nat) (v : Elem) (h : i < d.length) : get (d.set i v) i = v := by
  rw [get_set]; simp [h]

theorem get_set_ne (d : List Elem) (i : Nat) (v : Elem) (j : Nat) (h : j ≠ i) : get (d.set i v) j = get d j := by
  rw [get_set]; simp [h]

theorem get_set' (d : List Elem) (i : Nat) (v : Elem) (j : Nat) (h : i < d.length) :
    get (d.set i v) j = if j = i then v else get d j := by
  rw [get_set]; simp [h]

theorem get_of_lt (d : List Elem) (i : Nat) (h : i < d.length) : get d i = d[i] := by
  unfold get; simp [h]

theorem get_mem (d : List Elem) (i : Nat) (h : i < d.length) : get d i ∈ d := by
  rw [get_of_lt d i h]; exact List.getElem_mem h

theorem get_dropLast (d : List Elem) (i : Nat) (h : i < d.length - 1) : get d.dropLast i = get d i := by
  unfold get; rw [List.getElem?_dropLast]; simp [h]

theorem get_append_left (d e : List Elem) (i : Nat) (h : i < d.length) : get (d ++ e) i = get d i := by
  unfold get; rw [List.getElem?_append]; simp [h]

theorem get_take (d : List Elem) (m i : Nat) (h : i < m) : get (d.take m) i = get d i := by
  unfold get; rw [List.getElem?_take]; simp [h]

/-- counting through a `set` -/
theorem count_set' (d : List Elem) (i : Nat) (v a : Elem) (h : i < d.length) :
    (d.set i v).count a + (if get d i = a then 1 else 0) = d.count a + (if v = a then 1 else 0) := by
  rw [List.count_set h, get_of_lt d i h]
  have hpos : (d[i] == a) = true → 0 < d.count a := by
    intro e
    have : d[i] = a := by simpa using e
    exact List.count_pos_iff.mpr (this ▸ List.getElem_mem h)
  by_cases e : d[i] = a
  · have := hpos (by simpa using e)
    simp [e]; omega
  · simp [e]

/-- swapping through the hole: moving `d[j]` into position `i` and then writing `v` at `j`
is a permutation of writing `v` at `i`. -/
theorem set_set_perm (d : List Elem) (i j : Nat) (v : Elem) (hi : i < d.length) (hj : j < d.length) (hij : i ≠ j) :
    ((d.set i (get d j)).set j v).Perm (d.set i v) := by
  rw [List.perm_iff_count]
  intro a
  have h1 := count_set' (d.set i (get d j)) j v a (by simpa using hj)
  have h2 := count_set' d i (get d j) a hi
  have h3 := count_set' d i v a hi
  rw [get_set] at h1
  have : ¬ (j = i ∧ i < d.length) := fun e => hij e.1.symm
  simp only [this, if_false] at h1
  omega

theorem set_get_self (d : List Elem) (i : Nat) : d.set i (get d i) = d := by
  apply List.ext_getElem?
  intro j
  rw [List.getElem?_set]
  by_cases h : i = j
  · subst h
    by_cases h2 : i < d.length
    · simp [h2, get]
    · simp [h2]
  · simp [h]

/-! ### heap order -/

/-- `d[0, m)` is a binary max-heap w.r.t. `<`: no element is greater than its parent. -/
def IsHeap (d : List Elem) (m : Nat) : Prop := ∀ i, 0 < i → i < m → (get d i).key ≤ (get d ((i - 1) / 2)).key

theorem IsHeap.top_max {d : List Elem} {m : Nat} (h : IsHeap d m) : ∀ i, i < m → (get d i).key ≤ (get d 0).key := by
  intro i
  induction i using Nat.strongRecOn with
  | _ i ih =>
    intro hi
    rcases Nat.eq_zero_or_pos i with rfl | hpos
    · exact Nat.le_refl _
    · have h1 := h i hpos hi
      have h2 := ih ((i - 1) / 2) (by omega) (by omega)
      omega

theorem IsHeap.mono {d : List Elem} {m m' : Nat} (h : IsHeap d m) (hm : m' ≤ m) : IsHeap d m' :=
  fun i h0 h1 => h i h0 (by omega)

theorem IsHeap.congr {d d' : List Elem} {m : Nat} (h : IsHeap d m) (e : ∀ i, i < m → get d' i = get d i) :
    IsHeap d' m := by
  intro i h0 h1
  rw [e i h1, e ((i - 1) / 2) (by omega)]
  exact h i h0 h1

/-- every element of the heap part is `≤` the top -/
theorem IsHeap.mem_take_le {d : List Elem} {m : Nat} (h : IsHeap d m) (hm : m ≤ d.length) :
    ∀ y ∈ d.take m, y.key ≤ (get d 0).key := by
  intro y hy
  obtain ⟨i, hi, rfl⟩ := List.getElem_of_mem hy
  have hi' : i < m := by simpa [List.length_take, Nat.min_eq_left hm] using hi
  have := h.top_max i hi'
  rw [get_of_lt d i (by omega)] at this
  simpa [List.getElem_take] using this

/-! ### `siftUp` / `heapify` -/

theorem length_siftUp (d : List Elem) (x : Elem) (cur : Nat) : (siftUp d x cur).length = d.length := by
  fun_induction siftUp d x cur <;> simp_all

theorem siftUp_perm (d : List Elem) (x : Elem) (cur : Nat) (hc : cur < d.length) :
    (siftUp d x cur).Perm (d.set cur x) := by
  fun_induction siftUp d x cur with
  | case1 d => exact List.Perm.refl _
  | case2 d cur h0 hlt ih =>
    have hp : (cur - 1) / 2 < d.length := by omega
    refine (ih (by simpa using hp)).trans ?_
    exact set_set_perm d cur ((cur - 1) / 2) x hc hp (by omega)
  | case3 d cur h0 hlt => exact List.Perm.refl _

/-- the sift-up loop with the hole at `cur`: `d` is a heap on `[0, m]` except possibly for the edge into
`m` when the hole is still at `m`; the stale value in the hole is `≤ x`. -/
theorem siftUp_heap (x : Elem) (m : Nat) (d : List Elem) (cur : Nat) (hcm : cur ≤ m) (hm : m < d.length)
    (hedge : ∀ i, 0 < i → i ≤ m → (i = m → cur ≠ m) → (get d i).key ≤ (get d ((i - 1) / 2)).key)
    (hst : (get d cur).key ≤ x.key) : IsHeap (siftUp d x cur) (m + 1) := by
  fun_induction siftUp d x cur with
  | case1 d =>
    intro i h0 h1
    have e := hedge i h0 (by omega) (by omega)
    rw [get_set' d 0 x _ (by omega), get_set' d 0 x _ (by omega)]
    split
    · omega
    · split
      · rename_i hp; rw [hp] at e; omega
      · exact e
  | case2 d cur h0 hlt ih =>
    have hcl : cur < d.length := by omega
    apply ih (by omega) (by simpa using hm)
    · intro i hi0 him _
      rw [get_set' d cur _ _ hcl, get_set' d cur _ _ hcl]
      split
      · rename_i hic; subst hic
        split
        · omega
        · exact Nat.le_refl _
      · rename_i hic
        split
        · rename_i hpc
          have e1 := hedge i hi0 him (by omega)
          have e2 := hedge cur (by omega) (by omega) (by omega)
          rw [hpc] at e1; omega
        · exact hedge i hi0 him (by omega)
    · rw [get_set_ne d cur _ _ (by omega)]; omega
  | case3 d cur h0 hlt =>
    have hcl : cur < d.length := by omega
    intro i hi0 him
    rw [get_set' d cur _ _ hcl, get_set' d cur _ _ hcl]
    split
    · rename_i hic; subst hic
      split
      · omega
      · omega
    · rename_i hic
      split
      · rename_i hpc
        have e1 := hedge i hi0 (by omega) (by omega)
        rw [hpc] at e1; omega
      · exact hedge i hi0 (by omega) (by omega)

theorem length_heapifyN (n : Nat) (d : List Elem) (m : Nat) : (heapifyN n d m).length = d.length := by
  induction n generalizing d m with
  | zero => rfl
  | succ n ih => simp [heapifyN, ih, length_siftUp]

theorem heapifyN_perm (n : Nat) (d : List Elem) (m : Nat) (h : m + n ≤ d.length) : (heapifyN n d m).Perm d := by
  induction n generalizing d m with
  | zero => exact List.Perm.refl _
  | succ n ih =>
    simp only [heapifyN]
    refine (ih _ _ (by rw [length_siftUp]; omega)).trans ?_
    have := siftUp_perm d (get d m) m (by omega)
    rwa [set_get_self] at this

theorem heapifyN_heap (n : Nat) (d : List Elem) (m : Nat) (h : m + n ≤ d.length) (hh : IsHeap d m) :
    IsHeap (heapifyN n d m) (m + n) := by
  induction n generalizing d m with
  | zero => exact hh
  | succ n ih =>
    simp only [heapifyN]
    have := ih (siftUp d (get d m) m) (m + 1) (by rw [length_siftUp]; omega)
      (siftUp_heap (get d m) m d m (Nat.le_refl _) (by omega)
        (fun i h0 h1 h2 => hh i h0 (by omega)) (Nat.le_refl _))
    simpa [Nat.add_assoc, Nat.add_comm 1 n] using this

/-! ### `siftDown` / `reheap` -/

theorem length_siftDown (d : List Elem) (mark : Nat) (x : Elem) (cur : Nat) : (siftDown d mark x cur).1.length = d.length := by
  fun_induction siftDown d mark x cur <;> simp_all

theorem siftDown_cur_ge (d : List Elem) (mark : Nat) (x : Elem) (cur : Nat) : cur ≤ (siftDown d mark x cur).2 := by
  fun_induction siftDown d mark x cur with
  | case1 => exact Nat.le_refl _
  | case2 d cur h hlt ih => have := pickChild_ge d mark (2 * cur + 1); omega
  | case3 => exact Nat.le_refl _

theorem siftDown_cur_lt (d : List Elem) (mark : Nat) (x : Elem) (cur : Nat) (hc : cur < mark) : (siftDown d mark x cur).2 < mark := by
  fun_induction siftDown d mark x cur with
  | case1 => exact hc
  | case2 d cur h hlt ih => exact ih (pickChild_lt d mark _ h)
  | case3 => exact hc

/-- `siftDown` writes only below the final hole position. -/
theorem siftDown_get_ge (d : List Elem) (mark : Nat) (x : Elem) (cur : Nat) (j : Nat) (hj : (siftDown d mark x cur).2 ≤ j) :
    get (siftDown d mark x cur).1 j = get d j := by
  fun_induction siftDown d mark x cur with
  | case1 => rfl
  | case2 d cur h hlt ih =>
    rw [ih hj, get_set]
    have h1 := pickChild_ge d mark (2 * cur + 1)
    have h2 := siftDown_cur_ge (d.set cur (get d (pickChild d mark (2 * cur + 1)))) mark x (pickChild d mark (2 * cur + 1))
    have : ¬ (j = cur ∧ cur < d.length) := by omega
    simp [this]
  | case3 => rfl

theorem siftDown_perm (d : List Elem) (mark : Nat) (x : Elem) (cur : Nat) (hm : mark ≤ d.length) (hc : cur < d.length) :
    ((siftDown d mark x cur).1.set (siftDown d mark x cur).2 x).Perm (d.set cur x) := by
  fun_induction siftDown d mark x cur with
  | case1 => exact List.Perm.refl _
  | case2 d cur h hlt ih =>
    have h1 := pickChild_ge d mark (2 * cur + 1)
    have h2 := pickChild_lt d mark (2 * cur + 1) h
    refine (ih (by simpa using hm) (by simp; omega)).trans ?_
    exact set_set_perm d cur _ x hc (by omega) (by omega)
  | case3 => exact List.Perm.refl _

/-- children of `cur` inside the heap are `≤` the picked child -/
theorem le_pickChild (d : List Elem) (mark cur i : Nat) (hi : (i - 1) / 2 = cur) (hi0 : 0 < i) (him : i < mark) :
    (get d i).key ≤ (get d (pickChild d mark (2 * cur + 1))).key := by
  have : i = 2 * cur + 1 ∨ i = 2 * cur + 1 + 1 := by omega
  unfold pickChild
  split
  · rcases this with rfl | rfl <;> omega
  · rename_i hc2
    rcases this with rfl | rfl
    · omega
    · have : ¬ (get d (2 * cur + 1)).key < (get d (2 * cur + 1 + 1)).key := fun e => hc2 ⟨him, e⟩
      omega

theorem pickChild_parent (d : List Elem) (mark cur : Nat) : (pickChild d mark (2 * cur + 1) - 1) / 2 = cur := by
  unfold pickChild; split <;> omega

/-- the sift-down loop with the hole at `cur`: `d` (with the stale value in the hole) is a heap on
`[0, mark)` and `x` fits under the hole's parent; placing `x` at the final hole gives a heap. -/
theorem siftDown_heap (mark : Nat) (x : Elem) (d : List Elem) (cur : Nat) (hm : mark ≤ d.length)
    (hh : IsHeap d mark) (hx : cur = 0 ∨ x.key ≤ (get d cur).key) :
    IsHeap ((siftDown d mark x cur).1.set (siftDown d mark x cur).2 x) mark := by
  fun_induction siftDown d mark x cur with
  | case1 d cur h hlt =>
    -- break: the larger child is < x
    intro i hi0 him
    have hcl : cur < d.length := by omega
    rw [get_set' d cur _ _ hcl, get_set' d cur _ _ hcl]
    split
    · rename_i hic; subst hic
      split
      · omega
      · have := hh i hi0 him; omega
    · split
      · rename_i hpc
        have := le_pickChild d mark cur i hpc hi0 him
        omega
      · exact hh i hi0 him
  | case2 d cur h hlt ih =>
    have h1 := pickChild_ge d mark (2 * cur + 1)
    have h2 := pickChild_lt d mark (2 * cur + 1) h
    have hcl : cur < d.length := by omega
    apply ih (by simpa using hm)
    · -- d.set cur d[target] is still a heap
      intro i hi0 him
      rw [get_set' d cur _ _ hcl, get_set' d cur _ _ hcl]
      split
      · rename_i hic; subst hic
        split
        · omega
        · -- d[target] ≤ d[cur] ≤ d[parent cur]
          have e1 := hh (pickChild d mark (2 * i + 1)) (by omega) h2
          have e2 := hh i hi0 him
          rw [pickChild_parent] at e1; omega
      · split
        · rename_i hpc
          exact le_pickChild d mark cur i hpc hi0 him
        · exact hh i hi0 him
    · right
      rw [get_set_ne d cur _ _ (by omega)]; omega
  | case3 d cur h =>
    -- no child inside the heap
    intro i hi0 him
    by_cases hcl : cur < d.length
    · rw [get_set' d cur _ _ hcl, get_set' d cur _ _ hcl]
      split
      · rename_i hic; subst hic
        split
        · omega
        · have := hh i hi0 him; omega
      · split
        · omega
        · exact hh i hi0 him
    · show (get (d.set cur x) i).key ≤ (get (d.set cur x) ((i - 1) / 2)).key
      rw [List.set_eq_of_length_le (by omega)]
      exact hh i hi0 him

/-! ### list helpers -/

theorem ext_get {l1 l2 : List Elem} (hl : l1.length = l2.length) (h : ∀ i, i < l1.length → get l1 i = get l2 i) :
    l1 = l2 := by
  apply List.ext_getElem hl
  intro i h1 h2
  have := h i h1
  rwa [get_of_lt l1 i h1, get_of_lt l2 i h2] at this

theorem dropLast_append_back (l : List Elem) (h : 0 < l.length) : l.dropLast ++ [back l] = l := by
  apply ext_get (by simp; omega)
  intro i hi
  have hi' : i < l.length := by simpa [Nat.sub_add_cancel h] using hi
  by_cases hlt : i < l.length - 1
  · rw [get_append_left _ _ _ (by simpa using hlt), get_dropLast _ _ hlt]
  · have : i = l.length - 1 := by omega
    subst this
    unfold get back get
    rw [List.getElem?_append]
    simp

theorem get_drop (d : List Elem) (m i : Nat) : get (d.drop m) i = get d (m + i) := by
  unfold get; rw [List.getElem?_drop]

/-! ### `heapify` and `reheap` as a whole -/

theorem heapify_spec (h : Heap) (hm : h.mark ≤ h.data.length) (hh : IsHeap h.data h.mark) :
    IsHeap (heapify h).data (heapify h).mark ∧ (heapify h).mark = h.data.length ∧
    (heapify h).data.Perm h.data ∧ (heapify h).data.length = h.data.length := by
  unfold heapify
  by_cases h0 : h.mark = 0 ∧ 0 < h.data.length
  · simp only [h0, and_self, if_true]
    have hh1 : IsHeap h.data 1 := fun i a b => by omega
    have e : 1 + (h.data.length - 1) = h.data.length := by omega
    refine ⟨?_, by omega, heapifyN_perm _ _ _ (by omega), length_heapifyN _ _ _⟩
    have := heapifyN_heap (h.data.length - 1) h.data 1 (by omega) hh1
    rw [e] at this
    have e2 : max 1 h.data.length = h.data.length := by omega
    rw [e2]; exact this
  · simp only [h0, if_false]
    have e : h.mark + (h.data.length - h.mark) = h.data.length := by omega
    refine ⟨?_, by omega, heapifyN_perm _ _ _ (by omega), length_heapifyN _ _ _⟩
    have := heapifyN_heap (h.data.length - h.mark) h.data h.mark (by omega) hh
    rw [e] at this
    have e2 : max h.mark h.data.length = h.data.length := by omega
    rw [e2]; exact this

/-- the vector just before `data.pop_back()` in `reheap` -/
def reheapPre (h : Heap) : List Elem :=
  (siftDown h.data h.mark (back h.data) 0).1.set (siftDown h.data h.mark (back h.data) 0).2 (back h.data)

theorem siftDown_final_le (d : List Elem) (mark : Nat) (x : Elem) (hm : mark ≤ d.length) (hl : 0 < d.length) :
    (siftDown d mark x 0).2 ≤ d.length - 1 := by
  by_cases h0 : 0 < mark
  · have := siftDown_cur_lt d mark x 0 h0; omega
  · have : mark = 0 := by omega
    subst this
    rw [siftDown]; simp

theorem reheap_data (h : Heap) (hm : h.mark ≤ h.data.length) (hl : 0 < h.data.length) :
    (reheap h).data = (reheapPre h).dropLast := by
  unfold reheap reheapPre
  simp only
  split
  · rfl
  · rename_i hc
    have hc : (siftDown h.data h.mark (back h.data) 0).2 = (siftDown h.data h.mark (back h.data) 0).1.length - 1 := by
      simpa using hc
    congr 1
    have e := siftDown_get_ge h.data h.mark (back h.data) 0 _ (Nat.le_refl _)
    have : get h.data (siftDown h.data h.mark (back h.data) 0).2 = back h.data := by
      rw [hc, length_siftDown]; rfl
    rw [this] at e
    have e3 := set_get_self (siftDown h.data h.mark (back h.data) 0).1 (siftDown h.data h.mark (back h.data) 0).2
    rw [e] at e3
    exact e3.symm

theorem length_reheapPre (h : Heap) : (reheapPre h).length = h.data.length := by
  unfold reheapPre; simp [length_siftDown]

theorem back_reheapPre (h : Heap) (hm : h.mark ≤ h.data.length) (hl : 0 < h.data.length) :
    back (reheapPre h) = back h.data := by
  have hle := siftDown_final_le h.data h.mark (back h.data) hm hl
  unfold back
  rw [length_reheapPre]
  unfold reheapPre
  by_cases hc : (siftDown h.data h.mark (back h.data) 0).2 = h.data.length - 1
  · rw [hc, get_set_eq _ _ _ (by rw [length_siftDown]; omega)]; rfl
  · rw [get_set_ne _ _ _ _ (fun e => hc e.symm), siftDown_get_ge _ _ _ _ _ hle]

theorem reheapPre_perm (h : Heap) (hm : h.mark ≤ h.data.length) (hl : 0 < h.data.length) :
    (reheapPre h).Perm (h.data.set 0 (back h.data)) :=
  siftDown_perm h.data h.mark (back h.data) 0 hm hl

/-- `reheap` removes exactly one copy of the old `data[0]`. -/
theorem reheap_perm (h : Heap) (hm : h.mark ≤ h.data.length) (hl : 0 < h.data.length) :
    ((reheap h).data ++ [get h.data 0]).Perm h.data := by
  rw [reheap_data h hm hl]
  have e1 := dropLast_append_back (reheapPre h) (by rw [length_reheapPre]; exact hl)
  rw [back_reheapPre h hm hl] at e1
  have e2 := reheapPre_perm h hm hl
  rw [List.perm_iff_count] at *
  intro a
  have c1 := congrArg (List.count a) e1
  have c2 := e2 a
  have c3 := count_set' h.data 0 (back h.data) a hl
  simp only [List.count_append, List.count_cons, List.count_nil] at *
  have b1 : ((back h.data == a) = true) ↔ back h.data = a := by simp
  have b2 : ((get h.data 0 == a) = true) ↔ get h.data 0 = a := by simp
  by_cases x1 : back h.data = a <;> by_cases x2 : get h.data 0 = a <;> simp_all <;> omega

theorem length_reheap (h : Heap) (hm : h.mark ≤ h.data.length) (hl : 0 < h.data.length) :
    (reheap h).data.length = h.data.length - 1 := by
  rw [reheap_data h hm hl]; simp [length_reheapPre]

theorem mark_reheap (h : Heap) (hm : h.mark ≤ h.data.length) (hl : 0 < h.data.length) :
    (reheap h).mark = min h.mark (h.data.length - 1) := by
  have := length_reheap h hm hl
  have e : (reheap h).mark = if h.mark > (reheap h).data.length then (reheap h).data.length else h.mark := rfl
  rw [e, this]; split <;> omega

theorem reheap_isHeap (h : Heap) (hm : h.mark ≤ h.data.length) (hl : 0 < h.data.length)
    (hh : IsHeap h.data h.mark) : IsHeap (reheap h).data (reheap h).mark := by
  have h1 : IsHeap (reheapPre h) h.mark := siftDown_heap h.mark (back h.data) h.data 0 hm hh (Or.inl rfl)
  rw [mark_reheap h hm hl, reheap_data h hm hl]
  refine (h1.mono (Nat.min_le_left _ _)).congr ?_
  intro i hi
  exact get_dropLast _ _ (by rw [length_reheapPre]; omega)

/-- the not-yet-heapified tail is untouched by `reheap` (only its last element leaves) -/
theorem reheap_get_tail (h : Heap) (hm : h.mark ≤ h.data.length) (h1 : 1 ≤ h.mark)
    (j : Nat) (hj : h.mark ≤ j) (hj2 : j < h.data.length - 1) : get (reheap h).data j = get h.data j := by
  have hl : 0 < h.data.length := by omega
  rw [reheap_data h hm hl, get_dropLast _ _ (by rw [length_reheapPre]; exact hj2)]
  have hc := siftDown_cur_lt h.data h.mark (back h.data) 0 (by omega)
  unfold reheapPre
  rw [get_set_ne _ _ _ _ (by omega), siftDown_get_ge _ _ _ _ _ (by omega)]

/-! ### the guards regenerated from the source mean what the proofs use

Each lemma is proved by abstracting the atoms of the generated Boolean expression and deciding the
propositional equivalence, so a re-translation that is syntactically different but equivalent (swapped
conjuncts, `!(a >= b)` for `a < b` after normalisation by the translator, …) still checks, while a guard with
different atoms (`<=` for `<`, swapped comparator arguments, `data[mark]` for `data[0]`) does not. -/

theorem ltE_iff (a b : Elem) : ltE a b = true ↔ a.key < b.key := by simp [ltE]

theorem shortcut_iff (h : Heap) :
    shortcut h = true ↔ h.mark < h.data.length ∧ (get h.data 0).key < (back h.data).key := by
  unfold shortcut Generated.C13.shortcutP1
  rw [← ltE_iff]
  generalize ltE (get h.data 0) (back h.data) = q
  by_cases p : h.mark < h.data.length <;> cases q <;> simp [p]

theorem shortcut2_eq (h : Heap) : shortcut2 h = shortcut h := by
  unfold shortcut2 shortcut Generated.C13.shortcutP2 Generated.C13.shortcutP1
  generalize ltE (get h.data 0) (back h.data) = q
  by_cases p : h.mark < h.data.length <;> cases q <;> simp [p]

theorem isEmpty2_iff (h : Heap) : isEmpty2 h = true ↔ h.data.length = 0 := by
  unfold isEmpty2 Generated.C13.emptyP2
  by_cases p : h.data.length = 0 <;> simp [p]

theorem needHeapify_iff (h : Heap) : needHeapify h = true ↔ h.mark < h.data.length := by
  unfold needHeapify Generated.C13.finishGuard
  by_cases p : h.mark < h.data.length <;> simp [p]

end TbbVerif.C13
