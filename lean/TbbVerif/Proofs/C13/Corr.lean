/-
C13 — generic facts about well-formed traces and legal linearizations, used by the corollaries.
-/
import TbbVerif.Proofs.C13.Main

namespace TbbVerif.C13

/-! ### completed operations of the history = linearized operations that have returned -/

/-- the operation a thread is inside of, by phase -/
def openOf (ph : Tid → Phase) : Tid → Option Op := fun u =>
  match ph u with
  | .out => none
  | .invoked op => some op
  | .linearized op _ => some op

/-- the linearized-but-not-returned operation of thread `t`, by phase -/
def pendOf (ph : Tid → Phase) (t : Tid) : List (Tid × Op × Res) :=
  match ph t with
  | .linearized op r => [(t, op, r)]
  | _ => []

def ofT (t : Tid) (l : List (Tid × Op × Res)) : List (Tid × Op × Res) := l.filter (fun p => p.1 == t)

theorem marksT_cons_ev (h : HEv) (T : List TEv) : marksT (.ev h :: T) = marksT T := by simp [marksT]
theorem marksT_cons_lin (t : Tid) (op : Op) (r : Res) (T : List TEv) :
    marksT (.lin t op r :: T) = (t, op, r) :: marksT T := by simp [marksT]
theorem proj_cons_ev (h : HEv) (T : List TEv) : proj (.ev h :: T) = h :: proj T := by simp [proj]
theorem proj_cons_lin (t : Tid) (op : Op) (r : Res) (T : List TEv) : proj (.lin t op r :: T) = proj T := by simp [proj]

/-- per thread: the linearization points of `t` are its completed operations (with the results they returned),
followed by the one linearized operation that has not returned yet, if any -/
theorem wf_completed (T : List TEv) : ∀ (ph ph' : Tid → Phase), wfRun ph T = some ph' → ∀ t,
    pendOf ph t ++ ofT t (marksT T) = ofT t (completedFrom (openOf ph) (proj T)) ++ pendOf ph' t := by
  induction T with
  | nil =>
    intro ph ph' h t
    simp only [wfRun, Option.some.injEq] at h
    subst h
    simp [marksT, proj, completedFrom, ofT]
  | cons e T ih =>
    intro ph ph' h t
    simp only [wfRun] at h
    cases hs : wfStep ph e with
    | none => rw [hs] at h; simp at h
    | some ph1 =>
      rw [hs] at h; simp only [Option.bind_some] at h
      have IH := ih ph1 ph' h t
      cases e with
      | ev he =>
        cases he with
        | inv u op =>
          simp only [wfStep] at hs
          cases hu : ph u with
          | out =>
            rw [hu] at hs
            simp only [Option.some.injEq] at hs
            subst hs
            rw [marksT_cons_ev, proj_cons_ev]
            simp only [completedFrom]
            have e1 : openOf (updPh ph u (.invoked op)) = updOpen (openOf ph) u (some op) := by
              funext w; unfold openOf updPh updOpen; by_cases hw : w = u <;> simp [hw]
            have e2 : pendOf (updPh ph u (.invoked op)) t = pendOf ph t := by
              unfold pendOf updPh; by_cases hw : t = u
              · subst hw; simp [hu]
              · simp [hw]
            rw [← e1, ← e2]; exact IH
          | invoked _ => rw [hu] at hs; simp at hs
          | linearized _ _ => rw [hu] at hs; simp at hs
        | resp u r =>
          simp only [wfStep] at hs
          cases hu : ph u with
          | out => rw [hu] at hs; simp at hs
          | invoked _ => rw [hu] at hs; simp at hs
          | linearized op r' =>
            rw [hu] at hs
            by_cases hr : r' = r
            · subst hr
              simp only [if_true, Option.some.injEq] at hs
              subst hs
              rw [marksT_cons_ev, proj_cons_ev]
              have ho : openOf ph u = some op := by simp [openOf, hu]
              simp only [completedFrom, ho]
              have e1 : openOf (updPh ph u .out) = updOpen (openOf ph) u none := by
                funext w; unfold openOf updPh updOpen; by_cases hw : w = u <;> simp [hw]
              rw [← e1]
              by_cases hw : t = u
              · subst hw
                have e2 : pendOf ph t = [(t, op, r')] := by simp [pendOf, hu]
                have e3 : pendOf (updPh ph t .out) t = [] := by simp [pendOf, updPh]
                rw [e3] at IH
                simp only [List.nil_append] at IH
                rw [e2, IH]
                simp [ofT]
              · have e2 : pendOf (updPh ph u .out) t = pendOf ph t := by
                  unfold pendOf updPh; simp [hw]
                rw [e2] at IH
                rw [IH]
                have : ((u, op, r') : Tid × Op × Res).1 ≠ t := fun e => hw e.symm
                simp [ofT, List.filter_cons, Ne.symm hw]
            · simp [hr] at hs
      | lin u op r =>
        simp only [wfStep] at hs
        cases hu : ph u with
        | out => rw [hu] at hs; simp at hs
        | linearized _ _ => rw [hu] at hs; simp at hs
        | invoked op' =>
          rw [hu] at hs
          by_cases ho : op' = op
          · subst ho
            simp only [if_true, Option.some.injEq] at hs
            subst hs
            rw [marksT_cons_lin, proj_cons_lin]
            have e1 : openOf (updPh ph u (.linearized op' r)) = openOf ph := by
              funext w; unfold openOf updPh; by_cases hw : w = u
              · subst hw; simp [hu]
              · simp [hw]
            rw [e1] at IH
            by_cases hw : t = u
            · subst hw
              have e2 : pendOf ph t = [] := by simp [pendOf, hu]
              have e3 : pendOf (updPh ph t (.linearized op' r)) t = [(t, op', r)] := by simp [pendOf, updPh]
              rw [e3] at IH
              rw [e2, ← IH]
              simp [ofT]
            · have e2 : pendOf (updPh ph u (.linearized op' r)) t = pendOf ph t := by
                unfold pendOf updPh; simp [hw]
              rw [e2] at IH
              rw [← IH]
              simp [ofT, List.filter_cons, Ne.symm hw]
          · simp [ho] at hs

/-- two lists whose per-thread projections agree are permutations of each other -/
theorem perm_of_ofT (A B : List (Tid × Op × Res)) (h : ∀ t, ofT t A = ofT t B) : A.Perm B := by
  rw [List.perm_iff_count]
  intro a
  have e1 : ∀ L : List (Tid × Op × Res), L.count a = (ofT a.1 L).count a := by
    intro L
    unfold ofT
    rw [List.count_filter]
    simp
  rw [e1 A, e1 B, h]

/-- values returned by the successful pops among identified operations -/
def poppedT (l : List (Tid × Op × Res)) : List Elem := popped (l.map (·.2))
/-- values inserted by the successful pushes among identified operations -/
def pushedT (l : List (Tid × Op × Res)) : List Elem := pushed (l.map (·.2))

theorem marksT_marks (T : List TEv) : (marksT T).map (·.2) = marks T := by
  induction T with
  | nil => rfl
  | cons e T ih => cases e <;> simp [marksT, marks] at ih ⊢ <;> exact ih

/-! ### legal linearizations -/

theorem specRun_split (l1 : List (Op × Res)) (e : Op × Res) (l2 : List (Op × Res)) (s sf : List Elem)
    (h : specRun s (l1 ++ e :: l2) = some sf) :
    ∃ s1 s2, specRun s l1 = some s1 ∧ specStep s1 e = some s2 ∧ specRun s2 l2 = some sf := by
  rw [specRun_append] at h
  cases h1 : specRun s l1 with
  | none => rw [h1] at h; simp at h
  | some s1 =>
    rw [h1] at h
    simp only [Option.bind_some, specRun] at h
    cases h2 : specStep s1 e with
    | none => rw [h2] at h; simp at h
    | some s2 =>
      rw [h2] at h
      exact ⟨s1, s2, rfl, h2, by simpa using h⟩

/-- a failed push is an identity step of the specification: dropping all of them changes nothing -/
def isFailedPush (e : Op × Res) : Bool :=
  match e with
  | (.push _ true, .pushFailed) => true
  | _ => false

theorem specRun_drop_failed (l : List (Op × Res)) : ∀ s : List Elem,
    specRun s (l.filter (fun e => !isFailedPush e)) = specRun s l := by
  induction l with
  | nil => intro s; rfl
  | cons e es ih =>
    intro s
    by_cases hf : isFailedPush e = true
    · have : specStep s e = some s := by
        obtain ⟨op, r⟩ := e
        cases op with
        | pop thr => simp [isFailedPush] at hf
        | push x thr =>
          cases thr <;> cases r <;> simp [isFailedPush] at hf
          rfl
      simp [List.filter_cons, hf, specRun, this, ih]
    · simp only [List.filter_cons, hf, Bool.not_eq_true] at *
      simp only [Bool.not_false, if_true, specRun]
      cases specStep s e with
      | none => rfl
      | some s1 => simp [ih]

end TbbVerif.C13
