/-
C13 — the batch handler `handle_operations` refines the sequential priority-queue spec:
simulation lemmas for the two passes, linearization order, conservation.
-/
import TbbVerif.Proofs.C13.Heap

namespace TbbVerif.C13

/-- well-formed queue state: `mark ≤ size` and `data[0,mark)` is a heap -/
def WF (h : Heap) : Prop := h.mark ≤ h.data.length ∧ IsHeap h.data h.mark

/-- Simulation relation: the spec's contents are the heap part; the elements of the tail are pushes that
are not linearized yet (their callers are still waiting inside this batch or the pushes are linearized at
the end of the batch). -/
def Sim (h : Heap) (s : List Elem) : Prop := WF h ∧ s.Perm (heapPart h)

theorem specRun_append (s : List Elem) (a b : List (Op × Res)) :
    specRun s (a ++ b) = (specRun s a).bind (fun s' => specRun s' b) := by
  induction a generalizing s with
  | nil => simp [specRun]
  | cons e es ih =>
    simp only [List.cons_append, specRun]
    cases specStep s e with
    | none => simp
    | some s' => simp [ih]

theorem specRun_pushes (s l : List Elem) : specRun s (pushes l) = some (l.reverse ++ s) := by
  induction l generalizing s with
  | nil => simp [pushes, specRun]
  | cons x xs ih =>
    simp only [pushes, List.map_cons, specRun, pushEv, specStep, Option.bind_some] at *
    rw [ih]; simp

theorem specStep_push (s : List Elem) (x : Elem) : specStep s (pushEv x) = some (x :: s) := rfl

theorem specStep_pop (s : List Elem) (v : Elem) (h1 : v ∈ s) (h2 : ∀ y ∈ s, y.key ≤ v.key) :
    specStep s (.pop false, .popOk v) = some (s.erase v) := by
  simp only [specStep]; rw [if_pos ⟨h1, h2⟩]

theorem perm_nil_eq {s : List Elem} (h : s.Perm []) : s = [] := List.Perm.eq_nil h

/-! ### single transitions of `handle_operations` -/

theorem wf_push (h : Heap) (x : Elem) (w : WF h) :
    WF { h with data := h.data ++ [x] } ∧ heapPart { h with data := h.data ++ [x] } = heapPart h ∧
    pend { h with data := h.data ++ [x] } = pend h ++ [x] := by
  obtain ⟨hm, hh⟩ := w
  refine ⟨⟨by simp; omega, hh.congr (fun i hi => get_append_left _ _ _ (by omega))⟩, ?_, ?_⟩
  · simp [heapPart, List.take_append_of_le_length hm]
  · simp [pend, List.drop_append_of_le_length hm]

theorem back_drop (d : List Elem) (m : Nat) (h : m < d.length) : back (d.drop m) = back d := by
  unfold back
  rw [get_drop, List.length_drop]
  congr 1; omega

/-- the pop-takes-`data.back()` shortcut -/
theorem wf_shortcut (h : Heap) (w : WF h) (hs : shortcut h = true) :
    WF { h with data := h.data.dropLast } ∧ heapPart { h with data := h.data.dropLast } = heapPart h ∧
    pend h = pend { h with data := h.data.dropLast } ++ [back h.data] ∧
    (∀ y ∈ heapPart h, y.key ≤ (back h.data).key) := by
  obtain ⟨hm, hh⟩ := w
  rw [shortcut_iff] at hs
  obtain ⟨hlt, hcmp⟩ := hs
  refine ⟨⟨by simp; omega, hh.congr (fun i hi => get_dropLast _ _ (by omega))⟩, ?_, ?_, ?_⟩
  · simp only [heapPart, List.dropLast_eq_take, List.take_take]
    congr 1; omega
  · simp only [pend]
    have e := dropLast_append_back (h.data.drop h.mark) (by simp; omega)
    rw [back_drop _ _ hlt] at e
    rw [← e]
    congr 1
    rw [List.dropLast_eq_take, List.dropLast_eq_take, List.length_drop, List.take_drop]
    congr 1
    congr 1; omega
  · intro y hy
    have := hh.mem_take_le hm y hy
    omega

/-- heap pop when everything is heapified (`mark = size`) -/
theorem wf_top_full (h : Heap) (w : WF h) (hl : 0 < h.data.length) (hfull : h.mark = h.data.length) :
    WF (reheap h) ∧ pend (reheap h) = [] ∧ pend h = [] ∧ get h.data 0 ∈ heapPart h ∧
    (∀ y ∈ heapPart h, y.key ≤ (get h.data 0).key) ∧ (heapPart (reheap h) ++ [get h.data 0]).Perm (heapPart h) := by
  obtain ⟨hm, hh⟩ := w
  have hmark := mark_reheap h hm hl
  have hlen := length_reheap h hm hl
  have hp : heapPart h = h.data := by simp [heapPart, hfull]
  have hp' : heapPart (reheap h) = (reheap h).data := by
    simp only [heapPart]; apply List.take_of_length_le; omega
  refine ⟨⟨by omega, reheap_isHeap h hm hl hh⟩, ?_, ?_, ?_, hh.mem_take_le hm, ?_⟩
  · simp only [pend]; apply List.drop_of_length_le; omega
  · simp only [pend]; apply List.drop_of_length_le; omega
  · rw [hp]; exact get_mem _ _ hl
  · rw [hp, hp']; exact reheap_perm h hm hl

/-- heap pop with a non-empty tail: `reheap` moves `data.back()` into the heap -/
theorem wf_top_tail (h : Heap) (w : WF h) (h1 : 1 ≤ h.mark) (hlt : h.mark < h.data.length) :
    WF (reheap h) ∧ pend h = pend (reheap h) ++ [back h.data] ∧ get h.data 0 ∈ heapPart h ∧
    (∀ y ∈ heapPart h, y.key ≤ (get h.data 0).key) ∧
    (heapPart (reheap h) ++ [get h.data 0]).Perm (heapPart h ++ [back h.data]) := by
  obtain ⟨hm, hh⟩ := w
  have hl : 0 < h.data.length := by omega
  have hmark : (reheap h).mark = h.mark := by rw [mark_reheap h hm hl]; omega
  have hlen := length_reheap h hm hl
  have htail : pend (reheap h) = (pend h).dropLast := by
    simp only [pend, hmark]
    apply ext_get (by simp [hlen]; omega)
    intro i hi
    have hi' : i < h.data.length - 1 - h.mark := by simpa [hlen] using hi
    rw [get_drop, reheap_get_tail h hm h1 _ (by omega) (by omega), get_dropLast _ _ (by simp only [pend, List.length_drop]; omega), get_drop]
  have hpend : pend h = pend (reheap h) ++ [back h.data] := by
    rw [htail]
    have e := dropLast_append_back (pend h) (by simp [pend]; omega)
    simp only [pend] at e ⊢
    rw [back_drop _ _ hlt] at e
    exact e.symm
  refine ⟨⟨by omega, reheap_isHeap h hm hl hh⟩, hpend, ?_, hh.mem_take_le hm, ?_⟩
  · have : get (h.data.take h.mark) 0 = get h.data 0 := get_take _ _ _ (by omega)
    rw [← this]
    exact get_mem (h.data.take h.mark) 0 (by rw [List.length_take]; omega)
  · have e1 := reheap_perm h hm hl
    have e2 : heapPart (reheap h) ++ pend (reheap h) = (reheap h).data := List.take_append_drop _ _
    have e3 : heapPart h ++ pend h = h.data := List.take_append_drop _ _
    rw [List.perm_iff_count] at *
    intro a
    have c1 := e1 a
    have c2 := congrArg (List.count a) e2
    have c3 := congrArg (List.count a) e3
    rw [hpend] at c3
    simp only [List.count_append, List.count_cons, List.count_nil] at *
    omega

/-- `data[0]` taken while nothing is heapified (`mark = 0`) -/
theorem wf_top_nomark (h : Heap) (w : WF h) (h0 : h.mark = 0) (hl : 0 < h.data.length) :
    WF (reheap h) ∧ (reheap h).mark = 0 ∧ (pend (reheap h) ++ [get h.data 0]).Perm (pend h) := by
  obtain ⟨hm, hh⟩ := w
  have hmark : (reheap h).mark = 0 := by rw [mark_reheap h hm hl]; omega
  refine ⟨⟨by omega, reheap_isHeap h hm hl hh⟩, hmark, ?_⟩
  simp only [pend, hmark, h0, List.drop_zero]
  exact reheap_perm h hm hl

/-! ### the two passes -/

/-- Simulation of the second pass (`lin2`): the deferred pops are linearized where they execute; a tail element is
linearized (its push) right before the pop that takes it, or right after the heap pop whose `reheap`
moves it into the heap. -/
theorem pass2_lin (dfr : List (Nat × Bool)) : (∀ p ∈ dfr, p.2 = false) → ∀ (h : Heap) (s : List Elem), Sim h s →
    ∃ sf, specRun s (lin2 h dfr) = some sf ∧ Sim (pass2 h dfr).heap sf ∧ (pass2 h dfr).abort = none ∧
      (lin2 h dfr ++ pushes (pend (pass2 h dfr).heap)).Perm (pushes (pend h) ++ strip (pass2 h dfr).log) := by
  induction dfr with
  | nil =>
    intro _ h s hs
    exact ⟨s, rfl, hs, rfl, by simp [pass2, lin2, strip]⟩
  | cons p rest ih0 =>
    intro hnt h s hs
    have ih := ih0 (fun q hq => hnt q (List.mem_cons_of_mem _ hq))
    obtain ⟨i, thr⟩ := p
    have hthr : thr = false := hnt (i, thr) (by simp)
    subst hthr
    obtain ⟨w, hperm⟩ := hs
    by_cases hemp' : isEmpty2 h = true
    · -- data empty: FAILED
      have hemp : h.data.length = 0 := (isEmpty2_iff h).mp hemp'
      simp only [pass2, lin2, hemp', if_true]
      have hs0 : s = [] := by
        apply perm_nil_eq
        have : heapPart h = [] := by
          simp only [heapPart]; apply List.take_eq_nil_iff.mpr; right
          exact List.eq_nil_of_length_eq_zero hemp
        rwa [this] at hperm
      obtain ⟨sf, hrun, hsim, hab, hp⟩ := ih h s ⟨w, hperm⟩
      refine ⟨sf, ?_, hsim, hab, ?_⟩
      · simp only [specRun, specStep, hs0, if_true, Option.bind_some]; rw [← hs0]; exact hrun
      · simp only [strip, List.map_cons] at *
        rw [List.perm_iff_count] at *
        intro a; have := hp a
        simp only [List.count_append, List.count_cons, List.cons_append] at *; omega
    · have hne : ¬ h.data.length = 0 := fun e => hemp' ((isEmpty2_iff h).mpr e)
      have hl : 0 < h.data.length := by omega
      by_cases hsc' : shortcut2 h = true
      · -- shortcut: take data.back()
        have hsc : shortcut h = true := by rw [← shortcut2_eq]; exact hsc'
        simp only [pass2, lin2, hemp', hsc', if_true, if_false, Bool.false_eq_true]
        obtain ⟨w', hpart, hpend, hmax⟩ := wf_shortcut h w hsc
        obtain ⟨sf, hrun, hsim, hab, hp⟩ := ih _ s ⟨w', by rw [hpart]; exact hperm⟩
        refine ⟨sf, ?_, hsim, hab, ?_⟩
        · simp only [specRun, specStep_push, Option.bind_some]
          rw [specStep_pop _ _ (by simp) (by
            intro y hy
            rcases List.mem_cons.mp hy with rfl | hy
            · exact Nat.le_refl _
            · exact hmax y (hperm.mem_iff.mp hy))]
          simpa using hrun
        · rw [hpend]
          simp only [strip, List.map_cons, pushes, List.map_append, List.map_nil] at *
          rw [List.perm_iff_count] at *
          intro a; have := hp a
          simp only [List.count_append, List.count_cons, List.count_nil, List.cons_append] at *; omega
      · -- take the top, reheap
        by_cases hfull : h.mark = h.data.length
        · simp only [pass2, lin2, hemp', hsc', hfull, if_true, if_false, Bool.false_eq_true]
          obtain ⟨w', hpe', hpe, hmem, hmax, hpp⟩ := wf_top_full h w hl hfull
          have hmem' : get h.data 0 ∈ s := hperm.mem_iff.mpr hmem
          have hs' : (s.erase (get h.data 0)).Perm (heapPart (reheap h)) := by
            have : (get h.data 0 :: heapPart (reheap h)).Perm s :=
              (List.perm_append_comm (l₁ := [get h.data 0])).trans (hpp.trans hperm.symm)
            exact ((List.cons_perm_iff_perm_erase.mp this).2).symm
          obtain ⟨sf, hrun, hsim, hab, hp⟩ := ih _ _ ⟨w', hs'⟩
          refine ⟨sf, ?_, hsim, hab, ?_⟩
          · simp only [specRun]
            rw [specStep_pop _ _ hmem' (fun y hy => hmax y (hperm.mem_iff.mp hy))]
            simpa using hrun
          · rw [hpe] at *
            rw [hpe'] at hp
            simp only [strip, List.map_cons, pushes, List.map_nil, List.nil_append] at *
            rw [List.perm_iff_count] at *
            intro a; have := hp a
            simp only [List.count_append, List.count_cons, List.cons_append] at *; omega
        · by_cases h0 : h.mark = 0
          · -- nothing heapified: data[0] is a just-pushed element
            simp only [pass2, lin2, hemp', hsc', hfull, h0, if_true, if_false, Bool.false_eq_true]
            have hfull' : ¬ 0 = h.data.length := by omega
            simp only [hfull', if_false]
            obtain ⟨w', hm', hpp⟩ := wf_top_nomark h w h0 hl
            have hs0 : s = [] := by
              apply perm_nil_eq
              have : heapPart h = [] := by simp [heapPart, h0]
              rwa [this] at hperm
            have hs' : ([] : List Elem).Perm (heapPart (reheap h)) := by simp [heapPart, hm']
            obtain ⟨sf, hrun, hsim, hab, hp⟩ := ih _ _ ⟨w', hs'⟩
            refine ⟨sf, ?_, hsim, hab, ?_⟩
            · subst hs0
              simp only [specRun, specStep_push, Option.bind_some]
              rw [specStep_pop _ _ (by simp) (by simp)]
              simpa using hrun
            · have hpp' := hpp.map pushEv
              simp only [strip, List.map_cons, pushes, List.map_append, List.map_nil] at *
              rw [List.perm_iff_count] at *
              intro a; have := hp a; have := hpp' a
              simp only [List.count_append, List.count_cons, List.count_nil, List.cons_append] at *; omega
          · simp only [pass2, lin2, hemp', hsc', hfull, h0, if_true, if_false, Bool.false_eq_true]
            obtain ⟨w', hpe, hmem, hmax, hpp⟩ := wf_top_tail h w (by omega) (by have := w.1; omega)
            have hmem' : get h.data 0 ∈ s := hperm.mem_iff.mpr hmem
            have hs' : (back h.data :: s.erase (get h.data 0)).Perm (heapPart (reheap h)) := by
              have hc := List.count_erase_self (a := get h.data 0) (l := s)
              have hpos := List.count_pos_iff.mpr hmem'
              rw [List.perm_iff_count] at *
              intro a
              have e1 := hpp a; have e2 := hperm a
              by_cases hva : get h.data 0 = a
              · subst hva
                simp only [List.count_append, List.count_cons, List.count_nil] at *
                simp only [beq_self_eq_true, if_true] at *
                omega
              · have hne : (get h.data 0 == a) = false := by simpa using hva
                have := List.count_erase_of_ne (l := s) (Ne.symm hva)
                simp only [List.count_append, List.count_cons, List.count_nil, hne] at *
                simp only [Bool.false_eq_true, if_false] at *
                omega
            obtain ⟨sf, hrun, hsim, hab, hp⟩ := ih _ _ ⟨w', hs'⟩
            refine ⟨sf, ?_, hsim, hab, ?_⟩
            · simp only [specRun]
              rw [specStep_pop _ _ hmem' (fun y hy => hmax y (hperm.mem_iff.mp hy))]
              simp only [Option.bind_some, specStep_push]
              exact hrun
            · rw [hpe]
              simp only [strip, List.map_cons, pushes, List.map_append, List.map_nil] at *
              rw [List.perm_iff_count] at *
              intro a; have := hp a
              simp only [List.count_append, List.count_cons, List.count_nil, List.cons_append] at *; omega

/-- Simulation of the first pass (`lin1`): pushes only extend the tail (they are linearized later), a pop that takes
`data.back()` is linearized right after the push of that element, deferred pops are not linearized yet. -/
theorem pass1_lin (ops : List (Op × Nat)) : (∀ p ∈ ops, p.1 ≠ .pop true) → ∀ (h : Heap) (s : List Elem), Sim h s →
    ∃ sf, specRun s (lin1 h ops) = some sf ∧ Sim (pass1 h ops).heap sf ∧ (pass1 h ops).abort = none ∧
      (∀ p ∈ (pass1 h ops).dfr, p.2 = false) ∧
      (lin1 h ops ++ pushes (pend (pass1 h ops).heap)).Perm (pushes (pend h) ++ strip (pass1 h ops).log) := by
  induction ops with
  | nil =>
    intro _ h s hs
    exact ⟨s, rfl, hs, rfl, by simp [pass1], by simp [pass1, lin1, strip]⟩
  | cons o rest ih0 =>
    intro hnt h s hs
    have ih := ih0 (fun q hq => hnt q (List.mem_cons_of_mem _ hq))
    obtain ⟨w, hperm⟩ := hs
    obtain ⟨op, i⟩ := o
    cases op with
    | pop thr =>
      have hthr : thr = false := by
        cases thr with
        | false => rfl
        | true => exact absurd rfl (hnt (.pop true, i) (by simp))
      subst hthr
      by_cases hsc : shortcut h = true
      · simp only [pass1, lin1, hsc, Bool.false_eq_true, if_false, if_true]
        obtain ⟨w', hpart, hpend, hmax⟩ := wf_shortcut h w hsc
        obtain ⟨sf, hrun, hsim, hab, hdf, hp⟩ := ih _ s ⟨w', by rw [hpart]; exact hperm⟩
        refine ⟨sf, ?_, hsim, hab, hdf, ?_⟩
        · simp only [specRun, specStep_push, Option.bind_some]
          rw [specStep_pop _ _ (by simp) (by
            intro y hy
            rcases List.mem_cons.mp hy with rfl | hy
            · exact Nat.le_refl _
            · exact hmax y (hperm.mem_iff.mp hy))]
          simpa using hrun
        · rw [hpend]
          simp only [strip, List.map_cons, pushes, List.map_append, List.map_nil] at *
          rw [List.perm_iff_count] at *
          intro a; have := hp a
          simp only [List.count_append, List.count_cons, List.count_nil, List.cons_append] at *; omega
      · simp only [pass1, lin1, hsc, Bool.false_eq_true, if_false]
        obtain ⟨sf, hrun, hsim, hab, hdf, hp⟩ := ih h s ⟨w, hperm⟩
        refine ⟨sf, hrun, hsim, hab, ?_, hp⟩
        intro q hq
        rcases List.mem_append.mp hq with hq | hq
        · exact hdf q hq
        · simp at hq; rw [hq]
    | push x thr =>
      cases thr with
      | true =>
        simp only [pass1, lin1, if_true]
        obtain ⟨sf, hrun, hsim, hab, hdf, hp⟩ := ih h s ⟨w, hperm⟩
        refine ⟨sf, ?_, hsim, hab, hdf, ?_⟩
        · simpa [specRun, specStep] using hrun
        · simp only [strip, List.map_cons] at *
          rw [List.perm_iff_count] at *
          intro a; have := hp a
          simp only [List.count_append, List.count_cons, List.cons_append] at *; omega
      | false =>
        simp only [pass1, lin1, Bool.false_eq_true, if_false]
        obtain ⟨w', hpart, hpend⟩ := wf_push h x w
        obtain ⟨sf, hrun, hsim, hab, hdf, hp⟩ := ih _ s ⟨w', by rw [hpart]; exact hperm⟩
        refine ⟨sf, hrun, hsim, hab, hdf, ?_⟩
        rw [hpend] at hp
        simp only [strip, List.map_cons, pushes, List.map_append, List.map_nil] at *
        rw [List.perm_iff_count] at *
        intro a; have := hp a
        simp only [List.count_append, List.count_cons, List.count_nil, List.cons_append, pushEv] at *; omega

end TbbVerif.C13
