/-
C13 — every strict weak order on finitely many elements is `key a < key b` for a rank function `key`
(so the model's `Elem.key` covers an arbitrary comparator that satisfies the Compare requirements).
-/
namespace TbbVerif.C13

/-- the requirements on `Compare` (strict weak ordering): irreflexive, transitive, and incomparability is
transitive — equivalently (`neg`) `a < c → a < b ∨ b < c` -/
structure StrictWeak {α : Type} (lt : α → α → Bool) : Prop where
  irrefl : ∀ a, lt a a = false
  trans : ∀ a b c, lt a b = true → lt b c = true → lt a c = true
  neg : ∀ a b c, lt a c = true → lt a b = true ∨ lt b c = true

/-- rank of `a` among `xs`: how many members of `xs` are strictly below `a` -/
def rank {α : Type} (lt : α → α → Bool) (xs : List α) (a : α) : Nat := (xs.filter (fun c => lt c a)).length

theorem filter_length_le_of_imp {α : Type} (p q : α → Bool) (xs : List α) (h : ∀ c ∈ xs, p c = true → q c = true) :
    (xs.filter p).length ≤ (xs.filter q).length := by
  induction xs with
  | nil => simp
  | cons x xs ih =>
    have ih' := ih (fun c hc => h c (List.mem_cons_of_mem _ hc))
    simp only [List.filter_cons]
    cases hp : p x with
    | false =>
      simp only [Bool.false_eq_true, if_false]
      split
      · simp only [List.length_cons]; omega
      · exact ih'
    | true =>
      have := h x (List.mem_cons_self) hp
      simp only [this, if_true, List.length_cons]
      omega

theorem filter_length_lt_of_imp {α : Type} (p q : α → Bool) (xs : List α) (h : ∀ c ∈ xs, p c = true → q c = true)
    (a : α) (ha : a ∈ xs) (hpa : p a = false) (hqa : q a = true) :
    (xs.filter p).length < (xs.filter q).length := by
  induction xs with
  | nil => simp at ha
  | cons x xs ih =>
    have hle := filter_length_le_of_imp p q xs (fun c hc => h c (List.mem_cons_of_mem _ hc))
    simp only [List.filter_cons]
    rcases List.mem_cons.mp ha with rfl | ha'
    · simp only [hpa, hqa, Bool.false_eq_true, if_false, if_true, List.length_cons]
      omega
    · have ih' := ih (fun c hc => h c (List.mem_cons_of_mem _ hc)) ha'
      cases hp : p x with
      | false =>
        simp only [Bool.false_eq_true, if_false]
        split
        · simp only [List.length_cons]; omega
        · exact ih'
      | true =>
        have := h x (List.mem_cons_self) hp
        simp only [this, if_true, List.length_cons]
        omega

/-- **Every strict weak order on a finite carrier is the order of a rank function.**  For the elements `xs` that
occur in a run, `lt a b ↔ rank a < rank b`. -/
theorem swo_has_rank {α : Type} (lt : α → α → Bool) (h : StrictWeak lt) (xs : List α) :
    ∃ key : α → Nat, ∀ a ∈ xs, ∀ b ∈ xs, (lt a b = true ↔ key a < key b) := by
  refine ⟨rank lt xs, ?_⟩
  intro a ha b _
  constructor
  · intro hab
    apply filter_length_lt_of_imp _ _ xs (fun c _ hc => h.trans c a b hc hab) a ha (h.irrefl a) hab
  · intro hr
    cases hab : lt a b with
    | true => rfl
    | false =>
      exfalso
      have : rank lt xs b ≤ rank lt xs a := by
        apply filter_length_le_of_imp
        intro c _ hcb
        rcases h.neg c a b hcb with h1 | h1
        · exact h1
        · rw [hab] at h1; cases h1
      omega

end TbbVerif.C13
