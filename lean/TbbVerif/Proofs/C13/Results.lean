/-
C13 — which result `handleIdx` records for an operation, in terms of the state in which the loop reaches it.
-/
import TbbVerif.Proofs.C13.Ref

namespace TbbVerif.C13

theorem nodup_append_not_mem {l1 l2 : List Nat} (h : (l1 ++ l2).Nodup) {u : Nat} (hu : u ∈ l2) : u ∉ l1 := by
  intro hc
  exact (List.nodup_append.mp h).2.2 u hc u hu rfl

theorem nodup_mid_not_mem {l1 l2 : List Nat} {u : Nat} (h : (l1 ++ u :: l2).Nodup) : u ∉ l1 :=
  nodup_append_not_mem h (List.mem_cons_self)

/-- all deferred pops of a batch without throwing pop are non-throwing -/
theorem pass1_dfr_false (ops : List (Op × Nat)) (hnt : NoPopThrow ops) (h : Heap) (w : WF h)
    (s : List Elem) (hs : s.Perm (heapPart h)) : ∀ p ∈ (pass1 h ops).dfr, p.2 = false := by
  obtain ⟨_, _, _, _, hdf, _⟩ := pass1_lin ops hnt h s ⟨w, hs⟩
  exact hdf

theorem handleIdx_log_eq (hB : Heap) (B : List (Op × Nat)) (c : Ctx hB B) :
    (handleIdx hB B).log = (pass1 hB B).log ++ (pass2 (pass1 hB B).heap (pass1 hB B).dfr).log ∧
    (handleIdx hB B).abort = none ∧ (pass1 hB B).abort = none ∧
    (pass2 (pass1 hB B).heap (pass1 hB B).dfr).abort = none ∧ (∀ p ∈ (pass1 hB B).dfr, p.2 = false) := by
  have e := handleIdx_eq hB B c.nt c.wf c.full
  obtain ⟨hp, _⟩ := heapPart_full hB c.full
  obtain ⟨s1, _, hsim1, hab1, hdf1, _⟩ := pass1_lin B c.nt hB hB.data ⟨c.wf, by rw [hp]⟩
  obtain ⟨s2, _, _, hab2, _⟩ := pass2_lin (pass1 hB B).dfr hdf1 (pass1 hB B).heap s1 hsim1
  rw [e]
  exact ⟨rfl, rfl, hab1, hab2, hdf1⟩

/-- the indices in the log of the first pass and in `pop_list` are those of the batch, without repetition -/
theorem pass1_idx_nodup (hB : Heap) (B : List (Op × Nat)) (c : Ctx hB B) :
    ((pass1 hB B).log.map (·.idx) ++ (pass1 hB B).dfr.map (·.1)).Nodup :=
  (pass1_idx B c.nt hB).nodup_iff.mpr c.nd

theorem noPopThrow_prefix {pre rest : List (Op × Nat)} (h : NoPopThrow (pre ++ rest)) : NoPopThrow pre :=
  fun p hp => h p (List.mem_append_left _ hp)

/-- an operation served in the first pass: its result is what the loop records when it reaches it -/
theorem result_pass1 (hB : Heap) (B : List (Op × Nat)) (c : Ctx hB B) (pre rest : List (Op × Nat)) (op : Op) (u : Nat)
    (hBe : B = pre ++ (op, u) :: rest) (hab : (pass1 hB pre).abort = none)
    (e : Ev) (he : (pass1 (pass1 hB pre).heap ((op, u) :: rest)).log.head? = some e) (hidx : e.idx = u) :
    resultOf (handleIdx hB B).log u = some e.res := by
  obtain ⟨hlog, _, _, _, _⟩ := handleIdx_log_eq hB B c
  obtain ⟨l, hl⟩ := List.head?_eq_some_iff.mp he
  obtain ⟨_, e2, _, _⟩ := pass1_append pre ((op, u) :: rest) hB hab
  rw [hlog, hBe, e2, hl]
  have hnd : (pre.map (·.2) ++ u :: rest.map (·.2)).Nodup := by
    have := c.nd; rw [hBe] at this; simpa using this
  have hu : u ∉ pre.map (·.2) := nodup_mid_not_mem hnd
  have hu' : u ∉ (pass1 hB pre).log.map (·.idx) := by
    intro hc
    have hp := pass1_idx pre (noPopThrow_prefix (by rw [← hBe]; exact c.nt)) hB
    exact hu (hp.mem_iff.mp (List.mem_append_left _ hc))
  rw [List.append_assoc, resultOf_append_right _ _ _ hu', List.cons_append, ← hidx]
  exact resultOf_cons_self _ _

/-- an operation served in the second pass -/
theorem result_pass2 (hB : Heap) (B : List (Op × Nat)) (c : Ctx hB B) (pre2 rest2 : List (Nat × Bool)) (u : Nat)
    (hd : (pass1 hB B).dfr = pre2 ++ (u, false) :: rest2)
    (hab : (pass2 (pass1 hB B).heap pre2).abort = none)
    (e : Ev) (he : (pass2 (pass2 (pass1 hB B).heap pre2).heap ((u, false) :: rest2)).log.head? = some e)
    (hidx : e.idx = u) :
    resultOf (handleIdx hB B).log u = some e.res := by
  obtain ⟨hlog, _, _, _, hdf⟩ := handleIdx_log_eq hB B c
  obtain ⟨l, hl⟩ := List.head?_eq_some_iff.mp he
  obtain ⟨_, e2, _⟩ := pass2_append pre2 ((u, false) :: rest2) (pass1 hB B).heap hab
  have hnd := pass1_idx_nodup hB B c
  rw [hd] at hnd
  have hu1 : u ∉ (pass1 hB B).log.map (·.idx) := by
    apply nodup_append_not_mem hnd
    simp
  have hnd2 : (pre2.map (·.1) ++ u :: rest2.map (·.1)).Nodup := by
    have := (List.nodup_append.mp hnd).2.1; simpa using this
  have hu2 : u ∉ (pass2 (pass1 hB B).heap pre2).log.map (·.idx) := by
    rw [pass2_idx pre2 (fun p hp => hdf p (by rw [hd]; exact List.mem_append_left _ hp))]
    exact nodup_mid_not_mem hnd2
  rw [hlog, resultOf_append_right _ _ _ hu1, hd, e2, resultOf_append_right _ _ _ hu2, hl, ← hidx]
  exact resultOf_cons_self _ _

/-- every operation of the batch has a result in the log -/
theorem result_some (hB : Heap) (B : List (Op × Nat)) (c : Ctx hB B) (u : Nat) (hu : u ∈ B.map (·.2)) :
    ∃ e ∈ (handleIdx hB B).log, e.idx = u ∧ resultOf (handleIdx hB B).log u = some e.res := by
  have hp := (handleIdx_log hB B c.nt c.wf c.full).1
  have hp2 : ((handleIdx hB B).log.map (·.idx)).Perm (B.map (·.2)) := by
    have := hp.map (fun p : Op × Nat => p.2)
    simpa [tag, Function.comp_def] using this
  have hin : u ∈ (handleIdx hB B).log.map (·.idx) := hp2.mem_iff.mpr hu
  obtain ⟨e, he, hidx⟩ := List.mem_map.mp hin
  refine ⟨e, he, hidx, ?_⟩
  rw [← hidx]
  exact resultOf_mem_nodup _ (hp2.nodup_iff.mpr c.nd) e he

theorem log_nodup (hB : Heap) (B : List (Op × Nat)) (c : Ctx hB B) :
    ((handleIdx hB B).log.map (·.idx)).Nodup ∧ ((handleIdx hB B).log.map tag).Perm B := by
  have hp := (handleIdx_log hB B c.nt c.wf c.full).1
  have hp2 : ((handleIdx hB B).log.map (·.idx)).Perm (B.map (·.2)) := by
    have := hp.map (fun p : Op × Nat => p.2)
    simpa [tag, Function.comp_def] using this
  exact ⟨hp2.nodup_iff.mpr c.nd, hp⟩

end TbbVerif.C13
