/-
C13 — every run of the aggregator model produces a linearizable history (induction over the schedule).
-/
import TbbVerif.Proofs.C13.Comp

namespace TbbVerif.C13

theorem unwindsAt_none (s : St) (t : Tid) (hnt : NT s) : unwindsAt s t = none := by
  unfold unwindsAt
  split
  · rename_i u _ _ _; simp [(hnt u).1]
  · rename_i u _ _ _; simp [(hnt u).1]
  · rfl

theorem traceEv_silent (s : St) (t : Tid) (hnt : NT s)
    (hpc : (s.ths t).pc ≠ .idle ∧ (s.ths t).pc ≠ .rdStatus ∧ (s.ths t).pc ≠ .grab) : traceEv s t = [] := by
  obtain ⟨h1, h2, h3⟩ := hpc
  unfold traceEv histEv
  rw [unwindsAt_none s t hnt]
  cases hp : (s.ths t).pc <;> simp_all

theorem marks_ev (l : List HEv) : marks (l.map .ev) = [] := by
  induction l with
  | nil => rfl
  | cons a l ih => simp [marks] at ih ⊢

theorem proj_ev (l : List HEv) : proj (l.map .ev) = l := by
  induction l with
  | nil => rfl
  | cons a l ih => simp [proj] at ih ⊢; exact ih

theorem proj_lins (L : List Ev) : proj (L.map (fun e => TEv.lin e.idx e.op e.res)) = [] := by
  induction L with
  | nil => rfl
  | cons a l ih => simp [proj] at ih ⊢

/-- the history is the trace without the linearization points -/
theorem proj_traceEv (s : St) (t : Tid) : proj (traceEv s t) = histEv s t := by
  unfold traceEv
  cases hp : (s.ths t).pc <;> simp only [proj_ev]
  rw [proj_lins]
  unfold histEv unwindsAt
  simp [hp]

theorem proj_trace (s : St) (sched : List Tid) : proj (trace s sched) = history s sched := by
  induction sched generalizing s with
  | nil => rfl
  | cons t ts ih => simp only [trace, history, proj_append, proj_traceEv, ih]

/-- one step: the trace events of the step are well-placed w.r.t. the phases, the specification accepts the
linearization points of the step, and the invariant is kept -/
theorem J_step (s : St) (t : Tid) (pred : Tid → Res) (abs : List Elem) (h : J s pred abs) :
    ∃ pred' abs', wfRun (phaseOf s pred) (traceEv s t) = some (phaseOf (aggStep s t) pred') ∧
      specRun abs (marks (traceEv s t)) = some abs' ∧ J (aggStep s t) pred' abs' := by
  by_cases hg : (s.ths t).pc = .grab
  · obtain ⟨abs', hrun, c, hj⟩ := J_grab s t pred abs h hg
    refine ⟨predAt s pred, abs', phase_grab s t pred h.inv hg c, ?_, hj⟩
    unfold traceEv; simp only [hg]
    rw [marks_lins]; exact hrun
  · by_cases hi : (s.ths t).pc = .idle
    · have hh : (s.ths t).pc.handling = false := by simp [hi, Pc.handling]
      refine ⟨pred, abs, phase_idle s t pred hi, ?_, J_nonhandler s t pred abs h hh hg⟩
      unfold traceEv; simp only [hi, marks_ev]; rfl
    · by_cases hr : (s.ths t).pc = .rdStatus
      · have hh : (s.ths t).pc.handling = false := by simp [hr, Pc.handling]
        obtain ⟨n1, n2⟩ := not_mem_plist_of_rd h.inv t hr
        have hres := h.res t hi (by simp [hr, Pc.fresh]) n1 n2
        refine ⟨pred, abs, phase_rdStatus s t pred h.inv hr hres, ?_, J_nonhandler s t pred abs h hh hg⟩
        unfold traceEv; simp only [hr, marks_ev]; rfl
      · have hsil := traceEv_silent s t h.nt ⟨hi, hr, hg⟩
        have hph := phase_silent s t pred h.inv h.nt ⟨hi, hr, hg⟩
        refine ⟨pred, abs, by rw [hsil, hph]; rfl, by rw [hsil]; rfl, ?_⟩
        cases hh : (s.ths t).pc.handling with
        | true => exact J_handler s t pred abs h hh
        | false => exact J_nonhandler s t pred abs h hh hg

theorem J_run (sched : List Tid) : ∀ (s : St) (pred : Tid → Res) (abs : List Elem), J s pred abs →
    ∃ pred' abs', wfRun (phaseOf s pred) (trace s sched) = some (phaseOf (runAgg s sched) pred') ∧
      specRun abs (marks (trace s sched)) = some abs' ∧ J (runAgg s sched) pred' abs' := by
  induction sched with
  | nil => intro s pred abs h; exact ⟨pred, abs, rfl, rfl, h⟩
  | cons t ts ih =>
    intro s pred abs h
    obtain ⟨p1, a1, h1, h2, h3⟩ := J_step s t pred abs h
    obtain ⟨p2, a2, g1, g2, g3⟩ := ih (aggStep s t) p1 a1 h3
    refine ⟨p2, a2, ?_, ?_, g3⟩
    · simp only [trace, wfRun_append, h1, Option.bind_some]; exact g1
    · simp only [trace, marks_append, specRun_append, h2, Option.bind_some]; exact g2

theorem J_init (todo : Tid → List (Op × Nat)) (h0 : Heap) (hh : IsHeap h0.data h0.mark) (hf : h0.mark = h0.data.length)
    (hnt : ∀ t, ∀ p ∈ todo t, popThrows p.1 = false) (pred : Tid → Res) :
    J (Agg todo h0).init pred h0.data := by
  refine ⟨inv_init todo h0, fun u => ⟨rfl, hnt u⟩, fun u => rfl, ?_, ?_, ?_⟩
  · intro u h1; exact absurd rfl h1
  · intro _; exact ⟨List.Perm.refl _, ⟨by simp [Agg]; omega, hh⟩, hf⟩
  · intro t ht; simp [Agg, Pc.handling] at ht

theorem phase_init (todo : Tid → List (Op × Nat)) (h0 : Heap) (pred : Tid → Res) :
    phaseOf (Agg todo h0).init pred = fun _ => .out := by
  funext u; simp [phaseOf, Agg]

end TbbVerif.C13
