/-
C13 — decidable checks on the statement skeleton of `handle_operations` that the translator (checks/c13gen.py)
re-extracts from the source on every run (Generated/C13.lean: topLevel, p1Head, p1PopShortcut, p1PopDefer, p1Push,
p2Head, p2Empty, p2Shortcut, p2Top).  The checks look at the SET of actions of every branch and at the orderings
that the model and the proofs depend on; the relative order of independent statements is not constrained.
-/
import TbbVerif.Generated.C13

namespace TbbVerif.C13

def posOf (a : String) (l : List String) : Nat := l.findIdx (· == a)

/-- `a` and `b` both occur and `a` comes first -/
def before (a b : String) (l : List String) : Bool := posOf a l < posOf b l && posOf b l < l.length

/-- the same actions, each once, in any order -/
def sameActions (l e : List String) : Bool :=
  l.length == e.length && l.all (fun x => e.contains x) && e.all (fun x => l.contains x)

/-- the two loops and the final heapify, in this order, and nothing else at the top level; in both loops the
node is taken before the list is advanced -/
def passOrderOK : Bool :=
  Generated.C13.topLevel == ["while-op_list", "while-pop_list", "finish"] &&
  Generated.C13.p1Head == ["take", "advance"] && Generated.C13.p2Head == ["take", "advance"]

/-- a successful pop moves the element out BEFORE it stores SUCCEEDED (with release) and before the vector drops or
overwrites it; a failed pop only stores FAILED; a deferred pop is linked before it becomes the list head -/
def popBranchesOK : Bool :=
  sameActions Generated.C13.p1PopShortcut ["elem=back", "size-1", "status=S:rel", "pop_back"] &&
  before "elem=back" "status=S:rel" Generated.C13.p1PopShortcut && before "elem=back" "pop_back" Generated.C13.p1PopShortcut &&
  sameActions Generated.C13.p1PopDefer ["defer-link", "defer-head"] && before "defer-link" "defer-head" Generated.C13.p1PopDefer &&
  Generated.C13.p2Empty == ["status=F:rel"] &&
  sameActions Generated.C13.p2Shortcut ["elem=back", "size-1", "status=S:rel", "pop_back"] &&
  before "elem=back" "status=S:rel" Generated.C13.p2Shortcut && before "elem=back" "pop_back" Generated.C13.p2Shortcut &&
  sameActions Generated.C13.p2Top ["elem=top", "size-1", "status=S:rel", "reheap"] &&
  before "elem=top" "status=S:rel" Generated.C13.p2Top && before "elem=top" "reheap" Generated.C13.p2Top

/-- a push appends inside a try block before anything else, then stores SUCCEEDED (release); the handler of the
try block stores FAILED (release) and nothing else, so the loop continues with the next operation -/
def pushBranchOK : Bool :=
  sameActions Generated.C13.p1Push ["try", "push_back", "size+1", "status=S:rel", "catch", "status=F:rel", "end-try"] &&
  before "try" "push_back" Generated.C13.p1Push && before "push_back" "size+1" Generated.C13.p1Push &&
  before "push_back" "status=S:rel" Generated.C13.p1Push && before "size+1" "catch" Generated.C13.p1Push &&
  before "status=S:rel" "catch" Generated.C13.p1Push && before "catch" "status=F:rel" Generated.C13.p1Push &&
  before "status=F:rel" "end-try" Generated.C13.p1Push

end TbbVerif.C13
