/-
C13 — composition: the invariant `J` of the aggregator model that carries the linearization through every step.
-/
import TbbVerif.Proofs.C13.Hist

namespace TbbVerif.C13

/-! ### the specification does not see the order of the contents list -/

theorem specStep_perm {s s' s1 : List Elem} (e : Op × Res) (hp : s.Perm s') (hs : specStep s e = some s1) :
    ∃ s1', specStep s' e = some s1' ∧ s1.Perm s1' := by
  rcases specStep_cases s s1 e hs with ⟨x, rfl, rfl⟩ | ⟨x, rfl, rfl⟩ | ⟨v, rfl, hv, hmax, rfl⟩ | ⟨thr, rfl, h0, rfl⟩ | ⟨rfl, hne, rfl⟩
  · exact ⟨x :: s', rfl, hp.cons x⟩
  · exact ⟨s', rfl, hp⟩
  · refine ⟨s'.erase v, ?_, hp.erase v⟩
    exact specStep_pop _ _ (hp.mem_iff.mp hv) (fun y hy => hmax y (hp.mem_iff.mpr hy))
  · subst h0
    have : s' = [] := List.Perm.eq_nil hp.symm
    subst this
    exact ⟨[], by simp [specStep], List.Perm.refl _⟩
  · refine ⟨s', ?_, hp⟩
    have : s' ≠ [] := fun e => hne (by subst e; exact List.Perm.eq_nil hp)
    simp [specStep, this]

theorem specRun_perm (l : List (Op × Res)) : ∀ {s s' sf : List Elem}, s.Perm s' → specRun s l = some sf →
    ∃ sf', specRun s' l = some sf' ∧ sf.Perm sf' := by
  induction l with
  | nil =>
    intro s s' sf hp h
    simp only [specRun, Option.some.injEq] at h
    subst h
    exact ⟨s', rfl, hp⟩
  | cons e es ih =>
    intro s s' sf hp h
    simp only [specRun] at h
    cases hs : specStep s e with
    | none => rw [hs] at h; simp at h
    | some s1 =>
      rw [hs] at h; simp only [Option.bind_some] at h
      obtain ⟨s1', h1, h2⟩ := specStep_perm e hp hs
      obtain ⟨sf', h3, h4⟩ := ih h2 h
      exact ⟨sf', by simp [specRun, h1, h3], h4⟩

/-! ### the result a status store hands back is the one predicted by `handleIdx` -/

/-- `resultOfCall` as a function of (op, status, *elem, eptr) -/
def resOfKey (k : Op × Nat × Option Elem × Bool) : Res :=
  match k.1 with
  | .push _ _ => if k.2.1 = 1 then .pushOk else .pushFailed
  | .pop _ => if k.2.1 = 1 then .popOk (k.2.2.1.getD ⟨0, 0⟩) else if k.2.2.2 then .exc true else .popFailed

theorem resultOfCall_eq (th : Th) : resultOfCall th = resOfKey (resKey th) := by
  unfold resultOfCall resOfKey resKey
  cases th.op <;> rfl

theorem status_result1 (s : St) (t : Tid) (hB : Heap) (B : List (Op × Nat)) (c : Ctx hB B) (hnt : NT s)
    (hpc : (s.ths t).pc = .p1Status) (h : Ref s t hB B) :
    resultOf (handleIdx hB B).log (s.ths t).tmp =
      some (resOfKey ((s.ths (s.ths t).tmp).op, (s.ths t).st, (s.ths (s.ths t).tmp).elem, (s.ths (s.ths t).tmp).eptr)) := by
  unfold Ref at h
  simp only [hpc] at h
  obtain ⟨pre, a, ⟨h1, h2, h3, h4, _⟩, hm⟩ := h
  simp only [List.map_cons, opOf] at h1
  unfold Mid1 at hm
  cases hop : (s.ths (s.ths t).tmp).op with
  | push x thr =>
    cases thr with
    | false =>
      simp only [hop] at hm h1
      refine (result_pass1 hB B c pre _ _ _ h1 h2 ⟨(s.ths t).tmp, .push x false, .pushOk⟩ ?_ rfl).trans ?_
      · simp only [pass1, Bool.false_eq_true, if_false, List.head?_cons]
      · simp [resOfKey, hm.1]
    | true =>
      simp only [hop] at hm h1
      refine (result_pass1 hB B c pre _ _ _ h1 h2 ⟨(s.ths t).tmp, .push x true, .pushFailed⟩ ?_ rfl).trans ?_
      · simp only [pass1, if_true, List.head?_cons]
      · simp [resOfKey, hm.1]
  | pop thr =>
    have hthr : thr = false := by
      have := (hnt (s.ths t).tmp).1; rw [hop] at this
      cases thr <;> simp_all [popThrows]
    subst hthr
    simp only [hop] at hm h1
    obtain ⟨m1, m2, m3, m4⟩ := hm
    refine (result_pass1 hB B c pre _ _ _ h1 h2 ⟨(s.ths t).tmp, .pop false, .popOk (back a.data)⟩ ?_ rfl).trans ?_
    · rw [← h3]; simp only [pass1, m2, Bool.false_eq_true, if_false, if_true, List.head?_cons]
    · simp [resOfKey, m1, m4]

theorem status_result2 (s : St) (t : Tid) (hB : Heap) (B : List (Op × Nat)) (c : Ctx hB B) (hnt : NT s)
    (hpc : (s.ths t).pc = .p2Status) (h : Ref s t hB B) (he : (s.ths (s.ths t).tmp).eptr = false) :
    resultOf (handleIdx hB B).log (s.ths t).tmp =
      some (resOfKey ((s.ths (s.ths t).tmp).op, (s.ths t).st, (s.ths (s.ths t).tmp).elem, (s.ths (s.ths t).tmp).eptr)) := by
  unfold Ref at h
  simp only [hpc] at h
  obtain ⟨pre2, ⟨h1, h2, h3, h4, h5⟩, hm⟩ := h
  have hd : dOf s (s.ths t).tmp = ((s.ths t).tmp, false) := by simp [dOf, (hnt (s.ths t).tmp).1]
  simp only [List.map_cons, hd] at h2
  obtain ⟨thr, hop⟩ := h5 _ (List.mem_cons_self)
  rw [hop, he]
  rcases hm with ⟨m1, m2⟩ | ⟨m1, m2, m3⟩
  · refine (result_pass2 hB B c pre2 _ _ h2 h3 ⟨(s.ths t).tmp, .pop false, .popFailed⟩ ?_ rfl).trans ?_
    · rw [← h4]; simp only [pass2, m1, if_true, List.head?_cons]
    · simp [resOfKey, m2]
  · by_cases hsc : shortcut2 s.heap = true
    · refine (result_pass2 hB B c pre2 _ _ h2 h3 ⟨(s.ths t).tmp, .pop false, .popOk (back s.heap.data)⟩ ?_ rfl).trans ?_
      · rw [← h4]; simp only [pass2, m1, hsc, Bool.false_eq_true, if_false, if_true, List.head?_cons]
      · simp [resOfKey, m2, m3, hsc]
    · refine (result_pass2 hB B c pre2 _ _ h2 h3 ⟨(s.ths t).tmp, .pop false, .popOk (get s.heap.data 0)⟩ ?_ rfl).trans ?_
      · rw [← h4]; simp only [pass2, m1, hsc, Bool.false_eq_true, if_false, List.head?_cons]
      · simp [resOfKey, m2, m3, hsc]

/-! ### the invariant -/

/-- `pred u`: the result predicted for `u`'s operation at its linearization point (the grab of its batch);
`abs`: the contents of the sequential specification after all linearization points so far. -/
structure J (s : St) (pred : Tid → Res) (abs : List Elem) : Prop where
  inv : Inv s
  nt : NT s
  noeptr : ∀ u, (s.ths u).eptr = false
  /-- an operation that has its status returns the predicted result -/
  res : ∀ u, (s.ths u).pc ≠ .idle → (s.ths u).pc.fresh = false → u ∉ s.plist → s.unset.count u = 0 →
    resultOfCall (s.ths u) = pred u
  /-- between batches the vector holds exactly the spec's contents, fully heapified -/
  quiet : (∀ a, (s.ths a).pc.handling = false) →
    abs.Perm s.heap.data ∧ WF s.heap ∧ s.heap.mark = s.heap.data.length
  /-- inside a batch: the handler is somewhere in the computation of `handleIdx hB B`, the spec's contents are
  already those after the whole batch, and every member without status is predicted the result `handleIdx` records -/
  hand : ∀ t, (s.ths t).pc.handling = true → ∃ hB B, Ctx hB B ∧ Ref s t hB B ∧
    abs.Perm (handleIdx hB B).heap.data ∧
    (∀ u, 0 < s.unset.count u → resultOf (handleIdx hB B).log u = some (pred u))

theorem handleIdx_wf (hB : Heap) (B : List (Op × Nat)) (c : Ctx hB B) :
    WF (handleIdx hB B).heap ∧ (handleIdx hB B).heap.mark = (handleIdx hB B).heap.data.length := by
  obtain ⟨hp, _⟩ := heapPart_full hB c.full
  obtain ⟨s1, _, hsim1, _, hdf1, _⟩ := pass1_lin B c.nt hB hB.data ⟨c.wf, by rw [hp]⟩
  obtain ⟨s2, _, hsim2, _, _⟩ := pass2_lin (pass1 hB B).dfr hdf1 (pass1 hB B).heap s1 hsim1
  obtain ⟨wfin, hmf, _⟩ := finish_spec _ hsim2.1
  rw [handleIdx_eq hB B c.nt c.wf c.full]
  exact ⟨wfin, hmf⟩

theorem unset_not_outside {s : St} (hi : Inv s) {u : Tid} (hu : 0 < s.unset.count u) : (s.ths u).pc.outside = false := by
  cases hc : (s.ths u).pc.outside with
  | false => rfl
  | true =>
    have h1 := hi.out u hc
    have h2 := hi.sub u
    have h3 := hi.grabc u
    have h4 := hi.setc u
    omega

theorem idle_next (s : St) (t : Tid) (hpc : (s.ths t).pc = .idle) :
    ((aggStep s t).ths t).pc = .idle ∨ ((aggStep s t).ths t).pc.fresh = true := by
  unfold aggStep; simp only [hpc]
  split
  · left; exact hpc
  · right; simp [Pc.fresh]

theorem rd_next (s : St) (t : Tid) (hpc : (s.ths t).pc = .rdStatus) : ((aggStep s t).ths t).pc = .idle := by
  unfold aggStep; simp [hpc]

theorem nonhandling_key_pcs {p : Pc} (hh : p.handling = false) :
    p ≠ .p1Load ∧ p ≠ .p2Load ∧ p ≠ .p1Status ∧ p ≠ .p2Status := by
  cases p <;> simp_all [Pc.handling]

/-- steps of threads that are not handling a batch (and do not grab one) -/
theorem J_nonhandler (s : St) (t : Tid) (pred : Tid → Res) (abs : List Elem) (h : J s pred abs)
    (hh : (s.ths t).pc.handling = false) (hg : (s.ths t).pc ≠ .grab) : J (aggStep s t) pred abs := by
  obtain ⟨hheap, hunset, _, hoth, hself⟩ := nonhandler_frame s t hh hg
  obtain ⟨k1, k2, k3, k4⟩ := nonhandling_key_pcs hh
  have hpl : ∀ u, u ≠ t → (u ∈ (aggStep s t).plist ↔ u ∈ s.plist) := by
    intro u hu; rw [plist_step]; split
    · simp [hu]
    · simp [hg]
  have hkey : (s.ths t).pc ≠ .idle → resKey ((aggStep s t).ths t) = resKey (s.ths t) :=
    fun hi => reskey_quiet s t ⟨hi, k1, k2, k3, k4⟩ t
  refine ⟨inv_step s t h.inv h.nt, nt_step s t h.nt, eptr_step s t h.nt h.noeptr, ?_, ?_, ?_⟩
  · intro u h1 h2 h3 h4
    rw [hunset] at h4
    by_cases hu : u = t
    · subst hu
      by_cases hi : (s.ths u).pc = .idle
      · rcases idle_next s u hi with e | e
        · exact absurd e h1
        · rw [e] at h2; cases h2
      · by_cases hr : (s.ths u).pc = .rdStatus
        · exact absurd (rd_next s u hr) h1
        · obtain ⟨_, kk⟩ := self_keys s u hh ⟨hi, hr, hg⟩
          have hn : ¬ ((s.ths u).pc.fresh = true ∨ u ∈ s.plist) := by
            intro e; rcases kk.mpr e with e | e
            · rw [e] at h2; cases h2
            · exact h3 e
          rw [resultOfCall_key _ _ (hkey hi)]
          exact h.res u hi (by simpa using fun e => hn (Or.inl e)) (fun e => hn (Or.inr e)) h4
    · rw [hoth u hu] at h1 h2 ⊢
      exact h.res u h1 h2 (fun e => h3 ((hpl u hu).mpr e)) h4
  · intro hq
    rw [hheap]
    apply h.quiet
    intro a
    by_cases ha : a = t
    · subst ha; exact hh
    · have := hq a; rwa [hoth a ha] at this
  · intro a ha
    have hat : a ≠ t := by
      intro e; subst e; rw [hself] at ha; cases ha
    rw [hoth a hat] at ha
    obtain ⟨hB, B, c, hr, hp, hP⟩ := h.hand a ha
    refine ⟨hB, B, c, ?_, hp, by rw [hunset]; exact hP⟩
    refine Ref_congr h.inv a hB B (handling_props _ ha).1 (hoth a hat) hheap ?_ hr
    intro u hu
    by_cases hut : u = t
    · subst hut
      have hno := outside_false_props _ (unset_not_outside h.inv hu)
      have := hkey hno.1
      simp only [resKey, Prod.mk.injEq] at this
      exact ⟨this.1, this.2.2.1⟩
    · rw [hoth u hut]; exact ⟨rfl, rfl⟩

/-- one step of the handler keeps the loop invariant -/
theorem ref_step (s : St) (t : Tid) (hnt : NT s) (hh : (s.ths t).pc.handling = true) (hr : (s.ths t).pc ≠ .release)
    (hB : Heap) (B : List (Op × Nat)) (h : Ref s t hB B) : Ref (aggStep s t) t hB B := by
  cases hpc : (s.ths t).pc <;> simp [hpc, Pc.handling] at hh hr
  · exact ref_p1Load s t hnt hpc hB B h
  · exact ref_p1Defer s t hpc hB B h
  · exact ref_p1SzLd s t hpc hB B h
  · exact ref_p1SzSt s t hpc hB B h
  · exact ref_p1Status s t hnt hpc hB B h
  · exact ref_p2Load s t hnt hpc hB B h
  · exact ref_p2SzLd s t hpc hB B h
  · exact ref_p2SzSt s t hpc hB B h
  · exact ref_p2Status s t hnt hpc hB B h
  · unfold Ref at h; simp [hpc] at h
  · unfold Ref at h; simp [hpc] at h

theorem count_erase_le (l : List Tid) (a u : Tid) : (l.erase a).count u ≤ l.count u :=
  (List.erase_sublist).count_le u

/-- steps of the handler -/
theorem J_handler (s : St) (t : Tid) (pred : Tid → Res) (abs : List Elem) (h : J s pred abs)
    (hh : (s.ths t).pc.handling = true) : J (aggStep s t) pred abs := by
  obtain ⟨hB, B, c, href, hperm, hP⟩ := h.hand t hh
  obtain ⟨hact, _, hout, hfr, _, _, _⟩ := handling_props _ hh
  have hidle : (s.ths t).pc ≠ .idle := (outside_false_props _ hout).1
  have hcas : (s.ths t).pc ≠ .cas := by intro e; rw [e] at hh; simp [Pc.handling] at hh
  have hgrab : (s.ths t).pc ≠ .grab := by intro e; rw [e] at hh; simp [Pc.handling] at hh
  have hpl : (aggStep s t).plist = s.plist := by rw [plist_step]; simp [hcas, hgrab]
  have hown : t ∉ s.plist := by rw [mem_iff_count_pos]; have := h.inv.own t hh; omega
  have hun : ∀ u, (aggStep s t).unset.count u ≤ s.unset.count u := by
    intro u; rw [unset_step]; simp only [hgrab, if_false]
    split
    · exact count_erase_le _ _ _
    · exact Nat.le_refl _
  -- premises of `res` transfer back
  have htr : ∀ u, ((aggStep s t).ths u).pc ≠ .idle → ((aggStep s t).ths u).pc.fresh = false → u ∉ (aggStep s t).plist →
      (s.ths u).pc ≠ .idle ∧ (s.ths u).pc.fresh = false ∧ u ∉ s.plist := by
    intro u h1 h2 h3
    by_cases hu : u = t
    · subst hu; exact ⟨hidle, hfr, hown⟩
    · rw [pc_other s t u hu] at h1 h2; rw [hpl] at h3; exact ⟨h1, h2, h3⟩
  refine ⟨inv_step s t h.inv h.nt, nt_step s t h.nt, eptr_step s t h.nt h.noeptr, ?_, ?_, ?_⟩
  · -- res
    intro u h1 h2 h3 h4
    obtain ⟨g1, g2, g3⟩ := htr u h1 h2 h3
    by_cases hst : (s.ths t).pc = .p1Status ∨ (s.ths t).pc = .p2Status
    · have hk := reskey_status s t hst u
      have hus : (aggStep s t).unset = s.unset.erase (s.ths t).tmp := by rw [unset_step]; simp [hgrab, hst]
      by_cases hu : u = (s.ths t).tmp
      · rw [if_pos hu] at hk
        rw [resultOfCall_eq, hk]
        have hin : 0 < s.unset.count u := by
          have hl := h.inv.lists t hact u
          have hf : (s.ths t).pc.inflight = true := by rcases hst with e | e <;> simp [e, Pc.inflight]
          simp only [hf, true_and, hu, if_true] at hl
          rw [hu]; omega
        have hp := hP u hin
        have hsr : resultOf (handleIdx hB B).log (s.ths t).tmp =
            some (resOfKey ((s.ths (s.ths t).tmp).op, (s.ths t).st, (s.ths (s.ths t).tmp).elem, (s.ths (s.ths t).tmp).eptr)) := by
          rcases hst with e | e
          · exact status_result1 s t hB B c h.nt e href
          · exact status_result2 s t hB B c h.nt e href (h.noeptr _)
        rw [hu] at hp ⊢
        rw [hsr] at hp
        exact Option.some.inj hp
      · rw [if_neg hu] at hk
        rw [resultOfCall_key _ _ hk]
        apply h.res u g1 g2 g3
        rw [hus, List.count_erase_of_ne hu] at h4
        exact h4
    · have hus : (aggStep s t).unset = s.unset := by rw [unset_step]; simp [hgrab, hst]
      rw [hus] at h4
      by_cases hld : (s.ths t).pc = .p1Load ∨ (s.ths t).pc = .p2Load
      · rcases reskey_load s t h.nt hld u with hk | hk
        · rw [resultOfCall_key _ _ hk]; exact h.res u g1 g2 g3 h4
        · exfalso
          have hl := h.inv.lists t hact u
          have : u ∈ (s.ths t).rem := List.mem_of_mem_head? hk
          have := count_pos_of_mem this
          omega
      · have hk := reskey_quiet s t ⟨hidle, fun e => hld (Or.inl e), fun e => hld (Or.inr e),
          fun e => hst (Or.inl e), fun e => hst (Or.inr e)⟩ u
        rw [resultOfCall_key _ _ hk]; exact h.res u g1 g2 g3 h4
  · -- quiet: only after the release
    intro hq
    by_cases hr : (s.ths t).pc = .release
    · have e := ref_release s t hr hB B href
      rw [e]
      obtain ⟨w, f⟩ := handleIdx_wf hB B c
      exact ⟨hperm, w, f⟩
    · have := handling_next s t h.nt hh hr
      rw [hq t] at this; cases this
  · -- hand
    intro a ha
    have hat : a = t := by
      by_cases e : a = t
      · exact e
      · rw [pc_other s t a e] at ha
        exact h.inv.act_unique a t (handling_props _ ha).1 hact
    subst hat
    have hr : (s.ths a).pc ≠ .release := by
      intro e; rw [release_pc s a e] at ha; simp [Pc.handling] at ha
    refine ⟨hB, B, c, ref_step s a h.nt hh hr hB B href, hperm, ?_⟩
    intro u hu
    exact hP u (Nat.lt_of_lt_of_le hu (hun u))

/-! ### the grab -/

theorem plist_nodup {s : St} (hi : Inv s) : s.plist.Nodup := by
  rw [List.nodup_iff_count]
  intro u
  have a := hi.sub u; have b := hi.grabc u; have c := hi.setc u; have d := hi.subret u
  omega

theorem grab_no_handler {s : St} (hi : Inv s) (t : Tid) (hpc : (s.ths t).pc = .grab) :
    ∀ a, (s.ths a).pc.handling = false := by
  intro a
  by_cases e : a = t
  · subst e; simp [hpc, Pc.handling]
  · have := others_inactive hi t (by simp [hpc, Pc.active]) a e
    cases hc : (s.ths a).pc.handling with
    | false => rfl
    | true => rw [(handling_props _ hc).1] at this; cases this

theorem grab_unset_empty {s : St} (hi : Inv s) (t : Tid) (hpc : (s.ths t).pc = .grab) : ∀ u, s.unset.count u = 0 := by
  intro u
  have hl := hi.lists t (by simp [hpc, Pc.active]) u
  have hn := hi.no_lists t (by simp [hpc, Pc.handling])
  rw [hn.1, hn.2] at hl
  simpa [hpc, Pc.inflight] using hl

theorem batch_ctx {s : St} (hi : Inv s) (hnt : NT s) (hw : WF s.heap) (hf : s.heap.mark = s.heap.data.length) :
    Ctx s.heap (batchOf s) := by
  refine ⟨hw, hf, ?_, by rw [batchOf_idx]; exact plist_nodup hi⟩
  intro p hp
  simp only [batchOf, List.mem_map] at hp
  obtain ⟨u, _, rfl⟩ := hp
  intro e
  have := (hnt u).1
  simp only at e
  rw [e] at this; simp [popThrows] at this

theorem marks_lins (L : List Ev) : marks (L.map (fun e => TEv.lin e.idx e.op e.res)) = strip L := by
  induction L with
  | nil => rfl
  | cons a l ih => simp [marks, strip] at ih ⊢; exact ih

theorem grab_ref (s : St) (t : Tid) (hpc : (s.ths t).pc = .grab) : Ref (aggStep s t) t s.heap (batchOf s) := by
  unfold aggStep; simp only [hpc]
  apply ref_adv1 _ _ _ _ []
  simp only [modTh_ths, if_true, modTh_heap]
  refine ⟨?_, rfl, rfl, rfl, fun u hu => by cases hu⟩
  simp only [List.nil_append, batchOf]
  apply List.map_congr_left
  intro u _
  simp only [opOf, modTh_ths]
  split <;> rfl

/-- the exchange that grabs the pending list: the whole batch is linearized here -/
theorem J_grab (s : St) (t : Tid) (pred : Tid → Res) (abs : List Elem) (h : J s pred abs)
    (hpc : (s.ths t).pc = .grab) :
    ∃ abs', specRun abs (strip (batchLin s.heap (batchOf s))) = some abs' ∧
      Ctx s.heap (batchOf s) ∧ J (aggStep s t) (predAt s pred) abs' := by
  obtain ⟨hperm, hw, hf⟩ := h.quiet (grab_no_handler h.inv t hpc)
  have c := batch_ctx h.inv h.nt hw hf
  obtain ⟨_, _, sf, hrun, hsf⟩ := batchLin_spec s.heap (batchOf s) c.nt c.wf c.full
  obtain ⟨abs', hrun', hp'⟩ := specRun_perm _ hperm.symm hrun
  have hplist' : (aggStep s t).plist = [] := by rw [plist_step]; simp [hpc]
  have hunset' : (aggStep s t).unset = s.plist := by rw [unset_step]; simp [hpc]
  have hself := grab_self_pc s t hpc
  have hk : ∀ u, resKey ((aggStep s t).ths u) = resKey (s.ths u) :=
    fun u => reskey_quiet s t (by simp [hpc]) u
  refine ⟨abs', hrun', c, inv_step s t h.inv h.nt, nt_step s t h.nt, eptr_step s t h.nt h.noeptr, ?_, ?_, ?_⟩
  · intro u h1 h2 _ h4
    rw [hunset'] at h4
    have hu : u ∉ s.plist := by rw [mem_iff_count_pos]; omega
    have hut : u ≠ t := fun e => hu (e ▸ grab_in_plist h.inv t hpc)
    rw [pc_other s t u hut] at h1 h2
    rw [resultOfCall_key _ _ (hk u)]
    have hnone : resultOf (handleIdx s.heap (batchOf s)).log u = none := by
      obtain ⟨_, htag⟩ := log_nodup s.heap (batchOf s) c
      unfold resultOf
      rw [find_idx_none]
      · rfl
      · intro hc
        have h2' : ((handleIdx s.heap (batchOf s)).log.map (·.idx)).Perm ((batchOf s).map (·.2)) := by
          have := htag.map (fun p : Op × Nat => p.2)
          simpa [tag, Function.comp_def] using this
        rw [batchOf_idx] at h2'
        exact hu (h2'.mem_iff.mp hc)
    simp only [predAt, hnone]
    exact h.res u h1 h2 hu (grab_unset_empty h.inv t hpc u)
  · intro hq
    rw [hq t] at hself; cases hself
  · intro a ha
    have hat : a = t := by
      by_cases e : a = t
      · exact e
      · rw [pc_other s t a e] at ha
        rw [grab_no_handler h.inv t hpc a] at ha; cases ha
    subst hat
    refine ⟨s.heap, batchOf s, c, grab_ref s a hpc, hp'.symm.trans hsf, ?_⟩
    intro u hu
    rw [hunset'] at hu
    have hu' : u ∈ (batchOf s).map (·.2) := by rw [batchOf_idx]; exact mem_iff_count_pos.mpr hu
    obtain ⟨e, _, _, hr⟩ := result_some s.heap (batchOf s) c u hu'
    simp only [predAt, hr]

end TbbVerif.C13
