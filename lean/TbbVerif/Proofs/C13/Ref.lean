/-
C13 — the handler of `Agg`, executed access by access, computes `handleIdx` of the batch it grabbed
(loop invariant `Ref` of the two passes at every program counter of the handler).
-/
import TbbVerif.Proofs.C13.Agg
import TbbVerif.Proofs.C13.Passes
import TbbVerif.Model.C13Hist

namespace TbbVerif.C13

/-- a node of the operation list as `handleIdx` sees it: the owner's operation, indexed by the owner -/
def opOf (s : St) (u : Tid) : Op × Nat := ((s.ths u).op, u)
/-- a node of `pop_list` -/
def dOf (s : St) (u : Tid) : Nat × Bool := (u, popThrows (s.ths u).op)

/-- the batch `B` grabbed at heap state `hB` -/
structure Ctx (hB : Heap) (B : List (Op × Nat)) : Prop where
  wf : WF hB
  full : hB.mark = hB.data.length
  nt : NoPopThrow B
  nd : (B.map (·.2)).Nodup

/-- every node of the list is a pop -/
def popsOnly (s : St) (l : List Tid) : Prop := ∀ u ∈ l, ∃ thr, (s.ths u).op = .pop thr

theorem popsOnly_congr {s s' : St} {l : List Tid} (hop : ∀ u ∈ l, (s'.ths u).op = (s.ths u).op) :
    popsOnly s l → popsOnly s' l := fun h u hu => by rw [hop u hu]; exact h u hu

/-- first pass: `pre` has been served, `rem` is still in `op_list`, `dfr` is `pop_list`, the vector is `a` -/
def Ref1 (s : St) (hB : Heap) (B pre : List (Op × Nat)) (rem dfr : List Tid) (a : Heap) : Prop :=
  B = pre ++ rem.map (opOf s) ∧ (pass1 hB pre).abort = none ∧ a = (pass1 hB pre).heap ∧
  dfr.map (dOf s) = (pass1 hB pre).dfr ∧ popsOnly s dfr

/-- second pass: the deferred pops `pre2` have been served, `rem` is still in `pop_list` -/
def Ref2 (s : St) (hB : Heap) (B : List (Op × Nat)) (pre2 : List (Nat × Bool)) (rem : List Tid) (a : Heap) : Prop :=
  (pass1 hB B).abort = none ∧ (pass1 hB B).dfr = pre2 ++ rem.map (dOf s) ∧
  (pass2 (pass1 hB B).heap pre2).abort = none ∧ a = (pass2 (pass1 hB B).heap pre2).heap ∧ popsOnly s rem

/-- first pass, between taking `tmp` off the list and storing its status; `a` is the vector before `tmp` -/
def Mid1 (s : St) (th : Th) (a : Heap) : Prop :=
  match (s.ths th.tmp).op with
  | .push x false => th.st = 1 ∧ s.heap = { a with data := a.data ++ [x] }
  | .push _ true => th.st = 2 ∧ s.heap = a
  | .pop _ => th.st = 1 ∧ shortcut a = true ∧ s.heap = a ∧ (s.ths th.tmp).elem = some (back a.data)

/-- second pass, between taking `tmp` off `pop_list` and storing its status -/
def Mid2 (s : St) (th : Th) : Prop :=
  (isEmpty2 s.heap = true ∧ th.st = 2) ∨
  (isEmpty2 s.heap = false ∧ th.st = 1 ∧
    (s.ths th.tmp).elem = some (if shortcut2 s.heap = true then back s.heap.data else get s.heap.data 0))

/-- the loop invariant of handler `t` at each of its program counters -/
def Ref (s : St) (t : Tid) (hB : Heap) (B : List (Op × Nat)) : Prop :=
  match (s.ths t).pc with
  | .p1Load => ∃ pre, Ref1 s hB B pre (s.ths t).rem (s.ths t).dfr s.heap
  | .p1Defer => ∃ pre, Ref1 s hB B pre ((s.ths t).tmp :: (s.ths t).rem) (s.ths t).dfr s.heap ∧
      (s.ths (s.ths t).tmp).op = .pop false ∧ shortcut s.heap = false
  | .p1SzLd | .p1SzSt | .p1Status =>
    ∃ pre a, Ref1 s hB B pre ((s.ths t).tmp :: (s.ths t).rem) (s.ths t).dfr a ∧ Mid1 s (s.ths t) a
  | .p2Load => ∃ pre2, Ref2 s hB B pre2 (s.ths t).rem s.heap
  | .p2SzLd | .p2SzSt | .p2Status =>
    ∃ pre2, Ref2 s hB B pre2 ((s.ths t).tmp :: (s.ths t).rem) s.heap ∧ Mid2 s (s.ths t)
  | .release => s.heap = (handleIdx hB B).heap
  | .p1Adv | .p2Adv => False      -- transient: never the pc of a thread between two steps
  | _ => True

/-! ### congruence: `Ref` reads only the handler's locals, the vector, and `op` / `elem` of unserved operations -/

theorem Ref1_congr {s s' : St} {hB : Heap} {B pre : List (Op × Nat)} {rem dfr : List Tid} {a : Heap}
    (hop : ∀ u, (u ∈ rem ∨ u ∈ dfr) → (s'.ths u).op = (s.ths u).op) :
    Ref1 s hB B pre rem dfr a → Ref1 s' hB B pre rem dfr a := by
  intro ⟨h1, h2, h3, h4, h5⟩
  have e1 : rem.map (opOf s') = rem.map (opOf s) :=
    List.map_congr_left (fun u hu => by simp [opOf, hop u (Or.inl hu)])
  have e2 : dfr.map (dOf s') = dfr.map (dOf s) :=
    List.map_congr_left (fun u hu => by simp [dOf, hop u (Or.inr hu)])
  exact ⟨by rw [e1]; exact h1, h2, h3, by rw [e2]; exact h4, popsOnly_congr (fun u hu => hop u (Or.inr hu)) h5⟩

theorem Ref2_congr {s s' : St} {hB : Heap} {B : List (Op × Nat)} {pre2 : List (Nat × Bool)} {rem : List Tid} {a : Heap}
    (hop : ∀ u, u ∈ rem → (s'.ths u).op = (s.ths u).op) :
    Ref2 s hB B pre2 rem a → Ref2 s' hB B pre2 rem a := by
  intro ⟨h1, h2, h3, h4, h5⟩
  have e2 : rem.map (dOf s') = rem.map (dOf s) :=
    List.map_congr_left (fun u hu => by simp [dOf, hop u hu])
  exact ⟨h1, by rw [e2]; exact h2, h3, h4, popsOnly_congr hop h5⟩

theorem count_pos_of_mem {l : List Tid} {u : Tid} (h : u ∈ l) : 0 < l.count u := List.count_pos_iff.mpr h

theorem Ref_congr {s s' : St} (hi : Inv s) (t : Tid) (hB : Heap) (B : List (Op × Nat))
    (hact : (s.ths t).pc.active = true) (ht : s'.ths t = s.ths t) (hh : s'.heap = s.heap)
    (hop : ∀ u, 0 < s.unset.count u → (s'.ths u).op = (s.ths u).op ∧ (s'.ths u).elem = (s.ths u).elem) :
    Ref s t hB B → Ref s' t hB B := by
  have hl := hi.lists t hact
  have hrem : ∀ u, u ∈ (s.ths t).rem → 0 < s.unset.count u := by
    intro u hu; have := hl u; have := count_pos_of_mem hu; omega
  have hdfr : ∀ u, u ∈ (s.ths t).dfr → 0 < s.unset.count u := by
    intro u hu; have := hl u; have := count_pos_of_mem hu; omega
  have htmp : (s.ths t).pc.inflight = true → 0 < s.unset.count (s.ths t).tmp := by
    intro hf; have := hl (s.ths t).tmp; simp only [hf, true_and, if_true] at this; omega
  unfold Ref
  rw [ht, hh]
  cases hpc : (s.ths t).pc <;> simp only [] <;> try (intro h; exact h)
  · -- p1Load
    intro ⟨pre, h⟩
    exact ⟨pre, Ref1_congr (fun u hu => by
      rcases hu with hu | hu
      · exact (hop u (hrem u hu)).1
      · exact (hop u (hdfr u hu)).1) h⟩
  · -- p1Defer
    have hf := htmp (by simp [hpc, Pc.inflight])
    intro ⟨pre, h, h2, h3⟩
    refine ⟨pre, Ref1_congr (fun u hu => ?_) h, by rw [(hop _ hf).1]; exact h2, h3⟩
    rcases hu with hu | hu
    · rcases List.mem_cons.mp hu with rfl | hu
      · exact (hop _ hf).1
      · exact (hop u (hrem u hu)).1
    · exact (hop u (hdfr u hu)).1
  all_goals first
    | (-- p1SzLd / p1SzSt / p1Status
       have hf := htmp (by simp [hpc, Pc.inflight])
       intro ⟨pre, a, h, hm⟩
       refine ⟨pre, a, Ref1_congr (fun u hu => ?_) h, ?_⟩
       · rcases hu with hu | hu
         · rcases List.mem_cons.mp hu with rfl | hu
           · exact (hop _ hf).1
           · exact (hop u (hrem u hu)).1
         · exact (hop u (hdfr u hu)).1
       · unfold Mid1 at hm ⊢
         rw [(hop _ hf).1, (hop _ hf).2, hh]; exact hm)
    | (-- p2Load
       intro ⟨pre2, h⟩
       exact ⟨pre2, Ref2_congr (fun u hu => (hop u (hrem u hu)).1) h⟩)
    | (-- p2SzLd / p2SzSt / p2Status
       have hf := htmp (by simp [hpc, Pc.inflight])
       intro ⟨pre2, h, hm⟩
       refine ⟨pre2, Ref2_congr (fun u hu => ?_) h, ?_⟩
       · rcases List.mem_cons.mp hu with rfl | hu
         · exact (hop _ hf).1
         · exact (hop u (hrem u hu)).1
       · unfold Mid2 at hm ⊢
         rw [(hop _ hf).2, hh]; exact hm)

/-! ### the loop tests (`adv1` / `adv2`) -/

theorem modTh_op (s : St) (t : Tid) (f : Th → Th) (hf : ∀ x, (f x).op = x.op) (u : Tid) :
    ((s.modTh t f).ths u).op = (s.ths u).op := by
  by_cases h : u = t <;> simp [h, hf]

theorem ref_adv1 (s1 : St) (t : Tid) (hB : Heap) (B pre : List (Op × Nat))
    (h : Ref1 s1 hB B pre (s1.ths t).rem (s1.ths t).dfr s1.heap) : Ref (adv1 s1 t) t hB B := by
  unfold adv1
  simp only []
  split
  · unfold Ref
    simp only [modTh_ths, if_true, modTh_heap]
    exact ⟨pre, Ref1_congr (fun u _ => by by_cases e : u = t <;> simp [e]) h⟩
  · rename_i hrem
    have hrem : (s1.ths t).rem = [] := by simpa using hrem
    obtain ⟨h1, h2, h3, h4, h5⟩ := h
    rw [hrem] at h1
    simp only [List.map_nil, List.append_nil] at h1
    subst h1
    split
    · unfold Ref
      simp only [modTh_ths, if_true, modTh_heap]
      refine ⟨[], h2, ?_, rfl, h3, popsOnly_congr (fun u _ => by by_cases e : u = t <;> simp [e]) h5⟩
      rw [List.nil_append, ← h4]
      exact List.map_congr_left (fun u _ => by by_cases e : u = t <;> simp [e, dOf])
    · rename_i hdfr
      have hdfr : (s1.ths t).dfr = [] := by simpa using hdfr
      rw [hdfr] at h4
      unfold Ref
      simp only [modTh_ths, if_true, modTh_heap]
      simp only [handleIdx, h2, ← h4, List.map_nil, pass2, h3]

theorem ref_adv2 (s1 : St) (t : Tid) (hB : Heap) (B : List (Op × Nat)) (pre2 : List (Nat × Bool))
    (h : Ref2 s1 hB B pre2 (s1.ths t).rem s1.heap) : Ref (adv2 s1 t) t hB B := by
  unfold adv2
  simp only []
  split
  · unfold Ref
    simp only [modTh_ths, if_true, modTh_heap]
    exact ⟨pre2, Ref2_congr (fun u _ => by by_cases e : u = t <;> simp [e]) h⟩
  · rename_i hrem
    have hrem : (s1.ths t).rem = [] := by simpa using hrem
    obtain ⟨h1, h2, h3, h4, _⟩ := h
    rw [hrem] at h2
    simp only [List.map_nil, List.append_nil] at h2
    unfold Ref
    simp only [modTh_ths, if_true, modTh_heap]
    simp only [handleIdx, h1, h2, h3, h4]

/-! ### the handler's own steps -/

/-- `op` of every thread is untouched by an update that keeps `op` -/
syntax "opsame " ident : tactic
macro_rules
  | `(tactic| opsame $t) => `(tactic| (intro u _; by_cases e1 : u = $t <;> simp [e1]))

/-- writing `*elem` of `u`'s operation: a state that differs from `s` in that field only -/
theorem elemW (s : St) (u : Tid) (v : Option Elem) :
    ∃ s0, s0 = s.modTh u (fun x => { x with elem := v }) ∧ s0.heap = s.heap ∧ s0.unset = s.unset ∧ s0.plist = s.plist ∧
      (∀ w, (s0.ths w).op = (s.ths w).op ∧ (s0.ths w).rem = (s.ths w).rem ∧ (s0.ths w).dfr = (s.ths w).dfr ∧
        (s0.ths w).pc = (s.ths w).pc ∧ (s0.ths w).tmp = (s.ths w).tmp ∧ (s0.ths w).st = (s.ths w).st ∧
        (s0.ths w).status = (s.ths w).status ∧ (s0.ths w).eptr = (s.ths w).eptr ∧
        (w ≠ u → (s0.ths w).elem = (s.ths w).elem)) ∧
      (s0.ths u).elem = v := by
  refine ⟨_, rfl, rfl, rfl, rfl, ?_, by simp⟩
  intro w; by_cases e : w = u <;> simp [e]

theorem ref_p1Load (s : St) (t : Tid) (hnt : NT s) (hpc : (s.ths t).pc = .p1Load) (hB : Heap)
    (B : List (Op × Nat)) (h : Ref s t hB B) : Ref (aggStep s t) t hB B := by
  unfold Ref at h
  simp only [hpc] at h
  obtain ⟨pre, h⟩ := h
  unfold aggStep; simp only [hpc]
  split
  · rename_i hrem
    apply ref_adv1 _ _ _ _ pre
    simp only [modTh_ths, if_true, modTh_heap]
    exact Ref1_congr (by opsame t) h
  · rename_i u rest hrem
    rw [hrem] at h
    split
    · rename_i thr hop
      have hthr : thr = false := by
        have := (hnt u).1; rw [hop] at this
        cases thr <;> simp_all [popThrows]
      subst hthr
      split
      · rename_i hsc
        simp only [Bool.false_eq_true, if_false]
        obtain ⟨s0, e0, hh0, _, _, hf0, hel⟩ := elemW s u (some (back s.heap.data))
        rw [← e0]
        unfold Ref
        simp only [modTh_ths, if_true, modTh_heap]
        refine ⟨pre, s.heap, ?_, ?_⟩
        · rw [(hf0 t).2.2.1]
          exact Ref1_congr (s := s) (fun v _ => by by_cases e1 : v = t <;> simp [e1, (hf0 v).1, (hf0 t).1]) h
        · unfold Mid1
          by_cases e : u = t
          · subst e; simp [(hf0 u).1, hop, hsc, hh0, hel]
          · simp [e, (hf0 u).1, hop, hsc, hh0, hel]
      · rename_i hsc
        unfold Ref
        simp only [modTh_ths, if_true, modTh_heap]
        refine ⟨pre, Ref1_congr (s := s) (by opsame t) h, ?_, by simpa using hsc⟩
        by_cases e : u = t
        · subst e; simp [hop]
        · simp [e, hop]
    · rename_i v thr hop
      split
      · rename_i hthr
        subst hthr
        unfold Ref
        simp only [modTh_ths, if_true, modTh_heap]
        refine ⟨pre, s.heap, Ref1_congr (s := s) (by opsame t) h, ?_⟩
        unfold Mid1
        by_cases e : u = t
        · subst e; simp [hop]
        · simp [e, hop]
      · rename_i hthr
        have hthr : thr = false := by simpa using hthr
        subst hthr
        unfold Ref
        simp only [modTh_ths, if_true]
        refine ⟨pre, s.heap, Ref1_congr (s := s) (by opsame t) h, ?_⟩
        unfold Mid1
        by_cases e : u = t
        · subst e; simp [hop]
        · simp [e, hop]

theorem mid1_local (s s' : St) (t : Tid) (a : Heap) (hh : s'.heap = s.heap)
    (h1 : (s'.ths t).tmp = (s.ths t).tmp) (h2 : (s'.ths t).st = (s.ths t).st)
    (h3 : ∀ w, (s'.ths w).op = (s.ths w).op ∧ (s'.ths w).elem = (s.ths w).elem) :
    Mid1 s (s.ths t) a → Mid1 s' (s'.ths t) a := by
  unfold Mid1
  rw [h1, h2, (h3 _).1, (h3 _).2, hh]
  exact id

theorem mid2_local (s s' : St) (t : Tid) (hh : s'.heap = s.heap)
    (h1 : (s'.ths t).tmp = (s.ths t).tmp) (h2 : (s'.ths t).st = (s.ths t).st)
    (h3 : ∀ w, (s'.ths w).elem = (s.ths w).elem) :
    Mid2 s (s.ths t) → Mid2 s' (s'.ths t) := by
  unfold Mid2
  rw [h1, h2, (h3 _), hh]
  exact id

syntax "local_fields " ident : tactic
macro_rules
  | `(tactic| local_fields $t) => `(tactic| (intro w; by_cases e1 : w = $t <;> simp [e1]))

def Pc.mid1 : Pc → Bool
  | .p1SzLd | .p1SzSt | .p1Status => true
  | _ => false
def Pc.mid2 : Pc → Bool
  | .p2SzLd | .p2SzSt | .p2Status => true
  | _ => false

theorem ref_mid1_frame (s s' : St) (t : Tid) (hB : Heap) (B : List (Op × Nat))
    (hc : (s.ths t).pc.mid1 = true) (hc' : (s'.ths t).pc.mid1 = true) (hh : s'.heap = s.heap)
    (h1 : (s'.ths t).tmp = (s.ths t).tmp) (h2 : (s'.ths t).st = (s.ths t).st)
    (h4 : (s'.ths t).rem = (s.ths t).rem) (h5 : (s'.ths t).dfr = (s.ths t).dfr)
    (h3 : ∀ w, (s'.ths w).op = (s.ths w).op ∧ (s'.ths w).elem = (s.ths w).elem) :
    Ref s t hB B → Ref s' t hB B := by
  have key : (∃ pre a, Ref1 s hB B pre ((s.ths t).tmp :: (s.ths t).rem) (s.ths t).dfr a ∧ Mid1 s (s.ths t) a) →
      (∃ pre a, Ref1 s' hB B pre ((s'.ths t).tmp :: (s'.ths t).rem) (s'.ths t).dfr a ∧ Mid1 s' (s'.ths t) a) := by
    intro ⟨pre, a, h, hm⟩
    refine ⟨pre, a, ?_, mid1_local s s' t a hh h1 h2 h3 hm⟩
    rw [h1, h4, h5]
    exact Ref1_congr (fun w _ => (h3 w).1) h
  unfold Ref
  cases hp : (s.ths t).pc <;> simp [hp, Pc.mid1] at hc <;>
    cases hp' : (s'.ths t).pc <;> simp [hp', Pc.mid1] at hc' <;> exact key

theorem ref_mid2_frame (s s' : St) (t : Tid) (hB : Heap) (B : List (Op × Nat))
    (hc : (s.ths t).pc.mid2 = true) (hc' : (s'.ths t).pc.mid2 = true) (hh : s'.heap = s.heap)
    (h1 : (s'.ths t).tmp = (s.ths t).tmp) (h2 : (s'.ths t).st = (s.ths t).st)
    (h4 : (s'.ths t).rem = (s.ths t).rem)
    (h3 : ∀ w, (s'.ths w).op = (s.ths w).op ∧ (s'.ths w).elem = (s.ths w).elem) :
    Ref s t hB B → Ref s' t hB B := by
  have key : (∃ pre2, Ref2 s hB B pre2 ((s.ths t).tmp :: (s.ths t).rem) s.heap ∧ Mid2 s (s.ths t)) →
      (∃ pre2, Ref2 s' hB B pre2 ((s'.ths t).tmp :: (s'.ths t).rem) s'.heap ∧ Mid2 s' (s'.ths t)) := by
    intro ⟨pre2, h, hm⟩
    refine ⟨pre2, ?_, mid2_local s s' t hh h1 h2 (fun w => (h3 w).2) hm⟩
    rw [h1, h4, hh]
    exact Ref2_congr (fun w _ => (h3 w).1) h
  unfold Ref
  cases hp : (s.ths t).pc <;> simp [hp, Pc.mid2] at hc <;>
    cases hp' : (s'.ths t).pc <;> simp [hp', Pc.mid2] at hc' <;> exact key

theorem ref_p1SzLd (s : St) (t : Tid) (hpc : (s.ths t).pc = .p1SzLd) (hB : Heap)
    (B : List (Op × Nat)) (h : Ref s t hB B) : Ref (aggStep s t) t hB B := by
  unfold aggStep; simp only [hpc]
  exact ref_mid1_frame s _ t hB B (by simp [hpc, Pc.mid1]) (by simp [Pc.mid1]) rfl (by simp) (by simp) (by simp) (by simp)
    (by local_fields t) h

theorem ref_p1SzSt (s : St) (t : Tid) (hpc : (s.ths t).pc = .p1SzSt) (hB : Heap)
    (B : List (Op × Nat)) (h : Ref s t hB B) : Ref (aggStep s t) t hB B := by
  unfold aggStep; simp only [hpc]
  exact ref_mid1_frame s _ t hB B (by simp [hpc, Pc.mid1]) (by simp [Pc.mid1]) rfl (by simp) (by simp) (by simp) (by simp)
    (by local_fields t) h

theorem ref_p2SzLd (s : St) (t : Tid) (hpc : (s.ths t).pc = .p2SzLd) (hB : Heap)
    (B : List (Op × Nat)) (h : Ref s t hB B) : Ref (aggStep s t) t hB B := by
  unfold aggStep; simp only [hpc]
  exact ref_mid2_frame s _ t hB B (by simp [hpc, Pc.mid2]) (by simp [Pc.mid2]) rfl (by simp) (by simp) (by simp)
    (by local_fields t) h

theorem ref_p2SzSt (s : St) (t : Tid) (hpc : (s.ths t).pc = .p2SzSt) (hB : Heap)
    (B : List (Op × Nat)) (h : Ref s t hB B) : Ref (aggStep s t) t hB B := by
  unfold aggStep; simp only [hpc]
  exact ref_mid2_frame s _ t hB B (by simp [hpc, Pc.mid2]) (by simp [Pc.mid2]) rfl (by simp) (by simp) (by simp)
    (by local_fields t) h

/-! ### one node through a pass -/

theorem pass1_one_defer (a : Heap) (i : Nat) (h : shortcut a = false) :
    pass1 a [(.pop false, i)] = ⟨a, [], [(i, false)], none⟩ := by
  simp [pass1, h]

theorem pass1_one_short (a : Heap) (i : Nat) (h : shortcut a = true) :
    pass1 a [(.pop false, i)] = ⟨{ a with data := a.data.dropLast }, [⟨i, .pop false, .popOk (back a.data)⟩], [], none⟩ := by
  simp [pass1, h]

theorem pass1_one_push (a : Heap) (x : Elem) (i : Nat) :
    pass1 a [(.push x false, i)] = ⟨{ a with data := a.data ++ [x] }, [⟨i, .push x false, .pushOk⟩], [], none⟩ := by
  simp [pass1]

theorem pass1_one_pushFail (a : Heap) (x : Elem) (i : Nat) :
    pass1 a [(.push x true, i)] = ⟨a, [⟨i, .push x true, .pushFailed⟩], [], none⟩ := by
  simp [pass1]

/-- `Ref1` after one more node `x` was served (not deferred) or deferred -/
theorem ref1_snoc {s s1 : St} {hB : Heap} {B pre : List (Op × Nat)} {u : Tid} {rem dfr dfr1 : List Tid} {a a1 : Heap}
    (h : Ref1 s hB B pre (u :: rem) dfr a)
    (hop : ∀ w, (s1.ths w).op = (s.ths w).op)
    (hone : (pass1 a [opOf s u]).heap = a1 ∧ (pass1 a [opOf s u]).abort = none ∧
      (pass1 a [opOf s u]).dfr ++ dfr.map (dOf s) = dfr1.map (dOf s))
    (hpops : popsOnly s dfr → popsOnly s dfr1) :
    Ref1 s1 hB B (pre ++ [opOf s u]) rem dfr1 a1 := by
  obtain ⟨h1, h2, h3, h4, h5⟩ := h
  obtain ⟨e1, e2, e3, e4⟩ := pass1_append pre [opOf s u] hB h2
  rw [← h3] at e1 e3 e4
  have eo : rem.map (opOf s1) = rem.map (opOf s) := List.map_congr_left (fun w _ => by simp [opOf, hop w])
  have ed : dfr1.map (dOf s1) = dfr1.map (dOf s) := List.map_congr_left (fun w _ => by simp [dOf, hop w])
  refine ⟨?_, ?_, ?_, ?_, popsOnly_congr (fun w _ => hop w) (hpops h5)⟩
  · rw [h1, eo]; simp
  · rw [e4]; exact hone.2.1
  · rw [e1]; exact hone.1.symm
  · rw [e3, ed, ← h4]; exact hone.2.2.symm

/-- writing `next` of `u`'s operation -/
theorem nextW (s : St) (u : Tid) (v : Option (Tid × Nat)) :
    ∃ s0, s0 = s.modTh u (fun x => { x with next := v }) ∧ s0.heap = s.heap ∧ s0.unset = s.unset ∧ s0.plist = s.plist ∧
      (∀ w, (s0.ths w).op = (s.ths w).op ∧ (s0.ths w).rem = (s.ths w).rem ∧ (s0.ths w).dfr = (s.ths w).dfr ∧
        (s0.ths w).pc = (s.ths w).pc ∧ (s0.ths w).tmp = (s.ths w).tmp ∧ (s0.ths w).st = (s.ths w).st ∧
        (s0.ths w).status = (s.ths w).status ∧ (s0.ths w).eptr = (s.ths w).eptr ∧ (s0.ths w).elem = (s.ths w).elem) := by
  refine ⟨_, rfl, rfl, rfl, rfl, ?_⟩
  intro w; by_cases e : w = u <;> simp [e]

theorem ref_p1Defer (s : St) (t : Tid) (hpc : (s.ths t).pc = .p1Defer) (hB : Heap)
    (B : List (Op × Nat)) (h : Ref s t hB B) : Ref (aggStep s t) t hB B := by
  unfold Ref at h
  simp only [hpc] at h
  obtain ⟨pre, h, hop, hsc⟩ := h
  unfold aggStep; simp only [hpc]
  obtain ⟨s0, e0, hh0, _, _, hf0⟩ := nextW s (s.ths t).tmp ((s.ths t).dfr.head?.map (nodeOf s))
  rw [← e0]
  apply ref_adv1 _ _ _ _ (pre ++ [opOf s (s.ths t).tmp])
  simp only [modTh_ths, if_true, modTh_heap]
  rw [(hf0 t).2.1, (hf0 t).2.2.1, (hf0 t).2.2.2.2.1, hh0]
  refine ref1_snoc h (fun w => by by_cases e1 : w = t <;> simp [e1, (hf0 w).1, (hf0 t).1]) ?_ ?_
  · simp only [opOf, hop]
    rw [pass1_one_defer _ _ hsc]
    simp [dOf, hop, popThrows]
  · intro hp u hu
    rcases List.mem_cons.mp hu with rfl | hu
    · exact ⟨false, hop⟩
    · exact hp u hu

theorem ref_p1Status_core (s s1 : St) (t : Tid) (hnt : NT s) (hpc : (s.ths t).pc = .p1Status) (hB : Heap)
    (B : List (Op × Nat)) (h : Ref s t hB B)
    (hths : ∀ w, (s1.ths w).op = (s.ths w).op)
    (ht : (s1.ths t).rem = (s.ths t).rem ∧ (s1.ths t).dfr = (s.ths t).dfr)
    (hpush : ∀ x thr, (s.ths (s.ths t).tmp).op = .push x thr → s1.heap = s.heap)
    (hpop : ∀ thr, (s.ths (s.ths t).tmp).op = .pop thr →
      s1.heap = if (s.ths t).st = 1 then { s.heap with data := s.heap.data.dropLast } else s.heap) :
    Ref (adv1 s1 t) t hB B := by
  unfold Ref at h
  simp only [hpc] at h
  obtain ⟨pre, a, h, hm⟩ := h
  apply ref_adv1 _ _ _ _ (pre ++ [opOf s (s.ths t).tmp])
  rw [ht.1, ht.2]
  refine ref1_snoc h hths ?_ id
  unfold Mid1 at hm
  cases hop : (s.ths (s.ths t).tmp).op with
  | push x thr =>
    rw [hpush x thr hop]
    cases thr with
    | false =>
      simp only [hop] at hm
      simp only [opOf, hop, pass1_one_push, hm.2]
      simp
    | true =>
      simp only [hop] at hm
      simp only [opOf, hop, pass1_one_pushFail, hm.2]
      simp
  | pop thr =>
    rw [hpop thr hop]
    have hthr : thr = false := by
      have := (hnt (s.ths t).tmp).1; rw [hop] at this
      cases thr <;> simp_all [popThrows]
    subst hthr
    simp only [hop] at hm
    obtain ⟨m1, m2, m3, m4⟩ := hm
    simp only [opOf, hop, pass1_one_short _ _ m2, m1, m3]
    simp

theorem ref_p1Status (s : St) (t : Tid) (hnt : NT s) (hpc : (s.ths t).pc = .p1Status) (hB : Heap)
    (B : List (Op × Nat)) (h : Ref s t hB B) : Ref (aggStep s t) t hB B := by
  unfold aggStep; simp only [hpc]
  apply ref_p1Status_core s _ t hnt hpc hB B h
  · intro w; simp only [modTh_ths]; repeat' split
    all_goals rfl
  · simp only [modTh_ths, if_true]; split <;> exact ⟨rfl, rfl⟩
  · intro x thr hop; simp only [hop, modTh_heap]
  · intro thr hop; simp only [hop, modTh_heap]

theorem ref_p2Load (s : St) (t : Tid) (hnt : NT s) (hpc : (s.ths t).pc = .p2Load) (hB : Heap)
    (B : List (Op × Nat)) (h : Ref s t hB B) : Ref (aggStep s t) t hB B := by
  unfold Ref at h
  simp only [hpc] at h
  obtain ⟨pre2, h⟩ := h
  unfold aggStep; simp only [hpc]
  split
  · rename_i hrem
    apply ref_adv2 _ _ _ _ pre2
    simp only [modTh_ths, if_true, modTh_heap]
    exact Ref2_congr (by opsame t) h
  · rename_i u rest hrem
    rw [hrem] at h
    split
    · rename_i hemp
      unfold Ref
      simp only [modTh_ths, if_true, modTh_heap]
      refine ⟨pre2, Ref2_congr (s := s) (by opsame t) h, Or.inl ⟨hemp, rfl⟩⟩
    · rename_i hemp
      have hpt : popThrows (s.ths u).op = false := (hnt u).1
      simp only [hpt, Bool.false_eq_true, if_false]
      have hemp : isEmpty2 s.heap = false := by simpa using hemp
      split
      · rename_i hsc
        obtain ⟨s0, e0, hh0, _, _, hf0, hel⟩ := elemW s u (some (back s.heap.data))
        rw [← e0]
        unfold Ref
        simp only [modTh_ths, if_true, modTh_heap]
        refine ⟨pre2, ?_, Or.inr ?_⟩
        · rw [hh0]
          exact Ref2_congr (s := s) (fun v _ => by by_cases e1 : v = t <;> simp [e1, (hf0 v).1, (hf0 t).1]) h
        · by_cases e : u = t
          · subst e; simp [hh0, hemp, hsc, hel]
          · simp [e, hh0, hemp, hsc, hel]
      · rename_i hsc
        obtain ⟨s0, e0, hh0, _, _, hf0, hel⟩ := elemW s u (some (get s.heap.data 0))
        rw [← e0]
        unfold Ref
        simp only [modTh_ths, if_true, modTh_heap]
        refine ⟨pre2, ?_, Or.inr ?_⟩
        · rw [hh0]
          exact Ref2_congr (s := s) (fun v _ => by by_cases e1 : v = t <;> simp [e1, (hf0 v).1, (hf0 t).1]) h
        · by_cases e : u = t
          · subst e; simp [hh0, hemp, hsc, hel]
          · simp [e, hh0, hemp, hsc, hel]

theorem pass2_one_empty (a : Heap) (i : Nat) (h : isEmpty2 a = true) :
    pass2 a [(i, false)] = ⟨a, [⟨i, .pop false, .popFailed⟩], none⟩ := by
  simp [pass2, h]

theorem pass2_one_short (a : Heap) (i : Nat) (h : isEmpty2 a = false) (h2 : shortcut2 a = true) :
    pass2 a [(i, false)] = ⟨{ a with data := a.data.dropLast }, [⟨i, .pop false, .popOk (back a.data)⟩], none⟩ := by
  simp [pass2, h, h2]

theorem pass2_one_top (a : Heap) (i : Nat) (h : isEmpty2 a = false) (h2 : shortcut2 a = false) :
    pass2 a [(i, false)] = ⟨reheap a, [⟨i, .pop false, .popOk (get a.data 0)⟩], none⟩ := by
  simp [pass2, h, h2]

theorem ref_p2Status_core (s s1 : St) (t : Tid) (hnt : NT s) (hpc : (s.ths t).pc = .p2Status) (hB : Heap)
    (B : List (Op × Nat)) (h : Ref s t hB B)
    (hths : ∀ w, (s1.ths w).op = (s.ths w).op)
    (ht : (s1.ths t).rem = (s.ths t).rem)
    (hheap : s1.heap = if (s.ths t).st = 1 then
        (if shortcut2 s.heap = true then { s.heap with data := s.heap.data.dropLast } else reheap s.heap) else s.heap) :
    Ref (adv2 s1 t) t hB B := by
  unfold Ref at h
  simp only [hpc] at h
  obtain ⟨pre2, ⟨h1, h2, h3, h4, h5⟩, hm⟩ := h
  apply ref_adv2 _ _ _ _ (pre2 ++ [dOf s (s.ths t).tmp])
  rw [ht]
  obtain ⟨e1, e2, e3⟩ := pass2_append pre2 [dOf s (s.ths t).tmp] _ h3
  rw [← h4] at e1 e3
  have hd : dOf s (s.ths t).tmp = ((s.ths t).tmp, false) := by simp [dOf, (hnt (s.ths t).tmp).1]
  have ed : (s.ths t).rem.map (dOf s1) = (s.ths t).rem.map (dOf s) :=
    List.map_congr_left (fun w _ => by simp [dOf, hths w])
  refine ⟨h1, by rw [h2, ed]; simp, ?_, ?_,
    popsOnly_congr (fun w _ => hths w) (fun u hu => h5 u (List.mem_cons_of_mem _ hu))⟩
  · rw [e3, hd]
    rcases hm with ⟨m1, _⟩ | ⟨m1, _, _⟩
    · rw [pass2_one_empty _ _ m1]
    · by_cases hsc : shortcut2 s.heap = true
      · rw [pass2_one_short _ _ m1 hsc]
      · rw [pass2_one_top _ _ m1 (by simpa using hsc)]
  · rw [e1, hd, hheap]
    rcases hm with ⟨m1, m2⟩ | ⟨m1, m2, _⟩
    · rw [pass2_one_empty _ _ m1, m2]; simp
    · by_cases hsc : shortcut2 s.heap = true
      · rw [pass2_one_short _ _ m1 hsc, m2]; simp [hsc]
      · rw [pass2_one_top _ _ m1 (by simpa using hsc), m2]; simp [hsc]

theorem ref_p2Status (s : St) (t : Tid) (hnt : NT s) (hpc : (s.ths t).pc = .p2Status) (hB : Heap)
    (B : List (Op × Nat)) (h : Ref s t hB B) : Ref (aggStep s t) t hB B := by
  unfold aggStep; simp only [hpc]
  apply ref_p2Status_core s _ t hnt hpc hB B h
  · intro w; simp only [modTh_ths]; repeat' split
    all_goals rfl
  · simp only [modTh_ths, if_true]; split <;> rfl
  · simp only [modTh_heap]

theorem ref_release (s : St) (t : Tid) (hpc : (s.ths t).pc = .release) (hB : Heap)
    (B : List (Op × Nat)) (h : Ref s t hB B) : (aggStep s t).heap = (handleIdx hB B).heap := by
  unfold Ref at h
  simp only [hpc] at h
  unfold aggStep; simp only [hpc]
  exact h

end TbbVerif.C13
