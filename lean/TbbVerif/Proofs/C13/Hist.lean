/-
C13 — from the aggregator model to linearizable histories: phases of the threads, the invariant `J` that ties the
linearization points placed at the grab to what the handler later does, and its preservation by every step.
-/
import TbbVerif.Proofs.C13.Steps

namespace TbbVerif.C13

/-! ### traces -/

theorem wfRun_append (ph : Tid → Phase) (a b : List TEv) :
    wfRun ph (a ++ b) = (wfRun ph a).bind (fun ph' => wfRun ph' b) := by
  induction a generalizing ph with
  | nil => simp [wfRun]
  | cons e es ih =>
    simp only [List.cons_append, wfRun]
    cases wfStep ph e with
    | none => simp
    | some ph' => simp [ih]

theorem marks_append (a b : List TEv) : marks (a ++ b) = marks a ++ marks b := by simp [marks]
theorem proj_append (a b : List TEv) : proj (a ++ b) = proj a ++ proj b := by simp [proj]

/-! ### the phase of a thread, read off the state -/

/-- the phase of thread `u`: between calls at `idle`; invoked until its node has been grabbed out of the pending
list; linearized (with the predicted result `pred u`) from then on until it returns -/
def phaseOf (s : St) (pred : Tid → Res) (u : Tid) : Phase :=
  if (s.ths u).pc = .idle then .out
  else if (s.ths u).pc.fresh = true ∨ u ∈ s.plist then .invoked (s.ths u).op
  else .linearized (s.ths u).op (pred u)

theorem self_keys (s : St) (t : Tid) (hh : (s.ths t).pc.handling = false)
    (hpc : (s.ths t).pc ≠ .idle ∧ (s.ths t).pc ≠ .rdStatus ∧ (s.ths t).pc ≠ .grab) :
    ((aggStep s t).ths t).pc ≠ .idle ∧
    ((((aggStep s t).ths t).pc.fresh = true ∨ t ∈ (aggStep s t).plist) ↔ ((s.ths t).pc.fresh = true ∨ t ∈ s.plist)) := by
  obtain ⟨h1, h2, h3⟩ := hpc
  cases hp : (s.ths t).pc <;> simp [hp, Pc.handling] at hh h1 h2 h3 <;> unfold aggStep <;> simp only [hp] <;>
    (repeat' split) <;> simp [Pc.fresh, hp] <;> (try split) <;> simp [Pc.fresh]

theorem release_pc (s : St) (t : Tid) (hpc : (s.ths t).pc = .release) : ((aggStep s t).ths t).pc = .rdStatus := by
  unfold aggStep; simp [hpc]

theorem mem_iff_count_pos {l : List Tid} {u : Tid} : u ∈ l ↔ 0 < l.count u := List.count_pos_iff.symm

/-- a step that is neither an invocation, nor a response, nor a grab leaves every thread's phase alone -/
theorem phase_silent (s : St) (t : Tid) (pred : Tid → Res) (hi : Inv s) (hnt : NT s)
    (hpc : (s.ths t).pc ≠ .idle ∧ (s.ths t).pc ≠ .rdStatus ∧ (s.ths t).pc ≠ .grab) :
    phaseOf (aggStep s t) pred = phaseOf s pred := by
  funext u
  have hop : ((aggStep s t).ths u).op = (s.ths u).op := by
    rcases op_step s t u with h | ⟨_, h⟩
    · exact h
    · exact absurd h hpc.1
  unfold phaseOf; rw [hop]
  by_cases hu : u = t
  · subst hu
    by_cases hh : (s.ths u).pc.handling = true
    · have hown : u ∉ s.plist := by
        rw [mem_iff_count_pos]; have := hi.own u hh; omega
      obtain ⟨_, _, hout, hfr, _, _, _⟩ := handling_props _ hh
      have hpl : (aggStep s u).plist = s.plist := by
        rw [plist_step]
        have h1 : (s.ths u).pc ≠ .cas := by intro e; rw [e] at hh; simp [Pc.handling] at hh
        simp [h1, hpc.2.2]
      have hidle : (s.ths u).pc ≠ .idle := hpc.1
      have hpc' : ((aggStep s u).ths u).pc ≠ .idle ∧ ((aggStep s u).ths u).pc.fresh = false := by
        by_cases hr : (s.ths u).pc = .release
        · rw [release_pc s u hr]; simp [Pc.fresh]
        · have := handling_next s u hnt hh hr
          obtain ⟨_, _, _, hfr', _, _, _⟩ := handling_props _ this
          refine ⟨?_, hfr'⟩
          intro e; rw [e] at this; simp [Pc.handling] at this
      rw [hpl]
      simp [hidle, hpc'.1, hpc'.2, hfr, hown]
    · have hh : (s.ths u).pc.handling = false := by simpa using hh
      obtain ⟨k1, k2⟩ := self_keys s u hh hpc
      simp only [k1, hpc.1, if_false]
      by_cases hc : (s.ths u).pc.fresh = true ∨ u ∈ s.plist
      · rw [if_pos (k2.mpr hc), if_pos hc]
      · rw [if_neg (fun e => hc (k2.mp e)), if_neg hc]
  · rw [pc_other s t u hu]
    have hmem : u ∈ (aggStep s t).plist ↔ u ∈ s.plist := by
      rw [plist_step]
      split
      · simp [hu]
      · simp [hpc.2.2]
    simp only [hmem]

/-! ### invocation and response -/

theorem phase_idle (s : St) (t : Tid) (pred : Tid → Res) (hpc : (s.ths t).pc = .idle) :
    wfRun (phaseOf s pred) (traceEv s t) = some (phaseOf (aggStep s t) pred) := by
  unfold traceEv histEv aggStep
  simp only [hpc]
  cases htodo : (s.ths t).todo with
  | nil => simp [wfRun]
  | cons p rest =>
    obtain ⟨o, c⟩ := p
    simp only [List.map_cons, List.map_nil, wfRun, wfStep]
    have h0 : phaseOf s pred t = .out := by simp [phaseOf, hpc]
    rw [h0]
    simp only [Option.bind_some]
    congr 1
    funext u
    unfold updPh phaseOf
    by_cases hu : u = t
    · subst hu; simp [Pc.fresh]
    · simp [hu]

theorem not_mem_plist_of_rd {s : St} (hi : Inv s) (t : Tid) (hpc : (s.ths t).pc = .rdStatus) :
    t ∉ s.plist ∧ s.unset.count t = 0 := by
  have h1 := hi.rd t hpc
  have h2 := hi.sub t
  have h3 := hi.grabc t
  constructor
  · rw [mem_iff_count_pos]; omega
  · omega

theorem phase_rdStatus (s : St) (t : Tid) (pred : Tid → Res) (hi : Inv s) (hpc : (s.ths t).pc = .rdStatus)
    (hres : resultOfCall (s.ths t) = pred t) :
    wfRun (phaseOf s pred) (traceEv s t) = some (phaseOf (aggStep s t) pred) := by
  obtain ⟨hnp, _⟩ := not_mem_plist_of_rd hi t hpc
  unfold traceEv histEv
  simp only [hpc, List.map_cons, List.map_nil, wfRun, wfStep]
  have h0 : phaseOf s pred t = .linearized (s.ths t).op (pred t) := by simp [phaseOf, hpc, Pc.fresh, hnp]
  rw [h0]
  simp only [hres, if_true, Option.bind_some]
  congr 1
  funext u
  unfold updPh phaseOf aggStep
  simp only [hpc]
  by_cases hu : u = t
  · subst hu; simp
  · simp [hu]

/-! ### the grab: every operation of the batch is linearized -/

theorem find_idx_none {L : List Ev} {u : Nat} (h : u ∉ L.map (·.idx)) : L.find? (·.idx == u) = none := by
  rw [List.find?_eq_none]
  intro e he hc
  exact h (List.mem_map.mpr ⟨e, he, by simpa using hc⟩)

theorem find_idx_mem {L : List Ev} (hnd : (L.map (·.idx)).Nodup) {e : Ev} (he : e ∈ L) :
    L.find? (·.idx == e.idx) = some e := by
  induction L with
  | nil => simp at he
  | cons a l ih =>
    simp only [List.map_cons, List.nodup_cons] at hnd
    rcases List.mem_cons.mp he with rfl | he'
    · simp
    · have hne : a.idx ≠ e.idx := fun hc => hnd.1 (List.mem_map.mpr ⟨e, he', hc.symm⟩)
      simp only [List.find?_cons]
      have : (a.idx == e.idx) = false := by simpa using hne
      rw [this]; exact ih hnd.2 he'

/-- flipping the members of a batch from invoked to linearized, one linearization point each -/
theorem wfRun_lins (L : List Ev) (hnd : (L.map (·.idx)).Nodup) :
    ∀ ph : Tid → Phase, (∀ e ∈ L, ph e.idx = .invoked e.op) →
    wfRun ph (L.map (fun e => TEv.lin e.idx e.op e.res)) =
      some (fun u => match L.find? (·.idx == u) with | some e => .linearized e.op e.res | none => ph u) := by
  induction L with
  | nil => intro ph _; simp [wfRun]
  | cons a l ih =>
    intro ph hph
    simp only [List.map_cons, List.nodup_cons] at hnd
    simp only [List.map_cons, wfRun, wfStep]
    rw [hph a (List.mem_cons_self)]
    simp only [if_true, Option.bind_some]
    rw [ih hnd.2]
    · congr 1
      funext u
      simp only [List.find?_cons]
      by_cases hu : a.idx = u
      · subst hu
        simp only [beq_self_eq_true]
        rw [find_idx_none hnd.1]
        simp [updPh]
      · have : (a.idx == u) = false := by simpa using hu
        rw [this]
        cases l.find? (·.idx == u) with
        | some e => rfl
        | none => simp [updPh, Ne.symm hu]
    · intro e he
      have hne : e.idx ≠ a.idx := fun hc => hnd.1 (List.mem_map.mpr ⟨e, he, hc⟩)
      simp only [updPh, hne, if_false]
      exact hph e (List.mem_cons_of_mem _ he)

/-- the prediction made at the grab: the result `handleIdx` records for each member of the batch -/
def predAt (s : St) (pred : Tid → Res) : Tid → Res :=
  fun u => match resultOf (handleIdx s.heap (batchOf s)).log u with
    | some r => r
    | none => pred u

theorem batchOf_idx (s : St) : (batchOf s).map (·.2) = s.plist := by
  simp [batchOf, Function.comp_def]

theorem plist_not_outside {s : St} (hi : Inv s) {u : Tid} (hu : u ∈ s.plist) : (s.ths u).pc.outside = false := by
  cases hc : (s.ths u).pc.outside with
  | false => rfl
  | true =>
    have h1 := hi.out u hc
    have h2 := hi.sub u
    have h3 := hi.grabc u
    have h4 := hi.setc u
    have := mem_iff_count_pos.mp hu
    omega

theorem outside_false_props (p : Pc) (h : p.outside = false) : p ≠ .idle ∧ p.fresh = false := by
  cases p <;> simp_all [Pc.outside, Pc.fresh]

theorem grab_in_plist {s : St} (hi : Inv s) (t : Tid) (hpc : (s.ths t).pc = .grab) : t ∈ s.plist := by
  have := (hi.wait_last t).mp (by simp [hpc, Pc.waiting])
  exact List.mem_of_getLast? this

theorem adv1_handling (s1 : St) (t : Tid) : ((adv1 s1 t).ths t).pc.handling = true := by
  rcases (adv1_self s1 t).1 with h | h | h <;> simp [h, Pc.handling]

theorem adv2_handling (s1 : St) (t : Tid) : ((adv2 s1 t).ths t).pc.handling = true := by
  rcases (adv2_self s1 t).1 with h | h <;> simp [h, Pc.handling]

theorem grab_self_pc (s : St) (t : Tid) (hpc : (s.ths t).pc = .grab) :
    ((aggStep s t).ths t).pc.handling = true := by
  unfold aggStep; simp only [hpc]
  exact adv1_handling _ t

theorem phase_grab (s : St) (t : Tid) (pred : Tid → Res) (hi : Inv s) (hpc : (s.ths t).pc = .grab)
    (c : Ctx s.heap (batchOf s)) :
    wfRun (phaseOf s pred) (traceEv s t) = some (phaseOf (aggStep s t) (predAt s pred)) := by
  have hL := batchLin_spec s.heap (batchOf s) c.nt c.wf c.full
  obtain ⟨hnd, htag⟩ := log_nodup s.heap (batchOf s) c
  have hLidx : ((batchLin s.heap (batchOf s)).map (·.idx)).Perm s.plist := by
    have h1 := (hL.1.map (·.idx))
    have h2 : ((handleIdx s.heap (batchOf s)).log.map (·.idx)).Perm ((batchOf s).map (·.2)) := by
      have := htag.map (fun p : Op × Nat => p.2)
      simpa [tag, Function.comp_def] using this
    rw [batchOf_idx] at h2
    exact h1.trans h2
  have hLnd : ((batchLin s.heap (batchOf s)).map (·.idx)).Nodup := (hL.1.map (·.idx)).nodup_iff.mpr hnd
  have hmemB : ∀ e ∈ batchLin s.heap (batchOf s), e.idx ∈ s.plist ∧ e.op = (s.ths e.idx).op ∧
      resultOf (handleIdx s.heap (batchOf s)).log e.idx = some e.res := by
    intro e he
    have he' : e ∈ (handleIdx s.heap (batchOf s)).log := hL.1.mem_iff.mp he
    have : tag e ∈ batchOf s := htag.mem_iff.mp (List.mem_map.mpr ⟨e, he', rfl⟩)
    simp only [batchOf, tag, List.mem_map] at this
    obtain ⟨u, hu, h2⟩ := this
    simp only [Prod.mk.injEq] at h2
    refine ⟨by rw [← h2.2]; exact hu, by rw [← h2.2]; exact h2.1.symm, resultOf_mem_nodup _ hnd e he'⟩
  unfold traceEv
  simp only [hpc]
  rw [wfRun_lins _ hLnd]
  · congr 1
    funext u
    have hplist' : (aggStep s t).plist = [] := by rw [plist_step]; simp [hpc]
    have hop : ((aggStep s t).ths u).op = (s.ths u).op := by
      rcases op_step s t u with h | ⟨_, h⟩
      · exact h
      · rw [hpc] at h; cases h
    by_cases hu : u ∈ s.plist
    · obtain ⟨e, he, hidx⟩ := List.mem_map.mp (hLidx.mem_iff.mpr hu)
      subst hidx
      rw [find_idx_mem hLnd he]
      obtain ⟨_, h2, h3⟩ := hmemB e he
      have hno := outside_false_props _ (plist_not_outside hi hu)
      have hpc' : ((aggStep s t).ths e.idx).pc ≠ .idle ∧ ((aggStep s t).ths e.idx).pc.fresh = false := by
        by_cases het : e.idx = t
        · rw [het]
          have := grab_self_pc s t hpc
          obtain ⟨_, _, _, hfr', _, _, _⟩ := handling_props _ this
          refine ⟨?_, hfr'⟩
          intro e'; rw [e'] at this; simp [Pc.handling] at this
        · rw [pc_other s t _ het]; exact hno
      simp [phaseOf, hpc'.1, hpc'.2, hplist', hop, h2, predAt, h3]
    · have hnone : u ∉ (batchLin s.heap (batchOf s)).map (·.idx) := fun hc => hu (hLidx.mem_iff.mp hc)
      rw [find_idx_none hnone]
      have hut : u ≠ t := fun e => hu (e ▸ grab_in_plist hi t hpc)
      have hnone' : resultOf (handleIdx s.heap (batchOf s)).log u = none := by
        unfold resultOf
        rw [find_idx_none (fun hc => hnone ((hL.1.map (·.idx)).mem_iff.mpr hc))]
        rfl
      simp [phaseOf, pc_other s t u hut, hplist', hop, hu, predAt, hnone']
  · intro e he
    obtain ⟨h1, h2, _⟩ := hmemB e he
    have hno := outside_false_props _ (plist_not_outside hi h1)
    simp [phaseOf, hno.1, h1, h2]

end TbbVerif.C13
