/-
C13 — from the simulation lemmas to the batch-level statements: linearization order over identified
operations, conservation, exception isolation.
-/
import TbbVerif.Proofs.C13.Batch

namespace TbbVerif.C13

/-- a permutation of the image lifts to a permutation of the source -/
theorem perm_of_map_perm {α β : Type} (f : α → β) :
    ∀ (l2 : List β) (l1 : List α), l2.Perm (l1.map f) → ∃ l1' : List α, l1'.Perm l1 ∧ l1'.map f = l2 := by
  intro l2
  induction l2 with
  | nil =>
    intro l1 h
    have : l1.map f = [] := List.Perm.eq_nil h.symm
    have : l1 = [] := by simpa using this
    exact ⟨[], by rw [this], rfl⟩
  | cons b l2 ih =>
    intro l1 h
    have hb : b ∈ l1.map f := h.mem_iff.mp (by simp)
    obtain ⟨a, ha, rfl⟩ := List.mem_map.mp hb
    obtain ⟨p, q, rfl⟩ := List.append_of_mem ha
    have h' : (f a :: l2).Perm (f a :: (p ++ q).map f) := by
      refine h.trans ?_
      simp only [List.map_append, List.map_cons]
      exact List.perm_middle
    obtain ⟨l', hl', hm⟩ := ih (p ++ q) h'.cons_inv
    exact ⟨a :: l', (hl'.cons a).trans List.perm_middle.symm, by simp [hm]⟩

/-! ### `finish` -/

theorem finish_spec (h : Heap) (w : WF h) :
    WF (finish h) ∧ (finish h).mark = (finish h).data.length ∧ (finish h).data.Perm h.data := by
  unfold finish
  by_cases hn : needHeapify h = true
  · rw [if_pos hn]
    obtain ⟨a, b, c, d⟩ := heapify_spec h w.1 w.2
    exact ⟨⟨by omega, a⟩, by omega, c⟩
  · rw [if_neg hn]
    have : h.mark = h.data.length := by
      have := w.1
      have : ¬ h.mark < h.data.length := fun e => hn ((needHeapify_iff h).mpr e)
      omega
    exact ⟨w, this, List.Perm.refl _⟩

/-! ### every operation gets exactly one status -/

def tag (e : Ev) : Op × Nat := (e.op, e.idx)

/-- no pop of the batch has a throwing element assignment -/
def NoPopThrow (ops : List (Op × Nat)) : Prop := ∀ p ∈ ops, p.1 ≠ .pop true

theorem pass2_log (dfr : List (Nat × Bool)) : (∀ p ∈ dfr, p.2 = false) → ∀ h : Heap,
    (pass2 h dfr).log.map tag = dfr.map (fun p => (Op.pop p.2, p.1)) := by
  induction dfr with
  | nil => intro _ h; rfl
  | cons p rest ih0 =>
    intro hnt h
    have ih := ih0 (fun q hq => hnt q (List.mem_cons_of_mem _ hq))
    obtain ⟨i, thr⟩ := p
    have hthr : thr = false := hnt (i, thr) (by simp)
    subst hthr
    simp only [pass2, Bool.false_eq_true, if_false]
    split
    · simp [tag, ih]
    · split <;> simp [tag, ih]

theorem pass1_log (ops : List (Op × Nat)) : NoPopThrow ops → ∀ h : Heap,
    ((pass1 h ops).log.map tag ++ (pass1 h ops).dfr.map (fun p => (Op.pop p.2, p.1))).Perm ops := by
  induction ops with
  | nil => intro _ h; simp [pass1]
  | cons o rest ih0 =>
    intro hnt h
    have ih := ih0 (fun q hq => hnt q (List.mem_cons_of_mem _ hq))
    obtain ⟨op, i⟩ := o
    cases op with
    | pop thr =>
      have hthr : thr = false := by
        cases thr with
        | false => rfl
        | true => exact absurd rfl (hnt (.pop true, i) (by simp))
      subst hthr
      simp only [pass1, Bool.false_eq_true, if_false]
      split
      · simpa [tag] using ih _
      · have := ih h
        simp only [List.map_append, List.map_cons, List.map_nil]
        rw [← List.append_assoc]
        exact (List.perm_append_comm).trans (this.cons _)
    | push x thr =>
      simp only [pass1]
      split <;> simpa [tag] using ih _

/-! ### linearization -/

theorem heapPart_full (h : Heap) (hf : h.mark = h.data.length) : heapPart h = h.data ∧ pend h = [] := by
  simp [heapPart, pend, hf]

/-- without a throwing pop assignment `handle_operations` runs to its end -/
theorem handleIdx_eq (h : Heap) (ops : List (Op × Nat)) (hnt : NoPopThrow ops) (w : WF h) (hf : h.mark = h.data.length) :
    handleIdx h ops = ⟨finish (pass2 (pass1 h ops).heap (pass1 h ops).dfr).heap,
      (pass1 h ops).log ++ (pass2 (pass1 h ops).heap (pass1 h ops).dfr).log, none⟩ := by
  obtain ⟨hp, hpe⟩ := heapPart_full h hf
  obtain ⟨s1, hrun1, hsim1, hab1, hdf1, hp1⟩ := pass1_lin ops hnt h h.data ⟨w, by rw [hp]⟩
  obtain ⟨s2, hrun2, hsim2, hab2, hp2⟩ := pass2_lin (pass1 h ops).dfr hdf1 (pass1 h ops).heap s1 hsim1
  simp only [handleIdx, hab1, hab2]

theorem handleIdx_log (h : Heap) (ops : List (Op × Nat)) (hnt : NoPopThrow ops) (w : WF h) (hf : h.mark = h.data.length) :
    ((handleIdx h ops).log.map tag).Perm ops ∧ (handleIdx h ops).abort = none := by
  obtain ⟨hp, hpe⟩ := heapPart_full h hf
  obtain ⟨s1, hrun1, hsim1, hab1, hdf1, hp1⟩ := pass1_lin ops hnt h h.data ⟨w, by rw [hp]⟩
  rw [handleIdx_eq h ops hnt w hf]
  simp only [List.map_append, pass2_log _ hdf1]
  exact ⟨pass1_log ops hnt h, trivial⟩

/-- value-level linearization of a whole batch: the executable order `batchLinV` is a permutation of the
status log (as operation/result pairs), the sequential spec accepts it from the initial contents, and ends
with (a permutation of) the final vector -/
theorem batchLinV_spec (h : Heap) (ops : List (Op × Nat)) (hnt : NoPopThrow ops) (w : WF h) (hf : h.mark = h.data.length) :
    ∃ sf, (batchLinV h ops).Perm (strip (handleIdx h ops).log) ∧ specRun h.data (batchLinV h ops) = some sf ∧
      sf.Perm (handleIdx h ops).heap.data := by
  obtain ⟨hp, hpe⟩ := heapPart_full h hf
  obtain ⟨s1, hrun1, hsim1, hab1, hdf1, hp1⟩ := pass1_lin ops hnt h h.data ⟨w, by rw [hp]⟩
  obtain ⟨s2, hrun2, hsim2, hab2, hp2⟩ := pass2_lin (pass1 h ops).dfr hdf1 (pass1 h ops).heap s1 hsim1
  obtain ⟨wfin, _, hfin⟩ := finish_spec _ hsim2.1
  rw [handleIdx_eq h ops hnt w hf]
  refine ⟨(pend (pass2 (pass1 h ops).heap (pass1 h ops).dfr).heap).reverse ++ s2, ?_, ?_, ?_⟩
  · rw [hpe] at hp1
    simp only [batchLinV, strip, List.map_append, pushes, List.map_nil, List.nil_append] at *
    rw [List.perm_iff_count] at *
    intro a; have := hp1 a; have := hp2 a
    simp only [List.count_append] at *; omega
  · simp only [batchLinV]
    rw [specRun_append, specRun_append, hrun1]
    simp only [Option.bind_some, hrun2]
    exact specRun_pushes _ _
  · refine List.Perm.trans ?_ hfin.symm
    have e : heapPart (pass2 (pass1 h ops).heap (pass1 h ops).dfr).heap ++ pend (pass2 (pass1 h ops).heap (pass1 h ops).dfr).heap
        = (pass2 (pass1 h ops).heap (pass1 h ops).dfr).heap.data := List.take_append_drop _ _
    rw [← e]
    exact (List.perm_append_comm).trans ((hsim2.2).append (List.reverse_perm _))

theorem handleIdx_lin_strip (h : Heap) (ops : List (Op × Nat)) (hnt : NoPopThrow ops) (w : WF h) (hf : h.mark = h.data.length) :
    ∃ lin sf, lin.Perm (strip (handleIdx h ops).log) ∧ specRun h.data lin = some sf ∧
      sf.Perm (handleIdx h ops).heap.data := by
  obtain ⟨sf, a, b, c⟩ := batchLinV_spec h ops hnt w hf
  exact ⟨_, sf, a, b, c⟩

/-! ### identities: `assignIds` realises a value-level permutation as a permutation of the log -/

theorem takeEv_spec (v : Op × Res) : ∀ (pool : List Ev), v ∈ strip pool →
    ∃ e pool', takeEv v pool = some (e, pool') ∧ (e.op, e.res) = v ∧ (e :: pool').Perm pool := by
  intro pool
  induction pool with
  | nil => intro h; simp [strip] at h
  | cons e es ih =>
    intro h
    by_cases he : (e.op, e.res) = v
    · exact ⟨e, es, by simp [takeEv, he], he, List.Perm.refl _⟩
    · have hin : v ∈ strip es := by
        simp only [strip, List.map_cons, List.mem_cons] at h
        rcases h with h | h
        · exact absurd h.symm he
        · exact h
      obtain ⟨e', pool', h1, h2, h3⟩ := ih hin
      refine ⟨e', e :: pool', by simp [takeEv, he, h1], h2, ?_⟩
      exact (List.Perm.swap e e' pool').trans (h3.cons e)

theorem assignIds_spec : ∀ (vs : List (Op × Res)) (pool : List Ev), vs.Perm (strip pool) →
    ∃ l, assignIds vs pool = some l ∧ l.Perm pool ∧ strip l = vs := by
  intro vs
  induction vs with
  | nil =>
    intro pool h
    have : strip pool = [] := List.Perm.eq_nil h.symm
    have : pool = [] := by simpa [strip] using this
    exact ⟨[], rfl, by rw [this], rfl⟩
  | cons v vs ih =>
    intro pool h
    have hv : v ∈ strip pool := h.mem_iff.mp (by simp)
    obtain ⟨e, pool', h1, h2, h3⟩ := takeEv_spec v pool hv
    have h' : vs.Perm (strip pool') := by
      have : (v :: vs).Perm (v :: strip pool') := by
        refine h.trans ?_
        have := h3.symm.map (fun e : Ev => (e.op, e.res))
        simpa [strip, h2] using this
      exact this.cons_inv
    obtain ⟨l, hl1, hl2, hl3⟩ := ih pool' h'
    refine ⟨e :: l, by simp [assignIds, h1, hl1], (hl2.cons e).trans h3, ?_⟩
    simp only [strip, List.map_cons, h2] at hl3 ⊢
    rw [hl3]

/-- THE per-batch linearization over identified operations, as an executable function: `batchLin h ops` is a
permutation of the status log of `handle_operations`, its operation/result pairs are `batchLinV h ops`, the
spec accepts them from the initial contents and ends with a permutation of the final vector. -/
theorem batchLin_spec (h : Heap) (ops : List (Op × Nat)) (hnt : NoPopThrow ops) (w : WF h) (hf : h.mark = h.data.length) :
    (batchLin h ops).Perm (handleIdx h ops).log ∧ strip (batchLin h ops) = batchLinV h ops ∧
    ∃ sf, specRun h.data (strip (batchLin h ops)) = some sf ∧ sf.Perm (handleIdx h ops).heap.data := by
  obtain ⟨sf, a, b, c⟩ := batchLinV_spec h ops hnt w hf
  obtain ⟨l, hl1, hl2, hl3⟩ := assignIds_spec _ _ a
  have e : batchLin h ops = l := by simp [batchLin, hl1]
  rw [e]
  exact ⟨hl2, hl3, sf, by rw [hl3]; exact b, c⟩

/-- linearization over identified operations -/
theorem handleIdx_lin (h : Heap) (ops : List (Op × Nat)) (hnt : NoPopThrow ops) (w : WF h) (hf : h.mark = h.data.length) :
    ∃ (lin : List Ev) (sf : List Elem), lin.Perm (handleIdx h ops).log ∧ specRun h.data (strip lin) = some sf ∧
      sf.Perm (handleIdx h ops).heap.data := by
  obtain ⟨a, _, sf, b, c⟩ := batchLin_spec h ops hnt w hf
  exact ⟨_, sf, a, b, c⟩

/-! ### conservation -/

/-- values returned by successful pops -/
def popped (l : List (Op × Res)) : List Elem := l.filterMap (fun e => match e with | (_, .popOk v) => some v | _ => none)
/-- values inserted by successful pushes -/
def pushed (l : List (Op × Res)) : List Elem := l.filterMap (fun e => match e with | (.push x _, .pushOk) => some x | _ => none)

theorem specStep_cases (s s1 : List Elem) (e : Op × Res) (hs : specStep s e = some s1) :
    (∃ x, e = (.push x false, .pushOk) ∧ s1 = x :: s) ∨ (∃ x, e = (.push x true, .pushFailed) ∧ s1 = s) ∨
    (∃ v, e = (.pop false, .popOk v) ∧ v ∈ s ∧ (∀ y ∈ s, y.key ≤ v.key) ∧ s1 = s.erase v) ∨
    (∃ thr, e = (.pop thr, .popFailed) ∧ s = [] ∧ s1 = s) ∨ (e = (.pop true, .exc true) ∧ s ≠ [] ∧ s1 = s) := by
  unfold specStep at hs
  split at hs
  · exact Or.inl ⟨_, rfl, by simpa using hs.symm⟩
  · exact Or.inr (Or.inl ⟨_, rfl, by simpa using hs.symm⟩)
  · split at hs
    · rename_i hc
      exact Or.inr (Or.inr (Or.inl ⟨_, rfl, hc.1, hc.2, by simpa using hs.symm⟩))
    · simp at hs
  · split at hs
    · rename_i hc
      exact Or.inr (Or.inr (Or.inr (Or.inl ⟨_, rfl, hc, by simpa using hs.symm⟩)))
    · simp at hs
  · split at hs
    · simp at hs
    · rename_i hc
      exact Or.inr (Or.inr (Or.inr (Or.inr ⟨rfl, hc, by simpa using hs.symm⟩)))
  · simp at hs

theorem specStep_conserves (s s1 : List Elem) (e : Op × Res) (hs : specStep s e = some s1) :
    (s1 ++ popped [e]).Perm (s ++ pushed [e]) := by
  rcases specStep_cases s s1 e hs with ⟨x, rfl, rfl⟩ | ⟨x, rfl, rfl⟩ | ⟨v, rfl, hv, _, rfl⟩ | ⟨thr, rfl, _, rfl⟩ | ⟨rfl, _, rfl⟩
  · simp only [popped, pushed, List.filterMap_cons, List.filterMap_nil, List.append_nil]
    exact List.perm_append_comm (l₁ := [x])
  · simp [popped, pushed]
  · simp only [popped, pushed, List.filterMap_cons, List.filterMap_nil, List.append_nil]
    exact (List.perm_append_comm).trans (List.perm_cons_erase hv).symm
  · simp [popped, pushed]
  · simp [popped, pushed]

theorem specRun_conserves (lin : List (Op × Res)) : ∀ (s sf : List Elem), specRun s lin = some sf →
    (sf ++ popped lin).Perm (s ++ pushed lin) := by
  induction lin with
  | nil => intro s sf h; simp only [specRun, Option.some.injEq] at h; subst h; simp [popped, pushed]
  | cons e es ih =>
    intro s sf h
    simp only [specRun] at h
    cases hs : specStep s e with
    | none => rw [hs] at h; simp at h
    | some s1 =>
      rw [hs] at h; simp only [Option.bind_some] at h
      have h1 := ih _ _ h
      have h2 := specStep_conserves s s1 e hs
      have e1 : popped (e :: es) = popped [e] ++ popped es := by simp [popped, List.filterMap_cons]; cases e; split <;> simp
      have e2 : pushed (e :: es) = pushed [e] ++ pushed es := by simp [pushed, List.filterMap_cons]; cases e; split <;> simp
      rw [e1, e2]
      rw [List.perm_iff_count] at *
      intro a; have := h1 a; have := h2 a
      simp only [List.count_append] at *; omega

theorem handleIdx_conserves (h : Heap) (ops : List (Op × Nat)) (hnt : NoPopThrow ops) (w : WF h) (hf : h.mark = h.data.length) :
    ((handleIdx h ops).heap.data ++ popped (strip (handleIdx h ops).log)).Perm
      (h.data ++ pushed (strip (handleIdx h ops).log)) := by
  obtain ⟨lin, sf, hp, hrun, hfin⟩ := handleIdx_lin_strip h ops hnt w hf
  have c := specRun_conserves lin _ _ hrun
  have p1 : (popped lin).Perm (popped (strip (handleIdx h ops).log)) := hp.filterMap _
  have p2 : (pushed lin).Perm (pushed (strip (handleIdx h ops).log)) := hp.filterMap _
  exact ((hfin.symm.append p1.symm).trans c).trans ((List.Perm.refl _).append p2)

/-! ### a throwing copy is isolated -/

theorem pass1_throw (a b : List (Op × Nat)) (x : Elem) (i : Nat) : ∀ h : Heap, (pass1 h (a ++ b)).abort = none →
    (pass1 h (a ++ (.push x true, i) :: b)).heap = (pass1 h (a ++ b)).heap ∧
    (pass1 h (a ++ (.push x true, i) :: b)).dfr = (pass1 h (a ++ b)).dfr ∧
    (pass1 h (a ++ (.push x true, i) :: b)).abort = none ∧
    (pass1 h (a ++ (.push x true, i) :: b)).log.Perm (⟨i, .push x true, .pushFailed⟩ :: (pass1 h (a ++ b)).log) := by
  induction a with
  | nil => intro h hab; simp only [List.nil_append] at hab; simp [pass1, hab]
  | cons o rest ih =>
    intro h
    obtain ⟨op, j⟩ := o
    cases op with
    | pop thr =>
      simp only [List.cons_append, pass1]
      split
      · split
        · split
          · intro hab
            obtain ⟨e1, e2, e3, e4⟩ := ih h hab
            exact ⟨e1, e2, e3, (e4.cons _).trans (List.Perm.swap _ _ _)⟩
          · intro hab; simp at hab
        · intro hab
          obtain ⟨e1, e2, e3, e4⟩ := ih { h with data := h.data.dropLast } hab
          exact ⟨e1, e2, e3, (e4.cons _).trans (List.Perm.swap _ _ _)⟩
      · intro hab
        obtain ⟨e1, e2, e3, e4⟩ := ih h hab
        exact ⟨e1, by simp [e2], e3, e4⟩
    | push y thr =>
      simp only [List.cons_append, pass1]
      split
      · intro hab
        obtain ⟨e1, e2, e3, e4⟩ := ih h hab
        exact ⟨e1, e2, e3, (e4.cons _).trans (List.Perm.swap _ _ _)⟩
      · intro hab
        obtain ⟨e1, e2, e3, e4⟩ := ih { h with data := h.data ++ [y] } hab
        exact ⟨e1, e2, e3, (e4.cons _).trans (List.Perm.swap _ _ _)⟩

theorem handleIdx_throw (h : Heap) (a b : List (Op × Nat)) (x : Elem) (i : Nat) (hab : (handleIdx h (a ++ b)).abort = none) :
    (handleIdx h (a ++ (.push x true, i) :: b)).heap = (handleIdx h (a ++ b)).heap ∧
    (handleIdx h (a ++ (.push x true, i) :: b)).abort = none ∧
    (handleIdx h (a ++ (.push x true, i) :: b)).log.Perm (⟨i, .push x true, .pushFailed⟩ :: (handleIdx h (a ++ b)).log) := by
  have hab1 : (pass1 h (a ++ b)).abort = none := by
    cases hc : (pass1 h (a ++ b)).abort with
    | none => rfl
    | some k => simp [handleIdx, hc] at hab
  obtain ⟨e1, e2, e3, e4⟩ := pass1_throw a b x i h hab1
  have hab2 : (pass2 (pass1 h (a ++ b)).heap (pass1 h (a ++ b)).dfr).abort = none := by
    cases hc : (pass2 (pass1 h (a ++ b)).heap (pass1 h (a ++ b)).dfr).abort with
    | none => rfl
    | some k => simp [handleIdx, hab1, hc] at hab
  simp only [handleIdx, e1, e2, e3, hab1, hab2]
  exact ⟨trivial, trivial, (e4.append_right _)⟩

/-- no pop of the batch has a throwing element assignment (see `cpq_pop_throw_not_isolated` for what the code
does otherwise) -/
def NoThrowingPop (ops : List Op) : Prop := ∀ o ∈ ops, o ≠ .pop true

theorem noPopThrow_zipIdx (ops : List Op) (h : NoThrowingPop ops) : NoPopThrow ops.zipIdx := by
  intro p hp
  have := List.mem_zipIdx hp
  exact h p.1 (by obtain ⟨o, i⟩ := p; simp at this; rw [this.2]; exact List.getElem_mem _)

end TbbVerif.C13
