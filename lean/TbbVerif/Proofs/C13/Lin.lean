/-
C13 — from the simulation lemmas to the batch-level statements: linearization order over identified
operations, conservation, exception isolation.
-/
import TbbVerif.Proofs.C13.Batch

namespace TbbVerif.C13

/-- a permutation of the image lifts to a permutation of the source -/
theorem perm_of_map_perm {α β : Type} (f : α → β) :
    ∀ (l2 : List β) (l1 : List α), l2.Perm (l1.map f) → ∃ l1' : List α, l1'.Perm l1 ∧ l1'.map f = l2 := by
  intro l2
  induction l2 with
  | nil =>
    intro l1 h
    have : l1.map f = [] := List.Perm.eq_nil h.symm
    have : l1 = [] := by simpa using this
    exact ⟨[], by rw [this], rfl⟩
  | cons b l2 ih =>
    intro l1 h
    have hb : b ∈ l1.map f := h.mem_iff.mp (by simp)
    obtain ⟨a, ha, rfl⟩ := List.mem_map.mp hb
    obtain ⟨p, q, rfl⟩ := List.append_of_mem ha
    have h' : (f a :: l2).Perm (f a :: (p ++ q).map f) := by
      refine h.trans ?_
      simp only [List.map_append, List.map_cons]
      exact List.perm_middle
    obtain ⟨l', hl', hm⟩ := ih (p ++ q) h'.cons_inv
    exact ⟨a :: l', (hl'.cons a).trans List.perm_middle.symm, by simp [hm]⟩

/-! ### `finish` -/

theorem finish_spec (h : Heap) (w : WF h) :
    WF (finish h) ∧ (finish h).mark = (finish h).data.length ∧ (finish h).data.Perm h.data := by
  unfold finish
  split
  · obtain ⟨a, b, c, d⟩ := heapify_spec h w.1 w.2
    exact ⟨⟨by omega, a⟩, by omega, c⟩
  · have : h.mark = h.data.length := by have := w.1; omega
    exact ⟨w, this, List.Perm.refl _⟩

/-! ### every operation gets exactly one status -/

def tag (e : Ev) : Op × Nat := (e.op, e.idx)

theorem pass2_log (dfr : List Nat) : ∀ h : Heap, (pass2 h dfr).2.map tag = dfr.map (fun i => (Op.pop, i)) := by
  induction dfr with
  | nil => intro h; rfl
  | cons i rest ih =>
    intro h
    simp only [pass2]
    split
    · simp [tag, ih]
    · split <;> simp [tag, ih]

theorem pass1_log (ops : List (Op × Nat)) : ∀ h : Heap,
    ((pass1 h ops).2.1.map tag ++ (pass1 h ops).2.2.map (fun i => (Op.pop, i))).Perm ops := by
  induction ops with
  | nil => intro h; simp [pass1]
  | cons o rest ih =>
    intro h
    obtain ⟨op, i⟩ := o
    cases op with
    | pop =>
      simp only [pass1]
      split
      · simpa [tag] using ih _
      · have := ih h
        simp only [List.map_append, List.map_cons, List.map_nil]
        rw [← List.append_assoc]
        exact (List.perm_append_comm).trans (this.cons _)
    | push x thr =>
      simp only [pass1]
      split <;> simpa [tag] using ih _

theorem handleIdx_log (h : Heap) (ops : List (Op × Nat)) : ((handleIdx h ops).2.map tag).Perm ops := by
  simp only [handleIdx, List.map_append, pass2_log]
  exact pass1_log ops h

/-! ### linearization -/

theorem heapPart_full (h : Heap) (hf : h.mark = h.data.length) : heapPart h = h.data ∧ pend h = [] := by
  simp [heapPart, pend, hf]

/-- value-level linearization of a whole batch -/
theorem handleIdx_lin_strip (h : Heap) (ops : List (Op × Nat)) (w : WF h) (hf : h.mark = h.data.length) :
    ∃ lin sf, lin.Perm (strip (handleIdx h ops).2) ∧ specRun h.data lin = some sf ∧
      sf.Perm (handleIdx h ops).1.data := by
  obtain ⟨hp, hpe⟩ := heapPart_full h hf
  obtain ⟨lin1, s1, hrun1, hsim1, hp1⟩ := pass1_lin ops h h.data ⟨w, by rw [hp]⟩
  obtain ⟨lin2, s2, hrun2, hsim2, hp2⟩ := pass2_lin (pass1 h ops).2.2 (pass1 h ops).1 s1 hsim1
  obtain ⟨wfin, _, hfin⟩ := finish_spec _ hsim2.1
  refine ⟨lin1 ++ lin2 ++ pushes (pend (pass2 (pass1 h ops).1 (pass1 h ops).2.2).1),
    (pend (pass2 (pass1 h ops).1 (pass1 h ops).2.2).1).reverse ++ s2, ?_, ?_, ?_⟩
  · rw [hpe] at hp1
    simp only [handleIdx, strip, List.map_append, pushes, List.map_nil, List.nil_append] at *
    rw [List.perm_iff_count] at *
    intro a; have := hp1 a; have := hp2 a
    simp only [List.count_append] at *; omega
  · rw [specRun_append, specRun_append, hrun1]
    simp only [Option.bind_some, hrun2]
    exact specRun_pushes _ _
  · simp only [handleIdx]
    refine List.Perm.trans ?_ hfin.symm
    have e : heapPart (pass2 (pass1 h ops).1 (pass1 h ops).2.2).1 ++ pend (pass2 (pass1 h ops).1 (pass1 h ops).2.2).1
        = (pass2 (pass1 h ops).1 (pass1 h ops).2.2).1.data := List.take_append_drop _ _
    rw [← e]
    exact (List.perm_append_comm).trans ((hsim2.2).append (List.reverse_perm _))

/-- linearization over identified operations -/
theorem handleIdx_lin (h : Heap) (ops : List (Op × Nat)) (w : WF h) (hf : h.mark = h.data.length) :
    ∃ (lin : List Ev) (sf : List Nat), lin.Perm (handleIdx h ops).2 ∧ specRun h.data (strip lin) = some sf ∧
      sf.Perm (handleIdx h ops).1.data := by
  obtain ⟨lin, sf, hp, hrun, hfin⟩ := handleIdx_lin_strip h ops w hf
  obtain ⟨lin', hl', hm⟩ := perm_of_map_perm (fun e : Ev => (e.op, e.res)) lin _ hp
  exact ⟨lin', sf, hl', by simpa [strip, hm] using hrun, hfin⟩

/-! ### conservation -/

/-- values returned by successful pops -/
def popped (l : List (Op × Res)) : List Nat := l.filterMap (fun e => match e with | (_, .popOk v) => some v | _ => none)
/-- values inserted by successful pushes -/
def pushed (l : List (Op × Res)) : List Nat := l.filterMap (fun e => match e with | (.push x _, .pushOk) => some x | _ => none)

theorem specRun_conserves (lin : List (Op × Res)) : ∀ (s sf : List Nat), specRun s lin = some sf →
    (sf ++ popped lin).Perm (s ++ pushed lin) := by
  induction lin with
  | nil => intro s sf h; simp only [specRun, Option.some.injEq] at h; subst h; simp [popped, pushed]
  | cons e es ih =>
    intro s sf h
    simp only [specRun] at h
    obtain ⟨op, res⟩ := e
    cases op with
    | push x thr =>
      cases res <;> cases thr <;> simp only [specStep, Option.bind_none, Option.bind_some] at h <;> try exact absurd h (by simp)
      · have := ih _ _ h
        simp only [popped, pushed, List.filterMap_cons] at *
        rw [List.perm_iff_count] at *
        intro a; have := this a
        simp only [List.count_append, List.count_cons] at *; omega
      · have := ih _ _ h
        simpa [popped, pushed, List.filterMap_cons] using this
    | pop =>
      cases res <;> simp only [specStep, Option.bind_none] at h <;> try exact absurd h (by simp)
      · rename_i v
        split at h
        · rename_i hc
          simp only [Option.bind_some] at h
          have := ih _ _ h
          have hc1 := List.perm_cons_erase hc.1
          simp only [popped, pushed, List.filterMap_cons] at *
          rw [List.perm_iff_count] at *
          intro a; have := this a; have := hc1 a
          simp only [List.count_append, List.count_cons] at *; omega
        · simp at h
      · split at h
        · simp only [Option.bind_some] at h
          have := ih _ _ h
          simpa [popped, pushed, List.filterMap_cons] using this
        · simp at h

theorem handleIdx_conserves (h : Heap) (ops : List (Op × Nat)) (w : WF h) (hf : h.mark = h.data.length) :
    ((handleIdx h ops).1.data ++ popped (strip (handleIdx h ops).2)).Perm
      (h.data ++ pushed (strip (handleIdx h ops).2)) := by
  obtain ⟨lin, sf, hp, hrun, hfin⟩ := handleIdx_lin_strip h ops w hf
  have c := specRun_conserves lin _ _ hrun
  have p1 : (popped lin).Perm (popped (strip (handleIdx h ops).2)) := hp.filterMap _
  have p2 : (pushed lin).Perm (pushed (strip (handleIdx h ops).2)) := hp.filterMap _
  exact ((hfin.symm.append p1.symm).trans c).trans ((List.Perm.refl _).append p2)

/-! ### a throwing copy is isolated -/

theorem pass1_throw (a b : List (Op × Nat)) (x i : Nat) : ∀ h : Heap,
    (pass1 h (a ++ (.push x true, i) :: b)).1 = (pass1 h (a ++ b)).1 ∧
    (pass1 h (a ++ (.push x true, i) :: b)).2.2 = (pass1 h (a ++ b)).2.2 ∧
    (pass1 h (a ++ (.push x true, i) :: b)).2.1.Perm (⟨i, .push x true, .pushFailed⟩ :: (pass1 h (a ++ b)).2.1) := by
  induction a with
  | nil => intro h; simp [pass1]
  | cons o rest ih =>
    intro h
    obtain ⟨op, j⟩ := o
    cases op with
    | pop =>
      simp only [List.cons_append, pass1]
      split
      · obtain ⟨e1, e2, e3⟩ := ih { h with data := h.data.dropLast }
        exact ⟨e1, e2, (e3.cons _).trans (List.Perm.swap _ _ _)⟩
      · obtain ⟨e1, e2, e3⟩ := ih h
        exact ⟨e1, by rw [e2], e3⟩
    | push y thr =>
      simp only [List.cons_append, pass1]
      split
      · obtain ⟨e1, e2, e3⟩ := ih h
        exact ⟨e1, e2, (e3.cons _).trans (List.Perm.swap _ _ _)⟩
      · obtain ⟨e1, e2, e3⟩ := ih { h with data := h.data ++ [y] }
        exact ⟨e1, e2, (e3.cons _).trans (List.Perm.swap _ _ _)⟩

theorem handleIdx_throw (h : Heap) (a b : List (Op × Nat)) (x i : Nat) :
    (handleIdx h (a ++ (.push x true, i) :: b)).1 = (handleIdx h (a ++ b)).1 ∧
    (handleIdx h (a ++ (.push x true, i) :: b)).2.Perm (⟨i, .push x true, .pushFailed⟩ :: (handleIdx h (a ++ b)).2) := by
  obtain ⟨e1, e2, e3⟩ := pass1_throw a b x i h
  simp only [handleIdx, e1, e2]
  exact ⟨trivial, (e3.append_right _)⟩

end TbbVerif.C13
