/-
C13 — what one step of `Agg` changes, per class of program counter (frame lemmas for the history proof).
-/
import TbbVerif.Proofs.C13.Results

namespace TbbVerif.C13

theorem adv1_other (s : St) (t u : Tid) (h : u ≠ t) : ((adv1 s t).ths u) = (s.ths u) := by
  unfold adv1; dsimp only
  split
  · simp [h]
  · split <;> simp [h]

theorem adv2_other (s : St) (t u : Tid) (h : u ≠ t) : ((adv2 s t).ths u) = (s.ths u) := by
  unfold adv2; dsimp only
  split <;> simp [h]

theorem adv1_plist (s : St) (t : Tid) : (adv1 s t).plist = s.plist ∧ (adv1 s t).unset = s.unset ∧ (adv1 s t).busy = s.busy := by
  unfold adv1; dsimp only
  split
  · exact ⟨rfl, rfl, rfl⟩
  · split <;> exact ⟨rfl, rfl, rfl⟩

theorem adv2_plist (s : St) (t : Tid) : (adv2 s t).plist = s.plist ∧ (adv2 s t).unset = s.unset ∧ (adv2 s t).busy = s.busy := by
  unfold adv2; dsimp only
  split <;> exact ⟨rfl, rfl, rfl⟩

/-- after the loop test the handler is at the next node, at the start of pass 2, or at the release -/
theorem adv1_self (s : St) (t : Tid) :
    (((adv1 s t).ths t).pc = .p1Load ∨ ((adv1 s t).ths t).pc = .p2Load ∨ ((adv1 s t).ths t).pc = .release) ∧
    ((adv1 s t).ths t).op = (s.ths t).op ∧ ((adv1 s t).ths t).status = (s.ths t).status ∧
    ((adv1 s t).ths t).elem = (s.ths t).elem ∧ ((adv1 s t).ths t).eptr = (s.ths t).eptr ∧
    ((adv1 s t).ths t).results = (s.ths t).results ∧ ((adv1 s t).ths t).todo = (s.ths t).todo := by
  unfold adv1; dsimp only
  split
  · simp
  · split <;> simp

theorem adv2_self (s : St) (t : Tid) :
    (((adv2 s t).ths t).pc = .p2Load ∨ ((adv2 s t).ths t).pc = .release) ∧
    ((adv2 s t).ths t).op = (s.ths t).op ∧ ((adv2 s t).ths t).status = (s.ths t).status ∧
    ((adv2 s t).ths t).elem = (s.ths t).elem ∧ ((adv2 s t).ths t).eptr = (s.ths t).eptr ∧
    ((adv2 s t).ths t).results = (s.ths t).results ∧ ((adv2 s t).ths t).todo = (s.ths t).todo := by
  unfold adv2; dsimp only
  split <;> simp

/-- a step changes the program counter of the stepping thread only -/
theorem pc_other (s : St) (t u : Tid) (h : u ≠ t) : ((aggStep s t).ths u).pc = (s.ths u).pc := by
  cases hpc : (s.ths t).pc <;> unfold aggStep <;> simp only [hpc, unwind] <;> (repeat' split) <;>
    (try simp only [adv1_other _ _ _ h, adv2_other _ _ _ h]) <;>
    (try simp only [modTh_ths, h, if_false]) <;> (repeat' split) <;> (try rfl)

/-- the pending list changes at a successful CAS (push) and at the exchange (emptied) only -/
theorem plist_step (s : St) (t : Tid) :
    (aggStep s t).plist =
      if (s.ths t).pc = .cas ∧ headNode s = (s.ths t).res then t :: s.plist
      else if (s.ths t).pc = .grab then [] else s.plist := by
  cases hpc : (s.ths t).pc <;> unfold aggStep <;> simp only [hpc, unwind] <;> (repeat' split) <;>
    (try simp only [(adv1_plist _ _).1, (adv2_plist _ _).1]) <;>
    (try simp only [modTh_plist]) <;> simp_all

/-- a step of a thread that is not handling a batch and does not grab one touches only that thread's record
(and the pending list / `handler_busy`) -/
theorem nonhandler_frame (s : St) (t : Tid) (hh : (s.ths t).pc.handling = false) (hg : (s.ths t).pc ≠ .grab) :
    (aggStep s t).heap = s.heap ∧ (aggStep s t).unset = s.unset ∧ (aggStep s t).mySize = s.mySize ∧
    (∀ a, a ≠ t → (aggStep s t).ths a = s.ths a) ∧ ((aggStep s t).ths t).pc.handling = false := by
  cases hpc : (s.ths t).pc <;> simp [hpc, Pc.handling] at hh hg <;> unfold aggStep <;> simp only [hpc] <;>
    (repeat' split) <;>
    refine ⟨rfl, rfl, rfl, fun a ha => by simp [ha], ?_⟩ <;>
    first
      | (simp [hpc, Pc.handling]; done)
      | (simp only [modTh_ths, if_true]; split <;> rfl)

/-- what the result of a call is computed from -/
def resKey (th : Th) : Op × Nat × Option Elem × Bool := (th.op, th.status, th.elem, th.eptr)

theorem resultOfCall_key (a b : Th) (h : resKey a = resKey b) : resultOfCall a = resultOfCall b := by
  simp only [resKey, Prod.mk.injEq] at h
  obtain ⟨h1, h2, h3, h4⟩ := h
  unfold resultOfCall
  rw [h1, h2, h3, h4]

/-- the pending-operation account `unset`: filled by the exchange, emptied one by one by the status stores -/
theorem unset_step (s : St) (t : Tid) :
    (aggStep s t).unset =
      if (s.ths t).pc = .grab then s.plist
      else if (s.ths t).pc = .p1Status ∨ (s.ths t).pc = .p2Status then s.unset.erase (s.ths t).tmp else s.unset := by
  cases hpc : (s.ths t).pc <;> unfold aggStep <;> simp only [hpc, unwind] <;> (repeat' split) <;>
    (try simp only [(adv1_plist _ _).2.1, (adv2_plist _ _).2.1]) <;>
    (try simp only [modTh_unset]) <;> simp_all

/-- the handler stays a handler until it releases `handler_busy` (no pop assignment throws) -/
theorem handling_next (s : St) (t : Tid) (hnt : NT s) (hh : (s.ths t).pc.handling = true) (hr : (s.ths t).pc ≠ .release) :
    ((aggStep s t).ths t).pc.handling = true := by
  have key1 : ∀ s1 : St, ((adv1 s1 t).ths t).pc.handling = true := by
    intro s1; rcases (adv1_self s1 t).1 with h | h | h <;> simp [h, Pc.handling]
  have key2 : ∀ s1 : St, ((adv2 s1 t).ths t).pc.handling = true := by
    intro s1; rcases (adv2_self s1 t).1 with h | h <;> simp [h, Pc.handling]
  cases hpc : (s.ths t).pc <;> simp [hpc, Pc.handling] at hh hr <;> unfold aggStep <;> simp only [hpc] <;>
    (repeat' split) <;>
    first
      | exact key1 _
      | exact key2 _
      | (simp [Pc.handling]; done)
      | (exfalso
         have h1 : ∃ u thr, (s.ths u).op = Op.pop thr ∧ thr = true := ⟨_, _, by assumption, by assumption⟩
         obtain ⟨u, thr, h1, h2⟩ := h1
         have := (hnt u).1; rw [h1, h2] at this; simp [popThrows] at this)
      | (exfalso
         have h1 : ∃ u, popThrows (s.ths u).op = true := ⟨_, by assumption⟩
         obtain ⟨u, h1⟩ := h1
         have := (hnt u).1; rw [h1] at this; simp at this)

theorem adv1_key (s : St) (t u : Tid) : resKey ((adv1 s t).ths u) = resKey (s.ths u) := by
  by_cases h : u = t
  · subst h
    obtain ⟨_, a, b, c, d, _⟩ := adv1_self s u
    simp [resKey, a, b, c, d]
  · rw [adv1_other _ _ _ h]

theorem adv2_key (s : St) (t u : Tid) : resKey ((adv2 s t).ths u) = resKey (s.ths u) := by
  by_cases h : u = t
  · subst h
    obtain ⟨_, a, b, c, d, _⟩ := adv2_self s u
    simp [resKey, a, b, c, d]
  · rw [adv2_other _ _ _ h]

theorem modTh_key (s : St) (t : Tid) (f : Th → Th) (hf : ∀ x, resKey (f x) = resKey x) (u : Tid) :
    resKey ((s.modTh t f).ths u) = resKey (s.ths u) := by
  simp only [modTh_ths]; split
  · exact hf _
  · rfl

/-- steps that leave every operation's (op, status, elem, eptr) alone -/
theorem reskey_quiet (s : St) (t : Tid)
    (hpc : (s.ths t).pc ≠ .idle ∧ (s.ths t).pc ≠ .p1Load ∧ (s.ths t).pc ≠ .p2Load ∧ (s.ths t).pc ≠ .p1Status ∧
      (s.ths t).pc ≠ .p2Status) (u : Tid) :
    resKey ((aggStep s t).ths u) = resKey (s.ths u) := by
  obtain ⟨h1, h2, h3, h4, h5⟩ := hpc
  cases hp : (s.ths t).pc <;> simp [hp] at h1 h2 h3 h4 h5 <;> unfold aggStep <;> simp only [hp] <;>
    (repeat' split) <;> (try simp only [adv1_key, adv2_key]) <;>
    first
      | rfl
      | (apply modTh_key; intro x; rfl)
      | (refine (modTh_key _ _ _ ?_ _).trans (modTh_key _ _ _ ?_ _) <;> (intro x; rfl))
      | skip

theorem modTh2_key_or (s : St) (v t u : Tid) (f g : Th → Th) (hg : ∀ x, resKey (g x) = resKey x) :
    resKey (((s.modTh v f).modTh t g).ths u) = resKey (s.ths u) ∨ u = v := by
  by_cases e : u = v
  · right; exact e
  · left
    refine (modTh_key _ t g hg u).trans ?_
    simp only [modTh_ths, e, if_false]

theorem modTh2_key_head (s : St) (v t u : Tid) (f g : Th → Th) (hg : ∀ x, resKey (g x) = resKey x)
    (l rest : List Tid) (hl : l = v :: rest) :
    resKey (((s.modTh v f).modTh t g).ths u) = resKey (s.ths u) ∨ l.head? = some u := by
  rcases modTh2_key_or s v t u f g hg with h | h
  · left; exact h
  · right; subst h; simp [hl]

/-- taking a node off a list writes at most `*elem` of that node's operation -/
theorem reskey_load (s : St) (t : Tid) (hnt : NT s) (hpc : (s.ths t).pc = .p1Load ∨ (s.ths t).pc = .p2Load) (u : Tid) :
    resKey ((aggStep s t).ths u) = resKey (s.ths u) ∨ (s.ths t).rem.head? = some u := by
  rcases hpc with hp | hp <;> unfold aggStep <;> simp only [hp] <;> (repeat' split) <;>
    (try simp only [adv1_key, adv2_key]) <;>
    first
      | (left; rfl)
      | (left; apply modTh_key; intro x; rfl)
      | exact modTh2_key_head s _ t u _ _ (by intro x; rfl) _ _ (by assumption)
      | (exfalso
         have h1 : ∃ u thr, (s.ths u).op = Op.pop thr ∧ thr = true := ⟨_, _, by assumption, by assumption⟩
         obtain ⟨u, thr, h1, h2⟩ := h1
         have := (hnt u).1; rw [h1, h2] at this; simp [popThrows] at this)
      | (exfalso
         have h1 : ∃ u, popThrows (s.ths u).op = true := ⟨_, by assumption⟩
         obtain ⟨u, h1⟩ := h1
         have := (hnt u).1; rw [h1] at this; simp at this)
      | skip

/-- the status store writes `tmp->status` and nothing else of any operation -/
theorem reskey_status (s : St) (t : Tid) (hpc : (s.ths t).pc = .p1Status ∨ (s.ths t).pc = .p2Status) (u : Tid) :
    resKey ((aggStep s t).ths u) =
      if u = (s.ths t).tmp then ((s.ths u).op, (s.ths t).st, (s.ths u).elem, (s.ths u).eptr) else resKey (s.ths u) := by
  rcases hpc with hp | hp <;> unfold aggStep <;> simp only [hp] <;>
    simp only [adv1_key, adv2_key] <;>
    (refine (modTh_key _ _ _ (by intro x; rfl) _).trans ?_) <;>
    simp only [modTh_ths] <;> split <;> simp_all [resKey]

/-- `op` of a thread changes only when that thread starts its next call -/
theorem op_step (s : St) (t u : Tid) :
    ((aggStep s t).ths u).op = (s.ths u).op ∨ (u = t ∧ (s.ths t).pc = .idle) := by
  cases hpc : (s.ths t).pc <;> unfold aggStep <;> simp only [hpc, unwind] <;> (repeat' split) <;>
    (try simp only [(adv1_op _ _ _).1, (adv2_op _ _ _).1]) <;>
    (try simp only [modTh_ths])
  all_goals (repeat' split)
  all_goals (first | (left; rfl) | (left; trivial) | (subst_vars; first | (left; rfl) | (right; exact ⟨rfl, trivial⟩) | (right; exact ⟨rfl, rfl⟩)) | (simp; done) | skip)

theorem key_eptr {a b : Th} (h : resKey a = resKey b) : a.eptr = b.eptr := by
  simp only [resKey, Prod.mk.injEq] at h; exact h.2.2.2

/-- no exception pointer is ever stored as long as no pop assignment throws -/
theorem eptr_step (s : St) (t : Tid) (hnt : NT s) (h : ∀ u, (s.ths u).eptr = false) :
    ∀ u, ((aggStep s t).ths u).eptr = false := by
  intro u
  cases hpc : (s.ths t).pc <;> unfold aggStep <;> simp only [hpc, unwind] <;> (repeat' split) <;>
    (try rw [key_eptr (adv1_key _ _ _)]) <;> (try rw [key_eptr (adv2_key _ _ _)]) <;>
    (try simp only [modTh_ths]) <;> (repeat' split) <;>
    first
      | exact h _
      | (simp [h]; done)
      | (exfalso
         have h1 : ∃ u thr, (s.ths u).op = Op.pop thr ∧ thr = true := ⟨_, _, by assumption, by assumption⟩
         obtain ⟨u, thr, h1, h2⟩ := h1
         have := (hnt u).1; rw [h1, h2] at this; simp [popThrows] at this)
      | (exfalso
         have h1 : ∃ u, popThrows (s.ths u).op = true := ⟨_, by assumption⟩
         obtain ⟨u, h1⟩ := h1
         have := (hnt u).1; rw [h1] at this; simp at this)
      | skip

end TbbVerif.C13
