/-
C13 — structure of `pass1` / `pass2` over a split operation list (loop invariants of the two `while` loops of
`handle_operations`), and which result an operation gets.
-/
import TbbVerif.Proofs.C13.Lin

namespace TbbVerif.C13

/-- the first `while` loop after a prefix `a` of the list: it continues on the rest from the state reached -/
theorem pass1_append (a b : List (Op × Nat)) : ∀ h : Heap, (pass1 h a).abort = none →
    (pass1 h (a ++ b)).heap = (pass1 (pass1 h a).heap b).heap ∧
    (pass1 h (a ++ b)).log = (pass1 h a).log ++ (pass1 (pass1 h a).heap b).log ∧
    (pass1 h (a ++ b)).dfr = (pass1 (pass1 h a).heap b).dfr ++ (pass1 h a).dfr ∧
    (pass1 h (a ++ b)).abort = (pass1 (pass1 h a).heap b).abort := by
  induction a with
  | nil => intro h _; simp [pass1]
  | cons o rest ih =>
    intro h
    obtain ⟨op, i⟩ := o
    cases op with
    | pop thr =>
      by_cases hsc : shortcut h = true
      · cases thr with
        | true =>
          by_cases hg : guarded = true
          · simp only [List.cons_append, pass1, hsc, hg, if_true]
            intro hab
            obtain ⟨e1, e2, e3, e4⟩ := ih h hab
            exact ⟨e1, by simp [e2], e3, e4⟩
          · simp only [List.cons_append, pass1, hsc, hg, if_true, if_false, Bool.false_eq_true]
            intro hab; simp at hab
        | false =>
          simp only [List.cons_append, pass1, hsc, if_true, if_false, Bool.false_eq_true]
          intro hab
          obtain ⟨e1, e2, e3, e4⟩ := ih _ hab
          exact ⟨e1, by simp [e2], e3, e4⟩
      · simp only [List.cons_append, pass1, hsc, if_false, Bool.false_eq_true]
        intro hab
        obtain ⟨e1, e2, e3, e4⟩ := ih h hab
        exact ⟨e1, e2, by simp [e3], e4⟩
    | push x thr =>
      cases thr with
      | true =>
        simp only [List.cons_append, pass1, if_true]
        intro hab
        obtain ⟨e1, e2, e3, e4⟩ := ih h hab
        exact ⟨e1, by simp [e2], e3, e4⟩
      | false =>
        simp only [List.cons_append, pass1, if_false, Bool.false_eq_true]
        intro hab
        obtain ⟨e1, e2, e3, e4⟩ := ih _ hab
        exact ⟨e1, by simp [e2], e3, e4⟩

/-- the second `while` loop after a prefix of the deferred pops -/
theorem pass2_append (a b : List (Nat × Bool)) : ∀ h : Heap, (pass2 h a).abort = none →
    (pass2 h (a ++ b)).heap = (pass2 (pass2 h a).heap b).heap ∧
    (pass2 h (a ++ b)).log = (pass2 h a).log ++ (pass2 (pass2 h a).heap b).log ∧
    (pass2 h (a ++ b)).abort = (pass2 (pass2 h a).heap b).abort := by
  induction a with
  | nil => intro h _; simp [pass2]
  | cons o rest ih =>
    intro h
    obtain ⟨i, thr⟩ := o
    by_cases hemp : isEmpty2 h = true
    · simp only [List.cons_append, pass2, hemp, if_true]
      intro hab
      obtain ⟨e1, e2, e3⟩ := ih h hab
      exact ⟨e1, by simp [e2], e3⟩
    · cases thr with
      | true =>
        by_cases hg : guarded = true
        · simp only [List.cons_append, pass2, hemp, hg, if_true, if_false, Bool.false_eq_true]
          intro hab
          obtain ⟨e1, e2, e3⟩ := ih h hab
          exact ⟨e1, by simp [e2], e3⟩
        · simp only [List.cons_append, pass2, hemp, hg, if_true, if_false, Bool.false_eq_true]
          intro hab; simp at hab
      | false =>
        by_cases hsc : shortcut2 h = true
        · simp only [List.cons_append, pass2, hemp, hsc, if_true, if_false, Bool.false_eq_true]
          intro hab
          obtain ⟨e1, e2, e3⟩ := ih _ hab
          exact ⟨e1, by simp [e2], e3⟩
        · simp only [List.cons_append, pass2, hemp, hsc, if_false, Bool.false_eq_true]
          intro hab
          obtain ⟨e1, e2, e3⟩ := ih _ hab
          exact ⟨e1, by simp [e2], e3⟩

/-! ### indices -/

theorem pass1_idx (ops : List (Op × Nat)) (hnt : NoPopThrow ops) (h : Heap) :
    ((pass1 h ops).log.map (·.idx) ++ (pass1 h ops).dfr.map (·.1)).Perm (ops.map (·.2)) := by
  have := (pass1_log ops hnt h).map (fun p : Op × Nat => p.2)
  simpa [tag, List.map_append, Function.comp_def] using this

theorem pass2_idx (dfr : List (Nat × Bool)) (hnt : ∀ p ∈ dfr, p.2 = false) (h : Heap) :
    (pass2 h dfr).log.map (·.idx) = dfr.map (·.1) := by
  have := congrArg (List.map (fun p : Op × Nat => p.2)) (pass2_log dfr hnt h)
  simpa [tag, Function.comp_def] using this

theorem resultOf_append_right (l1 l2 : List Ev) (u : Nat) (h : u ∉ l1.map (·.idx)) :
    resultOf (l1 ++ l2) u = resultOf l2 u := by
  unfold resultOf
  rw [List.find?_append]
  have : l1.find? (·.idx == u) = none := by
    rw [List.find?_eq_none]
    intro e he hc
    exact h (List.mem_map.mpr ⟨e, he, by simpa using hc⟩)
  simp [this]

theorem resultOf_cons_self (e : Ev) (l : List Ev) : resultOf (e :: l) e.idx = some e.res := by
  simp [resultOf, List.find?_cons]

theorem resultOf_mem_nodup (l : List Ev) (hnd : (l.map (·.idx)).Nodup) (e : Ev) (he : e ∈ l) :
    resultOf l e.idx = some e.res := by
  induction l with
  | nil => simp at he
  | cons a l ih =>
    simp only [List.map_cons, List.nodup_cons] at hnd
    rcases List.mem_cons.mp he with rfl | he'
    · exact resultOf_cons_self _ _
    · have hne : a.idx ≠ e.idx := by
        intro hc
        exact hnd.1 (List.mem_map.mpr ⟨e, he', hc.symm⟩)
      have : resultOf (a :: l) e.idx = resultOf l e.idx := by
        simp [resultOf, List.find?_cons, hne]
      rw [this]; exact ih hnd.2 he'

end TbbVerif.C13
