/-
C17 — helper lemmas for Props/C17.lean: slab layout, interior pointers, aligned strategies, large-object placement.
-/
import TbbVerif.Proofs.C17Tables

namespace TbbVerif.C17
open TbbVerif.Cint
open TbbVerif.Generated.C17

/-! ### slab layout -/

theorem cap_mul_le (O k : Nat) (hO : 0 < O) (hk : k ≤ slabCapacity O) : k * O ≤ slabSize - sizeofBlock := by
  unfold slabCapacity at hk
  exact (Nat.le_div_iff_mul_le hO).mp hk

theorem mul_le_cap (O k : Nat) (hO : 0 < O) (h : k * O ≤ slabSize - sizeofBlock) : k ≤ slabCapacity O := by
  unfold slabCapacity
  exact (Nat.le_div_iff_mul_le hO).mpr h

theorem obj_in_slab (O k : Nat) (hO : 0 < O) (hk1 : 1 ≤ k) (hk : k ≤ slabCapacity O) :
    sizeofBlock ≤ objStart O k ∧ objStart O k + O ≤ slabSize := by
  have h := cap_mul_le O k hO hk
  have h1 : 1 * O ≤ k * O := Nat.mul_le_mul_right O hk1
  simp only [objStart, slabSize, sizeofBlock] at *
  omega

theorem obj_disjoint (O j k : Nat) (hO : 0 < O) (hk : k ≤ slabCapacity O) (hjk : j < k) :
    objStart O k + O ≤ objStart O j := by
  have h := cap_mul_le O k hO hk
  have h1 : (j + 1) * O ≤ k * O := Nat.mul_le_mul_right O hjk
  rw [Nat.add_mul] at h1
  simp only [objStart, slabSize, sizeofBlock] at *
  omega

theorem obj_aligned (O k a base : Nat) (hO : 0 < O) (hk : k ≤ slabCapacity O)
    (hb : base % slabSize = 0) (hs : slabSize % a = 0) (hoa : O % a = 0) : (base + objStart O k) % a = 0 := by
  have h := cap_mul_le O k hO hk
  have d1 : a ∣ slabSize := Nat.dvd_of_mod_eq_zero hs
  have d2 : a ∣ base := Nat.dvd_trans d1 (Nat.dvd_of_mod_eq_zero hb)
  have d3 : a ∣ k * O := Nat.dvd_trans (Nat.dvd_of_mod_eq_zero hoa) (Nat.dvd_mul_left O k)
  have d4 : a ∣ slabSize - k * O := Nat.dvd_sub d1 d3
  exact Nat.mod_eq_zero_of_dvd (Nat.dvd_add d2 d4)

theorem bumpSeq_none (O n : Nat) : bumpSeq O n none = [] := by
  cases n <;> simp [bumpSeq, bumpAlloc]

theorem bumpSeq_from (O : Nat) (hO : 0 < O) : ∀ n k, 1 ≤ k → k ≤ slabCapacity O →
    bumpSeq O n (some (slabSize - k * O)) = (List.range' k (min n (slabCapacity O + 1 - k))).map (objStart O) := by
  intro n
  induction n with
  | zero => intro k _ _; simp [bumpSeq]
  | succ n ih =>
    intro k hk1 hk
    have hle := cap_mul_le O k hO hk
    have hm : min (n + 1) (slabCapacity O + 1 - k) = min n (slabCapacity O - k) + 1 := by omega
    rw [hm, List.range'_succ, List.map_cons]
    simp only [bumpSeq, bumpAlloc]
    by_cases hnext : k + 1 ≤ slabCapacity O
    · have hle2 := cap_mul_le O (k + 1) hO hnext
      rw [Nat.add_mul] at hle2
      have hlt : ¬ (((slabSize - k * O : Nat) : Int) - (O : Int) < (sizeofBlock : Int)) := by
        simp only [slabSize, sizeofBlock] at *; omega
      have hnb : (((slabSize - k * O : Nat) : Int) - (O : Int)).toNat = slabSize - (k + 1) * O := by
        rw [Nat.add_mul]; simp only [slabSize, sizeofBlock] at *; omega
      simp only [hlt, if_false, hnb]
      rw [ih (k + 1) (by omega) hnext]
      have : slabCapacity O + 1 - (k + 1) = slabCapacity O - k := by omega
      rw [this]; rfl
    · have hcap : ¬ ((k + 1) * O ≤ slabSize - sizeofBlock) := fun h => hnext (mul_le_cap O (k + 1) hO h)
      rw [Nat.add_mul] at hcap
      have hlt : (((slabSize - k * O : Nat) : Int) - (O : Int) < (sizeofBlock : Int)) := by
        simp only [slabSize, sizeofBlock] at *; omega
      simp only [hlt, if_true, bumpSeq_none]
      have : min n (slabCapacity O - k) = 0 := by omega
      rw [this]; simp [objStart]

/-! ### interior pointers -/

theorem findAllocated_inverts (O k off : Nat) (hO : 0 < O) (hk1 : 1 ≤ k) (hk : k * O < 2 ^ 16) (hoff : off < O) :
    findAllocated O (k * O - off) = k * O := by
  have h1 : 1 * O ≤ k * O := Nat.mul_le_mul_right O hk1
  unfold findAllocated
  have hd : (k * O - off) % 2 ^ 16 = k * O - off := Nat.mod_eq_of_lt (by omega)
  simp only [hd]
  rcases Nat.eq_zero_or_pos off with h0 | hpos
  · subst h0; simp
  · obtain ⟨j, rfl⟩ : ∃ j, k = j + 1 := ⟨k - 1, by omega⟩
    have e : (j + 1) * O - off = (O - off) + O * j := by rw [Nat.add_mul, Nat.mul_comm O j]; omega
    have hr : ((j + 1) * O - off) % O = O - off := by
      rw [e, Nat.add_mul_mod_self_left]; exact Nat.mod_eq_of_lt (by omega)
    rw [hr]
    have : O - off ≠ 0 := by omega
    simp only [this, ne_eq, not_false_eq_true, if_true]
    omega

/-! ### `allocateAligned` -/

theorem pow_lt_imp (a n : Nat) (h : 2 ^ a < 2 ^ n) : a < n := by
  rcases Nat.lt_or_ge a n with h1 | h1
  · exact h1
  · have := Nat.pow_le_pow_right (show 0 < 2 by omega) h1
    omega

theorem normSize_pos (r : Nat) (h : 1 ≤ r) : normSize r = r := by
  unfold normSize; have : r ≠ 0 := by omega
  simp [this]

theorem pow_le_lit (a n v : Nat) (hv : 2 ^ n = v) (h : 2 ^ a ≤ v) : a ≤ n := pow_le_imp a n (by omega)
theorem pow_lt_lit (a n v : Nat) (hv : 2 ^ n = v) (h : 2 ^ a < v) : a < n := pow_lt_imp a n (by omega)

/-- the three outcomes of the generated case split, with what each guarantees -/
theorem aligned_cases (size a : Nat) (hs : size < 2 ^ 64) (ha : a < 64) :
    (∃ req O, alignedStrategy size (2 ^ a) = .small req false ∧ 1 ≤ req ∧ size ≤ req ∧ req ≤ fittingSize5 ∧
        objectSizeOf req = some O ∧ req ≤ O ∧ O % 2 ^ a = 0 ∧ a ≤ 10 ∧ 0 < O ∧ O ≤ slabSize - sizeofBlock) ∨
    (∃ O, alignedStrategy size (2 ^ a) = .small (size + 2 ^ a) true ∧ 7 ≤ a ∧ a ≤ 12 ∧ size + 2 ^ a ≤ fittingSize5 ∧
        objectSizeOf (size + 2 ^ a) = some O ∧ maxSegregatedObjectSize < O ∧ size + 2 ^ a ≤ O ∧ O % fittingAlignment = 0 ∧
        0 < O ∧ O ≤ slabSize - sizeofBlock) ∨
    (alignedStrategy size (2 ^ a) = .large (max largeObjectAlignment (2 ^ a)) ∧
        (fittingSize5 < size ∨ (fittingAlignment < 2 ^ a ∧ fittingSize5 < size + 2 ^ a))) := by
  have hp1 : 1 ≤ 2 ^ a := Nat.two_pow_pos a
  have hp63 : 2 ^ a ≤ 2 ^ 63 := Nat.pow_le_pow_right (by omega) (by omega)
  have hlarge : aaLargeAlign size (2 ^ a) = max largeObjectAlignment (2 ^ a) := by
    simp only [aaLargeAlign, largeObjectAlignment, gt_iff_lt, decide_eq_true_eq]
    split <;> omega
  by_cases c1 : aaCase1 size (2 ^ a) = true
  · -- case 1: table
    left
    have c1' := c1
    simp only [aaCase1, Bool.and_eq_true, decide_eq_true_eq] at c1'
    have ha10 : a ≤ 10 := pow_le_lit a 10 1024 (by decide) c1'.2
    have ht := case1_of size a (by simp only [maxSegregatedObjectSize]; omega) ha10
    unfold case1Check at ht
    split at ht
    · rename_i req hstrat
      split at ht
      · rename_i o ho
        simp only [Bool.and_eq_true, decide_eq_true_eq, and_assoc] at ht
        obtain ⟨t1, t2, t3, t4, t5⟩ := ht
        have hreq5 : req ≤ fittingSize5 := by simp only [maxSegregatedObjectSize, fittingSize5] at *; omega
        obtain ⟨i, o', _, ho', hle', _, _, _, _, _, _, _, _, _, hcap, hpos⟩ := size_table req t1 hreq5
        rw [ho] at ho'; cases ho'
        exact ⟨req, o, hstrat, t1, t2, hreq5, ho, hle', t4, ha10, hpos, hcap⟩
      · exact absurd ht (by simp)
    · exact absurd ht (by simp)
  · have c1n : ¬ (size ≤ 1024 ∧ 2 ^ a ≤ 1024) := by
      simpa only [aaCase1, Bool.and_eq_true, decide_eq_true_eq] using c1
    by_cases c2 : aaSmall size (2 ^ a) = true
    · have c2' : size < 8129 := by simpa only [aaSmall, decide_eq_true_eq] using c2
      by_cases c2a : aaNatural size (2 ^ a) = true
      · -- case 2: natural alignment of the fitting bins is enough
        left
        have c2a' : 2 ^ a ≤ 64 := by simpa only [aaNatural, decide_eq_true_eq] using c2a
        have ha6 : a ≤ 6 := pow_le_lit a 6 64 (by decide) c2a'
        have hbig : 1024 < size := by omega
        obtain ⟨i, o, _, ho, hle, _, _, _, _, h64, _, _, _, _, hcap, hpos⟩ :=
          size_table size (by omega) (by simp only [fittingSize5]; omega)
        have hstrat : alignedStrategy size (2 ^ a) = .small size false := by
          simp only [alignedStrategy, c1, c2, c2a, aaReq2]; simp
        have hd : (2:Nat) ^ a ∣ 2 ^ 6 := Nat.pow_dvd_pow 2 ha6
        have h64' : o % 64 = 0 := by
          have := h64 (by simp only [maxSegregatedObjectSize]; omega)
          simpa only [fittingAlignment] using this
        have hmod : o % 2 ^ a = 0 :=
          Nat.mod_eq_zero_of_dvd (Nat.dvd_trans hd (Nat.dvd_of_mod_eq_zero h64'))
        exact ⟨size, o, hstrat, by omega, Nat.le_refl _, by simp only [fittingSize5]; omega, ho, hle, hmod, by omega, hpos, hcap⟩
      · have c2an : 64 < 2 ^ a := by
          have : ¬ (2 ^ a ≤ 64) := by simpa only [aaNatural, decide_eq_true_eq] using c2a
          omega
        have hnowrap : (size + 2 ^ a) % 2 ^ 64 = size + 2 ^ a := Nat.mod_eq_of_lt (by omega)
        by_cases c3 : aaCase3 size (2 ^ a) = true
        · -- case 3: over-allocate and align the pointer up
          right; left
          have c3' : size + 2 ^ a < 8129 := by
            have : (size + 2 ^ a) % 2 ^ 64 < 8129 := by simpa only [aaCase3, decide_eq_true_eq] using c3
            omega
          have ha7 : 6 < a := pow_lt_lit 6 a (2 ^ a) rfl (by omega)
          have ha12 : a < 13 := pow_lt_lit a 13 8192 (by decide) (by omega)
          obtain ⟨i, o, _, ho, hle, _, _, _, _, h64, _, _, _, hseg, hcap, hpos⟩ :=
            size_table (size + 2 ^ a) (by omega) (by simp only [fittingSize5]; omega)
          have hstrat : alignedStrategy size (2 ^ a) = .small (size + 2 ^ a) true := by
            simp only [alignedStrategy, c1, c2, c2a, c3, aaReq3, hnowrap]; simp
          have hreq : 1024 < size + 2 ^ a := by omega
          exact ⟨o, hstrat, by omega, by omega, by simp only [fittingSize5]; omega, ho,
            by simp only [maxSegregatedObjectSize]; omega, hle,
            h64 (by simp only [maxSegregatedObjectSize]; omega), hpos, hcap⟩
        · right; right
          have c3' : ¬ (size + 2 ^ a < 8129) := by
            have : ¬ ((size + 2 ^ a) % 2 ^ 64 < 8129) := by simpa only [aaCase3, decide_eq_true_eq] using c3
            omega
          refine ⟨?_, Or.inr ⟨by simp only [fittingAlignment]; omega, by simp only [fittingSize5]; omega⟩⟩
          simp only [alignedStrategy, c1, c2, c2a, c3, hlarge]; simp
    · right; right
      have c2' : ¬ (size < 8129) := by simpa only [aaSmall, decide_eq_true_eq] using c2
      refine ⟨?_, Or.inl (by simp only [fittingSize5]; omega)⟩
      simp only [alignedStrategy, c1, c2, hlarge]; simp

/-! ### large-object placement -/

theorem le_alignDownN_of_dvd (x y a : Nat) (_ha : 0 < a) (hx : x % a = 0) (hxy : x ≤ y) : x ≤ alignDownN y a := by
  unfold alignDownN
  have e : x / a * a = x := Nat.div_mul_cancel (Nat.dvd_of_mod_eq_zero hx)
  have : x / a ≤ y / a := Nat.div_le_div_right hxy
  calc x = x / a * a := e.symm
    _ ≤ y / a * a := Nat.mul_le_mul_right a this

/-- a multiple of `2^a` reduced modulo `2^32` is still a multiple of `2^a` when `a ≤ 32` and is `0` otherwise -/
theorem mod32_of_multiple (d a : Nat) (hd : d % 2 ^ a = 0) :
    (a ≤ 32 → (d % 2 ^ 32) % 2 ^ a = 0) ∧ (32 < a → d % 2 ^ 32 = 0) := by
  obtain ⟨m, rfl⟩ := Nat.dvd_of_mod_eq_zero hd
  constructor
  · intro h
    have e : (2:Nat) ^ 32 = 2 ^ a * 2 ^ (32 - a) := by rw [← Nat.pow_add]; congr 1; omega
    rw [e, Nat.mul_mod_mul_left]
    exact Nat.mul_mod_right _ _
  · intro h
    have e : (2:Nat) ^ a = 2 ^ 32 * 2 ^ (a - 32) := by rw [← Nat.pow_add]; congr 1; omega
    rw [e, Nat.mul_assoc]
    exact Nat.mul_mod_right _ _

theorem llo_place_inside (lmb U size a idx : Nat) (tls : Bool) (ha : a < 64)
    (hfit : size + headersSize + 2 ^ a ≤ U) (hend : lmb + U < 2 ^ 64) :
    lmb + headersSize ≤ lloPlace lmb U size (2 ^ a) idx tls ∧
    lloPlace lmb U size (2 ^ a) idx tls + size ≤ lmb + U ∧
    lloPlace lmb U size (2 ^ a) idx tls % 2 ^ a = 0 := by
  have hA : 0 < 2 ^ a := Nat.two_pow_pos a
  have e1 : (lmb + headersSize) % 2 ^ 64 = lmb + headersSize := Nat.mod_eq_of_lt (by omega)
  have e2 : (lmb + U) % 2 ^ 64 = lmb + U := Nat.mod_eq_of_lt hend
  have e3 : subU64 (lmb + U) size = lmb + U - size := subU64_le _ _ (by omega) hend
  have earea : alignUp (lmb + headersSize) (2 ^ a) = alignUpN (lmb + headersSize) (2 ^ a) :=
    gen_alignUp _ a ha (by omega)
  have eright : alignDown (lmb + U - size) (2 ^ a) = alignDownN (lmb + U - size) (2 ^ a) :=
    gen_alignDown _ a (by omega) ha
  obtain ⟨u1, u2, u3⟩ := alignUpN_spec (lmb + headersSize) (2 ^ a) hA
  obtain ⟨d1, d2, d3⟩ := alignDownN_spec (lmb + U - size) (2 ^ a) hA
  have hle : alignUpN (lmb + headersSize) (2 ^ a) ≤ alignDownN (lmb + U - size) (2 ^ a) :=
    le_alignDownN_of_dvd _ _ _ hA u3 (by omega)
  unfold lloPlace
  simp only [e1, e2, e3, earea, eright]
  generalize hArea : alignUpN (lmb + headersSize) (2 ^ a) = area at *
  generalize hRight : alignDownN (lmb + U - size) (2 ^ a) = right at *
  have e4 : subU64 right area = right - area := subU64_le _ _ hle (by omega)
  simp only [e4]
  split
  · rename_i hc
    obtain ⟨hpd, _⟩ := hc
    have hdm : (right - area) % 2 ^ a = 0 :=
      Nat.mod_eq_zero_of_dvd (Nat.dvd_sub (Nat.dvd_of_mod_eq_zero d3) (Nat.dvd_of_mod_eq_zero u3))
    obtain ⟨m1, m2⟩ := mod32_of_multiple (right - area) a hdm
    have ha32 : a ≤ 32 := by
      rcases Nat.lt_or_ge 32 a with h | h
      · exact absurd (m2 h) hpd
      · exact h
    have hpdA := m1 ha32
    generalize hPd : (right - area) % 2 ^ 32 = pd at *
    have hpdlt : pd < 2 ^ 32 := by rw [← hPd]; exact Nat.mod_lt _ (by omega)
    have hpdle : pd ≤ right - area := by rw [← hPd]; exact Nat.mod_le _ _
    have hnum : pd / 2 ^ a % 2 ^ 32 = pd / 2 ^ a :=
      Nat.mod_eq_of_lt (Nat.lt_of_le_of_lt (Nat.div_le_self _ _) hpdlt)
    have hnumA : pd / 2 ^ a * 2 ^ a = pd := Nat.div_mul_cancel (Nat.dvd_of_mod_eq_zero hpdA)
    have hnumpos : 0 < pd / 2 ^ a := by
      rcases Nat.eq_zero_or_pos (pd / 2 ^ a) with h | h
      · rw [h] at hnumA; omega
      · exact h
    simp only [hnum]
    generalize hOff : idx % 2 ^ 32 % (pd / 2 ^ a) = off at *
    have hoff : off < pd / 2 ^ a := by rw [← hOff]; exact Nat.mod_lt _ hnumpos
    have hoffA : off * 2 ^ a < pd := by
      have := Nat.mul_lt_mul_of_pos_right hoff hA
      omega
    have e5 : off * 2 ^ a % 2 ^ 64 = off * 2 ^ a := Nat.mod_eq_of_lt (by omega)
    have e6 : (area + off * 2 ^ a) % 2 ^ 64 = area + off * 2 ^ a := Nat.mod_eq_of_lt (by omega)
    simp only [e5, e6]
    refine ⟨by omega, by omega, ?_⟩
    exact Nat.mod_eq_zero_of_dvd (Nat.dvd_add (Nat.dvd_of_mod_eq_zero u3) (Nat.dvd_mul_left _ _))
  · exact ⟨by omega, by omega, u3⟩

/-! ### free / msize find the object of an aligned pointer -/

theorem dist_eq (O k off : Nat) (hk : k * O ≤ slabSize) (hoff : off ≤ k * O) :
    slabSize - (objStart O k + off) = k * O - off := by
  unfold objStart; omega

/-- a pointer `off` bytes into the `k`-th object that is either the object start or 128-aligned in a
fitting-size slab is mapped back to the object start by `findObjectToFree`, and `findObjectSize` reports
the bytes from the pointer to the end of the object -/
theorem find_to_free (O k off : Nat) (hO : 0 < O) (hk1 : 1 ≤ k) (hk : k ≤ slabCapacity O) (hoff : off < O)
    (hcase : off = 0 ∨ (maxSegregatedObjectSize < O ∧ (objStart O k + off) % (2 * fittingAlignment) = 0)) :
    findObjectToFree O (k * O - off) = k * O ∧ findObjectSize O (k * O - off) = O - off := by
  have hle := cap_mul_le O k hO hk
  have h1 : 1 * O ≤ k * O := Nat.mul_le_mul_right O hk1
  have h16 : k * O < 2 ^ 16 := by simp only [slabSize, sizeofBlock] at hle; omega
  have hfa := findAllocated_inverts O k off hO hk1 h16 hoff
  have hd : slabSize - (k * O - off) = objStart O k + off := by
    unfold objStart; simp only [slabSize, sizeofBlock] at *; omega
  have key : findObjectToFree O (k * O - off) = k * O := by
    unfold findObjectToFree
    rcases hcase with h0 | ⟨hbig, hal⟩
    · subst h0
      simp only [Nat.sub_zero] at *
      split
      · rfl
      · split
        · rfl
        · exact hfa
    · have : ¬ O ≤ maxSegregatedObjectSize := by omega
      simp only [this, if_false, hd, hal, ne_eq, not_true_eq_false]
      exact hfa
  refine ⟨key, ?_⟩
  unfold findObjectSize
  rw [key]; omega

end TbbVerif.C17
