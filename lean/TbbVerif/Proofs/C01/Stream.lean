/- C01 — task_stream: invariant of the Stream model (lanes protected by a mutex + population bitmap). -/
import TbbVerif.Model.C01
import TbbVerif.Proofs.C01.Lists

namespace TbbVerif.C01.Stream
open Lists

/-- the thread holds the mutex of lane `t.lane` -/
def holds (t : Th) : Bool := t.pc == .setBit || t.pc == .clearBit || t.pc == .unlock
def holdsLane (i : Nat) (t : Th) : Bool := holds t && t.lane == i
def holderN (ths : List Th) (i : Nat) : Nat := ths.countP (holdsLane i)

def laneQ (s : St) (i : Nat) : List (Option Nat) := (s.lanes.getD i {}).q
def laneFlag (s : St) (i : Nat) : Bool := (s.lanes.getD i {}).flag
def bit (s : St) (i : Nat) : Bool := s.pop.getD i false

def isPush : Op → Bool | .push _ _ _ => true | _ => false

/-- thread-local part of the invariant -/
def ThOK (s : St) (t : Th) : Prop :=
  (t.pc ≠ .start → t.lane < s.n ∧ t.ops ≠ []) ∧
  (t.pc = .start → t.res = none) ∧
  ((t.pc = .popBit ∨ t.pc = .flagLoad ∨ t.pc = .flagXchg) → t.res = none) ∧
  (t.pc = .setBit → (∃ op, t.ops.head? = some op ∧ isPush op = true) ∧ t.res = none ∧ laneQ s t.lane ≠ []) ∧
  ((t.pc = .clearBit ∨ t.pc = .popBit ∨ t.pc = .again) → ∃ op, t.ops.head? = some op ∧ isPush op = false) ∧
  (t.pc = .clearBit → laneQ s t.lane = []) ∧
  (t.pc = .unlock → (bit s t.lane = true ↔ laneQ s t.lane ≠ []) ∧
      ((∃ op, t.ops.head? = some op ∧ isPush op = true) → t.res = none)) ∧
  (t.pc = .again → (∃ l i, t.ops.head? = some (.popSpecific l i)) → t.res = none)

def inLanes' (lanes : List Lane) : List Nat := (lanes.map (fun l => l.q.filterMap id)).flatten
def tOut (ths : List Th) : List Nat := (ths.map (fun t => t.out.filterMap id)).flatten
def tRes (ths : List Th) : List Nat := (ths.map (fun t => (t.res.toList))).flatten

structure SInv (s : St) : Prop where
  npos : 0 < s.n
  lenP : s.pop.length = s.n
  lenL : s.lanes.length = s.n
  nobad : s.bad = false
  L1 : ∀ i, i < s.n → (laneFlag s i = true → holderN s.ths i = 1) ∧ (laneFlag s i = false → holderN s.ths i = 0)
  L2 : ∀ (k : Nat) (t : Th), s.ths[k]? = some t → ThOK s t
  L3 : ∀ i, i < s.n → laneFlag s i = false → (bit s i = true ↔ laneQ s i ≠ [])
  C : ∀ x, s.pushed.count x = (tOut s.ths).count x + (tRes s.ths).count x + (inLanes' s.lanes).count x

theorem count_flatten_map {α} (l : List α) (f : α → List Nat) (x : Nat) :
    ((l.map f).flatten).count x = (l.map (fun t => (f t).count x)).sum := by
  rw [List.count_flatten, List.map_map]; rfl

theorem count_flatten_set {α} (l : List α) (f : α → List Nat) (k : Nat) (t t' : α) (x : Nat) (h : l[k]? = some t) :
    (((l.set k t').map f).flatten).count x + (f t).count x = ((l.map f).flatten).count x + (f t').count x := by
  rw [count_flatten_map, count_flatten_map]
  exact sum_map_set (fun t => (f t).count x) l k t t' h

theorem holderN_set (ths : List Th) (k i : Nat) (t t' : Th) (h : ths[k]? = some t) :
    holderN (ths.set k t') i + (if holdsLane i t then 1 else 0) = holderN ths i + (if holdsLane i t' then 1 else 0) :=
  countP_set_add (holdsLane i) ths k t t' h

theorem lt_of_getElem? {α} {l : List α} {k : Nat} {x : α} (h : l[k]? = some x) : k < l.length := by
  by_cases hl : k < l.length
  · exact hl
  · rw [List.getElem?_eq_none (by omega)] at h
    exact absurd h (by simp)

theorem poppedAll_eq (s : St) : poppedAll s = tOut s.ths := rfl
theorem inLanes_eq (s : St) : inLanes s = inLanes' s.lanes := rfl

theorem count_filterMap_set (r : List (Option Nat)) (i : Nat) (x : Nat) (h : i < r.length) :
    ((r.set i none).filterMap id).count x + ((r.getD i none).toList).count x = (r.filterMap id).count x := by
  induction r generalizing i with
  | nil => simp at h
  | cons a r ih =>
    cases i with
    | zero =>
      cases a <;> simp [List.count_cons]
    | succ i =>
      have := ih i (by simpa using h)
      cases a with
      | none => simpa [List.filterMap_cons] using this
      | some v =>
        simp only [List.set_cons_succ, List.filterMap_cons, id, List.count_cons, List.getD_cons_succ] at this ⊢
        omega

/-- look_specific removes exactly the task it returns -/
theorem lookSpecific_count (s : St) (q : List (Option Nat)) (iso : Nat) (x : Nat) :
    (((lookSpecific s q iso).1).filterMap id).count x + ((lookSpecific s q iso).2.toList).count x = (q.filterMap id).count x := by
  unfold lookSpecific
  simp only
  split
  · simp
  · rename_i i hi
    have hlt : i < q.reverse.length := (List.findIdx?_eq_some_iff_getElem.mp hi).1
    by_cases h0 : i = 0
    · subst h0
      simp only [if_true]
      have hne : q ≠ [] := by intro e; subst e; simp at hlt
      have e1 : q = q.dropLast ++ [q.getLast hne] := (List.dropLast_concat_getLast hne).symm
      have e2 : q.reverse.getD 0 none = q.getLast hne := by
        rw [List.getD_eq_getElem?_getD, List.getElem?_eq_getElem hlt]
        simp [List.getLast_eq_getElem]
      rw [e2]
      conv => rhs; rw [e1]
      rw [List.filterMap_append, List.count_append]
      cases q.getLast hne <;> simp
    · simp only [h0, if_false]
      have := count_filterMap_set q.reverse i x hlt
      rw [List.filterMap_reverse, List.count_reverse]
      rw [List.filterMap_reverse, List.count_reverse] at this
      exact this

end TbbVerif.C01.Stream
