/- C01 — Deque: the arbitration step of steal_task (`tail.load` after `++head`) preserves the invariant. -/
import TbbVerif.Proofs.C01.DequeThiefStep

namespace TbbVerif.C01.Deque
open Lists

/-- the logical bottom moves up by one cell whose content `r` is accounted for on the returned/inflight side -/
theorem WinOK_shift (s s' : St) (r : Option Item) (h : WinOK s) (hp : s'.pool = s.pool) (hhi : hi s' = hi s)
    (hlo : lo s' = lo s + 1) (hlt : lo s < hi s) (hcell : itemOf (cellAt s.pool (lo s)) = r)
    (hsp : s'.spawned = s.spawned)
    (hr : ∀ x, (returned s').count x + (inflight s').count x = (returned s).count x + (inflight s).count x + r.toList.count x) :
    WinOK s' := by
  have h0 := h.loNN
  have hle := h.hiLe
  refine ⟨by rw [hlo]; omega, by rw [hlo, hhi]; omega, by rw [hhi, hp]; exact hle, ?_, ?_⟩
  · intro i h1 h2
    rw [hp]; rw [hlo] at h1; rw [hhi] at h2
    exact h.noJunk i (by omega) h2
  · intro x
    have e := h.cnt x
    rw [items_cons s.pool (lo s) (hi s) h0 hlt (by omega), hcell, List.count_append] at e
    have := hr x
    rw [hsp, hp, hlo, hhi]; omega

theorem thief_step_tail (s : St) (k : Nat) (t : Thief) (h : DInv s) (hk : s.ths[k]? = some t)
    (hpc : t.pc = .tail) : DInv (stepThief s k t).1 := by
  have hth := h.thOK k t hk
  obtain ⟨ops, pc, H, H0, g, omitted, res, out⟩ := t
  simp only at hpc; subst hpc
  cases ops with
  | nil => exact h
  | cons iso rest =>
    simp only [ThiefOK] at hth
    obtain ⟨hh, h0, hlt, hom, hr, hg⟩ := hth
    subst hr
    have hcs : inCS (⟨iso :: rest, .tail, H, H0, g, omitted, none, out⟩ : Thief) = true := by simp [inCS]
    have f := inCS_facts s k _ h hk hcs
    have hlo : lo s = H0 := by rw [f.loEq]; simp [inWin]
    simp only [stepThief]
    by_cases hgt : H > s.tail
    · -- the stealing attempt failed: roll back
      simp only [hgt, if_true]
      refine thief_cs_step s (upd s s.head s.lw s.pool s.bad k ⟨iso :: rest, .rollback, H, H0, g, omitted, none, out⟩)
        k _ _ h hk hcs (by simp [inCS]) rfl rfl rfl rfl rfl rfl h.headNN ?_ rfl (fun _ => rfl) ?_
      · simp only [ThiefOK]; exact ⟨hh, h0, hlt, trivial, hg⟩
      · exact WinOK_upd_same s s.head s.bad k _ _ h hk hcs rfl rfl (by simp [inWin])
    · simp only [hgt, if_false]
      have hHhi : H ≤ hi s := by have := f.tailHi; omega
      have hnj := h.winOK.noJunk (H - 1) (by rw [hlo]; omega) (by omega)
      have hlen := h.winOK.hiLe
      split
      · rename_i hc; exact absurd hc hnj
      · -- a hole
        rename_i hc
        cases omitted with
        | true =>
          simp only [if_true]
          refine thief_cs_step s (upd s s.head s.lw s.pool s.bad k ⟨iso :: rest, .inc, H, H0, g, true, none, out⟩)
            k _ _ h hk hcs (by simp [inCS]) rfl rfl rfl rfl rfl rfl h.headNN ?_ rfl (fun _ => rfl) ?_
          · simp only [ThiefOK]; exact ⟨hh, h0, by omega, fun x => by simp at x, trivial, hg⟩
          · exact WinOK_upd_same s s.head s.bad k _ _ h hk hcs rfl rfl (by simp [inWin])
        | false =>
          simp only [Bool.false_eq_true, if_false]
          have hH0 : H0 = H - 1 := hom rfl
          refine thief_cs_step s (upd s s.head s.lw s.pool s.bad k ⟨iso :: rest, .inc, H, H, g, false, none, out⟩)
            k _ _ h hk hcs (by simp [inCS]) rfl rfl rfl rfl rfl rfl h.headNN ?_ rfl (fun _ => rfl) ?_
          · simp only [ThiefOK]; exact ⟨hh, by omega, Int.le_refl _, fun _ => trivial, trivial, hg⟩
          · refine WinOK_shift s _ none h.winOK rfl (hi_upd s _ _ _ _ k _) ?_ (by rw [hlo]; omega) ?_ rfl ?_
            · rw [lo_upd s _ _ _ _ k _ _ h hk (Or.inl hcs) f.nspec, hlo]; simp [inWin]; omega
            · rw [hlo, hH0, hc]; rfl
            · intro x
              have e1 := returned_upd s s.head s.lw s.pool s.bad k _ ⟨iso :: rest, .inc, H, H, g, false, none, out⟩ hk x
              have e2 := inflight_upd s s.head s.lw s.pool s.bad k _ ⟨iso :: rest, .inc, H, H, g, false, none, out⟩ hk x
              simp only [Option.toList, List.count_nil] at e1 e2 ⊢
              omega
      · -- a task
        rename_i x hc
        by_cases htk : thiefTakes iso x = true
        · simp only [htk, if_true]
          cases omitted with
          | false =>
            simp only [Bool.false_eq_true, if_false]
            have hH0 : H0 = H - 1 := hom rfl
            refine thief_cs_step s (upd s s.head s.lw s.pool s.bad k ⟨iso :: rest, .unlock, H, H0, g, false, some x, out⟩)
              k _ _ h hk hcs (by simp [inCS]) rfl rfl rfl rfl rfl rfl h.headNN ?_ rfl (fun _ => rfl) ?_
            · simp only [ThiefOK]; exact hg
            · refine WinOK_shift s _ (some x) h.winOK rfl (hi_upd s _ _ _ _ k _) ?_ (by rw [hlo]; omega) ?_ rfl ?_
              · rw [lo_upd s _ _ _ _ k _ _ h hk (Or.inl hcs) f.nspec, hlo]; simp [inWin]; omega
              · rw [hlo, hH0, hc]; rfl
              · intro y
                have e1 := returned_upd s s.head s.lw s.pool s.bad k _ ⟨iso :: rest, .unlock, H, H0, g, false, some x, out⟩ hk y
                have e2 := inflight_upd s s.head s.lw s.pool s.bad k _ ⟨iso :: rest, .unlock, H, H0, g, false, some x, out⟩ hk y
                simp only [Option.toList, List.count_nil] at e1 e2 ⊢
                omega
          | true =>
            simp only [if_true]
            have hHm : 0 ≤ H - 1 := by omega
            have hHl : H - 1 < (s.pool.length : Int) := by omega
            refine thief_cs_step s (upd s s.head s.lw (setCell s.pool (H - 1) .hole) s.bad k ⟨iso :: rest, .restore, H, H0, g, true, some x, out⟩)
              k _ _ h hk hcs (by simp [inCS]) rfl rfl rfl rfl rfl rfl h.headNN ?_ (setCell_length _ _ _) ?_ ?_
            · simp only [ThiefOK]
              exact ⟨hh, h0, hlt, rfl, trivial, hg⟩
            · intro hsp
              have ho := h.ownOK
              simp only [OwnerOK, hsp] at ho
              exact cellAt_setCell_ne _ _ _ _ (by omega)
            · have hlo' : lo (upd s s.head s.lw (setCell s.pool (H - 1) .hole) s.bad k ⟨iso :: rest, .restore, H, H0, g, true, some x, out⟩) = lo s := by
                rw [lo_upd s _ _ _ _ k _ _ h hk (Or.inl hcs) f.nspec, hlo]; simp [inWin]
              have hhi' := hi_upd s s.head s.lw (setCell s.pool (H - 1) .hole) s.bad k ⟨iso :: rest, .restore, H, H0, g, true, some x, out⟩
              refine ⟨by rw [hlo']; exact h.winOK.loNN, by rw [hlo', hhi']; exact h.winOK.loLeHi, by rw [hhi']; simp only [upd, setCell_length]; exact hlen, ?_, ?_⟩
              · intro i h1 h2
                rw [hlo'] at h1; rw [hhi'] at h2
                simp only [upd]
                by_cases e : H - 1 = i
                · subst e; rw [cellAt_setCell_same _ _ _ hHm hHl]; simp
                · rw [cellAt_setCell_ne _ _ _ _ e]; exact h.winOK.noJunk i h1 h2
              · intro y
                have e0 := h.winOK.cnt y
                rw [items_split s.pool (lo s) (hi s) (H - 1) h.winOK.loNN (by rw [hlo]; omega) (by omega) hlen, hc] at e0
                rw [hlo', hhi']
                simp only [upd]
                rw [items_set_inside s.pool (lo s) (hi s) (H - 1) .hole h.winOK.loNN (by rw [hlo]; omega) (by omega) hlen]
                have e1 := returned_upd s s.head s.lw (setCell s.pool (H - 1) .hole) s.bad k _ ⟨iso :: rest, .restore, H, H0, g, true, some x, out⟩ hk y
                have e2 := inflight_upd s s.head s.lw (setCell s.pool (H - 1) .hole) s.bad k _ ⟨iso :: rest, .restore, H, H0, g, true, some x, out⟩ hk y
                simp only [upd] at e1 e2
                simp only [itemOf, Option.toList, List.count_append, List.count_nil, List.append_nil] at e0 e1 e2 ⊢
                omega
        · -- the task cannot be taken by this thief: skip it
          simp only [htk, if_false]
          refine thief_cs_step s (upd s s.head s.lw s.pool s.bad k ⟨iso :: rest, .inc, H, H0, g, true, none, out⟩)
            k _ _ h hk hcs (by simp [inCS]) rfl rfl rfl rfl rfl rfl h.headNN ?_ rfl (fun _ => rfl) ?_
          · simp only [ThiefOK]; exact ⟨hh, h0, by omega, fun x => by simp at x, trivial, hg⟩
          · exact WinOK_upd_same s s.head s.bad k _ _ h hk hcs rfl rfl (by simp [inWin])

theorem thief_step (s : St) (k : Nat) (t : Thief) (h : DInv s) (hk : s.ths[k]? = some t) :
    DInv (stepThief s k t).1 := by
  cases hp : t.pc with
  | start => exact thief_step_out s k t h hk (Or.inl hp)
  | cas => exact thief_step_out s k t h hk (Or.inr hp)
  | head => exact thief_step_head s k t h hk hp
  | inc => exact thief_step_inc s k t h hk hp
  | tail => exact thief_step_tail s k t h hk hp
  | rollback => exact thief_step_store s k t h hk (Or.inl hp)
  | restore => exact thief_step_store s k t h hk (Or.inr hp)
  | unlock => exact thief_step_unlock s k t h hk hp

end TbbVerif.C01.Deque
