/-
C01 / DequeTso: kernel-checked closure of the reachable set for one Orders table (see DequeTsoCore.lean):
decRmw=false decFence=true incRmw=true incFence=false.
-/
import TbbVerif.Proofs.C01.DequeTsoCore

namespace TbbVerif.C01.DequeTso

theorem closed_0110 : closed ⟨false, true, true, false⟩ (reachSet ⟨false, true, true, false⟩) = true := by decide +kernel
theorem safe_0110 : safe (reachSet ⟨false, true, true, false⟩) = true := by decide +kernel

end TbbVerif.C01.DequeTso
