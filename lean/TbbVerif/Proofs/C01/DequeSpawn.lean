/- C01 — Deque: arena_slot::spawn steps (without relocation) preserve the invariant. -/
import TbbVerif.Proofs.C01.DequeOwner

namespace TbbVerif.C01.Deque
open Lists

theorem owner_spStore (s : St) (h : DInv s) (hpc : s.own.pc = .spStore) : DInv (stepOwner s).1 := by
  have ho := h.ownOK
  obtain ⟨cfg, head, tail, lw, pool, bad, spawned, own, ths⟩ := s
  obtain ⟨ops, pc, T0, T, H0, T1, res, omitted, poolEmpty, gen, out, freed⟩ := own
  simp only at hpc; subst hpc
  simp only [OwnerOK] at ho
  obtain ⟨⟨x, rest, hops, hcell⟩, hT, hT0, hTl, hres⟩ := ho
  subst hops hres hT
  simp only [stepOwner]
  have hw := h.winOK
  have hlo : lo (⟨cfg, head, T + 1, lw, pool, bad, x :: spawned,
      ⟨OOp.spawn x :: rest, .spPubLoad, T0, T, H0, T1, none, omitted, poolEmpty, gen, out, freed⟩, ths⟩ : St) =
      lo (⟨cfg, head, T, lw, pool, bad, spawned,
      ⟨OOp.spawn x :: rest, .spStore, T0, T, H0, T1, none, omitted, poolEmpty, gen, out, freed⟩, ths⟩ : St) := rfl
  have hhi : hi (⟨cfg, head, T, lw, pool, bad, spawned,
      ⟨OOp.spawn x :: rest, .spStore, T0, T, H0, T1, none, omitted, poolEmpty, gen, out, freed⟩, ths⟩ : St) = T := rfl
  have hl0 := hw.loNN
  have hlh := hw.loLeHi
  rw [hhi] at hlh
  refine ⟨h.cfgOK, h.nobad, h.headNN, h.unalloc, LockOK_own_same _ _ h.lockOK rfl rfl rfl rfl,
          thOK_owner _ _ h rfl (Or.inl ⟨rfl, rfl⟩), ?_, ?_⟩
  · simp only [OwnerOK]
    exact ⟨⟨x, rest, rfl⟩, trivial, by omega, by omega⟩
  · refine ⟨by rw [hlo]; exact hl0, ?_, ?_, ?_, ?_⟩
    · rw [hlo]; show _ ≤ T + 1; omega
    · show T + 1 ≤ _; simp only; omega
    · intro i h1 h2
      rw [hlo] at h1
      have h2' : i < T + 1 := h2
      by_cases e : i = T
      · subst e; simp only; rw [hcell]; simp
      · exact hw.noJunk i h1 (by rw [hhi]; omega)
    · intro y
      have e0 := hw.cnt y
      rw [hhi] at e0
      rw [hlo]
      show List.count y (x :: spawned) = _ + _ + List.count y (items pool _ (T + 1))
      rw [items_snoc pool _ T hl0 hlh hTl, hcell]
      have e1 := returned_own (⟨cfg, head, T, lw, pool, bad, spawned,
        ⟨OOp.spawn x :: rest, .spStore, T0, T, H0, T1, none, omitted, poolEmpty, gen, out, freed⟩, ths⟩ : St)
        (⟨cfg, head, T + 1, lw, pool, bad, x :: spawned,
        ⟨OOp.spawn x :: rest, .spPubLoad, T0, T, H0, T1, none, omitted, poolEmpty, gen, out, freed⟩, ths⟩ : St) rfl y
      have e2 := inflight_own (⟨cfg, head, T, lw, pool, bad, spawned,
        ⟨OOp.spawn x :: rest, .spStore, T0, T, H0, T1, none, omitted, poolEmpty, gen, out, freed⟩, ths⟩ : St)
        (⟨cfg, head, T + 1, lw, pool, bad, x :: spawned,
        ⟨OOp.spawn x :: rest, .spPubLoad, T0, T, H0, T1, none, omitted, poolEmpty, gen, out, freed⟩, ths⟩ : St) rfl y
      simp only [itemOf, Option.toList, List.count_append, List.count_cons, List.count_nil] at e0 e1 e2 ⊢
      omega

theorem owner_spawn_start (s : St) (x : Item) (rest : List OOp) (h : DInv s) (hpc : s.own.pc = .start)
    (hops : s.own.ops = .spawn x :: rest) : DInv (stepOwner s).1 := by
  have ho := h.ownOK
  have hw := h.winOK
  have hun := h.unalloc
  have hcfg := h.cfgOK
  obtain ⟨cfg, head, tail, lw, pool, bad, spawned, own, ths⟩ := s
  obtain ⟨ops, pc, T0, T, H0, T1, res, omitted, poolEmpty, gen, out, freed⟩ := own
  simp only at hpc hops hun hcfg; subst hpc hops
  simp only [OwnerOK] at ho
  obtain ⟨hres, hom, hpe, ht0⟩ := ho
  subst hres
  have hhi : hi (⟨cfg, head, tail, lw, pool, bad, spawned,
      ⟨OOp.spawn x :: rest, .start, T0, T, H0, T1, none, omitted, poolEmpty, gen, out, freed⟩, ths⟩ : St) = tail := rfl
  have hle := hw.hiLe
  rw [hhi] at hle
  simp only at hle
  simp only [stepOwner]
  by_cases hfit : tail + 1 ≤ (pool.length : Int)
  · -- the task fits: task_pool_ptr[T] = &t
    simp only [hfit, if_true, placeSpawn]
    refine ⟨h.cfgOK, h.nobad, h.headNN, ?_, LockOK_own_same _ _ h.lockOK rfl rfl rfl rfl,
            thOK_owner _ _ h rfl (Or.inl ⟨rfl, rfl⟩), ?_, ?_⟩
    · intro hz; simp only [setCell_length] at hz; exact h.unalloc hz
    · simp only [OwnerOK, setCell_length]
      exact ⟨⟨x, rest, rfl, cellAt_setCell_same _ _ _ ht0 (by omega)⟩, trivial, ht0, by omega, trivial⟩
    · exact WinOK_setCell_out _ _ tail (.item x) hw rfl rfl (Or.inr (by rw [hhi]; exact Int.le_refl _)) rfl rfl rfl rfl rfl rfl
  · simp only [hfit, if_false]
    by_cases hz : pool.length = 0
    · -- first allocation
      simp only [hz, if_true, placeSpawn]
      have hlw : lw = .empty := hun hz
      have h0 : csN ths = 0 := by
        have := h.lockOK.lock (by rfl)
        have hle2 := h.lockOK.csLe
        simp only at this hle2
        rw [hlw] at this; simp at this; omega
      have htz : tail = 0 := by simp only [hz] at hle; omega
      subst htz
      have hn : 0 < roundUp cfg cfg.minSize := by
        have := roundUp_ge cfg cfg.minSize hcfg.1
        omega
      have hlo0 := hw.loNN
      have hlh := hw.loLeHi
      rw [hhi] at hlh
      refine ⟨h.cfgOK, h.nobad, h.headNN, ?_, ?_, thOK_owner _ _ h rfl (Or.inr h0), ?_, ?_⟩
      · intro _; exact hlw
      · exact LockOK_noCS _ _ h0 rfl (Or.inr hlw) (fun he => by simp [ownerExcl] at he)
      · simp only [OwnerOK, setCell_length, List.length_replicate]
        exact ⟨⟨x, rest, rfl, cellAt_setCell_same _ _ _ (Int.le_refl 0) (by simp only [List.length_replicate]; omega)⟩,
               trivial, Int.le_refl 0, by omega, trivial⟩
      · have hlo' : lo (⟨cfg, head, 0, lw, setCell (List.replicate (roundUp cfg cfg.minSize) Cell.junk) 0 (.item x), bad, spawned,
            ⟨OOp.spawn x :: rest, .spStore, T0, 0, H0, T1, none, omitted, poolEmpty, gen + 1, out, freed⟩, ths⟩ : St) =
            lo (⟨cfg, head, 0, lw, pool, bad, spawned,
            ⟨OOp.spawn x :: rest, .start, T0, T, H0, T1, none, omitted, poolEmpty, gen, out, freed⟩, ths⟩ : St) := rfl
        refine ⟨by rw [hlo']; exact hlo0, by rw [hlo']; exact hlh, ?_, ?_, ?_⟩
        · show (0 : Int) ≤ _; omega
        · intro i h1 h2
          rw [hlo'] at h1
          have h2' : i < 0 := h2
          omega
        · intro y
          have e0 := hw.cnt y
          rw [hhi, items_empty _ _ _ hlo0] at e0
          rw [hlo']
          show List.count y spawned = _ + _ + List.count y (items _ _ 0)
          rw [items_empty _ _ _ hlo0]
          exact e0
    · -- the pool is full: acquire_task_pool, then relocate
      simp only [hz, if_false]
      exact owner_frame _ _ h rfl rfl rfl rfl rfl rfl rfl rfl rfl rfl rfl rfl rfl rfl
        (by simp only [OwnerOK]; exact ⟨⟨x, rest, rfl⟩, trivial, trivial⟩)

theorem owner_spPubLoad (s : St) (h : DInv s) (hpc : s.own.pc = .spPubLoad) : DInv (stepOwner s).1 := by
  have ho := h.ownOK
  obtain ⟨cfg, head, tail, lw, pool, bad, spawned, own, ths⟩ := s
  obtain ⟨ops, pc, T0, T, H0, T1, res, omitted, poolEmpty, gen, out, freed⟩ := own
  simp only at hpc; subst hpc
  simp only [OwnerOK] at ho
  obtain ⟨⟨x, rest, hops⟩, hres, ht0, hlen⟩ := ho
  subst hops hres
  simp only [stepOwner]
  by_cases hl : lw = .empty
  · simp only [hl, if_true]
    subst hl
    exact owner_frame _ _ h rfl rfl rfl rfl rfl rfl rfl rfl rfl rfl rfl rfl rfl rfl
      (by simp only [OwnerOK]; exact ⟨⟨x, rest, rfl⟩, trivial, ht0, hlen, trivial⟩)
  · simp only [hl, if_false, Owner.fin]
    exact owner_frame _ _ h rfl rfl rfl rfl rfl rfl rfl rfl rfl rfl rfl rfl rfl rfl
      (by simp only [OwnerOK]; exact ⟨trivial, trivial, trivial, ht0⟩)

theorem owner_spPub (s : St) (h : DInv s) (hpc : s.own.pc = .spPub) : DInv (stepOwner s).1 := by
  have ho := h.ownOK
  have hw := h.winOK
  obtain ⟨cfg, head, tail, lw, pool, bad, spawned, own, ths⟩ := s
  obtain ⟨ops, pc, T0, T, H0, T1, res, omitted, poolEmpty, gen, out, freed⟩ := own
  simp only at hpc; subst hpc
  simp only [OwnerOK] at ho
  obtain ⟨⟨x, rest, hops⟩, hres, ht0, hlen, hlw⟩ := ho
  subst hops hres hlw
  have h0 : csN ths = 0 := by
    have := h.lockOK.lock (by rfl)
    have hle2 := h.lockOK.csLe
    simp only at this hle2
    simp at this; omega
  simp only [stepOwner, Owner.fin]
  refine ⟨h.cfgOK, h.nobad, h.headNN, ?_, LockOK_noCS _ _ h0 rfl (Or.inl rfl) (fun he => by simp [ownerExcl] at he),
          thOK_owner _ _ h rfl (Or.inl ⟨rfl, rfl⟩), ?_, ?_⟩
  · intro hz; simp only at hz; omega
  · simp only [OwnerOK]; exact ⟨trivial, trivial, trivial, ht0⟩
  · exact WinOK_own_same _ _ hw rfl rfl rfl rfl rfl rfl rfl rfl

end TbbVerif.C01.Deque
