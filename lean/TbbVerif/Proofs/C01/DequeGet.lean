/- C01 — Deque: get_task steps other than get_task_impl (inspection of a cell) preserve the invariant. -/
import TbbVerif.Proofs.C01.DequeGrow

namespace TbbVerif.C01.Deque
open Lists

theorem owner_get_start (s : St) (iso : Nat) (rest : List OOp) (h : DInv s) (hpc : s.own.pc = .start)
    (hops : s.own.ops = .get iso :: rest) : DInv (stepOwner s).1 := by
  have ho := h.ownOK
  obtain ⟨cfg, head, tail, lw, pool, bad, spawned, own, ths⟩ := s
  obtain ⟨ops, pc, T0, T, H0, T1, res, omitted, poolEmpty, gen, out, freed⟩ := own
  simp only at hpc hops; subst hpc hops
  simp only [OwnerOK] at ho
  obtain ⟨hres, hom, hpe, ht0⟩ := ho
  subst hres hom hpe
  simp only [stepOwner]
  by_cases hl : lw = .empty
  · simp only [hl, if_true, Owner.fin]
    subst hl
    exact owner_frame _ _ h rfl rfl rfl rfl rfl rfl rfl rfl (by simp) rfl rfl rfl rfl rfl
      (by simp only [OwnerOK]; exact ⟨trivial, trivial, trivial, ht0⟩)
  · simp only [hl, if_false]
    exact owner_frame _ _ h rfl rfl rfl rfl rfl rfl rfl rfl rfl rfl rfl rfl rfl rfl
      (by simp only [OwnerOK]; exact ⟨⟨iso, rest, rfl⟩, trivial, trivial, trivial⟩)

theorem owner_gT0 (s : St) (h : DInv s) (hpc : s.own.pc = .gT0) : DInv (stepOwner s).1 := by
  have ho := h.ownOK
  obtain ⟨cfg, head, tail, lw, pool, bad, spawned, own, ths⟩ := s
  obtain ⟨ops, pc, T0, T, H0, T1, res, omitted, poolEmpty, gen, out, freed⟩ := own
  simp only at hpc; subst hpc
  simp only [OwnerOK] at ho
  obtain ⟨⟨iso, rest, hops⟩, hres, hom, hpe⟩ := ho
  subst hops hres hom hpe
  simp only [stepOwner]
  exact owner_frame _ _ h rfl rfl rfl rfl rfl rfl rfl rfl rfl rfl rfl rfl rfl rfl
    (by simp only [OwnerOK]; exact ⟨⟨iso, rest, rfl⟩, trivial, trivial, trivial, Int.le_refl _, fun _ => trivial⟩)

theorem owner_gDec (s : St) (h : DInv s) (hpc : s.own.pc = .gDec) : DInv (stepOwner s).1 := by
  have ho := h.ownOK
  obtain ⟨cfg, head, tail, lw, pool, bad, spawned, own, ths⟩ := s
  obtain ⟨ops, pc, T0, T, H0, T1, res, omitted, poolEmpty, gen, out, freed⟩ := own
  simp only at hpc; subst hpc
  simp only [OwnerOK] at ho
  obtain ⟨⟨iso, rest, hops⟩, hres, hpe, ht, hle, hom⟩ := ho
  subst hops hres hpe ht
  simp only [stepOwner]
  exact owner_frame _ _ h rfl rfl rfl rfl rfl rfl rfl rfl rfl rfl rfl rfl rfl rfl
    (by simp only [OwnerOK, GetLoop]
        exact ⟨⟨⟨iso, rest, rfl⟩, trivial, trivial, by omega, fun e => by have := hom e; omega⟩, trivial⟩)

theorem owner_gHead_slow (s : St) (h : DInv s) (hpc : s.own.pc = .gHead) (hgt : s.head > s.own.T) :
    DInv (stepOwner s).1 := by
  have ho := h.ownOK
  obtain ⟨cfg, head, tail, lw, pool, bad, spawned, own, ths⟩ := s
  obtain ⟨ops, pc, T0, T, H0, T1, res, omitted, poolEmpty, gen, out, freed⟩ := own
  simp only at hpc hgt; subst hpc
  simp only [OwnerOK, GetLoop] at ho
  obtain ⟨⟨⟨iso, rest, hops⟩, hres, hpe, hlt, hom⟩, ht⟩ := ho
  subst hops hres hpe ht
  simp only [stepOwner, hgt, if_true]
  exact owner_frame _ _ h rfl rfl rfl rfl rfl rfl rfl rfl rfl rfl rfl rfl rfl rfl
    (by simp only [OwnerOK, GetLoop]; exact ⟨⟨⟨iso, rest, rfl⟩, trivial, trivial, hlt, hom⟩, trivial⟩)

theorem owner_gH0 (s : St) (h : DInv s) (hpc : s.own.pc = .gH0) : DInv (stepOwner s).1 := by
  have ho := h.ownOK
  have hex := excl_facts s h (by rw [hpc]; rfl)
  have hlo0 : lo s = s.head := lo_noCS s (by rw [hpc]; rfl) hex.1
  obtain ⟨cfg, head, tail, lw, pool, bad, spawned, own, ths⟩ := s
  obtain ⟨ops, pc, T0, T, H0, T1, res, omitted, poolEmpty, gen, out, freed⟩ := own
  simp only at hpc hex hlo0; subst hpc
  simp only [OwnerOK, GetLoop] at ho
  obtain ⟨⟨⟨iso, rest, hops⟩, hres, hpe, hlt, hom⟩, ht⟩ := ho
  subst hops hres hpe ht
  simp only [stepOwner]
  by_cases h1 : head > tail
  · simp only [h1, if_true]
    exact owner_excl_step _ _ h rfl rfl rfl h.headNN rfl rfl rfl rfl rfl rfl rfl rfl rfl (by rw [hlo0]; rfl) rfl
      (by simp only [OwnerOK, GetLoop]
          exact ⟨⟨⟨iso, rest, rfl⟩, trivial, trivial, hlt, hom⟩, trivial, trivial, fun e => by simp at e, fun _ => h1⟩)
  · simp only [h1, if_false]
    by_cases h2 : head = tail
    · simp only [h2, if_true]
      subst h2
      exact owner_excl_step _ _ h rfl rfl rfl h.headNN rfl rfl rfl rfl rfl rfl rfl rfl rfl (by rw [hlo0]; rfl) rfl
        (by simp only [OwnerOK, GetLoop]
            exact ⟨⟨⟨iso, rest, rfl⟩, trivial, trivial, hlt, hom⟩, trivial, trivial, fun _ => trivial, fun e => by simp at e⟩)
    · simp only [h2, if_false]
      exact owner_excl_step _ _ h rfl rfl rfl h.headNN rfl rfl rfl rfl rfl rfl rfl rfl rfl rfl rfl
        (by simp only [OwnerOK, GetLoop]
            exact ⟨⟨⟨iso, rest, rfl⟩, trivial, trivial, hlt, hom⟩, trivial, trivial, by omega⟩)

theorem owner_relLoad_get (s : St) (h : DInv s) (hpc : s.own.pc = .relLoad .get) (hne : s.lw ≠ .empty) :
    DInv (stepOwner s).1 := by
  have ho := h.ownOK
  have hex := excl_facts s h (by rw [hpc]; rfl)
  obtain ⟨cfg, head, tail, lw, pool, bad, spawned, own, ths⟩ := s
  obtain ⟨ops, pc, T0, T, H0, T1, res, omitted, poolEmpty, gen, out, freed⟩ := own
  simp only at hpc hex hne; subst hpc
  simp only [OwnerOK, GetLoop] at ho
  obtain ⟨⟨⟨iso, rest, hops⟩, hres, hpe, hlt, hom⟩, ht, hh, hh2⟩ := ho
  subst hops hres hpe ht hh
  have hlk : lw = .locked := by rcases hex.2 with e | e; exact e; exact absurd e hne
  simp only [stepOwner, hne, if_false]
  exact owner_excl_step _ _ h rfl rfl rfl h.headNN rfl rfl rfl rfl rfl rfl rfl rfl rfl rfl rfl
    (by simp only [OwnerOK, GetLoop]; exact ⟨⟨⟨iso, rest, rfl⟩, trivial, trivial, hlt, hom⟩, trivial, trivial, hh2, hlk⟩)

theorem owner_rTail (s : St) (b : Bool) (h : DInv s) (hpc : s.own.pc = .rTail b) : DInv (stepOwner s).1 := by
  have ho := h.ownOK
  obtain ⟨cfg, head, tail, lw, pool, bad, spawned, own, ths⟩ := s
  obtain ⟨ops, pc, T0, T, H0, T1, res, omitted, poolEmpty, gen, out, freed⟩ := own
  simp only at hpc; subst hpc
  simp only [OwnerOK, GetLoop] at ho
  obtain ⟨⟨⟨iso, rest, hops⟩, hres, hpe, hlt, hom⟩, ht, hh, hb1, hb2⟩ := ho
  subst hops hres hpe ht hh
  simp only [stepOwner]
  exact owner_excl_step _ _ h rfl rfl rfl h.headNN rfl rfl rfl rfl rfl rfl rfl rfl rfl rfl rfl
    (by simp only [OwnerOK, GetLoop]; exact ⟨⟨⟨iso, rest, rfl⟩, trivial, trivial, hlt, hom⟩, trivial, trivial, hb1, hb2⟩)

theorem owner_rHead (s : St) (b : Bool) (h : DInv s) (hpc : s.own.pc = .rHead b) : DInv (stepOwner s).1 := by
  have ho := h.ownOK
  have hhd := h.headNN
  obtain ⟨cfg, head, tail, lw, pool, bad, spawned, own, ths⟩ := s
  obtain ⟨ops, pc, T0, T, H0, T1, res, omitted, poolEmpty, gen, out, freed⟩ := own
  simp only at hpc hhd; subst hpc
  simp only [OwnerOK, GetLoop] at ho
  obtain ⟨⟨⟨iso, rest, hops⟩, hres, hpe, hlt, hom⟩, ht, hh, hb1, hb2⟩ := ho
  subst hops hres hpe ht hh
  simp only [stepOwner]
  exact owner_excl_step _ _ h rfl rfl rfl (Int.le_refl 0) rfl rfl rfl rfl rfl rfl rfl rfl rfl rfl rfl
    (by simp only [OwnerOK, GetLoop]
        exact ⟨⟨⟨iso, rest, rfl⟩, trivial, trivial, hlt, hom⟩, trivial, trivial, hhd, hb1, hb2⟩)

/-- the restore epilogue (tasks were omitted and the pool was reset): nobody else can touch the slot (word = empty) -/
theorem owner_restore_step (s s' : St) (h : DInv s) (hl : s.lw = .empty) (he : ownerExcl s.own.pc = false)
    (he' : ownerExcl s'.own.pc = false)
    (hcfg : s'.cfg = s.cfg) (hhead : 0 ≤ s'.head) (hlw : s'.lw = s.lw) (hpool : s'.pool = s.pool)
    (hbad : s'.bad = s.bad) (hsp : s'.spawned = s.spawned) (hths : s'.ths = s.ths) (hgen : s'.own.gen = s.own.gen)
    (hout : s'.own.out.filterMap id = s.own.out.filterMap id) (hfr : s'.own.freed = s.own.freed)
    (hres : s'.own.res = s.own.res) (hlo : lo s' = lo s) (hhi : hi s' = hi s) (hown : OwnerOK s') : DInv s' := by
  have h0 : csN s.ths = 0 := by
    have := h.lockOK.lock he
    have hle := h.lockOK.csLe
    rw [hl] at this; simp at this; omega
  exact ⟨by rw [hcfg]; exact h.cfgOK, by rw [hbad]; exact h.nobad, hhead, by rw [hpool, hlw]; exact h.unalloc,
    LockOK_own_same s s' h.lockOK hths hlw hgen (by rw [he, he']), thOK_owner s s' h hths (Or.inr h0), hown,
    WinOK_own_same s s' h.winOK hths hpool hsp hlo hhi hout hfr hres⟩

theorem owner_pHead (s : St) (h : DInv s) (hpc : s.own.pc = .pHead) : DInv (stepOwner s).1 := by
  have ho := h.ownOK
  obtain ⟨cfg, head, tail, lw, pool, bad, spawned, own, ths⟩ := s
  obtain ⟨ops, pc, T0, T, H0, T1, res, omitted, poolEmpty, gen, out, freed⟩ := own
  simp only at hpc; subst hpc
  simp only [OwnerOK] at ho
  obtain ⟨⟨iso, rest, hops⟩, hom, hpe, hh0, hlt, hl, hh, ht⟩ := ho
  subst hops hom hpe hl hh ht
  simp only [stepOwner]
  exact owner_restore_step _ _ h rfl rfl rfl rfl hh0 rfl rfl rfl rfl rfl rfl rfl rfl rfl rfl rfl
    (by simp only [OwnerOK]; exact ⟨⟨iso, rest, rfl⟩, trivial, trivial, hh0, hlt, trivial, trivial, trivial⟩)

theorem owner_pTail (s : St) (h : DInv s) (hpc : s.own.pc = .pTail) : DInv (stepOwner s).1 := by
  have ho := h.ownOK
  have hw := h.winOK
  obtain ⟨cfg, head, tail, lw, pool, bad, spawned, own, ths⟩ := s
  obtain ⟨ops, pc, T0, T, H0, T1, res, omitted, poolEmpty, gen, out, freed⟩ := own
  simp only at hpc; subst hpc
  simp only [OwnerOK] at ho
  obtain ⟨⟨iso, rest, hops⟩, hom, hpe, hh0, hlt, hl, hh, ht⟩ := ho
  subst hops hom hpe hl
  have hlen : (0 : Int) < pool.length := by
    have := hw.hiLe
    have e : hi (⟨cfg, head, tail, .empty, pool, bad, spawned,
      ⟨OOp.get iso :: rest, .pTail, T0, T, H0, T1, res, true, true, gen, out, freed⟩, ths⟩ : St) = T0 := rfl
    rw [e] at this; simp only at this; omega
  simp only [stepOwner]
  exact owner_restore_step _ _ h rfl rfl rfl rfl (by simp only; omega) rfl rfl rfl rfl rfl rfl rfl rfl rfl rfl rfl
    (by simp only [OwnerOK]; exact ⟨⟨iso, rest, rfl⟩, trivial, trivial, hh0, hlt, trivial, hh, trivial, by omega⟩)

/-- returning a result: `out` gains it, `inflight` loses it -/
theorem fin_counts (s s' : St) (r : Option Item) (hths : s'.ths = s.ths) (hr : s.own.res = r) (hr' : s'.own.res = none)
    (hout : s'.own.out = r :: s.own.out) (hfr : s'.own.freed = s.own.freed) (x : Item) :
    (returned s').count x + (inflight s').count x = (returned s).count x + (inflight s).count x := by
  have e1 := returned_own s s' hths x
  have e2 := inflight_own s s' hths x
  rw [hout, hfr] at e1
  rw [hr, hr'] at e2
  cases r with
  | none => simp only [List.filterMap_cons, id, Option.toList, List.count_nil] at e1 e2; omega
  | some v =>
    simp only [List.filterMap_cons, id, Option.toList, List.count_cons, List.count_nil, beq_iff_eq, Nat.zero_add] at e1 e2
    omega

theorem owner_pPub (s : St) (h : DInv s) (hpc : s.own.pc = .pPub) : DInv (stepOwner s).1 := by
  have ho := h.ownOK
  have hw := h.winOK
  obtain ⟨cfg, head, tail, lw, pool, bad, spawned, own, ths⟩ := s
  obtain ⟨ops, pc, T0, T, H0, T1, res, omitted, poolEmpty, gen, out, freed⟩ := own
  simp only at hpc; subst hpc
  simp only [OwnerOK] at ho
  obtain ⟨⟨iso, rest, hops⟩, hom, hpe, hh0, hlt, hl, hh, ht, hlen⟩ := ho
  subst hops hom hpe hl
  have h0 : csN ths = 0 := by
    have := h.lockOK.lock (by rfl)
    have hle := h.lockOK.csLe
    simp only at this hle
    simp at this; omega
  simp only [stepOwner, Owner.fin]
  refine ⟨h.cfgOK, h.nobad, h.headNN, ?_, LockOK_noCS _ _ h0 rfl (Or.inl rfl) (fun he => by simp [ownerExcl] at he),
          thOK_owner _ _ h rfl (Or.inl ⟨rfl, rfl⟩), ?_, ?_⟩
  · intro hz; simp only at hz; omega
  · simp only [OwnerOK]; exact ⟨trivial, trivial, trivial, by omega⟩
  · refine WinOK_congr_sum hw rfl ?_ ?_ rfl (fun x => by apply fin_counts _ _ res <;> rfl)
    · rw [lo_noCS _ (by rfl) h0]
      show head = H0
      exact hh
    · show tail = T0
      exact ht

theorem owner_hTail (s : St) (h : DInv s) (hpc : s.own.pc = .hTail) : DInv (stepOwner s).1 := by
  have ho := h.ownOK
  have hw := h.winOK
  obtain ⟨cfg, head, tail, lw, pool, bad, spawned, own, ths⟩ := s
  obtain ⟨ops, pc, T0, T, H0, T1, res, omitted, poolEmpty, gen, out, freed⟩ := own
  simp only at hpc; subst hpc
  simp only [OwnerOK] at ho
  obtain ⟨⟨iso, rest, hops⟩, hrs, hom, hpe, ht, hlt, hT0⟩ := ho
  subst hops hom hpe
  simp only [stepOwner, Owner.fin]
  refine ⟨h.cfgOK, h.nobad, h.headNN, h.unalloc, LockOK_own_same _ _ h.lockOK rfl rfl rfl rfl,
          thOK_owner _ _ h rfl (Or.inl ⟨rfl, rfl⟩), ?_, ?_⟩
  · simp only [OwnerOK]; exact ⟨trivial, trivial, trivial, by omega⟩
  · exact WinOK_congr_sum hw rfl rfl rfl rfl (fun x => by apply fin_counts _ _ res <;> rfl)

end TbbVerif.C01.Deque
