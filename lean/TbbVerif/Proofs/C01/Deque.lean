/- C01 — Deque: the invariant holds in every reachable state; conservation, no duplication, no loss, last-task
arbitration. -/
import TbbVerif.Proofs.C01.DequeReset
import TbbVerif.Proofs.C01.DequeSpawn

namespace TbbVerif.C01.Deque
open Lists

theorem owner_step (s : St) (h : DInv s) : DInv (stepOwner s).1 := by
  cases hops : s.own.ops with
  | nil => simp only [stepOwner, hops]; exact h
  | cons op rest =>
    cases hpc : s.own.pc with
    | start =>
      cases op with
      | spawn x => exact owner_spawn_start s x rest h hpc hops
      | get iso => exact owner_get_start s iso rest h hpc hops
    | spStore => exact owner_spStore s h hpc
    | spPubLoad => exact owner_spPubLoad s h hpc
    | spPub => exact owner_spPub s h hpc
    | acqPub c =>
      by_cases hl : s.lw = .empty
      · exact owner_acq_enter s c h (Or.inl ⟨hpc, hl⟩)
      · exact owner_acq_spin s c h (Or.inl hpc) (fun _ => hl) (Or.inr (by rw [hpc]; simp))
    | acqLoad c => exact owner_acq_spin s c h (Or.inr (Or.inl hpc)) (fun e => by rw [hpc] at e; simp at e) (Or.inr (by rw [hpc]; simp))
    | acqCas c =>
      by_cases hl : s.lw = .pub s.own.gen
      · exact owner_acq_enter s c h (Or.inr ⟨hpc, hl⟩)
      · exact owner_acq_spin s c h (Or.inr (Or.inr hpc)) (fun e => by rw [hpc] at e; simp at e) (Or.inl hl)
    | grHead => exact owner_grHead s h hpc
    | grTail => exact owner_grTail s h hpc
    | crHead => exact owner_crHead s h hpc
    | crTail => exact owner_crTail s h hpc
    | relLoad c =>
      cases c with
      | grow => exact owner_rel_grow s h (Or.inl hpc)
      | get =>
        by_cases hl : s.lw = .empty
        · exact owner_rel_get_inspect s h (Or.inl ⟨hpc, hl⟩)
        · exact owner_relLoad_get s h hpc hl
    | relStore c =>
      cases c with
      | grow => exact owner_rel_grow s h (Or.inr hpc)
      | get => exact owner_rel_get_inspect s h (Or.inr hpc)
    | gT0 => exact owner_gT0 s h hpc
    | gDec => exact owner_gDec s h hpc
    | gHead =>
      by_cases hg : s.head > s.own.T
      · exact owner_gHead_slow s h hpc hg
      · exact owner_gHead_fast s h hpc hg
    | gH0 => exact owner_gH0 s h hpc
    | rTail b => exact owner_rTail s b h hpc
    | rHead b => exact owner_rHead s b h hpc
    | rLeave b => exact owner_rLeave s b h hpc
    | pHead => exact owner_pHead s h hpc
    | pTail => exact owner_pTail s h hpc
    | pPub => exact owner_pPub s h hpc
    | hTail => exact owner_hTail s h hpc

theorem step_inv (s : St) (tid : Tid) (h : DInv s) : DInv (step s tid) := by
  unfold step stepEv
  cases tid with
  | zero => exact owner_step s h
  | succ k =>
    simp only
    cases hk : s.ths[k]? with
    | none => exact h
    | some t => exact thief_step s k t h hk

theorem inv_init (cfg : Cfg) (oprog : List OOp) (tprogs : List (List Nat)) (hcfg : 0 < cfg.granule ∧ 0 < cfg.minSize) :
    DInv (init cfg oprog tprogs) := by
  have hth : ∀ (k : Nat) (t : Thief), (init cfg oprog tprogs).ths[k]? = some t → t.pc = .start ∧ t.res = none ∧ t.out = [] := by
    intro k t hk
    simp only [init, List.getElem?_map] at hk
    cases hp : tprogs[k]? with
    | none => simp [hp] at hk
    | some p => simp [hp] at hk; subst hk; exact ⟨rfl, rfl, rfl⟩
  have h0 : csN (init cfg oprog tprogs).ths = 0 := by
    unfold csN
    apply List.countP_eq_zero.mpr
    intro t ht
    obtain ⟨k, hk⟩ := List.getElem?_of_mem ht
    have := (hth k t hk).1
    simp [inCS, this]
  have hlo : lo (init cfg oprog tprogs) = 0 := lo_noCS _ (by rfl) h0
  have hz : ∀ (f : Thief → List Item) (x : Item), (∀ (k : Nat) (t : Thief), (init cfg oprog tprogs).ths[k]? = some t → f t = []) →
      (((init cfg oprog tprogs).ths.map f).flatten).count x = 0 := by
    intro f x hf
    rw [count_flatten_map]
    apply Nat.eq_zero_of_le_zero
    have : ∀ (l : List Thief), (∀ t ∈ l, f t = []) → (l.map (fun t => (f t).count x)).sum = 0 := by
      intro l hl
      induction l with
      | nil => rfl
      | cons a l ih =>
        simp only [List.map_cons, List.sum_cons]
        rw [hl a (by simp), ih (fun t ht => hl t (by simp [ht]))]
        rfl
    rw [this]
    · exact Nat.le_refl 0
    · intro t ht
      obtain ⟨k, hk⟩ := List.getElem?_of_mem ht
      exact hf k t hk
  refine ⟨hcfg, rfl, Int.le_refl 0, fun _ => rfl, ?_, ?_, ?_, ?_⟩
  · refine ⟨by omega, fun he => by simp [init, ownerExcl] at he, fun _ => ?_, fun g hg => by simp [init] at hg⟩
    rw [h0]; simp [init]
  · intro k t hk
    have := hth k t hk
    simp only [ThiefOK, this.1]; exact this.2.1
  · simp only [OwnerOK, init]; exact ⟨trivial, trivial, trivial, Int.le_refl 0⟩
  · refine ⟨by rw [hlo]; exact Int.le_refl 0, by rw [hlo]; exact Int.le_refl 0, Int.le_refl 0, ?_, ?_⟩
    · intro i h1 h2
      rw [hlo] at h1
      have h2' : i < 0 := h2
      omega
    · intro x
      rw [hlo, returned_count, inflight_count]
      have e1 := hz (fun t => t.out.filterMap id) x (fun k t hk => by rw [(hth k t hk).2.2]; rfl)
      have e2 := hz (fun t => t.res.toList) x (fun k t hk => by rw [(hth k t hk).2.1]; rfl)
      simp only [tOut, tRes]
      rw [e1, e2]
      have hhi : hi (init cfg oprog tprogs) = 0 := rfl
      rw [hhi, items_empty _ _ _ (Int.le_refl 0)]
      simp [init]

theorem inv_reachable (cfg : Cfg) (oprog : List OOp) (tprogs : List (List Nat)) (hcfg : 0 < cfg.granule ∧ 0 < cfg.minSize)
    (sched : List Tid) : DInv ((sys cfg oprog tprogs).run sched) :=
  Sys.inv_run (sys cfg oprog tprogs) DInv (inv_init cfg oprog tprogs hcfg) step_inv sched

/-! ### consequences -/

/-- no thread inside the critical section and the owner between two operations -/
def Quiescent (s : St) : Prop := s.lw ≠ .locked ∧ s.own.pc = .start

theorem perm_of_inv (s : St) (h : DInv s) :
    List.Perm s.spawned (returned s ++ inflight s ++ items s.pool (lo s) (hi s)) := by
  rw [List.perm_iff_count]
  intro x
  rw [List.count_append, List.count_append]
  exact h.winOK.cnt x

theorem quiescent_facts (s : St) (h : DInv s) (hq : Quiescent s) :
    inflight s = [] ∧ items s.pool (lo s) (hi s) = resident s := by
  obtain ⟨hl, hpc⟩ := hq
  have h0 : csN s.ths = 0 := by
    have := h.lockOK.lock (by rw [hpc]; rfl)
    have hle := h.lockOK.csLe
    by_cases e : csN s.ths = 1
    · exact absurd (this.mpr e) hl
    · omega
  have hlo : lo s = s.head := lo_noCS s (by rw [hpc]; rfl) h0
  have hhi : hi s = s.tail := by unfold hi; rw [hpc]
  refine ⟨?_, by rw [hlo, hhi, resident_eq]⟩
  have ho := h.ownOK
  simp only [OwnerOK, hpc] at ho
  have hres : ∀ t ∈ s.ths, t.res.toList = [] := by
    intro t ht
    obtain ⟨k, hk⟩ := List.getElem?_of_mem ht
    have hout := none_inCS s.ths h0 k t hk
    have hok := h.thOK k t hk
    unfold inCS at hout
    cases hp : t.pc <;> simp [hp] at hout <;> simp only [ThiefOK, hp] at hok <;> rw [hok] <;> rfl
  unfold inflight
  rw [ho.1]
  simp only [Option.toList, List.nil_append]
  apply List.flatten_eq_nil_iff.mpr
  intro l hl
  obtain ⟨t, ht, rfl⟩ := List.mem_map.mp hl
  exact hres t ht

end TbbVerif.C01.Deque
