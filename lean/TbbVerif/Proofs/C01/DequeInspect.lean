/- C01 — Deque: get_task_impl (the owner inspects the cell it has claimed) preserves the invariant. -/
import TbbVerif.Proofs.C01.DequeGet

namespace TbbVerif.C01.Deque
open Lists

/-- the logical top moves down by one cell whose content `r` is accounted for on the returned/inflight side -/
theorem WinOK_shrink_hi (s s' : St) (r : Option Item) (h : WinOK s) (hp : s'.pool = s.pool) (hlo : lo s' = lo s)
    (hhi : hi s' = hi s - 1) (hlt : lo s ≤ hi s - 1) (hcell : itemOf (cellAt s.pool (hi s - 1)) = r)
    (hsp : s'.spawned = s.spawned)
    (hr : ∀ x, (returned s').count x + (inflight s').count x = (returned s).count x + (inflight s).count x + r.toList.count x) :
    WinOK s' := by
  have h0 := h.loNN
  have hle := h.hiLe
  refine ⟨by rw [hlo]; exact h0, by rw [hlo, hhi]; exact hlt, by rw [hhi, hp]; omega, ?_, ?_⟩
  · intro i h1 h2
    rw [hp]; rw [hlo] at h1; rw [hhi] at h2
    exact h.noJunk i h1 (by omega)
  · intro x
    have e := h.cnt x
    have e3 : hi s = (hi s - 1) + 1 := by omega
    rw [e3, items_snoc s.pool (lo s) (hi s - 1) h0 hlt (by omega), hcell, List.count_append] at e
    have := hr x
    rw [hsp, hp, hlo, hhi]; omega

/-- a task inside the window is replaced by a hole (nullptr) and accounted for on the returned/inflight side -/
theorem WinOK_punch (s s' : St) (i : Int) (x : Item) (h : WinOK s) (hp : s'.pool = setCell s.pool i .hole)
    (hlo : lo s' = lo s) (hhi : hi s' = hi s) (h1 : lo s ≤ i) (h2 : i < hi s) (hcell : cellAt s.pool i = .item x)
    (hsp : s'.spawned = s.spawned)
    (hr : ∀ y, (returned s').count y + (inflight s').count y = (returned s).count y + (inflight s).count y + [x].count y) :
    WinOK s' := by
  have h0 := h.loNN
  have hle := h.hiLe
  refine ⟨by rw [hlo]; exact h0, by rw [hlo, hhi]; exact h.loLeHi, by rw [hhi, hp, setCell_length]; exact hle, ?_, ?_⟩
  · intro j j1 j2
    rw [hlo] at j1; rw [hhi] at j2
    rw [hp]
    by_cases e : i = j
    · subst e; rw [cellAt_setCell_same _ _ _ (by omega) (by omega)]; simp
    · rw [cellAt_setCell_ne _ _ _ _ e]; exact h.noJunk j j1 j2
  · intro y
    have e0 := h.cnt y
    rw [items_split s.pool (lo s) (hi s) i h0 h1 h2 hle, hcell] at e0
    have := hr y
    rw [hsp, hlo, hhi, hp, items_set_inside s.pool (lo s) (hi s) i .hole h0 h1 h2 hle]
    simp only [itemOf, Option.toList, List.count_append, List.count_nil, List.append_nil] at e0 ⊢
    omega

/-- bookkeeping of an owner step: what the owner's `out`, `freed` and `res` gain is what returned + inflight gain -/
theorem counts_step (s s' : St) (d : List Item) (hths : s'.ths = s.ths)
    (hd : ∀ x, (s'.own.out.filterMap id).count x + s'.own.freed.count x + s'.own.res.toList.count x =
               (s.own.out.filterMap id).count x + s.own.freed.count x + s.own.res.toList.count x + d.count x) (x : Item) :
    (returned s').count x + (inflight s').count x = (returned s).count x + (inflight s).count x + d.count x := by
  have e1 := returned_own s s' hths x
  have e2 := inflight_own s s' hths x
  have := hd x
  omega

/-- get_task_impl on the cell `T` the owner has claimed (fast path: `head ≤ T` was just read; slow path: the lock was
just released with `head < T`), followed by the loop / epilogue bookkeeping -/
theorem inspect_live (s : St) (iso : Nat) (rest : List OOp) (h : DInv s) (hpc : s.own.pc = .gHead)
    (hops : s.own.ops = .get iso :: rest) (hle : s.head ≤ s.own.T) : DInv (ownerInspect s iso) := by
  have ho := h.ownOK
  have hw := h.winOK
  have hloh := lo_le_head s h (by rw [hpc]; rfl)
  obtain ⟨cfg, head, tail, lw, pool, bad, spawned, own, ths⟩ := s
  obtain ⟨ops, pc, T0, T, H0, T1, res, omitted, poolEmpty, gen, out, freed⟩ := own
  simp only at hpc hops hle hloh; subst hpc hops
  simp only [OwnerOK, GetLoop] at ho
  obtain ⟨⟨_, hres, hpe, hlt, hom⟩, ht⟩ := ho
  subst hres hpe ht
  have hhi : hi (⟨cfg, head, tail, lw, pool, bad, spawned,
      ⟨OOp.get iso :: rest, .gHead, T0, tail, H0, T1, none, omitted, false, gen, out, freed⟩, ths⟩ : St) = T0 := rfl
  have hl0 := hw.loNN
  have hnj := hw.noJunk tail (by omega) (by rw [hhi]; exact hlt)
  have hlen := hw.hiLe
  rw [hhi] at hlen
  simp only at hlen hnj
  have hT0 : 0 ≤ tail := by omega
  simp only [ownerInspect]
  split
  · rename_i hc; exact absurd hc hnj
  · -- a hole
    rename_i hc
    cases omitted with
    | true =>
      simp only [if_true, ownerLoop, Bool.false_eq_true, if_false]
      exact owner_frame _ _ h rfl rfl rfl rfl rfl rfl rfl rfl rfl rfl rfl rfl rfl rfl
        (by simp only [OwnerOK]; exact ⟨⟨iso, rest, rfl⟩, trivial, trivial, trivial, by omega, fun e => by simp at e⟩)
    | false =>
      simp only [Bool.false_eq_true, if_false, ownerLoop]
      have hT0e : T0 = tail + 1 := hom rfl
      subst hT0e
      refine ⟨h.cfgOK, h.nobad, h.headNN, h.unalloc, LockOK_own_same _ _ h.lockOK rfl rfl rfl rfl,
              thOK_owner _ _ h rfl (Or.inl ⟨rfl, rfl⟩), ?_, ?_⟩
      · simp only [OwnerOK]; exact ⟨⟨iso, rest, rfl⟩, trivial, trivial, trivial, Int.le_refl _, fun _ => trivial⟩
      · refine WinOK_shrink_hi _ _ none hw rfl rfl (by rw [hhi]; show tail = tail + 1 - 1; omega) (by rw [hhi]; omega)
          (by rw [hhi]; show itemOf (cellAt pool (tail + 1 - 1)) = none; rw [show tail + 1 - 1 = tail by omega, hc]; rfl) rfl
          (fun y => by
                refine counts_step _ _ [] ?_ ?_ y
                · rfl
                · intro x; rfl)
  · -- a task
    rename_i x hc
    by_cases hom1 : ownerOmit iso x = true
    · -- isolation mismatch: the task is omitted
      simp only [hom1, if_true, ownerLoop, Bool.false_eq_true, if_false]
      exact owner_frame _ _ h rfl rfl rfl rfl rfl rfl rfl rfl rfl rfl rfl rfl rfl rfl
        (by simp only [OwnerOK]; exact ⟨⟨iso, rest, rfl⟩, trivial, trivial, trivial, by omega, fun e => by simp at e⟩)
    · simp only [hom1, Bool.false_eq_true, if_false]
      by_cases hd : x.dead = true
      · -- a proxy whose task was already taken through the mailbox: the owner frees it
        simp only [hd, if_true]
        cases omitted with
        | true =>
          simp only [if_true, ownerLoop, Bool.false_eq_true, if_false]
          refine ⟨h.cfgOK, h.nobad, h.headNN, ?_, LockOK_own_same _ _ h.lockOK rfl rfl rfl rfl,
                  thOK_owner _ _ h rfl (Or.inl ⟨rfl, rfl⟩), ?_, ?_⟩
          · intro hz; simp only [setCell_length] at hz; exact h.unalloc hz
          · simp only [OwnerOK]; exact ⟨⟨iso, rest, rfl⟩, trivial, trivial, trivial, by omega, fun e => by simp at e⟩
          · refine WinOK_punch _ _ tail x hw rfl rfl rfl (by omega) (by rw [hhi]; exact hlt) hc rfl
              (fun y => by
                refine counts_step _ _ [x] ?_ ?_ y
                · rfl
                · intro z; simp only [List.count_cons, List.count_nil]; omega)
        | false =>
          simp only [Bool.false_eq_true, if_false, ownerLoop]
          have hT0e : T0 = tail + 1 := hom rfl
          subst hT0e
          refine ⟨h.cfgOK, h.nobad, h.headNN, h.unalloc, LockOK_own_same _ _ h.lockOK rfl rfl rfl rfl,
                  thOK_owner _ _ h rfl (Or.inl ⟨rfl, rfl⟩), ?_, ?_⟩
          · simp only [OwnerOK]; exact ⟨⟨iso, rest, rfl⟩, trivial, trivial, trivial, Int.le_refl _, fun _ => trivial⟩
          · refine WinOK_shrink_hi _ _ (some x) hw rfl rfl (by rw [hhi]; show tail = tail + 1 - 1; omega) (by rw [hhi]; omega)
              (by rw [hhi]; show itemOf (cellAt pool (tail + 1 - 1)) = some x; rw [show tail + 1 - 1 = tail by omega, hc]; rfl) rfl
              (fun y => by
                refine counts_step _ _ [x] ?_ ?_ y
                · rfl
                · intro z; simp only [Option.toList, List.count_cons, List.count_nil]; omega)
      · -- the task is taken
        simp only [hd, Bool.false_eq_true, if_false, ownerPost]
        cases omitted with
        | false =>
          simp only [Bool.false_eq_true, if_false, Owner.fin]
          have hT0e : T0 = tail + 1 := hom rfl
          subst hT0e
          refine ⟨h.cfgOK, h.nobad, h.headNN, h.unalloc, LockOK_own_same _ _ h.lockOK rfl rfl rfl rfl,
                  thOK_owner _ _ h rfl (Or.inl ⟨rfl, rfl⟩), ?_, ?_⟩
          · simp only [OwnerOK]; exact ⟨trivial, trivial, trivial, hT0⟩
          · refine WinOK_shrink_hi _ _ (some x) hw rfl rfl (by rw [hhi]; show tail = tail + 1 - 1; omega) (by rw [hhi]; omega)
              (by rw [hhi]; show itemOf (cellAt pool (tail + 1 - 1)) = some x; rw [show tail + 1 - 1 = tail by omega, hc]; rfl) rfl
              (fun y => by
                refine counts_step _ _ [x] ?_ ?_ y
                · rfl
                · intro z; simp only [List.filterMap_cons, id, Option.toList, List.count_cons, List.count_nil, beq_iff_eq]; omega)
        | true =>
          simp only [if_true, Bool.false_eq_true, if_false]
          refine ⟨h.cfgOK, h.nobad, h.headNN, ?_, LockOK_own_same _ _ h.lockOK rfl rfl rfl rfl,
                  thOK_owner _ _ h rfl (Or.inl ⟨rfl, rfl⟩), ?_, ?_⟩
          · intro hz; simp only [setCell_length] at hz; exact h.unalloc hz
          · simp only [OwnerOK]; exact ⟨⟨iso, rest, rfl⟩, rfl, trivial, trivial, trivial, hlt, hT0⟩
          · refine WinOK_punch _ _ tail x hw rfl rfl rfl (by omega) (by rw [hhi]; exact hlt) hc rfl
              (fun y => by
                refine counts_step _ _ [x] ?_ ?_ y
                · rfl
                · intro z; simp only [Option.toList, List.count_cons, List.count_nil, beq_iff_eq]; omega)

/-- get_task_impl and the bookkeeping after it overwrite the owner's program counter in every branch -/
theorem inspect_pc (s : St) (iso : Nat) (p : OPc) :
    ownerInspect { s with own := { s.own with pc := p } } iso = ownerInspect s iso := by
  simp only [ownerInspect, ownerLoop, ownerPost, Owner.fin]
  repeat' split
  all_goals rfl

theorem owner_gHead_fast (s : St) (h : DInv s) (hpc : s.own.pc = .gHead) (hng : ¬ s.head > s.own.T) :
    DInv (stepOwner s).1 := by
  have ho := h.ownOK
  obtain ⟨cfg, head, tail, lw, pool, bad, spawned, own, ths⟩ := s
  obtain ⟨ops, pc, T0, T, H0, T1, res, omitted, poolEmpty, gen, out, freed⟩ := own
  simp only at hpc hng; subst hpc
  simp only [OwnerOK, GetLoop] at ho
  obtain ⟨⟨⟨iso, rest, hops⟩, _⟩, _⟩ := ho
  subst hops
  simp only [stepOwner, hng, if_false]
  exact inspect_live _ iso rest h rfl rfl (by simp only; omega)

/-- release_task_pool in get_task (more than one task left), then get_task_impl -/
theorem owner_rel_get_inspect (s : St) (h : DInv s)
    (hpc : (s.own.pc = .relLoad .get ∧ s.lw = .empty) ∨ s.own.pc = .relStore .get) : DInv (stepOwner s).1 := by
  have ho := h.ownOK
  have hw := h.winOK
  have hex := excl_facts s h (by rcases hpc with ⟨hp, _⟩ | hp <;> rw [hp] <;> rfl)
  obtain ⟨cfg, head, tail, lw, pool, bad, spawned, own, ths⟩ := s
  obtain ⟨ops, pc, T0, T, H0, T1, res, omitted, poolEmpty, gen, out, freed⟩ := own
  simp only at hpc hex
  -- the state handed to get_task_impl, with the program counter normalised to `gHead`
  have key : ∀ (lw' : LW) (b' : Bool) (pc0 : OPc) (iso : Nat) (rest : List OOp),
      (pc0 = .relLoad .get ∨ pc0 = .relStore .get) → (lw' = .pub gen ∨ lw' = .empty) → (lw = .empty → lw' = .empty) → b' = false →
      head < T → T < T0 → (omitted = false → T0 = T + 1) →
      DInv (⟨cfg, head, T, lw, pool, bad, spawned,
        ⟨OOp.get iso :: rest, pc0, T0, T, H0, T1, none, omitted, false, gen, out, freed⟩, ths⟩ : St) →
      DInv (⟨cfg, head, T, lw', pool, b', spawned,
        ⟨OOp.get iso :: rest, .gHead, T0, T, H0, T1, none, omitted, false, gen, out, freed⟩, ths⟩ : St) := by
    intro lw' b' pc0 iso rest hp0 hlw' hun hb' hhT hlt hom h
    have hw := h.winOK
    have hex := excl_facts _ h (by rcases hp0 with hp | hp <;> subst hp <;> rfl)
    have hhi : hi (⟨cfg, head, T, lw, pool, bad, spawned,
        ⟨OOp.get iso :: rest, pc0, T0, T, H0, T1, none, omitted, false, gen, out, freed⟩, ths⟩ : St) = T0 := by
      rcases hp0 with hp | hp <;> subst hp <;> rfl
    have hlo : lo (⟨cfg, head, T, lw', pool, b', spawned,
        ⟨OOp.get iso :: rest, .gHead, T0, T, H0, T1, none, omitted, false, gen, out, freed⟩, ths⟩ : St) =
        lo (⟨cfg, head, T, lw, pool, bad, spawned,
        ⟨OOp.get iso :: rest, pc0, T0, T, H0, T1, none, omitted, false, gen, out, freed⟩, ths⟩ : St) := by
      rcases hp0 with hp | hp <;> subst hp <;> rfl
    have hlen := hw.hiLe
    rw [hhi] at hlen
    simp only at hlen
    have hh0 := h.headNN
    simp only at hh0
    refine ⟨h.cfgOK, hb', h.headNN, ?_, LockOK_noCS _ _ hex.1 rfl hlw' (fun he => by simp [ownerExcl] at he),
            thOK_owner _ _ h rfl (Or.inl ⟨rfl, rfl⟩), ?_, ?_⟩
    · intro hz; simp only at hz; omega
    · simp only [OwnerOK, GetLoop]; exact ⟨⟨⟨iso, rest, rfl⟩, trivial, trivial, hlt, hom⟩, trivial⟩
    · exact WinOK_own_same _ _ hw rfl rfl rfl hlo (by rw [hhi]; rfl) rfl rfl rfl
  rcases hpc with ⟨hpc, hl⟩ | hpc <;> subst hpc <;> simp only [OwnerOK, GetLoop] at ho
  · obtain ⟨⟨⟨iso, rest, hops⟩, hres, hpe, hlt, hom⟩, ht, hh, hh2⟩ := ho
    subst hops hres hpe ht hh hl
    simp only [stepOwner, if_true]
    rw [← inspect_pc _ iso .gHead]
    exact inspect_live _ iso rest (key .empty bad _ iso rest (Or.inl rfl) (Or.inr rfl) (fun e => e) h.nobad hh2 hlt hom h)
      rfl rfl (by simp only; omega)
  · obtain ⟨⟨⟨iso, rest, hops⟩, hres, hpe, hlt, hom⟩, ht, hh, hh2, hlk⟩ := ho
    subst hops hres hpe ht hh hlk
    simp only [stepOwner]
    have hb : (bad || LW.locked != LW.locked) = false := by have := h.nobad; simp only at this; rw [this]; rfl
    rw [← inspect_pc _ iso .gHead]
    exact inspect_live _ iso rest (key (.pub gen) _ _ iso rest (Or.inr rfl) (Or.inl rfl) (fun e => by simp at e) hb hh2 hlt hom h)
      rfl rfl (by simp only; omega)

end TbbVerif.C01.Deque
