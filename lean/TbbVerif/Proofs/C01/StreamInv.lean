/- C01 — task_stream: every step preserves the invariant; consequences. -/
import TbbVerif.Proofs.C01.StreamStep

namespace TbbVerif.C01.Stream
open Lists

theorem step_push (s : St) (k : Nat) (t : Th) (tid iso hnt : Nat) (rest : List Op) (h : SInv s) (hk : s.ths[k]? = some t)
    (hops : t.ops = .push tid iso hnt :: rest) : SInv (stepTh s k t).1 := by
  have htk := h.L2 k t hk
  have hn := h.npos
  obtain ⟨ops, pc, lane, res, out⟩ := t
  simp only at hops; subst hops
  cases pc with
  | start =>
    have hres : res = none := htk.2.1 rfl
    subst hres
    simp only [stepTh]
    have hl1 : (hnt + 1) % s.n < s.n := Nat.mod_lt _ hn
    have hl2 : ((hnt + 1) % s.n + 1) % s.n < s.n := Nat.mod_lt _ hn
    split
    · exact sinv_local s k _ ⟨.push tid iso hnt :: rest, .flagLoad, ((hnt + 1) % s.n + 1) % s.n, none, out⟩ h hk (by simp [holds]) (by simp [holds])
        (by simp [ThOK, isPush, Nat.mod_lt _ hn]) (fun x => rfl)
    · exact sinv_local s k _ ⟨.push tid iso hnt :: rest, .flagXchg, (hnt + 1) % s.n, none, out⟩ h hk (by simp [holds]) (by simp [holds])
        (by simp [ThOK, isPush, Nat.mod_lt _ hn]) (fun x => rfl)
  | flagLoad =>
    have hres : res = none := htk.2.2.1 (Or.inr (Or.inl rfl))
    have hl : lane < s.n := (htk.1 (by simp)).1
    subst hres
    simp only [stepTh]
    split
    · exact sinv_local s k _ ⟨.push tid iso hnt :: rest, .flagLoad, (lane + 1) % s.n, none, out⟩ h hk (by simp [holds]) (by simp [holds])
        (by simp [ThOK, isPush, Nat.mod_lt _ hn]) (fun x => rfl)
    · exact sinv_local s k _ ⟨.push tid iso hnt :: rest, .flagXchg, lane, none, out⟩ h hk (by simp [holds]) (by simp [holds])
        (by simp [ThOK, isPush, hl]) (fun x => rfl)
  | flagXchg =>
    have hres : res = none := htk.2.2.1 (Or.inr (Or.inr rfl))
    have hl : lane < s.n := (htk.1 (by simp)).1
    subst hres
    simp only [stepTh]
    split
    · exact sinv_local s k _ ⟨.push tid iso hnt :: rest, .flagLoad, (lane + 1) % s.n, none, out⟩ h hk (by simp [holds]) (by simp [holds])
        (by simp [ThOK, isPush, Nat.mod_lt _ hn]) (fun x => rfl)
    · rename_i hf
      have hil : lane < s.lanes.length := by rw [h.lenL]; exact hl
      refine sinv_acquire s k lane _ ⟨.push tid iso hnt :: rest, .setBit, lane, none, out⟩ ((s.lanes.getD lane {}).q ++ [some tid])
        (tid :: s.pushed) ((tid, iso) :: s.isos) h hk hl (by simpa [laneFlag] using hf) (by simp [holds]) (by simp [holds]) rfl ?_ ?_
      · simp only [ThOK]
        refine ⟨fun _ => ⟨hl, by simp⟩, by simp, by simp, fun _ => ⟨⟨_, rfl, rfl⟩, trivial, ?_⟩, by simp, by simp, by simp, by simp⟩
        simp only [laneQ]
        rw [getD_set_eq _ _ _ _ hil]
        simp
      · intro x
        simp only [laneQ, List.filterMap_append, List.count_append, List.filterMap_cons, List.filterMap_nil, id, List.count_cons,
          List.count_nil, Option.toList, beq_iff_eq]
        omega
  | setBit =>
    have hs := htk.2.2.2.1 rfl
    have hl : lane < s.n := (htk.1 (by simp)).1
    have hpl : lane < s.pop.length := by rw [h.lenP]; exact hl
    simp only [stepTh]
    refine sinv_bit s k _ ⟨.push tid iso hnt :: rest, .unlock, lane, res, out⟩ true h hk (by simp [holds]) (by simp [holds]) rfl ?_ (fun x => rfl)
    simp only [ThOK]
    refine ⟨fun _ => ⟨hl, by simp⟩, by simp, by simp, by simp, by simp, by simp, fun _ => ⟨?_, fun _ => hs.2.1⟩, by simp⟩
    simp only [bit, getD_set_eq _ _ _ _ hpl, true_iff]
    exact hs.2.2
  | unlock =>
    have hu := htk.2.2.2.2.2.2.1 rfl
    have hres : res = none := hu.2 ⟨_, rfl, rfl⟩
    subst hres
    simp only [stepTh]
    exact sinv_unlock s k _ (Th.fin ⟨.push tid iso hnt :: rest, .unlock, lane, none, out⟩ none) h hk rfl (by simp [holds, Th.fin])
      (by simp [ThOK, Th.fin]) (fun x => by simp [Th.fin])
  | clearBit =>
    have := htk.2.2.2.2.1 (Or.inl rfl)
    obtain ⟨op, h1, h2⟩ := this
    simp at h1; subst h1; simp [isPush] at h2
  | popBit =>
    have := htk.2.2.2.2.1 (Or.inr (Or.inl rfl))
    obtain ⟨op, h1, h2⟩ := this
    simp at h1; subst h1; simp [isPush] at h2
  | again =>
    have := htk.2.2.2.2.1 (Or.inr (Or.inr rfl))
    obtain ⟨op, h1, h2⟩ := this
    simp at h1; subst h1; simp [isPush] at h2

theorem fin_count (res : Option Nat) (out : List (Option Nat)) (x : Nat) :
    ((res :: out).filterMap id).count x + (none : Option Nat).toList.count x = (out.filterMap id).count x + res.toList.count x := by
  cases res <;> simp [List.count_cons]

theorem step_pop (s : St) (k : Nat) (t : Th) (hnt : Nat) (rest : List Op) (h : SInv s) (hk : s.ths[k]? = some t)
    (hops : t.ops = .pop hnt :: rest) : SInv (stepTh s k t).1 := by
  have htk := h.L2 k t hk
  have hn := h.npos
  obtain ⟨ops, pc, lane, res, out⟩ := t
  simp only at hops; subst hops
  cases pc with
  | start =>
    have hres : res = none := htk.2.1 rfl
    subst hres
    simp only [stepTh]
    split
    · exact sinv_local s k _ ⟨.pop hnt :: rest, .popBit, (hnt + 1) % s.n, none, out⟩ h hk (by simp [holds]) (by simp [holds])
        (by simp [ThOK, isPush, Nat.mod_lt _ hn]) (fun x => rfl)
    · exact sinv_local s k _ (Th.fin ⟨.pop hnt :: rest, .start, lane, none, out⟩ (some none)) h hk (by simp [holds]) (by simp [holds, Th.fin])
        (by simp [ThOK, Th.fin]) (fun x => by simp [Th.fin])
  | again =>
    simp only [stepTh]
    split
    · exact sinv_local s k _ (Th.fin ⟨.pop hnt :: rest, .again, lane, res, out⟩ (some res)) h hk (by simp [holds]) (by simp [holds, Th.fin])
        (by simp [ThOK, Th.fin]) (fun x => by simp only [Th.fin]; exact fin_count res out x)
    · rename_i hrs
      have hres : res = none := by cases res <;> simp at hrs ⊢
      subst hres
      split
      · exact sinv_local s k _ ⟨.pop hnt :: rest, .popBit, (lane + 1) % s.n, none, out⟩ h hk (by simp [holds]) (by simp [holds])
          (by simp [ThOK, isPush, Nat.mod_lt _ hn]) (fun x => rfl)
      · exact sinv_local s k _ (Th.fin ⟨.pop hnt :: rest, .again, lane, none, out⟩ (some none)) h hk (by simp [holds]) (by simp [holds, Th.fin])
          (by simp [ThOK, Th.fin]) (fun x => by simp [Th.fin])
  | popBit =>
    have hres : res = none := htk.2.2.1 (Or.inl rfl)
    have hl : lane < s.n := (htk.1 (by simp)).1
    subst hres
    simp only [stepTh]
    cases hb : s.pop.getD lane false with
    | true =>
      simp only [if_true]
      exact sinv_local s k _ ⟨.pop hnt :: rest, .flagLoad, lane, none, out⟩ h hk (by simp [holds]) (by simp [holds])
        (by simp [ThOK, isPush, hl]) (fun x => rfl)
    | false =>
      simp only [Bool.false_eq_true, if_false]
      exact sinv_local s k _ ⟨.pop hnt :: rest, .again, lane, none, out⟩ h hk (by simp [holds]) (by simp [holds])
        (by simp [ThOK, isPush, hl]) (fun x => rfl)
  | flagLoad =>
    have hres : res = none := htk.2.2.1 (Or.inr (Or.inl rfl))
    have hl : lane < s.n := (htk.1 (by simp)).1
    subst hres
    simp only [stepTh]
    split
    · exact sinv_local s k _ ⟨.pop hnt :: rest, .again, lane, none, out⟩ h hk (by simp [holds]) (by simp [holds])
        (by simp [ThOK, isPush, hl]) (fun x => rfl)
    · exact sinv_local s k _ ⟨.pop hnt :: rest, .flagXchg, lane, none, out⟩ h hk (by simp [holds]) (by simp [holds])
        (by simp [ThOK, isPush, hl]) (fun x => rfl)
  | flagXchg =>
    have hres : res = none := htk.2.2.1 (Or.inr (Or.inr rfl))
    have hl : lane < s.n := (htk.1 (by simp)).1
    have hil : lane < s.lanes.length := by rw [h.lenL]; exact hl
    subst hres
    simp only [stepTh]
    split
    · exact sinv_local s k _ ⟨.pop hnt :: rest, .again, lane, none, out⟩ h hk (by simp [holds]) (by simp [holds])
        (by simp [ThOK, isPush, hl]) (fun x => rfl)
    · rename_i hf
      have hff : laneFlag s lane = false := by simpa [laneFlag] using hf
      have hL3 := h.L3 lane hl hff
      split
      · -- acquired, the lane is empty
        rename_i hq
        have hqe : laneQ s lane = [] := hq
        have hlit : ({ (s.lanes.getD lane {}) with flag := true } : Lane) = { flag := true, q := [] } := by
          show ({ flag := true, q := (s.lanes.getD lane {}).q } : Lane) = _
          rw [hq]
        rw [hlit]
        refine sinv_acquire s k lane _ ⟨.pop hnt :: rest, .unlock, lane, none, out⟩ [] s.pushed s.isos h hk hl hff
          (by simp [holds]) (by simp [holds]) rfl ?_ (fun x => by rw [hqe])
        simp only [ThOK]
        refine ⟨fun _ => ⟨hl, by simp⟩, by simp, by simp, by simp, by simp, by simp, fun _ => ⟨?_, fun hp => by
          obtain ⟨op, h1, h2⟩ := hp; simp at h1; subst h1; simp [isPush] at h2⟩, by simp⟩
        simp only [laneQ, bit]
        rw [getD_set_eq _ _ _ _ hil]
        have : bit s lane = false := by
          cases hb : bit s lane with
          | false => rfl
          | true => exact absurd hqe (hL3.mp hb)
        simp only [bit] at this
        rw [this]; simp
      · -- acquired, the front entry is popped
        rename_i x q' hq
        have hqe : laneQ s lane = x :: q' := hq
        have hbt : bit s lane = true := hL3.mpr (by rw [hqe]; simp)
        refine sinv_acquire s k lane _ ⟨.pop hnt :: rest, if q'.isEmpty then .clearBit else .unlock, lane, x, out⟩ q' s.pushed s.isos
          h hk hl hff (by simp [holds]) (by cases q' <;> simp [holds]) rfl ?_
          (fun y => by rw [hqe]; cases x <;> simp [List.filterMap_cons, List.count_cons]; omega)
        have hq'' : laneQ { s with lanes := s.lanes.set lane { flag := true, q := q' }, isos := s.isos, pushed := s.pushed } lane = q' := by
          simp only [laneQ]; rw [getD_set_eq _ _ _ _ hil]
        simp only [ThOK]
        cases q' with
        | nil =>
          refine ⟨fun _ => ⟨hl, by simp⟩, by simp, by simp, by simp, fun _ => ⟨_, rfl, rfl⟩, fun _ => hq'', by simp, by simp⟩
        | cons y q2 =>
          refine ⟨fun _ => ⟨hl, by simp⟩, by simp, by simp, by simp, by simp, by simp, fun _ => ⟨?_, fun hp => by
            obtain ⟨op, h1, h2⟩ := hp; simp at h1; subst h1; simp [isPush] at h2⟩, by simp⟩
          rw [hq'']
          simp only [bit] at hbt ⊢
          rw [hbt]; simp
  | clearBit =>
    have hc := htk.2.2.2.2.2.1 rfl
    have hl : lane < s.n := (htk.1 (by simp)).1
    have hpl : lane < s.pop.length := by rw [h.lenP]; exact hl
    simp only [stepTh]
    refine sinv_bit s k _ ⟨.pop hnt :: rest, .unlock, lane, res, out⟩ false h hk (by simp [holds]) (by simp [holds]) rfl ?_ (fun x => rfl)
    simp only [ThOK]
    refine ⟨fun _ => ⟨hl, by simp⟩, by simp, by simp, by simp, by simp, by simp, fun _ => ⟨?_, fun hp => by
      obtain ⟨op, h1, h2⟩ := hp; simp at h1; subst h1; simp [isPush] at h2⟩, by simp⟩
    simp only [bit, getD_set_eq _ _ _ _ hpl]
    have : laneQ { s with pop := s.pop.set lane false } lane = [] := hc
    rw [this]; simp
  | unlock =>
    have hl : lane < s.n := (htk.1 (by simp)).1
    simp only [stepTh]
    exact sinv_unlock s k _ ⟨.pop hnt :: rest, .again, lane, res, out⟩ h hk rfl (by simp [holds])
      (by simp [ThOK, isPush, hl]) (fun x => rfl)
  | setBit =>
    have := (htk.2.2.2.1 rfl).1
    obtain ⟨op, h1, h2⟩ := this
    simp at h1; subst h1; simp [isPush] at h2

theorem step_popSpecific (s : St) (k : Nat) (t : Th) (last iso : Nat) (rest : List Op) (h : SInv s) (hk : s.ths[k]? = some t)
    (hops : t.ops = .popSpecific last iso :: rest) : SInv (stepTh s k t).1 := by
  have htk := h.L2 k t hk
  have hn := h.npos
  obtain ⟨ops, pc, lane, res, out⟩ := t
  simp only at hops; subst hops
  cases pc with
  | start =>
    have hres : res = none := htk.2.1 rfl
    subst hres
    simp only [stepTh]
    cases hb : s.pop.getD (last % s.n) false with
    | true =>
      simp only [if_true]
      exact sinv_local s k _ ⟨.popSpecific last iso :: rest, .flagLoad, last % s.n, none, out⟩ h hk (by simp [holds]) (by simp [holds])
        (by simp [ThOK, isPush, Nat.mod_lt _ hn]) (fun x => rfl)
    | false =>
      simp only [Bool.false_eq_true, if_false]
      exact sinv_local s k _ ⟨.popSpecific last iso :: rest, .again, (last % s.n + s.n - 1) % s.n, none, out⟩ h hk (by simp [holds]) (by simp [holds])
        (by simp [ThOK, isPush, Nat.mod_lt _ hn]) (fun x => rfl)
  | popBit =>
    have hres : res = none := htk.2.2.1 (Or.inl rfl)
    have hl : lane < s.n := (htk.1 (by simp)).1
    subst hres
    simp only [stepTh]
    cases hb : s.pop.getD lane false with
    | true =>
      simp only [if_true]
      exact sinv_local s k _ ⟨.popSpecific last iso :: rest, .flagLoad, lane, none, out⟩ h hk (by simp [holds]) (by simp [holds])
        (by simp [ThOK, isPush, hl]) (fun x => rfl)
    | false =>
      simp only [Bool.false_eq_true, if_false]
      exact sinv_local s k _ ⟨.popSpecific last iso :: rest, .again, (lane + s.n - 1) % s.n, none, out⟩ h hk (by simp [holds]) (by simp [holds])
        (by simp [ThOK, isPush, Nat.mod_lt _ hn]) (fun x => rfl)
  | flagLoad =>
    have hres : res = none := htk.2.2.1 (Or.inr (Or.inl rfl))
    have hl : lane < s.n := (htk.1 (by simp)).1
    subst hres
    simp only [stepTh]
    split
    · exact sinv_local s k _ ⟨.popSpecific last iso :: rest, .again, (lane + s.n - 1) % s.n, none, out⟩ h hk (by simp [holds]) (by simp [holds])
        (by simp [ThOK, isPush, Nat.mod_lt _ hn]) (fun x => rfl)
    · exact sinv_local s k _ ⟨.popSpecific last iso :: rest, .flagXchg, lane, none, out⟩ h hk (by simp [holds]) (by simp [holds])
        (by simp [ThOK, isPush, hl]) (fun x => rfl)
  | flagXchg =>
    have hres : res = none := htk.2.2.1 (Or.inr (Or.inr rfl))
    have hl : lane < s.n := (htk.1 (by simp)).1
    have hil : lane < s.lanes.length := by rw [h.lenL]; exact hl
    subst hres
    simp only [stepTh]
    split
    · exact sinv_local s k _ ⟨.popSpecific last iso :: rest, .again, (lane + s.n - 1) % s.n, none, out⟩ h hk (by simp [holds]) (by simp [holds])
        (by simp [ThOK, isPush, Nat.mod_lt _ hn]) (fun x => rfl)
    · rename_i hf
      have hff : laneFlag s lane = false := by simpa [laneFlag] using hf
      have hL3 := h.L3 lane hl hff
      split
      · -- acquired, the lane is empty
        rename_i hq
        have hq0 : (s.lanes.getD lane {}).q = [] := by simpa using hq
        have hqe : laneQ s lane = [] := hq0
        have hlit : ({ (s.lanes.getD lane {}) with flag := true } : Lane) = { flag := true, q := [] } := by
          show ({ flag := true, q := (s.lanes.getD lane {}).q } : Lane) = _
          rw [hq0]
        rw [hlit]
        refine sinv_acquire s k lane _ ⟨.popSpecific last iso :: rest, .unlock, lane, none, out⟩ [] s.pushed s.isos h hk hl hff
          (by simp [holds]) (by simp [holds]) rfl ?_ (fun x => by rw [hqe])
        simp only [ThOK]
        refine ⟨fun _ => ⟨hl, by simp⟩, by simp, by simp, by simp, by simp, by simp, fun _ => ⟨?_, fun hp => by
          obtain ⟨op, h1, h2⟩ := hp; simp at h1; subst h1; simp [isPush] at h2⟩, by simp⟩
        simp only [laneQ, bit]
        rw [getD_set_eq _ _ _ _ hil]
        have : bit s lane = false := by
          cases hb : bit s lane with
          | false => rfl
          | true => exact absurd hqe (hL3.mp hb)
        simp only [bit] at this
        rw [this]; simp
      · -- acquired, look_specific
        rename_i hq
        have hqne : laneQ s lane ≠ [] := by
          intro e; apply hq; simp only [laneQ] at e; rw [e]; rfl
        have hbt : bit s lane = true := hL3.mpr hqne
        generalize hls : lookSpecific s (s.lanes.getD lane {}).q iso = ls
        obtain ⟨q', r⟩ := ls
        have hcnt := lookSpecific_count s (s.lanes.getD lane {}).q iso
        rw [hls] at hcnt
        simp only at hcnt ⊢
        refine sinv_acquire s k lane _ ⟨.popSpecific last iso :: rest, if q'.isEmpty then .clearBit else .unlock, lane, r, out⟩ q' s.pushed s.isos
          h hk hl hff (by simp [holds]) (by cases q' <;> simp [holds]) rfl ?_
          (fun y => by have := hcnt y; simp only [laneQ, Option.toList, List.count_nil] at this ⊢; omega)
        have hq'' : laneQ { s with lanes := s.lanes.set lane { flag := true, q := q' }, isos := s.isos, pushed := s.pushed } lane = q' := by
          simp only [laneQ]; rw [getD_set_eq _ _ _ _ hil]
        simp only [ThOK]
        cases q' with
        | nil =>
          refine ⟨fun _ => ⟨hl, by simp⟩, by simp, by simp, by simp, fun _ => ⟨_, rfl, rfl⟩, fun _ => hq'', by simp, by simp⟩
        | cons y q2 =>
          refine ⟨fun _ => ⟨hl, by simp⟩, by simp, by simp, by simp, by simp, by simp, fun _ => ⟨?_, fun hp => by
            obtain ⟨op, h1, h2⟩ := hp; simp at h1; subst h1; simp [isPush] at h2⟩, by simp⟩
          rw [hq'']
          simp only [bit] at hbt ⊢
          rw [hbt]; simp
  | clearBit =>
    have hc := htk.2.2.2.2.2.1 rfl
    have hl : lane < s.n := (htk.1 (by simp)).1
    have hpl : lane < s.pop.length := by rw [h.lenP]; exact hl
    simp only [stepTh]
    refine sinv_bit s k _ ⟨.popSpecific last iso :: rest, .unlock, lane, res, out⟩ false h hk (by simp [holds]) (by simp [holds]) rfl ?_ (fun x => rfl)
    simp only [ThOK]
    refine ⟨fun _ => ⟨hl, by simp⟩, by simp, by simp, by simp, by simp, by simp, fun _ => ⟨?_, fun hp => by
      obtain ⟨op, h1, h2⟩ := hp; simp at h1; subst h1; simp [isPush] at h2⟩, by simp⟩
    simp only [bit, getD_set_eq _ _ _ _ hpl]
    have : laneQ { s with pop := s.pop.set lane false } lane = [] := hc
    rw [this]; simp
  | unlock =>
    have hl : lane < s.n := (htk.1 (by simp)).1
    simp only [stepTh]
    split
    · exact sinv_unlock s k _ (Th.fin ⟨.popSpecific last iso :: rest, .unlock, lane, res, out⟩ (some res)) h hk rfl (by simp [holds, Th.fin])
        (by simp [ThOK, Th.fin]) (fun x => by simp only [Th.fin]; exact fin_count res out x)
    · rename_i hrs
      have hres : res = none := by cases res <;> simp at hrs ⊢
      subst hres
      exact sinv_unlock s k _ ⟨.popSpecific last iso :: rest, .again, (lane + s.n - 1) % s.n, none, out⟩ h hk rfl (by simp [holds])
        (by simp [ThOK, isPush, Nat.mod_lt _ hn]) (fun x => rfl)
  | again =>
    have hres : res = none := htk.2.2.2.2.2.2.2 rfl ⟨_, _, rfl⟩
    have hl : lane < s.n := (htk.1 (by simp)).1
    subst hres
    simp only [stepTh]
    split
    · exact sinv_local s k _ ⟨.popSpecific last iso :: rest, .popBit, lane, none, out⟩ h hk (by simp [holds]) (by simp [holds])
        (by simp [ThOK, isPush, hl]) (fun x => rfl)
    · exact sinv_local s k _ (Th.fin ⟨.popSpecific last iso :: rest, .again, lane, none, out⟩ (some none)) h hk (by simp [holds]) (by simp [holds, Th.fin])
        (by simp [ThOK, Th.fin]) (fun x => by simp [Th.fin])
  | setBit =>
    have := (htk.2.2.2.1 rfl).1
    obtain ⟨op, h1, h2⟩ := this
    simp at h1; subst h1; simp [isPush] at h2

theorem inv_step (s : St) (tid : Tid) (h : SInv s) : SInv (step s tid) := by
  unfold step stepEv
  cases hk : s.ths[tid]? with
  | none => exact h
  | some t =>
    simp only
    cases hops : t.ops with
    | nil => simp only [stepTh, hops]; exact h
    | cons op rest =>
      cases op with
      | push a b c => exact step_push s tid t a b c rest h hk hops
      | pop a => exact step_pop s tid t a rest h hk hops
      | popSpecific a b => exact step_popSpecific s tid t a b rest h hk hops

theorem inv_init (n : Nat) (progs : List (List Op)) (hn : 0 < n) : SInv (init n progs) := by
  have hth : ∀ (k : Nat) (t : Th), (init n progs).ths[k]? = some t → t.pc = .start ∧ t.res = none ∧ t.out = [] := by
    intro k t hk
    simp only [init, List.getElem?_map] at hk
    cases hp : progs[k]? with
    | none => simp [hp] at hk
    | some p => simp [hp] at hk; subst hk; exact ⟨rfl, rfl, rfl⟩
  have hlane : ∀ i, (init n progs).lanes.getD i {} = {} := by
    intro i
    simp only [init, List.getD_eq_getElem?_getD, List.getElem?_replicate]
    split <;> rfl
  have hz : ∀ {α} (l : List α) (f : α → List Nat) (x : Nat), (∀ a ∈ l, f a = []) → ((l.map f).flatten).count x = 0 := by
    intro α l f x hf
    rw [count_flatten_map]
    induction l with
    | nil => rfl
    | cons a l ih =>
      simp only [List.map_cons, List.sum_cons]
      rw [hf a (by simp), ih (fun b hb => hf b (by simp [hb]))]
      rfl
  refine ⟨hn, by simp [init], by simp [init], rfl, ?_, ?_, ?_, ?_⟩
  · intro i _
    have h0 : holderN (init n progs).ths i = 0 := by
      unfold holderN
      apply List.countP_eq_zero.mpr
      intro t ht
      obtain ⟨k, hk⟩ := List.getElem?_of_mem ht
      simp [holdsLane, holds, (hth k t hk).1]
    refine ⟨fun hf => ?_, fun _ => h0⟩
    simp only [laneFlag, hlane] at hf
    exact absurd hf (by simp)
  · intro k t hk
    obtain ⟨h1, h2, h3⟩ := hth k t hk
    simp [ThOK, h1, h2]
  · intro i _ _
    simp only [bit, laneQ, hlane, init, List.getD_eq_getElem?_getD, List.getElem?_replicate]
    split <;> simp
  · intro x
    have e1 := hz (init n progs).ths (fun t => t.out.filterMap id) x (fun t ht => by
      obtain ⟨k, hk⟩ := List.getElem?_of_mem ht; rw [(hth k t hk).2.2]; rfl)
    have e2 := hz (init n progs).ths (fun t => t.res.toList) x (fun t ht => by
      obtain ⟨k, hk⟩ := List.getElem?_of_mem ht; rw [(hth k t hk).2.1]; rfl)
    have e3 := hz (init n progs).lanes (fun l => l.q.filterMap id) x (fun l hl => by
      simp only [init] at hl
      rw [List.eq_of_mem_replicate hl]; rfl)
    simp only [tOut, tRes, inLanes']
    rw [e1, e2, e3]
    simp [init]

theorem inv_reachable (n : Nat) (progs : List (List Op)) (hn : 0 < n) (sched : List Tid) : SInv ((sys n progs).run sched) :=
  Sys.inv_run (sys n progs) SInv (inv_init n progs hn) inv_step sched

end TbbVerif.C01.Stream
