/- C01 — Deque: acquire_task_pool steps of the owner preserve the invariant. -/
import TbbVerif.Proofs.C01.DequeOwner

namespace TbbVerif.C01.Deque
open Lists

/-- the current op matches the context of the acquire / release sub-procedure -/
theorem ops_of_ctx (s : St) (c : Ctx) (h : OwnerOK s)
    (hpc : s.own.pc = .acqPub c ∨ s.own.pc = .acqLoad c ∨ s.own.pc = .acqCas c ∨ s.own.pc = .relLoad c ∨ s.own.pc = .relStore c) :
    match c with | .grow => isSpawn s.own.ops | .get => isGet s.own.ops := by
  unfold OwnerOK GetLoop at h
  rcases hpc with hpc | hpc | hpc | hpc | hpc <;> cases c <;> simp only [hpc] at h <;> simp only <;>
    first | exact h.1 | exact h.1.1

theorem owner_acq_spin (s : St) (c : Ctx) (h : DInv s)
    (hpc : s.own.pc = .acqPub c ∨ s.own.pc = .acqLoad c ∨ s.own.pc = .acqCas c)
    (hne : s.own.pc = .acqPub c → s.lw ≠ .empty) (hnp : s.lw ≠ .pub s.own.gen ∨ s.own.pc ≠ .acqCas c) :
    DInv (stepOwner s).1 := by
  have ho := h.ownOK
  have hop := ops_of_ctx s c ho (by rcases hpc with h | h | h <;> simp [h])
  obtain ⟨cfg, head, tail, lw, pool, bad, spawned, own, ths⟩ := s
  obtain ⟨ops, pc, T0, T, H0, T1, res, omitted, poolEmpty, gen, out, freed⟩ := own
  simp only at hpc hne hnp hop
  cases c with
  | grow =>
    obtain ⟨x, rest, hops⟩ := hop
    subst hops
    rcases hpc with hpc | hpc | hpc <;> subst hpc <;> simp only [OwnerOK] at ho <;> simp only [stepOwner]
    · simp only [hne rfl, if_false]
      exact owner_frame _ _ h rfl rfl rfl rfl rfl rfl rfl rfl rfl rfl rfl rfl rfl rfl (by simp only [OwnerOK]; exact ho)
    · by_cases hl : lw = .locked
      · simp only [hl, if_true]; rw [hl] at h; exact h
      · simp only [hl, if_false]
        exact owner_frame _ _ h rfl rfl rfl rfl rfl rfl rfl rfl rfl rfl rfl rfl rfl rfl (by simp only [OwnerOK]; exact ho)
    · have hnp' : ¬ (lw = .pub gen) := by
        rcases hnp with hnp | hnp
        · exact hnp
        · exact absurd rfl hnp
      simp only [hnp', if_false]
      exact owner_frame _ _ h rfl rfl rfl rfl rfl rfl rfl rfl rfl rfl rfl rfl rfl rfl (by simp only [OwnerOK]; exact ho)
  | get =>
    obtain ⟨iso, rest, hops⟩ := hop
    subst hops
    rcases hpc with hpc | hpc | hpc <;> subst hpc <;> simp only [OwnerOK, GetLoop] at ho <;> simp only [stepOwner]
    · simp only [hne rfl, if_false]
      exact owner_frame _ _ h rfl rfl rfl rfl rfl rfl rfl rfl rfl rfl rfl rfl rfl rfl (by simp only [OwnerOK, GetLoop]; exact ho)
    · by_cases hl : lw = .locked
      · simp only [hl, if_true]; rw [hl] at h; exact h
      · simp only [hl, if_false]
        exact owner_frame _ _ h rfl rfl rfl rfl rfl rfl rfl rfl rfl rfl rfl rfl rfl rfl (by simp only [OwnerOK, GetLoop]; exact ho)
    · have hnp' : ¬ (lw = .pub gen) := by
        rcases hnp with hnp | hnp
        · exact hnp
        · exact absurd rfl hnp
      simp only [hnp', if_false]
      exact owner_frame _ _ h rfl rfl rfl rfl rfl rfl rfl rfl rfl rfl rfl rfl rfl rfl (by simp only [OwnerOK, GetLoop]; exact ho)

/-- assembling the invariant when the owner enters its exclusive section -/
theorem owner_enter (s s' : St) (h : DInv s) (h0 : csN s.ths = 0)
    (hcfg : s'.cfg = s.cfg) (hhead : s'.head = s.head) (hpool : s'.pool = s.pool)
    (hbad : s'.bad = s.bad) (hsp : s'.spawned = s.spawned) (hths : s'.ths = s.ths) (hgen : s'.own.gen = s.own.gen)
    (hout : s'.own.out.filterMap id = s.own.out.filterMap id) (hfr : s'.own.freed = s.own.freed)
    (hres : s'.own.res = s.own.res) (hex : ownerExcl s'.own.pc = true) (hlw : s'.lw = .locked ∨ s'.lw = .empty)
    (hun : s.lw = .empty → s'.lw = .empty)
    (hlo : lo s' = lo s) (hhi : hi s' = hi s) (hown : OwnerOK s') : DInv s' := by
  refine ⟨by rw [hcfg]; exact h.cfgOK, by rw [hbad]; exact h.nobad, by rw [hhead]; exact h.headNN, ?_, ?_,
    thOK_owner s s' h hths (Or.inr h0), hown, WinOK_own_same s s' h.winOK hths hpool hsp hlo hhi hout hfr hres⟩
  · intro hz; rw [hpool] at hz; exact hun (h.unalloc hz)
  · refine ⟨by rw [hths]; omega, fun _ => ⟨by rw [hths]; exact h0, hlw⟩, fun hf => by rw [hex] at hf; exact absurd hf (by simp), ?_⟩
    intro g hg
    rcases hlw with hl | hl <;> rw [hl] at hg <;> exact absurd hg (by simp)

theorem owner_acq_enter (s : St) (c : Ctx) (h : DInv s)
    (hpc : (s.own.pc = .acqPub c ∧ s.lw = .empty) ∨ (s.own.pc = .acqCas c ∧ s.lw = .pub s.own.gen)) :
    DInv (stepOwner s).1 := by
  have ho := h.ownOK
  have hop := ops_of_ctx s c ho (by rcases hpc with ⟨h, _⟩ | ⟨h, _⟩ <;> simp [h])
  have h0 : csN s.ths = 0 := by
    rcases hpc with ⟨hp, hl⟩ | ⟨hp, hl⟩
    · have := h.lockOK.lock (by rw [hp]; rfl)
      have hle := h.lockOK.csLe
      rw [hl] at this; simp at this; omega
    · exact (pub_facts s _ h hl).1
  obtain ⟨cfg, head, tail, lw, pool, bad, spawned, own, ths⟩ := s
  obtain ⟨ops, pc, T0, T, H0, T1, res, omitted, poolEmpty, gen, out, freed⟩ := own
  simp only at hpc hop h0
  cases c with
  | grow =>
    obtain ⟨x, rest, hops⟩ := hop
    subst hops
    rcases hpc with ⟨hpc, hl⟩ | ⟨hpc, hl⟩ <;> subst hpc hl <;> simp only [OwnerOK] at ho <;> simp only [stepOwner, if_true, afterAcquire]
    · exact owner_enter _ _ h h0 rfl rfl rfl rfl rfl rfl rfl rfl rfl rfl rfl (Or.inr rfl) (fun e => e) rfl rfl
        (by simp only [OwnerOK]; exact ho)
    · exact owner_enter _ _ h h0 rfl rfl rfl rfl rfl rfl rfl rfl rfl rfl rfl (Or.inl rfl) (fun e => by simp at e) rfl rfl
        (by simp only [OwnerOK]; exact ho)
  | get =>
    obtain ⟨iso, rest, hops⟩ := hop
    subst hops
    rcases hpc with ⟨hpc, hl⟩ | ⟨hpc, hl⟩ <;> subst hpc hl <;> simp only [OwnerOK, GetLoop] at ho <;> simp only [stepOwner, if_true, afterAcquire]
    · exact owner_enter _ _ h h0 rfl rfl rfl rfl rfl rfl rfl rfl rfl rfl rfl (Or.inr rfl) (fun e => e) rfl rfl
        (by simp only [OwnerOK, GetLoop]; exact ho)
    · exact owner_enter _ _ h h0 rfl rfl rfl rfl rfl rfl rfl rfl rfl rfl rfl (Or.inl rfl) (fun e => by simp at e) rfl rfl
        (by simp only [OwnerOK, GetLoop]; exact ho)

end TbbVerif.C01.Deque
