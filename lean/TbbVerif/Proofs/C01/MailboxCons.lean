/- C01 — mail_outbox: the consumer's (internal_pop) steps that do not write a link preserve the invariant. -/
import TbbVerif.Proofs.C01.MailboxPush

namespace TbbVerif.C01.Mailbox
open Lists

/-- reading a non-null link at the end of a prefix of the queue yields the next proxy of the queue -/
theorem succ_of_link (s : St) (h : MInv s) (pre rest : List Nat) (hq : queue s = pre ++ rest) (q : Nat)
    (hl : getLink s (tailLink .first pre) = some q) : ∃ rest', rest = q :: rest' := by
  cases rest with
  | nil =>
    have := h.tl
    rw [hq, List.append_nil, hl] at this
    exact absurd this (by simp)
  | cons q0 rest' =>
    have hs := h.seg
    rw [hq, chainSeg_append] at hs
    rcases hs.2.1 with hlk | ⟨hn, _⟩
    · rw [hl] at hlk
      have : q = q0 := Option.some.inj hlk
      subst this
      exact ⟨rest', rfl⟩
    · rw [hl] at hn; exact absurd hn (by simp)

/-- a pusher whose link store is outstanding cannot be the pusher of a proxy that is already physically linked -/
theorem not_pending_of_linked (s : St) (h : MInv s) (pre post : List Nat) (q : Nat) (hq : queue s = pre ++ q :: post)
    (hl : getLink s (tailLink .first pre) = some q) :
    ∀ (k : Nat) (u : Pusher), s.pushers[k]? = some u → u.pc = .link → u.p ≠ q := by
  intro k u hk hpc e
  have hu := h.push k u hk
  simp only [PushOK, hpc] at hu
  obtain ⟨_, pre', post', h2, h3, h4⟩ := hu
  rw [e] at h2
  have := incoming_unique (queue s) pre' post' pre post q q (queue_nodup s h.ordN) h2 hq
  -- same node ⇒ same position ⇒ same incoming address
  have hpre : pre' = pre := by
    have hnd := queue_nodup s h.ordN
    rw [h2] at hnd
    have hnq : q ∉ pre' := by
      intro hm
      exact (List.nodup_append.mp hnd).2.2 q hm q (by simp) rfl
    have hnd2 := queue_nodup s h.ordN
    rw [hq] at hnd2
    have hnq2 : q ∉ pre := by
      intro hm
      exact (List.nodup_append.mp hnd2).2.2 q hm q (by simp) rfl
    exact (split_unique pre' pre post' post q hnq hnq2 (by rw [← h2, ← hq])).1
  rw [h3, hpre, hl] at h4
  exact absurd h4 (by simp)

/-- assembling the invariant after a consumer step that writes no link, no `my_last`, and returns nothing but `nullptr` -/
theorem cons_assemble (s s' : St) (h : MInv s)
    (ef : s'.first = s.first) (en : s'.nexts = s.nexts) (ei : s'.isos = s.isos) (ep : s'.pushers = s.pushers)
    (el : s'.last = s.last) (eo : s'.order = s.order) (epop : popped s' = popped s)
    (hcut : ∀ b p, cutAt s b p → cutAt s' b p) (hco : ConsOK s')
    (hncp : ∀ (k : Nat) (u : Pusher), s.pushers[k]? = some u → u.pc = .link → s'.cons.pc ≠ .start → u.p ≠ s'.cons.curr) :
    MInv s' := by
  have eq : queue s' = queue s := by simp only [queue, eo, epop]
  have hg : ∀ b, getLink s' b = getLink s b := by intro b; cases b <;> simp only [getLink, ef, en]
  obtain ⟨hseg, htl⟩ := frame_chain s s' h eq (fun b _ => hg b)
    (fun b p ⟨k, u, a1, a2, a3, a4⟩ => ⟨k, u, by rw [ep]; exact a1, a2, a3, a4⟩) hcut
  refine ⟨by rw [en, ei]; exact h.lenI, by rw [eo]; exact h.ordN, by intro p hp; rw [eo] at hp; rw [en]; exact h.ordB p hp,
          by rw [epop]; exact h.popN, by rw [epop, eo]; exact h.popS, hseg, htl, by rw [el, eq]; exact h.lastOK, ?_, ?_, hco, ?_⟩
  · intro k u hk
    rw [ep] at hk
    exact PushOK_mono s s' u [] (by rw [eq]; simp) (by rw [en]; exact Nat.le_refl _) (fun b _ => hg b)
      (fun hx => by
        have hold := h.push k u hk
        simp only [PushOK, hx] at hold
        exact ⟨by rw [eo]; exact hold.2.2.1, by rw [hg]; exact hold.2.2.2⟩) (h.push k u hk)
  · intro k1 k2 u1 u2 hne h1 h2 hp1 hp2
    rw [ep] at h1 h2
    exact h.dist k1 k2 u1 u2 hne h1 h2 hp1 hp2
  · intro k u hk hl hcs
    rw [ep] at hk
    exact hncp k u hk hl hcs

theorem popped_fin_none (c : Cons) : ((c.fin none).out.filterMap id).reverse = (c.out.filterMap id).reverse := by
  simp [Cons.fin]

/-- internal_pop returns nullptr (empty mailbox, or no proxy with the requested isolation) -/
theorem cons_fin_none (s s' : St) (h : MInv s) (hpc : s.cons.pc = .start ∨ s.cons.pc = .walk)
    (ef : s'.first = s.first) (en : s'.nexts = s.nexts) (ei : s'.isos = s.isos) (ep : s'.pushers = s.pushers)
    (el : s'.last = s.last) (eo : s'.order = s.order) (ec : s'.cons = s.cons.fin none) : MInv s' := by
  refine cons_assemble s s' h ef en ei ep el eo (by simp only [popped, ec]; exact popped_fin_none _) ?_ ?_ ?_
  · intro b p ⟨hc, _, _⟩
    rcases hpc with e | e <;> rw [e] at hc <;> simp at hc
  · unfold ConsOK; rw [ec]; simp [Cons.fin]
  · intro k u _ _ hcs; rw [ec] at hcs; simp [Cons.fin] at hcs

/-- the consumer moves on to the proxy `q` it has just read from the link at the end of `pre` -/
theorem cons_arrive (s s' : St) (h : MInv s) (pre post : List Nat) (q : Nat) (hpc : s.cons.pc = .start ∨ s.cons.pc = .walk)
    (hops : s.cons.ops ≠ []) (hq : queue s = pre ++ q :: post) (hl : getLink s (tailLink .first pre) = some q)
    (hmis : ∀ r ∈ pre, Mismatch s r)
    (ef : s'.first = s.first) (en : s'.nexts = s.nexts) (ei : s'.isos = s.isos) (ep : s'.pushers = s.pushers)
    (el : s'.last = s.last) (eo : s'.order = s.order)
    (ec : s'.cons = { s.cons with curr := q, prev := tailLink .first pre,
                                  pc := if curIso s != 0 && isoOf s q != curIso s then .walk else .second }) : MInv s' := by
  have epop : popped s' = popped s := by simp only [popped, ec]
  have eq : queue s' = queue s := by simp only [queue, eo, epop]
  have hg : ∀ b, getLink s' b = getLink s b := by intro b; cases b <;> simp only [getLink, ef, en]
  have hci : curIso s' = curIso s := by simp only [curIso, ec]
  have hio : ∀ r, isoOf s' r = isoOf s r := by intro r; simp only [isoOf, ei]
  refine cons_assemble s s' h ef en ei ep el eo epop ?_ ?_ ?_
  · intro b p ⟨hc, _, _⟩
    rcases hpc with e | e <;> rw [e] at hc <;> simp at hc
  · have hpos : Pos s' pre post := by
      refine ⟨by rw [eq, hq, ec], by rw [ec], fun r hr => ?_⟩
      have := hmis r hr
      simp only [Mismatch] at this ⊢
      rw [hci, hio]; exact this
    unfold ConsOK
    by_cases hm : (curIso s != 0 && isoOf s q != curIso s) = true
    · have hpc' : s'.cons.pc = .walk := by rw [ec]; simp only [hm, if_true]
      simp only [hpc']
      refine ⟨by rw [ec]; exact hops, pre, post, hpos, by rw [hg, ec]; exact hl, ?_⟩
      simp only [Mismatch, hci, hio, ec]
      simpa using hm
    · have hpc' : s'.cons.pc = .second := by rw [ec]; simp only [hm, Bool.false_eq_true, if_false]
      simp only [hpc']
      refine ⟨by rw [ec]; exact hops, pre, post, hpos, by rw [hg, ec]; exact hl, ?_⟩
      simp only [Mismatch, hci, hio, ec]
      intro hx; apply hm; simpa using hx
  · intro k u hk hlk _
    rw [ec]
    exact not_pending_of_linked s h pre post q hq hl k u hk hlk

/-- a step of the consumer that only changes its program counter / the local `second` -/
theorem cons_local (s s' : St) (h : MInv s)
    (ef : s'.first = s.first) (en : s'.nexts = s.nexts) (ei : s'.isos = s.isos) (ep : s'.pushers = s.pushers)
    (el : s'.last = s.last) (eo : s'.order = s.order)
    (eops : s'.cons.ops = s.cons.ops) (ecurr : s'.cons.curr = s.cons.curr) (eprev : s'.cons.prev = s.cons.prev)
    (eout : s'.cons.out = s.cons.out)
    (hcutpc : (s.cons.pc = .cas ∨ s.cons.pc = .spin ∨ s.cons.pc = .storeLate) →
              (s'.cons.pc = .cas ∨ s'.cons.pc = .spin ∨ s'.cons.pc = .storeLate))
    (hns : s.cons.pc ≠ .start) (hco : ConsOK s') : MInv s' := by
  refine cons_assemble s s' h ef en ei ep el eo (by simp only [popped, eout]) ?_ hco ?_
  · intro b p ⟨hc, h1, h2⟩
    exact ⟨hcutpc hc, by rw [eprev]; exact h1, by rw [ecurr]; exact h2⟩
  · intro k u hk hlk _
    rw [ecurr]
    exact h.ncp k u hk hlk hns

end TbbVerif.C01.Mailbox
