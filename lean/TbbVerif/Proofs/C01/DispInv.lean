/-
C01 / Dispatch: the inductive invariant of the composition model and generic facts about it.
-/
import TbbVerif.Model.C01Dispatch
import TbbVerif.Proofs.C01.DispLists

namespace TbbVerif.C01.Dispatch

/-- expected number of places a unit can be taken from -/
def expOcc : Option UnitR → Nat
  | some x => if x.st = .pending then 1 else 0
  | none => 0

/-- expected number of `exec` frames of a unit -/
def expFc : Option UnitR → Nat
  | some x => if x.st = .running ∨ x.st = .released then 1 else 0
  | none => 0

/-- expected number of pool cells / mailbox entries that refer to a proxy -/
def expPool : Option Proxy → Nat
  | some X => if X.tag = .shared ∨ X.tag = .poolCleans then 1 else 0
  | none => 0

def expBox : Option Proxy → Nat
  | some X => if X.tag = .shared ∨ X.tag = .mboxCleans then 1 else 0
  | none => 0

def expRefs : Option Group → Nat
  | some G => G.refs
  | none => 0

structure Inv (s : St) : Prop where
  iocc : ∀ u, occ s u = expOcc s.units[u]?
  ifc : ∀ u, frameCount s u = expFc s.units[u]?
  ictr : ∀ (u : Nat) (x : UnitR), s.units[u]? = some x → x.nexec + x.ncancel = if x.st = .pending then 0 else 1
  ipp : ∀ p, poolCount s (.proxy p) = expPool s.proxies[p]?
  ipb : ∀ p, boxCount s p = expBox s.proxies[p]?
  irefs : ∀ g, live s g = expRefs s.groups[g]?
  iclosed : ∀ (u : Nat) (x : UnitR) (G : Group), s.units[u]? = some x → s.groups[x.grp]? = some G → G.closed = true → x.st = .released ∨ x.st = .done
  icanc : ∀ (u : Nat) (x : UnitR), s.units[u]? = some x → 0 < x.ncancel → s.ctxs[x.ctx]?.getD false = true

theorem flatten_replicate_nil {α : Type} (n : Nat) : (List.replicate n ([] : List α)).flatten = [] := by
  induction n with
  | zero => rfl
  | succ n ih => simp [List.replicate_succ, ih]

theorem inv_init (sa : List Nat) (na nt : Nat) (ord : List Src) : Inv (init sa na nt ord) := by
  refine ⟨?_, ?_, ?_, ?_, ?_, ?_, ?_, ?_⟩
  · intro u
    simp [occ, poolCount, streamCount, bypassCount, liveProxy, init, expOcc, List.count_replicate]
  · intro u; simp [frameCount, init, expFc]
  · intro u x h; simp [init] at h
  · intro p; simp [poolCount, init, expPool]
  · intro p; simp [boxCount, init, expBox]
  · intro g; simp [live, init, expRefs]
  · intro u x G h; simp [init] at h
  · intro u x h; simp [init] at h

/-- a unit that can be taken from somewhere is pending -/
theorem pending_of_occ {s : St} (h : Inv s) {u : Nat} (hpos : 0 < occ s u) :
    ∃ x, s.units[u]? = some x ∧ x.st = .pending := by
  have := h.iocc u
  cases hu : s.units[u]? with
  | none => rw [hu] at this; simp [expOcc] at this; omega
  | some x =>
    rw [hu] at this
    refine ⟨x, rfl, ?_⟩
    simp only [expOcc] at this
    split at this
    · assumption
    · omega

end TbbVerif.C01.Dispatch
