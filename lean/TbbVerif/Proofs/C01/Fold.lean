/- C01 — join tree / fold_tree: inductive invariant of the Fold model (Model/C01.lean).

For every node j:  m_ref_count[j] = #(folders about to decrement j) + #(child nodes of j whose own count is still > 0).
-/
import TbbVerif.Model.C01
import TbbVerif.Proofs.C01.Lists

namespace TbbVerif.C01.Fold
open Lists

def cntDec (pcs : List Pc) (j : Nat) : Nat := pcs.countP (fun p => p == .dec j)
def cntRel (pcs : List Pc) : Nat := pcs.countP (fun p => p == .rel)
def kidLive (t : Tree) (refs : List Int) (j c : Nat) : Bool :=
  c != 0 && t.par.getD c 0 == j && decide (0 < refs.getD c 0)
def liveKids (t : Tree) (refs : List Int) (j : Nat) : Nat := (List.range t.par.length).countP (kidLive t refs j)

structure Wf (t : Tree) : Prop where
  pos : 0 < t.par.length
  par : ∀ i, i < t.par.length → i ≠ 0 → t.par.getD i 0 < i
  leaf : ∀ x ∈ t.leaf, x < t.par.length
  root : nChildren t 0 = 1
  kids : ∀ j, j < t.par.length → j ≠ 0 → 0 < nChildren t j

theorem wf_of (t : Tree) (h : t.wf = true) : Wf t := by
  simp only [Tree.wf, Bool.and_eq_true, decide_eq_true_eq, List.all_eq_true, List.mem_range, Bool.or_eq_true,
    beq_iff_eq] at h
  obtain ⟨⟨⟨⟨h1, h2⟩, h3⟩, h4⟩, h5⟩ := h
  refine ⟨h1, ?_, h3, h4, ?_⟩
  · intro i hi hne
    rcases h2 i hi with h | h
    · exact absurd h hne
    · exact h
  · intro j hj hne
    rcases h5 j hj with h | h
    · exact absurd h hne
    · exact h

structure FInv (t : Tree) (s : St) : Prop where
  tree : s.tree = t
  lenR : s.refs.length = t.par.length
  lenF : s.freed.length = t.par.length
  lenS : s.started.length = s.pcs.length
  R : ∀ j, j < t.par.length → s.refs.getD j 0 = ((cntDec s.pcs j + liveKids t s.refs j : Nat) : Int)
  inb : ∀ (i n : Nat), s.pcs[i]? = some (Pc.dec n) → n < t.par.length
  F : ∀ j, j < t.par.length → s.freed.getD j true = true → s.refs.getD j 0 = 0
  W : ((s.released + cntRel s.pcs : Nat) : Int) + s.refs.getD 0 0 = 1
  wt : s.wait = 1 - (s.released : Int) ∧ s.notified = s.released
  S : ∀ (i : Nat), s.started.getD i true = false → s.pcs[i]? = some (Pc.dec (t.leaf.getD i 0))
  nobad : s.bad = false

theorem cntDec_map_dec (l : List Nat) (j : Nat) : cntDec (l.map Pc.dec) j = l.countP (· == j) := by
  unfold cntDec
  rw [List.countP_map]
  apply List.countP_congr
  intro x _
  simp

theorem getD_range_map (N : Nat) (f : Nat → Int) (j : Nat) (h : j < N) : ((List.range N).map f).getD j 0 = f j := by
  simp [List.getD_eq_getElem?_getD, h]

theorem inv_init (t : Tree) (hw : Wf t) : FInv t (init t) := by
  have hrefs : ∀ j, j < t.par.length → (init t).refs.getD j 0 = (nChildren t j : Int) := by
    intro j hj
    simp only [init]
    exact getD_range_map _ _ j hj
  refine ⟨rfl, by simp [init], by simp [init], by simp [init], ?_, ?_, ?_, ?_, ⟨by simp [init], rfl⟩, ?_, rfl⟩
  · intro j hj
    rw [hrefs j hj]
    have e1 : cntDec (init t).pcs j = t.leaf.countP (· == j) := by
      simp only [init]; exact cntDec_map_dec _ _
    have e2 : liveKids t (init t).refs j =
        (List.range t.par.length).countP (fun c => c != 0 && t.par.getD c 0 == j) := by
      unfold liveKids
      apply countP_range_congr
      intro c hc
      simp only [kidLive]
      by_cases h0 : c = 0
      · simp [h0]
      · rw [hrefs c hc]
        have hk := hw.kids c hc h0
        simp
        intro _ _
        exact hk
    rw [e1, e2, Nat.add_comm]
    rfl
  · intro i n h
    simp only [init, List.getElem?_map] at h
    cases hl : t.leaf[i]? with
    | none => simp [hl] at h
    | some x =>
      simp [hl] at h
      subst h
      exact hw.leaf x (List.mem_of_getElem? hl)
  · intro j hj h
    simp [init, List.getD_eq_getElem?_getD, hj] at h
  · have : cntRel (init t).pcs = 0 := by
      simp only [cntRel, init, List.countP_map]
      apply List.countP_eq_zero.mpr
      intro x _
      simp
    rw [hrefs 0 hw.pos, hw.root, this]
    simp [init]
  · intro i h
    simp only [init, List.getD_eq_getElem?_getD, List.getElem?_map] at h ⊢
    cases hl : t.leaf[i]? with
    | none => simp [hl] at h
    | some x => simp [hl]

/-- a child whose count is still positive keeps the parent's count positive, up to the root -/
theorem root_pos (t : Tree) (hw : Wf t) (s : St) (h : FInv t s) :
    ∀ j, j < t.par.length → 0 < s.refs.getD j 0 → 0 < s.refs.getD 0 0 := by
  intro j
  induction j using Nat.strongRecOn with
  | _ j ih =>
    intro hj hp
    by_cases h0 : j = 0
    · subst h0; exact hp
    · have hm := hw.par j hj h0
      have hmN : t.par.getD j 0 < t.par.length := by omega
      have hk : kidLive t s.refs (t.par.getD j 0) j = true := by
        have h1 : (j != 0) = true := by simp [h0]
        have h2 : decide (0 < s.refs.getD j 0) = true := by simpa using hp
        simp only [kidLive, h1, h2, beq_self_eq_true, Bool.and_self]
      have : 0 < liveKids t s.refs (t.par.getD j 0) := by
        unfold liveKids
        exact List.countP_pos_iff.mpr ⟨j, by simp [hj], hk⟩
      have hr := h.R _ hmN
      exact ih _ hm hmN (by rw [hr]; omega)

theorem cntDec_set (pcs : List Pc) (i : Nat) (x y : Pc) (j : Nat) (h : pcs[i]? = some x) :
    cntDec (pcs.set i y) j + (if x = .dec j then 1 else 0) = cntDec pcs j + (if y = .dec j then 1 else 0) := by
  have := countP_set_add (fun p => p == Pc.dec j) pcs i x y h
  simpa [cntDec] using this

theorem cntRel_set (pcs : List Pc) (i : Nat) (x y : Pc) (h : pcs[i]? = some x) :
    cntRel (pcs.set i y) + (if x = .rel then 1 else 0) = cntRel pcs + (if y = .rel then 1 else 0) := by
  have := countP_set_add (fun p => p == Pc.rel) pcs i x y h
  simpa [cntRel] using this

theorem liveKids_set_same (t : Tree) (refs : List Int) (n : Nat) (v : Int) (j : Nat)
    (hsame : kidLive t (refs.set n v) j n = kidLive t refs j n) :
    liveKids t (refs.set n v) j = liveKids t refs j := by
  unfold liveKids
  apply countP_range_congr
  intro c _
  by_cases hc : c = n
  · subst hc; exact hsame
  · simp only [kidLive]
    rw [getD_set_ne _ _ _ _ _ (fun e => hc e.symm)]

theorem liveKids_set_change (t : Tree) (refs : List Int) (n : Nat) (v : Int) (j : Nat) (hn : n < t.par.length) :
    liveKids t (refs.set n v) j + (if kidLive t refs j n then 1 else 0) =
      liveKids t refs j + (if kidLive t (refs.set n v) j n then 1 else 0) := by
  unfold liveKids
  apply countP_range_change _ n _ _ hn
  intro c hc
  simp only [kidLive]
  rw [getD_set_ne _ _ _ _ _ (fun e => hc e.symm)]

end TbbVerif.C01.Fold
