/-
C01 / DequeTso: kernel-checked closure of the reachable set for one Orders table (see DequeTsoCore.lean):
decRmw=false decFence=true incRmw=true incFence=true.
-/
import TbbVerif.Proofs.C01.DequeTsoCore

namespace TbbVerif.C01.DequeTso

theorem closed_0111 : closed ⟨false, true, true, true⟩ (reachSet ⟨false, true, true, true⟩) = true := by decide +kernel
theorem safe_0111 : safe (reachSet ⟨false, true, true, true⟩) = true := by decide +kernel

end TbbVerif.C01.DequeTso
