/-
C01 / Dispatch: the interface between the composition model and the component models.

`Dispatch` treats every container (task pool of a slot, mailbox, task_stream) as a BAG: `submit` adds one entry,
a take removes exactly the entry it returns.  `BagLaw puts takes inside` is that interface stated on histories:
whatever was put in and has not been taken out is inside — nothing else, nothing twice.  The component theorems
(`deque_conservation`, `mailbox_no_loss_no_dup`, `stream_conservation`) are exactly `BagLaw` for the access-level
protocol models, in EVERY reachable state of EVERY schedule; `Props/C01.lean` instantiates them
(`deque_implements_bag`, `mailbox_implements_bag`, `stream_implements_bag`), so nothing about the containers is
assumed by the composition theorems — the abstraction step is discharged, not hypothesised.  The two-sided claim of a
proxy is `proxy_implements_claim` (`proxy_exactly_once` + `proxy_freed_once`).
-/
namespace TbbVerif.C01

/-- everything put in is either taken out or still inside (as multisets) -/
def BagLaw {α : Type} (puts takes inside : List α) : Prop := List.Perm puts (takes ++ inside)

namespace BagLaw
variable {α : Type} {puts takes inside : List α}

theorem empty : BagLaw ([] : List α) [] [] := List.Perm.refl _

/-- `submit`: one more entry inside -/
theorem put (x : α) (h : BagLaw puts takes inside) : BagLaw (x :: puts) takes (x :: inside) := by
  unfold BagLaw at *
  exact (List.Perm.cons x h).trans (List.perm_middle.symm)

/-- a take removes exactly the entry it returns -/
theorem take {k : Nat} {x : α} (hk : inside[k]? = some x) (h : BagLaw puts takes inside) :
    BagLaw puts (x :: takes) (inside.eraseIdx k) := by
  unfold BagLaw at *
  obtain ⟨hlt, he⟩ := List.getElem?_eq_some_iff.mp hk
  have h1 : List.Perm inside (x :: inside.eraseIdx k) := by
    subst he
    rw [List.eraseIdx_eq_take_drop_succ]
    have e : inside = inside.take k ++ inside[k] :: inside.drop (k + 1) := by
      conv => lhs; rw [← List.take_append_drop k inside, List.drop_eq_getElem_cons hlt]
    conv => lhs; rw [e]
    exact List.perm_middle
  exact (h.trans (List.Perm.append_left _ h1)).trans List.perm_middle

/-- nothing is lost -/
theorem no_loss (h : BagLaw puts takes inside) {x : α} (hx : x ∈ puts) : x ∈ takes ∨ x ∈ inside :=
  List.mem_append.mp (h.mem_iff.mp hx)

/-- nothing is handed out that was not put in -/
theorem sound (h : BagLaw puts takes inside) {x : α} (hx : x ∈ takes) : x ∈ puts :=
  h.mem_iff.mpr (List.mem_append_left _ hx)

/-- nothing is handed out twice -/
theorem no_dup (h : BagLaw puts takes inside) (hd : puts.Nodup) : takes.Nodup ∧ inside.Nodup ∧ ∀ x ∈ takes, x ∉ inside := by
  have := h.nodup_iff.mp hd
  obtain ⟨a, b, c⟩ := List.nodup_append.mp this
  exact ⟨a, b, fun x hx hi => c x hx x hi rfl⟩

end BagLaw
end TbbVerif.C01
