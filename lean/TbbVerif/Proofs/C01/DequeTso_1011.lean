/-
C01 / DequeTso: kernel-checked closure of the reachable set for one Orders table (see DequeTsoCore.lean):
decRmw=true decFence=false incRmw=true incFence=true.
-/
import TbbVerif.Proofs.C01.DequeTsoCore

namespace TbbVerif.C01.DequeTso

theorem closed_1011 : closed ⟨true, false, true, true⟩ (reachSet ⟨true, false, true, true⟩) = true := by decide +kernel
theorem safe_1011 : safe (reachSet ⟨true, false, true, true⟩) = true := by decide +kernel

end TbbVerif.C01.DequeTso
