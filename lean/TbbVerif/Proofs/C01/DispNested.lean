/-
C01 / Dispatch: nested waits.  `Group.inUnit` records the unit inside whose `execute()` the wait on a group began.
Invariant `NInv`: an open wait (began, not closed) is a frame `wait (some h)` on some thread's stack whose nearest
`exec` frame below is exactly `inUnit`, and that unit is still running.  Consequence: a unit does not release its
reference — let alone return — before every wait begun inside it has returned.
-/
import TbbVerif.Proofs.C01.DispFinal

namespace TbbVerif.C01.Dispatch

/-- stack `stk` contains a frame `wait (some h)` whose nearest `exec` frame below is `iu` -/
def HasWait (stk : List Frame) (h : Nat) (iu : Option Nat) : Prop :=
  ∃ (i : Nat) (iso : Nat), stk[i]? = some (.wait (some h) iso) ∧ innerExec (stk.drop (i + 1)) = iu

def Witness (stacks : List (List Frame)) (h : Nat) (iu : Option Nat) : Prop :=
  ∃ (t : Nat) (stk : List Frame), stacks[t]? = some stk ∧ HasWait stk h iu

theorem hasWait_cons {stk : List Frame} {h : Nat} {iu : Option Nat} (f : Frame) (hw : HasWait stk h iu) :
    HasWait (f :: stk) h iu := by
  obtain ⟨i, iso, hi, hin⟩ := hw
  exact ⟨i + 1, iso, by simpa using hi, by simpa using hin⟩

theorem hasWait_tail {stk : List Frame} {h : Nat} {iu : Option Nat} {f : Frame} (hw : HasWait (f :: stk) h iu)
    (hf : ∀ iso, f ≠ .wait (some h) iso) : HasWait stk h iu := by
  obtain ⟨i, iso, hi, hin⟩ := hw
  cases i with
  | zero => simp at hi; exact absurd hi (hf iso)
  | succ j => exact ⟨j, iso, by simpa using hi, by simpa using hin⟩

theorem hasWait_head (stk : List Frame) (h iso : Nat) : HasWait (.wait (some h) iso :: stk) h (innerExec stk) :=
  ⟨0, iso, by simp, by simp⟩

theorem stacks_set_get {l : List (List Frame)} {t : Nat} {stk : List Frame} (ht : l[t]? = some stk) (stk' : List Frame)
    (q : Nat) : (l.set t stk')[q]? = if t = q then some stk' else l[q]? := by
  have hlt : t < l.length := (List.getElem?_eq_some_iff.mp ht).1
  simp only [List.getElem?_set]
  by_cases h : t = q
  · subst h; simp [hlt]
  · simp [h]

theorem witness_push {stacks : List (List Frame)} {t : Nat} {stk : List Frame} (hst : stacks[t]? = some stk) (f : Frame)
    {h : Nat} {iu : Option Nat} (hw : Witness stacks h iu) : Witness (stacks.set t (f :: stk)) h iu := by
  obtain ⟨t0, stk0, h0, hh⟩ := hw
  by_cases ht : t = t0
  · subst ht
    rw [hst] at h0
    cases h0
    exact ⟨t, f :: stk, by rw [stacks_set_get hst]; simp, hasWait_cons f hh⟩
  · exact ⟨t0, stk0, by rw [stacks_set_get hst]; simp [ht, h0], hh⟩

theorem witness_pop {stacks : List (List Frame)} {t : Nat} {f : Frame} {rest : List Frame}
    (hst : stacks[t]? = some (f :: rest)) {h : Nat} {iu : Option Nat} (hf : ∀ iso, f ≠ .wait (some h) iso)
    (hw : Witness stacks h iu) : Witness (stacks.set t rest) h iu := by
  obtain ⟨t0, stk0, h0, hh⟩ := hw
  by_cases ht : t = t0
  · subst ht
    rw [hst] at h0
    cases h0
    exact ⟨t, rest, by rw [stacks_set_get hst]; simp, hasWait_tail hh hf⟩
  · exact ⟨t0, stk0, by rw [stacks_set_get hst]; simp [ht, h0], hh⟩

theorem witness_new {stacks : List (List Frame)} {t : Nat} {stk : List Frame} (hst : stacks[t]? = some stk) (h iso : Nat) :
    Witness (stacks.set t (.wait (some h) iso :: stk)) h (innerExec stk) :=
  ⟨t, _, by rw [stacks_set_get hst]; simp, hasWait_head stk h iso⟩

theorem innerExec_mem {stk : List Frame} {u : Nat} (h : innerExec stk = some u) : Frame.exec u ∈ stk := by
  induction stk with
  | nil => simp [innerExec] at h
  | cons f r ih =>
    cases f with
    | exec v => simp [innerExec] at h; subst h; simp
    | attach k => simp only [innerExec] at h; exact List.mem_cons_of_mem _ (ih h)
    | wait g w => simp only [innerExec] at h; exact List.mem_cons_of_mem _ (ih h)

theorem count_le_flatten {α : Type} [BEq α] {l : List (List α)} {t : Nat} {x : List α} (h : l[t]? = some x) (a : α) :
    x.count a ≤ l.flatten.count a := by
  have := count_flatten_set_add h [] a
  simp only [List.count_nil] at this
  omega

theorem count_two_le_flatten {α : Type} [BEq α] {l : List (List α)} {t t' : Nat} {x y : List α} (h : l[t]? = some x)
    (h' : l[t']? = some y) (hne : t ≠ t') (a : α) : x.count a + y.count a ≤ l.flatten.count a := by
  have e := count_flatten_set_add h [] a
  simp only [List.count_nil] at e
  have h2 : (l.set t [])[t']? = some y := by
    rw [List.getElem?_set]
    simp [hne, h']
  have := count_le_flatten h2 a
  omega

/-- a unit whose `exec` frame is the innermost frame of its thread has no wait open inside it -/
theorem no_open_wait_in_top {s : St} (hinv : Inv s) {t u : Nat} {rest : List Frame}
    (hst : s.stacks[t]? = some (.exec u :: rest)) {h : Nat} (hw : Witness s.stacks h (some u)) : False := by
  obtain ⟨t', stk', h', i, iso, hi, hin⟩ := hw
  have hmem := innerExec_mem hin
  have hfc := hinv.ifc u
  have hle : frameCount s u ≤ 1 := by
    rw [hfc]
    cases s.units[u]? with
    | none => simp [expFc]
    | some x => simp only [expFc]; split <;> omega
  simp only [frameCount] at hle
  by_cases ht : t = t'
  · subst ht
    rw [hst] at h'
    cases h'
    cases i with
    | zero => simp at hi
    | succ j =>
      simp only [List.drop_succ_cons] at hmem
      have hm2 : Frame.exec u ∈ rest := List.mem_of_mem_drop hmem
      have c1 : 1 ≤ rest.count (Frame.exec u) := List.count_pos_iff.mpr hm2
      have c2 := count_le_flatten hst (Frame.exec u)
      rw [List.count_cons] at c2
      simp at c2
      omega
  · have hm2 : Frame.exec u ∈ stk' := List.mem_of_mem_drop hmem
    have c1 : 1 ≤ stk'.count (Frame.exec u) := List.count_pos_iff.mpr hm2
    have c2 := count_two_le_flatten hst h' ht (Frame.exec u)
    rw [List.count_cons] at c2
    simp at c2
    omega

structure NInv (s : St) : Prop where
  frame : ∀ (h : Nat) (H : Group), s.groups[h]? = some H → H.began = true → H.closed = false →
    Witness s.stacks h H.inUnit
  run : ∀ (h : Nat) (H : Group) (u : Nat), s.groups[h]? = some H → H.began = true → H.closed = false →
    H.inUnit = some u → ∃ x : UnitR, s.units[u]? = some x ∧ x.st = .running

theorem ninv_init (sa : List Nat) (na nt : Nat) (ord : List Src) : NInv (init sa na nt ord) := by
  constructor <;> intro h H <;> simp [init]

/-- the three fields of a group that `NInv` looks at -/
def gview (G : Group) : Bool × Bool × Option Nat := (G.began, G.closed, G.inUnit)

/-- generic preservation: stacks change by a map that keeps every witness of a still-open group; groups keep their
view, or are new and not begun; running units stay running -/
theorem ninv_of {s s' : St} (hn : NInv s)
    (hg : ∀ (h : Nat) (H' : Group), s'.groups[h]? = some H' → H'.began = true → H'.closed = false →
        ∃ H, s.groups[h]? = some H ∧ gview H = gview H')
    (hw : ∀ (h : Nat) (H' : Group) (iu : Option Nat), s'.groups[h]? = some H' → H'.began = true → H'.closed = false →
        Witness s.stacks h iu → Witness s'.stacks h iu)
    (hu : ∀ (u : Nat) (x : UnitR), s.units[u]? = some x → x.st = .running →
        ∃ x' : UnitR, s'.units[u]? = some x' ∧ x'.st = .running) : NInv s' := by
  constructor
  · intro h H' hH' hb hc
    obtain ⟨H, hH, hv⟩ := hg h H' hH' hb hc
    simp only [gview, Prod.mk.injEq] at hv
    obtain ⟨v1, v2, v3⟩ := hv
    have := hn.frame h H hH (by rw [v1]; exact hb) (by rw [v2]; exact hc)
    rw [v3] at this
    exact hw h H' _ hH' hb hc this
  · intro h H' u hH' hb hc hiu
    obtain ⟨H, hH, hv⟩ := hg h H' hH' hb hc
    simp only [gview, Prod.mk.injEq] at hv
    obtain ⟨v1, v2, v3⟩ := hv
    obtain ⟨x, hx, hr⟩ := hn.run h H u hH (by rw [v1]; exact hb) (by rw [v2]; exact hc) (by rw [v3]; exact hiu)
    exact hu u x hx hr

theorem gsame {s s' : St} (h : s'.groups = s.groups) :
    ∀ (g : Nat) (H' : Group), s'.groups[g]? = some H' → H'.began = true → H'.closed = false →
        ∃ H, s.groups[g]? = some H ∧ gview H = gview H' := by
  intro g H' hH' _ _
  rw [h] at hH'
  exact ⟨H', hH', rfl⟩

theorem gset_refs {s s' : St} {g : Nat} {G : Group} (hG : s.groups[g]? = some G) (r : Nat)
    (h : s'.groups = s.groups.set g { G with refs := r }) :
    ∀ (q : Nat) (H' : Group), s'.groups[q]? = some H' → H'.began = true → H'.closed = false →
        ∃ H, s.groups[q]? = some H ∧ gview H = gview H' := by
  intro q H' hH' _ _
  rw [h, groups_set_get hG] at hH'
  by_cases hq : g = q
  · subst hq
    simp at hH'
    subst hH'
    exact ⟨G, hG, rfl⟩
  · simp only [hq, if_false] at hH'
    exact ⟨H', hH', rfl⟩

theorem gview_set_refs {l : List Group} {g : Nat} {G : Group} (hG : l[g]? = some G) (r : Nat) {q : Nat} {H' : Group}
    (h : (l.set g { G with refs := r })[q]? = some H') : ∃ H, l[q]? = some H ∧ gview H = gview H' := by
  rw [groups_set_get hG] at h
  by_cases hq : g = q
  · subst hq
    simp at h
    subst h
    exact ⟨G, hG, rfl⟩
  · simp only [hq, if_false] at h
    exact ⟨H', h, rfl⟩

theorem wsame {s s' : St} (h : s'.stacks = s.stacks) :
    ∀ (g : Nat) (H' : Group) (iu : Option Nat), s'.groups[g]? = some H' → H'.began = true → H'.closed = false →
        Witness s.stacks g iu → Witness s'.stacks g iu := by
  intro g H' iu _ _ _ hw
  rw [h]; exact hw

theorem usame {s s' : St} (h : s'.units = s.units) :
    ∀ (u : Nat) (x : UnitR), s.units[u]? = some x → x.st = .running → ∃ x' : UnitR, s'.units[u]? = some x' ∧ x'.st = .running := by
  intro u x hx hr
  rw [h]; exact ⟨x, hx, hr⟩

theorem frame_ne_attach (k h : Nat) : ∀ iso, Frame.attach k ≠ Frame.wait (some h) iso := by intro iso; simp
theorem frame_ne_exec (u h : Nat) : ∀ iso, Frame.exec u ≠ Frame.wait (some h) iso := by intro iso; simp
theorem frame_ne_waitnone (w h : Nat) : ∀ iso, Frame.wait none w ≠ Frame.wait (some h) iso := by intro iso; simp

theorem ninv_step {s s' : St} (a : Act) (hinv : Inv s) (hn : NInv s) (he : step s a = some s') : NInv s' := by
  cases a with
  | newGroup t =>
    simp only [step, actNewGroup] at he
    split at he
    · simp only [Option.some.injEq] at he
      subst he
      refine ninv_of hn ?_ (wsame rfl) (usame rfl)
      intro q H' hH' hb _
      change (s.groups ++ [({ owner := t } : Group)])[q]? = some H' at hH'
      rw [groups_append_get] at hH'
      by_cases h1 : q < s.groups.length
      · simp only [h1, if_true] at hH'; exact ⟨H', hH', rfl⟩
      · by_cases h2 : q = s.groups.length
        · subst h2; simp at hH'; subst hH'; simp at hb
        · simp [h1, h2] at hH'
    · simp at he
  | newCtx =>
    simp only [step, Option.some.injEq] at he
    subst he
    exact ninv_of hn (gsame rfl) (wsame rfl) (usame rfl)
  | cancel c =>
    simp only [step, actCancel] at he
    split at he
    · simp only [Option.some.injEq] at he; subst he
      exact ninv_of hn (gsame rfl) (wsame rfl) (usame rfl)
    · simp at he
  | enter t k =>
    simp only [step, actEnter] at he
    split at he
    · simp at he
    · rename_i stk hst
      split at he
      · simp only [Option.some.injEq] at he; subst he
        exact ninv_of hn (gsame rfl) (fun _ _ _ _ _ _ hw => witness_push hst _ hw) (usame rfl)
      · simp at he
  | leave t =>
    simp only [step, actLeave] at he
    split at he
    · rename_i k rest hst
      split at he
      · simp only [Option.some.injEq] at he; subst he
        exact ninv_of hn (gsame rfl) (fun h _ _ _ _ _ hw => witness_pop hst (frame_ne_attach k h) hw) (usame rfl)
      · simp at he
    · simp at he
  | beginWait t g iso =>
    simp only [step, actBeginWait] at he
    split at he
    · simp at he
    · rename_i stk hst
      split at he
      · simp at he
      · split at he
        · simp only [Option.some.injEq] at he; subst he
          exact ninv_of hn (gsame rfl) (fun _ _ _ _ _ _ hw => witness_push hst _ hw) (usame rfl)
        · rename_i g
          split at he
          · simp at he
          · rename_i G hG
            split at he
            · rename_i hc
              obtain ⟨_, _, _, hrun⟩ := hc
              simp only [Option.some.injEq] at he
              subst he
              constructor
              · intro q H' hH' hb hcl
                change (s.groups.set g { G with began := true, inUnit := innerExec stk })[q]? = some H' at hH'
                rw [groups_set_get hG] at hH'
                by_cases hq : g = q
                · subst hq
                  simp at hH'
                  subst hH'
                  exact witness_new hst g iso
                · simp only [hq, if_false] at hH'
                  exact witness_push hst _ (hn.frame q H' hH' hb hcl)
              · intro q H' u hH' hb hcl hiu
                change (s.groups.set g { G with began := true, inUnit := innerExec stk })[q]? = some H' at hH'
                rw [groups_set_get hG] at hH'
                by_cases hq : g = q
                · subst hq
                  simp at hH'
                  subst hH'
                  simp only at hiu
                  rw [hiu] at hrun
                  simp only [stillRunning] at hrun
                  cases hu : s.units[u]? with
                  | none => simp [hu] at hrun
                  | some x =>
                    simp only [hu, beq_iff_eq] at hrun
                    exact ⟨x, rfl, hrun⟩
                · simp only [hq, if_false] at hH'
                  exact hn.run q H' u hH' hb hcl hiu
            · simp at he
  | waitReturn t =>
    simp only [step, actWaitReturn] at he
    split at he
    · rename_i w rest hst
      split at he
      · simp only [Option.some.injEq] at he; subst he
        exact ninv_of hn (gsame rfl) (fun h _ _ _ _ _ hw => witness_pop hst (frame_ne_waitnone w h) hw) (usame rfl)
      · simp at he
    · rename_i g w rest hst
      split at he
      · simp at he
      · rename_i G hG
        split at he
        · simp only [Option.some.injEq] at he
          subst he
          refine ninv_of hn ?_ ?_ (usame rfl)
          · intro q H' hH' _ hcl
            change (s.groups.set g { G with closed := true })[q]? = some H' at hH'
            rw [groups_set_get hG] at hH'
            by_cases hq : g = q
            · subst hq; simp at hH'; subst hH'; simp at hcl
            · simp only [hq, if_false] at hH'; exact ⟨H', hH', rfl⟩
          · intro q H' iu hH' _ hcl hw
            change (s.groups.set g { G with closed := true })[q]? = some H' at hH'
            rw [groups_set_get hG] at hH'
            by_cases hq : g = q
            · subst hq; simp at hH'; subst hH'; simp at hcl
            · refine witness_pop hst ?_ hw
              intro iso hf
              simp at hf
              exact hq hf.1
        · simp at he
    · simp at he
  | submit t g c iso tg =>
    simp only [step, actSubmit] at he
    split at he
    · rename_i stk G hst hG
      split at he
      · have key : s'.stacks = s.stacks ∧ s'.units = s.units ++ [({ grp := g, ctx := c, iso := iso } : UnitR)] ∧
            s'.groups = s.groups.set g { G with refs := G.refs + 1 } := by
          split at he
          · split at he
            · simp at he
            · split at he
              · simp at he
              · simp only [Option.some.injEq] at he; subst he; exact ⟨rfl, rfl, rfl⟩
          · split at he
            · simp at he
            · split at he
              · split at he
                · simp only [Option.some.injEq] at he; subst he; exact ⟨rfl, rfl, rfl⟩
                · simp at he
              · simp at he
          · split at he
            · split at he
              · simp at he
              · simp only [Option.some.injEq] at he; subst he; exact ⟨rfl, rfl, rfl⟩
            · simp at he
          · split at he
            · simp only [Option.some.injEq] at he; subst he; exact ⟨rfl, rfl, rfl⟩
            · simp at he
        obtain ⟨k1, k2, k3⟩ := key
        refine ninv_of hn (gset_refs hG _ k3) (wsame k1) ?_
        intro u x hx hr
        have hlt : u < s.units.length := (List.getElem?_eq_some_iff.mp hx).1
        refine ⟨x, ?_, hr⟩
        rw [k2, List.getElem?_append_left hlt]
        exact hx
      · simp at he
    · simp at he
  | respawn t =>
    simp only [step, actRespawn] at he
    split at he
    · split at he
      · simp at he
      · split at he
        · simp at he
        · simp only [Option.some.injEq] at he; subst he
          exact ninv_of hn (gsame rfl) (wsame rfl) (usame rfl)
    · simp at he
  | miss t =>
    simp only [step, actMiss] at he
    split at he
    · split at he
      · simp at he
      · simp only [Option.some.injEq] at he; subst he
        exact ninv_of hn (gsame rfl) (wsame rfl) (usame rfl)
    · simp at he
  | takeBypass t =>
    simp only [step, actTakeBypass] at he
    split at he
    · rename_i g w rest u hst hby
      split at he
      · simp at he
      · rename_i x hu
        split at he
        · simp only [Option.some.injEq] at he
          subst he
          refine ninv_of hn (gsame rfl) (fun _ _ _ _ _ _ hw => witness_push hst _ hw) ?_
          intro v y hy hr
          have := units_startExec { s with bypass := s.bypass.set t none } t (.wait g w :: rest) u x v hu
          by_cases hv : u = v
          · subst hv
            simp only [if_true] at this
            exact ⟨_, this, rfl⟩
          · simp only [hv, if_false] at this
            exact ⟨y, by rw [this]; exact hy, hr⟩
        · simp at he
    · simp at he
  | takePool t v' i =>
    simp only [step, actTakePool] at he
    split at he
    · split at he
      · split at he
        · split at he
          · simp at he
          · split at he
            · simp at he
            · split at he
              · simp only [Option.some.injEq] at he; subst he
                exact ninv_of hn (gsame rfl) (wsame rfl) (usame rfl)
              · simp at he
          · split at he
            · simp at he
            · split at he
              · split at he
                · simp at he
                · split at he
                  · simp only [Option.some.injEq] at he; subst he
                    exact ninv_of hn (gsame rfl) (wsame rfl) (usame rfl)
                  · simp at he
              · simp only [Option.some.injEq] at he; subst he
                exact ninv_of hn (gsame rfl) (wsame rfl) (usame rfl)
              · simp at he
        · simp at he
      · simp at he
    · simp at he
  | takeBox t i =>
    simp only [step, actTakeBox] at he
    split at he
    · split at he
      · simp at he
      · split at he
        · simp at he
        · split at he
          · split at he
            · simp at he
            · split at he
              · simp at he
              · split at he
                · split at he
                  · simp at he
                  · split at he
                    · simp only [Option.some.injEq] at he; subst he
                      exact ninv_of hn (gsame rfl) (wsame rfl) (usame rfl)
                    · simp at he
                · simp only [Option.some.injEq] at he; subst he
                  exact ninv_of hn (gsame rfl) (wsame rfl) (usame rfl)
                · simp at he
          · simp at he
    · simp at he
  | takeStream t kind i =>
    simp only [step, actTakeStream] at he
    split at he
    · split at he
      · simp at he
      · split at he
        · simp at he
        · split at he
          · simp at he
          · split at he
            · simp at he
            · split at he
              · simp at he
              · split at he
                · simp only [Option.some.injEq] at he; subst he
                  exact ninv_of hn (gsame rfl) (wsame rfl) (usame rfl)
                · simp at he
    · simp at he
  | drainBox k i =>
    simp only [step, actDrainBox] at he
    split at he
    · simp at he
    · split at he
      · simp at he
      · split at he
        · simp at he
        · split at he
          · simp only [Option.some.injEq] at he; subst he
            exact ninv_of hn (gsame rfl) (wsame rfl) (usame rfl)
          · simp at he
  | complete t =>
    simp only [step, actComplete] at he
    split at he
    · rename_i u rest hst
      split at he
      · simp at he
      · rename_i x hu
        split at he
        · simp at he
        · rename_i G hG
          split at he
          · simp only [Option.some.injEq] at he
            subst he
            constructor
            · intro q H' hH' hb hcl
              obtain ⟨H, hH, hv⟩ := gview_set_refs hG (G.refs - 1) hH'
              simp only [gview, Prod.mk.injEq] at hv
              obtain ⟨v1, v2, v3⟩ := hv
              have := hn.frame q H hH (by rw [v1]; exact hb) (by rw [v2]; exact hcl)
              rw [v3] at this
              exact this
            · intro q H' v hH' hb hcl hiu
              obtain ⟨H, hH, hv⟩ := gview_set_refs hG (G.refs - 1) hH'
              simp only [gview, Prod.mk.injEq] at hv
              obtain ⟨v1, v2, v3⟩ := hv
              have hb' : H.began = true := by rw [v1]; exact hb
              have hc' : H.closed = false := by rw [v2]; exact hcl
              have hi' : H.inUnit = some v := by rw [v3]; exact hiu
              by_cases huv : u = v
              · subst huv
                have hw := hn.frame q H hH hb' hc'
                rw [hi'] at hw
                exact absurd hw (fun hw => no_open_wait_in_top hinv hst hw)
              · obtain ⟨y, hy, hr⟩ := hn.run q H v hH hb' hc' hi'
                refine ⟨y, ?_, hr⟩
                change (s.units.set u { x with st := .released })[v]? = some y
                rw [units_set_get hu]
                simp [huv, hy]
          · simp at he
    · simp at he
  | ret t =>
    simp only [step, actRet] at he
    split at he
    · rename_i u rest hst
      split at he
      · simp at he
      · rename_i x hu
        split at he
        · rename_i hx
          simp only [Option.some.injEq] at he
          subst he
          constructor
          · intro q H' hH' hb hcl
            exact witness_pop hst (frame_ne_exec u q) (hn.frame q H' hH' hb hcl)
          · intro q H' v hH' hb hcl hiu
            obtain ⟨y, hy, hr⟩ := hn.run q H' v hH' hb hcl hiu
            by_cases huv : u = v
            · subst huv
              rw [hu] at hy
              cases hy
              rw [hx] at hr
              simp at hr
            · refine ⟨y, ?_, hr⟩
              change (s.units.set u { x with st := .done })[v]? = some y
              rw [units_set_get hu]
              simp [huv, hy]
        · simp at he
    · simp at he

theorem ninv_run {s s' : St} (acts : List Act) (hi : Inv s) (hn : NInv s) (he : run s acts = some s') : NInv s' := by
  induction acts generalizing s with
  | nil => simp only [run, Option.some.injEq] at he; subst he; exact hn
  | cons a as ih =>
    simp only [run] at he
    split at he
    · simp at he
    · rename_i s1 h1
      exact ih (inv_step a hi h1) (ninv_step a hi hn h1) he

theorem ninv_reachable {s : St} (hr : Reachable s) : NInv s := by
  obtain ⟨sa, na, nt, ord, acts, he⟩ := hr
  exact ninv_run acts (inv_init sa na nt ord) (ninv_init sa na nt ord) he

end TbbVerif.C01.Dispatch
