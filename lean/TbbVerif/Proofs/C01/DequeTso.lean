/-
C01 / DequeTso: no double take and no loss of the last task under store buffers when both Dekker sides have a
store→load barrier.
-/
import TbbVerif.Proofs.C01.DequeTso_1010
import TbbVerif.Proofs.C01.DequeTso_1001
import TbbVerif.Proofs.C01.DequeTso_1011
import TbbVerif.Proofs.C01.DequeTso_0110
import TbbVerif.Proofs.C01.DequeTso_0101
import TbbVerif.Proofs.C01.DequeTso_0111
import TbbVerif.Proofs.C01.DequeTso_1110
import TbbVerif.Proofs.C01.DequeTso_1101
import TbbVerif.Proofs.C01.DequeTso_1111

namespace TbbVerif.C01.DequeTso

theorem orders_not_bad (o : Orders) (hok : fencesOK o = true) (sched : List Tid) : bad ((sys o).run sched) = false := by
  obtain ⟨a, b, c, d⟩ := o
  cases a <;> cases b <;> cases c <;> cases d <;> simp [fencesOK] at hok
  all_goals first
    | exact not_bad_of_closed _ _ closed_1010 safe_1010 sched
    | exact not_bad_of_closed _ _ closed_1001 safe_1001 sched
    | exact not_bad_of_closed _ _ closed_1011 safe_1011 sched
    | exact not_bad_of_closed _ _ closed_0110 safe_0110 sched
    | exact not_bad_of_closed _ _ closed_0101 safe_0101 sched
    | exact not_bad_of_closed _ _ closed_0111 safe_0111 sched
    | exact not_bad_of_closed _ _ closed_1110 safe_1110 sched
    | exact not_bad_of_closed _ _ closed_1101 safe_1101 sched
    | exact not_bad_of_closed _ _ closed_1111 safe_1111 sched

end TbbVerif.C01.DequeTso
