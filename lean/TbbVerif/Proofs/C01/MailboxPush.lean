/- C01 — mail_outbox: the pusher's exchange on my_last and its link store preserve the invariant. -/
import TbbVerif.Proofs.C01.MailboxInv

namespace TbbVerif.C01.Mailbox
open Lists

/-- the consumer's part of the invariant survives any step that leaves the consumer alone, may append to the queue and
keeps the links and tags it looks at -/
theorem ConsOK_mono (s s' : St) (h : MInv s) (ec : s'.cons = s.cons) (ext : List Nat) (hq : queue s' = queue s ++ ext)
    (hg : ∀ b, QAddr s b → getLink s' b = getLink s b) (hi : ∀ q ∈ queue s, isoOf s' q = isoOf s q)
    (hc : ConsOK s) : ConsOK s' := by
  have hpos : ∀ pre post, Pos s pre post → Pos s' pre (post ++ ext) := by
    intro pre post ⟨h1, h2, h3⟩
    refine ⟨by rw [hq, h1, ec]; simp, by rw [ec]; exact h2, fun q hq' => ?_⟩
    have := h3 q hq'
    simp only [Mismatch, curIso] at this ⊢
    rw [hi q (by rw [h1]; simp [hq']), ec]; exact this
  have hmm : ∀ pre post, Pos s pre post → (Mismatch s' s.cons.curr ↔ Mismatch s s.cons.curr) := by
    intro pre post ⟨h1, _, _⟩
    simp only [Mismatch, curIso]
    rw [hi _ (by rw [h1]; simp), ec]
  have hgp : ∀ pre post, Pos s pre post → getLink s' s.cons.prev = getLink s s.cons.prev := by
    intro pre post ⟨h1, h2, _⟩
    exact hg _ (by rw [h2]; exact tailLink_pre_QAddr s pre _ post h1)
  have hgc : ∀ pre post, Pos s pre post → getLink s' (.next s.cons.curr) = getLink s (.next s.cons.curr) := by
    intro pre post ⟨h1, _, _⟩
    exact hg _ (Or.inr ⟨_, by rw [h1]; simp, rfl⟩)
  unfold ConsOK at hc ⊢
  rw [ec]
  cases hp : s.cons.pc <;> simp only [hp] at hc ⊢
  · obtain ⟨h0, pre, post, hP, h1, h2⟩ := hc
    exact ⟨h0, pre, _, hpos pre post hP, by rw [hgp pre post hP]; exact h1, (hmm pre post hP).mpr h2⟩
  · obtain ⟨h0, pre, post, hP, h1, h2⟩ := hc
    exact ⟨h0, pre, _, hpos pre post hP, by rw [hgp pre post hP]; exact h1, fun x => h2 ((hmm pre post hP).mp x)⟩
  · obtain ⟨h0, pre, post, hP, h1, h2, post', h3, h4⟩ := hc
    exact ⟨h0, pre, _, hpos pre post hP, by rw [hgp pre post hP]; exact h1, fun x => h2 ((hmm pre post hP).mp x),
           post' ++ ext, by rw [h3]; rfl, by rw [hgc pre post hP]; exact h4⟩
  · obtain ⟨h0, pre, post, hP, h1, h2⟩ := hc
    exact ⟨h0, pre, _, hpos pre post hP, by rw [hgp pre post hP]; exact h1, fun x => h2 ((hmm pre post hP).mp x)⟩
  · obtain ⟨h0, pre, post, hP, h1, h2⟩ := hc
    exact ⟨h0, pre, _, hpos pre post hP, by rw [hgp pre post hP]; exact h1, fun x => h2 ((hmm pre post hP).mp x)⟩
  · obtain ⟨h0, pre, post, hP, h1, h2, h3⟩ := hc
    exact ⟨h0, pre, _, hpos pre post hP, by rw [hgp pre post hP]; exact h1, fun x => h2 ((hmm pre post hP).mp x),
           by intro e; exact h3 (List.append_eq_nil_iff.mp e).1⟩
  · obtain ⟨h0, pre, post, hP, h1, h2, post', h3, h4⟩ := hc
    exact ⟨h0, pre, _, hpos pre post hP, by rw [hgp pre post hP]; exact h1, fun x => h2 ((hmm pre post hP).mp x),
           post' ++ ext, by rw [h3]; rfl, by rw [hgc pre post hP]; exact h4⟩

/-- another pusher's part of the invariant under the same kind of step -/
theorem PushOK_mono (s s' : St) (u' : Pusher) (ext : List Nat) (hq : queue s' = queue s ++ ext)
    (hn : s.nexts.length ≤ s'.nexts.length) (hg : ∀ b, QAddr s b → getLink s' b = getLink s b)
    (hx : u'.pc = .xchg → u'.p ∉ s'.order ∧ getLink s' (.next u'.p) = none) (hold : PushOK s u') : PushOK s' u' := by
  unfold PushOK at hold ⊢
  cases hp : u'.pc with
  | start => trivial
  | xchg =>
    simp only [hp] at hold ⊢
    exact ⟨hold.1, by omega, (hx hp).1, (hx hp).2⟩
  | link =>
    simp only [hp] at hold ⊢
    obtain ⟨h1, pre, post, h2, h3, h4⟩ := hold
    exact ⟨h1, pre, post ++ ext, by rw [hq, h2]; simp, h3,
           by rw [hg _ (by rw [h3]; exact tailLink_pre_QAddr s pre _ post h2)]; exact h4⟩

/-- push, second access: `link = my_last.exchange(&t->next_in_mailbox)` — the proxy enters the logical queue -/
theorem push_xchg (s s' : St) (k : Nat) (u : Pusher) (h : MInv s) (hk : s.pushers[k]? = some u) (hpc : u.pc = .xchg)
    (en : s'.nexts = s.nexts) (ei : s'.isos = s.isos)
    (ep : s'.pushers = s.pushers.set k { u with link := s.last, pc := .link })
    (ef : s'.first = s.first) (el : s'.last = .next u.p) (eo : s'.order = s.order ++ [u.p]) (ec : s'.cons = s.cons) :
    MInv s' := by
  have hkl := lt_of_getElem? hk
  have hu := h.push k u hk
  simp only [PushOK, hpc] at hu
  obtain ⟨hops, hpb, hpo, hpn⟩ := hu
  have epop : popped s' = popped s := by simp only [popped, ec]
  have hnp : u.p ∉ popped s := fun hm => hpo (h.popS _ hm)
  have eq : queue s' = queue s ++ [u.p] := by
    simp only [queue, eo, epop, List.filter_append, List.filter_cons, List.filter_nil]
    have : (popped s).contains u.p = false := by
      cases hcn : (popped s).contains u.p with
      | false => rfl
      | true => exact absurd (List.contains_iff_mem.mp hcn) hnp
    simp [hnp]
  have hg : ∀ b, getLink s' b = getLink s b := by
    intro b; cases b <;> simp only [getLink, ef, en]
  have hpq : u.p ∉ queue s := fun hm => hpo (queue_sub s _ hm)
  -- the old tail link is where the new proxy will be linked
  have hpend : ∀ b p, pendingAt s b p → pendingAt s' b p := by
    intro b p ⟨k', u', hk', h1, h2, h3⟩
    refine ⟨k', u', ?_, h1, h2, h3⟩
    have : k ≠ k' := by
      intro e; subst e; rw [hk] at hk'; cases hk'; rw [hpc] at h1; exact absurd h1 (by simp)
    rw [ep, List.getElem?_set_ne this]; exact hk'
  have hcut : ∀ b p, cutAt s b p → cutAt s' b p := by
    intro b p hc; unfold cutAt at hc ⊢; rw [ec]; exact hc
  have hseg0 : ChainSeg s' .first (queue s) :=
    chainSeg_congr s s' .first (queue s) (by
      intro b p _ hcn
      rcases hcn with hl | ⟨hn, hpc'⟩
      · exact Or.inl (by rw [hg]; exact hl)
      · refine Or.inr ⟨by rw [hg]; exact hn, ?_⟩
        rcases hpc' with hp' | hc'
        · exact Or.inl (hpend b p hp')
        · exact Or.inr (hcut b p hc')) h.seg
  refine ⟨by rw [en, ei]; exact h.lenI, ?_, ?_, by rw [epop]; exact h.popN, ?_, ?_, ?_, ?_, ?_, ?_, ?_, ?_⟩
  · rw [eo]; exact List.nodup_append.mpr ⟨h.ordN, by simp, by intro a ha b hb; simp at hb; subst hb; exact fun e => hpo (e ▸ ha)⟩
  · intro p hp; rw [eo] at hp; rw [en]
    rcases List.mem_append.mp hp with hp | hp
    · exact h.ordB p hp
    · simp at hp; subst hp; exact hpb
  · intro p hp; rw [epop] at hp; rw [eo]; exact List.mem_append_left _ (h.popS p hp)
  · rw [eq, chainSeg_append]
    refine ⟨hseg0, ?_, trivial⟩
    refine Or.inr ⟨by rw [hg]; exact h.tl, Or.inl ⟨k, { u with link := s.last, pc := .link },
      by rw [ep, List.getElem?_set_self hkl], rfl, rfl, ?_⟩⟩
    exact h.lastOK
  · rw [eq, tailLink_append]
    simp only [tailLink]
    rw [hg]; exact hpn
  · rw [el, eq, tailLink_append]; rfl
  · intro k' u' hk'
    rw [ep] at hk'
    by_cases e : k = k'
    · subst e
      rw [List.getElem?_set_self hkl] at hk'
      cases hk'
      simp only [PushOK]
      exact ⟨hops, queue s, [], eq, h.lastOK, by rw [hg, h.lastOK]; exact h.tl⟩
    · rw [List.getElem?_set_ne e] at hk'
      refine PushOK_mono s s' u' [u.p] eq (by rw [en]; exact Nat.le_refl _) (fun b _ => hg b) ?_ (h.push k' u' hk')
      intro hx
      have hold := h.push k' u' hk'
      simp only [PushOK, hx] at hold
      refine ⟨?_, by rw [hg]; exact hold.2.2.2⟩
      rw [eo]
      intro hm
      rcases List.mem_append.mp hm with hm | hm
      · exact hold.2.2.1 hm
      · simp at hm
        exact h.dist k' k u' u (fun x => e x.symm) hk' hk (by rw [hx]; simp) (by rw [hpc]; simp) hm
  · intro k1 k2 u1 u2 hne h1 h2 hp1 hp2
    rw [ep] at h1 h2
    by_cases e1 : k = k1
    · subst e1
      rw [List.getElem?_set_self hkl] at h1; cases h1
      rw [List.getElem?_set_ne hne] at h2
      exact h.dist k k2 u u2 hne hk h2 (by rw [hpc]; simp) hp2
    · rw [List.getElem?_set_ne e1] at h1
      by_cases e2 : k = k2
      · subst e2
        rw [List.getElem?_set_self hkl] at h2; cases h2
        exact h.dist k1 k u1 u hne h1 hk hp1 (by rw [hpc]; simp)
      · rw [List.getElem?_set_ne e2] at h2
        exact h.dist k1 k2 u1 u2 hne h1 h2 hp1 hp2
  · exact ConsOK_mono s s' h ec [u.p] eq (fun b _ => hg b) (fun q _ => by simp only [isoOf, ei]) h.cons

  · intro k' u' hk' hl hcs
    rw [ep] at hk'
    rw [ec] at hcs ⊢
    by_cases e : k = k'
    · subst e
      rw [List.getElem?_set_self hkl] at hk'
      cases hk'
      intro e2
      exact hpq (by have := curr_in_queue s h.cons hcs; rw [← e2] at this; exact this)
    · rw [List.getElem?_set_ne e] at hk'
      exact h.ncp k' u' hk' hl hcs

/-- the addresses of two disjoint parts of a duplicate-free queue differ -/
theorem addr_ne_of_split (pre post : List Nat) (c : Nat) (hnd : (pre ++ c :: post).Nodup) (b : Link)
    (hb : b = .next c ∨ ∃ q ∈ post, b = .next q) : b ≠ tailLink .first pre := by
  intro e
  rcases tailLink_addr .first pre with ea | ⟨r, hr, ea⟩
  · rw [ea] at e
    rcases hb with hb | ⟨q, _, hb⟩ <;> rw [hb] at e <;> exact absurd e (by simp)
  · rw [ea] at e
    have hdis := (List.nodup_append.mp hnd).2.2 r hr
    rcases hb with hb | ⟨q, hq, hb⟩
    · rw [hb] at e
      have : c = r := by injection e
      exact hdis c (by simp) this.symm
    · rw [hb] at e
      have : q = r := by injection e
      exact hdis q (by simp [hq]) this.symm

/-- push, last access: `link->store(t, release)` — the outstanding link becomes physical -/
theorem push_link (s s' : St) (k : Nat) (u : Pusher) (h : MInv s) (hk : s.pushers[k]? = some u) (hpc : u.pc = .link)
    (hgl : ∀ b, getLink s' b = if b = u.link then some u.p else getLink s b)
    (en : s'.nexts.length = s.nexts.length) (ei : s'.isos = s.isos)
    (ep : s'.pushers = s.pushers.set k { u with ops := u.ops.tail, pc := .start })
    (el : s'.last = s.last) (eo : s'.order = s.order) (ec : s'.cons = s.cons) : MInv s' := by
  have hkl := lt_of_getElem? hk
  have hu := h.push k u hk
  simp only [PushOK, hpc] at hu
  obtain ⟨hops, pre, post, hq, hlk, hln⟩ := hu
  have epop : popped s' = popped s := by simp only [popped, ec]
  have eq : queue s' = queue s := by simp only [queue, eo, epop]
  have hnd := queue_nodup s h.ordN
  rw [hq] at hnd
  have hne : ∀ b, b ≠ u.link → getLink s' b = getLink s b := by
    intro b hb; rw [hgl b]; simp [hb]
  -- outstanding link stores of the other pushers stay outstanding
  have hpend : ∀ b p, b ≠ u.link → pendingAt s b p → pendingAt s' b p := by
    intro b p hb ⟨k', u', hk', h1, h2, h3⟩
    refine ⟨k', u', ?_, h1, h2, h3⟩
    have : k ≠ k' := by
      intro e; subst e; rw [hk] at hk'; cases hk'; exact hb h3.symm
    rw [ep, List.getElem?_set_ne this]; exact hk'
  have hcut : ∀ b p, cutAt s b p → cutAt s' b p := by
    intro b p hc; unfold cutAt at hc ⊢; rw [ec]; exact hc
  have hconn : ∀ b p, b ≠ u.link → Conn s b p → Conn s' b p := by
    intro b p hb hcn
    rcases hcn with hl | ⟨hn, hpc'⟩
    · exact Or.inl (by rw [hne b hb]; exact hl)
    · refine Or.inr ⟨by rw [hne b hb]; exact hn, ?_⟩
      rcases hpc' with hp' | hc'
      · exact Or.inl (hpend b p hb hp')
      · exact Or.inr (hcut b p hc')
  have hseg := h.seg
  rw [hq, chainSeg_append] at hseg
  obtain ⟨hs1, hs2, hs3⟩ := hseg
  have hpreN : pre.Nodup := (List.nodup_append.mp hnd).1
  -- the consumer is not working on the proxy being linked
  have hcc : s.cons.pc ≠ .start → u.p ≠ s.cons.curr := h.ncp k u hk hpc
  refine ⟨by rw [ei]; rw [en]; exact h.lenI, by rw [eo]; exact h.ordN, by intro p hp; rw [eo] at hp; rw [en]; exact h.ordB p hp,
          by rw [epop]; exact h.popN, by rw [epop, eo]; exact h.popS, ?_, ?_, by rw [el, eq]; exact h.lastOK, ?_, ?_, ?_, ?_⟩
  · rw [eq, hq, chainSeg_append]
    refine ⟨chainSeg_congr s s' .first pre (fun b p hb => hconn b p (by
              rw [hlk]; exact connAddr_ne_tail .first pre b hpreN (first_ne_all pre) hb)) hs1, ?_, ?_⟩
    · exact Or.inl (by rw [hgl, hlk]; simp)
    · refine chainSeg_congr s s' (.next u.p) post (fun b p hb => hconn b p ?_) hs3
      rw [hlk]
      refine addr_ne_of_split pre post u.p hnd b ?_
      rcases connAddr_addrIn _ _ _ hb with e | e
      · exact Or.inl e
      · exact Or.inr e
  · rw [eq, hq, tailLink_append]
    have htl := h.tl
    rw [hq, tailLink_append] at htl
    simp only [tailLink] at htl ⊢
    rw [hne _ (by
      rw [hlk]
      refine addr_ne_of_split pre post u.p hnd _ ?_
      rcases tailLink_addr (.next u.p) post with e | e
      · exact Or.inl e
      · exact Or.inr e)]
    exact htl
  · intro k' u' hk'
    rw [ep] at hk'
    by_cases e : k = k'
    · subst e
      rw [List.getElem?_set_self hkl] at hk'
      cases hk'
      simp [PushOK]
    · rw [List.getElem?_set_ne e] at hk'
      have hold := h.push k' u' hk'
      unfold PushOK at hold ⊢
      cases hp : u'.pc with
      | start => trivial
      | xchg =>
        simp only [hp] at hold ⊢
        refine ⟨hold.1, by omega, by rw [eo]; exact hold.2.2.1, ?_⟩
        rw [hne _ (by
          intro e2
          -- u.link is an address of the queue, the fresh proxy of u' is not in the queue
          rcases tailLink_addr .first pre with ea | ⟨r, hr, ea⟩
          · rw [hlk, ea] at e2; exact absurd e2 (by simp)
          · rw [hlk, ea] at e2
            have : u'.p = r := by injection e2
            exact hold.2.2.1 (queue_sub s _ (by rw [hq, this]; simp [hr])))]
        exact hold.2.2.2
      | link =>
        simp only [hp] at hold ⊢
        obtain ⟨h1, pre', post', h2, h3, h4⟩ := hold
        refine ⟨h1, pre', post', by rw [eq]; exact h2, h3, ?_⟩
        rw [hne _ (by
          intro e2
          have hu2 := incoming_unique (queue s) pre' post' pre post u'.p u.p (queue_nodup s h.ordN) h2 hq (by rw [← h3, ← hlk, e2])
          exact h.dist k' k u' u (fun x => e x.symm) hk' hk (by rw [hp]; simp) (by rw [hpc]; simp) hu2.1)]
        exact h4
  · intro k1 k2 u1 u2 hne' h1 h2 hp1 hp2
    rw [ep] at h1 h2
    by_cases e1 : k = k1
    · subst e1
      rw [List.getElem?_set_self hkl] at h1; cases h1
      exact absurd rfl hp1
    · rw [List.getElem?_set_ne e1] at h1
      by_cases e2 : k = k2
      · subst e2
        rw [List.getElem?_set_self hkl] at h2; cases h2
        exact absurd rfl hp2
      · rw [List.getElem?_set_ne e2] at h2
        exact h.dist k1 k2 u1 u2 hne' h1 h2 hp1 hp2
  · -- the consumer: none of the links it relies on is the one just written
    have hc := h.cons
    have hposP : ∀ pre' post', Pos s pre' post' → Pos s' pre' post' := by
      intro pre' post' ⟨a1, a2, a3⟩
      refine ⟨by rw [eq, ec]; exact a1, by rw [ec]; exact a2, fun q hq' => ?_⟩
      have := a3 q hq'
      simp only [Mismatch, curIso, isoOf] at this ⊢
      rw [ei, ec]; exact this
    have hmm : Mismatch s' s.cons.curr ↔ Mismatch s s.cons.curr := by
      simp only [Mismatch, curIso, isoOf]; rw [ei, ec]
    -- prev is the incoming address of curr; u.link is the incoming address of u.p ≠ curr
    have hprev : ∀ pre' post', s.cons.pc ≠ .start → Pos s pre' post' → s.cons.prev ≠ u.link := by
      intro pre' post' hcs ⟨a1, a2, _⟩ e2
      have := incoming_unique (queue s) pre' post' pre post s.cons.curr u.p (queue_nodup s h.ordN) a1 hq (by rw [← a2, ← hlk, e2])
      exact hcc hcs this.1.symm
    unfold ConsOK at hc ⊢
    rw [ec]
    cases hp : s.cons.pc <;> simp only [hp] at hc ⊢
    · obtain ⟨h0, pre', post', hP, a1, a2⟩ := hc
      exact ⟨h0, pre', post', hposP _ _ hP, by rw [hne _ (hprev _ _ (by rw [hp]; simp) hP)]; exact a1, hmm.mpr a2⟩
    · obtain ⟨h0, pre', post', hP, a1, a2⟩ := hc
      exact ⟨h0, pre', post', hposP _ _ hP, by rw [hne _ (hprev _ _ (by rw [hp]; simp) hP)]; exact a1, fun x => a2 (hmm.mp x)⟩
    · obtain ⟨h0, pre', post', hP, a1, a2, post'', a3, a4⟩ := hc
      refine ⟨h0, pre', post', hposP _ _ hP, by rw [hne _ (hprev _ _ (by rw [hp]; simp) hP)]; exact a1, fun x => a2 (hmm.mp x),
              post'', a3, ?_⟩
      rw [hne _ (by intro e2; rw [e2, hln] at a4; exact absurd a4 (by simp))]; exact a4
    · obtain ⟨h0, pre', post', hP, a1, a2⟩ := hc
      exact ⟨h0, pre', post', hposP _ _ hP, by rw [hne _ (hprev _ _ (by rw [hp]; simp) hP)]; exact a1, fun x => a2 (hmm.mp x)⟩
    · obtain ⟨h0, pre', post', hP, a1, a2⟩ := hc
      exact ⟨h0, pre', post', hposP _ _ hP, by rw [hne _ (hprev _ _ (by rw [hp]; simp) hP)]; exact a1, fun x => a2 (hmm.mp x)⟩
    · obtain ⟨h0, pre', post', hP, a1, a2, a3⟩ := hc
      exact ⟨h0, pre', post', hposP _ _ hP, by rw [hne _ (hprev _ _ (by rw [hp]; simp) hP)]; exact a1, fun x => a2 (hmm.mp x), a3⟩
    · obtain ⟨h0, pre', post', hP, a1, a2, post'', a3, a4⟩ := hc
      refine ⟨h0, pre', post', hposP _ _ hP, by rw [hne _ (hprev _ _ (by rw [hp]; simp) hP)]; exact a1, fun x => a2 (hmm.mp x),
              post'', a3, ?_⟩
      rw [hne _ (by intro e2; rw [e2, hln] at a4; exact absurd a4 (by simp))]; exact a4
  · intro k' u' hk' hl hcs
    rw [ep] at hk'
    rw [ec] at hcs ⊢
    by_cases e : k = k'
    · subst e
      rw [List.getElem?_set_self hkl] at hk'
      cases hk'
      exact absurd hl (by simp)
    · rw [List.getElem?_set_ne e] at hk'
      exact h.ncp k' u' hk' hl hcs

end TbbVerif.C01.Mailbox
