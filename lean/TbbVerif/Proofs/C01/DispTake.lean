/-
C01 / Dispatch: the generic "take" lemma — a unit leaves its container(s) and starts executing on a thread.
-/
import TbbVerif.Proofs.C01.DispInv

namespace TbbVerif.C01.Dispatch

theorem units_startExec (s : St) (t : Tid) (stk : List Frame) (u : Nat) (x : UnitR) (v : Nat)
    (hu : s.units[u]? = some x) :
    (startExec s t stk u x).units[v]? =
      if u = v then some { x with st := .running, nexec := x.nexec + (if s.ctxs[x.ctx]?.getD false then 0 else 1),
                                   ncancel := x.ncancel + (if s.ctxs[x.ctx]?.getD false then 1 else 0) }
      else s.units[v]? := by
  have hlt : u < s.units.length := (List.getElem?_eq_some_iff.mp hu).1
  simp only [startExec, List.getElem?_set]
  by_cases h : u = v
  · subst h; simp [hlt]
  · simp [h]

theorem frameCount_startExec (s : St) (t : Tid) (stk : List Frame) (u : Nat) (x : UnitR) (v : Nat)
    (hs : s.stacks[t]? = some stk) :
    frameCount (startExec s t stk u x) v = frameCount s v + if u = v then 1 else 0 := by
  have := count_flatten_set_add hs (.exec u :: stk) (.exec v)
  simp only [frameCount, startExec]
  rw [List.count_cons] at this
  by_cases h : u = v
  · subst h; simp at this ⊢; omega
  · have hne : (Frame.exec u == Frame.exec v) = false := by simp [h]
    simp [hne, h] at this ⊢
    omega

theorem live_startExec (s : St) (t : Tid) (stk : List Frame) (u : Nat) (x : UnitR) (g : Nat)
    (hu : s.units[u]? = some x) (hx : x.st = .pending) :
    live (startExec s t stk u x) g = live s g := by
  have := countP_set_add (p := fun y : UnitR => y.grp == g && (y.st == .pending || y.st == .running)) hu
    { x with st := .running, nexec := x.nexec + (if s.ctxs[x.ctx]?.getD false then 0 else 1),
             ncancel := x.ncancel + (if s.ctxs[x.ctx]?.getD false then 1 else 0) }
  simp only [live, startExec]
  simp only [hx] at this
  simp at this
  omega

/-- A unit `u` (pending, by the invariant) is removed from exactly one place — `s1` is `s` with only the containers
changed, `occ` of `u` dropped by one and the proxy book-keeping still consistent — and starts executing on `t`. -/
theorem inv_take {s s1 : St} (h : Inv s) (t : Tid) (stk : List Frame) (u : Nat) (x : UnitR)
    (hunits : s1.units = s.units) (hstacks : s1.stacks = s.stacks) (hgroups : s1.groups = s.groups)
    (hctxs : s1.ctxs = s.ctxs)
    (hu : s.units[u]? = some x) (hx : x.st = .pending) (hs : s.stacks[t]? = some stk)
    (hocc : ∀ v, occ s1 v + (if u = v then 1 else 0) = occ s v)
    (hpp : ∀ p, poolCount s1 (.proxy p) = expPool s1.proxies[p]?)
    (hpb : ∀ p, boxCount s1 p = expBox s1.proxies[p]?) :
    Inv (startExec s1 t stk u x) := by
  have hu1 : s1.units[u]? = some x := by rw [hunits]; exact hu
  have hs1 : s1.stacks[t]? = some stk := by rw [hstacks]; exact hs
  refine ⟨?_, ?_, ?_, ?_, ?_, ?_, ?_, ?_⟩
  · intro v
    have e1 : occ (startExec s1 t stk u x) v = occ s1 v := rfl
    rw [e1, units_startExec s1 t stk u x v hu1]
    have := hocc v
    have hi := h.iocc v
    by_cases hv : u = v
    · subst hv
      rw [hu] at hi
      simp only [expOcc, hx, if_true] at hi ⊢
      simp at this ⊢
      omega
    · simp only [hv, if_false] at this ⊢
      rw [hunits]; omega
  · intro v
    rw [frameCount_startExec s1 t stk u x v hs1, units_startExec s1 t stk u x v hu1]
    have hi := h.ifc v
    have e2 : frameCount s1 v = frameCount s v := by simp only [frameCount, hstacks]
    by_cases hv : u = v
    · subst hv
      rw [hu] at hi
      simp only [expFc, hx] at hi ⊢
      simp at hi ⊢
      omega
    · simp only [hv, if_false]
      rw [hunits, e2]; omega
  · intro v y hy
    rw [units_startExec s1 t stk u x v hu1] at hy
    by_cases hv : u = v
    · subst hv
      simp only [if_true, Option.some.injEq] at hy
      subst hy
      have := h.ictr u x hu
      simp only [hx, if_true] at this
      simp
      cases s1.ctxs[x.ctx]?.getD false <;> simp <;> omega
    · simp only [hv, if_false] at hy
      rw [hunits] at hy
      exact h.ictr v y hy
  · intro p; exact hpp p
  · intro p; exact hpb p
  · intro g
    rw [live_startExec s1 t stk u x g hu1 hx]
    have : live s1 g = live s g := by simp only [live, hunits]
    rw [this]
    have e : (startExec s1 t stk u x).groups = s.groups := hgroups
    rw [e]; exact h.irefs g
  · intro v y G hy hG hc
    have e : (startExec s1 t stk u x).groups = s.groups := hgroups
    rw [e] at hG
    rw [units_startExec s1 t stk u x v hu1] at hy
    by_cases hv : u = v
    · subst hv
      simp only [if_true, Option.some.injEq] at hy
      subst hy
      have := h.iclosed u x G hu hG hc
      rw [hx] at this
      simp at this
    · simp only [hv, if_false] at hy
      rw [hunits] at hy
      exact h.iclosed v y G hy hG hc
  · intro v y hy hpos
    have e : (startExec s1 t stk u x).ctxs = s1.ctxs := rfl
    rw [e]
    rw [units_startExec s1 t stk u x v hu1] at hy
    by_cases hv : u = v
    · subst hv
      simp only [if_true, Option.some.injEq] at hy
      subst hy
      simp only at hpos ⊢
      cases hc : s1.ctxs[x.ctx]?.getD false with
      | true => rfl
      | false =>
        simp only [hc] at hpos
        have := h.ictr u x hu
        simp only [hx, if_true] at this
        simp at hpos
        omega
    · simp only [hv, if_false] at hy
      rw [hunits] at hy
      rw [hctxs]
      exact h.icanc v y hy hpos

/-- Only containers / proxies change, every unit can still be taken from as many places as before and the proxy
book-keeping is consistent (an emptied proxy is freed by the side that finds it). -/
theorem inv_containers {s s1 : St} (h : Inv s)
    (hunits : s1.units = s.units) (hstacks : s1.stacks = s.stacks) (hgroups : s1.groups = s.groups)
    (hctxs : s1.ctxs = s.ctxs)
    (hocc : ∀ v, occ s1 v = occ s v)
    (hpp : ∀ p, poolCount s1 (.proxy p) = expPool s1.proxies[p]?)
    (hpb : ∀ p, boxCount s1 p = expBox s1.proxies[p]?) : Inv s1 := by
  refine ⟨?_, ?_, ?_, hpp, hpb, ?_, ?_, ?_⟩
  · intro v; rw [hocc v, hunits]; exact h.iocc v
  · intro v
    have : frameCount s1 v = frameCount s v := by simp only [frameCount, hstacks]
    rw [this, hunits]; exact h.ifc v
  · intro v y hy; rw [hunits] at hy; exact h.ictr v y hy
  · intro g
    have : live s1 g = live s g := by simp only [live, hunits]
    rw [this, hgroups]; exact h.irefs g
  · intro v y G hy hG hc; rw [hunits] at hy; rw [hgroups] at hG; exact h.iclosed v y G hy hG hc
  · intro v y hy hpos; rw [hunits] at hy; rw [hctxs]; exact h.icanc v y hy hpos

/-- `proxies.set p X'` looked up at `q` -/
theorem proxies_set_get {l : List Proxy} {p : Nat} {X : Proxy} (hp : l[p]? = some X) (X' : Proxy) (q : Nat) :
    (l.set p X')[q]? = if p = q then some X' else l[q]? := by
  have hlt : p < l.length := (List.getElem?_eq_some_iff.mp hp).1
  simp only [List.getElem?_set]
  by_cases h : p = q
  · subst h; simp [hlt]
  · simp [h]

/-- changing the tag of a proxy away from `shared` removes one live proxy of its unit -/
theorem liveProxy_set_dead {l : List Proxy} {p : Nat} {X : Proxy} (hp : l[p]? = some X) (hX : X.tag = .shared)
    (τ : Tag) (hτ : τ ≠ .shared) (v : Nat) :
    (l.set p { X with tag := τ }).countP (fun q => q.tag == .shared && q.unit == v) + (if X.unit = v then 1 else 0) =
      l.countP (fun q => q.tag == .shared && q.unit == v) := by
  have e := countP_set_add (p := fun q : Proxy => q.tag == .shared && q.unit == v) hp { X with tag := τ }
  have h1 : (τ == Tag.shared) = false := by cases τ <;> simp at hτ ⊢
  simp only [hX, h1, Bool.false_and] at e
  by_cases hv : X.unit = v <;> simp [hv] at e ⊢ <;> omega

/-- changing the tag of a proxy that is not `shared` to another non-`shared` tag changes no live-proxy count -/
theorem liveProxy_set_same {l : List Proxy} {p : Nat} {X : Proxy} (hp : l[p]? = some X) (hX : X.tag ≠ .shared)
    (τ : Tag) (hτ : τ ≠ .shared) (v : Nat) :
    (l.set p { X with tag := τ }).countP (fun q => q.tag == .shared && q.unit == v) =
      l.countP (fun q => q.tag == .shared && q.unit == v) := by
  have e := countP_set_add (p := fun q : Proxy => q.tag == .shared && q.unit == v) hp { X with tag := τ }
  have h1 : (τ == Tag.shared) = false := by cases τ <;> simp at hτ ⊢
  have h2 : (X.tag == Tag.shared) = false := by cases hx : X.tag <;> simp [hx] at hX ⊢
  simp only [h1, h2, Bool.false_and] at e
  simp at e
  omega

end TbbVerif.C01.Dispatch
