/- C01 — wait_context + reference_vertex: reserve transitions, the step theorem and its consequences. -/
import TbbVerif.Proofs.C01.VertexStep

namespace TbbVerif.C01.Vertex
open Lists

/-- reference_vertex::reserve on the thread's own vertex, which was 0: the forwarding to the root is pending -/
theorem inv_run0 (s : St) (k : Nat) (t : Th) (h : VInv s) (hk : s.ths[k]? = some t)
    (hpc : t.pc = .start) (hop : t.ops.head? = some .run) (hd : k = 0 ∨ t.held ≠ []) (hv : s.vs.getD k 0 = 0) :
    VInv { s with vs := s.vs.set k (s.vs.getD k 0 + 1), ths := s.ths.set k { t with pc := .resRoot } } := by
  have hkl := lt_of_getElem? _ _ _ hk
  have hkv : k < s.vs.length := by rw [h.lenV]; exact hkl
  have hpk := pcOf_of _ _ _ hk
  have hJ2 := h.J2 k hkl
  rw [hpk, hpc, hv] at hJ2
  simp at hJ2
  refine ⟨by simpa using h.lenV, ?_, ?_, ?_, by simpa using h.Jp, ?_, h.nobad⟩
  · have e1 : nLive (s.vs.set k (s.vs.getD k 0 + 1)) (s.ths.set k { t with pc := .resRoot }) = nLive s.vs s.ths := by
      apply nLive_same _ _ _ _ (by simp)
      intro u _
      by_cases e : u = k
      · subst e
        simp only [live, pcOf_set s.ths u u _ hkl, if_true, hv, hpk, hpc]
        simp
      · exact live_other _ _ _ _ _ _ hkl e (getD_set_ne _ _ _ _ _ (fun x => e x.symm))
    have e2 := nRel_set s.ths k t { t with pc := .resRoot } hk
    have : isRel t = false := by simp [isRel, hpc]
    simp only [this, show isRel { t with pc := Pc.resRoot } = false by simp [isRel]] at e2
    simp only
    rw [e1]
    have := h.J1
    omega
  · intro u hu
    simp only [List.length_set] at hu
    have e1 := heldCnt_set s.ths k t { t with pc := .resRoot } u hk
    simp only at e1
    by_cases e : u = k
    · subst e
      simp only
      rw [getD_set_eq _ _ _ _ hkv, pcOf_set _ _ _ _ hkl, hv]
      simp
      omega
    · simp only
      rw [getD_set_ne _ _ _ _ _ (fun x => e x.symm), pcOf_set _ _ _ _ hkl]
      simp only [e, if_false]
      have := h.J2 u hu
      omega
  · intro u hu hp
    simp only [List.length_set] at hu
    by_cases e : u = k
    · subst e
      simp only
      rw [getD_set_eq _ _ _ _ hkv, hv]
    · rw [pcOf_set _ _ _ _ hkl] at hp
      simp only [e, if_false] at hp
      simp only
      rw [getD_set_ne _ _ _ _ _ (fun x => e x.symm)]
      exact h.J3 u hu hp
  · simp only [List.length_set]
    apply Jt_set _ _ _ _ h.Jt
    have := h.Jt k t hk
    refine ⟨?_, this.2.1, ?_⟩
    · intro _ hk0
      rcases hd with hd | hd
      · exact absurd hd hk0
      · exact hd
    · simpa [opOK] using hop

/-- reserve on a vertex that is already non-zero: the new unit is published at once -/
theorem inv_run1 (s : St) (k : Nat) (t t' : Th) (h : VInv s) (hk : s.ths[k]? = some t)
    (hpc : t.pc = .start) (ht' : t'.pc = .start) (hheld : t'.held = t.held) (hv : 0 < s.vs.getD k 0) :
    VInv { s with vs := s.vs.set k (s.vs.getD k 0 + 1), pending := s.pending ++ [k], ths := s.ths.set k t' } := by
  have hkl := lt_of_getElem? _ _ _ hk
  have hkv : k < s.vs.length := by rw [h.lenV]; exact hkl
  have hpk := pcOf_of _ _ _ hk
  refine ⟨by simpa using h.lenV, ?_, ?_, ?_, ?_, ?_, h.nobad⟩
  · have e1 : nLive (s.vs.set k (s.vs.getD k 0 + 1)) (s.ths.set k t') = nLive s.vs s.ths := by
      apply nLive_same _ _ _ _ (by simp)
      intro u _
      by_cases e : u = k
      · subst e
        have a1 : decide (0 < s.vs.getD u 0 + 1) = true := by simp
        have a2 : decide (0 < s.vs.getD u 0) = true := by simpa using hv
        simp only [live, pcOf_set s.ths u u _ hkl, if_true, hpk, hpc, ht', getD_set_eq _ _ _ _ hkv, a1, a2]
      · exact live_other _ _ _ _ _ _ hkl e (getD_set_ne _ _ _ _ _ (fun x => e x.symm))
    have e2 := nRel_set s.ths k t t' hk
    have r1 : isRel t = false := by simp [isRel, hpc]
    have r2 : isRel t' = false := by simp [isRel, ht']
    simp only [r1, r2] at e2
    simp only
    rw [e1]
    have := h.J1
    omega
  · intro u hu
    simp only [List.length_set] at hu
    have e1 := heldCnt_set s.ths k t t' u hk
    rw [hheld] at e1
    have := h.J2 u hu
    simp only [List.count_append, List.count_cons, List.count_nil]
    by_cases e : u = k
    · subst e
      rw [getD_set_eq _ _ _ _ hkv, pcOf_set _ _ _ _ hkl]
      rw [hpk, hpc] at this
      simp [ht'] at this ⊢
      omega
    · rw [getD_set_ne _ _ _ _ _ (fun x => e x.symm), pcOf_set _ _ _ _ hkl]
      have hne : ¬ (k = u) := fun x => e x.symm
      simp only [e, hne, if_false, beq_iff_eq, Nat.add_zero]
      omega
  · intro u hu hp
    simp only [List.length_set] at hu
    rw [pcOf_set _ _ _ _ hkl] at hp
    by_cases e : u = k
    · subst e; simp [ht'] at hp
    · simp only [e, if_false] at hp
      simp only
      rw [getD_set_ne _ _ _ _ _ (fun x => e x.symm)]
      exact h.J3 u hu hp
  · intro x hx
    simp only [List.length_set]
    simp at hx
    rcases hx with hx | rfl
    · exact h.Jp x hx
    · exact hkl
  · simp only [List.length_set]
    apply Jt_set _ _ _ _ h.Jt
    have := h.Jt k t hk
    exact ⟨fun hh => by rw [ht'] at hh; exact absurd hh (by simp), by rw [hheld]; exact this.2.1, by simp [opOK, ht']⟩

/-- the pending 0 → 1 transition is forwarded: wait_context::reserve on the root, then the unit is published -/
theorem inv_res (s : St) (k : Nat) (t t' : Th) (h : VInv s) (hk : s.ths[k]? = some t)
    (hpc : t.pc = .resRoot) (ht' : t'.pc = .start) (hheld : t'.held = t.held) :
    VInv { s with root := s.root + 1, pending := s.pending ++ [k], ths := s.ths.set k t' } := by
  have hkl := lt_of_getElem? _ _ _ hk
  have hpk := pcOf_of _ _ _ hk
  have hv := h.J3 k hkl (by rw [hpk, hpc])
  refine ⟨by simpa using h.lenV, ?_, ?_, ?_, ?_, ?_, h.nobad⟩
  · have e1 := nLive_change s.vs s.vs s.ths (s.ths.set k t') k (by simp) hkl (by
      intro u hu
      exact live_other _ _ _ _ _ _ hkl hu rfl)
    have hold : live s.vs s.ths k = false := by simp [live, hpk, hpc]
    have hnew : live s.vs (s.ths.set k t') k = true := by
      have a : decide (0 < s.vs.getD k 0) = true := by rw [hv]; rfl
      simp only [live, pcOf_set s.ths k k _ hkl, if_true, ht', a]; rfl
    rw [hold, hnew] at e1
    have e2 := nRel_set s.ths k t t' hk
    have r1 : isRel t = false := by simp [isRel, hpc]
    have r2 : isRel t' = false := by simp [isRel, ht']
    simp only [r1, r2] at e2
    have := h.J1
    simp at e1
    simp only
    omega
  · intro u hu
    simp only [List.length_set] at hu
    have e1 := heldCnt_set s.ths k t t' u hk
    rw [hheld] at e1
    have := h.J2 u hu
    simp only [List.count_append, List.count_cons, List.count_nil]
    by_cases e : u = k
    · subst e
      rw [pcOf_set _ _ _ _ hkl]
      rw [hpk, hpc] at this
      simp [ht'] at this ⊢
      omega
    · rw [pcOf_set _ _ _ _ hkl]
      have hne : ¬ (k = u) := fun x => e x.symm
      simp only [e, hne, if_false, beq_iff_eq, Nat.add_zero]
      omega
  · intro u hu hp
    simp only [List.length_set] at hu
    rw [pcOf_set _ _ _ _ hkl] at hp
    by_cases e : u = k
    · subst e; simp [ht'] at hp
    · simp only [e, if_false] at hp
      exact h.J3 u hu hp
  · intro x hx
    simp only [List.length_set]
    simp at hx
    rcases hx with hx | rfl
    · exact h.Jp x hx
    · exact hkl
  · simp only [List.length_set]
    apply Jt_set _ _ _ _ h.Jt
    have := h.Jt k t hk
    exact ⟨fun hh => by rw [ht'] at hh; exact absurd hh (by simp), by rw [hheld]; exact this.2.1, by simp [opOK, ht']⟩

end TbbVerif.C01.Vertex
