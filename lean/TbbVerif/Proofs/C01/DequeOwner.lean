/- C01 — Deque: frame lemmas for the owner's steps (spawn / get_task). -/
import TbbVerif.Proofs.C01.DequeThief

namespace TbbVerif.C01.Deque
open Lists

/-- thieves are untouched by an owner step that keeps `head` and the array id, or that runs while nobody is inside
the critical section -/
theorem thOK_owner (s s' : St) (h : DInv s) (hths : s'.ths = s.ths)
    (hc : (s'.head = s.head ∧ s'.own.gen = s.own.gen) ∨ csN s.ths = 0) :
    ∀ (k : Nat) (t : Thief), s'.ths[k]? = some t → ThiefOK s' t := by
  intro k t hk
  rw [hths] at hk
  have hold := h.thOK k t hk
  rcases hc with ⟨hh, hg⟩ | h0
  · exact ThiefOK_congr s s' t hg hh hold
  · have hout := none_inCS s.ths h0 k t hk
    unfold inCS at hout
    cases hp : t.pc <;> simp [hp] at hout <;> simp only [ThiefOK, hp] at hold ⊢ <;> exact hold

theorem returned_own (s s' : St) (hths : s'.ths = s.ths) (x : Item) :
    (returned s').count x + (s.own.out.filterMap id).count x + s.own.freed.count x =
      (returned s).count x + (s'.own.out.filterMap id).count x + s'.own.freed.count x := by
  rw [returned_count, returned_count, hths]; omega

theorem inflight_own (s s' : St) (hths : s'.ths = s.ths) (x : Item) :
    (inflight s').count x + s.own.res.toList.count x = (inflight s).count x + s'.own.res.toList.count x := by
  rw [inflight_count, inflight_count, hths]; omega

theorem lo_own (s' : St) (hns : loSpecial s'.own.pc = false) : lo s' = (loT s'.ths).getD s'.head := lo_normal s' hns

/-- with nobody inside the critical section the logical bottom is `head` -/
theorem lo_noCS (s : St) (hns : loSpecial s.own.pc = false) (h0 : csN s.ths = 0) : lo s = s.head := by
  rw [lo_normal s hns, loT_none s.ths h0]; rfl

/-- `lo ≤ head`: a thief inside the steal loop keeps its `H0` at or below `head` -/
theorem lo_le_head (s : St) (h : DInv s) (hns : loSpecial s.own.pc = false) : lo s ≤ s.head := by
  rw [lo_normal s hns]
  unfold loT
  cases hf : s.ths.find? inWin with
  | none => simp
  | some t =>
    simp only [Option.map_some, Option.getD_some]
    have hm := List.mem_of_find?_eq_some hf
    have hw : inWin t = true := List.find?_some hf
    obtain ⟨k, hk⟩ := List.getElem?_of_mem hm
    have hok := h.thOK k t hk
    unfold inWin at hw
    cases hp : t.pc <;> simp [hp] at hw <;> simp only [ThiefOK, hp] at hok <;> omega

/-- the lock discipline after an owner step that neither changes the pool word nor the array id and stays on the same
side of the exclusive section -/
theorem LockOK_own_same (s s' : St) (h : LockOK s) (hths : s'.ths = s.ths) (hlw : s'.lw = s.lw)
    (hg : s'.own.gen = s.own.gen) (he : ownerExcl s'.own.pc = ownerExcl s.own.pc) : LockOK s' :=
  ⟨by rw [hths]; exact h.csLe, by rw [he, hths, hlw]; exact h.excl, by rw [he, hths, hlw]; exact h.lock,
   by rw [hlw, hg]; exact h.gen⟩

/-- the window is untouched -/
theorem WinOK_own_same (s s' : St) (h : WinOK s) (hths : s'.ths = s.ths) (hp : s'.pool = s.pool)
    (hsp : s'.spawned = s.spawned) (hlo : lo s' = lo s) (hhi : hi s' = hi s)
    (hout : s'.own.out.filterMap id = s.own.out.filterMap id) (hfr : s'.own.freed = s.own.freed)
    (hres : s'.own.res = s.own.res) : WinOK s' := by
  refine WinOK_congr' h hp hlo hhi hsp ?_ ?_
  · intro x
    have := returned_own s s' hths x
    rw [hout, hfr] at this; omega
  · intro x
    have := inflight_own s s' hths x
    rw [hres] at this; omega

/-- exclusive section facts -/
theorem excl_facts (s : St) (h : DInv s) (he : ownerExcl s.own.pc = true) :
    csN s.ths = 0 ∧ (s.lw = .locked ∨ s.lw = .empty) := h.lockOK.excl he

theorem roundUp_ge (cfg : Cfg) (n : Nat) (hg : 0 < cfg.granule) : n ≤ roundUp cfg n := by
  unfold roundUp
  have h1 := Nat.div_add_mod (n + cfg.granule - 1) cfg.granule
  have h2 := Nat.mod_lt (n + cfg.granule - 1) hg
  have h3 : cfg.granule * ((n + cfg.granule - 1) / cfg.granule) = (n + cfg.granule - 1) / cfg.granule * cfg.granule :=
    Nat.mul_comm _ _
  omega

/-- an owner step that touches only the owner's locals (and possibly `tail`, as far as `hi` is unaffected) -/
theorem owner_frame (s s' : St) (h : DInv s)
    (hcfg : s'.cfg = s.cfg) (hhead : s'.head = s.head) (hlw : s'.lw = s.lw) (hpool : s'.pool = s.pool)
    (hbad : s'.bad = s.bad) (hsp : s'.spawned = s.spawned) (hths : s'.ths = s.ths) (hgen : s'.own.gen = s.own.gen)
    (hout : s'.own.out.filterMap id = s.own.out.filterMap id) (hfr : s'.own.freed = s.own.freed)
    (hres : s'.own.res = s.own.res) (hex : ownerExcl s'.own.pc = ownerExcl s.own.pc)
    (hlo : lo s' = lo s) (hhi : hi s' = hi s) (hown : OwnerOK s') : DInv s' :=
  ⟨by rw [hcfg]; exact h.cfgOK, by rw [hbad]; exact h.nobad, by rw [hhead]; exact h.headNN,
   by rw [hpool, hlw]; exact h.unalloc, LockOK_own_same s s' h.lockOK hths hlw hgen hex,
   thOK_owner s s' h hths (Or.inl ⟨hhead, hgen⟩), hown,
   WinOK_own_same s s' h.winOK hths hpool hsp hlo hhi hout hfr hres⟩

/-- nobody is inside the critical section and the pool word is not `locked` afterwards -/
theorem LockOK_noCS (s s' : St) (h0 : csN s.ths = 0) (hths : s'.ths = s.ths)
    (hlw : s'.lw = .pub s'.own.gen ∨ s'.lw = .empty) (hex : ownerExcl s'.own.pc = true → s'.lw = .empty) : LockOK s' := by
  refine ⟨by rw [hths]; omega, fun he => ⟨by rw [hths]; exact h0, Or.inr (hex he)⟩, fun _ => ?_, ?_⟩
  · rw [hths, h0]
    rcases hlw with hl | hl <;> rw [hl] <;> simp
  · intro g hg
    rcases hlw with hl | hl
    · rw [hl] at hg; cases hg; rfl
    · rw [hl] at hg; exact absurd hg (by simp)

/-- a store into a cell outside the logical window -/
theorem WinOK_setCell_out (s s' : St) (i : Int) (c : Cell) (h : WinOK s) (hths : s'.ths = s.ths)
    (hp : s'.pool = setCell s.pool i c) (hi' : i < lo s ∨ hi s ≤ i)
    (hsp : s'.spawned = s.spawned) (hlo : lo s' = lo s) (hhi : hi s' = hi s)
    (hout : s'.own.out.filterMap id = s.own.out.filterMap id) (hfr : s'.own.freed = s.own.freed)
    (hres : s'.own.res = s.own.res) : WinOK s' := by
  refine ⟨by rw [hlo]; exact h.loNN, by rw [hlo, hhi]; exact h.loLeHi, by rw [hhi, hp, setCell_length]; exact h.hiLe, ?_, ?_⟩
  · intro j h1 h2
    rw [hlo] at h1; rw [hhi] at h2
    rw [hp, cellAt_setCell_ne _ _ _ _ (by omega)]
    exact h.noJunk j h1 h2
  · intro x
    have e0 := h.cnt x
    have e1 := returned_own s s' hths x
    have e2 := inflight_own s s' hths x
    rw [hout, hfr] at e1; rw [hres] at e2
    rw [hsp, hlo, hhi, hp, items_set_outside _ _ _ _ _ h.loNN hi']
    omega

end TbbVerif.C01.Deque
