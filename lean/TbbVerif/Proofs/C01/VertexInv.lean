/- C01 — wait_context + reference_vertex: every step preserves the invariant; consequences. -/
import TbbVerif.Proofs.C01.VertexMain

namespace TbbVerif.C01.Vertex
open Lists

theorem inv_step (s : St) (tid : Tid) (h : VInv s) : VInv (step s tid) := by
  unfold step stepEv
  cases hk : s.ths[tid]? with
  | none => exact h
  | some t =>
    simp only []
    have hJt := h.Jt tid t hk
    have hop := hJt.2.2
    cases hops : t.ops with
    | nil => simp only [stepTh, hops]; exact h
    | cons op rest =>
      cases hpc : t.pc <;> cases op <;> simp only [opOK, hpc, hops, List.head?_cons, Option.some.injEq, reduceCtorEq, false_and] at hop
        <;> simp only [stepTh, hops, hpc]
      case start.run =>
        have r0 : isRel t = false := by simp [isRel, hpc]
        split
        · exact inv_local s tid t _ h hk rfl (by rw [hpc]; simp) (by simp) r0 (by simp [isRel]) (by simp [opOK])
        · rename_i hd
          have hd' : tid = 0 ∨ t.held ≠ [] := by
            by_cases e : tid = 0
            · exact Or.inl e
            · right
              intro hh
              apply hd
              simp [e, hh]
          by_cases hv : s.vs.getD tid 0 = 0
          · simp only [hv, if_true]
            have := inv_run0 s tid t h hk hpc (by rw [hops]; rfl) hd' hv
            simp only [hv, hops] at this
            exact this
          · simp only [hv, if_false]
            exact inv_run1 s tid t _ h hk hpc rfl rfl (by omega)
      case start.take i =>
        have r0 : isRel t = false := by simp [isRel, hpc]
        split
        · exact inv_local s tid t _ h hk rfl (by rw [hpc]; simp) (by simp) r0 (by simp [isRel]) (by simp [opOK])
        · rename_i v hv
          have hi : i < s.pending.length := lt_of_getElem? _ _ _ hv
          have hvm : v ∈ s.pending := List.mem_of_getElem? hv
          refine inv_take s tid v _ t _ h hk ?_ ?_ hvm rfl (by rw [hpc]; simp) (by simp) r0 (by simp [isRel]) (by simp [opOK])
          · intro u
            exact count_eraseIdx_add s.pending i v hv u
          · intro x hx
            exact List.mem_of_mem_eraseIdx hx
      case start.finish =>
        have r0 : isRel t = false := by simp [isRel, hpc]
        split
        · exact inv_local s tid t _ h hk rfl (by rw [hpc]; simp) (by simp) r0 (by simp [isRel]) (by simp [opOK])
        · rename_i v rest' hheld
          by_cases hz : s.vs.getD v 0 - 1 = 0
          · have := inv_dec s tid v t { t with held := rest', pc := .relRoot } h hk hheld (by rw [hpc]; simp) (by simp) r0
              (by rw [decide_eq_true hz]; rfl) (by simp [opOK, hops])
            simp only [hz, if_true, hops] at this ⊢
            exact this
          · have := inv_dec s tid v t { t with ops := rest, pc := .start, held := rest' } h hk hheld (by rw [hpc]; simp) (by simp) r0
              (by rw [decide_eq_false hz]; rfl) (by simp [opOK])
            simp only [hz, if_false, List.tail_cons] at this ⊢
            exact this
      case start.wait =>
        have r0 : isRel t = false := by simp [isRel, hpc]
        split
        · exact inv_local s tid t _ h hk rfl (by rw [hpc]; simp) (by simp) r0 (by simp [isRel]) (by simp [opOK])
        · exact inv_local s tid t _ h hk rfl (by rw [hpc]; simp) (by simp) r0 (by simp [isRel]) (by simp [opOK, hops])
      case resRoot.run =>
        exact inv_res s tid t _ h hk hpc rfl rfl
      case relRoot.finish =>
        exact inv_relroot s tid t _ _ h hk rfl (by simp [isRel, hpc]) (by simp) (by simp [isRel]) (by simp [opOK])
      case wTake.wait =>
        have r0 : isRel t = false := by simp [isRel, hpc]
        split
        · exact inv_local s tid t _ h hk rfl (by rw [hpc]; simp) (by simp) r0 (by simp [isRel]) (by simp [opOK])
        · rename_i v rest' hp
          refine inv_take s tid v rest' t _ h hk ?_ ?_ (by rw [hp]; simp) rfl (by rw [hpc]; simp) (by simp) r0 (by simp [isRel]) (by simp [opOK])
          · intro u
            rw [hp, List.count_cons]
            by_cases e : u = v
            · subst e; simp
            · have : ¬ (v = u) := fun x => e x.symm
              simp [e, this]
          · intro x hx
            rw [hp]; simp [hx]
      case wFin.wait =>
        have r0 : isRel t = false := by simp [isRel, hpc]
        split
        · rename_i hheld
          exact absurd hheld hop.2
        · rename_i v rest' hheld
          by_cases hz : s.vs.getD v 0 - 1 = 0
          · have := inv_dec s tid v t { t with held := rest', pc := .wRel } h hk hheld (by rw [hpc]; simp) (by simp) r0
              (by rw [decide_eq_true hz]; rfl) (by simp [opOK, hops])
            simp only [hz, if_true, hops] at this ⊢
            exact this
          · have := inv_dec s tid v t { t with held := rest', pc := .start } h hk hheld (by rw [hpc]; simp) (by simp) r0
              (by rw [decide_eq_false hz]; rfl) (by simp [opOK])
            simp only [hz, if_false, hops] at this ⊢
            exact this
      case wRel.wait =>
        exact inv_relroot s tid t _ _ h hk rfl (by simp [isRel, hpc]) (by simp) (by simp [isRel]) (by simp [opOK])

theorem inv_reachable (progs : List (List Op)) (sched : List Tid) : VInv ((sys progs).run sched) :=
  Sys.inv_run (sys progs) VInv (inv_init progs) inv_step sched

/-- no live unit: every vertex is 0, nothing is published, nobody executes a unit or is in the middle of a
reserve / release -/
def Quiescent (s : St) : Prop :=
  (∀ u, u < s.ths.length → s.vs.getD u 0 = 0) ∧ s.pending = [] ∧
  (∀ (u : Nat) (t : Th), s.ths[u]? = some t → t.held = [] ∧ t.pc ≠ .resRoot ∧ t.pc ≠ .relRoot ∧ t.pc ≠ .wFin ∧ t.pc ≠ .wRel)

theorem zero_quiescent (s : St) (h : VInv s) (hr : s.root = 0)
    (h0 : ∀ t0, s.ths[0]? = some t0 → t0.pc ≠ .resRoot) : Quiescent s := by
  have hJ1 := h.J1
  have hnl : nLive s.vs s.ths = 0 := by omega
  have hnr : nRel s.ths = 0 := by omega
  have hlive : ∀ u, u < s.ths.length → live s.vs s.ths u = false := by
    intro u hu
    have := List.countP_eq_zero.mp hnl u (by simp [hu])
    simpa using this
  -- nobody is between the vertex increment and the root increment
  have hnores : ∀ (u : Nat) (t : Th), s.ths[u]? = some t → t.pc ≠ .resRoot := by
    intro u t hu hp
    have hok := h.Jt u t hu
    have hu0 : u ≠ 0 := by
      intro e; subst e; exact h0 t hu hp
    have hne := hok.1 hp hu0
    cases hh : t.held with
    | nil => exact hne hh
    | cons v rest =>
      have hv : v < s.ths.length := hok.2.1 v (by rw [hh]; simp)
      have hc : 1 ≤ heldCnt s.ths v := by
        have := sum_map_pos_of_mem (fun t => t.held.count v) s.ths u t hu
        simp only [hh, List.count_cons_self] at this
        unfold heldCnt; omega
      have hJ2 := h.J2 v hv
      have hl := hlive v hv
      have hvpos : 0 < s.vs.getD v 0 := by omega
      have hpv : pcOf s.ths v = .resRoot := by
        simp only [live, Bool.and_eq_false_iff, decide_eq_false_iff_not, bne_eq_false_iff_eq] at hl
        rcases hl with hl | hl
        · exact absurd hvpos hl
        · exact hl
      have := h.J3 v hv hpv
      simp only [hpv, if_true] at hJ2
      omega
  have hpcof : ∀ u, u < s.ths.length → pcOf s.ths u ≠ .resRoot := by
    intro u hu
    cases hg : s.ths[u]? with
    | none => rw [List.getElem?_eq_none_iff] at hg; omega
    | some t => rw [pcOf_of _ _ _ hg]; exact hnores u t hg
  have hvs : ∀ u, u < s.ths.length → s.vs.getD u 0 = 0 := by
    intro u hu
    have hl := hlive u hu
    simp only [live, Bool.and_eq_false_iff, decide_eq_false_iff_not, bne_eq_false_iff_eq] at hl
    rcases hl with hl | hl
    · omega
    · exact absurd hl (hpcof u hu)
  have hz : ∀ u, u < s.ths.length → s.pending.count u = 0 ∧ heldCnt s.ths u = 0 := by
    intro u hu
    have := h.J2 u hu
    rw [hvs u hu] at this
    omega
  refine ⟨hvs, eq_nil_of_count_zero _ _ h.Jp (fun u hu => (hz u hu).1), ?_⟩
  intro u t hu
  have hok := h.Jt u t hu
  have hheld : t.held = [] := by
    apply eq_nil_of_count_zero _ _ hok.2.1
    intro v hv
    have hzz : (s.ths.map (fun t => t.held.count v)).sum = 0 := (hz v hv).2
    exact sum_map_eq_zero (fun t => t.held.count v) s.ths hzz u t hu
  have hrel : isRel t = false := by
    have := List.countP_eq_zero.mp hnr t (List.mem_of_getElem? hu)
    simpa using this
  refine ⟨hheld, hnores u t hu, ?_, ?_, ?_⟩
  · intro hp; simp [isRel, hp] at hrel
  · intro hp
    have := hok.2.2
    simp only [opOK, hp] at this
    exact this.2 hheld
  · intro hp; simp [isRel, hp] at hrel

end TbbVerif.C01.Vertex
