/-
C01 / Dispatch: list lemmas in additive form (omega-friendly) about `count` / `countP` under `set`, `eraseIdx`,
`flatten` of a list of lists.
-/
namespace TbbVerif.C01.Dispatch

theorem count_set_add {α : Type} [BEq α] {l : List α} {i : Nat} {old : α} (h : l[i]? = some old) (a b : α) :
    (l.set i a).count b + (if old == b then 1 else 0) = l.count b + (if a == b then 1 else 0) := by
  obtain ⟨hi, he⟩ := List.getElem?_eq_some_iff.mp h
  rw [List.count_set hi, he]
  have : (if (old == b) = true then 1 else 0) ≤ l.count b := by
    split
    · rename_i hb
      have : old ∈ l := he ▸ List.getElem_mem hi
      have h1 : 0 < List.countP (· == b) l := List.countP_pos_iff.mpr ⟨old, this, hb⟩
      simpa [List.count] using h1
    · omega
  omega

theorem countP_set_add {α : Type} {p : α → Bool} {l : List α} {i : Nat} {old : α} (h : l[i]? = some old) (a : α) :
    (l.set i a).countP p + (if p old then 1 else 0) = l.countP p + (if p a then 1 else 0) := by
  obtain ⟨hi, he⟩ := List.getElem?_eq_some_iff.mp h
  rw [List.countP_set hi, he]
  have : (if p old = true then 1 else 0) ≤ l.countP p := by
    split
    · rename_i hb
      have : old ∈ l := he ▸ List.getElem_mem hi
      exact List.countP_pos_iff.mpr ⟨old, this, hb⟩
    · omega
  omega

theorem count_eraseIdx_add {α : Type} [BEq α] {l : List α} {i : Nat} {b : α} (h : l[i]? = some b) (a : α) :
    (l.eraseIdx i).count a + (if b == a then 1 else 0) = l.count a := by
  induction l generalizing i with
  | nil => simp at h
  | cons x xs ih =>
    cases i with
    | zero =>
      simp only [List.getElem?_cons_zero, Option.some.injEq] at h
      subst h
      simp [List.count_cons]
    | succ j =>
      simp only [List.getElem?_cons_succ] at h
      have := ih h
      simp only [List.eraseIdx_cons_succ, List.count_cons]
      omega

theorem count_flatten_set_add {α : Type} [BEq α] {l : List (List α)} {k : Nat} {old : List α} (h : l[k]? = some old)
    (x : List α) (a : α) :
    (l.set k x).flatten.count a + old.count a = l.flatten.count a + x.count a := by
  induction l generalizing k with
  | nil => simp at h
  | cons y ys ih =>
    cases k with
    | zero =>
      simp only [List.getElem?_cons_zero, Option.some.injEq] at h
      subst h
      simp only [List.set_cons_zero, List.flatten_cons, List.count_append]
      omega
    | succ j =>
      simp only [List.getElem?_cons_succ] at h
      have := ih h
      simp only [List.set_cons_succ, List.flatten_cons, List.count_append]
      omega

theorem count_flatten_append {α : Type} [BEq α] (l : List (List α)) (x : List α) (a : α) :
    (l ++ [x]).flatten.count a = l.flatten.count a + x.count a := by
  simp [List.flatten_append, List.count_append]

theorem countP_eq_zero_all {α : Type} {p : α → Bool} {l : List α} (h : l.countP p = 0) {i : Nat} {x : α}
    (hx : l[i]? = some x) : p x = false := by
  obtain ⟨hi, he⟩ := List.getElem?_eq_some_iff.mp hx
  have hm : x ∈ l := he ▸ List.getElem_mem hi
  cases hp : p x with
  | false => rfl
  | true =>
    have : 0 < l.countP p := List.countP_pos_iff.mpr ⟨x, hm, hp⟩
    omega

theorem getElem?_append_one {α : Type} (l : List α) (x : α) (i : Nat) :
    (l ++ [x])[i]? = if i < l.length then l[i]? else if i = l.length then some x else none := by
  by_cases h : i < l.length
  · simp [h, List.getElem?_append_left h]
  · have hge : l.length ≤ i := Nat.le_of_not_lt h
    rw [List.getElem?_append_right hge]
    simp only [h, if_false]
    by_cases he : i = l.length
    · simp [he]
    · have : i - l.length ≠ 0 := by omega
      simp only [he, if_false]
      cases hj : i - l.length with
      | zero => omega
      | succ j => simp

/-- remove element `i` of the `k`-th inner list -/
theorem count_flatten_set_erase_add {α : Type} [BEq α] {l : List (List α)} {k : Nat} {P : List α} (h : l[k]? = some P)
    {i : Nat} {e : α} (hi : P[i]? = some e) (a : α) :
    (l.set k (P.eraseIdx i)).flatten.count a + (if e == a then 1 else 0) = l.flatten.count a := by
  have h1 := count_flatten_set_add h (P.eraseIdx i) a
  have h2 := count_eraseIdx_add hi a
  omega

/-- add an element at the front of the `k`-th inner list -/
theorem count_flatten_set_cons {α : Type} [BEq α] {l : List (List α)} {k : Nat} {P : List α} (h : l[k]? = some P)
    (e a : α) :
    (l.set k (e :: P)).flatten.count a = l.flatten.count a + (if e == a then 1 else 0) := by
  have h1 := count_flatten_set_add h (e :: P) a
  rw [List.count_cons] at h1
  omega

/-- add an element at the back of the `k`-th inner list -/
theorem count_flatten_set_snoc {α : Type} [BEq α] {l : List (List α)} {k : Nat} {P : List α} (h : l[k]? = some P)
    (e a : α) :
    (l.set k (P ++ [e])).flatten.count a = l.flatten.count a + (if e == a then 1 else 0) := by
  have h1 := count_flatten_set_add h (P ++ [e]) a
  rw [List.count_append, List.count_cons] at h1
  simp only [List.count_nil] at h1
  omega

end TbbVerif.C01.Dispatch
