/- C01 — Deque: every steal_task step preserves the invariant. -/
import TbbVerif.Proofs.C01.DequeThief

namespace TbbVerif.C01.Deque
open Lists

theorem thief_step_out (s : St) (k : Nat) (t : Thief) (h : DInv s) (hk : s.ths[k]? = some t)
    (hpc : t.pc = .start ∨ t.pc = .cas) : DInv (stepThief s k t).1 := by
  have hth := h.thOK k t hk
  obtain ⟨ops, pc, H, H0, g, omitted, res, out⟩ := t
  simp only at hpc
  cases ops with
  | nil => exact h
  | cons iso rest =>
    rcases hpc with hpc | hpc <;> subst hpc <;> simp only [ThiefOK] at hth <;> subst hth
    · -- lock_task_pool: load of the pool word
      have hncs : inCS (⟨iso :: rest, .start, H, H0, g, omitted, none, out⟩ : Thief) = false := by simp [inCS]
      simp only [stepThief]
      split
      · exact thief_local s k _ (Thief.fin ⟨iso :: rest, .start, H, H0, g, omitted, none, out⟩) h hk hncs
          (by simp [inCS, Thief.fin]) rfl (by simp [Thief.fin]) (by simp [Thief.fin])
      · exact h
      · rename_i g' _
        exact thief_local s k _ ⟨iso :: rest, .cas, H, H0, g', omitted, none, out⟩ h hk hncs (by simp [inCS]) rfl rfl rfl
    · -- lock_task_pool: CAS
      have hncs : inCS (⟨iso :: rest, .cas, H, H0, g, omitted, none, out⟩ : Thief) = false := by simp [inCS]
      simp only [stepThief]
      by_cases hlw : s.lw = .pub g
      · simp only [hlw, if_true]
        obtain ⟨h0, hne, hns, hg⟩ := pub_facts s g h hlw
        have hlo0 : lo s = s.head := by rw [lo_normal s hns, loT_none s.ths h0]; rfl
        refine thief_assemble s _ k _ ⟨iso :: rest, .head, H, H0, g, false, none, out⟩ h hk (Or.inr h0) hne hns rfl rfl rfl rfl
          h.nobad h.headNN ?_ ?_ rfl (fun _ => rfl) ?_ (fun e => by rw [hlw] at e; exact absurd e (by simp))
        · have e := csN_set s.ths k _ ⟨iso :: rest, .head, H, H0, g, false, none, out⟩ hk
          rw [hncs] at e
          have e1 : csN (s.ths.set k ⟨iso :: rest, .head, H, H0, g, false, none, out⟩) = 1 := by
            simp [inCS] at e; omega
          refine ⟨by simp only; omega, ?_, ?_, ?_⟩
          · intro he; simp only at he; rw [hne] at he; exact absurd he (by simp)
          · intro _; simp only; rw [e1]; simp
          · intro g' hg'; simp at hg'
        · simpa [ThiefOK] using hg
        · have hlo' := lo_thief s { s with lw := .locked, ths := s.ths.set k ⟨iso :: rest, .head, H, H0, g, false, none, out⟩ }
            k _ ⟨iso :: rest, .head, H, H0, g, false, none, out⟩ h hk (Or.inr h0) hns rfl rfl
          simp only [inWin] at hlo'
          refine WinOK_congr' h.winOK rfl ?_ (hi_congr s _ rfl rfl) rfl ?_ ?_
          · rw [hlo0]; exact hlo'
          · intro x
            have := returned_thief s { s with lw := .locked, ths := s.ths.set k ⟨iso :: rest, .head, H, H0, g, false, none, out⟩ }
              k _ ⟨iso :: rest, .head, H, H0, g, false, none, out⟩ hk rfl rfl x
            simp only at this; omega
          · intro x
            have := inflight_thief s { s with lw := .locked, ths := s.ths.set k ⟨iso :: rest, .head, H, H0, g, false, none, out⟩ }
              k _ ⟨iso :: rest, .head, H, H0, g, false, none, out⟩ hk rfl rfl x
            simp only at this; omega
      · simp only [hlw, if_false]
        exact thief_local s k _ ⟨iso :: rest, .start, H, H0, g, omitted, none, out⟩ h hk hncs (by simp [inCS]) rfl rfl rfl

theorem thief_step_head (s : St) (k : Nat) (t : Thief) (h : DInv s) (hk : s.ths[k]? = some t)
    (hpc : t.pc = .head) : DInv (stepThief s k t).1 := by
  have hth := h.thOK k t hk
  obtain ⟨ops, pc, H, H0, g, omitted, res, out⟩ := t
  simp only at hpc; subst hpc
  cases ops with
  | nil => exact h
  | cons iso rest =>
    simp only [ThiefOK] at hth
    obtain ⟨hr, hom, hg⟩ := hth
    have hcs : inCS (⟨iso :: rest, .head, H, H0, g, omitted, res, out⟩ : Thief) = true := by simp [inCS]
    simp only [stepThief]
    refine thief_cs_step s (upd s s.head s.lw s.pool s.bad k ⟨iso :: rest, .inc, s.head, s.head, g, omitted, res, out⟩)
      k _ _ h hk hcs (by simp [inCS]) rfl rfl rfl rfl rfl rfl h.headNN ?_ rfl (fun _ => rfl) ?_
    · simp only [ThiefOK]
      exact ⟨trivial, h.headNN, Int.le_refl _, fun _ => trivial, hr, hg⟩
    · exact WinOK_upd_same s s.head s.bad k _ _ h hk hcs rfl rfl (by simp [inWin])

theorem thief_step_inc (s : St) (k : Nat) (t : Thief) (h : DInv s) (hk : s.ths[k]? = some t)
    (hpc : t.pc = .inc) : DInv (stepThief s k t).1 := by
  have hth := h.thOK k t hk
  obtain ⟨ops, pc, H, H0, g, omitted, res, out⟩ := t
  simp only at hpc; subst hpc
  cases ops with
  | nil => exact h
  | cons iso rest =>
    simp only [ThiefOK] at hth
    obtain ⟨hh, h0, hle, hom, hr, hg⟩ := hth
    have hcs : inCS (⟨iso :: rest, .inc, H, H0, g, omitted, res, out⟩ : Thief) = true := by simp [inCS]
    simp only [stepThief]
    refine thief_cs_step s (upd s (s.head + 1) s.lw s.pool s.bad k ⟨iso :: rest, .tail, s.head + 1, H0, g, omitted, res, out⟩)
      k _ _ h hk hcs (by simp [inCS]) rfl rfl rfl rfl rfl rfl (by have := h.headNN; simp only [upd]; omega) ?_ rfl (fun _ => rfl) ?_
    · simp only [ThiefOK]
      exact ⟨trivial, h0, by omega, fun x => by have := hom x; omega, hr, hg⟩
    · exact WinOK_upd_same s (s.head + 1) s.bad k _ _ h hk hcs rfl rfl (by simp [inWin])

theorem thief_step_store (s : St) (k : Nat) (t : Thief) (h : DInv s) (hk : s.ths[k]? = some t)
    (hpc : t.pc = .rollback ∨ t.pc = .restore) : DInv (stepThief s k t).1 := by
  have hth := h.thOK k t hk
  obtain ⟨ops, pc, H, H0, g, omitted, res, out⟩ := t
  simp only at hpc
  cases ops with
  | nil => exact h
  | cons iso rest =>
    rcases hpc with hpc | hpc <;> subst hpc <;> simp only [ThiefOK] at hth
    · obtain ⟨hh, h0, hlt, hr, hg⟩ := hth
      have hcs : inCS (⟨iso :: rest, .rollback, H, H0, g, omitted, res, out⟩ : Thief) = true := by simp [inCS]
      simp only [stepThief]
      refine thief_cs_step s (upd s H0 s.lw s.pool s.bad k ⟨iso :: rest, .unlock, H, H0, g, omitted, res, out⟩)
        k _ _ h hk hcs (by simp [inCS]) rfl rfl rfl rfl rfl rfl h0 ?_ rfl (fun _ => rfl) ?_
      · simp only [ThiefOK]; exact hg
      · exact WinOK_upd_same s H0 s.bad k _ _ h hk hcs rfl rfl (by simp [inWin])
    · obtain ⟨hh, h0, hlt, hr, hom, hg⟩ := hth
      have hcs : inCS (⟨iso :: rest, .restore, H, H0, g, omitted, res, out⟩ : Thief) = true := by simp [inCS]
      simp only [stepThief]
      refine thief_cs_step s (upd s H0 s.lw s.pool s.bad k ⟨iso :: rest, .unlock, H, H0, g, omitted, res, out⟩)
        k _ _ h hk hcs (by simp [inCS]) rfl rfl rfl rfl rfl rfl h0 ?_ rfl (fun _ => rfl) ?_
      · simp only [ThiefOK]; exact hg
      · exact WinOK_upd_same s H0 s.bad k _ _ h hk hcs rfl rfl (by simp [inWin])

theorem thief_step_unlock (s : St) (k : Nat) (t : Thief) (h : DInv s) (hk : s.ths[k]? = some t)
    (hpc : t.pc = .unlock) : DInv (stepThief s k t).1 := by
  have hth := h.thOK k t hk
  obtain ⟨ops, pc, H, H0, g, omitted, res, out⟩ := t
  simp only at hpc; subst hpc
  cases ops with
  | nil => exact h
  | cons iso rest =>
    simp only [ThiefOK] at hth
    have hcs : inCS (⟨iso :: rest, .unlock, H, H0, g, omitted, res, out⟩ : Thief) = true := by simp [inCS]
    have f := inCS_facts s k _ h hk hcs
    simp only [stepThief]
    have hbad : (s.bad || s.lw != LW.locked) = false := by rw [h.nobad, f.locked]; rfl
    have hfin : Thief.fin ⟨iso :: rest, .unlock, H, H0, g, omitted, res, out⟩ = ⟨rest, .start, H, H0, g, false, none, res :: out⟩ := rfl
    have hcs' : inCS (⟨rest, .start, H, H0, g, false, none, res :: out⟩ : Thief) = false := by simp [inCS]
    rw [hfin]
    refine thief_assemble s (upd s s.head (.pub g) s.pool (s.bad || s.lw != LW.locked) k ⟨rest, .start, H, H0, g, false, none, res :: out⟩)
      k _ _ h hk (Or.inl hcs) f.nexcl f.nspec rfl rfl rfl rfl hbad h.headNN ?_ ?_ rfl (fun _ => rfl) ?_
      (fun e => by rw [f.locked] at e; exact absurd e (by simp))
    · have e := csN_set s.ths k _ ⟨rest, .start, H, H0, g, false, none, res :: out⟩ hk
      rw [hcs, hcs'] at e
      have e0 : csN (s.ths.set k ⟨rest, .start, H, H0, g, false, none, res :: out⟩) = 0 := by
        have := f.cs1
        simp only [if_true, Bool.false_eq_true, if_false] at e; omega
      refine ⟨by simp only [upd]; omega, ?_, ?_, ?_⟩
      · intro he; simp only [upd] at he; rw [f.nexcl] at he; exact absurd he (by simp)
      · intro _; simp only [upd]; rw [e0]; simp
      · intro g' hg'; simp only [upd] at hg'; cases hg'; exact hth
    · simp [ThiefOK]
    · refine WinOK_congr_sum h.winOK rfl ?_ (hi_upd s _ _ _ _ k _) rfl ?_
      · rw [lo_upd s _ _ _ _ k _ _ h hk (Or.inl hcs) f.nspec, f.loEq]; simp [inWin]
      · intro x
        have e1 := returned_upd s s.head (.pub g) s.pool (s.bad || s.lw != LW.locked) k _ ⟨rest, .start, H, H0, g, false, none, res :: out⟩ hk x
        have e2 := inflight_upd s s.head (.pub g) s.pool (s.bad || s.lw != LW.locked) k _ ⟨rest, .start, H, H0, g, false, none, res :: out⟩ hk x
        cases res with
        | none => simp only [List.filterMap_cons, id] at e1 e2; simp at e2; omega
        | some v =>
          simp only [List.filterMap_cons, id, List.count_cons, Option.toList, List.count_nil, beq_iff_eq, Nat.zero_add] at e1 e2
          omega

end TbbVerif.C01.Deque
