/- C01 — Deque: prepare_task_pool relocation / growth under the lock and commit_relocated_tasks preserve the invariant. -/
import TbbVerif.Proofs.C01.DequeAcq

namespace TbbVerif.C01.Deque
open Lists

def isItemCell (c : Cell) : Bool := match c with | .item _ => true | _ => false

theorem filter_filterMap (w : List Cell) : (w.filter isItemCell).filterMap itemOf = w.filterMap itemOf := by
  induction w with
  | nil => rfl
  | cons c w ih =>
    cases c with
    | junk => simp only [List.filter_cons, isItemCell, Bool.false_eq_true, if_false, List.filterMap_cons, itemOf, ih]
    | hole => simp only [List.filter_cons, isItemCell, Bool.false_eq_true, if_false, List.filterMap_cons, itemOf, ih]
    | item x => simp only [List.filter_cons, isItemCell, if_true, List.filterMap_cons, itemOf, ih]

theorem mem_window (p : List Cell) (a n : Nat) (c : Cell) (h : c ∈ (p.drop a).take n) :
    ∃ i, a ≤ i ∧ i < a + n ∧ p[i]? = some c := by
  obtain ⟨j, hj⟩ := List.getElem?_of_mem h
  rw [List.getElem?_take] at hj
  by_cases hjn : j < n
  · simp only [hjn, if_true, List.getElem?_drop] at hj
    exact ⟨a + j, by omega, by omega, hj⟩
  · simp [hjn] at hj

theorem any_junk_false (w : List Cell) (h : ∀ c ∈ w, c ≠ .junk) : w.any (· == .junk) = false := by
  rw [List.any_eq_false]
  intro c hc
  have := h c hc
  cases c <;> simp at this ⊢

theorem liveCells_fst (p : List Cell) (H T : Int) :
    (liveCells p H T).1 = ((p.drop H.toNat).take (T.toNat - H.toNat)).filter isItemCell := by
  simp only [liveCells]
  congr 1

theorem liveCells_snd (p : List Cell) (H T : Int) :
    (liveCells p H T).2 = ((p.drop H.toNat).take (T.toNat - H.toNat)).any (· == .junk) := rfl

/-- the relocated tasks are exactly the tasks of the window, and there are no more of them than cells -/
theorem live_facts (p : List Cell) (H T : Int) (h0 : 0 ≤ H) (hle : T ≤ p.length)
    (hnj : ∀ i, H ≤ i → i < T → cellAt p i ≠ .junk) :
    (liveCells p H T).2 = false ∧ ((liveCells p H T).1).filterMap itemOf = items p H T ∧
    ((liveCells p H T).1).length ≤ T.toNat - H.toNat ∧ (∀ c ∈ (liveCells p H T).1, isItemCell c = true) := by
  rw [liveCells_snd, liveCells_fst]
  refine ⟨?_, ?_, ?_, ?_⟩
  · apply any_junk_false
    intro c hc
    obtain ⟨i, h1, h2, h3⟩ := mem_window p _ _ c hc
    have := hnj (i : Int) (by omega) (by omega)
    rw [cellAt_nonneg p i (by omega)] at this
    simp only [Int.toNat_natCast, List.getD_eq_getElem?_getD, h3, Option.getD_some] at this
    exact this
  · rw [filter_filterMap]; rfl
  · have := List.length_filter_le isItemCell ((p.drop H.toNat).take (T.toNat - H.toNat))
    have h2 : ((p.drop H.toNat).take (T.toNat - H.toNat)).length ≤ T.toNat - H.toNat := List.length_take_le _ _
    omega
  · intro c hc
    exact (List.mem_filter.mp hc).2

theorem items_prefix (live rest : List Cell) : items (live ++ rest) 0 live.length = live.filterMap itemOf := by
  simp [items, itemsN]

theorem cellAt_prefix (live rest : List Cell) (i : Int) (h0 : 0 ≤ i) (h1 : i < live.length)
    (hl : ∀ c ∈ live, isItemCell c = true) : cellAt (live ++ rest) i ≠ .junk := by
  rw [cellAt_nonneg _ i h0, List.getD_eq_getElem?_getD, List.getElem?_append_left (by omega)]
  have hlt : i.toNat < live.length := by omega
  rw [List.getElem?_eq_getElem hlt]
  simp only [Option.getD_some]
  have := hl _ (List.getElem_mem hlt)
  intro e; rw [e] at this; simp [isItemCell] at this

theorem owner_grHead (s : St) (h : DInv s) (hpc : s.own.pc = .grHead) : DInv (stepOwner s).1 := by
  have ho := h.ownOK
  have hw := h.winOK
  have hcfg := h.cfgOK
  have hex := excl_facts s h (by rw [hpc]; rfl)
  have hlo0 : lo s = s.head := lo_noCS s (by rw [hpc]; rfl) hex.1
  have hhd := h.headNN
  obtain ⟨cfg, head, tail, lw, pool, bad, spawned, own, ths⟩ := s
  obtain ⟨ops, pc, T0, T, H0, T1, res, omitted, poolEmpty, gen, out, freed⟩ := own
  simp only at hpc hex hlo0 hcfg hhd; subst hpc
  simp only [OwnerOK] at ho
  obtain ⟨⟨x, rest, hops⟩, hres, hT⟩ := ho
  subst hops hres hT
  have hhi : hi (⟨cfg, head, T, lw, pool, bad, spawned,
      ⟨OOp.spawn x :: rest, .grHead, T0, T, H0, T1, none, omitted, poolEmpty, gen, out, freed⟩, ths⟩ : St) = T := rfl
  have hle := hw.hiLe
  have hnj := hw.noJunk
  have hcnt := hw.cnt
  rw [hhi] at hle hcnt
  rw [hlo0] at hcnt
  simp only at hle
  obtain ⟨f1, f2, f3, f4⟩ := live_facts pool head T hhd hle (fun i h1 h2 => hnj i (by rw [hlo0]; exact h1) (by rw [hhi]; exact h2))
  simp only [stepOwner, relocate]
  generalize hlc : liveCells pool head T = lc at f1 f2 f3 f4
  obtain ⟨live, junk⟩ := lc
  simp only at f1 f2 f3 f4
  subst f1
  have hbad : (bad || false) = false := by have := h.nobad; simp only at this; rw [this]; rfl
  have hcnt' : ∀ y, List.count y spawned =
      List.count y (returned (⟨cfg, head, T, lw, pool, bad, spawned,
        ⟨OOp.spawn x :: rest, .grHead, T0, T, H0, T1, none, omitted, poolEmpty, gen, out, freed⟩, ths⟩ : St)) +
      List.count y (inflight (⟨cfg, head, T, lw, pool, bad, spawned,
        ⟨OOp.spawn x :: rest, .grHead, T0, T, H0, T1, none, omitted, poolEmpty, gen, out, freed⟩, ths⟩ : St)) +
      List.count y (live.filterMap itemOf) := by
    intro y; rw [f2]; exact hcnt y
  by_cases hal : 1 + live.length > pool.length - cfg.minSize / 4
  · -- a new, larger array
    simp only [hal, if_true]
    have hn : 1 + live.length ≤ roundUp cfg (if 1 + live.length < 2 * pool.length then 2 * pool.length else 1 + live.length) := by
      have := roundUp_ge cfg (if 1 + live.length < 2 * pool.length then 2 * pool.length else 1 + live.length) hcfg.1
      split at this <;> split <;> omega
    generalize roundUp cfg (if 1 + live.length < 2 * pool.length then 2 * pool.length else 1 + live.length) = n at hn
    refine ⟨h.cfgOK, hbad, h.headNN, ?_, ?_, thOK_owner _ _ h rfl (Or.inr hex.1), ?_, ?_⟩
    · intro hz; simp only [List.length_append, List.length_replicate] at hz; omega
    · refine ⟨h.lockOK.csLe, fun _ => hex, fun hf => by simp [ownerExcl] at hf, ?_⟩
      intro g hg; simp only at hg
      rcases hex.2 with hl | hl <;> rw [hl] at hg <;> exact absurd hg (by simp)
    · simp only [OwnerOK, List.length_append, List.length_replicate]
      exact ⟨⟨x, rest, rfl⟩, trivial, by omega⟩
    · refine ⟨Int.le_refl 0, ?_, ?_, ?_, ?_⟩
      · show (0 : Int) ≤ (live.length : Int); omega
      · show (live.length : Int) ≤ _; simp only [List.length_append, List.length_replicate]; omega
      · intro i h1 h2
        exact cellAt_prefix live _ i h1 h2 f4
      · intro y
        have := hcnt' y
        show List.count y spawned = _ + _ + List.count y (items (live ++ _) 0 (live.length : Int))
        rw [show ((live.length : Nat) : Int) = ((live.length : Nat) : Int) from rfl]
        have e : items (live ++ List.replicate (n - live.length) Cell.junk) 0 (live.length : Int) = live.filterMap itemOf := by
          have := items_prefix live (List.replicate (n - live.length) Cell.junk)
          simpa using this
        rw [e]
        have e1 := returned_own (⟨cfg, head, T, lw, pool, bad, spawned,
          ⟨OOp.spawn x :: rest, .grHead, T0, T, H0, T1, none, omitted, poolEmpty, gen, out, freed⟩, ths⟩ : St)
          (⟨cfg, head, T, lw, live ++ List.replicate (n - live.length) Cell.junk, bad || false, spawned,
          ⟨OOp.spawn x :: rest, .crHead, T0, T, H0, live.length, none, omitted, poolEmpty, gen + 1, out, freed⟩, ths⟩ : St) rfl y
        have e2 := inflight_own (⟨cfg, head, T, lw, pool, bad, spawned,
          ⟨OOp.spawn x :: rest, .grHead, T0, T, H0, T1, none, omitted, poolEmpty, gen, out, freed⟩, ths⟩ : St)
          (⟨cfg, head, T, lw, live ++ List.replicate (n - live.length) Cell.junk, bad || false, spawned,
          ⟨OOp.spawn x :: rest, .crHead, T0, T, H0, live.length, none, omitted, poolEmpty, gen + 1, out, freed⟩, ths⟩ : St) rfl y
        simp only at e1 e2
        omega
  · -- compaction in place
    simp only [hal, if_false]
    have hll : live.length ≤ pool.length := by omega
    refine ⟨h.cfgOK, hbad, h.headNN, ?_, ?_, thOK_owner _ _ h rfl (Or.inr hex.1), ?_, ?_⟩
    · intro hz; simp only [List.length_append, List.length_drop] at hz; omega
    · refine ⟨h.lockOK.csLe, fun _ => hex, fun hf => by simp [ownerExcl] at hf, ?_⟩
      intro g hg; simp only at hg
      rcases hex.2 with hl | hl <;> rw [hl] at hg <;> exact absurd hg (by simp)
    · simp only [OwnerOK, List.length_append, List.length_drop]
      exact ⟨⟨x, rest, rfl⟩, trivial, by omega⟩
    · refine ⟨Int.le_refl 0, ?_, ?_, ?_, ?_⟩
      · show (0 : Int) ≤ (live.length : Int); omega
      · show (live.length : Int) ≤ _; simp only [List.length_append, List.length_drop]; omega
      · intro i h1 h2
        exact cellAt_prefix live _ i h1 h2 f4
      · intro y
        have := hcnt' y
        show List.count y spawned = _ + _ + List.count y (items (live ++ _) 0 (live.length : Int))
        have e : items (live ++ pool.drop live.length) 0 (live.length : Int) = live.filterMap itemOf := by
          have := items_prefix live (pool.drop live.length)
          simpa using this
        rw [e]
        have e1 := returned_own (⟨cfg, head, T, lw, pool, bad, spawned,
          ⟨OOp.spawn x :: rest, .grHead, T0, T, H0, T1, none, omitted, poolEmpty, gen, out, freed⟩, ths⟩ : St)
          (⟨cfg, head, T, lw, live ++ pool.drop live.length, bad || false, spawned,
          ⟨OOp.spawn x :: rest, .grTail, T0, T, H0, live.length, none, omitted, poolEmpty, gen, out, freed⟩, ths⟩ : St) rfl y
        have e2 := inflight_own (⟨cfg, head, T, lw, pool, bad, spawned,
          ⟨OOp.spawn x :: rest, .grHead, T0, T, H0, T1, none, omitted, poolEmpty, gen, out, freed⟩, ths⟩ : St)
          (⟨cfg, head, T, lw, live ++ pool.drop live.length, bad || false, spawned,
          ⟨OOp.spawn x :: rest, .grTail, T0, T, H0, live.length, none, omitted, poolEmpty, gen, out, freed⟩, ths⟩ : St) rfl y
        simp only at e1 e2
        omega

theorem owner_grTail (s : St) (h : DInv s) (hpc : s.own.pc = .grTail) : DInv (stepOwner s).1 := by
  have ho := h.ownOK
  obtain ⟨cfg, head, tail, lw, pool, bad, spawned, own, ths⟩ := s
  obtain ⟨ops, pc, T0, T, H0, T1, res, omitted, poolEmpty, gen, out, freed⟩ := own
  simp only at hpc; subst hpc
  simp only [OwnerOK] at ho
  obtain ⟨⟨x, rest, hops⟩, hres, hT1⟩ := ho
  subst hops hres
  simp only [stepOwner]
  exact owner_frame _ _ h rfl rfl rfl rfl rfl rfl rfl rfl rfl rfl rfl rfl rfl rfl
    (by simp only [OwnerOK]; exact ⟨⟨x, rest, rfl⟩, trivial, hT1⟩)

/-- assembling the invariant for an owner step inside its exclusive section that moves `head` / `tail` -/
theorem owner_excl_step (s s' : St) (h : DInv s) (he : ownerExcl s.own.pc = true) (he' : ownerExcl s'.own.pc = true)
    (hcfg : s'.cfg = s.cfg) (hhead : 0 ≤ s'.head) (hlw : s'.lw = s.lw) (hpool : s'.pool = s.pool)
    (hbad : s'.bad = s.bad) (hsp : s'.spawned = s.spawned) (hths : s'.ths = s.ths) (hgen : s'.own.gen = s.own.gen)
    (hout : s'.own.out.filterMap id = s.own.out.filterMap id) (hfr : s'.own.freed = s.own.freed)
    (hres : s'.own.res = s.own.res) (hlo : lo s' = lo s) (hhi : hi s' = hi s) (hown : OwnerOK s') : DInv s' := by
  have hex := excl_facts s h he
  refine ⟨by rw [hcfg]; exact h.cfgOK, by rw [hbad]; exact h.nobad, hhead, by rw [hpool, hlw]; exact h.unalloc, ?_,
    thOK_owner s s' h hths (Or.inr hex.1), hown, WinOK_own_same s s' h.winOK hths hpool hsp hlo hhi hout hfr hres⟩
  refine ⟨by rw [hths]; exact h.lockOK.csLe, fun _ => by rw [hths, hlw]; exact hex, fun hf => by rw [he'] at hf; exact absurd hf (by simp), ?_⟩
  intro g hg; rw [hlw] at hg
  rcases hex.2 with hl | hl <;> rw [hl] at hg <;> exact absurd hg (by simp)

theorem owner_crHead (s : St) (h : DInv s) (hpc : s.own.pc = .crHead) : DInv (stepOwner s).1 := by
  have ho := h.ownOK
  have hex := excl_facts s h (by rw [hpc]; rfl)
  obtain ⟨cfg, head, tail, lw, pool, bad, spawned, own, ths⟩ := s
  obtain ⟨ops, pc, T0, T, H0, T1, res, omitted, poolEmpty, gen, out, freed⟩ := own
  simp only at hpc hex; subst hpc
  simp only [OwnerOK] at ho
  obtain ⟨⟨x, rest, hops⟩, hres, hT1⟩ := ho
  subst hops hres
  simp only [stepOwner]
  refine owner_excl_step _ _ h rfl rfl rfl (Int.le_refl 0) rfl rfl rfl rfl rfl rfl rfl rfl rfl ?_ rfl
    (by simp only [OwnerOK]; exact ⟨⟨x, rest, rfl⟩, trivial, hT1, trivial⟩)
  -- lo: the owner-defined bottom 0 becomes head = 0
  rw [lo_noCS _ (by rfl) hex.1]
  rfl

theorem owner_crTail (s : St) (h : DInv s) (hpc : s.own.pc = .crTail) : DInv (stepOwner s).1 := by
  have ho := h.ownOK
  obtain ⟨cfg, head, tail, lw, pool, bad, spawned, own, ths⟩ := s
  obtain ⟨ops, pc, T0, T, H0, T1, res, omitted, poolEmpty, gen, out, freed⟩ := own
  simp only at hpc; subst hpc
  simp only [OwnerOK] at ho
  obtain ⟨⟨x, rest, hops⟩, hres, hT1, hh⟩ := ho
  subst hops hres hh
  simp only [stepOwner]
  exact owner_excl_step _ _ h rfl rfl rfl (Int.le_refl 0) rfl rfl rfl rfl rfl rfl rfl rfl rfl rfl rfl
    (by simp only [OwnerOK]; exact ⟨⟨x, rest, rfl⟩, trivial, hT1, trivial, trivial⟩)

/-- the end of prepare_task_pool: release_task_pool, then `task_pool_ptr[T1] = &t` -/
theorem owner_rel_grow (s : St) (h : DInv s) (hpc : s.own.pc = .relLoad .grow ∨ s.own.pc = .relStore .grow) :
    DInv (stepOwner s).1 := by
  have ho := h.ownOK
  have hw := h.winOK
  have hex := excl_facts s h (by rcases hpc with hp | hp <;> rw [hp] <;> rfl)
  obtain ⟨cfg, head, tail, lw, pool, bad, spawned, own, ths⟩ := s
  obtain ⟨ops, pc, T0, T, H0, T1, res, omitted, poolEmpty, gen, out, freed⟩ := own
  simp only at hpc hex
  have key : ∀ (lw' : LW) (b' : Bool) (pc0 : OPc), (pc0 = .relLoad .grow ∨ pc0 = .relStore .grow) →
      ∀ (x : Item) (rest : List OOp), (T1 : Int) < pool.length → (lw' = .pub gen ∨ lw' = .empty) → (lw = .empty → lw' = .empty) →
      b' = false →
      DInv (⟨cfg, 0, T1, lw, pool, bad, spawned,
        ⟨OOp.spawn x :: rest, pc0, T0, T, H0, T1, none, omitted, poolEmpty, gen, out, freed⟩, ths⟩ : St) →
      DInv (⟨cfg, 0, T1, lw', setCell pool T1 (.item x), b', spawned,
        ⟨OOp.spawn x :: rest, .spStore, T0, T1, H0, T1, none, omitted, poolEmpty, gen, out, freed⟩, ths⟩ : St) := by
    intro lw' b' pc0 hp0 x rest hT1 hlw' hun hb' h
    have hw := h.winOK
    have hhi : hi (⟨cfg, 0, T1, lw, pool, bad, spawned,
        ⟨OOp.spawn x :: rest, pc0, T0, T, H0, T1, none, omitted, poolEmpty, gen, out, freed⟩, ths⟩ : St) = T1 := by
      rcases hp0 with hp | hp <;> subst hp <;> rfl
    have hlo : lo (⟨cfg, 0, T1, lw', setCell pool T1 (.item x), b', spawned,
        ⟨OOp.spawn x :: rest, .spStore, T0, T1, H0, T1, none, omitted, poolEmpty, gen, out, freed⟩, ths⟩ : St) =
        lo (⟨cfg, 0, T1, lw, pool, bad, spawned,
        ⟨OOp.spawn x :: rest, pc0, T0, T, H0, T1, none, omitted, poolEmpty, gen, out, freed⟩, ths⟩ : St) := by
      rcases hp0 with hp | hp <;> subst hp <;> rfl
    have hex := excl_facts _ h (by rcases hp0 with hp | hp <;> subst hp <;> rfl)
    refine ⟨h.cfgOK, hb', Int.le_refl 0, ?_, LockOK_noCS _ _ hex.1 rfl hlw' (fun he => by simp [ownerExcl] at he),
            thOK_owner _ _ h rfl (Or.inl ⟨rfl, rfl⟩), ?_, ?_⟩
    · intro hz; simp only [setCell_length] at hz; exact hun (h.unalloc hz)
    · simp only [OwnerOK, setCell_length]
      exact ⟨⟨x, rest, rfl, cellAt_setCell_same _ _ _ (by omega) hT1⟩, trivial, by omega, hT1, trivial⟩
    · exact WinOK_setCell_out _ _ T1 (.item x) hw rfl rfl (Or.inr (by rw [hhi]; exact Int.le_refl _)) rfl hlo
        (by rw [hhi]; rfl) rfl rfl rfl
  rcases hpc with hpc | hpc <;> subst hpc <;> simp only [OwnerOK] at ho
  · obtain ⟨⟨x, rest, hops⟩, hres, hT1, hh, ht⟩ := ho
    subst hops hres hh ht
    simp only [stepOwner]
    by_cases hl : lw = .empty
    · simp only [hl, if_true, placeSpawn]
      subst hl
      exact key .empty bad _ (Or.inl rfl) x rest hT1 (Or.inr rfl) (fun e => e) h.nobad h
    · simp only [hl, if_false]
      have hlk : lw = .locked := by rcases hex.2 with e | e; exact e; exact absurd e hl
      exact owner_excl_step _ _ h rfl rfl rfl (Int.le_refl 0) rfl rfl rfl rfl rfl rfl rfl rfl rfl rfl rfl
        (by simp only [OwnerOK]; exact ⟨⟨x, rest, rfl⟩, trivial, hT1, trivial, trivial, hlk⟩)
  · obtain ⟨⟨x, rest, hops⟩, hres, hT1, hh, ht, hlk⟩ := ho
    subst hops hres hh ht hlk
    simp only [stepOwner, placeSpawn]
    have hb : (bad || LW.locked != LW.locked) = false := by have := h.nobad; simp only at this; rw [this]; rfl
    exact key (.pub gen) _ _ (Or.inr rfl) x rest hT1 (Or.inl rfl) (fun e => by simp at e) hb h

end TbbVerif.C01.Deque
