/-
C01 / Dispatch: reachability is closed under enabled steps; a unit that sits in a container is pending; the take
actions are enabled for EVERY thread that satisfies the structural guard (slot relation, dispatch-loop position,
isolation) — nothing in the guards depends on which thread it is.
-/
import TbbVerif.Proofs.C01.DispFinish

namespace TbbVerif.C01.Dispatch

theorem run_append (s : St) (as : List Act) (a : Act) :
    run s (as ++ [a]) = match run s as with | none => none | some s' => step s' a := by
  induction as generalizing s with
  | nil =>
    simp only [List.nil_append, run]
    cases step s a <;> rfl
  | cons b bs ih =>
    simp only [List.cons_append, run]
    cases step s b with
    | none => rfl
    | some s1 => exact ih s1

theorem reachable_step {s s' : St} (a : Act) (hr : Reachable s) (he : step s a = some s') : Reachable s' := by
  obtain ⟨sa, na, nt, ord, acts, h⟩ := hr
  refine ⟨sa, na, nt, ord, acts ++ [a], ?_⟩
  rw [run_append, h]
  exact he

theorem count_pos_of_getElem? {α : Type} [BEq α] [LawfulBEq α] {l : List (List α)} {k i : Nat} {P : List α} {e : α}
    (hP : l[k]? = some P) (hi : P[i]? = some e) : 0 < l.flatten.count e := by
  have h1 : e ∈ P := List.mem_of_getElem? hi
  have h2 : P ∈ l := List.mem_of_getElem? hP
  exact List.count_pos_iff.mpr (List.mem_flatten.mpr ⟨P, h2, h1⟩)

/-- a plain task in a pool is pending -/
theorem pending_of_pool {s : St} (h : Inv s) {v i u : Nat} {P : List Entry} (hP : s.pools[v]? = some P)
    (hi : P[i]? = some (.task u)) : ∃ x, s.units[u]? = some x ∧ x.st = .pending := by
  apply pending_of_occ h
  have := count_pos_of_getElem? hP hi
  simp only [occ, poolCount]
  omega

theorem pending_of_stream {s : St} (h : Inv s) {j i u : Nat} {S : List Nat} (hS : s.streams[j]? = some S)
    (hi : S[i]? = some u) : ∃ x, s.units[u]? = some x ∧ x.st = .pending := by
  apply pending_of_occ h
  have := count_pos_of_getElem? hS hi
  simp only [occ, streamCount]
  omega

theorem pending_of_bypass {s : St} (h : Inv s) {t u : Nat} (hb : s.bypass[t]? = some (some u)) :
    ∃ x, s.units[u]? = some x ∧ x.st = .pending := by
  apply pending_of_occ h
  have h1 : some u ∈ s.bypass := List.mem_of_getElem? hb
  have := List.count_pos_iff.mpr h1
  simp only [occ, bypassCount]
  omega

/-- the unit of a live proxy is pending -/
theorem pending_of_proxy {s : St} (h : Inv s) {p : Nat} {X : Proxy} (hX : s.proxies[p]? = some X) (ht : X.tag = .shared) :
    ∃ x, s.units[X.unit]? = some x ∧ x.st = .pending := by
  apply pending_of_occ h
  have h1 : X ∈ s.proxies := List.mem_of_getElem? hX
  have : 0 < s.proxies.countP (fun q => q.tag == .shared && q.unit == X.unit) :=
    List.countP_pos_iff.mpr ⟨X, h1, by simp [ht]⟩
  simp only [occ, liveProxy]
  omega

/-- the tag of a proxy found in a pool cell is `shared` or `poolCleans` -/
theorem tag_of_pool_proxy {s : St} (h : Inv s) {v i p : Nat} {P : List Entry} (hP : s.pools[v]? = some P)
    (hi : P[i]? = some (.proxy p)) : ∃ X, s.proxies[p]? = some X ∧ (X.tag = .shared ∨ X.tag = .poolCleans) := by
  have hpos := count_pos_of_getElem? hP hi
  have := h.ipp p
  simp only [poolCount] at this
  cases hX : s.proxies[p]? with
  | none => rw [hX] at this; simp [expPool] at this; omega
  | some X =>
    rw [hX] at this
    refine ⟨X, rfl, ?_⟩
    simp only [expPool] at this
    split at this
    · assumption
    · omega

/-- the tag of a proxy found in a mailbox is `shared` or `mboxCleans` -/
theorem tag_of_box_proxy {s : St} (h : Inv s) {k i p : Nat} {B : List Nat} (hB : s.boxes[k]? = some B)
    (hi : B[i]? = some p) : ∃ X, s.proxies[p]? = some X ∧ (X.tag = .shared ∨ X.tag = .mboxCleans) := by
  have hpos := count_pos_of_getElem? hB hi
  have := h.ipb p
  simp only [boxCount] at this
  cases hX : s.proxies[p]? with
  | none => rw [hX] at this; simp [expBox] at this; omega
  | some X =>
    rw [hX] at this
    refine ⟨X, rfl, ?_⟩
    simp only [expBox] at this
    split at this
    · assumption
    · omega

/-- who may take from pool `v`: its occupant at position `localPool`, any other thread of the arena at `steal` -/
def PoolGuard (s : St) (t : Tid) (k v : Nat) : Prop :=
  (v = k ∧ s.look[t]? = some .localPool) ∨ (v ≠ k ∧ s.look[t]? = some .steal ∧ s.slotArena[k]? = s.slotArena[v]?)

theorem enabled_takePool_task {s : St} (hr : Reachable s) {t : Tid} {g : Option Nat} {w : Nat} {rest : List Frame}
    {k v i u : Nat} {P : List Entry} {x : UnitR}
    (hst : s.stacks[t]? = some (.wait g w :: rest)) (hk : curSlot rest = some k) (hby : s.bypass[t]? = some none)
    (hP : s.pools[v]? = some P) (hi : P[i]? = some (.task u)) (hu : s.units[u]? = some x) (hiso : isoOk w x.iso = true)
    (hg : PoolGuard s t k v) :
    ∃ s', step s (.takePool t v i) = some s' ∧ Reachable s' ∧ s'.bypass[t]? = some (some u) := by
  have hinv := inv_reachable hr
  obtain ⟨x', hu', hx'⟩ := pending_of_pool hinv hP hi
  rw [hu] at hu'
  cases hu'
  have hlt : t < s.bypass.length := (List.getElem?_eq_some_iff.mp hby).1
  have hgd : (s.bypass[t]? = some none ∧ ((v = k ∧ s.look[t]? = some Src.localPool) ∨
      (v ≠ k ∧ s.look[t]? = some Src.steal ∧ s.slotArena[k]? = s.slotArena[v]?))) := ⟨hby, hg⟩
  have key : ∃ s', step s (.takePool t v i) = some s' ∧ s'.bypass[t]? = some (some u) := by
    simp only [step, actTakePool, hst, hk, hP, hi, hu, hgd, if_true, hiso, hx', and_self]
    exact ⟨_, rfl, by simp [hlt]⟩
  obtain ⟨s', h1, h2⟩ := key
  exact ⟨s', h1, reachable_step _ hr h1, h2⟩

theorem enabled_takePool_proxy {s : St} (hr : Reachable s) {t : Tid} {g : Option Nat} {w : Nat} {rest : List Frame}
    {k v i p : Nat} {P : List Entry} {X : Proxy} {x : UnitR}
    (hst : s.stacks[t]? = some (.wait g w :: rest)) (hk : curSlot rest = some k) (hby : s.bypass[t]? = some none)
    (hP : s.pools[v]? = some P) (hi : P[i]? = some (.proxy p)) (hX : s.proxies[p]? = some X) (htag : X.tag = .shared)
    (hu : s.units[X.unit]? = some x) (hiso : isoOk w x.iso = true) (hg : PoolGuard s t k v) :
    ∃ s', step s (.takePool t v i) = some s' ∧ Reachable s' ∧ s'.bypass[t]? = some (some X.unit) ∧
      s'.proxies[p]? = some { X with tag := .mboxCleans } := by
  have hinv := inv_reachable hr
  obtain ⟨x', hu', hx'⟩ := pending_of_proxy hinv hX htag
  rw [hu] at hu'
  cases hu'
  have hlt : t < s.bypass.length := (List.getElem?_eq_some_iff.mp hby).1
  have hpl : p < s.proxies.length := (List.getElem?_eq_some_iff.mp hX).1
  have hgd : (s.bypass[t]? = some none ∧ ((v = k ∧ s.look[t]? = some Src.localPool) ∨
      (v ≠ k ∧ s.look[t]? = some Src.steal ∧ s.slotArena[k]? = s.slotArena[v]?))) := ⟨hby, hg⟩
  have key : ∃ s', step s (.takePool t v i) = some s' ∧ s'.bypass[t]? = some (some X.unit) ∧
      s'.proxies[p]? = some { X with tag := .mboxCleans } := by
    simp only [step, actTakePool, hst, hk, hP, hi, hX, htag, hu, hgd, if_true, hiso, hx', and_self]
    exact ⟨_, rfl, by simp [hlt], by simp [hpl]⟩
  obtain ⟨s', h1, h2, h3⟩ := key
  exact ⟨s', h1, reachable_step _ hr h1, h2, h3⟩

/-- the loser of the claim on the pool side: the proxy was emptied by the mailbox side, the pool side frees it -/
theorem enabled_takePool_emptied {s : St} (hr : Reachable s) {t : Tid} {g : Option Nat} {w : Nat} {rest : List Frame}
    {k v i p : Nat} {P : List Entry} {X : Proxy}
    (hst : s.stacks[t]? = some (.wait g w :: rest)) (hk : curSlot rest = some k) (hby : s.bypass[t]? = some none)
    (hP : s.pools[v]? = some P) (hi : P[i]? = some (.proxy p)) (hX : s.proxies[p]? = some X) (htag : X.tag = .poolCleans)
    (hg : PoolGuard s t k v) :
    ∃ s', step s (.takePool t v i) = some s' ∧ Reachable s' ∧ s'.bypass[t]? = some none ∧
      s'.proxies[p]? = some { X with tag := .freed } := by
  have hpl : p < s.proxies.length := (List.getElem?_eq_some_iff.mp hX).1
  have hgd : (s.bypass[t]? = some none ∧ ((v = k ∧ s.look[t]? = some Src.localPool) ∨
      (v ≠ k ∧ s.look[t]? = some Src.steal ∧ s.slotArena[k]? = s.slotArena[v]?))) := ⟨hby, hg⟩
  have key : ∃ s', step s (.takePool t v i) = some s' ∧ s'.bypass[t]? = some none ∧
      s'.proxies[p]? = some { X with tag := .freed } := by
    simp only [step, actTakePool, hst, hk, hP, hi, hX, htag, hgd]
    exact ⟨_, rfl, hby, by simp [hpl]⟩
  obtain ⟨s', h1, h2, h3⟩ := key
  exact ⟨s', h1, reachable_step _ hr h1, h2, h3⟩

theorem enabled_takeBox {s : St} (hr : Reachable s) {t : Tid} {g : Option Nat} {w : Nat} {rest : List Frame}
    {k i p : Nat} {B : List Nat} {X : Proxy} {x : UnitR}
    (hst : s.stacks[t]? = some (.wait g w :: rest)) (hk : curSlot rest = some k) (hby : s.bypass[t]? = some none)
    (hl : s.look[t]? = some .mailbox)
    (hB : s.boxes[k]? = some B) (hi : B[i]? = some p) (hX : s.proxies[p]? = some X) (htag : X.tag = .shared)
    (hu : s.units[X.unit]? = some x) (hiso : isoOk w x.iso = true) :
    ∃ s', step s (.takeBox t i) = some s' ∧ Reachable s' ∧ s'.bypass[t]? = some (some X.unit) ∧
      s'.proxies[p]? = some { X with tag := .poolCleans } := by
  have hinv := inv_reachable hr
  obtain ⟨x', hu', hx'⟩ := pending_of_proxy hinv hX htag
  rw [hu] at hu'
  cases hu'
  have hlt : t < s.bypass.length := (List.getElem?_eq_some_iff.mp hby).1
  have hpl : p < s.proxies.length := (List.getElem?_eq_some_iff.mp hX).1
  have key : ∃ s', step s (.takeBox t i) = some s' ∧ s'.bypass[t]? = some (some X.unit) ∧
      s'.proxies[p]? = some { X with tag := .poolCleans } := by
    simp only [step, actTakeBox, hst, hk, hB, hi, hX, htag, hu, hby, hl, and_self, if_true, hiso, hx']
    exact ⟨_, rfl, by simp [hlt], by simp [hpl]⟩
  obtain ⟨s', h1, h2, h3⟩ := key
  exact ⟨s', h1, reachable_step _ hr h1, h2, h3⟩

theorem enabled_takeBox_emptied {s : St} (hr : Reachable s) {t : Tid} {g : Option Nat} {w : Nat} {rest : List Frame}
    {k i p : Nat} {B : List Nat} {X : Proxy}
    (hst : s.stacks[t]? = some (.wait g w :: rest)) (hk : curSlot rest = some k) (hby : s.bypass[t]? = some none)
    (hl : s.look[t]? = some .mailbox)
    (hB : s.boxes[k]? = some B) (hi : B[i]? = some p) (hX : s.proxies[p]? = some X) (htag : X.tag = .mboxCleans) :
    ∃ s', step s (.takeBox t i) = some s' ∧ Reachable s' ∧ s'.bypass[t]? = some none ∧
      s'.proxies[p]? = some { X with tag := .freed } := by
  have hpl : p < s.proxies.length := (List.getElem?_eq_some_iff.mp hX).1
  have key : ∃ s', step s (.takeBox t i) = some s' ∧ s'.bypass[t]? = some none ∧
      s'.proxies[p]? = some { X with tag := .freed } := by
    simp only [step, actTakeBox, hst, hk, hB, hi, hX, htag, hby, hl, and_self, if_true]
    exact ⟨_, rfl, hby, by simp [hpl]⟩
  obtain ⟨s', h1, h2, h3⟩ := key
  exact ⟨s', h1, reachable_step _ hr h1, h2, h3⟩

theorem enabled_takeStream {s : St} (hr : Reachable s) {t : Tid} {g : Option Nat} {w : Nat} {rest : List Frame}
    {k a kind i u : Nat} {S : List Nat} {x : UnitR}
    (hst : s.stacks[t]? = some (.wait g w :: rest)) (hk : curSlot rest = some k) (hby : s.bypass[t]? = some none)
    (ha : s.slotArena[k]? = some a) (hkind : kind < 3)
    (hS : s.streams[3 * a + kind]? = some S) (hi : S[i]? = some u) (hu : s.units[u]? = some x)
    (hl : streamLookOk kind s.look[t]? w x.iso = true) :
    ∃ s', step s (.takeStream t kind i) = some s' ∧ Reachable s' ∧ s'.bypass[t]? = some (some u) := by
  have hinv := inv_reachable hr
  obtain ⟨x', hu', hx'⟩ := pending_of_stream hinv hS hi
  rw [hu] at hu'
  cases hu'
  have hlt : t < s.bypass.length := (List.getElem?_eq_some_iff.mp hby).1
  have key : ∃ s', step s (.takeStream t kind i) = some s' ∧ s'.bypass[t]? = some (some u) := by
    simp only [step, actTakeStream, hst, hk, ha, hS, hi, hu, hkind, hby, hl, hx', and_self, if_true]
    exact ⟨_, rfl, by simp [hlt]⟩
  obtain ⟨s', h1, h2⟩ := key
  exact ⟨s', h1, reachable_step _ hr h1, h2⟩

/-- whoever holds a unit in its hand executes it (or cancels it, when its context is cancelled) -/
theorem enabled_takeBypass {s : St} (hr : Reachable s) {t : Tid} {g : Option Nat} {w : Nat} {rest : List Frame} {u : Nat}
    (hst : s.stacks[t]? = some (.wait g w :: rest)) (hby : s.bypass[t]? = some (some u)) (hl : s.look[t]? = some .bypass) :
    ∃ s' x, step s (.takeBypass t) = some s' ∧ Reachable s' ∧ topFrame s' t = some (.exec u) ∧
      s.units[u]? = some x ∧ x.st = .pending ∧ s'.bypass[t]? = some none ∧
      (∃ y, s'.units[u]? = some y ∧ y.st = .running ∧
        y.nexec = x.nexec + (if s.ctxs[x.ctx]?.getD false then 0 else 1) ∧
        y.ncancel = x.ncancel + (if s.ctxs[x.ctx]?.getD false then 1 else 0)) := by
  have hinv := inv_reachable hr
  obtain ⟨x, hu, hx⟩ := pending_of_bypass hinv hby
  have hlt : t < s.bypass.length := (List.getElem?_eq_some_iff.mp hby).1
  have hslt : t < s.stacks.length := (List.getElem?_eq_some_iff.mp hst).1
  have hstep : step s (.takeBypass t) = some (startExec { s with bypass := s.bypass.set t none } t (.wait g w :: rest) u x) := by
    simp only [step, actTakeBypass, hst, hby, hu, hl, hx, and_self, if_true]
  refine ⟨_, x, hstep, reachable_step _ hr hstep, ?_, hu, hx, ?_, ?_⟩
  · simp [topFrame, startExec, hslt]
  · simp [startExec, hlt]
  · have := units_startExec { s with bypass := s.bypass.set t none } t (.wait g w :: rest) u x u hu
    simp only [if_true] at this
    exact ⟨_, this, rfl, rfl, rfl⟩

end TbbVerif.C01.Dispatch
