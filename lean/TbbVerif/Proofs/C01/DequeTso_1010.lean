/-
C01 / DequeTso: kernel-checked closure of the reachable set for one Orders table (see DequeTsoCore.lean):
decRmw=true decFence=false incRmw=true incFence=false.
-/
import TbbVerif.Proofs.C01.DequeTsoCore

namespace TbbVerif.C01.DequeTso

theorem closed_1010 : closed ⟨true, false, true, false⟩ (reachSet ⟨true, false, true, false⟩) = true := by decide +kernel
theorem safe_1010 : safe (reachSet ⟨true, false, true, false⟩) = true := by decide +kernel

end TbbVerif.C01.DequeTso
