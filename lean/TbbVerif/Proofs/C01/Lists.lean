/- C01 — generic list lemmas used by the protocol invariants (core Lean only). -/
namespace TbbVerif.C01.Lists

theorem countP_set_add {α} (p : α → Bool) (l : List α) (i : Nat) (x y : α) (h : l[i]? = some x) :
    (l.set i y).countP p + (if p x then 1 else 0) = l.countP p + (if p y then 1 else 0) := by
  induction l generalizing i with
  | nil => simp at h
  | cons a l ih =>
    cases i with
    | zero =>
      simp at h; subst h
      simp [List.countP_cons]; omega
    | succ i =>
      simp at h
      have := ih i h
      simp [List.countP_cons]; omega

theorem countP_range_change (N k : Nat) (p q : Nat → Bool) (hk : k < N) (h : ∀ i, i ≠ k → p i = q i) :
    (List.range N).countP q + (if p k then 1 else 0) = (List.range N).countP p + (if q k then 1 else 0) := by
  induction N with
  | zero => omega
  | succ N ih =>
    rw [List.range_succ, List.countP_append, List.countP_append]
    by_cases hkN : k = N
    · subst hkN
      have : (List.range k).countP q = (List.range k).countP p := by
        apply List.countP_congr
        intro i hi
        have : i ≠ k := by simp at hi; omega
        rw [h i this]
      simp [List.countP_cons, this]; omega
    · have := ih (by omega)
      have hN : p N = q N := h N (fun e => hkN e.symm)
      simp [List.countP_cons, hN]; omega

theorem countP_range_congr (N : Nat) (p q : Nat → Bool) (h : ∀ i, i < N → p i = q i) :
    (List.range N).countP p = (List.range N).countP q := by
  apply List.countP_congr
  intro i hi
  simp at hi
  rw [h i hi]

theorem getD_set_eq {α} (l : List α) (i : Nat) (x d : α) (h : i < l.length) : (l.set i x).getD i d = x := by
  simp [List.getD_eq_getElem?_getD, h]

theorem getD_set_ne {α} (l : List α) (i j : Nat) (x d : α) (h : i ≠ j) : (l.set i x).getD j d = l.getD j d := by
  simp [List.getD_eq_getElem?_getD, List.getElem?_set_ne h]

theorem getElem?_of_getD_ne {α} [DecidableEq α] (l : List α) (i : Nat) (d x : α) (h : l.getD i d = x) (hx : x ≠ d) : l[i]? = some x := by
  rw [List.getD_eq_getElem?_getD] at h
  cases hh : l[i]? with
  | none => simp [hh] at h; exact absurd h.symm hx
  | some y => simp [hh] at h; rw [h]

theorem countP_pos_of_getElem? {α} (p : α → Bool) (l : List α) (i : Nat) (x : α) (h : l[i]? = some x) (hx : p x = true) :
    0 < l.countP p :=
  List.countP_pos_iff.mpr ⟨x, List.mem_of_getElem? h, hx⟩

theorem sum_map_set {α} (f : α → Nat) (l : List α) (i : Nat) (x y : α) (h : l[i]? = some x) :
    ((l.set i y).map f).sum + f x = (l.map f).sum + f y := by
  induction l generalizing i with
  | nil => simp at h
  | cons a l ih =>
    cases i with
    | zero =>
      simp at h; subst h
      simp only [List.set_cons_zero, List.map_cons, List.sum_cons]; omega
    | succ i =>
      simp at h
      have := ih i h
      simp only [List.set_cons_succ, List.map_cons, List.sum_cons]; omega

theorem sum_map_pos_of_mem {α} (f : α → Nat) (l : List α) (i : Nat) (x : α) (h : l[i]? = some x) :
    f x ≤ (l.map f).sum := by
  induction l generalizing i with
  | nil => simp at h
  | cons a l ih =>
    cases i with
    | zero => simp at h; subst h; simp
    | succ i =>
      simp at h
      have := ih i h
      simp; omega

theorem sum_map_eq_zero {α} (f : α → Nat) (l : List α) (h : (l.map f).sum = 0) (i : Nat) (x : α) (hx : l[i]? = some x) :
    f x = 0 := by
  have := sum_map_pos_of_mem f l i x hx
  omega

theorem eq_nil_of_count_zero (l : List Nat) (N : Nat) (hb : ∀ v ∈ l, v < N) (h : ∀ u, u < N → l.count u = 0) : l = [] := by
  cases l with
  | nil => rfl
  | cons a l =>
    have := h a (hb a (by simp))
    simp at this

theorem count_eraseIdx_add (l : List Nat) (i v : Nat) (h : l[i]? = some v) (u : Nat) :
    l.count u = (l.eraseIdx i).count u + (if u = v then 1 else 0) := by
  induction l generalizing i with
  | nil => simp at h
  | cons a l ih =>
    cases i with
    | zero =>
      simp at h; subst h
      simp only [List.eraseIdx_cons_zero, List.count_cons, beq_iff_eq]
      by_cases e : u = a
      · subst e; simp
      · have : ¬ (a = u) := fun x => e x.symm
        simp [e, this]
    | succ i =>
      simp at h
      have := ih i h
      simp only [List.eraseIdx_cons_succ, List.count_cons]
      omega

end TbbVerif.C01.Lists
