/- C01 — wait_context + per-thread reference_vertex: definitions and frame lemmas for the invariant of the Vertex model. -/
import TbbVerif.Model.C01
import TbbVerif.Proofs.C01.Lists

namespace TbbVerif.C01.Vertex
open Lists

def pcOf (ths : List Th) (u : Nat) : Pc := match ths[u]? with | some t => t.pc | none => .start
/-- number of units created on vertex `u` that some thread is executing -/
def heldCnt (ths : List Th) (u : Nat) : Nat := (ths.map (fun t => t.held.count u)).sum
/-- vertex `u` is non-zero and its 0 → 1 transition has already been forwarded to the root -/
def live (vs : List Nat) (ths : List Th) (u : Nat) : Bool := decide (0 < vs.getD u 0) && (pcOf ths u != .resRoot)
def nLive (vs : List Nat) (ths : List Th) : Nat := (List.range ths.length).countP (live vs ths)
/-- the thread has taken a vertex to 0 and has not yet forwarded it to the root -/
def isRel (t : Th) : Bool := t.pc == .relRoot || t.pc == .wRel
def nRel (ths : List Th) : Nat := ths.countP isRel

def opOK (t : Th) : Prop :=
  match t.pc with
  | .start => True
  | .resRoot => t.ops.head? = some .run
  | .relRoot => t.ops.head? = some .finish
  | .wTake => t.ops.head? = some .wait
  | .wFin => t.ops.head? = some .wait ∧ t.held ≠ []
  | .wRel => t.ops.head? = some .wait

/-- thread-local part of the invariant (N = number of threads = number of vertices) -/
def ThOK (N u : Nat) (t : Th) : Prop :=
  (t.pc = .resRoot → u ≠ 0 → t.held ≠ []) ∧ (∀ v ∈ t.held, v < N) ∧ opOK t

structure VInv (s : St) : Prop where
  lenV : s.vs.length = s.ths.length
  J1 : s.root = nLive s.vs s.ths + nRel s.ths
  J2 : ∀ u, u < s.ths.length →
        s.vs.getD u 0 = s.pending.count u + heldCnt s.ths u + (if pcOf s.ths u = .resRoot then 1 else 0)
  J3 : ∀ u, u < s.ths.length → pcOf s.ths u = .resRoot → s.vs.getD u 0 = 1
  Jp : ∀ v ∈ s.pending, v < s.ths.length
  Jt : ∀ (u : Nat) (t : Th), s.ths[u]? = some t → ThOK s.ths.length u t
  nobad : s.bad = false

theorem pcOf_set (ths : List Th) (k u : Nat) (t' : Th) (hk : k < ths.length) :
    pcOf (ths.set k t') u = if u = k then t'.pc else pcOf ths u := by
  unfold pcOf
  by_cases e : u = k
  · subst e; simp [hk]
  · simp [e, List.getElem?_set_ne (fun h => e h.symm)]

theorem pcOf_of (ths : List Th) (k : Nat) (t : Th) (h : ths[k]? = some t) : pcOf ths k = t.pc := by
  simp [pcOf, h]

theorem heldCnt_set (ths : List Th) (k : Nat) (t t' : Th) (u : Nat) (h : ths[k]? = some t) :
    heldCnt (ths.set k t') u + t.held.count u = heldCnt ths u + t'.held.count u :=
  sum_map_set (fun t => t.held.count u) ths k t t' h

theorem nRel_set (ths : List Th) (k : Nat) (t t' : Th) (h : ths[k]? = some t) :
    nRel (ths.set k t') + (if isRel t then 1 else 0) = nRel ths + (if isRel t' then 1 else 0) :=
  countP_set_add isRel ths k t t' h

theorem nLive_same (vs vs' : List Nat) (ths ths' : List Th) (hl : ths'.length = ths.length)
    (h : ∀ u, u < ths.length → live vs' ths' u = live vs ths u) : nLive vs' ths' = nLive vs ths := by
  unfold nLive
  rw [hl]
  exact countP_range_congr _ _ _ h

theorem nLive_change (vs vs' : List Nat) (ths ths' : List Th) (k : Nat) (hl : ths'.length = ths.length)
    (hk : k < ths.length) (h : ∀ u, u ≠ k → live vs' ths' u = live vs ths u) :
    nLive vs' ths' + (if live vs ths k then 1 else 0) = nLive vs ths + (if live vs' ths' k then 1 else 0) := by
  unfold nLive
  rw [hl]
  exact countP_range_change _ k _ _ hk (fun i hi => (h i hi).symm)

theorem Jt_set (ths : List Th) (N k : Nat) (t' : Th)
    (h : ∀ (u : Nat) (t : Th), ths[u]? = some t → ThOK N u t) (hk : ThOK N k t') :
    ∀ (u : Nat) (t : Th), (ths.set k t')[u]? = some t → ThOK N u t := by
  intro u t hu
  by_cases e : k = u
  · subst e
    by_cases hl : k < ths.length
    · rw [List.getElem?_set_self hl] at hu
      cases hu; exact hk
    · rw [List.getElem?_eq_none (by simp; omega)] at hu
      exact absurd hu (by simp)
  · rw [List.getElem?_set_ne e] at hu
    exact h u t hu

theorem lt_of_getElem? {α} (l : List α) (k : Nat) (x : α) (h : l[k]? = some x) : k < l.length := by
  by_cases hl : k < l.length
  · exact hl
  · rw [List.getElem?_eq_none (by omega)] at h
    exact absurd h (by simp)

theorem inv_init (progs : List (List Op)) : VInv (init progs) := by
  have hpc : ∀ u, pcOf (init progs).ths u = .start := by
    intro u
    simp only [pcOf, init, List.getElem?_map]
    cases progs[u]? <;> simp
  have hheld : ∀ u, heldCnt (init progs).ths u = 0 := by
    intro u
    have : ∀ l : List (List Op), ((l.map (fun p => ({ ops := p } : Th))).map (fun t => t.held.count u)).sum = 0 := by
      intro l
      induction l with
      | nil => rfl
      | cons a l ih => simpa using ih
    exact this progs
  refine ⟨by simp [init], ?_, ?_, ?_, by simp [init], ?_, rfl⟩
  · have h1 : nLive (init progs).vs (init progs).ths = 0 := by
      unfold nLive
      apply List.countP_eq_zero.mpr
      intro u hu
      have : (List.replicate progs.length 0)[u]?.getD 0 = 0 := by
        simp only [List.getElem?_replicate]
        split <;> rfl
      simp [live, init, this]
    have h2 : nRel (init progs).ths = 0 := by
      unfold nRel
      apply List.countP_eq_zero.mpr
      intro t ht
      simp [init] at ht
      obtain ⟨_, _, rfl⟩ := ht
      simp [isRel]
    rw [h1, h2]; rfl
  · intro u hu
    rw [hheld u, hpc u]
    have : (List.replicate progs.length 0)[u]?.getD 0 = 0 := by
      simp only [List.getElem?_replicate]
      split <;> rfl
    simp [init, this]
  · intro u _ h
    rw [hpc u] at h
    exact absurd h (by simp)
  · intro u t h
    simp only [init, List.getElem?_map] at h
    cases hp : progs[u]? with
    | none => simp [hp] at h
    | some p =>
      simp [hp] at h
      subst h
      exact ⟨by simp, by simp, by simp [opOK]⟩

end TbbVerif.C01.Vertex
