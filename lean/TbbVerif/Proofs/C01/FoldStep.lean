/- C01 — fold_tree: the invariant of Proofs/C01/Fold.lean is preserved by every step; consequences. -/
import TbbVerif.Proofs.C01.Fold

namespace TbbVerif.C01.Fold
open Lists

theorem step_none (s : St) (tid : Tid) (hp : s.pcs[tid]? = none) : step s tid = s := by
  simp [step, stepEv, hp]

theorem step_done (s : St) (tid : Tid) (hp : s.pcs[tid]? = some .done) : step s tid = s := by
  simp [step, stepEv, hp]

theorem step_rel (s : St) (tid : Tid) (hp : s.pcs[tid]? = some .rel) :
    step s tid = { s with wait := s.wait - 1, released := s.released + 1,
                          notified := if s.wait - 1 = 0 then s.notified + 1 else s.notified,
                          pcs := s.pcs.set tid .done } := by
  simp [step, stepEv, hp]

theorem step_decA (s : St) (tid : Tid) (n : Nat) (hp : s.pcs[tid]? = some (.dec n)) (hc : s.refs.getD n 0 - 1 > 0) :
    step s tid = { s with refs := s.refs.set n (s.refs.getD n 0 - 1),
                          bad := s.bad || s.freed.getD n true || decide (s.refs.getD n 0 ≤ 0),
                          started := s.started.set tid true, pcs := s.pcs.set tid .done } := by
  simp only [step, stepEv, hp, hc, ↓reduceIte]

theorem step_decB (s : St) (tid : Tid) (hp : s.pcs[tid]? = some (.dec 0)) (hc : ¬ s.refs.getD 0 0 - 1 > 0) :
    step s tid = { s with refs := s.refs.set 0 (s.refs.getD 0 0 - 1),
                          bad := s.bad || s.freed.getD 0 true || decide (s.refs.getD 0 0 ≤ 0),
                          started := s.started.set tid true, pcs := s.pcs.set tid .rel } := by
  simp only [step, stepEv, hp, hc, ↓reduceIte]

theorem step_decC (s : St) (tid : Tid) (n : Nat) (hp : s.pcs[tid]? = some (.dec n)) (hc : ¬ s.refs.getD n 0 - 1 > 0)
    (hn : n ≠ 0) :
    step s tid = { s with refs := s.refs.set n (s.refs.getD n 0 - 1),
                          bad := s.bad || s.freed.getD n true || decide (s.refs.getD n 0 ≤ 0),
                          started := s.started.set tid true, freed := s.freed.set n true,
                          pcs := s.pcs.set tid (.dec (s.tree.par.getD n 0)) } := by
  simp only [step, stepEv, hp, hc, hn, ↓reduceIte]

theorem inb_set (pcs : List Pc) (tid : Nat) (x : Pc) (N : Nat)
    (h : ∀ (i n : Nat), pcs[i]? = some (Pc.dec n) → n < N) (hx : ∀ m, x = Pc.dec m → m < N) :
    ∀ (i n : Nat), (pcs.set tid x)[i]? = some (Pc.dec n) → n < N := by
  intro i n hi
  by_cases e : tid = i
  · subst e
    by_cases hl : tid < pcs.length
    · rw [List.getElem?_set_self hl] at hi
      exact hx n (Option.some.inj hi)
    · rw [List.getElem?_eq_none (by simp; omega)] at hi
      exact absurd hi (by simp)
  · rw [List.getElem?_set_ne e] at hi
    exact h i n hi

theorem S_set (started : List Bool) (pcs : List Pc) (tid : Nat) (x : Pc) (leaf : List Nat)
    (hl : started.length = pcs.length)
    (h : ∀ (i : Nat), started.getD i true = false → pcs[i]? = some (Pc.dec (leaf.getD i 0))) :
    ∀ (i : Nat), (started.set tid true).getD i true = false → (pcs.set tid x)[i]? = some (Pc.dec (leaf.getD i 0)) := by
  intro i hi
  by_cases e : tid = i
  · subst e
    by_cases hlt : tid < started.length
    · rw [getD_set_eq _ _ _ _ hlt] at hi
      exact absurd hi (by simp)
    · rw [List.getD_eq_getElem?_getD, List.getElem?_eq_none (by simp; omega)] at hi
      exact absurd hi (by simp)
  · rw [getD_set_ne _ _ _ _ _ e] at hi
    rw [List.getElem?_set_ne e]
    exact h i hi

/-- facts shared by the three `dec` cases -/
theorem dec_facts (t : Tree) (s : St) (tid n : Nat) (h : FInv t s) (hp : s.pcs[tid]? = some (Pc.dec n)) :
    n < t.par.length ∧ 0 < cntDec s.pcs n ∧
    s.refs.getD n 0 = ((cntDec s.pcs n + liveKids t s.refs n : Nat) : Int) ∧ s.freed.getD n true = false := by
  have hn := h.inb tid n hp
  have hcd : 0 < cntDec s.pcs n := countP_pos_of_getElem? _ _ tid _ hp (by simp)
  have hR := h.R n hn
  refine ⟨hn, hcd, hR, ?_⟩
  cases hf : s.freed.getD n true with
  | false => rfl
  | true =>
    exfalso
    have h0 : s.refs.getD n 0 = 0 := h.F n hn hf
    rw [h0] at hR
    omega

theorem inv_step (t : Tree) (hw : Wf t) (s : St) (tid : Tid) (h : FInv t s) : FInv t (step s tid) := by
  cases hp : s.pcs[tid]? with
  | none => rw [step_none s tid hp]; exact h
  | some pc =>
  cases pc with
  | done => rw [step_done s tid hp]; exact h
  | rel =>
    rw [step_rel s tid hp]
    have hcr : 0 < cntRel s.pcs := countP_pos_of_getElem? _ _ tid _ hp (by simp)
    have hW := h.W
    have hR0 := h.R 0 hw.pos
    have hrel := cntRel_set s.pcs tid .rel .done hp
    simp only [if_true, show ¬ (Pc.done = Pc.rel) by simp, if_false] at hrel
    have hrz : s.released = 0 := by omega
    have hwait : s.wait = 1 := by have := h.wt.1; omega
    refine ⟨h.tree, h.lenR, h.lenF, by simpa using h.lenS, ?_, ?_, h.F, ?_, ?_, ?_, h.nobad⟩
    · intro j hj
      have := cntDec_set s.pcs tid .rel .done j hp
      simp only [show ¬ (Pc.rel = Pc.dec j) by simp, show ¬ (Pc.done = Pc.dec j) by simp, if_false] at this
      have hR := h.R j hj
      simp only at hR ⊢
      rw [hR]; omega
    · exact inb_set _ _ _ _ h.inb (by intro m hm; simp at hm)
    · simp only; omega
    · simp only [hwait]
      have := h.wt.2
      constructor
      · omega
      · simp; omega
    · intro i hi
      have hs := h.S i hi
      by_cases e : tid = i
      · subst e; rw [hp] at hs; simp at hs
      · simp only; rw [List.getElem?_set_ne e]; exact hs
  | dec n =>
    obtain ⟨hn, hcd, hR, hfr⟩ := dec_facts t s tid n h hp
    have hcpos : 0 < s.refs.getD n 0 := by omega
    have hbad : (s.bad || s.freed.getD n true || decide (s.refs.getD n 0 ≤ 0)) = false := by
      have : decide (s.refs.getD n 0 ≤ 0) = false := by apply decide_eq_false; omega
      rw [h.nobad, hfr, this]; rfl
    by_cases hc : s.refs.getD n 0 - 1 > 0
    · -- the count stays positive: this folder is done
      rw [step_decA s tid n hp hc]
      refine ⟨h.tree, by simpa using h.lenR, h.lenF, by simpa using h.lenS, ?_, ?_, ?_, ?_, h.wt, ?_, hbad⟩
      · intro j hj
        have e1 := cntDec_set s.pcs tid (.dec n) .done j hp
        simp only [show ¬ (Pc.done = Pc.dec j) by simp, if_false, Pc.dec.injEq] at e1
        have e2 : liveKids t (s.refs.set n (s.refs.getD n 0 - 1)) j = liveKids t s.refs j := by
          apply liveKids_set_same
          simp only [kidLive]
          rw [getD_set_eq _ _ _ _ (by rw [h.lenR]; exact hn)]
          have a1 : decide (0 < s.refs.getD n 0 - 1) = true := by simpa using hc
          have a2 : decide (0 < s.refs.getD n 0) = true := by simpa using hcpos
          rw [a1, a2]
        simp only
        rw [e2]
        by_cases e : n = j
        · subst e
          rw [getD_set_eq _ _ _ _ (by rw [h.lenR]; exact hn)]
          simp only [if_true] at e1
          omega
        · rw [getD_set_ne _ _ _ _ _ e]
          simp only [e, if_false] at e1
          have := h.R j hj
          omega
      · exact inb_set _ _ _ _ h.inb (by intro m hm; simp at hm)
      · intro j hj hf
        have := h.F j hj hf
        by_cases e : n = j
        · subst e; omega
        · simp only; rw [getD_set_ne _ _ _ _ _ e]; exact this
      · have hW := h.W
        have e3 := cntRel_set s.pcs tid (.dec n) .done hp
        simp only [show ¬ (Pc.dec n = Pc.rel) by simp, show ¬ (Pc.done = Pc.rel) by simp, if_false] at e3
        simp only
        by_cases e : n = 0
        · subst e
          -- the root count is 1 or 0, so it cannot stay positive after a decrement
          have hR0 := h.R 0 hw.pos
          omega
        · rw [getD_set_ne _ _ _ _ _ e]; omega
      · exact S_set _ _ _ _ _ h.lenS h.S
    · have hc1 : s.refs.getD n 0 = 1 := by omega
      have hcd1 : cntDec s.pcs n = 1 ∧ liveKids t s.refs n = 0 := by omega
      by_cases hn0 : n = 0
      · -- the wait node reached 0: this folder goes on to m_wait.release()
        subst hn0
        rw [step_decB s tid hp hc]
        refine ⟨h.tree, by simpa using h.lenR, h.lenF, by simpa using h.lenS, ?_, ?_, ?_, ?_, h.wt, ?_, hbad⟩
        · intro j hj
          have e1 := cntDec_set s.pcs tid (.dec 0) .rel j hp
          simp only [show ¬ (Pc.rel = Pc.dec j) by simp, if_false, Pc.dec.injEq] at e1
          have e2 : liveKids t (s.refs.set 0 (s.refs.getD 0 0 - 1)) j = liveKids t s.refs j := by
            apply liveKids_set_same
            simp [kidLive]
          simp only
          rw [e2]
          by_cases e : 0 = j
          · subst e
            rw [getD_set_eq _ _ _ _ (by rw [h.lenR]; exact hn)]
            simp only [if_true] at e1
            omega
          · rw [getD_set_ne _ _ _ _ _ e]
            simp only [e, if_false] at e1
            have := h.R j hj
            omega
        · exact inb_set _ _ _ _ h.inb (by intro m hm; simp at hm)
        · intro j hj hf
          have := h.F j hj hf
          by_cases e : 0 = j
          · subst e; omega
          · simp only; rw [getD_set_ne _ _ _ _ _ e]; exact this
        · have hW := h.W
          have e3 := cntRel_set s.pcs tid (.dec 0) .rel hp
          simp only [show ¬ (Pc.dec 0 = Pc.rel) by simp, if_true, if_false] at e3
          simp only
          rw [getD_set_eq _ _ _ _ (by rw [h.lenR]; exact hn)]
          omega
        · exact S_set _ _ _ _ _ h.lenS h.S
      · -- a tree node reached 0: it is deleted and the folder moves on to the parent
        rw [step_decC s tid n hp hc hn0]
        have hm := hw.par n hn hn0
        rw [h.tree]
        have hkn : ∀ j, kidLive t (s.refs.set n (s.refs.getD n 0 - 1)) j n = false := by
          intro j
          simp only [kidLive]
          rw [getD_set_eq _ _ _ _ (by rw [h.lenR]; exact hn)]
          have : decide (0 < s.refs.getD n 0 - 1) = false := by apply decide_eq_false; omega
          rw [this]; simp
        have hko : ∀ j, kidLive t s.refs j n = (t.par.getD n 0 == j) := by
          intro j
          simp only [kidLive]
          have a1 : (n != 0) = true := by simp [hn0]
          have a2 : decide (0 < s.refs.getD n 0) = true := by simpa using hcpos
          rw [a1, a2]; simp
        refine ⟨rfl, by simpa using h.lenR, by simpa using h.lenF, by simpa using h.lenS, ?_, ?_, ?_, ?_, h.wt, ?_, hbad⟩
        · intro j hj
          have e1 := cntDec_set s.pcs tid (.dec n) (.dec (t.par.getD n 0)) j hp
          simp only [Pc.dec.injEq] at e1
          have e2 := liveKids_set_change t s.refs n (s.refs.getD n 0 - 1) j hn
          rw [hkn j, hko j] at e2
          simp only [Bool.false_eq_true, if_false, beq_iff_eq] at e2
          simp only
          by_cases e : n = j
          · subst e
            rw [getD_set_eq _ _ _ _ (by rw [h.lenR]; exact hn)]
            have : ¬ (t.par.getD n 0 = n) := by omega
            simp only [this, if_false, if_true] at e1 e2
            omega
          · rw [getD_set_ne _ _ _ _ _ e]
            simp only [e, if_false] at e1
            have := h.R j hj
            by_cases e' : t.par.getD n 0 = j
            · subst e'
              simp only [if_true] at e1 e2; omega
            · simp only [e', if_false] at e1 e2; omega
        · exact inb_set _ _ _ _ h.inb (by intro m he; injection he with he; omega)
        · intro j hj hf
          by_cases e : n = j
          · subst e
            simp only; rw [getD_set_eq _ _ _ _ (by rw [h.lenR]; exact hn)]; omega
          · simp only at hf ⊢
            rw [getD_set_ne _ _ _ _ _ e] at hf ⊢
            exact h.F j hj hf
        · have hW := h.W
          have e3 := cntRel_set s.pcs tid (.dec n) (.dec (t.par.getD n 0)) hp
          simp only [show ¬ (Pc.dec n = Pc.rel) by simp, show ¬ (Pc.dec (t.par.getD n 0) = Pc.rel) by simp, if_false] at e3
          simp only
          rw [getD_set_ne _ _ _ _ _ hn0]; omega
        · exact S_set _ _ _ _ _ h.lenS h.S

theorem inv_reachable (t : Tree) (hw : Wf t) (sched : List Tid) : FInv t ((sys t).run sched) :=
  Sys.inv_run (sys t) (FInv t) (inv_init t hw) (fun s tid h => inv_step t hw s tid h) sched

/-! ### consequences -/

theorem step_lengths (s : St) (tid : Tid) :
    (step s tid).pcs.length = s.pcs.length ∧ (step s tid).started.length = s.started.length := by
  cases hp : s.pcs[tid]? with
  | none => rw [step_none s tid hp]; exact ⟨rfl, rfl⟩
  | some pc =>
  cases pc with
  | done => rw [step_done s tid hp]; exact ⟨rfl, rfl⟩
  | rel => rw [step_rel s tid hp]; simp
  | dec n =>
    by_cases hc : s.refs.getD n 0 - 1 > 0
    · rw [step_decA s tid n hp hc]; simp
    · by_cases hn0 : n = 0
      · subst hn0; rw [step_decB s tid hp hc]; simp
      · rw [step_decC s tid n hp hc hn0]; simp

theorem lengths_reachable (t : Tree) (sched : List Tid) :
    ((sys t).run sched).pcs.length = t.leaf.length ∧ ((sys t).run sched).started.length = t.leaf.length := by
  refine Sys.inv_run (sys t) (fun s => s.pcs.length = t.leaf.length ∧ s.started.length = t.leaf.length) ?_ ?_ sched
  · simp [sys, init]
  · intro s tid h
    have := step_lengths s tid
    simp only [sys] at *
    omega

/-- the wait node is released at most once -/
theorem released_le_one {t : Tree} (hw : Wf t) {s : St} (h : FInv t s) : s.released ≤ 1 := by
  have hW := h.W
  have hR := h.R 0 hw.pos
  omega

/-- … and only after the last leaf has performed its first decrement -/
theorem released_all_started {t : Tree} (hw : Wf t) {s : St} (h : FInv t s) (hl : s.pcs.length = t.leaf.length)
    (hr : s.released = 1) : ∀ i, i < t.leaf.length → s.started.getD i false = true := by
  intro i hi
  have hls := h.lenS
  cases hs : s.started.getD i false with
  | true => rfl
  | false =>
    exfalso
    have hs' : s.started.getD i true = false := by
      rw [List.getD_eq_getElem?_getD] at hs ⊢
      cases hg : s.started[i]? with
      | none => rw [List.getElem?_eq_none_iff] at hg; omega
      | some b => rw [hg] at hs; simpa using hs
    have hp := h.S i hs'
    have hn := h.inb i _ hp
    have hcd : 0 < cntDec s.pcs (t.leaf.getD i 0) := countP_pos_of_getElem? _ _ i _ hp (by simp)
    have hR := h.R _ hn
    have h0 := root_pos t hw s h _ hn (by omega)
    have hW := h.W
    omega

/-- when every folder has finished, every count is 0 -/
theorem all_done_refs_zero {t : Tree} (hw : Wf t) {s : St} (h : FInv t s) (hd : ∀ p ∈ s.pcs, p = Pc.done) :
    ∀ k j, t.par.length - j ≤ k → j < t.par.length → s.refs.getD j 0 = 0 := by
  have hcd : ∀ j, cntDec s.pcs j = 0 := by
    intro j
    unfold cntDec
    apply List.countP_eq_zero.mpr
    intro p hp
    rw [hd p hp]; simp
  intro k
  induction k with
  | zero => intro j h1 h2; omega
  | succ k ih =>
    intro j h1 hj
    have hR := h.R j hj
    have : liveKids t s.refs j = 0 := by
      unfold liveKids
      apply List.countP_eq_zero.mpr
      intro c hc
      simp only [List.mem_range] at hc
      simp only [kidLive, Bool.and_eq_true, bne_iff_ne, ne_eq, beq_iff_eq, decide_eq_true_eq, not_and]
      intro hc0
      have := hw.par c hc hc0.1
      have hpar := hc0.2
      have := ih c (by omega) hc
      omega
    rw [hcd j, this] at hR
    simpa using hR

theorem all_done_released {t : Tree} (hw : Wf t) {s : St} (h : FInv t s) (hd : ∀ p ∈ s.pcs, p = Pc.done) :
    s.released = 1 := by
  have h0 := all_done_refs_zero hw h hd t.par.length 0 (by omega) hw.pos
  have hcr : cntRel s.pcs = 0 := by
    unfold cntRel
    apply List.countP_eq_zero.mpr
    intro p hp
    rw [hd p hp]; simp
  have hW := h.W
  rw [h0, hcr] at hW
  omega

end TbbVerif.C01.Fold
