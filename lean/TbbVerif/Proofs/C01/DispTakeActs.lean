/-
C01 / Dispatch: the five take actions preserve the invariant (bypass, pool: plain task / live proxy / emptied proxy,
mailbox: live proxy / emptied proxy, stream).
-/
import TbbVerif.Proofs.C01.DispTake

namespace TbbVerif.C01.Dispatch

theorem inv_actTakeBypass {s s' : St} {t : Tid} (h : Inv s) (he : actTakeBypass s t = some s') : Inv s' := by
  unfold actTakeBypass at he
  split at he
  · rename_i g w rest u hst hby
    split at he
    · simp at he
    · rename_i x hu
      split at he
      · rename_i hc
        obtain ⟨_, hx⟩ := hc
        simp only [Option.some.injEq] at he
        subst he
        refine inv_take h t _ u x rfl rfl rfl rfl hu hx hst ?_ (fun p => h.ipp p) (fun p => h.ipb p)
        intro v
        have e := count_set_add hby none (some v)
        simp only [occ, poolCount, streamCount, bypassCount, liveProxy]
        by_cases hv : u = v
        · subst hv; simp at e ⊢; omega
        · simp [hv] at e ⊢; omega
      · simp at he
  · simp at he

theorem inv_actTakeStream {s s' : St} {t : Tid} {kind i : Nat} (h : Inv s) (he : actTakeStream s t kind i = some s') :
    Inv s' := by
  unfold actTakeStream at he
  split at he
  · rename_i g w rest hst
    split at he
    · simp at he
    · rename_i k hk
      split at he
      · simp at he
      · rename_i a ha
        split at he
        · simp at he
        · rename_i S hS
          split at he
          · simp at he
          · rename_i u hSi
            split at he
            · simp at he
            · rename_i x hu
              split at he
              · rename_i hc
                obtain ⟨_, hby, _, hx⟩ := hc
                simp only [Option.some.injEq] at he
                subst he
                refine inv_containers h rfl rfl rfl rfl ?_ (fun p => h.ipp p) (fun p => h.ipb p)
                intro v
                have e := count_flatten_set_erase_add hS hSi v
                have e2 := count_set_add hby (some u) (some v)
                simp only [occ, poolCount, streamCount, bypassCount, liveProxy]
                by_cases hv : u = v
                · subst hv; simp at e e2 ⊢; omega
                · simp [hv] at e e2 ⊢; omega
              · simp at he
  · simp at he

theorem inv_actTakePool {s s' : St} {t : Tid} {v i : Nat} (h : Inv s) (he : actTakePool s t v i = some s') :
    Inv s' := by
  unfold actTakePool at he
  split at he
  · rename_i w rest hst
    split at he
    · rename_i k P hk hP
      split at he
      · rename_i hguard
        obtain ⟨hby, _⟩ := hguard
        split at he
        · simp at he
        · -- plain task: out of the pool, into the dispatcher's hand
          rename_i u hPi
          split at he
          · simp at he
          · rename_i x hu
            split at he
            · simp only [Option.some.injEq] at he
              subst he
              refine inv_containers h rfl rfl rfl rfl ?_ ?_ (fun p => h.ipb p)
              · intro z
                have e := count_flatten_set_erase_add hP hPi (Entry.task z)
                have e2 := count_set_add hby (some u) (some z)
                simp only [occ, poolCount, streamCount, bypassCount, liveProxy]
                by_cases hz : u = z
                · subst hz; simp at e e2 ⊢; omega
                · simp [hz] at e e2 ⊢; omega
              · intro p
                have e := count_flatten_set_erase_add hP hPi (Entry.proxy p)
                have := h.ipp p
                simp only [poolCount] at this ⊢
                simp at e
                omega
            · simp at he
        · -- proxy
          rename_i p hPi
          split at he
          · simp at he
          · rename_i X hX
            split at he
            · -- shared: the pool side wins the claim
              rename_i htag
              split at he
              · simp at he
              · rename_i x hu
                split at he
                · simp only [Option.some.injEq] at he
                  subst he
                  refine inv_containers h rfl rfl rfl rfl ?_ ?_ ?_
                  · intro z
                    have e := count_flatten_set_erase_add hP hPi (Entry.task z)
                    have e2 := liveProxy_set_dead hX htag .mboxCleans (by simp) z
                    have e3 := count_set_add hby (some X.unit) (some z)
                    simp only [occ, poolCount, streamCount, bypassCount, liveProxy]
                    simp at e
                    by_cases hz : X.unit = z
                    · simp [hz] at e2 e3 ⊢; omega
                    · simp [hz] at e2 e3 ⊢; omega
                  · intro q
                    have e := count_flatten_set_erase_add hP hPi (Entry.proxy q)
                    have hq := h.ipp q
                    simp only [poolCount] at hq ⊢
                    rw [proxies_set_get hX]
                    by_cases hpq : p = q
                    · subst hpq
                      rw [hX] at hq
                      simp [expPool, htag] at e hq ⊢
                      omega
                    · simp [hpq] at e ⊢
                      omega
                  · intro q
                    have hq := h.ipb q
                    simp only [boxCount] at hq ⊢
                    rw [proxies_set_get hX]
                    by_cases hpq : p = q
                    · subst hpq
                      rw [hX] at hq
                      simp [expBox, htag] at hq ⊢
                      omega
                    · simp [hpq]
                      omega
                · simp at he
            · -- poolCleans: the mailbox side took the task; the pool side frees the proxy
              rename_i htag
              simp only [Option.some.injEq] at he
              subst he
              refine inv_containers h rfl rfl rfl rfl ?_ ?_ ?_
              · intro z
                have e := count_flatten_set_erase_add hP hPi (Entry.task z)
                have e2 := liveProxy_set_same hX (by simp [htag]) .freed (by simp) z
                simp only [occ, poolCount, streamCount, bypassCount, liveProxy]
                simp at e
                omega
              · intro q
                have e := count_flatten_set_erase_add hP hPi (Entry.proxy q)
                have hq := h.ipp q
                simp only [poolCount] at hq ⊢
                rw [proxies_set_get hX]
                by_cases hpq : p = q
                · subst hpq
                  rw [hX] at hq
                  simp [expPool, htag] at e hq ⊢
                  omega
                · simp [hpq] at e ⊢
                  omega
              · intro q
                have hq := h.ipb q
                simp only [boxCount] at hq ⊢
                rw [proxies_set_get hX]
                by_cases hpq : p = q
                · subst hpq
                  rw [hX] at hq
                  simp [expBox, htag] at hq ⊢
                  omega
                · simp [hpq]
                  omega
            · simp at he
      · simp at he
    · simp at he
  · simp at he

/-- an emptied proxy is removed from a mailbox and freed (by the recipient, or at arena teardown) -/
theorem inv_box_free {s : St} (h : Inv s) {k i p : Nat} {B : List Nat} {X : Proxy}
    (hB : s.boxes[k]? = some B) (hBi : B[i]? = some p) (hX : s.proxies[p]? = some X) (htag : X.tag = .mboxCleans) :
    Inv { s with boxes := s.boxes.set k (B.eraseIdx i), proxies := s.proxies.set p { X with tag := .freed } } := by
  refine inv_containers h rfl rfl rfl rfl ?_ ?_ ?_
  · intro z
    have e2 := liveProxy_set_same hX (by simp [htag]) .freed (by simp) z
    simp only [occ, poolCount, streamCount, bypassCount, liveProxy]
    omega
  · intro q
    have hq := h.ipp q
    simp only [poolCount] at hq ⊢
    rw [proxies_set_get hX]
    by_cases hpq : p = q
    · subst hpq
      rw [hX] at hq
      simp [expPool, htag] at hq ⊢
      omega
    · simp [hpq]
      omega
  · intro q
    have e := count_flatten_set_erase_add hB hBi q
    have hq := h.ipb q
    simp only [boxCount] at hq ⊢
    rw [proxies_set_get hX]
    by_cases hpq : p = q
    · subst hpq
      rw [hX] at hq
      simp [expBox, htag] at e hq ⊢
      omega
    · simp [hpq] at e ⊢
      omega

theorem inv_actTakeBox {s s' : St} {t : Tid} {i : Nat} (h : Inv s) (he : actTakeBox s t i = some s') : Inv s' := by
  unfold actTakeBox at he
  split at he
  · rename_i w rest hst
    split at he
    · simp at he
    · rename_i k hk
      split at he
      · simp at he
      · rename_i B hB
        split at he
        · rename_i hguard
          obtain ⟨hby, _⟩ := hguard
          split at he
          · simp at he
          · rename_i p hBi
            split at he
            · simp at he
            · rename_i X hX
              split at he
              · -- shared: the mailbox side wins the claim
                rename_i htag
                split at he
                · simp at he
                · rename_i x hu
                  split at he
                  · simp only [Option.some.injEq] at he
                    subst he
                    refine inv_containers h rfl rfl rfl rfl ?_ ?_ ?_
                    · intro z
                      have e2 := liveProxy_set_dead hX htag .poolCleans (by simp) z
                      have e3 := count_set_add hby (some X.unit) (some z)
                      simp only [occ, poolCount, streamCount, bypassCount, liveProxy]
                      by_cases hz : X.unit = z
                      · simp [hz] at e2 e3 ⊢; omega
                      · simp [hz] at e2 e3 ⊢; omega
                    · intro q
                      have hq := h.ipp q
                      simp only [poolCount] at hq ⊢
                      rw [proxies_set_get hX]
                      by_cases hpq : p = q
                      · subst hpq
                        rw [hX] at hq
                        simp [expPool, htag] at hq ⊢
                        omega
                      · simp [hpq]
                        omega
                    · intro q
                      have e := count_flatten_set_erase_add hB hBi q
                      have hq := h.ipb q
                      simp only [boxCount] at hq ⊢
                      rw [proxies_set_get hX]
                      by_cases hpq : p = q
                      · subst hpq
                        rw [hX] at hq
                        simp [expBox, htag] at e hq ⊢
                        omega
                      · simp [hpq] at e ⊢
                        omega
                  · simp at he
              · -- mboxCleans: the pool side took the task; the mailbox side frees the proxy
                rename_i htag
                simp only [Option.some.injEq] at he
                subst he
                exact inv_box_free h hB hBi hX htag
              · simp at he
        · simp at he
  · simp at he

theorem inv_actDrainBox {s s' : St} {k i : Nat} (h : Inv s) (he : actDrainBox s k i = some s') : Inv s' := by
  unfold actDrainBox at he
  split at he
  · simp at he
  · rename_i B hB
    split at he
    · simp at he
    · rename_i p hBi
      split at he
      · simp at he
      · rename_i X hX
        split at he
        · rename_i htag
          simp only [Option.some.injEq] at he
          subst he
          exact inv_box_free h hB hBi hX htag
        · simp at he

end TbbVerif.C01.Dispatch
