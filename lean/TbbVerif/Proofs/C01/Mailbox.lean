/- C01 — mail_outbox (MPSC list, push = exchange on my_last then link store; single-consumer internal_pop with the
one-item CAS and the wait for the late link): definitions of the invariant. -/
import TbbVerif.Model.C01
import TbbVerif.Proofs.C01.Lists

namespace TbbVerif.C01.Mailbox
open Lists

def isoOf (s : St) (p : Nat) : Nat := s.isos.getD p 0

/-- the logical queue: proxies in the order of their exchange on `my_last`, minus the ones already popped -/
def queue (s : St) : List Nat := s.order.filter (fun p => !(popped s).contains p)

/-- the link field at the end of a segment that starts at link address `a` -/
def tailLink : Link → List Nat → Link
  | a, [] => a
  | _, p :: rest => tailLink (.next p) rest

/-- the link store of the pusher of `p` into address `a` is still outstanding -/
def pendingAt (s : St) (a : Link) (p : Nat) : Prop :=
  ∃ (k : Nat) (u : Pusher), s.pushers[k]? = some u ∧ u.pc = .link ∧ u.p = p ∧ u.link = a

/-- the consumer has cut the link `a → p` (prev_ptr->store(nullptr)) and has not yet finished popping `p` -/
def cutAt (s : St) (a : Link) (p : Nat) : Prop :=
  (s.cons.pc = .cas ∨ s.cons.pc = .spin ∨ s.cons.pc = .storeLate) ∧ s.cons.prev = a ∧ s.cons.curr = p

/-- `p` is the successor of link address `a`: physically linked, or the link is outstanding / cut -/
def Conn (s : St) (a : Link) (p : Nat) : Prop :=
  getLink s a = some p ∨ (getLink s a = none ∧ (pendingAt s a p ∨ cutAt s a p))

def ChainSeg (s : St) : Link → List Nat → Prop
  | _, [] => True
  | a, p :: rest => Conn s a p ∧ ChainSeg s (.next p) rest

theorem tailLink_append (a : Link) (l1 l2 : List Nat) : tailLink a (l1 ++ l2) = tailLink (tailLink a l1) l2 := by
  induction l1 generalizing a with
  | nil => rfl
  | cons p l1 ih => simp only [List.cons_append, tailLink]; exact ih _

theorem chainSeg_append (s : St) (a : Link) (l1 l2 : List Nat) :
    ChainSeg s a (l1 ++ l2) ↔ ChainSeg s a l1 ∧ ChainSeg s (tailLink a l1) l2 := by
  induction l1 generalizing a with
  | nil => simp [ChainSeg, tailLink]
  | cons p l1 ih =>
    simp only [List.cons_append, ChainSeg, tailLink]
    rw [ih]
    exact and_assoc.symm

/-- the link addresses at which a segment asserts a connection: its start and the `next` fields of all nodes but the last -/
def ConnAddr : Link → List Nat → Link → Prop
  | _, [], _ => False
  | a, p :: rest, b => b = a ∨ ConnAddr (.next p) rest b

/-- all link addresses of a segment including the one after its last node -/
def addrIn (a : Link) (l : List Nat) (b : Link) : Prop := b = a ∨ ∃ q ∈ l, b = .next q

theorem connAddr_addrIn (a : Link) (l : List Nat) (b : Link) (h : ConnAddr a l b) : b = a ∨ ∃ q ∈ l, b = .next q := by
  induction l generalizing a with
  | nil => exact absurd h (by simp [ConnAddr])
  | cons p l ih =>
    rcases h with h | h
    · exact Or.inl h
    · rcases ih (.next p) h with e | ⟨q, hq, e⟩
      · exact Or.inr ⟨p, by simp, e⟩
      · exact Or.inr ⟨q, by simp [hq], e⟩

theorem tailLink_addr (a : Link) (l : List Nat) : addrIn a l (tailLink a l) := by
  induction l generalizing a with
  | nil => exact Or.inl rfl
  | cons p l ih =>
    rcases ih (.next p) with h | ⟨q, hq, h⟩
    · exact Or.inr ⟨p, by simp, by simp only [tailLink]; exact h⟩
    · exact Or.inr ⟨q, by simp [hq], by simp only [tailLink]; exact h⟩

/-- the address after the last node is none of the addresses at which the segment asserts a connection -/
theorem connAddr_ne_tail (a : Link) (l : List Nat) (b : Link) (hnd : l.Nodup) (ha : ∀ q ∈ l, a ≠ .next q)
    (h : ConnAddr a l b) : b ≠ tailLink a l := by
  induction l generalizing a with
  | nil => exact absurd h (by simp [ConnAddr])
  | cons p l ih =>
    have hnd' := (List.nodup_cons.mp hnd)
    simp only [tailLink]
    rcases h with h | h
    · subst h
      rcases tailLink_addr (.next p) l with e | ⟨q, hq, e⟩
      · rw [e]; exact ha p (by simp)
      · rw [e]; exact ha q (by simp [hq])
    · apply ih (.next p) hnd'.2 _ h
      intro q hq e
      have : p = q := by injection e
      subst this
      exact hnd'.1 hq

theorem tailLink_cons_ne (a : Link) (p : Nat) (l : List Nat) (hnd : (p :: l).Nodup) (ha : ∀ q ∈ p :: l, a ≠ .next q) :
    tailLink a (p :: l) ≠ a := by
  have := tailLink_addr (.next p) l
  simp only [tailLink]
  rcases this with h | ⟨q, hq, h⟩
  · rw [h]; exact fun e => ha p (by simp) e.symm
  · rw [h]; exact fun e => ha q (by simp [hq]) e.symm

/-- `tailLink (.next c) post = .next c` only for the empty `post` (the nodes are distinct) -/
theorem tailLink_next_eq (c : Nat) (post : List Nat) (hnd : (c :: post).Nodup) :
    tailLink (.next c) post = .next c ↔ post = [] := by
  constructor
  · intro h
    cases post with
    | nil => rfl
    | cons p rest =>
      exfalso
      have hnd' : (p :: rest).Nodup := (List.nodup_cons.mp hnd).2
      have hc : ∀ q ∈ p :: rest, Link.next c ≠ Link.next q := by
        intro q hq e
        have : c = q := by injection e
        subst this
        exact (List.nodup_cons.mp hnd).1 hq
      exact tailLink_cons_ne (.next c) p rest hnd' hc h
  · intro h; subst h; rfl

/-- a segment only depends on the links / pushers / consumer facts at the addresses where it asserts a connection -/
theorem chainSeg_congr (s s' : St) (a : Link) (l : List Nat)
    (h : ∀ b p, ConnAddr a l b → Conn s b p → Conn s' b p) (hc : ChainSeg s a l) : ChainSeg s' a l := by
  induction l generalizing a with
  | nil => trivial
  | cons p l ih =>
    refine ⟨h a p (Or.inl rfl) hc.1, ih (.next p) ?_ hc.2⟩
    intro b q hb hcq
    exact h b q (Or.inr hb) hcq

theorem getLink_setLink_ne (s : St) (a b : Link) (v : Option Nat) (h : a ≠ b) : getLink (setLink s a v) b = getLink s b := by
  cases a with
  | first =>
    cases b with
    | first => exact absurd rfl h
    | next q => rfl
  | next p =>
    cases b with
    | first => rfl
    | next q =>
      have : p ≠ q := fun e => h (by rw [e])
      simp only [setLink, getLink]
      exact getD_set_ne _ _ _ _ _ this

theorem getLink_setLink_eq (s : St) (a : Link) (v : Option Nat) (h : ∀ p, a = .next p → p < s.nexts.length) :
    getLink (setLink s a v) a = v := by
  cases a with
  | first => rfl
  | next p =>
    simp only [setLink, getLink]
    exact getD_set_eq _ _ _ _ (h p rfl)

theorem setLink_fields (s : St) (a : Link) (v : Option Nat) :
    (setLink s a v).last = s.last ∧ (setLink s a v).order = s.order ∧ (setLink s a v).cons = s.cons ∧
    (setLink s a v).pushers = s.pushers ∧ (setLink s a v).isos = s.isos ∧ (setLink s a v).nexts.length = s.nexts.length := by
  cases a <;> simp [setLink]

theorem tailLink_first_nil (pre : List Nat) : tailLink .first pre = .first ↔ pre = [] := by
  constructor
  · intro h
    cases pre with
    | nil => rfl
    | cons p rest =>
      exfalso
      simp only [tailLink] at h
      rcases tailLink_addr (.next p) rest with e | ⟨q, _, e⟩ <;> rw [e] at h <;> exact absurd h (by simp)
  · intro h; subst h; rfl

theorem tailLink_snoc (a : Link) (l : List Nat) (r : Nat) : tailLink a (l ++ [r]) = .next r := by
  rw [tailLink_append]; rfl

/-- the two halves around an element that occurs once are determined -/
theorem split_unique (l1 l1' l2 l2' : List Nat) (a : Nat) (h1 : a ∉ l1) (h1' : a ∉ l1')
    (h : l1 ++ a :: l2 = l1' ++ a :: l2') : l1 = l1' ∧ l2 = l2' := by
  induction l1 generalizing l1' with
  | nil =>
    cases l1' with
    | nil => simp at h; exact ⟨rfl, h⟩
    | cons b l1' =>
      simp at h
      exact absurd h.1 (by intro e; subst e; simp at h1')
  | cons b l1 ih =>
    cases l1' with
    | nil =>
      simp at h
      exact absurd h.1.symm (by intro e; subst e; simp at h1)
    | cons b' l1' =>
      simp at h
      obtain ⟨e, h⟩ := h
      subst e
      have := ih l1' (by intro x; exact h1 (by simp [x])) (by intro x; exact h1' (by simp [x])) h
      exact ⟨by rw [this.1], this.2⟩

/-- in a duplicate-free queue the incoming link address determines the node -/
theorem incoming_unique (l pre post pre' post' : List Nat) (p p' : Nat) (hnd : l.Nodup)
    (hl : l = pre ++ p :: post) (hl' : l = pre' ++ p' :: post') (ht : tailLink .first pre = tailLink .first pre') :
    p = p' ∧ pre = pre' ∧ post = post' := by
  rcases List.eq_nil_or_concat pre with e | ⟨A, r, e⟩
  · subst e
    have : pre' = [] := (tailLink_first_nil pre').mp (by rw [← ht]; rfl)
    subst this
    simp at hl hl'
    rw [hl] at hl'
    simp at hl'
    exact ⟨hl'.1, rfl, hl'.2⟩
  · subst e
    simp only [List.concat_eq_append] at hl ht ⊢
    rcases List.eq_nil_or_concat pre' with e' | ⟨A', r', e'⟩
    · subst e'
      rw [tailLink_snoc] at ht
      exact absurd ht (by simp [tailLink])
    · subst e'
      simp only [List.concat_eq_append] at hl' ht ⊢
      rw [tailLink_snoc, tailLink_snoc] at ht
      have hr : r = r' := by injection ht
      subst hr
      rw [hl] at hl' hnd
      simp only [List.append_assoc, List.singleton_append] at hl' hnd
      have hnA : r ∉ A := by
        intro hm
        have := (List.nodup_append.mp hnd).2.2 r hm r (by simp)
        exact this rfl
      have hnA' : r ∉ A' := by
        intro hm
        rw [hl'] at hnd
        have := (List.nodup_append.mp hnd).2.2 r hm r (by simp)
        exact this rfl
      obtain ⟨e1, e2⟩ := split_unique A A' _ _ r hnA hnA' hl'
      simp at e2
      exact ⟨e2.1, by rw [e1], e2.2⟩

end TbbVerif.C01.Mailbox
